package main

import (
	"fmt"
	"math/rand"
	"runtime"
	"strconv"
	"strings"
	"sync"
	"sync/atomic"
	"time"

	"verifharness/hxlib"
)

const rule = "Each case is a scenario of op lines run in its own child process on the real modules/api packages " +
	"(mod/mgmt/start/manage/shutdown drive the lifecycle; spawn starts a managed execution of a given kind whose user " +
	"function is held until `finish` lets it end with its programmed outcome ok|err|canceled|restart|p:<panic value>; " +
	"burst runs free-running items concurrently; status/settle read the counters) and on the compiled Lean model; outputs " +
	"(returned error class, reports on the error channel, lastReportedError, counters, restart/re-run, HTTP status, " +
	"Start/ManageModules/Shutdown results, module statuses, child exit) are diffed line by line. Enumerated completely: " +
	"every kind of managed execution x 5 panic value classes x every position 1..n of the panicking item among n = 1..6 " +
	"concurrently held items, every lifecycle phase x value class x position; service worker x every panic value that is, " +
	"wraps or matches a sentinel error the code compares with (context.Canceled, ErrRestartNow, ErrCleanExit, DeadlineExceeded; " +
	"plain, %w-wrapped, errors.Join, Is method) x position, and sequences of them; every kind x error channel state " +
	"(`chan unset|0|1|2`: SetErrorReportingChannel of that capacity which only `recv`/`park` ops read) with more panics than " +
	"the channel holds, late and parked consumers, lifecycle routines and bursts with a full channel; " +
	"API handler functions of every endpoint type additionally with the option core/devMode on (and toggled within a scenario); " +
	"a stop routine that panics / fails / is healthy / is absent x every kind of work that ignores the cancellation and outlives a short stop timeout (`stoptimeout short`: the timeout branch of stopAllTasks) x the module stopped by Shutdown / by a management pass; " +
	"workers (service worker, StartWorker, RunWorker) launched before the module's start — from inside its prep routine or right after registration (`prespawn`) — that end, panicking, once the module is online; " +
	"plus service-worker outcome sequences, management passes, items ending at module stop, the same module through several lives (stopped and restarted with work before, during and after), random mixed scenarios, " +
	"free-running bursts and a malformed-op stream. Non-trivial = the case contains at least one executed panic; " +
	"distinct = distinct op-line sequence."

var mainPVs = []string{"nil", "err", "str", "rtidx", "struct"}
var extraPVs = []string{"rtnil", "rtdiv", "rtmap", "int", "ptrerr", "nilptr", "evil", "slice", "nilstrg",
	"canc", "wcanc", "iscanc", "joincanc", "rst", "wrst", "dl", "wdl", "cexit", "wcexit", "moderr", "nilerrptr"}

// sentinelPVs: panic values that are, wrap or match every sentinel error the managed-execution code compares a
// returned error with (worker.go: context.Canceled, ErrRestartNow; tasks.go: context.Canceled; start.go:
// ErrCleanExit), one it does not compare with (context.DeadlineExceeded), a panic error as panic value, a typed nil.
var sentinelPVs = []string{"canc", "wcanc", "iscanc", "joincanc", "rst", "wrst", "dl", "wdl", "cexit", "wcexit", "moderr", "nilerrptr"}

var workKinds = []string{"runworker", "startworker", "svc", "mt-run-high", "mt-run-med", "mt-run-low",
	"mt-start-high", "mt-start-med", "mt-start-low", "hook-trigger", "hook-inject"}
var taskKinds = []string{"task-queue", "task-prio", "task-asap", "task-sched", "task-repeat"}
var apiKinds = []string{"api-action", "api-data", "api-struct", "api-record", "api-handlerfunc", "api-rawhandler", "api-rawfunc"}

type spec struct {
	id, kind, outs, flag string
}

func (s spec) line() string {
	l := "spawn " + s.id + " " + s.kind + " " + s.outs
	if s.flag != "" {
		l += " " + s.flag
	}
	return l
}

// finishesNeeded: how many `finish` ops end the item (a service worker is re-entered after every
// outcome that is not ok/canceled).
func finishesNeeded(s spec) int {
	if s.kind != "svc" {
		return 1
	}
	n := 0
	for _, o := range strings.Split(s.outs, ",") {
		n++
		if o == "ok" || o == "canceled" {
			return n
		}
	}
	return n + 1 // after the programmed outcomes the function returns nil
}

func hasPanic(lines []string) bool {
	for _, l := range lines {
		if strings.Contains(l, "p:") {
			return true
		}
	}
	return false
}

type builder struct {
	r     *hxlib.Run
	cases []hxlib.Case
}

func (b *builder) add(kind string, lines []string, noModel bool) {
	b.cases = append(b.cases, hxlib.Case{Lines: lines, Kind: kind, NonTrivial: kind != "malformed" && hasPanic(lines), NoModel: noModel})
}

// prologue: bring the modules up; `settle` before the first reading because Start() may return before the
// start routine's goroutine has run its deferred ctrlFuncRunning.UnSet().
// devPrologue: API scenarios built now run with the option core/devMode switched on after the start.
var devPrologue bool

func prologue(api bool) []string {
	if api && devPrologue {
		return []string{"api", "start", "settle", "status", "devmode on"}
	}
	if api {
		return []string{"api", "start", "settle", "status"}
	}
	return []string{"mod A ok ok ok", "mod B - - -", "start", "settle", "status"}
}

func epilogue() []string { return []string{"status", "settle", "shutdown"} }

// itemCase: spawn all specs in order, finish them in the given order (a service worker stays in the
// rotation until it is done), re-run panicked tasks, then stop everything.
func (b *builder) itemCase(kind string, api bool, specs []spec, order []int) {
	lines := prologue(api)
	for _, s := range specs {
		lines = append(lines, s.line())
	}
	left := make([]int, len(specs))
	for i, s := range specs {
		left[i] = finishesNeeded(s)
	}
	for again := true; again; {
		again = false
		for _, i := range order {
			if left[i] > 0 {
				lines = append(lines, "finish "+specs[i].id)
				left[i]--
				if left[i] > 0 {
					again = true
				}
				if left[i] == 0 && strings.HasPrefix(specs[i].kind, "task-") {
					// the task that just ran (and possibly panicked) must be able to run again
					lines = append(lines, "requeue "+specs[i].id+" "+specs[i].kind+" ok", "finish "+specs[i].id)
				}
			}
		}
	}
	lines = append(lines, epilogue()...)
	b.add(kind, lines, false)
}

func perm(rng *rand.Rand, n int) []int { return rng.Perm(n) }

func healthyOutcome(rng *rand.Rand) string {
	if rng.Intn(3) == 0 {
		return "err"
	}
	return "ok"
}

// companion picks a healthy item kind that may run next to `kind`.
func companion(rng *rand.Rand, kind string, mixed bool) string {
	switch {
	case strings.HasPrefix(kind, "api-"):
		if mixed {
			return apiKinds[rng.Intn(len(apiKinds))]
		}
		return kind
	case strings.HasPrefix(kind, "task-"):
		return workKinds[rng.Intn(len(workKinds))] // one task at a time: its neighbours are workers and microtasks
	}
	if mixed {
		return workKinds[rng.Intn(len(workKinds))]
	}
	return kind
}

func (b *builder) tableCell(kind, pv string, n, p int, mixed bool) {
	rng := b.r.Rng
	api := strings.HasPrefix(kind, "api-")
	specs := make([]spec, n)
	for i := 0; i < n; i++ {
		id := strconv.Itoa(i + 1)
		if i == p {
			outs := "p:" + pv
			if kind == "svc" {
				outs += ",ok"
			}
			specs[i] = spec{id: id, kind: kind, outs: outs}
			continue
		}
		k := companion(rng, kind, mixed)
		o := healthyOutcome(rng)
		if k == "svc" && o == "err" {
			o = "err,ok"
		}
		specs[i] = spec{id: id, kind: k, outs: o}
	}
	b.r.Count("table:kind:" + kind)
	b.r.Count("table:pv:" + pv)
	b.r.Count(fmt.Sprintf("table:n=%d", n))
	b.r.Count(fmt.Sprintf("table:pos=%d", p+1))
	b.itemCase("table:"+kind, api, specs, perm(rng, n))
}

func (b *builder) lifecycleCell(phase, tok string, n, p int, deps bool) {
	lines := []string{}
	for i := 0; i < n; i++ {
		toks := []string{"ok", "ok", "ok"}
		// healthy modules: some without routines
		if i != p && b.r.Rng.Intn(4) == 0 {
			toks[b.r.Rng.Intn(3)] = "-"
		}
		if i == p {
			toks[map[string]int{"prep": 0, "start": 1, "stop": 2}[phase]] = tok
		}
		l := fmt.Sprintf("mod %c %s %s %s", 'A'+i, toks[0], toks[1], toks[2])
		if deps && i > 0 {
			// dependencies only point at earlier modules; the panicking stop routine may sit anywhere in the chain
			d := []string{}
			for j := 0; j < i; j++ {
				if b.r.Rng.Intn(2) == 0 {
					d = append(d, string(rune('A'+j)))
				}
			}
			if len(d) > 0 {
				l += " " + strings.Join(d, ",")
			}
		}
		lines = append(lines, l)
	}
	lines = append(lines, "start", "settle", "shutdown")
	b.r.Count("lifecycle:phase:" + phase)
	b.r.Count("lifecycle:tok:" + tok)
	b.r.Count(fmt.Sprintf("lifecycle:n=%d", n))
	b.add("lifecycle:"+phase, lines, false)
}

func (b *builder) mgmtCase() {
	rng := b.r.Rng
	n := 2 + rng.Intn(3)
	pvs := append(append([]string{}, mainPVs...), extraPVs...)
	bad := rng.Intn(n)
	phase := rng.Intn(2) // 0: start routine fails when enabled later, 1: stop routine fails when disabled
	tok := "p:" + pvs[rng.Intn(len(pvs))]
	if rng.Intn(6) == 0 {
		tok = "err"
	}
	lines := []string{}
	mg := "mgmt"
	for i := 0; i < n; i++ {
		toks := []string{"ok", "ok", "ok"}
		on := rng.Intn(2) == 0
		if i == bad {
			toks[1+phase] = tok
			on = phase == 1 // a failing start routine must not run during Start()
		}
		lines = append(lines, fmt.Sprintf("mod %c %s %s %s", 'A'+i, toks[0], toks[1], toks[2]))
		mg += fmt.Sprintf(" %c=%s", 'A'+i, map[bool]string{true: "on", false: "off"}[on])
	}
	lines = append(lines, mg, "start", "settle")
	// a few healthy toggles first
	for k := rng.Intn(3); k > 0; k-- {
		i := rng.Intn(n)
		if i == bad {
			continue
		}
		lines = append(lines, []string{"enable ", "disable "}[rng.Intn(2)]+string(rune('A'+i)), "manage", "settle")
	}
	if phase == 0 {
		lines = append(lines, "enable "+string(rune('A'+bad)), "manage", "settle")
		// the failed module is Offline again: a further pass tries (and fails) again
		if rng.Intn(2) == 0 {
			lines = append(lines, "manage", "settle")
		}
	} else {
		lines = append(lines, "disable "+string(rune('A'+bad)), "manage", "settle")
		// the module is offline again and can be started and stopped once more
		lines = append(lines, "enable "+string(rune('A'+bad)), "manage", "settle")
	}
	lines = append(lines, "shutdown")
	b.r.Count("mgmt:phase:" + []string{"start", "stop"}[phase])
	b.add("mgmt", lines, false)
}

func randOutcome(rng *rand.Rand, pPanic int, svc bool) string {
	pvs := append(append([]string{}, mainPVs...), extraPVs...)
	x := rng.Intn(100)
	switch {
	case x < pPanic:
		return "p:" + pvs[rng.Intn(len(pvs))]
	case x < pPanic+15:
		return "err"
	case svc && x < pPanic+25:
		return "restart"
	case x < pPanic+32:
		return "canceled"
	}
	return "ok"
}

func randOuts(rng *rand.Rand, kind string, pPanic int) string {
	if kind != "svc" {
		return randOutcome(rng, pPanic, false)
	}
	n := 1 + rng.Intn(5)
	os := make([]string, n)
	for i := range os {
		os[i] = randOutcome(rng, pPanic, true)
	}
	return strings.Join(os, ",")
}

// randomCase: mixed kinds, random outcomes, spawns and finishes interleaved at random.
func (b *builder) randomCase(api bool) {
	rng := b.r.Rng
	lines := prologue(api)
	type live struct {
		s    spec
		left int
	}
	var held []*live
	var idleTasks []spec
	taskBusy := false
	nextID := 1
	steps := 4 + rng.Intn(14)
	for k := 0; k < steps || len(held) > 0; k++ {
		doSpawn := k < steps && (len(held) == 0 || (len(held) < 6 && rng.Intn(2) == 0))
		if api && len(held) == 0 && rng.Intn(3) == 0 {
			lines = append(lines, "devmode "+[]string{"on", "off"}[rng.Intn(2)])
		}
		switch {
		case doSpawn:
			var kind string
			switch {
			case api:
				kind = apiKinds[rng.Intn(len(apiKinds))]
			case !taskBusy && rng.Intn(4) == 0:
				kind = taskKinds[rng.Intn(len(taskKinds))]
			default:
				kind = workKinds[rng.Intn(len(workKinds))]
			}
			if strings.HasPrefix(kind, "task-") && len(idleTasks) > 0 && rng.Intn(2) == 0 {
				// run an idle task again
				t := idleTasks[len(idleTasks)-1]
				idleTasks = idleTasks[:len(idleTasks)-1]
				o := randOutcome(rng, 40, false)
				lines = append(lines, "requeue "+t.id+" "+taskKinds[rng.Intn(len(taskKinds))]+" "+o)
				held = append(held, &live{spec{id: t.id, kind: t.kind, outs: o}, 1})
				taskBusy = true
				break
			}
			s := spec{id: strconv.Itoa(nextID), kind: kind, outs: randOuts(rng, kind, 45)}
			nextID++
			if api && (kind == "api-handlerfunc" || kind == "api-rawhandler" || kind == "api-rawfunc") && rng.Intn(4) == 0 {
				s.flag = "afterwrite"
			}
			lines = append(lines, s.line())
			held = append(held, &live{s, finishesNeeded(s)})
			if strings.HasPrefix(kind, "task-") {
				taskBusy = true
			}
			b.r.Count("random:kind:" + kind)
		default:
			i := rng.Intn(len(held))
			h := held[i]
			lines = append(lines, "finish "+h.s.id)
			h.left--
			if h.left == 0 {
				held = append(held[:i], held[i+1:]...)
				if strings.HasPrefix(h.s.kind, "task-") {
					taskBusy = false
					idleTasks = append(idleTasks, h.s)
				}
			}
		}
		if rng.Intn(8) == 0 {
			lines = append(lines, "status")
		}
	}
	lines = append(lines, epilogue()...)
	kind := "random"
	if api {
		kind = "random-api"
	}
	b.add(kind, lines, false)
}

// restartCase: the SAME module object through several lives (module management stops and starts it again):
// work with panics in the first life, items ending at the stop, then work with panics on the restarted
// module (fresh context, stop flag cleared, counters carried over).
func (b *builder) restartCase() {
	rng := b.r.Rng
	stopTok := []string{"ok", "-", "p:str", "p:nil", "err"}[rng.Intn(5)]
	lines := []string{"mod A ok ok " + stopTok, "mod B - - -", "mgmt A=on B=on", "start", "settle", "status"}
	id := 1
	lives := 2 + rng.Intn(2)
	for life := 0; life < lives; life++ {
		n := 1 + rng.Intn(4)
		var specs []spec
		task := false
		for i := 0; i < n; i++ {
			k := workKinds[rng.Intn(len(workKinds))]
			if !task && rng.Intn(4) == 0 {
				k = taskKinds[rng.Intn(len(taskKinds))]
				task = true
			}
			specs = append(specs, spec{id: strconv.Itoa(id), kind: k, outs: randOuts(rng, k, 50)})
			id++
			b.r.Count("restart:kind:" + k)
		}
		for _, s := range specs {
			lines = append(lines, s.line())
		}
		left := make([]int, len(specs))
		for i, s := range specs {
			left[i] = finishesNeeded(s)
		}
		for again := true; again; {
			again = false
			for _, i := range rng.Perm(len(specs)) {
				if left[i] > 0 {
					lines = append(lines, "finish "+specs[i].id)
					left[i]--
					again = again || left[i] > 0
				}
			}
		}
		lines = append(lines, "status")
		if life < lives-1 {
			// one item that ends (perhaps panicking) only when the module stops
			if rng.Intn(2) == 0 {
				k := []string{"runworker", "startworker", "svc", "mt-start-high", "hook-trigger"}[rng.Intn(5)]
				lines = append(lines, spec{id: strconv.Itoa(id), kind: k, outs: randOutcome(rng, 60, false), flag: "onstop"}.line())
				id++
			}
			lines = append(lines, "disable A", "manage", "settle", "enable A", "manage", "settle", "status")
		}
	}
	lines = append(lines, "settle", "shutdown")
	b.add("restart", lines, false)
}

// earlyLaunchCase: workers of the subject module that are launched before the module is started — right after
// registration (`reg`) or from inside its prep routine (`prep`) — and whose function ends (panicking) after the
// module has come online. Module.start() cancels the context the module had until
// then and installs a new one; the work launched earlier is managed like any other.
func (b *builder) earlyLaunchCase(at string, firstKind string, firstOuts string, extra int) {
	rng := b.r.Rng
	stopTok := []string{"ok", "-", "p:str", "err"}[rng.Intn(4)]
	lines := []string{"mod A ok ok " + stopTok, "mod B - - -", "status"}
	var pre []spec
	pre = append(pre, spec{id: "1", kind: firstKind, outs: firstOuts, flag: at})
	for i := 0; i < extra; i++ {
		k := []string{"svc", "svc", "startworker", "runworker"}[rng.Intn(4)]
		a := at
		if rng.Intn(3) == 0 {
			a = []string{"reg", "prep"}[rng.Intn(2)]
		}
		pre = append(pre, spec{id: strconv.Itoa(i + 2), kind: k, outs: randOuts(rng, k, 70), flag: a})
	}
	left := map[string]int{}
	for _, s := range pre {
		lines = append(lines, "prespawn "+s.id+" "+s.kind+" "+s.outs+" "+s.flag)
		left[s.id] = finishesNeeded(s)
		b.r.Count("early:" + s.flag + ":" + s.kind)
	}
	// (no `finish` before the start: the counters are read through modules.GetStatus(), which answers nil until Start
	// has locked the module registry — the lines of such a step could not be compared)
	lines = append(lines, "start", "status")
	// work started the usual way next to it
	all := append([]spec{}, pre...)
	for i := rng.Intn(3); i > 0; i-- {
		k := workKinds[rng.Intn(len(workKinds))]
		s := spec{id: strconv.Itoa(len(all) + 1), kind: k, outs: randOuts(rng, k, 50)}
		lines = append(lines, s.line())
		left[s.id] = finishesNeeded(s)
		all = append(all, s)
	}
	for again := true; again; {
		again = false
		for _, i := range rng.Perm(len(all)) {
			if id := all[i].id; left[id] > 0 {
				lines = append(lines, "finish "+id)
				left[id]--
				again = again || left[id] > 0
			}
		}
	}
	lines = append(lines, epilogue()...)
	b.add("early-launch", lines, false)
}

// onstopCase: items that end (some panicking) only when the module context is cancelled by Shutdown.
func (b *builder) onstopCase() {
	rng := b.r.Rng
	stopTok := "ok"
	switch rng.Intn(4) {
	case 0:
		stopTok = "p:" + mainPVs[rng.Intn(len(mainPVs))]
	case 1:
		stopTok = "-"
	}
	lines := []string{"mod A ok ok " + stopTok, "mod B - - -", "start", "settle", "status"}
	n := 1 + rng.Intn(5)
	kinds := append(append([]string{}, workKinds...), "task-queue")
	task := false
	for i := 0; i < n; i++ {
		k := kinds[rng.Intn(len(kinds))]
		if k == "task-queue" {
			if task {
				k = "runworker"
			}
			task = true
		}
		o := randOutcome(rng, 50, false)
		if k == "svc" {
			o = randOuts(rng, k, 50)
		}
		lines = append(lines, spec{id: strconv.Itoa(i + 1), kind: k, outs: o, flag: "onstop"}.line())
		b.r.Count("onstop:kind:" + k)
	}
	lines = append(lines, "status", "shutdown")
	b.add("onstop", lines, false)
}

// stopTimeoutCase: the stop-TIMEOUT branch of stopAllTasks. Module A has a stop routine that panics (fails / is
// healthy / is absent) and a piece of work that ignores the cancellation (held, not `onstop`) and so outlives the
// short stop timeout; A is stopped by Shutdown or by a management pass. The stop routine's panic has to come back as
// the error of Shutdown / ManageModules there too. Next to the lingering work: items that end (some panicking) at the
// cancellation, an item that finished before, a second module with a (panicking) stop routine that A depends on.
func (b *builder) stopTimeoutCase(byMgmt bool, lingerKind, stopTok string) {
	rng := b.r.Rng
	lines := []string{"stoptimeout short"}
	third := rng.Intn(3) == 0
	if third {
		tokC := []string{"ok", "p:str", "p:err", "-", "err"}[rng.Intn(5)]
		lines = append(lines, "mod C ok ok "+tokC, "mod A ok ok "+stopTok+" C", "mod B - - -")
	} else {
		lines = append(lines, "mod A ok ok "+stopTok, "mod B - - -")
	}
	if byMgmt {
		if third {
			lines = append(lines, "mgmt A=on B=on C=off") // C is needed by A only: it goes down with A
		} else {
			lines = append(lines, "mgmt A=on B=on")
		}
	}
	lines = append(lines, "start", "settle", "status")
	id := 1
	linger := []string{}
	spawn := func(kind, outs, flag string) string {
		l := spec{id: strconv.Itoa(id), kind: kind, outs: outs, flag: flag}.line()
		id++
		return l
	}
	lines = append(lines, spawn(lingerKind, "ok", ""))
	linger = append(linger, "1")
	if rng.Intn(4) == 0 {
		k := workKinds[rng.Intn(len(workKinds))]
		lines = append(lines, spawn(k, randOutcome(rng, 40, false), ""))
		linger = append(linger, strconv.Itoa(id-1))
		b.r.Count("stop-timeout:second-lingering:" + k)
	}
	if rng.Intn(2) == 0 { // an item that has finished (perhaps by a panic) before the stop
		k := workKinds[rng.Intn(len(workKinds))]
		o := randOutcome(rng, 50, false)
		if k == "svc" {
			o = "ok"
		}
		lines = append(lines, spawn(k, o, ""), "finish "+strconv.Itoa(id-1))
	}
	// items that end when the context is cancelled; at most one of them by a panic (which of two concurrent panics is
	// reported last — `last=` of the following lines — is up to the scheduler)
	for n, first := rng.Intn(3), true; n > 0; n, first = n-1, false {
		k := []string{"runworker", "startworker", "svc", "mt-start-high", "mt-run-high", "hook-trigger"}[rng.Intn(6)]
		o := healthyOutcome(rng)
		if first {
			o = randOutcome(rng, 50, false)
		}
		lines = append(lines, spawn(k, o, "onstop"))
		b.r.Count("stop-timeout:onstop:" + k)
	}
	lines = append(lines, "status")
	if byMgmt {
		lines = append(lines, "disable A", "manage", "status")
		for _, l := range linger {
			lines = append(lines, "finish "+l)
		}
		lines = append(lines, "status", "settle", "shutdown")
	} else {
		lines = append(lines, "shutdown")
	}
	b.r.Count("stop-timeout:lingering:" + lingerKind)
	b.r.Count("stop-timeout:stop-routine:" + strings.SplitN(stopTok, ":", 2)[0])
	b.r.Count("stop-timeout:by:" + map[bool]string{true: "management-pass", false: "shutdown"}[byMgmt])
	b.add("stop-timeout", lines, false)
}

func (b *builder) burstCase(api bool) {
	rng := b.r.Rng
	n := 2 + rng.Intn(14)
	items := make([]string, n)
	task := false
	for i := range items {
		var k string
		switch {
		case api:
			k = apiKinds[rng.Intn(len(apiKinds))]
		case !task && rng.Intn(5) == 0:
			task = true
			k = taskKinds[rng.Intn(len(taskKinds))]
		default:
			k = workKinds[rng.Intn(len(workKinds))]
		}
		o := randOuts(rng, k, 50)
		if k == "svc" {
			o += ",ok"
		}
		items[i] = k + "=" + o
		b.r.Count("burst:kind:" + k)
	}
	devPrologue = api && rng.Intn(2) == 0
	lines := append(prologue(api), "burst "+strings.Join(items, " "))
	devPrologue = false
	if api && rng.Intn(2) == 0 {
		lines = append(lines, "devmode "+[]string{"on", "off"}[rng.Intn(2)])
	}
	if rng.Intn(2) == 0 {
		items2 := make([]string, 1+rng.Intn(6))
		for i := range items2 {
			k := workKinds[rng.Intn(len(workKinds))]
			if api {
				k = apiKinds[rng.Intn(len(apiKinds))]
			}
			o := randOuts(rng, k, 50)
			if k == "svc" {
				o += ",ok"
			}
			items2[i] = k + "=" + o
		}
		lines = append(lines, "burst "+strings.Join(items2, " "))
	}
	lines = append(lines, "settle", "shutdown") // (lastReportedError after a concurrent burst depends on the schedule)
	kind := "burst"
	if api {
		kind = "burst-api"
	}
	b.add(kind, lines, false)
}

// malformedCase: ops that must be rejected (or are out of order) — both sides have to agree on them too.
func (b *builder) malformedCase() {
	rng := b.r.Rng
	pool := []string{
		"", "nop", "mod", "mod A ok ok", "mod a ok ok ok", "mod A ok ok ok", "mod A ok ok ok", "mod B - - - A", "mod C ok ok ok Z",
		"mod D canceled ok ok", "mod D ok restart ok", "mod D p:zzz ok ok", "mod api ok ok ok", "mod E p:str ok ok X,Y",
		"mgmt", "mgmt A=on", "mgmt A=maybe", "mgmt Q=on", "enable A", "disable Q", "start", "start now", "manage", "manage x",
		"status", "status x", "settle", "settle x", "shutdown", "shutdown now", "api", "api x",
		"spawn", "spawn 1 runworker", "spawn 1 runworker ok", "spawn 1 runworker ok", "spawn 2 nosuchkind ok", "spawn 3 runworker p:zzz",
		"spawn 4 runworker ok,", "spawn 5 runworker ok onstop extra", "spawn 6 runworker ok afterwrite", "spawn 7 api-action ok",
		"spawn 8 task-queue ok", "spawn 9 task-prio ok", "spawn 10 hook-trigger ok", "spawn 11 svc p:str,restart,ok",
		"spawn 12 mt-run-low p:nil somethingelse", "spawn 13 api-data ok onstop",
		"finish", "finish 1", "finish 1", "finish 99", "finish 8", "finish 11", "finish 1 2",
		"requeue 8 task-queue ok", "requeue 1 task-queue ok", "requeue 8 runworker ok", "requeue 8 task-asap", "requeue 77 task-queue ok",
		"burst", "burst runworker", "burst runworker=zzz", "burst nosuch=ok", "burst runworker=ok api-action=ok",
	}
	n := 6 + rng.Intn(14)
	lines := make([]string, 0, n+3)
	for i := 0; i < n; i++ {
		l := pool[rng.Intn(len(pool))]
		// never leave non-onstop work held at the end: the scenario epilogue finishes known ids
		lines = append(lines, l)
	}
	// release whatever may be held (ids used by the pool), then stop
	for _, id := range []string{"1", "7", "8", "9", "10", "11", "11", "11", "12"} {
		lines = append(lines, "finish "+id)
	}
	lines = append(lines, "settle", "shutdown", "status")
	b.r.Count("malformed:cases")
	b.add("malformed", lines, false)
}

// svcSentinelSeq: a service worker whose runs panic with sentinel-like values, return restart requests and
// errors in between, and finally finish.
func (b *builder) svcSentinelSeq() {
	rng := b.r.Rng
	n := 2 + rng.Intn(4)
	os := make([]string, 0, n+1)
	for i := 0; i < n; i++ {
		switch x := rng.Intn(10); {
		case x < 6:
			os = append(os, "p:"+sentinelPVs[rng.Intn(len(sentinelPVs))])
		case x < 7:
			os = append(os, "p:"+mainPVs[rng.Intn(len(mainPVs))])
		case x < 8:
			os = append(os, "restart")
		default:
			os = append(os, "err")
		}
	}
	os = append(os, []string{"ok", "canceled"}[rng.Intn(2)])
	specs := []spec{{id: "1", kind: "svc", outs: strings.Join(os, ",")}}
	for i := rng.Intn(3); i > 0; i-- {
		k := workKinds[rng.Intn(len(workKinds))]
		o := healthyOutcome(rng)
		if k == "svc" && o == "err" {
			o = "err,ok"
		}
		specs = append(specs, spec{id: strconv.Itoa(len(specs) + 1), kind: k, outs: o})
	}
	b.r.Count("svc-sentinel-seq")
	b.itemCase("svc-sentinel", false, specs, perm(rng, len(specs)))
}

func allPVs() []string { return append(append([]string{}, mainPVs...), extraPVs...) }

func chanPrologue(api bool, capTok, stopTok string) []string {
	if api && devPrologue {
		return []string{"api", "chan " + capTok, "start", "settle", "status", "devmode on"}
	}
	if api {
		return []string{"api", "chan " + capTok, "start", "settle", "status"}
	}
	return []string{"mod A ok ok " + stopTok, "mod B - - -", "chan " + capTok, "start", "settle", "status"}
}

// chanKindCase: one kind of managed execution, an error channel of the given state that nobody reads, and more
// panics than it can hold; then a late consumer, a further panic (room again), and the stop.
func (b *builder) chanKindCase(kind, capTok string) {
	rng := b.r.Rng
	api := strings.HasPrefix(kind, "api-")
	task := strings.HasPrefix(kind, "task-")
	pvs := allPVs()
	capN := 0
	if capTok != "unset" {
		capN, _ = strconv.Atoi(capTok)
	}
	stopTok := []string{"ok", "ok", "p:str", "p:wcanc", "-"}[rng.Intn(5)]
	devPrologue = api && rng.Intn(2) == 0
	lines := chanPrologue(api, capTok, stopTok)
	devPrologue = false
	k := capN + 1 + rng.Intn(2)
	id := 0
	one := func() spec {
		id++
		outs := "p:" + pvs[rng.Intn(len(pvs))]
		if kind == "svc" {
			outs += ",ok"
		}
		return spec{id: strconv.Itoa(id), kind: kind, outs: outs}
	}
	finishAll := func(specs []spec) {
		left := make([]int, len(specs))
		for i, s := range specs {
			left[i] = finishesNeeded(s)
		}
		for again := true; again; {
			again = false
			for _, i := range rng.Perm(len(specs)) {
				if left[i] > 0 {
					lines = append(lines, "finish "+specs[i].id)
					left[i]--
					again = again || left[i] > 0
				}
			}
		}
	}
	if task {
		// one task at a time; the same task object is run again and again
		s := one()
		lines = append(lines, s.line(), "finish "+s.id)
		for i := 1; i < k; i++ {
			lines = append(lines, "requeue "+s.id+" "+kind+" p:"+pvs[rng.Intn(len(pvs))], "finish "+s.id)
		}
		if capTok != "unset" {
			lines = append(lines, "recv 1")
		}
		lines = append(lines, "requeue "+s.id+" "+kind+" p:"+pvs[rng.Intn(len(pvs))], "finish "+s.id, "status")
		lines = append(lines, "requeue "+s.id+" "+kind+" ok", "finish "+s.id)
	} else {
		var specs []spec
		for i := 0; i < k; i++ {
			specs = append(specs, one())
		}
		for _, s := range specs {
			lines = append(lines, s.line())
		}
		lines = append(lines, "status")
		finishAll(specs)
		if capTok != "unset" {
			lines = append(lines, "recv 1")
		}
		s := one()
		lines = append(lines, s.line())
		finishAll([]spec{s})
		lines = append(lines, "status")
	}
	if capTok != "unset" {
		lines = append(lines, "recv all")
	}
	lines = append(lines, "settle", "shutdown")
	b.r.Count("chan:kind:" + kind)
	b.r.Count("chan:cap:" + capTok)
	b.add("chan:"+kind, lines, false)
}

// chanMixedCase: mixed kinds and outcomes on a small channel, the consumer reading late, partially, or parked.
func (b *builder) chanMixedCase() {
	rng := b.r.Rng
	capTok := []string{"0", "0", "1", "1", "2", "3", "unset"}[rng.Intn(7)]
	set := capTok != "unset"
	pvs := allPVs()
	stopTok := []string{"ok", "p:str", "p:canc", "-"}[rng.Intn(4)]
	lines := chanPrologue(false, capTok, stopTok)
	type live struct {
		s    spec
		left int
	}
	var held []*live
	taskBusy := false
	nextID := 1
	steps := 6 + rng.Intn(12)
	for k := 0; k < steps || len(held) > 0; k++ {
		x := rng.Intn(10)
		switch {
		case k < steps && (len(held) == 0 || (len(held) < 5 && x < 4)):
			kind := workKinds[rng.Intn(len(workKinds))]
			if !taskBusy && rng.Intn(4) == 0 {
				kind = taskKinds[rng.Intn(len(taskKinds))]
				taskBusy = true
			}
			outs := "p:" + pvs[rng.Intn(len(pvs))]
			if rng.Intn(5) == 0 {
				outs = randOutcome(rng, 0, false)
			}
			if kind == "svc" {
				outs = randOuts(rng, kind, 70)
			}
			s := spec{id: strconv.Itoa(nextID), kind: kind, outs: outs}
			nextID++
			lines = append(lines, s.line())
			held = append(held, &live{s, finishesNeeded(s)})
		case set && x == 9:
			lines = append(lines, fmt.Sprintf("recv %d", rng.Intn(3)))
		case set && x == 8:
			lines = append(lines, "park") // rejected by both sides while the buffer is not empty
		default:
			i := rng.Intn(len(held))
			h := held[i]
			lines = append(lines, "finish "+h.s.id)
			h.left--
			if h.left == 0 {
				held = append(held[:i], held[i+1:]...)
				if strings.HasPrefix(h.s.kind, "task-") {
					taskBusy = false
				}
			}
		}
	}
	lines = append(lines, "status")
	if set {
		lines = append(lines, "recv all")
	}
	lines = append(lines, "settle", "shutdown")
	b.r.Count("chan:mixed:cap:" + capTok)
	b.add("chan:mixed", lines, false)
}

// chanParkCase: consumers parked in a receive (the only way an unbuffered channel takes a report).
func (b *builder) chanParkCase() {
	rng := b.r.Rng
	capTok := []string{"0", "0", "1"}[rng.Intn(3)]
	pvs := allPVs()
	lines := chanPrologue(false, capTok, "ok")
	parks := 1 + rng.Intn(2)
	for i := 0; i < parks; i++ {
		lines = append(lines, "park")
	}
	n := parks + 1 + rng.Intn(3)
	kinds := []string{"runworker", "startworker", "mt-run-high", "mt-start-med", "hook-trigger", "svc", "mt-run-low"}
	for i := 0; i < n; i++ {
		k := kinds[rng.Intn(len(kinds))]
		outs := "p:" + pvs[rng.Intn(len(pvs))]
		id := strconv.Itoa(i + 1)
		if k == "svc" {
			lines = append(lines, "spawn "+id+" svc "+outs+",ok", "finish "+id, "finish "+id)
		} else {
			lines = append(lines, "spawn "+id+" "+k+" "+outs, "finish "+id)
		}
		if rng.Intn(4) == 0 {
			lines = append(lines, "recv all", "park")
		}
	}
	lines = append(lines, "status", "recv all", "settle", "shutdown")
	b.r.Count("chan:park:cap:" + capTok)
	b.add("chan:park", lines, false)
}

// chanLifecycleCase: one panicking prep/start/stop routine while the error channel is unset, unbuffered or small.
func (b *builder) chanLifecycleCase(phase, capTok string) {
	rng := b.r.Rng
	pvs := allPVs()
	n := 1 + rng.Intn(4)
	p := rng.Intn(n)
	tok := "p:" + pvs[rng.Intn(len(pvs))]
	var lines []string
	decl := make([]string, n)
	for i := 0; i < n; i++ {
		toks := []string{"ok", "ok", "ok"}
		if i != p && rng.Intn(4) == 0 {
			toks[rng.Intn(3)] = "-"
		}
		if i == p {
			toks[map[string]int{"prep": 0, "start": 1, "stop": 2}[phase]] = tok
		}
		decl[i] = fmt.Sprintf("mod %c %s %s %s", 'A'+i, toks[0], toks[1], toks[2])
	}
	// A failing prep/start routine runs on its own: either everything else depends on its module, or its module
	// depends on everything else. (Next to routines of other modules a failed start routine may be launched a
	// second time within the pass — C01's subject — and the channel would then hold the reports of two runs.)
	if phase != "stop" && n > 1 {
		var others []string
		for i := 0; i < n; i++ {
			if i != p {
				others = append(others, string(rune('A'+i)))
			}
		}
		if rng.Intn(2) == 0 {
			lines = append(lines, decl[p])
			for i := 0; i < n; i++ {
				if i != p {
					lines = append(lines, decl[i]+" "+string(rune('A'+p)))
				}
			}
		} else {
			for i := 0; i < n; i++ {
				if i != p {
					lines = append(lines, decl[i])
				}
			}
			lines = append(lines, decl[p]+" "+strings.Join(others, ","))
		}
	} else {
		lines = append(lines, decl...)
	}
	lines = append(lines, "chan "+capTok, "start", "settle", "status")
	if capTok != "unset" && rng.Intn(2) == 0 {
		lines = append(lines, "recv all")
	}
	lines = append(lines, "shutdown")
	b.r.Count("chan:lifecycle:" + phase + ":" + capTok)
	b.add("chan:lifecycle:"+phase, lines, false)
}

// chanBurstCase: free-running concurrent panics into a small channel.
func (b *builder) chanBurstCase() {
	rng := b.r.Rng
	capTok := []string{"0", "1", "2", "4", "unset"}[rng.Intn(5)]
	pvs := allPVs()
	lines := chanPrologue(false, capTok, []string{"ok", "p:rtidx"}[rng.Intn(2)])
	for round := 1 + rng.Intn(2); round > 0; round-- {
		n := 2 + rng.Intn(10)
		items := make([]string, n)
		task := false
		for i := range items {
			k := workKinds[rng.Intn(len(workKinds))]
			if !task && rng.Intn(6) == 0 {
				task = true
				k = taskKinds[rng.Intn(len(taskKinds))]
			}
			o := "p:" + pvs[rng.Intn(len(pvs))]
			if rng.Intn(4) == 0 {
				o = "ok"
			}
			if k == "svc" {
				o += ",ok"
			}
			items[i] = k + "=" + o
		}
		lines = append(lines, "burst "+strings.Join(items, " "))
		if capTok != "unset" {
			lines = append(lines, "recvn")
		}
	}
	lines = append(lines, "settle", "shutdown")
	b.r.Count("chan:burst:cap:" + capTok)
	b.add("chan:burst", lines, false)
}

func generate(r *hxlib.Run, emit func(hxlib.Case)) {
	b := &builder{r: r}
	rng := r.Rng

	// regression corpus: the hand-written scenarios of the first hour
	b.add("corpus", []string{"mod A ok ok ok", "mod B ok ok ok", "start", "settle", "status", "spawn 1 runworker p:str", "spawn 2 runworker ok",
		"spawn 3 startworker p:nil", "spawn 4 svc p:err,p:rtidx,ok", "spawn 5 mt-run-high p:struct", "spawn 6 mt-run-med p:rtnil",
		"spawn 7 mt-start-low p:evil", "spawn 8 task-queue p:str", "spawn 9 hook-trigger p:int", "finish 2", "finish 1", "finish 3",
		"finish 4", "finish 4", "finish 4", "finish 5", "finish 6", "finish 7", "finish 8", "requeue 8 task-queue ok", "finish 8",
		"finish 9", "status", "settle", "shutdown"}, false)
	b.add("corpus", []string{"api", "start", "settle", "status", "spawn 1 api-action p:str", "spawn 2 api-data ok", "spawn 3 api-struct p:nil",
		"spawn 4 api-record p:rtidx", "spawn 5 api-handlerfunc p:struct", "spawn 6 api-rawhandler p:err", "spawn 7 api-rawfunc p:abort",
		"spawn 8 api-handlerfunc p:str afterwrite", "spawn 9 api-action err", "finish 2", "finish 1", "finish 3", "finish 4", "finish 5",
		"finish 6", "finish 7", "finish 8", "finish 9", "settle", "shutdown"}, false)
	b.add("corpus", []string{"mod A ok ok ok", "mod B ok p:str ok", "mod C ok ok p:int", "mgmt A=on B=off C=on", "start", "settle",
		"enable B", "manage", "settle", "disable C", "manage", "settle", "shutdown"}, false)

	b.add("corpus", []string{"mod A ok ok ok", "mod B - - -", "start", "settle", "status", "spawn 1 svc p:canc,p:wrst,p:iscanc,p:joincanc,canceled",
		"spawn 2 runworker p:wcanc", "finish 1", "finish 2", "finish 1", "finish 1", "finish 1", "finish 1", "status", "settle", "shutdown"}, false)
	b.add("corpus", []string{"mod A ok ok p:str", "mod B - - -", "chan 1", "start", "settle", "status", "spawn 1 runworker p:str",
		"spawn 2 runworker p:err", "spawn 3 mt-run-high p:nil", "finish 1", "finish 2", "finish 3", "status", "recv 1",
		"spawn 4 task-queue p:rtidx", "finish 4", "requeue 4 task-queue ok", "finish 4", "recv all", "settle", "shutdown"}, false)

	// a stop routine that panics while a worker of the module outlives the (short) stop timeout: by Shutdown, by a
	// management pass
	b.add("corpus", []string{"stoptimeout short", "mod A ok ok p:str", "mod B - - -", "start", "settle", "status", "spawn 1 startworker ok",
		"status", "shutdown"}, false)
	b.add("corpus", []string{"stoptimeout short", "mod A ok ok p:err", "mod B - - -", "mgmt A=on B=on", "start", "settle", "status",
		"spawn 1 task-queue ok", "spawn 2 runworker p:str onstop", "status", "disable A", "manage", "status", "finish 1", "status", "settle", "shutdown"}, false)
	// 0. stop routine outcome x kind of the work that outlives the stop timeout x who stops the module
	// (drawn from a generator of its own, so that the scenarios of the older classes are the same as before for a seed)
	{
		shared := r.Rng
		r.Rng = rand.New(rand.NewSource(r.Seed*7919 + 506))
		rng := r.Rng
		lingerKinds := append(append([]string{}, workKinds...), taskKinds...)
		k := 0
		for _, byMgmt := range []bool{false, true} {
			for _, lk := range lingerKinds {
				// quick: every kind once per way of stopping, with a panicking stop routine; thorough: x every outcome
				toks := []string{"p:" + mainPVs[k%len(mainPVs)]}
				if r.Thorough {
					toks = []string{"p:str", "p:nil", "p:err", "p:rtidx", "p:canc", "err", "ok", "-"}
				}
				for _, tok := range toks {
					b.stopTimeoutCase(byMgmt, lk, tok)
				}
				k++
			}
		}
		for i := r.Budget(12, 400); i > 0; i-- {
			tok := []string{"err", "ok", "-", "p:" + allPVs()[rng.Intn(len(allPVs()))]}[rng.Intn(4)]
			b.stopTimeoutCase(rng.Intn(2) == 0, lingerKinds[rng.Intn(len(lingerKinds))], tok)
		}
		r.Rng = shared
	}

	// 0'. workers launched before the module's start (after registration / from the prep routine) that end, panicking,
	// once the module is online (own generator, as above)
	{
		shared := r.Rng
		r.Rng = rand.New(rand.NewSource(r.Seed*7919 + 615))
		rng := r.Rng
		b.add("corpus", []string{"mod A ok ok ok", "mod B - - -", "status", "prespawn 1 svc p:str,p:err,ok prep", "start", "status",
			"finish 1", "finish 1", "finish 1", "status", "settle", "shutdown"}, false)
		for _, at := range []string{"prep", "reg"} {
			for k, kind := range []string{"svc", "startworker", "runworker"} {
				pvs := []string{mainPVs[k%len(mainPVs)], mainPVs[(k+2)%len(mainPVs)]}
				if r.Thorough {
					pvs = allPVs()
				}
				for _, pv := range pvs {
					outs := "p:" + pv
					if kind == "svc" {
						outs += ",p:" + mainPVs[rng.Intn(len(mainPVs))] + "," + []string{"ok", "err,ok", "canceled"}[rng.Intn(3)]
					}
					b.earlyLaunchCase(at, kind, outs, 0)
				}
			}
		}
		for i := r.Budget(14, 600); i > 0; i-- {
			at := []string{"prep", "reg"}[rng.Intn(2)]
			b.earlyLaunchCase(at, "svc", randOuts(rng, "svc", 80), rng.Intn(3))
		}
		r.Rng = shared
	}

	allKinds := append(append(append([]string{}, workKinds...), taskKinds...), apiKinds...)
	// 0a. service worker x sentinel-like panic value x (n, position); sequences of them
	for _, pv := range sentinelPVs {
		for n := 1; n <= 3; n++ {
			for p := 0; p < n; p++ {
				b.tableCell("svc", pv, n, p, n == 3)
			}
		}
	}
	for i := r.Budget(60, 1500); i > 0; i-- {
		b.svcSentinelSeq()
	}
	// 0b. the state of the error channel when a panic is reported
	for _, kind := range allKinds {
		for _, capTok := range []string{"unset", "0", "1", "2"} {
			b.chanKindCase(kind, capTok)
		}
	}
	for _, phase := range []string{"prep", "start", "stop"} {
		for _, capTok := range []string{"unset", "0", "1", "2"} {
			for i := r.Budget(4, 60); i > 0; i-- {
				b.chanLifecycleCase(phase, capTok)
			}
		}
	}
	for i := r.Budget(60, 2500); i > 0; i-- {
		b.chanMixedCase()
	}
	for i := r.Budget(30, 1000); i > 0; i-- {
		b.chanParkCase()
	}
	for i := r.Budget(40, 1500); i > 0; i-- {
		b.chanBurstCase()
	}

	// 1. the complete table: kind x panic value class x (n, position)
	for _, kind := range allKinds {
		for _, pv := range mainPVs {
			for n := 1; n <= 6; n++ {
				for p := 0; p < n; p++ {
					b.tableCell(kind, pv, n, p, false)
				}
			}
		}
		// the other value classes, each at a random position among mixed neighbours
		pvs := extraPVs
		if strings.HasPrefix(kind, "api-") {
			pvs = append(append([]string{}, extraPVs...), "abort")
		}
		for _, pv := range pvs {
			n := 1 + rng.Intn(6)
			b.tableCell(kind, pv, n, rng.Intn(n), true)
		}
	}
	// 1b. API handler functions of every endpoint type with dev mode on (the handler-level recover has a branch on it):
	// kind x value class x (n <= 3, position), the other value classes at random positions; dev mode switched within a scenario
	devPrologue = true
	for _, kind := range apiKinds {
		for _, pv := range mainPVs {
			for n := 1; n <= 3; n++ {
				for p := 0; p < n; p++ {
					b.tableCell(kind, pv, n, p, n == 3)
				}
			}
		}
		for _, pv := range append(append([]string{}, extraPVs...), "abort") {
			n := 1 + rng.Intn(4)
			b.tableCell(kind, pv, n, rng.Intn(n), true)
		}
	}
	devPrologue = false
	for i := r.Budget(40, 1000); i > 0; i-- {
		kind := apiKinds[rng.Intn(len(apiKinds))]
		pvs := allPVs()
		lines := prologue(true)
		for k := 1; k <= 2+rng.Intn(4); k++ {
			lines = append(lines, "devmode "+[]string{"on", "off"}[rng.Intn(2)])
			id := strconv.Itoa(k)
			lines = append(lines, "spawn "+id+" "+apiKinds[rng.Intn(len(apiKinds))]+" p:"+pvs[rng.Intn(len(pvs))], "finish "+id)
		}
		lines = append(lines, epilogue()...)
		r.Count("devmode-toggle:" + kind)
		b.add("api-devmode-toggle", lines, false)
	}
	// 2. lifecycle routines: phase x outcome x (n, position)
	for _, phase := range []string{"prep", "start", "stop"} {
		toks := []string{"err"}
		for _, pv := range append(append([]string{}, mainPVs...), extraPVs...) {
			toks = append(toks, "p:"+pv)
		}
		for ti, tok := range toks {
			for n := 1; n <= 6; n++ {
				if !r.Thorough && ti > 5 && n != 2 && n != 5 {
					continue
				}
				for p := 0; p < n; p++ {
					b.lifecycleCell(phase, tok, n, p, false)
				}
			}
		}
	}
	// healthy and stop-panicking modules in dependency graphs
	for i := r.Budget(60, 2000); i > 0; i-- {
		tok := "ok"
		if rng.Intn(4) > 0 {
			tok = "p:" + mainPVs[rng.Intn(len(mainPVs))]
		}
		n := 2 + rng.Intn(5)
		b.lifecycleCell("stop", tok, n, rng.Intn(n), true)
	}
	// 3. management passes, 4. items ending at module stop, 5. random scenarios, 6. bursts, 7. malformed ops
	for i := r.Budget(120, 3000); i > 0; i-- {
		b.mgmtCase()
	}
	for i := r.Budget(150, 5000); i > 0; i-- {
		b.onstopCase()
	}
	for i := r.Budget(150, 5000); i > 0; i-- {
		b.restartCase()
	}
	for i := r.Budget(400, 30000); i > 0; i-- {
		b.randomCase(i%5 == 0)
	}
	for i := r.Budget(300, 15000); i > 0; i-- {
		b.burstCase(i%5 == 0)
	}
	for i := r.Budget(150, 3000); i > 0; i-- {
		b.malformedCase()
	}

	runPool(r, b.cases, emit)
}

// ---------------------------------------------------------------------------------------------

var (
	nChildren, nCrashed, nHung, nSkipped, nBadCases, nRelaunch int64
	slowMu                                                     sync.Mutex
	slowCases                                                  []string
)

func suspicious(outs []string) bool {
	for _, o := range outs {
		if strings.HasPrefix(o, "CRASH") || o == "HANG" || strings.HasPrefix(o, "NOCHILD") || strings.Contains(o, "noentry") ||
			strings.Contains(o, "noreturn") || strings.Contains(o, "last=blocked") || strings.Contains(o, "next=timeout") || strings.Contains(o, "slow=yes") ||
			strings.Contains(o, "exec=true") || strings.Contains(o, "sync=timeout") {
			return true
		}
	}
	return false
}

// runPool executes the cases in child processes ahead of the sequential hxlib loop (which then only
// streams the recorded implementation outputs to the model and the monitor). When many cases already
// failed badly (each costs seconds of waiting) the rest is skipped: the verdict is settled.
func runPool(r *hxlib.Run, cases []hxlib.Case, emit func(hxlib.Case)) {
	workers := runtime.NumCPU() / 2
	if workers < 2 {
		workers = 2
	}
	if workers > 8 {
		workers = 8
	}
	results := make([]chan []string, len(cases))
	for i := range results {
		results[i] = make(chan []string, 1)
	}
	var next int64 = -1
	var wg sync.WaitGroup
	for w := 0; w < workers; w++ {
		wg.Add(1)
		go func() {
			defer wg.Done()
			for {
				i := int(atomic.AddInt64(&next, 1))
				if i >= len(cases) {
					return
				}
				if atomic.LoadInt64(&nBadCases) >= 24 {
					atomic.AddInt64(&nSkipped, 1)
					results[i] <- nil
					continue
				}
				atomic.AddInt64(&nChildren, 1)
				t0 := time.Now()
				outs := runCaseInChild(cases[i].Lines)
				if d := time.Since(t0); d > 5*time.Second {
					slowMu.Lock()
					slowCases = append(slowCases, fmt.Sprintf("%.1fs %s: %s", d.Seconds(), cases[i].Kind, strings.Join(cases[i].Lines, "; ")))
					slowMu.Unlock()
				}
				if suspicious(outs) || len(monitor(cases[i], outs)) > 0 {
					atomic.AddInt64(&nBadCases, 1)
				}
				for _, o := range outs {
					if strings.HasPrefix(o, "CRASH") {
						atomic.AddInt64(&nCrashed, 1)
						break
					}
					if o == "HANG" {
						atomic.AddInt64(&nHung, 1)
						break
					}
				}
				results[i] <- outs
			}
		}()
	}
	for i, c := range cases {
		outs := <-results[i]
		if outs == nil {
			continue
		}
		preMu.Lock()
		preNext = &precomputed{outs: outs}
		preMu.Unlock()
		emit(c)
	}
	wg.Wait()
}

func extra(r *hxlib.Run) map[string]any {
	return map[string]any{
		"child_processes":        atomic.LoadInt64(&nChildren),
		"children_crashed":       atomic.LoadInt64(&nCrashed),
		"children_hung":          atomic.LoadInt64(&nHung),
		"cases_skipped_failfast": atomic.LoadInt64(&nSkipped),
		"cases_with_failed_start_routine_relaunched_in_same_pass": atomic.LoadInt64(&nRelaunch),
		"cases_slower_than_5s": append([]string{}, slowCases...),
	}
}
