package main

import "verifharness/hxlib"

const rule = "tbd"

func generate(r *hxlib.Run, emit func(hxlib.Case)) {}

func monitor(c hxlib.Case, outs []string) []hxlib.Violation { return nil }

func extra(r *hxlib.Run) map[string]any { return nil }
