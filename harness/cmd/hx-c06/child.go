package main

// Child side of hx-c06: one process per case (package modules has process-global state and an
// uncontained panic must only kill this process). Reads op lines on stdin, answers one line per op
// on fd 3. Everything here drives the REAL portbase code; nothing is simulated.

import (
	"bufio"
	"context"
	"errors"
	"fmt"
	"net/http"
	"net/http/httptest"
	"os"
	"reflect"
	"runtime"
	"sort"
	"strconv"
	"strings"
	"sync"
	"sync/atomic"
	"time"

	"github.com/safing/portbase/api"
	"github.com/safing/portbase/config"
	"github.com/safing/portbase/database/record"
	"github.com/safing/portbase/dataroot"
	"github.com/safing/portbase/log"
	"github.com/safing/portbase/modules"

	_ "github.com/safing/portbase/database/dbmodule"
)

// ---------------------------------------------------------------------------------------------
// programmed outcomes of user functions

type custom struct {
	A int
	B string
}

type ptrErr struct{ msg string }

func (e *ptrErr) Error() string { return e.msg } // a nil receiver panics here (fmt's %s survives that)

// strg: a Stringer whose String method dereferences its (possibly nil) receiver.
type strg struct{ s string }

func (x *strg) String() string { return x.s }

type evilErr struct{}

func (evilErr) Error() string { panic("Error() of the panic value panics") }

var errPlain = errors.New("c06 plain error")

// pvInfo describes one panic value class: how to raise it and how to recognise the recovered value.
type pvInfo struct {
	raise func()
	same  func(v any) bool
	cls   string // class the recovered value must have
}

var sentinelErr = errors.New("boom-err")

// isCanceledErr matches context.Canceled through an Is method (no wrapping, no identity).
type isCanceledErr struct{}

func (isCanceledErr) Error() string        { return "aborted (is-canceled)" }
func (isCanceledErr) Is(target error) bool { return target == context.Canceled }

var (
	wrapCanceled  = fmt.Errorf("lookup aborted: %w", context.Canceled)
	joinCanceled  = errors.Join(errors.New("first"), context.Canceled)
	wrapRestart   = fmt.Errorf("again: %w", modules.ErrRestartNow)
	wrapDeadline  = fmt.Errorf("too late: %w", context.DeadlineExceeded)
	wrapCleanExit = fmt.Errorf("bye: %w", modules.ErrCleanExit)
	innerModErr   = &modules.ModuleError{Message: "panic: inner", ModuleName: "Z", TaskName: "inner", TaskType: "worker", Severity: "panic", PanicValue: "inner", StackTrace: "goroutine 0 [inner]"}
)

func sameErr(want error) func(v any) bool {
	return func(v any) bool { e, ok := v.(error); return ok && e == want }
}

func isRuntimeErr(v any, sub string) bool {
	re, ok := v.(runtime.Error)
	return ok && strings.Contains(re.Error(), sub)
}

var pvals = map[string]pvInfo{
	"nil": {func() { panic(nil) }, func(v any) bool { //nolint
		_, ok := v.(*runtime.PanicNilError)
		return ok
	}, "nilerr"},
	"err":    {func() { panic(sentinelErr) }, func(v any) bool { e, ok := v.(error); return ok && e == sentinelErr }, "err"},
	"str":    {func() { panic("boom-str") }, func(v any) bool { return v == "boom-str" }, "str"},
	"rtidx":  {func() { var a []int; i := 3; _ = a[i] }, func(v any) bool { return isRuntimeErr(v, "index out of range") }, "rt"},
	"rtnil":  {func() { var p *custom; _ = p.A }, func(v any) bool { return isRuntimeErr(v, "nil pointer") }, "rt"},
	"rtdiv":  {func() { z := 0; _ = 1 / z }, func(v any) bool { return isRuntimeErr(v, "divide by zero") }, "rt"},
	"rtmap":  {func() { var m map[string]int; m["x"] = 1 }, func(v any) bool { return strings.Contains(fmt.Sprint(v), "nil map") }, "rt"},
	"struct": {func() { panic(custom{7, "seven"}) }, func(v any) bool { return v == custom{7, "seven"} }, "struct"},
	"int":    {func() { panic(42) }, func(v any) bool { return v == 42 }, "other"},
	"ptrerr": {func() { panic(&ptrErr{"boom-ptr"}) }, func(v any) bool { e, ok := v.(*ptrErr); return ok && e.msg == "boom-ptr" }, "err"},
	"nilptr": {func() { panic((*custom)(nil)) }, func(v any) bool { p, ok := v.(*custom); return ok && p == nil }, "other"},
	"evil":   {func() { panic(evilErr{}) }, func(v any) bool { _, ok := v.(evilErr); return ok }, "err"},
	"abort":  {func() { panic(http.ErrAbortHandler) }, func(v any) bool { return v == http.ErrAbortHandler }, "err"},
	"slice":  {func() { panic([]int{1, 2}) }, func(v any) bool { return reflect.DeepEqual(v, []int{1, 2}) }, "other"},
	// error values that are, wrap or match the sentinels the managed-execution code compares returned errors with
	"canc":     {func() { panic(context.Canceled) }, sameErr(context.Canceled), "err.canceled"},
	"wcanc":    {func() { panic(wrapCanceled) }, sameErr(wrapCanceled), "err.canceled"},
	"iscanc":   {func() { panic(isCanceledErr{}) }, func(v any) bool { _, ok := v.(isCanceledErr); return ok }, "err.canceled"},
	"joincanc": {func() { panic(joinCanceled) }, sameErr(joinCanceled), "err.canceled"},
	"rst":      {func() { panic(modules.ErrRestartNow) }, sameErr(modules.ErrRestartNow), "err.restart"},
	"wrst":     {func() { panic(wrapRestart) }, sameErr(wrapRestart), "err.restart"},
	"dl":       {func() { panic(context.DeadlineExceeded) }, sameErr(context.DeadlineExceeded), "err.deadline"},
	"wdl":      {func() { panic(wrapDeadline) }, sameErr(wrapDeadline), "err.deadline"},
	"cexit":    {func() { panic(modules.ErrCleanExit) }, sameErr(modules.ErrCleanExit), "err.cleanexit"},
	"wcexit":   {func() { panic(wrapCleanExit) }, sameErr(wrapCleanExit), "err.cleanexit"},
	// a panic value that is itself a panic error of package modules (re-panicking what a nested RunWorker returned)
	"moderr": {func() { panic(innerModErr) }, func(v any) bool { e, ok := v.(*modules.ModuleError); return ok && e == innerModErr }, "err"},
	// typed nil pointers whose Error / String method panics when called directly (the `var e *T; return e` slip)
	"nilerrptr": {func() { panic((*ptrErr)(nil)) }, func(v any) bool { p, ok := v.(*ptrErr); return ok && p == nil }, "err"},
	"nilstrg":   {func() { panic((*strg)(nil)) }, func(v any) bool { p, ok := v.(*strg); return ok && p == nil }, "other"},
}

// clsOf classifies a recovered panic value the way the model does.
func clsOf(v any) string {
	switch x := v.(type) {
	case nil:
		return "nil"
	case *runtime.PanicNilError:
		return "nilerr"
	case runtime.Error:
		return "rt"
	case string:
		return "str"
	case custom:
		return "struct"
	case error:
		switch {
		case errors.Is(x, context.Canceled):
			return "err.canceled"
		case errors.Is(x, modules.ErrRestartNow):
			return "err.restart"
		case errors.Is(x, context.DeadlineExceeded):
			return "err.deadline"
		case errors.Is(x, modules.ErrCleanExit):
			return "err.cleanexit"
		}
		return "err"
	}
	return "other"
}

type outcome struct {
	kind string // ok | err | canceled | restart | panic
	pv   string
}

func parseOutcome(s string) (outcome, bool) {
	switch {
	case s == "ok", s == "err", s == "canceled", s == "restart":
		return outcome{kind: s}, true
	case strings.HasPrefix(s, "p:"):
		if _, ok := pvals[s[2:]]; ok {
			return outcome{"panic", s[2:]}, true
		}
	}
	return outcome{}, false
}

func parseOutcomes(s string) ([]outcome, bool) {
	var os []outcome
	for _, p := range strings.Split(s, ",") {
		o, ok := parseOutcome(p)
		if !ok {
			return nil, false
		}
		os = append(os, o)
	}
	return os, len(os) > 0
}

// apply makes the user function end with the programmed outcome.
func (o outcome) apply() error {
	switch o.kind {
	case "err":
		return errPlain
	case "canceled":
		return fmt.Errorf("wrapped: %w", context.Canceled)
	case "restart":
		return fmt.Errorf("wrapped: %w", modules.ErrRestartNow)
	case "panic":
		pvals[o.pv].raise()
	}
	return nil
}

// ---------------------------------------------------------------------------------------------

type item struct {
	id         string
	kind       string
	outs       []outcome
	runs       int32
	onstop     bool
	free       bool // burst item: the function ends at once
	entered    chan int
	release    chan struct{}
	done       chan error  // blocking variants: the returned error
	http       chan string // api kinds: the response status ("d" appended: the body is the dev-mode page)
	task       *modules.Task
	afterWrite bool
	lastOut    outcome
	busy       bool // task: queued or running
	held       bool // inside its user function, waiting for `finish`
	mu         sync.Mutex
}

// body is the managed user function of every item kind.
func (it *item) body(ctx context.Context) error {
	k := int(atomic.AddInt32(&it.runs, 1)) - 1
	o := outcome{kind: "ok"}
	if k < len(it.outs) {
		o = it.outs[k]
	}
	it.mu.Lock()
	it.lastOut = o
	it.mu.Unlock()
	it.entered <- k
	if it.free {
		if it.task != nil {
			// Not instant: a task function that returns before the queue handler's watcher goroutine has read
			// t.ctx makes the queue wait maxExecutionWait (1 min) for the next task (tasks.go "RACE CONDITION"
			// comment; subject of C07, not of this property).
			time.Sleep(10 * time.Millisecond)
		}
		runtime.Gosched()
		return o.apply()
	}
	if it.onstop {
		select {
		case <-it.release:
		case <-ctx.Done():
		}
	} else {
		<-it.release
	}
	return o.apply()
}

type modDecl struct {
	name              string
	prep, start, stop string
	m                 *modules.Module
	runs              [3]int32 // invocations of the prep / start / stop routine
}

type child struct {
	resp     *bufio.Writer
	reports  chan *modules.ModuleError
	mods     []*modDecl
	items    map[string]*item
	subject  string
	started  bool
	startOK  bool
	down     bool
	apiMode  bool
	mgmt     bool
	notifyIn int32
	burstSeq int
	scratch  string

	manual        bool // the scenario configured the error channel itself (`chan`): only `recv` ops read it
	parkStarted   int  // consumers started by `park`
	parkCollected int  // of these: reports already printed
	parkedCh      chan parkedRep
	wedged        bool // a wait has expired: the verdict of this case is settled, later waits are short

	prepItems []*item // `prespawn … prep`: launched from inside the subject's prep routine

	shortStop bool       // `stoptimeout short`: held work that ignores the module context outlives the stop timeout
	tmoMu     sync.Mutex // modules whose stopAllTasks left its wait through the timeout branch since the last lifecycle op
	tmo       []string
}

const (
	wedgedPatience      = 300 * time.Millisecond
	entryTimeout        = 75 * time.Second // longer than maxExecutionWait (see body)
	finishTimeout       = 30 * time.Second
	manualFinishTimeout = 12 * time.Second // scenarios with a small error channel: a hang is the expected failure mode
	lockTimeout         = 8 * time.Second  // GetLastReportedError takes reportingLock, which a blocked Report() holds
	settleTimeout       = 10 * time.Second
	stopTimeout         = 12 * time.Second // modules' own wait for workers when stopping (default 1 min)
	shortStopTimeout    = 1500 * time.Millisecond // `stoptimeout short`: long enough for the stop routine and the work that ends at the cancellation, also on a loaded machine
	slowStop            = 6 * time.Second  // a Shutdown slower than this waited for work that never finished
)

func childMain() {
	c := &child{resp: bufio.NewWriter(os.NewFile(3, "resp")), items: map[string]*item{}, subject: "A",
		reports: make(chan *modules.ModuleError, 1<<14), scratch: os.Getenv("HX_C06_DIR"),
		parkedCh: make(chan parkedRep, 256)}
	modules.SetStdErrReporting(false)
	modules.SetErrorReportingChannel(c.reports)
	modules.VerifC06SetStopTimeout(stopTimeout)
	modules.SetMaxConcurrentMicroTasks(64)
	log.SetLogLevel(log.CriticalLevel)
	sc := bufio.NewScanner(os.Stdin)
	sc.Buffer(make([]byte, 1<<16), 1<<20)
	for sc.Scan() {
		out := c.do(sc.Text())
		c.resp.WriteString(out)
		c.resp.WriteByte('\n')
		c.resp.Flush()
	}
	os.Exit(0)
}

// tmoStr: with `stoptimeout short`, the modules whose stop ended by the stop timeout since the last lifecycle op.
func (c *child) tmoStr() string {
	if !c.shortStop {
		return ""
	}
	c.tmoMu.Lock()
	names := append([]string{}, c.tmo...)
	c.tmo = nil
	c.tmoMu.Unlock()
	if len(names) == 0 {
		return " tmo=-"
	}
	sort.Strings(names)
	return " tmo=" + strings.Join(names, ",")
}

func (c *child) mod(name string) *modDecl {
	for _, m := range c.mods {
		if m.name == name {
			return m
		}
	}
	return nil
}

// ctrlFn builds a lifecycle routine with a programmed outcome ("-" = no routine); runs are counted.
func ctrlFn(tok string, runs *int32) (func() error, bool) {
	if tok == "-" {
		return nil, true
	}
	o, ok := parseOutcome(tok)
	if !ok || o.kind == "canceled" || o.kind == "restart" {
		return nil, false
	}
	return func() error { atomic.AddInt32(runs, 1); return o.apply() }, true
}

// snapshotRuns / collapseRelaunched: startModules may launch a start routine that has just failed a second
// time within the same pass (the failed module is Offline again before its report has been consumed, and the
// pass rescans when another module's report arrives first — a scheduling matter of the lifecycle pass, C01's
// subject). Each run that panics must be reported once; if that holds, the additional runs' reports are
// folded so that the line says what ONE run of the routine produced. If it does not hold nothing is folded
// and the line differs from the model's.
func (c *child) snapshotRuns() map[string]int32 {
	m := map[string]int32{}
	for _, md := range c.mods {
		for i := range md.runs {
			m[fmt.Sprintf("%s/%d", md.name, i)] = atomic.LoadInt32(&md.runs[i])
		}
	}
	return m
}

func (c *child) collapseRelaunched(reps string, before map[string]int32) string {
	if reps == "-" {
		return reps
	}
	rs := strings.Split(reps, "+")
	for _, md := range c.mods {
		for i, tok := range []string{md.prep, md.start, md.stop} {
			k := int(atomic.LoadInt32(&md.runs[i]) - before[fmt.Sprintf("%s/%d", md.name, i)])
			if k < 2 || !strings.HasPrefix(tok, "p:") {
				continue
			}
			want := "panic/module-control/" + pvals[tok[2:]].cls
			n := 0
			for _, r := range rs {
				if r == want {
					n++
				}
			}
			if n < k {
				continue
			}
			fmt.Fprintf(os.Stderr, "C06-RELAUNCH %s routine %d ran %d times in one pass\n", md.name, i, k)
			drop := k - 1
			out := rs[:0:0]
			for j := len(rs) - 1; j >= 0; j-- { // drop the later ones
				if rs[j] == want && drop > 0 {
					drop--
					continue
				}
				out = append([]string{rs[j]}, out...)
			}
			rs = out
		}
	}
	return strings.Join(rs, "+")
}

type cnt struct {
	w, t, m, g int
	c          bool
}

func (k cnt) String() string {
	cc := 0
	if k.c {
		cc = 1
	}
	return fmt.Sprintf("%d,%d,%d,%d,%d", k.w, k.t, k.m, k.g, cc)
}

func (c *child) counters() cnt {
	st := modules.GetStatus()
	k := cnt{g: modules.VerifC06GlobalMicroTasks()}
	if st == nil {
		return k
	}
	if ms, ok := st.Modules[c.subject]; ok {
		k.w, k.t, k.m, k.c = ms.Workers, ms.Tasks, ms.MicroTasks, ms.CtrlFuncRunning
	}
	return k
}

// othersClean reports whether every module except the subject has zero counters.
func (c *child) othersClean() bool {
	st := modules.GetStatus()
	if st == nil {
		return true
	}
	for name, ms := range st.Modules {
		if name == c.subject {
			continue
		}
		if ms.Workers != 0 || ms.Tasks != 0 || ms.MicroTasks != 0 || ms.CtrlFuncRunning {
			return false
		}
	}
	return true
}

// patience: how long to wait for something that should happen at once. After the first expiry in this child the
// case is lost anyway (every expiry is reported); further waits are cut short.
func (c *child) patience(d time.Duration) time.Duration {
	if c.wedged && d > wedgedPatience {
		return wedgedPatience
	}
	if c.manual && d == finishTimeout {
		return manualFinishTimeout
	}
	return d
}

func (c *child) waitUntil(d time.Duration, f func() bool) bool { return waitUntil(c.patience(d), f) }

func (c *child) after(d time.Duration) <-chan time.Time { return time.After(c.patience(d)) }

// lastStr is GetLastReportedError, guarded: it takes the lock that Report() holds while it runs.
func (c *child) lastStr() string {
	ch := make(chan string, 1)
	go func() { ch <- c.repStr(modules.GetLastReportedError()) }()
	select {
	case s := <-ch:
		return s
	case <-c.after(lockTimeout):
		c.wedged = true
		return "blocked"
	}
}

func (c *child) chLen() int { return len(c.reports) }

// parkedBlocked counts the consumers started by `park` that are blocked in their receive.
func parkedBlocked() int {
	buf := make([]byte, 1<<20)
	buf = buf[:runtime.Stack(buf, true)]
	n := 0
	for _, g := range strings.Split(string(buf), "\n\n") {
		if strings.Contains(g, "main.parkRecv") && strings.Contains(strings.SplitN(g, "\n", 2)[0], "[chan receive") {
			n++
		}
	}
	return n
}

// parkRecv: a consumer blocked in a receive. Go serves blocked receivers first come, first served, so the
// consumers get the reports in the order in which they were parked; `idx` keeps that order for printing.
type parkedRep struct {
	idx int
	me  *modules.ModuleError
}

func parkRecv(idx int, from <-chan *modules.ModuleError, to chan<- parkedRep) {
	me := <-from
	to <- parkedRep{idx, me}
}

func (c *child) repStr(me *modules.ModuleError) string {
	s := repStr(me)
	// every item of a scenario runs on the subject module (hooks: the hooking module)
	if me != nil && me.Severity == "panic" && me.TaskType != "module-control" && me.ModuleName != c.subject {
		s += "!mod=" + me.ModuleName
	}
	return s
}

func repStr(me *modules.ModuleError) string {
	if me == nil {
		return "-"
	}
	typ := me.TaskType
	if typ == "" {
		typ = "-"
	}
	cls := "-"
	if me.Severity == "panic" {
		cls = clsOf(me.PanicValue)
		if me.StackTrace == "" || !strings.Contains(me.StackTrace, "goroutine") {
			cls += "!nostack"
		}
	}
	return me.Severity + "/" + typ + "/" + cls
}

// drain returns the reports received on the module error channel since the last call, in order.
func (c *child) drain() string {
	if c.manual {
		return "-"
	}
	return c.recv(1 << 30)
}

// recv takes up to k reports out of the channel without waiting (preceded by what parked consumers received).
func (c *child) recv(k int) string {
	var rs []string
	if c.parkStarted > 0 {
		// a parked consumer that is no longer blocked in its receive has got a report: wait until it has handed it on
		c.waitUntil(settleTimeout, func() bool { return len(c.parkedCh) == c.parkStarted-c.parkCollected-parkedBlocked() })
		var got []parkedRep
		for len(c.parkedCh) > 0 {
			got = append(got, <-c.parkedCh)
			c.parkCollected++
		}
		sort.Slice(got, func(i, j int) bool { return got[i].idx < got[j].idx })
		for _, g := range got {
			rs = append(rs, c.repStr(g.me))
		}
	}
	for ; k > 0; k-- {
		select {
		case me := <-c.reports:
			rs = append(rs, c.repStr(me))
		default:
			k = 0
		}
	}
	if len(rs) == 0 {
		return "-"
	}
	return strings.Join(rs, "+")
}

// drainSorted is drain for ops during which several goroutines report concurrently.
func (c *child) drainSorted() string {
	d := c.drain()
	if d == "-" {
		return d
	}
	rs := strings.Split(d, "+")
	sort.Strings(rs)
	return strings.Join(rs, "+")
}

func validName(n string) bool {
	if n == "" || n[0] < 'A' || n[0] > 'Z' {
		return false
	}
	for _, ch := range n[1:] {
		if !(ch >= 'a' && ch <= 'z' || ch >= 'A' && ch <= 'Z' || ch >= '0' && ch <= '9') {
			return false
		}
	}
	return true
}

func (c *child) online(name string) bool {
	st := modules.GetStatus()
	return st != nil && st.Modules[name] != nil && st.Modules[name].Status == "online"
}

// taskBusy: a task item is queued, executing or held (the queue handler runs one task at a time).
func (c *child) taskBusy() bool {
	for _, it := range c.items {
		if it.task != nil && it.busy {
			return true
		}
	}
	return false
}

// retStr classifies an error returned by a blocking run variant.
func retStr(err error, o outcome) string {
	if err == nil {
		return "nil"
	}
	isP, me := modules.IsPanic(err)
	if isP && me != nil && me.Severity == "panic" {
		s := "panic:" + clsOf(me.PanicValue)
		if o.kind == "panic" && pvals[o.pv].same(me.PanicValue) {
			s += ":val=same"
		} else {
			s += ":val=diff"
		}
		if me.StackTrace != "" && strings.Contains(me.StackTrace, "goroutine") {
			s += ":stack=yes"
		} else {
			s += ":stack=no"
		}
		return s
	}
	switch {
	case errors.Is(err, context.Canceled):
		return "err:canceled"
	case errors.Is(err, modules.ErrRestartNow):
		return "err:restart"
	case errors.Is(err, errPlain):
		return "err:plain"
	}
	return "err:other"
}

// ctrlRetStr classifies what Start / ManageModules / Shutdown returned.
func ctrlRetStr(err error) string {
	switch {
	case err == nil:
		return "nil"
	case strings.Contains(err.Error(), "panic: "):
		return "err:panic"
	case errors.Is(err, errPlain):
		return "err:plain"
	}
	return "err:other:" + strings.ReplaceAll(err.Error(), " ", "_")
}

func (c *child) statuses() string {
	st := modules.GetStatus()
	var ss []string
	for _, m := range c.mods {
		// a module whose prep/start routine failed never came up; its resting status belongs to C01
		if tokFails(m.prep) || tokFails(m.start) {
			ss = append(ss, "x")
			continue
		}
		if st == nil || st.Modules[m.name] == nil {
			ss = append(ss, "?")
			continue
		}
		ss = append(ss, st.Modules[m.name].Status)
	}
	return strings.Join(ss, ",")
}

func tokFails(tok string) bool { return tok != "-" && tok != "ok" }

func waitUntil(d time.Duration, f func() bool) bool {
	deadline := time.Now().Add(d)
	for i := 0; ; i++ {
		if f() {
			return true
		}
		if time.Now().After(deadline) {
			return false
		}
		if i < 50 {
			runtime.Gosched()
			time.Sleep(50 * time.Microsecond)
		} else {
			time.Sleep(time.Millisecond)
		}
	}
}

func (c *child) do(line string) string {
	f := strings.Fields(line)
	if len(f) == 0 {
		return "bad-op"
	}
	if c.down {
		return "bad-op"
	}
	switch f[0] {
	case "mod": // mod <name> <prep> <start> <stop> [dep,dep]
		if len(f) < 5 || len(f) > 6 || c.started || c.apiMode || !validName(f[1]) || c.mod(f[1]) != nil {
			return "bad-op"
		}
		md := &modDecl{name: f[1], prep: f[2], start: f[3], stop: f[4]}
		var fns [3]func() error
		for i := 0; i < 3; i++ {
			fn, ok := ctrlFn(f[2+i], &md.runs[i])
			if !ok {
				return "bad-op"
			}
			fns[i] = fn
		}
		if inner := fns[0]; inner != nil {
			// work registered by `prespawn … prep` is launched from inside the prep routine (first invocation)
			fns[0] = func() error { c.launchFromPrep(md); return inner() }
		}
		var deps []string
		if len(f) == 6 {
			deps = strings.Split(f[5], ",")
			for _, d := range deps {
				if c.mod(d) == nil {
					return "bad-op"
				}
			}
		}
		md.m = modules.Register(f[1], fns[0], fns[1], fns[2], deps...)
		if md.m == nil {
			return "bad-op"
		}
		c.mods = append(c.mods, md)
		return "ok"

	case "api": // bring the real api module (with database and config) into the process; subject := api
		if len(f) != 1 || c.started || c.apiMode || len(c.mods) > 0 {
			return "bad-op"
		}
		c.apiMode = true
		c.subject = "api"
		api.EnableServer = false
		api.SetDefaultAPIListenAddress("127.0.0.1:817")
		if err := api.SetAuthenticator(func(r *http.Request, s *http.Server) (*api.AuthToken, error) {
			return &api.AuthToken{Read: api.PermitSelf, Write: api.PermitSelf}, nil
		}); err != nil {
			return "err " + err.Error()
		}
		dir, err := os.MkdirTemp(c.scratch, "c06-root-")
		if err != nil {
			return "err " + err.Error()
		}
		if err := dataroot.Initialize(dir, 0o755); err != nil {
			return "err " + err.Error()
		}
		return "ok"

	case "mgmt": // mgmt <name>=on|off ...   (module management; must precede start)
		if c.started || c.mgmt || c.apiMode || len(f) < 2 {
			return "bad-op"
		}
		for _, a := range f[1:] {
			kv := strings.SplitN(a, "=", 2)
			if len(kv) != 2 || c.mod(kv[0]) == nil || (kv[1] != "on" && kv[1] != "off") {
				return "bad-op"
			}
		}
		c.mgmt = true
		// no change-notify function: with one, every status change starts a "notify of change" worker in a
		// goroutine of its own, whose start cannot be awaited — readings would race with it
		modules.EnableModuleManagement(nil)
		for _, a := range f[1:] {
			kv := strings.SplitN(a, "=", 2)
			if kv[1] == "on" {
				c.mod(kv[0]).m.Enable()
			}
		}
		return "ok"

	case "stoptimeout": // stoptimeout short: the modules' stop timeout becomes short; must precede start
		if len(f) != 2 || f[1] != "short" || c.started || c.apiMode || c.shortStop {
			return "bad-op"
		}
		c.shortStop = true
		modules.VerifC06SetStopTimeout(shortStopTimeout)
		// which modules leave the wait of stopAllTasks through its timeout branch (hook point of the package, tag verif)
		modules.VerifSetSink(func(point string, args ...any) {
			if point != "ev:sTimeout" || len(args) == 0 {
				return
			}
			if name, ok := args[0].(string); ok {
				c.tmoMu.Lock()
				c.tmo = append(c.tmo, name)
				c.tmoMu.Unlock()
			}
		})
		return "ok"

	case "enable", "disable":
		if len(f) != 2 || c.mod(f[1]) == nil || !c.mgmt {
			return "bad-op"
		}
		c.mod(f[1]).m.SetEnabled(f[0] == "enable")
		return "ok"

	case "start":
		if len(f) != 1 || c.started {
			return "bad-op"
		}
		c.started = true
		if !c.apiMode {
			// only the scenario's own modules take part (api/database/config are registered by package init)
			for _, name := range modules.VerifC06Registered() {
				if c.mod(name) == nil {
					modules.VerifC06Unregister(name)
				}
			}
		}
		runsBefore := c.snapshotRuns()
		err := modules.Start()
		c.waitCtrlIdle()
		c.startOK = err == nil
		if err != nil {
			// Start returns on the first failing report while other routines may still be running
			// (that is C01's business); wait until the healthy modules have come to rest.
			c.waitUntil(settleTimeout, func() bool {
				st := modules.GetStatus()
				for _, m := range c.mods {
					if tokFails(m.prep) || tokFails(m.start) || st == nil || st.Modules[m.name] == nil {
						continue
					}
					if s := st.Modules[m.name].Status; s == "preparing" || s == "starting" {
						return false
					}
				}
				return true
			})
		}
		if err == nil && c.apiMode {
			// config.start() fires a "config change" event whose goroutine may run only after api.start() has
			// registered its hook; that healthy hook run is then a short-lived worker of the api module.
			// Let it pass: wait until the api module has been idle for a while.
			idleSince := time.Now()
			c.waitUntil(settleTimeout, func() bool {
				if c.counters() != (cnt{}) {
					idleSince = time.Now()
				}
				return time.Since(idleSince) > 60*time.Millisecond
			})
		}
		return fmt.Sprintf("start ret=%s reps=%s ch=%d", ctrlRetStr(err), c.collapseRelaunched(c.drain(), runsBefore), c.chLen())

	case "manage":
		if len(f) != 1 || !c.started || !c.mgmt {
			return "bad-op"
		}
		runsBefore := c.snapshotRuns()
		err := modules.ManageModules()
		c.waitCtrlIdle()
		return fmt.Sprintf("manage ret=%s reps=%s st=%s ch=%d%s", ctrlRetStr(err), c.collapseRelaunched(c.drainSorted(), runsBefore), c.statuses(), c.chLen(), c.tmoStr())

	case "shutdown":
		if len(f) != 1 || !c.started {
			return "bad-op"
		}
		t0 := time.Now()
		for _, it := range c.items {
			if it.held && !it.onstop && !c.shortStop {
				c.down = true
				return "shutdown-with-held-work"
			}
		}
		// Shutdown waits at most stopTimeout per module for work that does not finish; it has no other reason to block
		var err error
		sdDone := make(chan error, 1)
		go func() { sdDone <- modules.Shutdown() }()
		limit := time.Duration(len(c.mods)+2) * (stopTimeout + 3*time.Second)
		if c.wedged {
			limit = stopTimeout + 5*time.Second
		}
		select {
		case err = <-sdDone:
		case <-time.After(limit):
			c.down = true
			return "shutdown noreturn"
		}
		c.down = true
		slow := "no"
		if time.Since(t0) > slowStop {
			slow = "yes"
		}
		return fmt.Sprintf("shutdown ret=%s reps=%s slow=%s st=%s ch=%d%s", ctrlRetStr(err), c.drainSorted(), slow, c.statuses(), c.chLen(), c.tmoStr())

	case "status":
		if len(f) != 1 {
			return "bad-op"
		}
		return fmt.Sprintf("cnt=%s last=%s ch=%d", c.counters(), c.lastStr(), c.chLen())

	case "devmode": // devmode on|off: config.SetConfigOption("core/devMode", …); not while a request is in flight
		if len(f) != 2 || !c.apiMode || !c.startOK || (f[1] != "on" && f[1] != "off") {
			return "bad-op"
		}
		for _, it := range c.items {
			if it.held {
				return "bad-op"
			}
		}
		if err := config.SetConfigOption(config.CfgDevModeKey, f[1] == "on"); err != nil {
			return "err " + strings.ReplaceAll(err.Error(), " ", "_")
		}
		// the "config change" event runs the api module's hook as a short-lived worker: let it pass
		idleSince := time.Now()
		c.waitUntil(settleTimeout, func() bool {
			if c.counters() != (cnt{}) {
				idleSince = time.Now()
			}
			return time.Since(idleSince) > 60*time.Millisecond
		})
		return "ok"

	case "chan": // chan unset|<capacity>: SetErrorReportingChannel before anything runs; from now on only `recv` reads it
		if len(f) != 2 || c.started || c.manual {
			return "bad-op"
		}
		if f[1] == "unset" {
			c.manual, c.reports = true, nil
			modules.SetErrorReportingChannel(nil)
			return "ok"
		}
		n, err := strconv.Atoi(f[1])
		if err != nil || n < 0 || n > 64 || strconv.Itoa(n) != f[1] {
			return "bad-op"
		}
		c.manual, c.reports = true, make(chan *modules.ModuleError, n)
		modules.SetErrorReportingChannel(c.reports)
		return "ok"

	case "recv": // recv <k>|all: the consumer of the error channel reads what is there (up to k reports)
		if len(f) != 2 || !c.manual || c.reports == nil {
			return "bad-op"
		}
		k := 1 << 20
		if f[1] != "all" {
			n, err := strconv.Atoi(f[1])
			if err != nil || n < 0 || strconv.Itoa(n) != f[1] {
				return "bad-op"
			}
			k = n
		}
		rs := c.recv(k)
		n := 0
		if rs != "-" {
			n = len(strings.Split(rs, "+"))
		}
		return fmt.Sprintf("recv n=%d reps=%s ch=%d", n, rs, c.chLen())

	case "recvn": // like `recv all`, but only the number of reports is printed (after concurrent work)
		if len(f) != 1 || !c.manual || c.reports == nil {
			return "bad-op"
		}
		rs := c.recv(1 << 20)
		n := 0
		if rs != "-" {
			n = len(strings.Split(rs, "+"))
		}
		return fmt.Sprintf("recvn n=%d ch=%d", n, c.chLen())

	case "park": // a consumer blocks in a receive on the (empty) channel; what it gets is printed by the next recv
		if len(f) != 1 || !c.manual || c.reports == nil || c.chLen() != 0 {
			return "bad-op"
		}
		// every consumer parked earlier is either still blocked or has received its report
		want := parkedBlocked() + 1
		c.parkStarted++
		go parkRecv(c.parkStarted, c.reports, c.parkedCh)
		if !c.waitUntil(settleTimeout, func() bool { return parkedBlocked() >= want }) {
			return "park timeout"
		}
		return fmt.Sprintf("park ok waiting=%d", want)

	case "settle": // wait (in the implementation's favour) until no managed work is left, then read the counters
		if len(f) != 1 {
			return "bad-op"
		}
		// one consistent snapshot: work that other goroutines start later (e.g. a "notify of change" worker
		// whose goroutine has not run yet) is not part of "everything so far has finished"
		zero := cnt{}
		var k cnt
		clean := true
		c.waitUntil(settleTimeout, func() bool {
			k = c.counters()
			clean = c.apiMode || c.othersClean()
			return k == zero && clean
		})
		oc := "clean"
		if !clean {
			oc = "dirty"
		}
		return fmt.Sprintf("cnt=%s others=%s", k, oc)

	case "spawn": // spawn <id> <kind> <outcomes> [onstop|afterwrite]
		if len(f) < 4 || len(f) > 5 || !c.startOK || c.items[f[1]] != nil || !c.online(c.subject) {
			return "bad-op"
		}
		outs, ok := parseOutcomes(f[3])
		if !ok || !knownKind(f[2]) {
			return "bad-op"
		}
		isAPI, isTask := strings.HasPrefix(f[2], "api-"), strings.HasPrefix(f[2], "task-")
		if isAPI != c.apiMode || (isTask && c.taskBusy()) || (strings.HasPrefix(f[2], "hook-") && !c.online("B")) {
			return "bad-op"
		}
		if len(f) == 5 {
			raw := f[2] == "api-handlerfunc" || f[2] == "api-rawhandler" || f[2] == "api-rawfunc"
			if (f[4] == "afterwrite" && !raw) || (f[4] == "onstop" && isAPI) {
				return "bad-op"
			}
		}
		it := &item{id: f[1], kind: f[2], outs: outs, entered: make(chan int, 64), release: make(chan struct{}, 64),
			done: make(chan error, 1), http: make(chan string, 1)}
		if len(f) == 5 {
			switch f[4] {
			case "onstop":
				it.onstop = true
			case "afterwrite":
				it.afterWrite = true
			default:
				return "bad-op"
			}
		}
		before := c.counters()
		if !c.launch(it) {
			return "bad-op"
		}
		c.items[it.id] = it
		it.busy = it.task != nil
		entry := c.awaitEntry(it)
		if entry == "ok" && (strings.HasSuffix(it.kind, "-med") || strings.HasSuffix(it.kind, "-low")) {
			// the microtask scheduler closes the clearance signal first and raises the global counter afterwards
			// (microtasks.go:302-305), so the function can be entered a moment before the counter shows it
			c.waitUntil(settleTimeout, func() bool { return c.counters().g > before.g })
		}
		return "spawn " + entry + " cnt=" + c.counters().String()

	case "prespawn": // prespawn <id> <kind> <outcomes> reg|prep: a worker of the subject module launched before the module is started
		// reg: right now (after registration, before modules.Start); prep: from inside the module's prep routine
		if len(f) != 5 || c.started || c.apiMode || c.mod(c.subject) == nil || c.items[f[1]] != nil ||
			(f[2] != "svc" && f[2] != "startworker" && f[2] != "runworker") || (f[4] != "reg" && f[4] != "prep") ||
			(f[4] == "prep" && c.mod(c.subject).prep == "-") {
			return "bad-op"
		}
		outs, ok := parseOutcomes(f[3])
		if !ok {
			return "bad-op"
		}
		it := &item{id: f[1], kind: f[2], outs: outs, entered: make(chan int, 64), release: make(chan struct{}, 64),
			done: make(chan error, 1), http: make(chan string, 1)}
		c.items[it.id] = it
		if f[4] == "prep" {
			c.prepItems = append(c.prepItems, it)
			it.held = true // from the prep routine on; a launch that fails there shows at the item's `finish`
			return "prespawn ok"
		}
		if !c.launch(it) {
			return "bad-op"
		}
		return "prespawn " + c.awaitEntry(it)

	case "requeue": // requeue <id> <task-kind> <outcomes>: queue a task again after it ran
		if len(f) != 4 || c.items[f[1]] == nil || c.items[f[1]].task == nil || !strings.HasPrefix(f[2], "task-") ||
			!knownKind(f[2]) || !c.startOK || !c.online(c.subject) || c.taskBusy() {
			return "bad-op"
		}
		outs, ok := parseOutcomes(f[3])
		if !ok {
			return "bad-op"
		}
		it := c.items[f[1]]
		it.busy = true
		it.outs = append(it.outs, outs...)
		if !queueTask(it.task, f[2]) {
			return "bad-op"
		}
		return "requeue " + c.awaitEntry(it) + " cnt=" + c.counters().String()

	case "burst": // burst <kind>=<outcomes> ...: free-running items, all at once; wait until all of them are through
		if len(f) < 2 || !c.startOK || !c.online(c.subject) {
			return "bad-op"
		}
		var its []*item
		for k, a := range f[1:] {
			kv := strings.SplitN(a, "=", 2)
			if len(kv) != 2 || !knownKind(kv[0]) {
				return "bad-op"
			}
			outs, ok := parseOutcomes(kv[1])
			isAPI, isTask := strings.HasPrefix(kv[0], "api-"), strings.HasPrefix(kv[0], "task-")
			if !ok || isAPI != c.apiMode || (isTask && c.taskBusy()) || (strings.HasPrefix(kv[0], "hook-") && !c.online("B")) {
				return "bad-op"
			}
			c.burstSeq++
			its = append(its, &item{id: fmt.Sprintf("b%d-%d", c.burstSeq, k), kind: kv[0], outs: outs, free: true,
				entered: make(chan int, 256), release: make(chan struct{}, 1), done: make(chan error, 1), http: make(chan string, 1)})
		}
		for _, it := range its {
			if !c.launch(it) {
				return "burst launch-failed"
			}
			c.items[it.id] = it
		}
		res := make([]string, len(its))
		for i, it := range its {
			res[i] = "-"
			select {
			case <-it.entered:
			case <-c.after(entryTimeout):
				res[i] = "noentry"
				c.wedged = true
				continue
			}
			switch {
			case blocking(it.kind):
				select {
				case err := <-it.done:
					it.mu.Lock()
					o := it.lastOut
					it.mu.Unlock()
					res[i] = retStr(err, o)
				case <-c.after(finishTimeout):
					res[i] = "noreturn"
					c.wedged = true
				}
			case strings.HasPrefix(it.kind, "api-"):
				select {
				case code := <-it.http:
					res[i] = code
				case <-c.after(finishTimeout):
					res[i] = "noreturn"
					c.wedged = true
				}
			}
		}
		zero := cnt{}
		c.waitUntil(settleTimeout, func() bool { return c.counters() == zero })
		runs := make([]string, len(its))
		for i, it := range its {
			if it.task != nil {
				c.waitUntil(finishTimeout, func() bool { return !it.task.VerifC06Executing() })
			}
			runs[i] = strconv.Itoa(int(atomic.LoadInt32(&it.runs)))
		}
		return fmt.Sprintf("burst res=%s runs=%s reps=%s cnt=%s ch=%d", strings.Join(res, ","), strings.Join(runs, ","),
			c.drainSorted(), c.counters(), c.chLen())

	case "finish": // finish <id>: let the held user function end with its programmed outcome, wait for the item
		if len(f) != 2 || c.items[f[1]] == nil || !c.items[f[1]].held {
			return "bad-op"
		}
		return c.finish(c.items[f[1]])
	}
	return "bad-op"
}

var kinds = map[string]bool{"runworker": true, "startworker": true, "svc": true, "task-queue": true, "task-prio": true,
	"task-asap": true, "task-sched": true, "task-repeat": true, "mt-run-high": true, "mt-run-med": true, "mt-run-low": true,
	"mt-start-high": true, "mt-start-med": true, "mt-start-low": true, "hook-trigger": true, "hook-inject": true,
	"api-action": true, "api-data": true, "api-struct": true, "api-record": true, "api-handlerfunc": true,
	"api-rawhandler": true, "api-rawfunc": true}

func knownKind(k string) bool { return kinds[k] }

// waitCtrlIdle: Start/ManageModules return as soon as the routine's result has arrived, which is before the
// routine's goroutine has run its deferred ctrlFuncRunning.UnSet(); wait for that (bounded) so that the
// next reading is not taken in between.
func (c *child) waitCtrlIdle() {
	c.waitUntil(settleTimeout, func() bool {
		st := modules.GetStatus()
		return st == nil || st.Total.CtrlFuncRunning == 0
	})
}

// launchFromPrep runs inside the subject module's prep routine: the items of `prespawn … prep` are launched there.
func (c *child) launchFromPrep(md *modDecl) {
	if md.name != c.subject {
		return
	}
	its := c.prepItems
	c.prepItems = nil
	for _, it := range its {
		if c.launch(it) {
			c.awaitEntry(it)
		}
	}
}

func (c *child) awaitEntry(it *item) string {
	select {
	case <-it.entered:
		it.held = true
		return "ok"
	case <-c.after(entryTimeout):
		c.wedged = true
		return "noentry"
	}
}

func queueTask(t *modules.Task, kind string) bool {
	switch kind {
	case "task-queue":
		t.Queue()
	case "task-prio":
		t.QueuePrioritized()
	case "task-asap":
		t.StartASAP()
	case "task-sched":
		t.Schedule(time.Now().Add(15 * time.Millisecond))
	case "task-repeat":
		t.Repeat(time.Hour).Queue()
	default:
		return false
	}
	return true
}

type anyoneHandler struct{ h http.HandlerFunc }

func (a anyoneHandler) ServeHTTP(w http.ResponseWriter, r *http.Request) { a.h(w, r) }
func (a anyoneHandler) ReadPermission(*http.Request) api.Permission      { return api.PermitAnyone }
func (a anyoneHandler) WritePermission(*http.Request) api.Permission     { return api.PermitAnyone }

type recBase struct {
	record.Base
	sync.Mutex
	Msg string
}

// launch starts the managed execution of the item's kind on the real code.
func (c *child) launch(it *item) bool {
	subj := c.mod(c.subject)
	var m *modules.Module
	if subj != nil {
		m = subj.m
	}
	name := "c06-" + it.id
	needM := func() bool { return m != nil && !c.apiMode }
	switch it.kind {
	case "runworker":
		if !needM() {
			return false
		}
		go func() { it.done <- m.RunWorker(name, it.body) }()
	case "startworker":
		if !needM() {
			return false
		}
		m.StartWorker(name, it.body)
	case "svc":
		if !needM() {
			return false
		}
		m.StartServiceWorker(name, time.Millisecond, it.body)
	case "task-queue", "task-prio", "task-asap", "task-sched", "task-repeat":
		if !needM() {
			return false
		}
		// MaxDelay far away: should the queue stall (see body), a queued task must not additionally be started
		// by the scheduler's max-delay path — what then happens is C07's subject, not this property's.
		it.task = m.NewTask(name, func(ctx context.Context, _ *modules.Task) error { return it.body(ctx) }).MaxDelay(time.Hour)
		queueTask(it.task, it.kind)
	case "mt-run-high":
		if !needM() {
			return false
		}
		go func() { it.done <- m.RunHighPriorityMicroTask(name, it.body) }()
	case "mt-run-med":
		if !needM() {
			return false
		}
		go func() { it.done <- m.RunMicroTask(name, 0, it.body) }()
	case "mt-run-low":
		if !needM() {
			return false
		}
		go func() { it.done <- m.RunLowPriorityMicroTask(name, 0, it.body) }()
	case "mt-start-high":
		if !needM() {
			return false
		}
		m.StartHighPriorityMicroTask(name, it.body)
	case "mt-start-med":
		if !needM() {
			return false
		}
		m.StartMicroTask(name, 0, it.body)
	case "mt-start-low":
		if !needM() {
			return false
		}
		m.StartLowPriorityMicroTask(name, 0, it.body)
	case "hook-trigger", "hook-inject":
		// the subject module hooks an event of module B; the hook runs as a worker of the subject
		src := c.mod("B")
		if !needM() || src == nil {
			return false
		}
		ev := "ev-" + it.id
		src.m.RegisterEvent(ev, true)
		if err := m.RegisterEventHook("B", ev, name, func(ctx context.Context, _ interface{}) error { return it.body(ctx) }); err != nil {
			return false
		}
		if it.kind == "hook-trigger" {
			src.m.TriggerEvent(ev, "data")
		} else if err := m.InjectEvent("injected "+ev, "B", ev, "data"); err != nil {
			return false
		}
	case "api-action", "api-data", "api-struct", "api-record", "api-handlerfunc", "api-rawhandler", "api-rawfunc":
		if !c.apiMode {
			return false
		}
		pre := func(w http.ResponseWriter) {
			if it.afterWrite && w != nil {
				w.WriteHeader(http.StatusAccepted)
				_, _ = w.Write([]byte("partial"))
			}
		}
		path := "/api/v1/c06/" + it.id
		ep := api.Endpoint{Path: "c06/" + it.id, Read: api.PermitAnyone}
		ctx := context.Background()
		switch it.kind {
		case "api-action":
			ep.ActionFunc = func(*api.Request) (string, error) { return "done", it.body(ctx) }
		case "api-data":
			ep.DataFunc = func(*api.Request) ([]byte, error) { return []byte("data"), it.body(ctx) }
		case "api-struct":
			ep.StructFunc = func(*api.Request) (interface{}, error) { return map[string]int{"a": 1}, it.body(ctx) }
		case "api-record":
			ep.RecordFunc = func(*api.Request) (record.Record, error) {
				r := &recBase{Msg: "rec"}
				r.SetKey("c06:rec/" + it.id)
				r.UpdateMeta()
				return r, it.body(ctx)
			}
		case "api-handlerfunc":
			ep.HandlerFunc = func(w http.ResponseWriter, r *http.Request) {
				pre(w)
				if err := it.body(ctx); err != nil {
					http.Error(w, err.Error(), http.StatusInternalServerError)
					return
				}
				_, _ = w.Write([]byte("handled"))
			}
		case "api-rawhandler":
			path = "/c06raw/" + it.id
			api.RegisterHandler(path, anyoneHandler{func(w http.ResponseWriter, r *http.Request) {
				pre(w)
				if err := it.body(ctx); err != nil {
					http.Error(w, err.Error(), http.StatusInternalServerError)
					return
				}
				_, _ = w.Write([]byte("raw"))
			}})
		case "api-rawfunc":
			path = "/c06fn/" + it.id
			api.RegisterHandleFunc(path, func(w http.ResponseWriter, r *http.Request) {
				pre(w)
				if err := it.body(ctx); err != nil {
					http.Error(w, err.Error(), http.StatusInternalServerError)
					return
				}
				_, _ = w.Write([]byte("rawfn"))
			})
		}
		if it.kind != "api-rawhandler" && it.kind != "api-rawfunc" {
			if err := api.RegisterEndpoint(ep); err != nil {
				return false
			}
		}
		go func() {
			rec := httptest.NewRecorder()
			req := httptest.NewRequest(http.MethodGet, path, nil)
			api.VerifC06Serve(rec, req)
			code := strconv.Itoa(rec.Code)
			if body := rec.Body.String(); strings.Contains(body, "Internal Server Error: ") && strings.Contains(body, "goroutine ") {
				code += "d"
			}
			it.http <- code
		}()
	default:
		return false
	}
	return true
}

func blocking(kind string) bool {
	return kind == "runworker" || strings.HasPrefix(kind, "mt-run-")
}

// finish releases the held run and waits until the managed execution has completed (or restarted).
func (c *child) finish(it *item) string {
	before := c.counters()
	it.held = false
	if it.task != nil {
		time.Sleep(2 * time.Millisecond) // give the queue handler's watcher goroutine time to read t.ctx (see body)
	}
	it.release <- struct{}{}
	ret, httpS, next, exec, syn := "-", "-", "-", "-", "ok"
	it.mu.Lock()
	o := it.lastOut
	it.mu.Unlock()
	switch {
	case blocking(it.kind):
		select {
		case err := <-it.done:
			ret = retStr(err, o)
		case <-c.after(finishTimeout):
			ret, syn = "noreturn", "timeout"
		}
	case strings.HasPrefix(it.kind, "api-"):
		select {
		case code := <-it.http:
			httpS = code
		case <-c.after(finishTimeout):
			httpS, syn = "noreturn", "timeout"
		}
	case it.kind == "svc":
		// either the service worker runs its function again, or it ends (worker counter drops)
		deadline := c.after(finishTimeout)
		tick := time.NewTicker(200 * time.Microsecond)
		defer tick.Stop()
	loop:
		for {
			select {
			case <-it.entered:
				next = "reentered"
				it.held = true
				break loop
			case <-deadline:
				next, syn = "timeout", "timeout"
				break loop
			case <-tick.C:
				if c.counters().w < before.w {
					// make sure a re-entry that raced with the poll is not missed
					select {
					case <-it.entered:
						next = "reentered"
						it.held = true
					default:
						next = "done"
					}
					break loop
				}
			}
		}
	case strings.HasPrefix(it.kind, "task-"):
		if !c.waitUntil(finishTimeout, func() bool { return c.counters().t < before.t }) {
			syn = "timeout"
		}
		if c.waitUntil(finishTimeout, func() bool { return !it.task.VerifC06Executing() }) {
			exec = "false"
			it.busy = false
		} else {
			exec, syn = "true", "timeout"
		}
	case strings.HasPrefix(it.kind, "mt-start-"):
		if !c.waitUntil(finishTimeout, func() bool { k := c.counters(); return k.m < before.m && k.g < before.g }) {
			syn = "timeout"
		}
	default: // startworker, hooks: worker counter drops
		if !c.waitUntil(finishTimeout, func() bool { return c.counters().w < before.w }) {
			syn = "timeout"
		}
	}
	if syn == "timeout" {
		c.wedged = true
	}
	return fmt.Sprintf("finish ret=%s http=%s next=%s exec=%s sync=%s reps=%s last=%s cnt=%s ch=%d", ret, httpS, next, exec, syn,
		c.drain(), c.lastStr(), c.counters(), c.chLen())
}
