// hx-c08: correspondence harness and property monitor for C08 (stored-record format).
package main

import (
	"bytes"
	"compress/gzip"
	"encoding/json"
	"errors"
	"fmt"
	"io"
	"math"
	"reflect"
	"strconv"
	"strings"
	"sync"

	"github.com/safing/portbase/database/record"
	"github.com/safing/portbase/formats/dsd"
	"github.com/safing/portbase/formats/varint"

	"verifharness/hxlib"
)

// TestRec is the typed record of the harness schema.
type TestRec struct {
	record.Base
	sync.Mutex

	S   string
	I   int64
	U8  uint8
	B   bool
	F   float64
	L   []string
	M   map[string]int
	Sub struct {
		X int32
		Y string
	}
	P    *int
	Blob []byte
}

// NestRec is a typed record whose JSON encoder serialises ANOTHER record (with other metadata) through
// MarshalRecord before returning its own payload: a re-entrant use of the serialiser, as happens when records
// embed or reference other records.
type NestRec struct {
	record.Base
	sync.Mutex

	V        int
	inner    record.Record
	innerOut []byte
	innerErr error
}

// MarshalJSON implements json.Marshaler.
func (n *NestRec) MarshalJSON() ([]byte, error) {
	if n.inner != nil {
		n.innerOut, n.innerErr = n.inner.MarshalRecord(n.inner)
	}
	return json.Marshal(struct{ V int }{n.V})
}

type exec struct {
	w *record.Wrapper
	r *TestRec // typed record with key history (bnew / setkey / resetkey / keyq)
}

// held: the most recent byte slices the serialiser handed out (process-wide, across cases: a slice that is
// overwritten by a LATER serialisation is what this is for), looked at again by the `held` op.
var held []heldSlice

type heldSlice struct {
	data []byte
	was  string
}

func hold(b []byte) string {
	h := hxlib.Hex(b)
	if len(b) > 0 {
		held = append(held, heldSlice{b, h})
		if len(held) > 8 {
			held = held[1:]
		}
	}
	return h
}

// marshalErrClass maps the errors of Marshal / MarshalRecord to the model's classes.
func marshalErrClass(err error) string {
	switch {
	case err.Error() == "missing meta":
		return "err missing-meta"
	case strings.Contains(err.Error(), "format mismatch"):
		return "err mismatch"
	}
	return "err codec"
}

// metaOrNil parses `nil` or six metadata words from the front of f.
func metaOrNil(f []string) (m *record.Meta, rest []string, ok bool) {
	if len(f) >= 1 && f[0] == "nil" {
		return nil, f[1:], true
	}
	if len(f) < 6 {
		return nil, nil, false
	}
	m, ok = mkMeta(f[:6])
	return m, f[6:], ok
}

func showBase(r record.Record) string {
	t := "f"
	if r.KeyIsSet() {
		t = "t"
	}
	return hxlib.Hex([]byte(r.Key())) + " " + hxlib.Hex([]byte(r.DatabaseName())) + " " + hxlib.Hex([]byte(r.DatabaseKey())) + " " + t
}

func mkMeta(f []string) (*record.Meta, bool) {
	if len(f) != 6 {
		return nil, false
	}
	var v [4]int64
	for i := 0; i < 4; i++ {
		n, err := strconv.ParseInt(f[i], 10, 64)
		if err != nil {
			return nil, false
		}
		v[i] = n
	}
	m := &record.Meta{Created: v[0], Modified: v[1], Expires: v[2], Deleted: v[3]}
	if f[4] == "1" {
		m.MakeSecret()
	}
	if f[5] == "1" {
		m.MakeCrownJewel()
	}
	return m, true
}

func showMeta(m *record.Meta) string {
	s, j := 0, 0
	if !m.CheckPermission(true, false) {
		s = 1
	}
	if !m.CheckPermission(false, true) {
		j = 1
	}
	return fmt.Sprintf("%d %d %d %d %d %d", m.Created, m.Modified, m.Expires, m.Deleted, s, j)
}

func varintClass(err error) string {
	switch {
	case errors.Is(err, varint.ErrBufTooSmall):
		return "small"
	case strings.Contains(err.Error(), "greater than"):
		return "large"
	case strings.Contains(err.Error(), "not enough data"):
		return "nodata"
	}
	return "other"
}

func parseErrClass(err error) string {
	msg := err.Error()
	switch {
	case strings.HasPrefix(msg, "incompatible record version"):
		return "version incompatible"
	case strings.HasPrefix(msg, "could not get meta section"):
		return "metablock " + varintClass(err)
	case strings.HasPrefix(msg, "could not unmarshal meta section"):
		switch {
		case errors.Is(err, varint.ErrBufTooSmall):
			return "metaload small"
		case errors.Is(err, io.ErrUnexpectedEOF):
			return "metaload eof"
		case errors.Is(err, dsd.ErrIsRaw):
			return "metaload israw"
		case errors.Is(err, dsd.ErrIncompatibleFormat):
			return "metaload incompatible"
		case strings.Contains(msg, "failed to unpack gencode"):
			return "metaload gencode"
		case strings.Contains(msg, "greater than"):
			return "metaload large"
		}
		return "metaload other:" + msg
	case strings.HasPrefix(msg, "could not get dsd format"):
		return "format " + varintClass(err)
	}
	return "version " + varintClass(err)
}

// delegated reports whether the meta section is in a third-party codec or compressed (outside the model),
// using the real varint functions for the framing.
func delegated(b []byte) (d bool) {
	defer func() {
		if recover() != nil {
			d = false // a panic in the framing functions is reported by the parse op itself
		}
	}()
	v, off, err := varint.Unpack8(b)
	if err != nil || v != 1 {
		return false
	}
	ms, _, err := varint.GetNextBlock(b[off:])
	if err != nil {
		return false
	}
	f, read, err := varint.Unpack8(ms)
	if err != nil || len(ms) <= read {
		return false
	}
	switch f {
	case dsd.JSON, dsd.CBOR, dsd.MsgPack, dsd.YAML, dsd.GZIP:
		return true
	}
	return false
}

// mkRec: seeds >= 1000 are <pad>*1000 + <seed below 1000>: the record of the low part with `pad` more bytes in
// its string field (the encodings of a typed record then have any length one wants, byte-exactly for JSON).
func mkRec(seed int64) *TestRec {
	pad := 0
	if seed >= 1000 {
		pad, seed = int(seed/1000), seed%1000
	}
	r := &TestRec{S: fmt.Sprintf("s-%d-é\"\\", seed) + strings.Repeat("x", pad), I: seed * 7919, U8: uint8(seed), B: seed%2 == 0, F: float64(seed) / 4,
		L: []string{"a", fmt.Sprint(seed)}, M: map[string]int{"k": int(seed)}, Blob: []byte{byte(seed), 0, 255}}
	r.Sub.X = int32(seed)
	r.Sub.Y = "y"
	if seed%3 == 0 {
		p := int(seed)
		r.P = &p
	}
	if seed%5 == 0 {
		r.L, r.M, r.Blob = nil, nil, nil
	}
	return r
}

// concurrentRoundTrips: n goroutines, each with metadata and payload of its own, serialise typed records and
// wrappers in a tight loop and parse their own output back. Returns "ok" or the first failure.
//
// size > 0: the wrappers' payloads have size-1, size, size+1 bytes (by goroutine), the typed records a JSON encoding
// of about that size, and every fifth record is a deleted one.
func concurrentRoundTrips(n, iters int, seed int64, size int) string {
	var wg sync.WaitGroup
	start := make(chan struct{})
	fails := make(chan string, n)
	for g := 0; g < n; g++ {
		wg.Add(1)
		go func(g int) {
			defer wg.Done()
			defer func() {
				if r := recover(); r != nil {
					fails <- fmt.Sprintf("PANIC g=%d: %v", g, r)
				}
			}()
			mk := func(it int) *record.Meta {
				m := &record.Meta{Created: seed*1000 + int64(g), Modified: int64(g)*7919 + 1, Expires: int64(g%3) * (1700000000 + int64(g)), Deleted: -int64(g % 4 * 60)}
				if it%17 == 16 || (size > 0 && it%5 >= 3) {
					m.Deleted = 1700000000 + int64(g) // now and then a deleted record
				}
				if g&1 == 1 {
					m.MakeSecret()
				}
				if g&2 == 2 {
					m.MakeCrownJewel()
				}
				return m
			}
			payload := bytes.Repeat([]byte{byte('a' + g%26)}, 1+g*37%300)
			recSeed := int64(g)
			if size > 0 {
				payload = bytes.Repeat([]byte{byte('a' + g%26)}, size+g%3-1)
				recSeed = int64(size+g%3-1)*1000 + int64(g)
			}
			<-start
			for it := 0; it < iters; it++ {
				m := mk(it)
				want := showMeta(m)
				var out []byte
				var err error
				typed := it%2 == 0
				if typed {
					r := mkRec(recSeed)
					r.SetKey("db:k")
					r.SetMeta(m)
					out, err = r.MarshalRecord(r)
				} else {
					w, _ := record.NewWrapper("db:k", m, dsd.RAW, payload)
					out, err = w.MarshalRecord(w)
				}
				if err != nil {
					fails <- fmt.Sprintf("FAIL g=%d iter=%d marshal: %v", g, it, err)
					return
				}
				w, err := record.NewRawWrapper("db", "k", out)
				if err != nil {
					fails <- fmt.Sprintf("FAIL g=%d iter=%d parse of own output: %v", g, it, err)
					return
				}
				if got := showMeta(w.Meta()); got != want {
					fails <- fmt.Sprintf("FAIL g=%d iter=%d typed=%v metadata came back as %s, put in %s", g, it, typed, got, want)
					return
				}
				switch {
				case m.Deleted > 0:
					if len(w.Data) != 0 {
						fails <- fmt.Sprintf("FAIL g=%d iter=%d deleted record carries data", g, it)
						return
					}
				case typed:
					back := &TestRec{}
					if err := record.Unwrap(w, back); err != nil || !reflect.DeepEqual(exported(back), exported(mkRec(recSeed))) {
						fails <- fmt.Sprintf("FAIL g=%d iter=%d typed record came back different (%v)", g, it, err)
						return
					}
				default:
					if w.Format != dsd.RAW || !bytes.Equal(w.Data, payload) {
						fails <- fmt.Sprintf("FAIL g=%d iter=%d wrapper data came back different", g, it)
						return
					}
				}
			}
		}(g)
	}
	close(start)
	wg.Wait()
	close(fails)
	for f := range fails {
		return f
	}
	return "ok"
}

// mkRecX: seeds below 0 give records the JSON codec refuses (NaN / infinity are not representable).
func mkRecX(seed int64) *TestRec {
	if seed >= 0 {
		return mkRec(seed)
	}
	r := mkRec(-seed)
	if seed%2 == 0 {
		r.F = math.NaN()
	} else {
		r.F = math.Inf(1)
	}
	return r
}

func (e *exec) Do(line string) string {
	f := strings.Fields(line)
	if len(f) == 0 {
		return "bad-op"
	}
	switch f[0] {
	case "held": // slices returned by earlier serialisations must still read as they did when they were returned
		for _, h := range held {
			if now := hxlib.Hex(h.data); now != h.was {
				return "changed: a slice returned as " + h.was + " now reads " + now
			}
		}
		return "same"
	case "wnew":
		if len(f) != 9 {
			return "bad-op"
		}
		m, ok := mkMeta(f[1:7])
		fm, err := strconv.Atoi(f[7])
		if !ok || err != nil || fm > 255 {
			return "bad-op"
		}
		e.w, _ = record.NewWrapper("db:key", m, uint8(fm), hxlib.UnHex(f[8]))
		return "ok"
	case "wset": // metadata changed in place through the Meta() pointer, as the database layer does
		if e.w == nil {
			return "bad-op"
		}
		m, ok := mkMeta(f[1:7])
		if !ok {
			return "bad-op"
		}
		cur := e.w.Meta()
		cur.Created, cur.Modified, cur.Expires, cur.Deleted = m.Created, m.Modified, m.Expires, m.Deleted
		if f[5] == "1" {
			cur.MakeSecret()
		}
		if f[6] == "1" {
			cur.MakeCrownJewel()
		}
		return "ok"
	case "wrt": // serialise the wrapper as it is now and parse the result
		if e.w == nil {
			return "bad-op"
		}
		b, err := e.w.MarshalRecord(e.w)
		if err != nil {
			return "err marshal " + strings.TrimPrefix(marshalErrClass(err), "err ")
		}
		return e.Do("parse " + hxlib.Hex(b))
	case "wparse": // a wrapper with history: it comes from NewRawWrapper
		b := hxlib.UnHex(f[1])
		w, err := record.NewRawWrapper("db", "key", b)
		e.w = w
		if delegated(b) {
			return "delegated"
		}
		if err != nil {
			e.w = nil
			return "err " + parseErrClass(err)
		}
		return fmt.Sprintf("ok %s %d %s", showMeta(w.Meta()), w.Format, hxlib.Hex(w.Data))
	case "wdata": // the public Data field changes: new slice / overwritten in place / re-used backing array
		if e.w == nil || len(f) != 3 {
			return "bad-op"
		}
		d := hxlib.UnHex(f[2])
		switch {
		case f[1] == "inplace" && len(d) == len(e.w.Data):
			copy(e.w.Data, d)
		case f[1] == "reuse":
			e.w.Data = append(e.w.Data[:0], d...)
		default:
			e.w.Data = d
		}
		return "ok"
	case "wfmt":
		fm, err := strconv.Atoi(f[1])
		if e.w == nil || err != nil || fm > 255 {
			return "bad-op"
		}
		e.w.Format = uint8(fm)
		return "ok"
	case "wacc": // implementation only: the data is changed through the record's accessor (sjson returns a new slice)
		if e.w == nil || len(f) != 3 {
			return "bad-op"
		}
		acc := e.w.GetAccessor(e.w)
		if acc == nil {
			return "noacc"
		}
		var v any
		if err := json.Unmarshal(hxlib.UnHex(f[2]), &v); err != nil {
			return "bad-op"
		}
		if n, ok := v.(float64); ok {
			v = int64(n)
		}
		if err := acc.Set(string(hxlib.UnHex(f[1])), v); err != nil {
			return "err set"
		}
		return "d " + hxlib.Hex(e.w.Data)
	case "wnewnil": // a wrapper without metadata
		if len(f) != 3 {
			return "bad-op"
		}
		fm, err := strconv.Atoi(f[1])
		if err != nil || fm > 255 {
			return "bad-op"
		}
		e.w, _ = record.NewWrapper("db:key", nil, uint8(fm), hxlib.UnHex(f[2]))
		return "ok"
	case "wm": // Wrapper.Marshal(r, format)
		fm, err := strconv.Atoi(f[1])
		if e.w == nil || err != nil || fm > 255 {
			return "bad-op"
		}
		b, err := e.w.Marshal(e.w, uint8(fm))
		switch {
		case err != nil:
			return marshalErrClass(err)
		case b == nil:
			return "nil"
		}
		return hold(b)
	case "wmr": // Wrapper.MarshalRecord(r)
		if e.w == nil {
			return "bad-op"
		}
		b, err := e.w.MarshalRecord(e.w)
		if err != nil {
			return marshalErrClass(err)
		}
		return hold(b)
	case "bnew":
		e.r = &TestRec{}
		return "ok"
	case "setkey":
		if e.r == nil {
			return "bad-op"
		}
		e.r.SetKey(string(hxlib.UnHex(f[1])))
		return "ok"
	case "resetkey":
		if e.r == nil {
			return "bad-op"
		}
		e.r.ResetKey()
		return "ok"
	case "keyq":
		if e.r == nil {
			return "bad-op"
		}
		return showBase(e.r)
	case "gmb": // GenCodeMarshal into a caller-supplied buffer (len f[2], cap f[1], pre-filled)
		capn, err1 := strconv.Atoi(f[1])
		ln, err2 := strconv.Atoi(f[2])
		m, ok := mkMeta(f[3:])
		if !ok || err1 != nil || err2 != nil || ln > capn {
			return "bad-op"
		}
		buf := make([]byte, ln, capn)
		full := buf[:capn]
		for i := range full {
			full[i] = 0xAA
		}
		b, err := m.GenCodeMarshal(buf)
		if err != nil {
			return "err"
		}
		return hold(b)
	case "bm": // Base.Marshal(self, format) of a typed record
		m, rest, ok := metaOrNil(f[1:])
		if !ok || len(rest) != 2 {
			return "bad-op"
		}
		fm, err1 := strconv.Atoi(rest[0])
		seed, err2 := strconv.ParseInt(rest[1], 10, 64)
		if err1 != nil || err2 != nil || fm > 255 {
			return "bad-op"
		}
		r := mkRecX(seed)
		r.SetKey("db:key")
		if m != nil {
			r.SetMeta(m)
		}
		b, err := r.Marshal(r, uint8(fm))
		switch {
		case err != nil:
			return marshalErrClass(err)
		case b == nil:
			return "nil"
		}
		return hold(b)
	case "mbr": // Base.MarshalRecord(self), incl. records without metadata and records the JSON codec refuses
		m, rest, ok := metaOrNil(f[1:])
		if !ok || len(rest) != 1 {
			return "bad-op"
		}
		seed, err := strconv.ParseInt(rest[0], 10, 64)
		if err != nil {
			return "bad-op"
		}
		r := mkRecX(seed)
		r.SetKey("db:key")
		if m != nil {
			r.SetMeta(m)
		}
		b, err := r.MarshalRecord(r)
		if err != nil {
			return marshalErrClass(err)
		}
		return hold(b)
	case "uwn": // Unwrap of something that is not a wrapper
		src := mkRec(1)
		src.SetKey("db:key")
		src.CreateMeta()
		n := &TestRec{}
		err := record.Unwrap(src, n)
		switch {
		case err == nil:
			return "ok"
		case strings.HasPrefix(err.Error(), "cannot unwrap"):
			if n.KeyIsSet() || n.Meta() != nil {
				return "FAIL target changed although Unwrap failed"
			}
			return "err not-wrapper"
		}
		return "err load"
	case "uw": // Unwrap(wrapper, r): uw <db> <key> <meta 6> <fmt> <data> <target key|-> <ok|fail>
		if len(f) != 13 {
			return "bad-op"
		}
		m, ok := mkMeta(f[3:9])
		fm, err := strconv.Atoi(f[9])
		if !ok || err != nil || fm > 127 || m.Deleted > 0 {
			return "bad-op"
		}
		w0, _ := record.NewWrapper("x:y", m, uint8(fm), hxlib.UnHex(f[10]))
		enc, err := w0.MarshalRecord(w0)
		if err != nil {
			return "bad-op"
		}
		w, err := record.NewRawWrapper(string(hxlib.UnHex(f[1])), string(hxlib.UnHex(f[2])), enc)
		if err != nil {
			return "FAIL parse: " + err.Error()
		}
		n := &TestRec{}
		if f[11] != "-" {
			n.SetKey(string(hxlib.UnHex(f[11])))
		}
		if !w.IsWrapped() || n.IsWrapped() {
			return "FAIL IsWrapped"
		}
		_ = w.GetAccessor(w) // exercised for totality only (accessors are outside this property)
		before := showBase(n)
		if err := record.Unwrap(w, n); err != nil {
			if showBase(n) != before || n.Meta() != nil {
				return "FAIL target changed although Unwrap failed"
			}
			return "err load"
		}
		_ = n.GetAccessor(n)
		ms := "nil"
		if n.Meta() != nil {
			ms = showMeta(n.Meta())
		}
		return "ok " + showBase(n) + " " + ms
	case "rtn": // re-entrant serialisation: rtn <metaA 6> <metaB 6> <kind> <v>
		if len(f) != 15 {
			return "bad-op"
		}
		ma, ok1 := mkMeta(f[1:7])
		mb, ok2 := mkMeta(f[7:13])
		v, err := strconv.Atoi(f[14])
		if !ok1 || !ok2 || err != nil {
			return "bad-op"
		}
		var inner record.Record
		switch f[13] {
		case "3": // a wrapper with a payload of v bytes
			inner, _ = record.NewWrapper("db:inner", mb, dsd.RAW, bytes.Repeat([]byte{'p'}, v))
		case "0":
			t := mkRec(int64(v))
			t.SetKey("db:inner")
			t.SetMeta(mb)
			inner = t
		case "1":
			inner, _ = record.NewWrapper("db:inner", mb, dsd.JSON, []byte(`{"i":1}`))
		default: // two levels
			w, _ := record.NewWrapper("db:innermost", mb.Duplicate(), dsd.RAW, []byte("xyz"))
			mid := &NestRec{V: -v, inner: w}
			mid.SetKey("db:inner")
			mid.SetMeta(mb)
			inner = mid
		}
		a := &NestRec{V: v, inner: inner}
		a.SetKey("db:outer")
		a.SetMeta(ma)
		out, err := a.MarshalRecord(a)
		if err != nil {
			return "FAIL marshal outer: " + err.Error()
		}
		wa, err := record.NewRawWrapper("db", "outer", out)
		if err != nil {
			return "FAIL parse outer: " + err.Error()
		}
		res := showMeta(wa.Meta())
		if ma.Deleted > 0 {
			// a deleted record has no data section: its encoder (and the nested serialisation) never runs
			return res + " deleted"
		}
		var back struct{ V int }
		if err := dsd.LoadAsFormat(wa.Data, wa.Format, &back); err != nil {
			return "FAIL outer data: " + err.Error()
		}
		res += fmt.Sprintf(" V=%d", back.V)
		if a.innerErr != nil {
			return "FAIL marshal inner: " + a.innerErr.Error()
		}
		wb, err := record.NewRawWrapper("db", "inner", a.innerOut)
		if err != nil {
			return "FAIL parse inner: " + err.Error()
		}
		if f[13] == "3" {
			switch {
			case mb.Deleted > 0 && len(wb.Data) != 0:
				return fmt.Sprintf("FAIL inner record is deleted and came back with %d bytes of data", len(wb.Data))
			case mb.Deleted <= 0 && (wb.Format != dsd.RAW || !bytes.Equal(wb.Data, bytes.Repeat([]byte{'p'}, v))):
				return fmt.Sprintf("FAIL inner record's %d bytes of data came back different (format %d, %d bytes)", v, wb.Format, len(wb.Data))
			}
		}
		return res + " | " + showMeta(wb.Meta())
	case "conc": // concurrent serialisation: conc <goroutines> <iterations> <seed>
		if len(f) != 4 && len(f) != 5 {
			return "bad-op"
		}
		n, err1 := strconv.Atoi(f[1])
		iters, err2 := strconv.Atoi(f[2])
		seed, err3 := strconv.ParseInt(f[3], 10, 64)
		size := 0
		if len(f) == 5 {
			var err4 error
			if size, err4 = strconv.Atoi(f[4]); err4 != nil || size < 2 {
				return "bad-op"
			}
		}
		if err1 != nil || err2 != nil || err3 != nil || n < 1 || n > 64 {
			return "bad-op"
		}
		return concurrentRoundTrips(n, iters, seed, size)
	case "um": // implementation only: metadata made by CreateMeta/UpdateMeta survive the storage form
		if len(f) != 9 {
			return "bad-op"
		}
		m, ok := mkMeta(f[2:8])
		seed, err := strconv.ParseInt(f[8], 10, 64)
		if !ok || err != nil {
			return "bad-op"
		}
		r := mkRec(seed)
		r.SetKey("db:k")
		switch f[1] {
		case "0":
			r.UpdateMeta() // creates
		case "1":
			r.CreateMeta()
			r.UpdateMeta()
		case "2":
			r.SetMeta(m)
			r.UpdateMeta()
			r.UpdateMeta()
		case "4": // metadata produced by the expiry / delete / reset methods
			r.SetMeta(m)
			r.Meta().SetAbsoluteExpiry(m.Modified)
		case "5":
			r.SetMeta(m)
			r.Meta().SetRelativateExpiry(seed)
			r.UpdateMeta()
		case "6":
			r.SetMeta(m)
			r.Meta().Delete()
		case "7":
			r.SetMeta(m)
			r.Meta().Reset()
		default:
			r.CreateMeta()
		}
		if r.Meta() == nil {
			return "FAIL no metadata after CreateMeta/UpdateMeta"
		}
		var nilMeta *record.Meta
		_, _ = nilMeta.CheckValidity(), nilMeta.CheckPermission(true, true) // nil receivers: totality only
		want := showMeta(r.Meta())
		b, err := r.MarshalRecord(r)
		if err != nil {
			return "FAIL marshal: " + err.Error()
		}
		w, err := record.NewRawWrapper("db", "k", b)
		if err != nil {
			return "FAIL parse: " + err.Error()
		}
		if showMeta(w.Meta()) != want {
			return "FAIL meta " + showMeta(w.Meta()) + " want " + want
		}
		// the parsed record answers like the original (clock-dependent answers are judged only if the original
		// answers the same before and after)
		answers := func(x *record.Meta) string {
			return fmt.Sprint(x.GetAbsoluteExpiry(), x.GetRelativeExpiry(), x.CheckValidity(), x.IsDeleted(),
				x.CheckPermission(false, false), x.CheckPermission(true, false), x.CheckPermission(false, true), x.CheckPermission(true, true))
		}
		a1, p, a2 := answers(r.Meta()), answers(w.Meta()), answers(r.Meta())
		if a1 == a2 && p != a1 {
			return "FAIL parsed metadata answer " + p + ", the original answers " + a1
		}
		dup := r.Meta().Duplicate()
		r.Meta().Created++
		r.Meta().MakeSecret()
		if showMeta(dup) != want {
			return "FAIL Duplicate is not an independent copy: " + showMeta(dup) + " want " + want
		}
		return "ok"
	case "mw":
		if len(f) != 9 {
			return "bad-op"
		}
		m, ok := mkMeta(f[1:7])
		fm, err := strconv.Atoi(f[7])
		if !ok || err != nil || fm > 255 {
			return "bad-op"
		}
		w, _ := record.NewWrapper("db:key", m, uint8(fm), hxlib.UnHex(f[8]))
		b, err := w.MarshalRecord(w)
		if err != nil {
			return "err " + err.Error()
		}
		return hold(b)
	case "mb":
		if len(f) != 8 {
			return "bad-op"
		}
		m, ok := mkMeta(f[1:7])
		seed, err := strconv.ParseInt(f[7], 10, 64)
		if !ok || err != nil {
			return "bad-op"
		}
		r := mkRec(seed)
		r.SetKey("db:key")
		r.SetMeta(m)
		b, err := r.MarshalRecord(r)
		if err != nil {
			return "err " + err.Error()
		}
		return hold(b)
	case "rt": // typed-record round trip: marshal, parse, unwrap, compare (implementation only)
		m, ok := mkMeta(f[1:7])
		seed, err := strconv.ParseInt(f[7], 10, 64)
		if !ok || err != nil {
			return "bad-op"
		}
		r := mkRec(seed)
		r.SetKey("db:some:key")
		r.SetMeta(m)
		b, err := r.MarshalRecord(r)
		if err != nil {
			return "FAIL marshal: " + err.Error()
		}
		w, err := record.NewRawWrapper("db", "some:key", b)
		if err != nil {
			return "FAIL parse: " + err.Error()
		}
		if w.Key() != "db:some:key" {
			return "FAIL key " + w.Key()
		}
		if showMeta(w.Meta()) != showMeta(m) {
			return "FAIL meta " + showMeta(w.Meta())
		}
		if m.Deleted > 0 {
			if len(w.Data) != 0 {
				return "FAIL deleted record carries data"
			}
			return "ok deleted"
		}
		if w.Format != dsd.JSON {
			return fmt.Sprintf("FAIL format %d", w.Format)
		}
		n := &TestRec{}
		if err := record.Unwrap(w, n); err != nil {
			return "FAIL unwrap: " + err.Error()
		}
		want := mkRec(seed)
		if !reflect.DeepEqual(exported(n), exported(want)) {
			return fmt.Sprintf("FAIL value %+v != %+v", exported(n), exported(want))
		}
		if n.Key() != "db:some:key" || showMeta(n.Meta()) != showMeta(m) {
			return "FAIL unwrapped key/meta"
		}
		return "ok"
	case "gm":
		m, ok := mkMeta(f[1:])
		if !ok {
			return "bad-op"
		}
		b, err := m.GenCodeMarshal(nil)
		if err != nil {
			return "err"
		}
		return hold(b)
	case "gu":
		m := &record.Meta{}
		_, err := m.GenCodeUnmarshal(hxlib.UnHex(f[1]))
		if err != nil {
			return "err"
		}
		return "ok " + showMeta(m)
	case "parse":
		b := hxlib.UnHex(f[1])
		w, err := record.NewRawWrapper("db", "key", b)
		if delegated(b) {
			return "delegated"
		}
		if err != nil {
			return "err " + parseErrClass(err)
		}
		return fmt.Sprintf("ok %s %d %s", showMeta(w.Meta()), w.Format, hxlib.Hex(w.Data))
	case "parsex": // implementation only: totality on inputs outside the model (third-party codecs)
		b := hxlib.UnHex(f[1])
		w, err := record.NewRawWrapper("db", "key", b)
		if err != nil {
			return "err"
		}
		m := w.Meta()
		return fmt.Sprintf("ok %d %d %d %d %d %s", m.Created, m.Modified, m.Expires, m.Deleted, w.Format, hxlib.Hex(w.Data))
	case "parsev":
		return e.Do("parsex " + f[1])
	case "key":
		db, k := record.ParseKey(string(hxlib.UnHex(f[1])))
		return hxlib.Hex([]byte(db)) + " " + hxlib.Hex([]byte(k))
	}
	return "bad-op"
}

// exported strips the embedded Base/Mutex for comparison.
func exported(r *TestRec) any {
	return []any{r.S, r.I, r.U8, r.B, r.F, r.L, r.M, r.Sub, r.P, r.Blob}
}

func monitor(c hxlib.Case, outs []string) (vs []hxlib.Violation) {
	add := func(i int, sig, what string) {
		lo := i - 1
		if lo < 0 {
			lo = 0
		}
		vs = append(vs, hxlib.Violation{Sig: sig, What: what, Lines: c.Lines[lo : i+1], Output: outs[lo : i+1]})
	}
	var cur []string // current metadata / format / data of the stateful wrapper
	for i, l := range c.Lines {
		f := strings.Fields(l)
		o := outs[i]
		if strings.HasPrefix(o, "PANIC") {
			add(i, "C08:panic:"+f[0], o)
			continue
		}
		switch f[0] {
		case "wnew":
			cur = append([]string{}, f[1:]...)
		case "wparse":
			cur = nil
			if of := strings.Fields(o); len(of) == 9 && of[0] == "ok" {
				cur = of[1:]
			}
		case "wnewnil":
			cur = nil
		case "wdata":
			if cur != nil && o == "ok" {
				cur[7] = hxlib.Hex(hxlib.UnHex(f[2]))
			}
		case "wfmt":
			if cur != nil && o == "ok" {
				cur[6] = f[1]
			}
		case "wacc": // the record's public Data field as the executor read it after the accessor call
			if cur != nil && strings.HasPrefix(o, "d ") {
				cur[7] = strings.TrimPrefix(o, "d ")
			}
		case "wset":
			if cur != nil {
				copy(cur[0:4], f[1:5])
				if f[5] == "1" {
					cur[4] = "1"
				}
				if f[6] == "1" {
					cur[5] = "1"
				}
			}
		case "wrt":
			if cur != nil {
				fm, _ := strconv.Atoi(cur[6])
				if fm < 128 {
					del, _ := strconv.ParseInt(cur[3], 10, 64)
					want := fmt.Sprintf("ok %s %s %s", strings.Join(cur[0:6], " "), cur[6], cur[7])
					if del > 0 {
						want = fmt.Sprintf("ok %s 1 -", strings.Join(cur[0:6], " "))
					}
					if o != want {
						vs = append(vs, hxlib.Violation{Sig: "C08:wrapper-roundtrip-after-meta-change", What: fmt.Sprintf("parse(marshal(w)) = %q, want %q", o, want), Lines: c.Lines[:i+1], Output: outs[:i+1]})
					}
				}
			}
		case "parsev": // a record whose meta section was produced by a real codec from known metadata
			if !strings.HasPrefix(o, "ok "+strings.Join(f[2:6], " ")+" ") {
				add(i, "C08:codec-meta-section", fmt.Sprintf("record with a %s meta section for metadata %v parsed as %q", f[6], f[2:6], o))
			}
		case "rt":
			if strings.HasPrefix(o, "FAIL") {
				add(i, "C08:typed-roundtrip", o)
			}
		case "parse", "parsex":
			in := hxlib.UnHex(f[1])
			if strings.HasPrefix(o, "ok ") {
				of := strings.Fields(o)
				data := hxlib.UnHex(of[len(of)-1])
				if len(data) > len(in) || string(in[len(in)-len(data):]) != string(data) {
					add(i, "C08:data-not-suffix-of-input", "returned data is not a suffix of the input")
				}
			}
			// round trip against the preceding marshal line
			if f[0] == "parse" && i > 0 {
				pf := strings.Fields(c.Lines[i-1])
				if pf[0] == "mw" && outs[i-1] == f[1] {
					fm, _ := strconv.Atoi(pf[7])
					if fm >= 128 {
						continue // outside the format-identifier domain
					}
					del, _ := strconv.ParseInt(pf[4], 10, 64)
					want := fmt.Sprintf("ok %s %s %s", strings.Join(pf[1:7], " "), pf[7], pf[8])
					if del > 0 {
						want = fmt.Sprintf("ok %s 1 -", strings.Join(pf[1:7], " "))
					}
					if o != want {
						add(i, "C08:wrapper-roundtrip", fmt.Sprintf("parse(marshal(w)) = %q, want %q", o, want))
					}
				}
			}
		case "keyq":
			// a key with a non-empty database part set on a record without key reads back unchanged
			if i > 0 && strings.HasPrefix(c.Lines[i-1], "setkey ") && i > 1 && strings.HasSuffix(outs[i-2], " f") {
				k := string(hxlib.UnHex(strings.Fields(c.Lines[i-1])[1]))
				if idx := strings.Index(k, ":"); idx > 0 {
					if of := strings.Fields(o); len(of) != 4 || of[0] != hxlib.Hex([]byte(k)) || of[3] != "t" {
						add(i, "C08:key-roundtrip", fmt.Sprintf("SetKey(%q) on a record without key, then Key()/KeyIsSet() = %q", k, o))
					}
				}
			}
		case "wmr":
			// wire layout: version 1 | length-prefixed meta block (GenCode, 34 bytes) | what Marshal(AUTO) returns
			if i > 0 && c.Lines[i-1] == "wm 0" && !strings.HasPrefix(o, "err") && !strings.HasPrefix(outs[i-1], "err") {
				rec := hxlib.UnHex(o)
				var ds []byte
				if outs[i-1] != "nil" {
					ds = hxlib.UnHex(outs[i-1])
				}
				if len(rec) < 37 || rec[0] != 1 || rec[1] != 35 || rec[2] != dsd.GenCode || string(rec[37:]) != string(ds) {
					add(i, "C08:marshalrecord-layout", fmt.Sprintf("MarshalRecord = %s is not 01 | 23 | 47 <34 bytes> | Marshal(AUTO) = %s", o, outs[i-1]))
				}
			}
		case "held":
			if o != "same" {
				add(i, "C08:returned-bytes-changed-later", o)
			}
		case "conc":
			if o != "ok" {
				add(i, "C08:concurrent-serialisation", o)
			}
		case "rtn":
			// both records come back with the metadata they were given, whatever was serialised in between
			wantA := strings.Join(f[1:7], " ")
			wantB := strings.Join(f[7:13], " ")
			del, _ := strconv.ParseInt(f[4], 10, 64)
			want := fmt.Sprintf("%s V=%s | %s", wantA, f[14], wantB)
			if del > 0 {
				want = wantA + " deleted"
			}
			if o != want {
				add(i, "C08:reentrant-serialisation", fmt.Sprintf("outer/inner record came back as %q, want %q", o, want))
			}
		case "uw", "uwn", "um":
			if strings.HasPrefix(o, "FAIL") {
				add(i, "C08:"+f[0], o)
			}
			if f[0] == "uw" && f[12] == "ok" && f[11] == "-" {
				// a typed record unwrapped from the parsed form: same key, same metadata
				key := string(hxlib.UnHex(f[1])) + ":" + string(hxlib.UnHex(f[2]))
				of := strings.Fields(o)
				if len(of) != 11 || of[0] != "ok" || of[1] != hxlib.Hex([]byte(key)) || strings.Join(of[5:], " ") != strings.Join(f[3:9], " ") {
					add(i, "C08:unwrap-key-meta", fmt.Sprintf("unwrapped record has %q, want key %q and metadata %v", o, key, f[3:9]))
				}
			}
		case "gu":
			if i > 0 {
				pf := strings.Fields(c.Lines[i-1])
				if pf[0] == "gmb" && len(pf) > 3 {
					pf = append([]string{"gm"}, pf[3:]...)
				}
				if pf[0] == "gm" && strings.HasPrefix(f[1], outs[i-1]) {
					want := "ok " + strings.Join(pf[1:], " ")
					if o != want {
						add(i, "C08:meta-roundtrip", fmt.Sprintf("got %q want %q", o, want))
					}
				}
			}
		}
	}
	return vs
}

func generate(r *hxlib.Run, emit func(hxlib.Case)) {
	rng := r.Rng
	ints := []int64{0, 1, -1, 2, 1700000000, 1 << 31, -(1 << 31), 1 << 53, -(1 << 53), 1<<63 - 1, -(1 << 63), 255, 256, -256, 1 << 56, -(1 << 56)}
	rint := func() int64 {
		if rng.Intn(3) == 0 {
			return int64(rng.Uint64())
		}
		return ints[rng.Intn(len(ints))]
	}
	meta := func() []string {
		del := int64(0)
		switch rng.Intn(4) {
		case 0:
			del = rint()
		case 1:
			del = 1700000000
		}
		return []string{strconv.FormatInt(rint(), 10), strconv.FormatInt(rint(), 10), strconv.FormatInt(rint(), 10), strconv.FormatInt(del, 10),
			strconv.Itoa(rng.Intn(2)), strconv.Itoa(rng.Intn(2))}
	}
	formats := []int{dsd.AUTO, dsd.RAW, dsd.CBOR, dsd.GenCode, dsd.JSON, dsd.MsgPack, dsd.YAML, dsd.GZIP, 127, 128, 200, 255}
	// payload prefixes that mean something to some layer (BOM, JSON tokens, gzip magic, format bytes, …)
	dict := [][]byte{{0xEF, 0xBB, 0xBF}, []byte("{"), []byte("["), []byte("null"), []byte(" "), []byte("\n"), {0}, {0x1f, 0x8b, 0x08},
		[]byte("J"), {1}, {0xff, 0xfe}, []byte("\""), {0x80}, {0xc8, 0x01}, []byte("Z"), []byte("G")}
	payload0 := func() []byte { return nil }
	_ = payload0
	var payload func() []byte
	basePayload := func() []byte {
		switch rng.Intn(5) {
		case 0:
			return nil
		case 1:
			return []byte{byte(rng.Intn(256))}
		case 2:
			b, _ := json.Marshal(mkRec(int64(rng.Intn(100))))
			return b
		case 3:
			b := make([]byte, 1+rng.Intn(4096))
			rng.Read(b)
			return b
		}
		b := make([]byte, rng.Intn(24))
		rng.Read(b)
		return b
	}
	payload = func() []byte {
		p := basePayload()
		if rng.Intn(400) == 0 { // rarely a payload at a size threshold, in every stream that takes a payload
			k := []uint{12, 15, 16}[rng.Intn(3)]
			p = make([]byte, 1<<k-1+rng.Intn(3))
			rng.Read(p)
			r.Count("payload:threshold-size")
		}
		if rng.Intn(4) == 0 {
			p = append(append([]byte{}, dict[rng.Intn(len(dict))]...), p...)
		}
		return p
	}
	ex := &exec{}
	var valid [][]byte
	// (a) structured marshal → parse pairs
	N := r.Budget(4000, 300000)
	for i := 0; i < N; i++ {
		m := meta()
		fm := formats[rng.Intn(len(formats))]
		line := fmt.Sprintf("mw %s %d %s", strings.Join(m, " "), fm, hxlib.Hex(payload()))
		enc := ex.Do(line)
		lines := []string{line}
		if !strings.HasPrefix(enc, "err") && !strings.HasPrefix(enc, "PANIC") {
			lines = append(lines, "parse "+enc)
			if len(valid) < 200 && len(enc) < 400 {
				valid = append(valid, hxlib.UnHex(enc))
			}
		}
		gm := "gm " + strings.Join(m, " ")
		lines = append(lines, gm, "gu "+ex.Do(gm)+[]string{"", "ab", "00ff"}[rng.Intn(3)])
		r.Count(fmt.Sprintf("format:%d", fm))
		if m[3] != "0" && !strings.HasPrefix(m[3], "-") {
			r.Count("deleted:yes")
		} else {
			r.Count("deleted:no")
		}
		if i%4 == 0 {
			lines = append(lines, "held")
		}
		emit(hxlib.Case{Lines: lines, NonTrivial: true, Kind: "wrapper-roundtrip"})
	}
	typedFormats := []int{dsd.JSON, dsd.JSON, dsd.CBOR, dsd.MsgPack, dsd.YAML, dsd.GenCode, dsd.RAW, dsd.AUTO, 200, 255}
	dumpWord := func(seed int64, format int) string {
		d, err := dsd.Dump(mkRecX(seed), uint8(format))
		if err != nil {
			return "fail"
		}
		return hxlib.Hex(d)
	}
	// (a2) payload sizes around the thresholds an implementation plausibly has (page, 15/16/17-bit lengths, 1 MiB):
	// the model is size-agnostic (wrapper_roundtrip / base_roundtrip quantify over every payload), so a size class the
	// generator never produces is a region in which nothing ties the code to it. Every stream that serialises is run
	// at 2^k-1, 2^k, 2^k+1 for k = 12, 15, 16, 17 and at 2^20 (thorough: also 2^20±1, 2^21, 2^22) — wrappers and typed
	// records × deleted / not deleted × every format.
	var sizes []int
	for _, k := range []uint{12, 15, 16, 17} {
		sizes = append(sizes, 1<<k-1, 1<<k, 1<<k+1)
	}
	hugeSizes := []int{1 << 20}
	if r.Thorough {
		hugeSizes = []int{1<<20 - 1, 1 << 20, 1<<20 + 1, 1 << 21, 1 << 22}
	}
	bigPayload := func(n int) []byte {
		b := make([]byte, n)
		switch rng.Intn(3) {
		case 0:
			rng.Read(b)
		case 1:
			for i := range b {
				b[i] = byte('a' + i%26)
			}
		default: // a JSON document of exactly n bytes
			copy(b, `{"S":"`)
			for i := 6; i < n; i++ {
				b[i] = 'j'
			}
			copy(b[n-2:], `"}`)
		}
		return b
	}
	metaDel := func(deleted bool) []string {
		m := meta()
		if deleted {
			m[3] = []string{"1", "1700000000", "9223372036854775807", strconv.FormatInt(1+rng.Int63(), 10)}[rng.Intn(4)]
		} else {
			m[3] = []string{"0", "0", "-1", "-1700000000", strconv.FormatInt(-rng.Int63(), 10)}[rng.Intn(5)]
		}
		return m
	}
	rot := rng.Intn(1 << 16)
	sizeCase := func(kind string, n int, lines []string, noModel bool) {
		r.Count(fmt.Sprintf("payload-size:%d", n))
		r.Count("size-threshold-stream:" + kind)
		emit(hxlib.Case{Lines: lines, NonTrivial: true, Kind: "size-threshold:" + kind, NoModel: noModel})
	}
	allSizes := append(append([]int{}, sizes...), hugeSizes...)
	for si, n := range allSizes {
		huge := n >= 1<<20
		for fi, fm := range formats {
			if huge && ((!r.Thorough && fi != (rot+si)%len(formats)) || (r.Thorough && (fi+rot+si)%4 != 0)) {
				continue // 1 MiB and more: one format per run in the quick tier, a rotating quarter in the thorough tier
			}
			for _, deleted := range []bool{true, false} {
				// round trip
				line := fmt.Sprintf("mw %s %d %s", strings.Join(metaDel(deleted), " "), fm, hxlib.Hex(bigPayload(n)))
				lines := []string{line}
				if enc := ex.Do(line); !strings.HasPrefix(enc, "err") && !strings.HasPrefix(enc, "PANIC") {
					lines = append(lines, "parse "+enc)
				}
				sizeCase("wrapper-roundtrip", n, lines, false)
			}
		}
		fmAt := func(k int) int { return formats[(rot+si+k)%len(formats)] }
		// public methods: Marshal(AUTO), MarshalRecord and the layout relation between the two, deleted and not
		for k, deleted := range []bool{true, false} {
			sizeCase("wrapper-marshal-api", n, []string{fmt.Sprintf("wnew %s %d %s", strings.Join(metaDel(deleted), " "), fmAt(k), hxlib.Hex(bigPayload(n))),
				"wm 0", "wmr", fmt.Sprintf("wm %d", fmAt(k)), "held"}, false)
		}
		// history: a live wrapper is serialised, deleted in place (what Interface.Delete does), serialised, revived,
		// serialised; and the other way round
		sizeCase("wrapper-with-history", n, []string{fmt.Sprintf("wnew %s %d %s", strings.Join(metaDel(false), " "), fmAt(2), hxlib.Hex(bigPayload(n))), "wrt",
			"wset " + strings.Join(metaDel(true), " "), "wrt", "wrt", "wset " + strings.Join(metaDel(false), " "), "wrt", "held"}, false)
		sizeCase("wrapper-with-history", n, []string{fmt.Sprintf("wnew %s %d %s", strings.Join(metaDel(true), " "), fmAt(3), hxlib.Hex(bigPayload(n))), "wrt",
			"wset " + strings.Join(metaDel(false), " "), "wrt", "wset " + strings.Join(metaDel(true), " "), "wrt"}, false)
		// parsed-then-modified: the wrapper comes from NewRawWrapper (small or large), its Data is replaced by a payload
		// of the size in question / overwritten in place, it is deleted, serialised, revived, serialised
		{
			small := []byte("small")
			first := bigPayload(n)
			if si%2 == 0 {
				first = small
			}
			if enc := ex.Do(fmt.Sprintf("mw %s %d %s", strings.Join(metaDel(false), " "), fmAt(4)%128, hxlib.Hex(first))); !strings.HasPrefix(enc, "err") && !strings.HasPrefix(enc, "PANIC") {
				lines := []string{"wparse " + enc, "wrt"}
				mode := "inplace"
				if si%2 == 0 {
					mode = []string{"new", "reuse"}[rng.Intn(2)]
				}
				lines = append(lines, "wdata "+mode+" "+hxlib.Hex(bigPayload(n)), "wset "+strings.Join(metaDel(true), " "), "wrt", "wmr",
					"wset "+strings.Join(metaDel(false), " "), "wrt", fmt.Sprintf("wfmt %d", fmAt(5)%128), "wset "+strings.Join(metaDel(true), " "), "wrt", "held")
				sizeCase("parsed-then-modified", n, lines, false)
			}
		}
		// typed records whose encoding has that size: round trip on the implementation; MarshalRecord / Marshal compared
		// with the model (the codec's output is the model's parameter), every format the typed stream uses
		dumpLen := func(seed int64, fm int) int {
			d, err := dsd.Dump(mkRec(seed), uint8(fm))
			if err != nil {
				return -1
			}
			return len(d) - 1
		}
		seedFor := func(fm int) int64 { // a seed whose encoding in format fm has n bytes (exactly, if the format allows)
			low := int64(rng.Intn(1000))
			pad := int64(n)
			for try := 0; try < 3; try++ {
				l := dumpLen(pad*1000+low, fm)
				if l < 0 || l == n {
					break
				}
				if pad += int64(n - l); pad < 0 {
					pad = 0
				}
			}
			return pad*1000 + low
		}
		for _, deleted := range []bool{true, false} {
			seed := seedFor(dsd.JSON)
			m := metaDel(deleted)
			sizeCase("typed-roundtrip", n, []string{fmt.Sprintf("rt %s %d", strings.Join(m, " "), seed)}, true)
			js, _ := json.Marshal(mkRec(seed))
			r.Count(fmt.Sprintf("typed-json-size:%d", len(js)))
			sizeCase("typed-marshal", n, []string{fmt.Sprintf("mb %s %d@%s", strings.Join(m, " "), seed, hxlib.Hex(js)),
				fmt.Sprintf("mbr %s %d@%s", strings.Join(metaDel(deleted), " "), seed, dumpWord(seed, dsd.JSON)), "held"}, false)
			for fi, fm := range typedFormats {
				if !deleted && !r.Thorough && (huge || (si+fi+rot)%3 != 0) {
					continue
				}
				if huge && ((!r.Thorough && fi != (rot+si)%len(typedFormats)) || (r.Thorough && (fi+rot+si)%4 != 0)) {
					continue
				}
				seed := seedFor(fm)
				sizeCase("typed-marshal-api", n, []string{fmt.Sprintf("bm %s %d %d@%s", strings.Join(metaDel(deleted), " "), fm, seed, dumpWord(seed, fm))}, false)
			}
		}
		// re-entrant: the inner record is a wrapper of that size, deleted or not
		for _, deleted := range []bool{true, false} {
			sizeCase("reentrant-serialisation", n, []string{fmt.Sprintf("rtn %s %s 3 %d", strings.Join(metaDel(false), " "), strings.Join(metaDel(deleted), " "), n)}, true)
		}
	}
	// concurrent: goroutines with payloads of size-1, size, size+1, every fifth record deleted
	for _, k := range []uint{12, 15, 16, 17, 20} {
		iters := r.Budget(60, 400)
		if k == 20 {
			iters = r.Budget(8, 40)
		}
		sizeCase("concurrent-serialisation", 1<<k, []string{fmt.Sprintf("conc %d %d %d %d", []int{4, 8, 16}[rng.Intn(3)], iters, rng.Intn(1000), 1<<k)}, true)
	}
	// wrappers with history: serialise, change the metadata in place, serialise again
	for i := 0; i < r.Budget(1500, 60000); i++ {
		fm := formats[rng.Intn(len(formats))]
		lines := []string{fmt.Sprintf("wnew %s %d %s", strings.Join(meta(), " "), fm, hxlib.Hex(payload())), "wrt"}
		for j := 0; j < 1+rng.Intn(4); j++ {
			lines = append(lines, "wset "+strings.Join(meta(), " "), "wrt")
			if rng.Intn(3) == 0 {
				lines = append(lines, "wrt")
			}
		}
		emit(hxlib.Case{Lines: lines, NonTrivial: true, Kind: "wrapper-with-history"})
	}
	// records whose meta section is in a third-party codec or compressed (outside the model: implementation
	// only; no panic, and where the section was produced by the real codec from known metadata it must load)
	for i := 0; i < r.Budget(1200, 40000); i++ {
		mm := meta()
		m, _ := mkMeta(mm)
		var ms []byte
		name := ""
		valid := true
		switch k := rng.Intn(9); k {
		case 0, 1, 2, 3:
			f := []uint8{dsd.JSON, dsd.CBOR, dsd.MsgPack, dsd.YAML}[k]
			name = []string{"JSON", "CBOR", "MsgPack", "YAML"}[k]
			ms, _ = dsd.Dump(m, f)
		case 4:
			name = "GZIP+JSON"
			ms, _ = dsd.DumpAndCompress(m, dsd.JSON, dsd.GZIP)
		case 5:
			name = "GZIP+GenCode"
			ms, _ = dsd.DumpAndCompress(m, dsd.GenCode, dsd.GZIP)
		default: // gzip streams of arbitrary short content, incl. empty, a lone format byte, garbage
			valid = false
			name = "GZIP+arbitrary"
			var inner []byte
			switch rng.Intn(5) {
			case 0:
			case 1:
				inner = []byte{[]byte{dsd.JSON, dsd.GenCode, dsd.GZIP, dsd.RAW, 0}[rng.Intn(5)]}
			case 2:
				inner = append([]byte{dsd.GZIP}, gz(nil)...)
			default:
				inner = make([]byte, rng.Intn(40))
				rng.Read(inner)
			}
			ms = append([]byte{dsd.GZIP}, gz(inner)...)
			if rng.Intn(4) == 0 && len(ms) > 3 {
				ms = ms[:len(ms)-1-rng.Intn(3)]
			}
		}
		if ms == nil {
			continue
		}
		rec := append([]byte{1}, varint.PrependLength(ms)...)
		if mm[3] == "0" || strings.HasPrefix(mm[3], "-") {
			rec = append(append(rec, dsd.JSON), payload()...)
		}
		r.Count("meta-section:" + name)
		if valid && !strings.HasPrefix(name, "GZIP+GenCode") {
			emit(hxlib.Case{Lines: []string{"parsev " + hxlib.Hex(rec) + " " + strings.Join(mm[0:4], " ") + " " + name}, Kind: "codec-meta-section", NoModel: true, NonTrivial: true})
		} else {
			emit(hxlib.Case{Lines: []string{"parsex " + hxlib.Hex(rec)}, Kind: "codec-meta-section", NoModel: true, NonTrivial: true})
		}
	}
	// typed records (JSON codec is a parameter of the model: byte-exact marshal is compared, the value
	// round trip is checked on the implementation)
	for i := 0; i < r.Budget(1500, 60000); i++ {
		m := meta()
		seed := rng.Intn(1000)
		emit(hxlib.Case{Lines: []string{fmt.Sprintf("rt %s %d", strings.Join(m, " "), seed)}, NonTrivial: true, Kind: "typed-roundtrip", NoModel: true})
		mb := fmt.Sprintf("mb %s %d", strings.Join(m, " "), seed)
		// the model receives the JSON payload as opaque bytes
		js, _ := json.Marshal(func() *TestRec { x := mkRec(int64(seed)); return x }())
		emit(hxlib.Case{Lines: []string{mb + "@" + hxlib.Hex(js)}, NonTrivial: true, Kind: "typed-marshal"})
	}
	// parsed-then-modified wrappers (objects with history): NewRawWrapper → Data replaced by a new slice of the
	// same / another length, overwritten in place, backing array re-used, Format changed, metadata changed →
	// serialise → parse → must be the record as it is now; every format
	sameLen := func(old []byte) []byte {
		n := append([]byte{}, old...)
		if len(n) == 0 {
			return n
		}
		switch rng.Intn(3) {
		case 0:
			rng.Read(n)
		case 1:
			n[rng.Intn(len(n))] ^= byte(1 + rng.Intn(255))
		default:
			for i := range n {
				if n[i] >= 'a' && n[i] <= 'z' {
					n[i] = byte('a' + rng.Intn(26))
				}
			}
		}
		return n
	}
	for i := 0; i < r.Budget(2000, 80000); i++ {
		fm := formats[rng.Intn(len(formats))]
		if rng.Intn(3) != 0 && fm >= 128 {
			fm = dsd.JSON
		}
		p := payload()
		enc := ex.Do(fmt.Sprintf("mw %s %d %s", strings.Join(meta(), " "), fm, hxlib.Hex(p)))
		if strings.HasPrefix(enc, "err") || strings.HasPrefix(enc, "PANIC") {
			continue
		}
		lines := []string{"wparse " + enc}
		if rng.Intn(2) == 0 {
			lines = append(lines, "wrt")
		}
		cur := p
		for j := 0; j < 1+rng.Intn(4); j++ {
			switch rng.Intn(8) {
			case 0, 1, 2:
				cur = sameLen(cur)
				lines = append(lines, "wdata "+[]string{"new", "new", "inplace", "reuse"}[rng.Intn(4)]+" "+hxlib.Hex(cur))
			case 3, 4:
				cur = payload()
				lines = append(lines, "wdata "+[]string{"new", "reuse"}[rng.Intn(2)]+" "+hxlib.Hex(cur))
			case 5:
				lines = append(lines, fmt.Sprintf("wfmt %d", formats[rng.Intn(len(formats))]))
			case 6:
				lines = append(lines, "wset "+strings.Join(meta(), " "))
			default:
				lines = append(lines, []string{"wm 0", "wmr"}[rng.Intn(2)])
			}
			lines = append(lines, "wrt")
		}
		lines = append(lines, "held")
		emit(hxlib.Case{Lines: lines, NonTrivial: true, Kind: "parsed-then-modified"})
	}
	// … and through the record's accessor (JSON wrappers; the accessor is outside the model: implementation only,
	// the monitor takes the record's public Data field as it is after the call)
	for i := 0; i < r.Budget(600, 20000); i++ {
		names := []string{"alice", "carol", "bob", "", "zoë"}
		doc := fmt.Sprintf(`{"Name":%q,"Level":%d,"On":%v}`, names[rng.Intn(len(names))], rng.Intn(10), rng.Intn(2) == 0)
		enc := ex.Do(fmt.Sprintf("mw %s %d %s", strings.Join(liveMeta0(rng, meta), " "), dsd.JSON, hxlib.Hex([]byte(doc))))
		if strings.HasPrefix(enc, "err") || strings.HasPrefix(enc, "PANIC") {
			continue
		}
		lines := []string{"wparse " + enc}
		for j := 0; j < 1+rng.Intn(3); j++ {
			switch rng.Intn(3) {
			case 0:
				lines = append(lines, "wacc "+hxlib.Hex([]byte("Name"))+" "+hxlib.Hex([]byte(fmt.Sprintf("%q", names[rng.Intn(len(names))]))))
			case 1:
				lines = append(lines, "wacc "+hxlib.Hex([]byte("Level"))+" "+hxlib.Hex([]byte(strconv.Itoa(rng.Intn(10)))))
			default:
				lines = append(lines, "wacc "+hxlib.Hex([]byte("On"))+" "+hxlib.Hex([]byte([]string{"true", "false"}[rng.Intn(2)])))
			}
			lines = append(lines, "wrt")
		}
		emit(hxlib.Case{Lines: lines, NonTrivial: true, Kind: "parsed-then-accessor-set", NoModel: true})
	}
	// the serialiser is a pure function in the model (no state shared between calls); these two streams tie
	// exactly that: (a) re-entrant use — a record whose JSON encoder serialises another record with other
	// metadata before returning its own payload, (b) concurrent use — goroutines serialising records with
	// distinct metadata and parsing their own output. Implementation only.
	for i := 0; i < r.Budget(800, 30000); i++ {
		emit(hxlib.Case{Lines: []string{fmt.Sprintf("rtn %s %s %d %d", strings.Join(meta(), " "), strings.Join(meta(), " "), rng.Intn(3), rng.Intn(1000))},
			NonTrivial: true, Kind: "reentrant-serialisation", NoModel: true})
	}
	for i := 0; i < r.Budget(6, 60); i++ {
		emit(hxlib.Case{Lines: []string{fmt.Sprintf("conc %d %d %d", []int{2, 4, 8, 16, 32}[rng.Intn(5)], r.Budget(1500, 20000), rng.Intn(1000))},
			NonTrivial: true, Kind: "concurrent-serialisation", NoModel: true})
	}
	// key accessors of Base as a state machine: SetKey (once), ResetKey, Key / DatabaseName / DatabaseKey / KeyIsSet
	keyParts := []string{"db", "", "a:b", ":", "cörε", "x:y:z", "::", "core", "k", "config/x", " "}
	mkKey := func() string {
		k := keyParts[rng.Intn(len(keyParts))]
		if rng.Intn(4) != 0 {
			k += ":" + keyParts[rng.Intn(len(keyParts))]
		}
		return k
	}
	for i := 0; i < r.Budget(600, 20000); i++ {
		lines := []string{"bnew", "keyq"}
		for j := 0; j < 1+rng.Intn(5); j++ {
			if rng.Intn(4) == 0 {
				lines = append(lines, "resetkey", "keyq")
			} else {
				lines = append(lines, "setkey "+hxlib.Hex([]byte(mkKey())), "keyq")
			}
		}
		emit(hxlib.Case{Lines: lines, NonTrivial: true, Kind: "key-accessors"})
	}
	// Marshal / MarshalRecord of wrappers through the public methods: explicit formats, records without
	// metadata, layout relation between the two
	for i := 0; i < r.Budget(1500, 60000); i++ {
		fm := formats[rng.Intn(len(formats))]
		var lines []string
		if rng.Intn(5) == 0 {
			lines = append(lines, fmt.Sprintf("wnewnil %d %s", fm, hxlib.Hex(payload())))
		} else {
			lines = append(lines, fmt.Sprintf("wnew %s %d %s", strings.Join(meta(), " "), fm, hxlib.Hex(payload())))
		}
		for j := 0; j < 1+rng.Intn(3); j++ {
			lines = append(lines, "wm 0", "wmr")
			switch rng.Intn(4) {
			case 0:
				lines = append(lines, fmt.Sprintf("wm %d", fm))
			case 1:
				lines = append(lines, fmt.Sprintf("wm %d", formats[rng.Intn(len(formats))]))
			case 2:
				lines = append(lines, "wrt")
			}
			if !strings.HasPrefix(lines[0], "wnewnil") && rng.Intn(2) == 0 {
				lines = append(lines, "wset "+strings.Join(meta(), " "))
			}
		}
		lines = append(lines, "held")
		emit(hxlib.Case{Lines: lines, NonTrivial: true, Kind: "wrapper-marshal-api"})
	}
	// Marshal / MarshalRecord of typed records: every dsd format (incl. unsupported ones and GenCode, which the
	// harness schema does not implement), records without metadata, values the JSON codec refuses. The codec's
	// output is a parameter of the model (computed here with dsd.Dump).
	metaOrNilWords := func() string {
		if rng.Intn(6) == 0 {
			return "nil"
		}
		return strings.Join(meta(), " ")
	}
	for i := 0; i < r.Budget(1500, 60000); i++ {
		seed := int64(rng.Intn(1000))
		if rng.Intn(6) == 0 {
			seed = -1 - int64(rng.Intn(50))
		}
		fm := typedFormats[rng.Intn(len(typedFormats))]
		r.Count(fmt.Sprintf("typed-format:%d", fm))
		lines := []string{
			fmt.Sprintf("bm %s %d %d@%s", metaOrNilWords(), fm, seed, dumpWord(seed, fm)),
			fmt.Sprintf("mbr %s %d@%s", metaOrNilWords(), seed, dumpWord(seed, dsd.JSON)),
		}
		lines = append(lines, "held")
		emit(hxlib.Case{Lines: lines, NonTrivial: true, Kind: "typed-marshal-api"})
	}
	// Unwrap: wrappers with arbitrary database name / key (as storage backends hand them to NewRawWrapper),
	// every format, valid and invalid payloads, targets with and without a key of their own
	liveMeta := func() []string {
		m := meta()
		if !strings.HasPrefix(m[3], "-") {
			m[3] = "0"
		}
		return m
	}
	for i := 0; i < r.Budget(1500, 60000); i++ {
		if rng.Intn(40) == 0 {
			emit(hxlib.Case{Lines: []string{"uwn"}, NonTrivial: true, Kind: "unwrap"})
			continue
		}
		fm := []int{dsd.JSON, dsd.JSON, dsd.JSON, dsd.CBOR, dsd.MsgPack, dsd.RAW, dsd.GenCode, dsd.AUTO, 127, dsd.YAML}[rng.Intn(10)]
		var data []byte
		switch rng.Intn(6) {
		case 0:
			data = payload()
		case 1:
			data = []byte("{\"S\":1}") // valid JSON, wrong type
		default:
			full, err := dsd.Dump(mkRec(int64(rng.Intn(100))), uint8([]int{dsd.JSON, dsd.JSON, fm}[rng.Intn(3)]))
			if err == nil && len(full) > 0 {
				data = full[1:]
			}
		}
		load := "fail"
		if dsd.LoadAsFormat(data, uint8(fm), &TestRec{}) == nil {
			load = "ok"
		}
		r.Count("unwrap-load:" + load)
		tkey := "-"
		// a target with a key of its own: only with JSON payloads — the model takes the codec to leave the
		// (unexported) key fields of the target alone, which encoding/json does; msgpack's array form resets the
		// whole struct (key included) before decoding, so that `SetKey` then is not ignored
		if rng.Intn(4) == 0 && fm == dsd.JSON {
			tkey = hxlib.Hex([]byte([]string{"other:k", ":x", "nocolon", "a:b:c"}[rng.Intn(4)]))
		}
		line := fmt.Sprintf("uw %s %s %s %d %s %s %s", hxlib.Hex([]byte(keyParts[rng.Intn(len(keyParts))])), hxlib.Hex([]byte(keyParts[rng.Intn(len(keyParts))])),
			strings.Join(liveMeta(), " "), fm, hxlib.Hex(data), tkey, load)
		emit(hxlib.Case{Lines: []string{line}, NonTrivial: true, Kind: "unwrap"})
	}
	// GenCodeMarshal into caller-supplied buffers (too small, exactly 34, larger; pre-filled), then unmarshal
	for i := 0; i < r.Budget(600, 20000); i++ {
		m := meta()
		capn := []int{0, 1, 33, 34, 35, 64, 200}[rng.Intn(7)]
		ln := 0
		if capn > 0 {
			ln = rng.Intn(capn + 1)
		}
		gmb := fmt.Sprintf("gmb %d %d %s", capn, ln, strings.Join(m, " "))
		emit(hxlib.Case{Lines: []string{gmb, "gu " + ex.Do(gmb) + []string{"", "ab"}[rng.Intn(2)]}, NonTrivial: true, Kind: "gencode-buffer"})
	}
	// metadata made by CreateMeta / UpdateMeta survive the storage form; Duplicate is an independent copy
	for i := 0; i < r.Budget(300, 10000); i++ {
		emit(hxlib.Case{Lines: []string{fmt.Sprintf("um %d %s %d", rng.Intn(9), strings.Join(meta(), " "), rng.Intn(100))}, NonTrivial: true, Kind: "update-meta", NoModel: true})
	}
	// keys
	for i := 0; i < 300; i++ {
		parts := []string{"db", "", "a:b", ":", "cörε", "x:y:z", "::"}
		k := parts[rng.Intn(len(parts))]
		if rng.Intn(2) == 0 {
			k += ":" + parts[rng.Intn(len(parts))]
		}
		emit(hxlib.Case{Lines: []string{"key " + hxlib.Hex([]byte(k))}, NonTrivial: strings.Contains(k, ":"), Kind: "key"})
	}
	// (b) malformed: every truncation and every single-byte corruption of valid encodings
	nv := r.Budget(40, 200)
	if nv > len(valid) {
		nv = len(valid)
	}
	parse := func(kind string, b []byte) {
		if delegated(b) {
			r.Count("malformed:delegated")
			emit(hxlib.Case{Lines: []string{"parsex " + hxlib.Hex(b)}, Kind: kind + "-delegated", NoModel: true, NonTrivial: true})
			return
		}
		emit(hxlib.Case{Lines: []string{"parse " + hxlib.Hex(b)}, Kind: kind, NonTrivial: true})
	}
	for _, v := range valid[:nv] {
		for j := 0; j <= len(v); j++ {
			parse("truncation", v[:j])
		}
		for j := 0; j < len(v) && j < 48; j++ {
			for _, x := range []byte{0, 1, 2, 0x7f, 0x80, 0xff, v[j] ^ 1, v[j] + 1} {
				c := append([]byte{}, v...)
				c[j] = x
				parse("corruption", c)
			}
		}
		// flag bytes over the whole range
		if len(v) > 38 {
			for x := 0; x < 256; x += 5 {
				c := append([]byte{}, v...)
				c[3+32] = byte(x)
				c[3+33] = byte(255 - x)
				parse("flag-bytes", c)
			}
		}
		// block length field at all boundary values
		for _, decl := range []uint64{0, 1, 34, 35, 36, 127, 128, uint64(len(v)), 1<<31 - 1, 1 << 31, 1<<63 - 1, 1 << 63, 1<<63 - 9, 1<<64 - 10, 1<<64 - 1} {
			c := append([]byte{1}, varint.Pack64(decl)...)
			c = append(c, v[2:]...)
			parse("block-length", c)
		}
		// version byte
		for _, ver := range [][]byte{{0}, {2}, {0x7f}, {0x80}, {0x81, 0x01}, {0x81, 0x00}, {0xff, 0x01}, {0x80, 0x01}} {
			parse("version", append(append([]byte{}, ver...), v[1:]...))
		}
		// meta-format byte
		for _, mf := range []byte{0, 1, 2, 67, 70, 71, 72, 74, 76, 77, 89, 90, 91, 0x80, 0xff} {
			c := append([]byte{}, v...)
			c[2] = mf
			parse("meta-format", c)
		}
	}
	// random strings
	for i := 0; i < r.Budget(30000, 3000000); i++ {
		b := make([]byte, rng.Intn(64))
		rng.Read(b)
		if len(b) > 3 && rng.Intn(2) == 0 {
			b[0] = 1
			b[1] = byte(rng.Intn(len(b)))
			if rng.Intn(2) == 0 {
				b[2] = 71
			}
		}
		parse("random", b)
	}
}

// liveMeta0: metadata of a record that is not deleted.
func liveMeta0(rng interface{ Intn(int) int }, meta func() []string) []string {
	m := meta()
	if !strings.HasPrefix(m[3], "-") {
		m[3] = "0"
	}
	return m
}

func gz(b []byte) []byte {
	var buf bytes.Buffer
	w := gzip.NewWriter(&buf)
	_, _ = w.Write(b)
	_ = w.Close()
	return buf.Bytes()
}

type execWrap struct{ exec }

// Do strips the "@<json>" suffix the generator attaches for the model's benefit on `mb` lines.
func (e *execWrap) Do(line string) string {
	if i := strings.IndexByte(line, '@'); i >= 0 {
		line = line[:i]
	}
	return e.exec.Do(line)
}

func main() {
	hxlib.Main(&hxlib.Harness{
		Prop:     "C08",
		Rule:     "(also: payload / encoding sizes at implementation thresholds — 2^k-1, 2^k, 2^k+1 for k = 12, 15, 16, 17 and 2^20 (thorough: 2^20±1, 2^21, 2^22) — for wrappers × every format × deleted / not deleted in the round-trip stream, through Marshal/MarshalRecord with the layout relation, in wrappers with history (serialised, deleted in place, serialised, revived), in parsed-then-modified wrappers (Data replaced / overwritten in place by a payload of that size), for typed records whose JSON / CBOR / MsgPack / YAML encoding has that size (round trip on the implementation, Marshal/MarshalRecord bytes against the model), as the inner record of a re-entrant serialisation and in the concurrent stream; 1 in 400 payloads of every other stream has such a size) (also: wrappers that come from NewRawWrapper and are then modified — Data replaced by a same-length / other-length new slice, overwritten in place, backing array re-used, through the accessor, Format changed, metadata changed — serialised and parsed again; the Lean model of the serialiser is a pure function, i.e. no state is shared between calls: the re-entrant stream (a record whose JSON encoder serialises another record) and the concurrent stream (2–32 goroutines serialising records with distinct metadata and parsing their own output) tie exactly that purity on the implementation) (also: key accessors of Base as a state machine; Marshal/MarshalRecord of wrappers and typed records through the public methods incl. explicit formats, missing metadata and failing codecs; Unwrap with arbitrary database name/key, every format, valid and invalid payloads, keyed targets; GenCodeMarshal into caller-supplied buffers; CreateMeta/UpdateMeta/Duplicate on the implementation) (also: wrappers with history — metadata changed in place between serialisations; records whose meta section is produced by a real third-party codec or gzip, incl. empty/garbage gzip streams; payloads with a dictionary of meaningful prefixes) structured: metadata tuples from {0,±1,now,±2^31,±2^53,±2^56,2^63-1,-2^63,random int64} × flags × formats (all DSD ids, 127, 128, 200, 255) × payloads (empty, 1 B, JSON, random ≤4 KiB) × deleted or not: MarshalRecord bytes compared byte for byte with the model, NewRawWrapper results field by field, gencode marshal/unmarshal; typed records of the harness schema (round trip checked on the implementation, bytes compared with the model given the JSON payload); keys; malformed: every truncation and single-byte corruption (8 values per position) of up to 40/200 valid encodings, flag bytes 0..255, block length fields at all boundaries incl. 2^63, 2^64-1, version and meta-format bytes, random strings ≤64 B. Non-trivial: everything except keys without a colon; distinct by hash of the op lines.",
		Generate: generate,
		NewExec:  func(*hxlib.Run) hxlib.Exec { return &execWrap{} },
		Monitor:  monitor,
	})
}
