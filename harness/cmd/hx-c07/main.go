// hx-c07: trace-validation harness and property monitor for C07 (modules/tasks.go).
package main

import (
	"bufio"
	"fmt"
	"math/rand"
	"os"
	"os/exec"
	"runtime"
	"strings"

	"verifharness/hxlib"
)

type exec0 struct{ replay bool }

// Do: the real scenario was executed by the generator (in a worker process) on the real scheduler; the
// trace lines are its recorded events, each carrying the implementation's own state snapshot after " | ".
// The implementation output of a line is that snapshot; the model driver has to reproduce it from its own
// state after taking the same action. In replay mode the scenario line additionally re-runs the scenario live.
func (e exec0) Do(line string) string {
	switch {
	case strings.HasPrefix(line, "scn "):
		scn, ok := decodeScn(line)
		if !ok {
			return "bad-op"
		}
		if e.replay {
			lines, clean, _ := runScenario(scn)
			fmt.Printf("LIVE RE-RUN of the scenario on the real scheduler: %d events, quiescent=%v\n", len(lines)-1, clean)
			vs := monitor(hxlib.Case{Lines: lines}, nil)
			for _, v := range vs {
				fmt.Printf("LIVE MONITOR: %s — %s\n", v.Sig, v.What)
			}
			if len(vs) == 0 {
				fmt.Println("LIVE MONITOR: property statement holds on the live re-run (the recorded trace follows)")
			}
		}
		return "ok"
	case strings.HasPrefix(line, "i "):
		return "-"
	case strings.HasPrefix(line, "e "):
		if i := strings.Index(line, " | "); i >= 0 {
			return line[i+3:]
		}
	}
	return "bad-op"
}

var extra = map[string]any{}

const rule = "one case = one scenario (timed script of Queue/QueuePrioritized/StartASAP/Schedule/MaxDelay/Cancel calls by 1-3 caller goroutines and from inside task functions, run times 0-40 ms, delays at the four yield points) executed on the real scheduler in a worker process; its lines are the recorded hook events in the order of the bracketed scheduler sections, each with the implementation's state snapshot, replayed through the Lean model (acceptor + snapshot comparison). Kinds: force-* (the races and stale states the proofs single out, jittered), direct-holds-queue (the queue is busy longer than the max delay of a waiting task, which is then started directly by the schedule handler and runs on after the queue task returned, while further tasks wait: they are due only after it returned or was cancelled; some with the queue handler held between its slot check and its pick), stale-timer-queued (tasks with max delays of varying size waiting behind a long-running task while early schedule entries are withdrawn, cancelled or moved: the timer fires for an entry that is gone), misuse (cancelled/inert tasks, zero times, zero max delay), rand* (random histories; rand-long = 30-70 calls on 1-3 tasks; rand-sched = shared absolute schedule times). Non-trivial: at least one task start and at least three API calls; distinct = distinct event traces."

func main() {
	if len(os.Args) > 1 && os.Args[1] == "-c07worker" {
		workerMain()
		return
	}
	if len(os.Args) > 1 && os.Args[1] == "-probe" {
		probe()
		return
	}
	replay := false
	for _, a := range os.Args[1:] {
		if a == "-replay" || strings.HasPrefix(a, "-replay=") {
			replay = true
		}
	}
	hxlib.Main(&hxlib.Harness{
		Prop:     "C07",
		Rule:     rule,
		Generate: generate,
		NewExec:  func(*hxlib.Run) hxlib.Exec { return exec0{replay: replay} },
		Monitor:  monitor,
		Extra:    func(*hxlib.Run) map[string]any { return extra },
		DisSig: func(line, impl, model string) string {
			f := strings.Fields(line)
			if len(f) > 2 {
				if strings.HasPrefix(model, "reject") {
					return "corr:reject:" + f[2]
				}
				return "corr:state:" + f[2]
			}
			return "corr:" + line
		},
	})
}

func probe() {
	seed := int64(1)
	if len(os.Args) > 2 {
		fmt.Sscan(os.Args[2], &seed)
	}
	r := rand.New(rand.NewSource(seed))
	scns := forcedScns(r)
	if len(os.Args) > 3 {
		scns = nil
		cnt := 3
		fmt.Sscan(os.Args[3], &cnt)
		for i := 0; i < cnt; i++ {
			scns = append(scns, randomScn(r, "rand"))
		}
	}
	for _, scn := range scns {
		lines, clean, stat := runScenario(scn)
		fmt.Println(strings.Join(lines, "\n"))
		fmt.Println("clean", clean, stat)
		for _, v := range monitor(hxlib.Case{Lines: lines}, nil) {
			fmt.Println("MONITOR", v.Sig, v.What)
		}
	}
}

func scenarios(r *hxlib.Run) []*Scn {
	var out []*Scn
	total := r.Budget(1500, 30000)
	// regression / forced cases first (three jittered rounds quick, more thorough)
	for i := 0; i < r.Budget(3, 40); i++ {
		out = append(out, forcedScns(r.Rng)...)
	}
	for i := 0; i < r.Budget(30, 600); i++ {
		out = append(out, misuseScn(r.Rng))
	}
	for i := 0; i < r.Budget(40, 800); i++ {
		out = append(out, staleTimerScn(r.Rng))
	}
	for i := 0; i < r.Budget(40, 800); i++ {
		out = append(out, directHoldsScn(r.Rng))
	}
	kinds := []string{"rand", "rand", "rand", "rand-small", "rand-nocancel", "rand-nocancel", "rand-sched", "rand-sched", "rand-long"}
	for len(out) < total {
		out = append(out, randomScn(r.Rng, kinds[r.Rng.Intn(len(kinds))]))
	}
	return out
}

func generate(r *hxlib.Run, emit func(hxlib.Case)) {
	scns := scenarios(r)
	k := 4
	if r.Thorough {
		k = 8
	}
	if n := runtime.NumCPU(); k > n {
		k = n
	}
	selftest := 0
	stalls, unclean := 0, 0
	skipped := runAll(scns, k, 25, func(i int, scn *Scn, res *wResult) {
		countTrace(r, scn, res.Lines)
		for key, n := range res.Stat {
			for j := 0; j < n; j++ {
				r.Count("harness:" + key)
			}
		}
		stalls += res.Stat["ctx-race-stall-broken"]
		if !res.Clean {
			unclean++
		}
		nt := nonTrivial(res.Lines)
		emit(hxlib.Case{Lines: res.Lines, NonTrivial: nt, Kind: scn.Kind})
		if selftest < r.Budget(24, 200) && nt {
			if acceptorSelfTest(r, res.Lines) {
				selftest++
			}
		}
	})
	extra["scenarios"] = len(scns)
	extra["workers"] = k
	extra["scenarios_skipped_after_too_many_non_quiescent"] = skipped
	extra["ctx_race_stalls_broken"] = stalls
	extra["scenarios_not_quiescent"] = unclean
	extra["acceptor_selftests_rejected"] = selftest
	extra["not_waited_out"] = "maxTimeslotWait 30 s, maxExecutionWait 1 min, defaultMaxDelay 1 min are never waited out on the implementation; the slot-watcher timeout and the default max delay are explored in the model only"
}

func nonTrivial(lines []string) bool {
	starts, calls := 0, 0
	for _, l := range lines {
		if strings.HasPrefix(l, "e ") && strings.Contains(l, " start | ") {
			starts++
		}
		if strings.HasPrefix(l, "i ") && strings.Contains(l, " call ") {
			calls++
		}
	}
	return starts >= 1 && calls >= 3
}

// countTrace measures the input distribution: op kinds, branches taken, sizes.
func countTrace(r *hxlib.Run, scn *Scn, lines []string) {
	r.Count(fmt.Sprintf("tasks:%d", scn.N))
	r.Count(fmt.Sprintf("modules:%d", scn.M))
	if len(scn.InFn) > 0 {
		r.Count("scn:calls-from-inside-task-function")
	}
	if len(scn.Yields) > 0 {
		r.Count("scn:yield-delays")
	}
	if len(scn.NilMod) > 0 {
		r.Count("scn:inert-task")
	}
	n := 0
	for _, l := range lines {
		f := strings.Fields(l)
		if len(f) < 3 {
			continue
		}
		if f[0] == "i" {
			switch f[2] {
			case "call":
				if len(f) > 4 {
					who := "outside"
					if strings.HasPrefix(f[3], "fn") {
						who = "inside-fn"
					}
					r.Count("call:" + f[4] + ":" + who)
				}
			case "end":
				if len(f) > 3 {
					r.Count("end:" + f[3])
				}
			case "stallbreak":
				r.Count("ctx-race-stall-broken")
			}
			continue
		}
		n++
		switch f[2] {
		case "run":
			if len(f) > 5 {
				r.Count("branch:run:" + f[3] + ":" + f[5])
			}
		case "shfetch":
			r.Count("branch:shfetch:" + f[3])
			if f[3] == "notdue" {
				// which kind of entry the stale timer met: the max-delay entry of a waiting task, or a scheduled time
				if strings.Contains(l, " | c0 x0 o1 ") || strings.Contains(l, " | c0 x1 o1 ") {
					r.Count("branch:shfetch:notdue:max-delay-entry-of-waiting-task")
				} else {
					r.Count("branch:shfetch:notdue:scheduled-entry")
				}
			}
		case "qhpop":
			if f[3] == "none" {
				r.Count("branch:qhpop:none")
			} else {
				r.Count("branch:qhpop:task")
			}
		case "asap":
			r.Count("branch:asap:" + f[3])
		default:
			r.Count("event:" + f[2])
		}
		if i := strings.Index(l, " | c"); i >= 0 && strings.HasPrefix(l[i+3:], "c1") {
			r.Count("event-on-cancelled-task")
		}
	}
	switch {
	case n < 20:
		r.Count("trace-len:<20")
	case n < 60:
		r.Count("trace-len:20-59")
	case n < 150:
		r.Count("trace-len:60-149")
	default:
		r.Count("trace-len:>=150")
	}
}

// acceptorSelfTest corrupts a recorded trace in a way no run of the scheduler can produce (a start event is
// removed, so the following goroutine start has no handler in the pre-execution state) and checks that the
// model driver rejects it. An accepted corrupted trace is reported like a monitor violation: the tie is blind.
func acceptorSelfTest(r *hxlib.Run, lines []string) bool {
	cut := -1
	for i, l := range lines {
		if strings.HasPrefix(l, "e ") && strings.Contains(l, " start | ") {
			cut = i
			break
		}
	}
	if cut < 0 || r.Pbdrv == "" {
		return false
	}
	var in strings.Builder
	in.WriteString("#case\n")
	for i, l := range lines {
		if i != cut {
			in.WriteString(l)
			in.WriteByte('\n')
		}
	}
	cmd := exec.Command(r.Pbdrv)
	cmd.Stdin = strings.NewReader(in.String())
	out, err := cmd.Output()
	if err != nil {
		return false
	}
	sc := bufio.NewScanner(strings.NewReader(string(out)))
	sc.Buffer(make([]byte, 1<<20), 1<<20)
	for sc.Scan() {
		if strings.HasPrefix(sc.Text(), "reject") {
			return true
		}
	}
	r.AddViolation(hxlib.Violation{Sig: "C07:acceptor-selftest", What: "the model driver accepted a trace from which a task start event had been removed: the trace validation is blind", Lines: lines[:cut+1]})
	return false
}
