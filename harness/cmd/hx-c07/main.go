// hx-c07: trace-validation harness and property monitor for C07 (modules/tasks.go).
package main

import (
	"fmt"
	"math/rand"
	"os"
	"strings"

	"verifharness/hxlib"
)

type exec struct{}

// Do: the real scenario was executed by the generator (the trace lines are its recorded events, each
// carrying the implementation's own state snapshot after " | "); the implementation output of a line is
// that snapshot, which the model driver has to reproduce from its own state.
func (exec) Do(line string) string {
	switch {
	case strings.HasPrefix(line, "scn "):
		if _, ok := decodeScn(line); !ok {
			return "bad-op"
		}
		return "ok"
	case strings.HasPrefix(line, "i "):
		return "-"
	case strings.HasPrefix(line, "e "):
		if i := strings.Index(line, " | "); i >= 0 {
			return line[i+3:]
		}
	}
	return "bad-op"
}

func main() {
	if len(os.Args) > 1 && os.Args[1] == "-probe" {
		seed := int64(1)
		if len(os.Args) > 2 {
			fmt.Sscan(os.Args[2], &seed)
		}
		r := rand.New(rand.NewSource(seed))
		scns := forcedScns(r)
		if len(os.Args) > 3 {
			scns = nil
			cnt := 3
			fmt.Sscan(os.Args[3], &cnt)
			for i := 0; i < cnt; i++ {
				scns = append(scns, randomScn(r, "rand"))
			}
		}
		for _, scn := range scns {
			lines, clean, stat := runScenario(scn)
			fmt.Println(strings.Join(lines, "\n"))
			fmt.Println("clean", clean, stat)
			for _, v := range monitor(hxlib.Case{Lines: lines}, nil) {
				fmt.Println("MONITOR", v.Sig, v.What)
			}
		}
		return
	}
	hxlib.Main(&hxlib.Harness{
		Prop:     "C07",
		Rule:     "todo",
		Generate: generate,
		NewExec:  func(*hxlib.Run) hxlib.Exec { return exec{} },
		Monitor:  monitor,
	})
}

func generate(r *hxlib.Run, emit func(hxlib.Case)) {
	n := r.Budget(100, 1000)
	for i := 0; i < n; i++ {
		scn := randomScn(r.Rng, "rand")
		lines, _, _ := runScenario(scn)
		emit(hxlib.Case{Lines: lines, NonTrivial: true, Kind: scn.Kind})
	}
}

