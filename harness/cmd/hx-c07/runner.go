package main

import (
	"bytes"
	"container/list"
	"context"
	"fmt"
	"runtime"
	"strconv"
	"strings"
	"sync"
	"time"

	"github.com/safing/portbase/modules"
)

// Ev is one recorded event. Events are appended while the global bracket lock is held, so the log order is
// the real order of the bracketed scheduler sections.
type Ev struct {
	Now  int64  // ns since base (base = scenario start - 1 s)
	Act  string // model action (or "i" info line payload)
	Info bool
	T    int
	Snap string // implementation snapshot after the action
}

func (e Ev) line() string {
	if e.Info {
		return "i " + strconv.FormatInt(e.Now, 10) + " " + e.Act
	}
	return "e " + strconv.FormatInt(e.Now, 10) + " " + e.Act + " | " + e.Snap
}

type yieldKey struct{ point, role string }

type runner struct {
	scn   *Scn
	base  time.Time
	start time.Time

	log []Ev // everything below is guarded by the global bracket lock G
	idx map[*modules.Task]int
	tks []*modules.Task

	qhGid, shGid uint64
	lastEv       time.Time

	// bookkeeping for quiescence and stall detection
	hold     int   // handler picked a task and has not yet entered its locked section
	inRun    []int // run:start .. finish:end per task
	watchers []int // spawn .. slot-free per task
	preSpawn int   // run:start .. spawn
	runsOf   []int // fn begins per task

	yseen map[yieldKey]int
	qhPopping bool // the queue handler is between its slot check and the end of its pick section
	stat  map[string]int
}

var (
	// G is the bracket lock: a hooked scheduler section holds it from its begin event to its end event, so
	// the hooked sections are mutually exclusive and the log order is their real order.
	G      sync.Mutex
	cur    *runner // the runner receiving events (guarded by G)
	sinkOn sync.Once
)

func goid() uint64 {
	var buf [64]byte
	b := buf[:runtime.Stack(buf[:], false)]
	b = bytes.TrimPrefix(b, []byte("goroutine "))
	if i := bytes.IndexByte(b, ' '); i > 0 {
		n, _ := strconv.ParseUint(string(b[:i]), 10, 64)
		return n
	}
	return 0
}

func b01(b bool) string {
	if b {
		return "1"
	}
	return "0"
}

func (r *runner) rel(t time.Time) int64 {
	if t.IsZero() {
		return 0
	}
	return int64(t.Sub(r.base))
}

func (r *runner) snapTask(s modules.VerifTaskState) string {
	return fmt.Sprintf("c%s x%s o%s ea=%d md=%d q%s p%s s%s", b01(s.Canceled), b01(s.Executing), b01(s.Overtime),
		r.rel(s.ExecuteAt), int64(s.MaxDelay), b01(s.InQueue), b01(s.InPrio), b01(s.InSched))
}

func (r *runner) idsOf(ts []*modules.Task) string {
	if len(ts) == 0 {
		return "-"
	}
	var sb strings.Builder
	for i, t := range ts {
		if i > 0 {
			sb.WriteByte(',')
		}
		if k, ok := r.idx[t]; ok {
			sb.WriteString(strconv.Itoa(k))
		} else {
			sb.WriteString("?")
		}
	}
	return sb.String()
}

func (r *runner) snapLists() string {
	q, p, s := modules.VerifTaskLists()
	return "Q=" + r.idsOf(q) + " P=" + r.idsOf(p) + " S=" + r.idsOf(s)
}

func (r *runner) role() string {
	switch goid() {
	case r.qhGid:
		return "qh"
	case r.shGid:
		return "sh"
	}
	return "ex"
}

// add appends an event; caller holds r.g.
func (r *runner) add(now int64, act string, t int, snap string) {
	if n := len(r.log); n > 0 && now < r.log[n-1].Now {
		now = r.log[n-1].Now // never happens with the monotonic clock; keeps the log well-formed if it does
		r.stat["clock-nonmonotonic"]++
	}
	r.log = append(r.log, Ev{Now: now, Act: act, T: t, Snap: snap})
	r.lastEv = time.Now()
}

func (r *runner) info(s string) {
	G.Lock()
	r.log = append(r.log, Ev{Now: r.nowRel(), Act: s, Info: true})
	G.Unlock()
}

func (r *runner) nowRel() int64 { return int64(time.Since(r.base)) }

// sink receives the hook events of package modules (build tag verif).
func sink(point string, args ...any) {
	if !strings.Contains(point, "tasks:") {
		return
	}
	switch {
	case strings.HasPrefix(point, "yield:tasks:"):
		G.Lock()
		r := cur
		G.Unlock()
		if r != nil {
			r.yield(strings.TrimPrefix(point, "yield:tasks:"), args)
		}
	case strings.HasSuffix(point, ":begin"):
		if point == "tasks:qh-pop:begin" {
			// the queue handler has found every slot free and is about to pick: a place to be delayed (yield "qh-pop")
			G.Lock()
			r := cur
			if r != nil {
				r.qhPopping = true // the scenario is not quiescent while the queue handler is on its way to a pick
			}
			G.Unlock()
			if r != nil && len(r.scn.Yields) > 0 {
				r.yield("qh-pop", nil)
			}
		}
		G.Lock() // held until the matching end event
		if cur != nil && point == "tasks:sh-fetch:begin" {
			cur.shGid = goid()
		}
	case point == "tasks:qh-wait" || point == "tasks:spawn" || point == "tasks:slot-free":
		G.Lock()
		if cur != nil {
			cur.single(strings.TrimPrefix(point, "tasks:"), args)
		}
		G.Unlock()
	default:
		// end of a bracketed section: G is held by this goroutine
		if cur != nil {
			cur.end(strings.TrimPrefix(point, "tasks:"), args)
		}
		G.Unlock()
	}
}

func (r *runner) taskArg(args []any) (int, bool) {
	if len(args) == 0 {
		return -1, false
	}
	t, ok := args[0].(*modules.Task)
	if !ok {
		return -1, false
	}
	k, ok := r.idx[t]
	return k, ok
}

func (r *runner) single(p string, args []any) {
	switch p {
	case "qh-wait":
		r.qhGid = goid()
		r.add(r.nowRel(), "qhwait", -1, r.snapLists())
	case "spawn", "slot-free":
		k, ok := r.taskArg(args)
		if !ok {
			r.stat["foreign-event"]++
			return
		}
		if p == "spawn" {
			r.watchers[k]++
			r.preSpawn--
			r.add(r.nowRel(), "spawn "+strconv.Itoa(k), k, r.snapLists())
		} else {
			r.watchers[k]--
			r.add(r.nowRel(), "slotfree "+strconv.Itoa(k), k, r.snapLists())
		}
	}
}

func (r *runner) end(p string, args []any) {
	now := r.nowRel()
	switch p {
	case "qh-pop:end":
		r.qhPopping = false
		var e *list.Element
		if len(args) > 0 {
			e, _ = args[0].(*list.Element)
		}
		if e == nil {
			r.add(now, "qhpop none", -1, r.snapLists())
			return
		}
		t, _ := e.Value.(*modules.Task)
		k, ok := r.idx[t]
		if !ok {
			r.stat["foreign-event"]++
			r.add(now, "qhpop ?", -1, r.snapLists())
			return
		}
		r.hold++
		r.add(now, "qhpop "+strconv.Itoa(k), k, r.snapLists())
		return
	case "sh-fetch:none":
		r.add(now, "shfetch none", -1, "-")
		return
	}
	k, ok := r.taskArg(args)
	if !ok {
		r.stat["foreign-event"]++
		r.add(now, "foreign "+p, -1, "-")
		return
	}
	var st modules.VerifTaskState
	if len(args) > 1 {
		st, _ = args[1].(modules.VerifTaskState)
	}
	ts := r.snapTask(st)
	ks := strconv.Itoa(k)
	switch p {
	case "sh-fetch:run":
		r.hold++
		r.add(now, "shfetch run "+ks, k, ts) // scheduleLock is held: no list snapshot here
	case "sh-fetch:asap":
		r.hold++
		r.add(now, "shfetch asap "+ks, k, ts)
	case "sh-fetch:notdue":
		if len(args) > 2 {
			if tn, ok := args[2].(time.Time); ok {
				now = r.rel(tn)
			}
		}
		r.add(now, "shfetch notdue "+ks, k, ts)
	case "queue:end", "queue-prio:end", "asap:end":
		// the op read the clock itself iff it armed the max-delay entry: recover that reading
		if !st.Canceled && st.MaxDelay != 0 {
			now = r.rel(st.ExecuteAt) - int64(st.MaxDelay)
		}
		act := map[string]string{"queue:end": "queue", "queue-prio:end": "queuep", "asap:end": "asap"}[p]
		if act == "asap" {
			role := r.role()
			if role == "sh" {
				r.hold--
			}
			act += " " + role
		}
		r.add(now, act+" "+ks, k, ts+" "+r.snapLists())
	case "max-delay:end":
		r.add(now, "maxdelay "+ks+" "+strconv.FormatInt(int64(st.MaxDelay), 10), k, ts+" "+r.snapLists())
	case "schedule:end":
		r.add(now, "schedule "+ks+" "+strconv.FormatInt(r.rel(st.ExecuteAt), 10), k, ts+" "+r.snapLists())
	case "cancel:end":
		r.add(now, "cancel "+ks, k, ts+" "+r.snapLists())
	case "run:skip-executing", "run:skip-inactive", "run:skip-ctx", "run:skip-stale", "run:start":
		r.hold--
		if p == "run:start" {
			r.inRun[k]++
			r.preSpawn++
		}
		r.add(now, "run "+r.role()+" "+ks+" "+strings.TrimPrefix(p, "run:"), k, ts+" "+r.snapLists())
	case "finish:end":
		r.inRun[k]--
		r.add(now, "finish "+ks, k, ts+" "+r.snapLists())
	default:
		r.stat["unknown-point:"+p]++
		r.add(now, "foreign "+p, k, "-")
	}
}

func (r *runner) yield(point string, args []any) {
	k, _ := r.taskArg(args)
	role := r.role()
	G.Lock()
	ms := 0
	for _, y := range r.scn.Yields {
		if y.Point != point || (y.Role != "any" && y.Role != role) || (y.T >= 0 && y.T != k) {
			continue
		}
		key := yieldKey{point, y.Role + "/" + strconv.Itoa(y.T)}
		if r.yseen[key] == y.K {
			ms = y.Ms
		}
	}
	for _, y := range r.scn.Yields {
		if y.Point == point && (y.Role == "any" || y.Role == role) && (y.T < 0 || y.T == k) {
			r.yseen[yieldKey{point, y.Role + "/" + strconv.Itoa(y.T)}]++
		}
	}
	G.Unlock()
	if ms > 0 {
		time.Sleep(time.Duration(ms) * time.Millisecond)
	} else if point == "exec-finish" {
		// give the slot watcher goroutine a chance to read the task context before it is replaced
		runtime.Gosched()
	}
}

func (r *runner) doOp(op string, t int, arg int, who string) {
	tk := r.tks[t]
	r.info(fmt.Sprintf("call %s %s %d %d", who, op, t, arg))
	switch op {
	case "q":
		tk.Queue()
	case "p":
		tk.QueuePrioritized()
	case "a":
		tk.StartASAP()
	case "s":
		tk.Schedule(time.Now().Add(time.Duration(arg) * time.Millisecond))
	case "S": // absolute: offset from scenario start (lets several tasks share one executeAt)
		tk.Schedule(r.start.Add(time.Duration(arg) * time.Millisecond))
	case "z":
		tk.Schedule(time.Time{})
	case "d":
		tk.MaxDelay(time.Duration(arg) * time.Microsecond)
	case "c":
		tk.Cancel()
	}
	r.info(fmt.Sprintf("ret %s %s %d", who, op, t))
}

func (r *runner) taskFn(k int) func(context.Context, *modules.Task) error {
	return func(ctx context.Context, _ *modules.Task) error {
		G.Lock()
		run := r.runsOf[k]
		r.runsOf[k]++
		done := ctx.Err() != nil
		r.add(r.nowRel(), "fnbegin "+strconv.Itoa(k), k, "ctxdone="+b01(done))
		G.Unlock()
		for _, f := range r.scn.InFn {
			if f.T == k && f.Run == run && !f.Late && f.Target < len(r.tks) {
				r.doOp(f.Op, f.Target, f.Arg, "fn"+strconv.Itoa(k))
			}
		}
		d := 0
		if k < len(r.scn.Dur) && len(r.scn.Dur[k]) > 0 {
			ds := r.scn.Dur[k]
			d = ds[len(ds)-1]
			if run < len(ds) {
				d = ds[run]
			}
		}
		if d > 0 {
			time.Sleep(time.Duration(d) * time.Millisecond)
		}
		for _, f := range r.scn.InFn {
			if f.T == k && f.Run == run && f.Late && f.Target < len(r.tks) {
				r.doOp(f.Op, f.Target, f.Arg, "fn"+strconv.Itoa(k))
			}
		}
		G.Lock()
		r.add(r.nowRel(), "fnend "+strconv.Itoa(k), k, "-")
		G.Unlock()
		return nil
	}
}

// quiescent: nothing waits, nothing runs, no handler holds a task. Caller holds r.g.
func (r *runner) quiescent() bool {
	if r.hold != 0 || r.preSpawn != 0 || r.qhPopping {
		return false
	}
	for k := range r.tks {
		if r.inRun[k] != 0 || r.watchers[k] != 0 {
			return false
		}
	}
	q, p, s := modules.VerifTaskLists()
	return len(q) == 0 && len(p) == 0 && len(s) == 0
}

// runScenario executes the scenario on the real scheduler and returns the trace lines.
// clean reports whether the scheduler was left quiescent (the process can run another scenario).
func runScenario(scn *Scn) (lines []string, clean bool, stat map[string]int) {
	sinkOn.Do(func() {
		modules.VerifSetSink(sink)
		modules.VerifTasksStartHandlers()
	})
	r := &runner{scn: scn, idx: map[*modules.Task]int{}, yseen: map[yieldKey]int{}, stat: map[string]int{}}
	r.start = time.Now()
	r.lastEv = r.start
	r.base = r.start.Add(-time.Second)
	r.inRun = make([]int, scn.N)
	r.watchers = make([]int, scn.N)
	r.runsOf = make([]int, scn.N)
	mods := make([]*modules.Module, scn.M)
	for i := range mods {
		mods[i] = modules.VerifTasksOnlineModule(fmt.Sprintf("c07-m%d", i))
	}
	nilmod := map[int]bool{}
	for _, k := range scn.NilMod {
		nilmod[k] = true
	}
	for k := 0; k < scn.N; k++ {
		var m *modules.Module
		if !nilmod[k] {
			m = mods[k%scn.M]
		}
		t := m.NewTask(fmt.Sprintf("t%d", k), r.taskFn(k))
		r.tks = append(r.tks, t)
		r.idx[t] = k
	}
	// handlers of a previous scenario are idle; install this runner under the bracket lock of nobody
	G.Lock()
	prev := cur
	cur = r
	G.Unlock()
	if prev != nil {
		// copy the handler identities learnt earlier
		r.qhGid, r.shGid = prev.qhGid, prev.shGid
	}
	for _, k := range scn.NilMod {
		if k < scn.N {
			G.Lock()
			r.add(r.nowRel(), fmt.Sprintf("newinert %d", k), k, "c1 x0 o0 ea=0 md=0 q0 p0 s0")
			G.Unlock()
		}
	}
	func() {
		_, e, d := modules.VerifTaskConsts()
		r.info(fmt.Sprintf("consts %d %d", int64(e), int64(d)))
	}()

	// callers
	nth := 0
	for _, s := range scn.Steps {
		if s.Th+1 > nth {
			nth = s.Th + 1
		}
	}
	var wg sync.WaitGroup
	last := 0
	for th := 0; th < nth; th++ {
		var mine []Step
		for _, s := range scn.Steps {
			if s.Th == th && s.T < scn.N {
				mine = append(mine, s)
				if s.At > last {
					last = s.At
				}
			}
		}
		// stable by At
		for i := 1; i < len(mine); i++ {
			for j := i; j > 0 && mine[j].At < mine[j-1].At; j-- {
				mine[j], mine[j-1] = mine[j-1], mine[j]
			}
		}
		wg.Add(1)
		go func(th int, mine []Step) {
			defer wg.Done()
			for _, s := range mine {
				if d := time.Until(r.start.Add(time.Duration(s.At) * time.Millisecond)); d > 0 {
					time.Sleep(d)
				}
				r.doOp(s.Op, s.T, s.Arg, "c"+strconv.Itoa(th))
			}
		}(th, mine)
	}
	wg.Wait()
	if scn.Tail > 0 {
		time.Sleep(time.Duration(scn.Tail) * time.Millisecond)
	}

	// wait for quiescence; break context-race stalls of the queue (see notes/c07.md).
	// The wait ends when the scheduler is quiescent, or when nothing at all happened for 3 s (stuck),
	// or after 30 s.
	hardStop := time.Now().Add(30 * time.Second)
	okCnt := 0
	for {
		G.Lock()
		q := r.quiescent()
		idle := time.Since(r.lastEv)
		stalled := -1
		if !q && idle > 250*time.Millisecond {
			for k := range r.tks {
				if r.watchers[k] > r.inRun[k] {
					stalled = k
				}
			}
		}
		G.Unlock()
		if q {
			okCnt++
			if okCnt >= 2 {
				clean = true
				break
			}
		} else {
			okCnt = 0
		}
		if stalled >= 0 {
			r.stat["ctx-race-stall-broken"]++
			r.info(fmt.Sprintf("stallbreak %d", stalled))
			r.doOp("c", stalled, 0, "hx")
		}
		if (!q && idle > 3*time.Second) || time.Now().After(hardStop) {
			break
		}
		time.Sleep(2 * time.Millisecond)
	}
	G.Lock()
	if clean {
		r.log = append(r.log, Ev{Now: r.nowRel(), Act: "end quiescent", Info: true})
	} else {
		q, p, s := modules.VerifTaskLists()
		r.log = append(r.log, Ev{Now: r.nowRel(), Act: fmt.Sprintf("end timeout hold=%d pre=%d inrun=%v watchers=%v Q=%s P=%s S=%s",
			r.hold, r.preSpawn, r.inRun, r.watchers, r.idsOf(q), r.idsOf(p), r.idsOf(s)), Info: true})
	}
	evs := r.log
	r.log = nil
	G.Unlock()
	lines = make([]string, 0, len(evs)+1)
	lines = append(lines, scn.encode())
	for _, e := range evs {
		lines = append(lines, e.line())
	}
	return lines, clean, r.stat
}
