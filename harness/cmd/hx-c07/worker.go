package main

import (
	"bufio"
	"bytes"
	"encoding/json"
	"fmt"
	"os"
	"os/exec"
	"strings"
	"sync"
)

// Scenarios run in worker processes (the scheduler of package modules is process-global): a worker runs
// scenarios one after the other and is replaced after a scenario that did not end quiescent.

type wResult struct {
	Lines []string       `json:"lines"`
	Clean bool           `json:"clean"`
	Stat  map[string]int `json:"stat"`
}

func workerMain() {
	in := bufio.NewReaderSize(os.Stdin, 1<<20)
	out := bufio.NewWriter(os.Stdout)
	for {
		line, err := in.ReadString('\n')
		if len(line) > 1 {
			scn, ok := decodeScn(line[:len(line)-1])
			if !ok {
				fmt.Fprintln(os.Stderr, "worker: bad scenario")
				os.Exit(4)
			}
			lines, clean, stat := runScenario(scn)
			b, _ := json.Marshal(wResult{lines, clean, stat})
			out.Write(b)
			out.WriteByte('\n')
			out.Flush()
			if !clean {
				os.Exit(0) // tainted scheduler state: the parent starts a fresh worker
			}
		}
		if err != nil {
			return
		}
	}
}

type worker struct {
	cmd *exec.Cmd
	in  *bufio.Writer
	out *bufio.Reader
	err *bytes.Buffer
}

func startWorker() (*worker, error) {
	exe, err := os.Executable()
	if err != nil {
		return nil, err
	}
	cmd := exec.Command(exe, "-c07worker")
	errBuf := &bytes.Buffer{}
	cmd.Stderr = errBuf
	ip, err := cmd.StdinPipe()
	if err != nil {
		return nil, err
	}
	op, err := cmd.StdoutPipe()
	if err != nil {
		return nil, err
	}
	if err := cmd.Start(); err != nil {
		return nil, err
	}
	return &worker{cmd, bufio.NewWriter(ip), bufio.NewReaderSize(op, 1<<20), errBuf}, nil
}

func (w *worker) run(scn *Scn) (*wResult, error) {
	if _, err := w.in.WriteString(scn.encode() + "\n"); err != nil {
		return nil, err
	}
	if err := w.in.Flush(); err != nil {
		return nil, err
	}
	line, err := w.out.ReadString('\n')
	if len(line) < 2 {
		return nil, fmt.Errorf("worker died: %v", err)
	}
	var res wResult
	if err := json.Unmarshal([]byte(line), &res); err != nil {
		return nil, err
	}
	return &res, nil
}

// died collects what the dead worker wrote to stderr (first lines: the panic / fatal error message).
func (w *worker) died() string {
	w.cmd.Wait()
	var keep []string
	for _, l := range strings.Split(w.err.String(), "\n") {
		l = strings.TrimSpace(l)
		if l == "" {
			continue
		}
		if strings.HasPrefix(l, "panic:") || strings.HasPrefix(l, "fatal error:") || strings.Contains(l, "modules.") {
			keep = append(keep, strings.ReplaceAll(l, " ", "_"))
		}
		if len(keep) >= 4 {
			break
		}
	}
	if len(keep) == 0 {
		return "no-message"
	}
	return strings.Join(keep, ";")
}

func (w *worker) stop() {
	w.in.Flush()
	if c, ok := w.cmd.Stdin.(interface{ Close() error }); ok {
		c.Close()
	}
	w.cmd.Process.Kill()
	w.cmd.Wait()
}

// runAll executes the scenarios on k workers and calls sinkFn in scenario order. After maxUnclean scenarios
// that did not end quiescent (each costs seconds of waiting) the remaining scenarios are skipped.
func runAll(scns []*Scn, k int, maxUnclean int, sinkFn func(i int, scn *Scn, res *wResult)) (skipped int) {
	results := make([]*wResult, len(scns))
	var mu sync.Mutex
	cond := sync.NewCond(&mu)
	next := 0
	unclean := 0
	var wg sync.WaitGroup
	for j := 0; j < k; j++ {
		wg.Add(1)
		go func() {
			defer wg.Done()
			var w *worker
			for {
				mu.Lock()
				i := next
				next++
				mu.Unlock()
				if i >= len(scns) {
					break
				}
				mu.Lock()
				skip := unclean >= maxUnclean
				mu.Unlock()
				if skip {
					mu.Lock()
					results[i] = &wResult{Stat: map[string]int{"skipped": 1}}
					cond.Broadcast()
					mu.Unlock()
					continue
				}
				var res *wResult
				if w == nil {
					var err error
					if w, err = startWorker(); err != nil {
						fmt.Fprintln(os.Stderr, "hx-c07: cannot start worker:", err)
						os.Exit(3)
					}
				}
				r, err := w.run(scns[i])
				if err != nil {
					// the process running the real scheduler died: that is an observation, not a harness error
					msg := w.died()
					w.stop()
					w = nil
					res = &wResult{Lines: []string{scns[i].encode(), "i 0 end worker-died " + msg}, Stat: map[string]int{"worker-died": 1}}
				} else {
					res = r
					if !r.Clean {
						w.stop()
						w = nil
					}
				}
				mu.Lock()
				results[i] = res
				if !res.Clean {
					unclean++
				}
				cond.Broadcast()
				mu.Unlock()
			}
			if w != nil {
				w.stop()
			}
		}()
	}
	for i := range scns {
		mu.Lock()
		for results[i] == nil {
			cond.Wait()
		}
		res := results[i]
		results[i] = nil
		mu.Unlock()
		if res.Lines == nil {
			skipped++
			continue
		}
		sinkFn(i, scns[i], res)
	}
	wg.Wait()
	return skipped
}
