package main

import (
	"encoding/json"
	"math/rand"
)

// A scenario is a timed script of task-API calls issued by a few caller goroutines and from inside
// running task functions, together with the run times of the task functions and the delays injected at
// the verif yield points. All times are milliseconds unless noted.

// Step is one API call issued from outside.
type Step struct {
	At  int    `json:"at"`  // offset from scenario start (ms)
	Th  int    `json:"th"`  // caller goroutine
	Op  string `json:"op"`  // q (Queue) p (QueuePrioritized) a (StartASAP) s (Schedule, relative) S (Schedule, absolute) z (Schedule(zero)) d (MaxDelay) c (Cancel)
	T   int    `json:"t"`   // task index
	Arg int    `json:"arg"` // s: delay relative to the call in ms (may be negative); S: ms after scenario start; d: max delay in microseconds
}

// InFn is an API call issued from inside a running task function (re-queueing and friends).
type InFn struct {
	T      int    `json:"t"`      // the running task
	Run    int    `json:"run"`    // its k-th run (0-based)
	Op     string `json:"op"`     // as Step.Op
	Target int    `json:"target"` // task the call is issued on (usually == T)
	Arg    int    `json:"arg"`
	Late   bool   `json:"late"` // after the run time instead of before it
}

// Yield delays the k-th passage of a role through a yield point.
type Yield struct {
	Point string `json:"point"` // run-enter | run-checked | exec-finish | qh-pop (queue handler between its slot check and its pick; role qh, t -1)
	Role  string `json:"role"`  // qh | sh | ex | any
	T     int    `json:"t"`     // task index, -1 = any
	K     int    `json:"k"`     // k-th matching passage (0-based)
	Ms    int    `json:"ms"`
}

type Scn struct {
	Kind   string  `json:"kind"`
	N      int     `json:"n"`   // tasks
	M      int     `json:"m"`   // modules
	Dur    [][]int `json:"dur"` // run time per task and run in ms (last value repeats)
	Steps  []Step  `json:"steps"`
	InFn   []InFn  `json:"infn,omitempty"`
	Yields []Yield `json:"yields,omitempty"`
	NilMod []int   `json:"nilmod,omitempty"` // tasks created on a nil module (inert tasks)
	Tail   int     `json:"tail"`             // extra time the scenario has to stay open after the last step (ms)
}

func (s *Scn) encode() string {
	b, _ := json.Marshal(s)
	return "scn " + string(b)
}

func decodeScn(line string) (*Scn, bool) {
	if len(line) < 5 || line[:4] != "scn " {
		return nil, false
	}
	var s Scn
	if json.Unmarshal([]byte(line[4:]), &s) != nil {
		return nil, false
	}
	if s.N < 0 || s.N > 64 || s.M < 1 {
		return nil, false
	}
	return &s, true
}

// ---- generators -------------------------------------------------------------------------------

func pick(r *rand.Rand, xs ...int) int { return xs[r.Intn(len(xs))] }

// randomScn draws a random history: mostly valid submissions with some re-queueing from inside the task
// function, cancels, schedule changes, short max delays and random yield delays.
func randomScn(r *rand.Rand, kind string) *Scn {
	s := &Scn{Kind: kind, M: 1 + r.Intn(2)}
	s.N = 1 + r.Intn(6)
	if kind == "rand-small" {
		s.N = 1 + r.Intn(2)
	}
	horizon := pick(r, 30, 60, 100, 150)
	long := kind == "rand-long"
	if long {
		s.N = 1 + r.Intn(3)
		horizon = 400
	}
	for i := 0; i < s.N; i++ {
		n := 1 + r.Intn(3)
		d := make([]int, n)
		for j := range d {
			d[j] = pick(r, 0, 0, 1, 2, 5, 10, 20, 40)
		}
		s.Dur = append(s.Dur, d)
	}
	nsteps := 1 + r.Intn(4*s.N+2)
	if long {
		nsteps = 30 + r.Intn(40)
	}
	nth := 1 + r.Intn(3)
	ops := "qqqqpppaaasssSzddcc"
	if kind == "rand-nocancel" || long {
		ops = "qqqqpppaaasssSzdd"
	}
	if kind == "rand-sched" {
		ops = "sssSSSSzqad"
	}
	for i := 0; i < nsteps; i++ {
		st := Step{At: r.Intn(horizon), Th: r.Intn(nth), T: r.Intn(s.N), Op: string(ops[r.Intn(len(ops))])}
		switch st.Op {
		case "s":
			st.Arg = pick(r, -20, 0, 1, 5, 10, 20, 40, 80, 120, 200)
		case "S":
			st.Arg = pick(r, 0, 20, 20, 50, 50, 50, 100, 100, 160)
		case "d":
			st.Arg = pick(r, 0, 0, 1, 1000, 5000, 10000, 30000, 60000000) // microseconds
		}
		s.Steps = append(s.Steps, st)
	}
	// calls from inside task functions
	for i := r.Intn(3); i > 0; i-- {
		t := r.Intn(s.N)
		f := InFn{T: t, Run: r.Intn(2), Op: string("qqpasszdc"[r.Intn(9)]), Target: t, Late: r.Intn(3) == 0}
		if r.Intn(4) == 0 {
			f.Target = r.Intn(s.N)
		}
		switch f.Op {
		case "s":
			f.Arg = pick(r, 0, 5, 20, 60)
		case "d":
			f.Arg = pick(r, 0, 1, 2000, 10000)
		}
		s.InFn = append(s.InFn, f)
	}
	// yield delays
	for i := r.Intn(4); i > 0; i-- {
		s.Yields = append(s.Yields, Yield{
			Point: []string{"run-enter", "run-checked", "exec-finish"}[r.Intn(3)],
			Role:  []string{"qh", "sh", "any"}[r.Intn(3)], T: -1, K: r.Intn(3), Ms: pick(r, 1, 3, 10, 25, 50),
		})
	}
	if r.Intn(12) == 0 && s.N > 1 {
		s.NilMod = []int{r.Intn(s.N)}
	}
	return s
}

// forcedScns are the two-party races and stale-state histories the proofs single out; each is a template
// whose times are jittered by the generator.
func forcedScns(r *rand.Rand) []*Scn {
	j := func(ms int) int { return ms + r.Intn(3) }
	return []*Scn{
		// the schedule handler's timer was armed for an entry that has been removed meanwhile
		{Kind: "force-stale-timer", N: 2, M: 1, Dur: [][]int{{0}, {0}}, Steps: []Step{
			{At: 0, Th: 0, Op: "s", T: 1, Arg: 400}, {At: j(5), Th: 0, Op: "d", T: 0, Arg: 20000}, {At: j(10), Th: 0, Op: "q", T: 0}}},
		// Schedule arrives between the state checks of runWithLocking and the start of the function
		{Kind: "force-schedule-during-start", N: 2, M: 1, Dur: [][]int{{0}, {0}}, Steps: []Step{
			{At: 0, Th: 0, Op: "q", T: 0}, {At: j(10), Th: 0, Op: "s", T: 0, Arg: 300}, {At: j(60), Th: 0, Op: "s", T: 1, Arg: 100}},
			Yields: []Yield{{Point: "run-checked", Role: "qh", T: 0, K: 0, Ms: 30}}},
		// queue handler and schedule handler pick the same task; one is delayed before taking the task lock
		{Kind: "force-double-pick", N: 1, M: 1, Dur: [][]int{{0}}, Steps: []Step{
			{At: 0, Th: 0, Op: "d", T: 0, Arg: 20000}, {At: j(5), Th: 0, Op: "q", T: 0}},
			Yields: []Yield{{Point: "run-enter", Role: "qh", T: 0, K: 0, Ms: 60}}},
		// a task is submitted again while it executes and its max delay expires during the execution
		{Kind: "force-requeue-while-executing", N: 1, M: 1, Dur: [][]int{{80, 0}}, Steps: []Step{
			{At: 0, Th: 0, Op: "d", T: 0, Arg: 10000}, {At: j(5), Th: 0, Op: "q", T: 0}, {At: j(25), Th: 0, Op: "q", T: 0}}},
		// cancel while waiting behind a long task
		{Kind: "force-cancel-waiting", N: 2, M: 1, Dur: [][]int{{40}, {0}}, Steps: []Step{
			{At: 0, Th: 0, Op: "q", T: 0}, {At: j(5), Th: 0, Op: "q", T: 1}, {At: j(15), Th: 1, Op: "c", T: 1}}},
		// cancel between pick and lock
		{Kind: "force-cancel-picked", N: 1, M: 1, Dur: [][]int{{0}}, Steps: []Step{
			{At: 0, Th: 0, Op: "q", T: 0}, {At: j(10), Th: 1, Op: "c", T: 0}},
			Yields: []Yield{{Point: "run-enter", Role: "qh", T: 0, K: 0, Ms: 30}}},
		// order: normal, prioritized and asap submissions behind a long task
		{Kind: "force-order", N: 6, M: 2, Dur: [][]int{{50}, {2}, {2}, {2}, {2}, {2}}, Steps: []Step{
			{At: 0, Th: 0, Op: "q", T: 0}, {At: j(8), Th: 0, Op: "q", T: 1}, {At: j(12), Th: 0, Op: "p", T: 2}, {At: j(16), Th: 0, Op: "a", T: 3},
			{At: j(20), Th: 0, Op: "p", T: 4}, {At: j(24), Th: 0, Op: "a", T: 5}, {At: j(28), Th: 0, Op: "q", T: 2}}},
		// a task waiting in the queue behind a running one is given a scheduled time
		{Kind: "force-queued-then-scheduled", N: 2, M: 1, Dur: [][]int{{80}, {0}}, Steps: []Step{
			{At: 0, Th: 0, Op: "q", T: 0}, {At: j(5), Th: 0, Op: "q", T: 1}, {At: j(10), Th: 0, Op: "s", T: 1, Arg: 20}}},
		// a task without max delay is scheduled while another task runs
		{Kind: "force-scheduled-no-max-delay", N: 2, M: 1, Dur: [][]int{{80}, {0}}, Steps: []Step{
			{At: 0, Th: 0, Op: "q", T: 0}, {At: j(3), Th: 0, Op: "d", T: 1, Arg: 0}, {At: j(6), Th: 0, Op: "s", T: 1, Arg: 20}}},
		// the timer was armed for a withdrawn entry; the next entry is the max-delay entry of a waiting task
		{Kind: "force-stale-timer-queued", N: 3, M: 1, Dur: [][]int{{200}, {0}, {0}}, Steps: []Step{
			{At: 0, Th: 0, Op: "a", T: 0}, {At: j(4), Th: 0, Op: "d", T: 1, Arg: 20000000}, {At: j(7), Th: 0, Op: "q", T: 1},
			{At: j(12), Th: 0, Op: "s", T: 2, Arg: 80}, {At: j(40), Th: 0, Op: "z", T: 2}}},
		// the queue is busy with task 0 for longer than the max delay of task 1: the schedule handler starts task 1
		// directly; task 0 returns while task 1 still runs; task 2 waits behind: it is due only after task 1 returned
		{Kind: "force-direct-start-holds-queue", N: 3, M: 1, Dur: [][]int{{60}, {80}, {0}}, Steps: []Step{
			{At: 0, Th: 0, Op: "q", T: 0}, {At: j(2), Th: 0, Op: "d", T: 1, Arg: 20000}, {At: j(5), Th: 0, Op: "q", T: 1}, {At: j(9), Th: 0, Op: "q", T: 2}}},
		// the same, and the queue handler is held between its slot check and its pick while the max delay expires
		{Kind: "force-pick-raced-by-direct-start", N: 3, M: 1, Dur: [][]int{{40}, {70}, {0}}, Steps: []Step{
			{At: 0, Th: 0, Op: "q", T: 0}, {At: j(1), Th: 0, Op: "d", T: 1, Arg: 58000}, {At: j(4), Th: 0, Op: "q", T: 1}, {At: j(8), Th: 0, Op: "q", T: 2}},
			Yields: []Yield{{Point: "qh-pop", Role: "qh", T: -1, K: 1, Ms: 45}}},
		// self re-queue and self re-schedule from inside the function
		{Kind: "force-self-requeue", N: 2, M: 1, Dur: [][]int{{5, 5, 0}, {3}}, Steps: []Step{{At: 0, Th: 0, Op: "q", T: 0}, {At: j(2), Th: 0, Op: "q", T: 1}},
			InFn: []InFn{{T: 0, Run: 0, Op: "q", Target: 0}, {T: 0, Run: 1, Op: "s", Target: 0, Arg: 30, Late: true}}},
	}
}

// staleTimerScn: a long-running task occupies the queue, one to three tasks with max delays of varying size
// (from shorter than the run time, so that the delay expires while they wait, to the default) wait behind
// it, and one or two further tasks put an early entry into the schedule that is withdrawn, cancelled,
// re-scheduled or replaced before its time. The schedule handler's timer was armed for that entry: when it
// fires, the first entry of the schedule is the max-delay entry of a waiting task that is not yet due (or
// has just become due). Covers the not-due branch of the fetch section for both kinds of entries.
func staleTimerScn(r *rand.Rand) *Scn {
	s := &Scn{Kind: "stale-timer-queued", M: 1 + r.Intn(2)}
	long := pick(r, 120, 180, 250)
	nb, na := 1+r.Intn(3), 1+r.Intn(2)
	s.N = 1 + nb + na
	s.Dur = append(s.Dur, []int{long, 0})
	at := 0
	add := func(gap int, op string, t, arg int) {
		at += gap
		s.Steps = append(s.Steps, Step{At: at, Th: 0, Op: op, T: t, Arg: arg})
	}
	if r.Intn(2) == 0 {
		add(0, "d", 0, 0)
	}
	add(0, string("qpa"[r.Intn(3)]), 0, 0)
	at = 4
	for i := 1; i <= nb; i++ {
		s.Dur = append(s.Dur, []int{pick(r, 0, 0, 2, 5)})
		if md := pick(r, -1, 40000, 90000, 150000, 400000, 2000000, 20000000); md >= 0 {
			add(r.Intn(3), "d", i, md) // microseconds
		}
		add(r.Intn(3), string("qqpa"[r.Intn(4)]), i, 0)
	}
	at0 := at + 2
	for j := 0; j < na; j++ {
		a := 1 + nb + j
		s.Dur = append(s.Dur, []int{pick(r, 0, 1, 3)})
		at = at0 + r.Intn(4)
		x := pick(r, 50, 70, 90, 110) // fires while task 0 still runs
		if r.Intn(4) == 0 {
			add(0, "d", a, pick(r, 0, 30000))
		}
		add(1, "s", a, x)
		switch r.Intn(6) {
		case 0, 1, 2: // withdrawn: nothing re-arms the timer
			add(15+r.Intn(25), "z", a, 0)
		case 3: // cancelled: the entry stays
			add(15+r.Intn(25), "c", a, 0)
		case 4: // moved far behind
			add(15+r.Intn(25), "s", a, pick(r, 300, 400))
		default: // queued: the max-delay entry replaces the scheduled time
			add(15+r.Intn(25), string("qa"[r.Intn(2)]), a, 0)
		}
	}
	if r.Intn(3) == 0 {
		s.Yields = append(s.Yields, Yield{Point: "run-enter", Role: "sh", T: -1, K: r.Intn(2), Ms: pick(r, 1, 5, 20)})
	}
	return s
}

// directHoldsScn: the queue is busy with a task A for longer than the max delay of one or two tasks B waiting behind
// it, so that the schedule handler starts B directly (the max-delay exception); B runs on after A has returned;
// one to three further tasks C wait in the queues (submitted before B's start, while B runs, or after A returned).
// "The next one only after the previous returned, was cancelled or exceeded the execution-wait limit": C is due
// only after B returned (or was cancelled: one variant cancels B while it runs). Some scenarios hold the queue
// handler between its slot check and its pick.
func directHoldsScn(r *rand.Rand) *Scn {
	s := &Scn{Kind: "direct-holds-queue", M: 1 + r.Intn(2)}
	la := pick(r, 40, 60, 80)
	nb, nc := 1+r.Intn(2), 1+r.Intn(3)
	s.N = 1 + nb + nc
	s.Dur = append(s.Dur, []int{la, 0})
	at := 0
	add := func(gap int, op string, t, arg int) {
		at += gap
		s.Steps = append(s.Steps, Step{At: at, Th: 0, Op: op, T: t, Arg: arg})
	}
	if r.Intn(3) == 0 {
		add(0, "d", 0, 0)
	}
	add(0, string("qpa"[r.Intn(3)]), 0, 0)
	at = 2
	bEnd := 0
	for i := 1; i <= nb; i++ {
		md := pick(r, 12, 20, 30) // ms, shorter than A's run time
		add(r.Intn(2), "d", i, md*1000)
		add(1+r.Intn(2), string("qqpa"[r.Intn(4)]), i, 0)
		lb := la - md + pick(r, 25, 40, 60) // B returns after A
		if lb < 10 {
			lb = 10
		}
		s.Dur = append(s.Dur, []int{lb, 0})
		if e := at + md + lb; e > bEnd {
			bEnd = e
		}
	}
	for j := 0; j < nc; j++ {
		c := 1 + nb + j
		s.Dur = append(s.Dur, []int{pick(r, 0, 0, 2, 5)})
		switch r.Intn(4) {
		case 0: // submitted after A returned, while B runs
			s.Steps = append(s.Steps, Step{At: la + 4 + r.Intn(12), Th: 1, Op: string("qpa"[r.Intn(3)]), T: c})
		case 1: // submitted while A and B run
			s.Steps = append(s.Steps, Step{At: 35 + r.Intn(10), Th: 1, Op: string("qpa"[r.Intn(3)]), T: c})
		default: // waiting from the beginning
			if r.Intn(5) == 0 {
				add(0, "d", c, pick(r, 0, 200000, 2000000))
			}
			add(1+r.Intn(2), string("qqpa"[r.Intn(4)]), c, 0)
		}
	}
	switch r.Intn(6) {
	case 0: // B is cancelled while it runs, after A returned: its slot is handed back
		s.Steps = append(s.Steps, Step{At: la + 8 + r.Intn(10), Th: 2, Op: "c", T: 1})
	case 1: // the queue handler is held between its slot check and its pick
		s.Yields = append(s.Yields, Yield{Point: "qh-pop", Role: "qh", T: -1, K: 1 + r.Intn(2), Ms: pick(r, 5, 20, 40)})
	case 2:
		s.Yields = append(s.Yields, Yield{Point: "run-enter", Role: pick2(r, "qh", "sh"), T: -1, K: r.Intn(2), Ms: pick(r, 2, 10, 25)})
	}
	s.Tail = 0
	_ = bEnd
	return s
}

func pick2(r *rand.Rand, a, b string) string {
	if r.Intn(2) == 0 {
		return a
	}
	return b
}

// misuseScn: the error paths and the glue — calls on cancelled and inert tasks, Schedule(zero) without a
// schedule entry, zero / tiny max delays, double cancels, times in the past, calls on finished tasks.
func misuseScn(r *rand.Rand) *Scn {
	s := &Scn{Kind: "misuse", M: 1, N: 2 + r.Intn(3)}
	for i := 0; i < s.N; i++ {
		s.Dur = append(s.Dur, []int{pick(r, 0, 1, 5)})
	}
	if r.Intn(2) == 0 {
		s.NilMod = []int{r.Intn(s.N)}
	}
	at := 0
	add := func(op string, t, arg int) {
		at += r.Intn(4)
		s.Steps = append(s.Steps, Step{At: at, Th: 0, Op: op, T: t, Arg: arg})
	}
	for i := 0; i < 4+r.Intn(8); i++ {
		t := r.Intn(s.N)
		switch r.Intn(9) {
		case 0: // cancel, then every kind of submission
			add("c", t, 0)
			add(string("qpas"[r.Intn(4)]), t, 10)
		case 1:
			add("z", t, 0)
		case 2:
			add("d", t, pick(r, 0, 1))
			add(string("qpa"[r.Intn(3)]), t, 0)
		case 3:
			add("s", t, pick(r, -1000, -1, 0))
		case 4:
			add("c", t, 0)
			add("c", t, 0)
		case 5:
			add("s", t, 20)
			add("c", t, 0)
			add("s", t, pick(r, 5, 200))
		case 6:
			add("q", t, 0)
			add("z", t, 0)
			add("s", t, 15)
		case 7:
			add("a", t, 0)
			add("a", t, 0)
			add("p", t, 0)
		default:
			add(string("qpasdzc"[r.Intn(7)]), t, pick(r, 0, 3, 30))
		}
	}
	return s
}
