package main

import (
	"fmt"
	"sort"
	"strconv"
	"strings"

	"verifharness/hxlib"
)

// The monitor is the property statement read literally on the recorded events of the real scheduler. It
// uses only: API calls as executed (op events, logged inside the task lock, with the canceled flag of the
// snapshot), the moment a task left the waiting state (run ... start), begin/end of the task function,
// which task the queue handler picked, and the clock. It keeps its own books (it does not use the list
// snapshots of the implementation nor the model).

const earlyTolNs = 2_000_000 // a start counts as early only if it is more than 2 ms before the scheduled time

// Signature of the recorded finding about direct starts at a time given to Schedule (see props/C07.findings.json).
const sigDirectAtScheduled = "C07:waiting-task-started-directly-at-scheduled-time"

type mtask struct {
	promInFlight   bool    // the schedule handler saw the scheduled time come and has not yet called StartASAP
	promCarry      []int64 // the scheduled times that promotion stands for
	inert          bool    // created on a nil module: born cancelled, no max delay
	maxDelayZero   bool    // last MaxDelay call set 0 (own books, not the implementation's snapshot)
	execNo         int     // number of starts seen
	inExec         bool    // between a start and the end of its deferred section
	lastSubExec    int     // execution during which the last submission was made, -1 if none was in progress
	lastSkipExecNo int     // execution during which the last skip-executing happened, -1
	cancelIdx      int     // index of the first cancel event, -1
	cancelWaiting  bool
	subs, starts   int
	lastSubIdx     int
	lastStartIdx   int
	lastSkipExec   int
	userSub        bool    // Queue/QueuePrioritized/StartASAP from outside since the last start
	schedTimes     []int64 // Schedule(x) calls since the last start
	pendingSched   int64   // scheduled time that is still to come (0 = none)
	pendingIdx     int
	inFn           int
	earlyCheck     []int64 // set at run-start when the task was only scheduled: the candidate times
	earlyArmed     bool
	earlyStartLine int

	// books for the serial-queue clause on direct starts (starts by the schedule handler, not through the queue)
	md         int64 // own book of the task's MaxDelay (ns): the default until a maxdelay call is seen
	deadline   int64 // earliest instant at which the max delay of the last queueing call can have expired (0 = none)
	userEA     int64 // the last time given to Schedule since the last queueing call with a max delay / start / Schedule(zero)
	directPick *directPick
}

// directPick: what the monitor's own books said at the moment the schedule handler took a waiting task out of
// the schedule in order to start it directly.
type directPick struct {
	now       int64
	line      int
	deadline  int64
	userEA    int64
	expired   bool // the max delay of the task's last queueing call had expired (2 ms tolerance)
	scheduled bool // a time given to Schedule (after that queueing call) had come
}

// Signature of the recorded finding about a pick that races with a direct start (see props/C07.findings.json).
const sigPickRaced = "C07:queue-pick-raced-by-direct-start"

// qhRun: a started queued task — started by the queue handler, or (direct) a task that was waiting in a queue
// and was started directly by the schedule handler.
type qhRun struct {
	t         int
	startNow  int64
	ended     bool
	direct    bool
	startLine int
	spawnIdx  int // direct: index of the event that reports its queue slot as taken (-1 = not yet)
}

func monitor(c hxlib.Case, outs []string) (vs []hxlib.Violation) {
	if len(c.Lines) == 0 {
		return nil
	}
	scn, ok := decodeScn(c.Lines[0])
	if !ok {
		return nil
	}
	add := func(sig, what string, upto int) {
		for _, v := range vs {
			if v.Sig == sig {
				return
			}
		}
		if upto >= len(c.Lines) {
			upto = len(c.Lines) - 1
		}
		vs = append(vs, hxlib.Violation{Sig: sig, What: what, Lines: c.Lines[:upto+1]})
	}
	ts := make([]*mtask, scn.N)
	for i := range ts {
		ts[i] = &mtask{cancelIdx: -1, lastSubIdx: -1, lastStartIdx: -1, lastSkipExec: -1, lastSubExec: -1, lastSkipExecNo: -1, md: -1}
	}
	execWait := int64(60_000_000_000)
	defMaxDelay := int64(60_000_000_000)
	var lastClock int64 // latest reading of the harness clock seen in the log (lower bound for every later section)
	// order books
	stamp := 0
	waitA, waitP, waitN := map[int]int{}, map[int]int{}, map[int]int{}
	pickedPrio, pickedNorm := map[int]bool{}, map[int]bool{}
	var qhRuns []*qhRun
	// own books of the queue slots: executions reported as started (slot taken) and not yet reported as handed back;
	// zeroSince = the first event since the queue handler last entered its wait after which no slot was taken (-1 = none)
	slotCnt, zeroSince, waitSeen := 0, -1, false
	var endNow int64
	ended := ""

	for i, l := range c.Lines[1:] {
		i++ // index into c.Lines
		f := strings.Fields(l)
		if len(f) < 3 {
			continue
		}
		now, _ := strconv.ParseInt(f[1], 10, 64)
		if f[0] == "i" {
			if now > lastClock {
				lastClock = now
			}
			switch f[2] {
			case "consts":
				if len(f) > 3 {
					execWait, _ = strconv.ParseInt(f[3], 10, 64)
				}
				if len(f) > 4 {
					defMaxDelay, _ = strconv.ParseInt(f[4], 10, 64)
				}
			case "end":
				endNow = now
				if len(f) > 3 {
					ended = f[3]
				}
				if ended == "worker-died" {
					add("C07:scheduler-crash", "the process running the scenario on the real scheduler died: "+strings.Join(f[4:], " ")+" — after that no task is executed at all", i)
				}
			}
			continue
		}
		if f[0] != "e" {
			continue
		}
		snap := ""
		if j := strings.Index(l, " | "); j >= 0 {
			snap = l[j+3:]
		}
		_ = snap
		act := f[2]
		tk := func(pos int) (int, *mtask) {
			if pos < len(f) {
				if k, err := strconv.Atoi(f[pos]); err == nil && k >= 0 && k < len(ts) {
					return k, ts[k]
				}
			}
			return -1, nil
		}
		// own books: is the task cancelled / waiting at this moment?
		isCanceled := func(t *mtask) bool { return t.inert || t.cancelIdx >= 0 }
		isWaiting := func(k int, t *mtask) bool {
			_, a := waitA[k]
			_, p := waitP[k]
			_, n := waitN[k]
			return a || p || n || t.pendingSched != 0
		}
		curExec := func(t *mtask) int {
			if t.inExec {
				return t.execNo
			}
			return -1
		}
		mdOf := func(t *mtask) int64 {
			if t.md < 0 {
				return defMaxDelay
			}
			return t.md
		}
		// a queueing call on an active task with a max delay: the delay cannot expire before (a clock reading
		// taken before the call) + max delay; the max-delay entry replaces a time given to Schedule
		armed := func(t *mtask) {
			if d := mdOf(t); d != 0 {
				t.deadline, t.userEA = lastClock+d, 0
			}
		}
		// The time of an event is a reading of the harness clock taken at the end of the section, except for the
		// queueing calls (reading recovered from the implementation's executeAt) and the not-due fetch (the
		// implementation's own reading).
		if !(act == "queue" || act == "queuep" || act == "asap" || (act == "shfetch" && len(f) > 3 && f[3] == "notdue")) && now > lastClock {
			lastClock = now
		}
		switch act {
		case "newinert":
			if _, t := tk(3); t != nil {
				t.inert, t.maxDelayZero, t.md = true, true, 0
			}
		case "maxdelay":
			if _, t := tk(3); t != nil && len(f) > 4 {
				t.maxDelayZero = f[4] == "0"
				t.md, _ = strconv.ParseInt(f[4], 10, 64)
			}
		case "finish":
			if _, t := tk(3); t != nil {
				t.inExec = false
			}
		case "qhwait":
			waitSeen, zeroSince = true, -1
			if slotCnt == 0 {
				zeroSince = i
			}
		case "spawn":
			slotCnt++
			if k, t := tk(3); t != nil {
				for j := len(qhRuns) - 1; j >= 0; j-- {
					if q := qhRuns[j]; q.t == k && q.direct && q.spawnIdx < 0 {
						q.spawnIdx = i
						break
					}
				}
			}
		case "slotfree":
			if slotCnt > 0 {
				slotCnt--
			}
			if slotCnt == 0 && waitSeen && zeroSince < 0 {
				zeroSince = i
			}
		case "queue", "queuep":
			k, t := tk(3)
			if t == nil {
				continue
			}
			t.subs++
			if isCanceled(t) {
				continue
			}
			armed(t)
			t.lastSubIdx, t.userSub, t.lastSubExec = i, true, curExec(t)
			if !t.maxDelayZero {
				t.pendingSched = 0 // the max-delay entry replaces the scheduled time
			}
			if act == "queue" {
				if _, in := waitN[k]; !in && !pickedNorm[k] {
					stamp++
					waitN[k] = stamp
				}
			} else {
				_, a := waitA[k]
				_, p := waitP[k]
				if !a && !p && !pickedPrio[k] {
					stamp++
					waitP[k] = stamp
				}
			}
		case "asap":
			k, t := tk(4)
			if t == nil {
				continue
			}
			if f[3] != "sh" {
				t.subs++
			} else {
				t.promInFlight = false
			}
			if isCanceled(t) {
				continue
			}
			armed(t)
			if f[3] != "sh" {
				t.lastSubIdx, t.userSub, t.lastSubExec = i, true, curExec(t)
			}
			if !t.maxDelayZero {
				t.pendingSched = 0
			}
			if !pickedPrio[k] {
				delete(waitP, k)
				stamp++
				waitA[k] = stamp
			}
		case "schedule":
			k, t := tk(3)
			if t == nil || len(f) < 5 {
				continue
			}
			x, _ := strconv.ParseInt(f[4], 10, 64)
			if x == 0 {
				// Schedule(zero) "removes / cancels the scheduled execution": the implementation withdraws the task
				// from the schedule and from both queues. Read in the implementation's favour: nothing is owed.
				t.pendingSched = 0
				t.lastSubIdx = -1
				t.deadline, t.userEA = 0, 0
				delete(waitA, k)
				delete(waitP, k)
				delete(waitN, k)
				continue
			}
			t.subs++
			t.userEA = x
			t.schedTimes = append(t.schedTimes, x)
			if !isCanceled(t) {
				t.pendingSched, t.pendingIdx = x, i
			}
		case "cancel":
			k, t := tk(3)
			if t != nil && t.cancelIdx < 0 {
				t.cancelWaiting = isWaiting(k, t) || pickedPrio[k] || pickedNorm[k]
				t.cancelIdx = i
			}
		case "shfetch":
			if len(f) > 4 && f[3] == "run" {
				// the schedule handler takes a waiting task out of the schedule to start it directly (not through the queue)
				if _, t := tk(4); t != nil {
					t.directPick = newDirectPick(t, now, i)
				}
			}
			if len(f) > 4 && f[3] == "asap" {
				// the scheduled time of the task has come (observed by the schedule handler)
				if _, t := tk(4); t != nil {
					if !isCanceled(t) {
						t.lastSubIdx, t.lastSubExec = i, curExec(t)
					}
					// the promotion stays valid if the task is started through another route before the
					// schedule handler's StartASAP call is executed
					t.promInFlight, t.promCarry = true, append([]int64{}, t.schedTimes...)
				}
			}
		case "qhpop":
			if len(f) < 4 || f[3] == "none" {
				continue
			}
			k, t := tk(3)
			if t == nil {
				continue
			}
			// serial: every run started earlier by the queue handler has returned, was cancelled, or
			// exceeded the execution-wait limit
			for _, q := range qhRuns {
				if q.ended || ts[q.t].cancelIdx >= 0 || now-q.startNow >= execWait {
					continue
				}
				if !q.direct {
					add("C07:queue-not-serial", fmt.Sprintf("queue handler picked task %d while task %d (started by it before) still runs, is not cancelled and is within the execution-wait limit", k, q.t), i)
					continue
				}
				// A queued task that the schedule handler started directly (max-delay exception) is a started queued
				// task like any other: the next one is due only after it returned, was cancelled or exceeded the
				// execution-wait limit. One class is the recorded finding: the direct start took its slot only after the
				// queue handler had found all slots free (between the handler's slot check and its pick).
				// (a trace that does not show the handler entering its wait before this pick — it did so before the
				// recording began — cannot tell the two apart and is read in the implementation's favour)
				if !waitSeen || zeroSince >= 0 && (q.spawnIdx < 0 || q.spawnIdx > zeroSince) {
					add(sigPickRaced, fmt.Sprintf("queue handler picked task %d while task %d, a waiting task started directly by the schedule handler (event %d), still runs, is not cancelled and is within the execution-wait limit; the direct start took its queue slot (event %d, -1 = not yet) after the queue handler had found every slot free (event %d) and before it picked", k, q.t, q.startLine, q.spawnIdx, zeroSince), i)
				} else {
					add("C07:queue-not-serial", fmt.Sprintf("queue handler picked task %d while task %d — a waiting task that the schedule handler started directly before (event %d, queue slot reported as taken at event %d) — still runs, is not cancelled and is within the execution-wait limit; since that start no moment without a started, unreturned task was seen (the queue handler entered its wait after it, or a task ahead returned after it)", k, q.t, q.startLine, q.spawnIdx), i)
				}
			}
			zeroSince, waitSeen = -1, false
			// order
			exp, cls := -1, ""
			best := func(m map[int]int, latest bool) int {
				b, bs := -1, 0
				for x, s := range m {
					if b < 0 || (latest && s > bs) || (!latest && s < bs) {
						b, bs = x, s
					}
				}
				return b
			}
			switch {
			case len(waitA) > 0:
				exp, cls = best(waitA, true), "start-asap (latest request first)"
			case len(waitP) > 0:
				exp, cls = best(waitP, false), "prioritized (submission order)"
			case len(waitN) > 0:
				exp, cls = best(waitN, false), "normal (submission order)"
			}
			if exp != k {
				add("C07:queue-order", fmt.Sprintf("queue handler picked task %d, the order of the statement demands task %d [%s]; waiting asap=%v prio=%v normal=%v",
					k, exp, cls, keys(waitA), keys(waitP), keys(waitN)), i)
			}
			_, a := waitA[k]
			_, p := waitP[k]
			if a || p {
				delete(waitA, k)
				delete(waitP, k)
				pickedPrio[k] = true
			} else {
				delete(waitN, k)
				pickedNorm[k] = true
			}
		case "run":
			k, t := tk(4)
			if t == nil || len(f) < 6 {
				continue
			}
			// own books: was the task waiting in a queue (or picked out of one) when this section began?
			wasQueued := pickedPrio[k] || pickedNorm[k]
			for _, m := range []map[int]int{waitA, waitP, waitN} {
				if _, in := m[k]; in {
					wasQueued = true
				}
			}
			delete(waitA, k)
			delete(waitP, k)
			delete(waitN, k)
			delete(pickedPrio, k)
			delete(pickedNorm, k)
			dp := t.directPick
			if f[3] == "sh" {
				t.directPick = nil
				if dp == nil {
					dp = newDirectPick(t, now, i)
				}
			}
			if f[5] != "skip-stale" {
				t.deadline, t.userEA = 0, 0 // the task left the schedule
			}
			switch f[5] {
			case "skip-executing":
				t.lastSkipExec, t.lastSkipExecNo = i, curExec(t)
				t.pendingSched = 0
			case "start":
				if t.cancelIdx >= 0 && t.cancelWaiting {
					add("C07:started-after-cancel", fmt.Sprintf("task %d left the waiting state and started although it was cancelled while waiting", k), i)
				}
				t.starts++
				t.execNo++
				t.inExec = true
				if t.starts > t.subs {
					add("C07:more-runs-than-submissions", fmt.Sprintf("task %d: start no. %d but only %d submissions so far", k, t.starts, t.subs), i)
				}
				t.earlyArmed = false
				// "a task that was only scheduled never starts before its scheduled time": applies to a start that no
				// user submission stands behind AND that a schedule stands behind. A start with neither (e.g. a second
				// run of a task that was submitted twice before its first run) is not forbidden by that clause; it is
				// judged by the count clause (more-runs-than-submissions) only.
				if !t.userSub && len(t.schedTimes) > 0 {
					t.earlyArmed, t.earlyCheck, t.earlyStartLine = true, append([]int64{}, t.schedTimes...), i
				}
				t.lastStartIdx = i
				t.userSub = false
				t.schedTimes = nil
				if t.promInFlight {
					t.schedTimes = append([]int64{}, t.promCarry...)
				}
				t.pendingSched = 0
				if f[3] == "sh" && !dp.expired {
					// "Queued tasks are started one after the other (the next one only after the previous returned, was
					// cancelled or exceeded the execution-wait limit)". A start by the schedule handler bypasses the queue;
					// it is read as the documented exception only if the max delay of the task's last queueing call has
					// expired. Otherwise the task is a waiting task started out of turn, and the clause applies to it: the
					// tasks started through the queue before it (exempted direct starts are not links of that chain) must
					// have returned, been cancelled or exceeded the execution-wait limit.
					for _, q := range qhRuns {
						if q.direct || q.ended || q.t == k || ts[q.t].cancelIdx >= 0 || now-q.startNow >= execWait {
							continue
						}
						dl := "it has no max delay on the books (no queueing call with a max delay since it last left the schedule)"
						if dp.deadline != 0 {
							dl = fmt.Sprintf("the max delay of its last queueing call cannot expire before %d", dp.deadline)
						}
						if dp.scheduled {
							add(sigDirectAtScheduled, fmt.Sprintf("task %d, waiting for its turn, was taken out of the schedule at %d (event %d) and started directly by the schedule handler at %d because a time given to Schedule (%d) had come, while task %d (started through the queue before) still runs, is not cancelled and is within the execution-wait limit; %s",
								k, dp.now, dp.line, now, dp.userEA, q.t, dl), i)
						} else {
							add("C07:waiting-task-started-directly-before-max-delay", fmt.Sprintf("task %d, waiting for its turn, was taken out of the schedule at %d (event %d) and started directly by the schedule handler at %d, while task %d (started through the queue before) still runs, is not cancelled and is within the execution-wait limit; %s; no time given to Schedule had come either (last: %d)",
								k, dp.now, dp.line, now, q.t, dl, dp.userEA), i)
						}
						break
					}
				}
				if f[3] == "qh" {
					qhRuns = append(qhRuns, &qhRun{t: k, startNow: now, startLine: i, spawnIdx: -1})
				} else if f[3] == "sh" && wasQueued {
					// "Queued tasks are started one after the other": a queued task started directly is a started queued
					// task; a task that was in no queue (only scheduled) is not counted
					qhRuns = append(qhRuns, &qhRun{t: k, startNow: now, startLine: i, spawnIdx: -1, direct: true})
				}
			default:
				t.pendingSched = 0
			}
		case "fnbegin":
			k, t := tk(3)
			if t == nil {
				continue
			}
			if t.inFn > 0 {
				add("C07:self-overlap", fmt.Sprintf("the function of task %d was entered while it was still running", k), i)
			}
			t.inFn++
			if t.earlyArmed {
				t.earlyArmed = false
				ok := false
				for _, x := range t.earlyCheck {
					if now >= x-earlyTolNs {
						ok = true
					}
				}
				if !ok {
					add("C07:early-start", fmt.Sprintf("task %d was only scheduled (times %v) and its function began at %d, before its scheduled time", k, t.earlyCheck, now), i)
				}
			}
		case "fnend":
			k, t := tk(3)
			if t == nil {
				continue
			}
			t.inFn--
			for j := len(qhRuns) - 1; j >= 0; j-- {
				if qhRuns[j].t == k && !qhRuns[j].ended {
					qhRuns[j].ended = true
				}
			}
		}
	}
	if ended != "" {
		for k, t := range ts {
			if t.cancelIdx >= 0 {
				continue
			}
			owed := t.lastSubIdx > t.lastStartIdx
			duePending := t.pendingSched != 0 && t.pendingSched+100_000_000 < endNow
			if !owed && !duePending {
				continue
			}
			// the recorded finding, and only it: the last submission was made DURING an execution and the task was
			// dequeued (check section found it executing) during that same execution
			if owed && t.lastSkipExec > t.lastSubIdx && t.lastSubExec >= 0 && t.lastSubExec == t.lastSkipExecNo {
				add("C07:resubmitted-while-executing-dropped", fmt.Sprintf("task %d was submitted again while it was executing; the request was dropped when the task was dequeued during that execution and the task was never executed after its last submission", k), len(c.Lines)-1)
				continue
			}
			what := fmt.Sprintf("task %d was submitted (event %d) and not cancelled, but was not executed after its last submission (scenario end: %s)", k, t.lastSubIdx, ended)
			if !owed {
				what = fmt.Sprintf("task %d: its scheduled time %d came (scenario ended at %d, %s) but it was not executed", k, t.pendingSched, endNow, ended)
			}
			add("C07:lost-submission", what, len(c.Lines)-1)
		}
	}
	return vs
}

func newDirectPick(t *mtask, now int64, line int) *directPick {
	return &directPick{now: now, line: line, deadline: t.deadline, userEA: t.userEA,
		expired:   t.deadline != 0 && now >= t.deadline-earlyTolNs,
		scheduled: t.userEA != 0 && now >= t.userEA-earlyTolNs}
}

func keys(m map[int]int) []int {
	type kv struct{ k, s int }
	var xs []kv
	for k, s := range m {
		xs = append(xs, kv{k, s})
	}
	sort.Slice(xs, func(i, j int) bool { return xs[i].s < xs[j].s })
	out := make([]int, len(xs))
	for i, x := range xs {
		out[i] = x.k
	}
	return out
}
