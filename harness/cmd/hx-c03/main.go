// hx-c03: correspondence harness and property monitor for C03
// (secret and crown-jewel records never cross a non-privileged database interface).
package main

import (
	"encoding/json"
	"fmt"
	"math/rand"
	"net/http/httptest"
	"sort"
	"strconv"
	"strings"
	"sync"
	"sync/atomic"
	"time"

	"github.com/gorilla/websocket"

	"github.com/safing/portbase/api"
	"github.com/safing/portbase/database"
	"github.com/safing/portbase/database/record"
	"github.com/safing/portbase/runtime"

	"verifharness/dbx"
	"verifharness/hxlib"
)

// ---- executor extension: database API and injected runtime registry -------------------------------

type ext struct {
	mu      sync.Mutex
	replies chan string
	dbapi   *api.DatabaseAPI
	opID    int
	rtDB    string
	prov    *logProvider
	push    runtime.PushFunc
	// key prefixes the provider is registered under ("p/" in the single-provider cases; "p/a/", "p/b/", … in the
	// multi-provider cases, where one Registry.Query serves them in one goroutine each)
	provKeys []string

	// the transport the case's `api` operations use (op `apivia`): "" / "handle" = a DatabaseAPI from
	// api.CreateDatabaseAPI driven through Handle; "ws" = a websocket connection to the HTTP handler of
	// /api/database/v1 (startDatabaseWebsocketAPI, which builds its own DatabaseAPI) served by a test server
	inbox   map[string][]string // replies read off the transport while waiting for another operation's, by operation id
	apiSubs map[string]string   // subscription name -> operation id of the `sub` request
	via   string
	wsSrv *httptest.Server
	ws    *websocket.Conn
	wsErr string
}

// transports counts the API operations per constructor of a DatabaseAPI (evidence).
var (
	transports    = map[string]int{}
	transportLock sync.Mutex
)

// wsConn returns the case's websocket connection to the database API, opening it on first use.
func (x *ext) wsConn(e *dbx.Exec) *websocket.Conn {
	if x.ws != nil || x.wsErr != "" {
		return x.ws
	}
	if x.replies == nil {
		x.replies = make(chan string, 4096)
	}
	x.wsSrv = httptest.NewServer(api.VerifDatabaseWebsocketHandler())
	conn, _, err := websocket.DefaultDialer.Dial("ws"+strings.TrimPrefix(x.wsSrv.URL, "http"), nil) //nolint:bodyclose
	if err != nil {
		x.wsErr = "err:websocket-dial:" + strings.Join(strings.Fields(err.Error()), "_")
		x.wsSrv.Close()
		return nil
	}
	x.ws = conn
	replies := x.replies
	go func() {
		for {
			_, msg, err := conn.ReadMessage()
			if err != nil {
				return
			}
			replies <- string(msg)
		}
	}()
	e.Closers = append(e.Closers, func() {
		_ = conn.Close()
		x.wsSrv.Close()
	})
	return conn
}

// logProvider is the value provider of the injected runtime database: it keeps what Set receives under the
// record's key, answers Get with copies of what it keeps (sorted by key), and logs every Set it receives.
type logProvider struct {
	e    *dbx.Exec
	recs map[string]record.Record // database key -> record
	sets []string                 // canonical rendering of every record Set received, in order
	gate *gateCtl                 // set while a gated query (op rtgq) runs
}

// Get may be called by several goroutines of one Registry.Query at once (the provider is registered under several
// key prefixes in the multi-provider cases): it only reads.
func (p *logProvider) Get(keyOrPrefix string) ([]record.Record, error) {
	var keys []string
	for k := range p.recs {
		if strings.HasPrefix(k, keyOrPrefix) {
			keys = append(keys, k)
		}
	}
	sort.Strings(keys)
	out := make([]record.Record, 0, len(keys))
	for _, k := range keys {
		out = append(out, dbx.CopyRecord(p.recs[k]))
	}
	if gt := p.gate; gt != nil {
		// a gated query: the calling goroutine (one per provider registration) stops here and after the evaluation of
		// each of its records (the record's Unlock) until the harness's scheduler lets it go on
		g := &gateG{resume: make(chan struct{})}
		for i := range out {
			last := i == len(out)-1
			out[i] = &gateRec{Record: out[i], stop: func(final bool) { gt.pause(g, final && last) }}
		}
		gt.pause(g, len(out) == 0)
	}
	return out, nil
}

// gateRec is a record that reports to the scheduler of a gated query. Registry.Query evaluates its filter between
// Lock and Unlock (DatabaseKey for the key prefix, Meta twice for validity and permission) and decides after Unlock:
// the goroutine is parked before each of those reads — between the evaluation of one check and the next — and,
// after the evaluation, at the first Unlock, i.e. between evaluation and decision. Every stop happens once.
type gateRec struct {
	record.Record
	stop   func(final bool)
	nKey   int32
	nMeta  int32
	unlock sync.Once
}

func (g *gateRec) DatabaseKey() string {
	if atomic.AddInt32(&g.nKey, 1) == 1 {
		g.stop(false)
	}
	return g.Record.DatabaseKey()
}

func (g *gateRec) Meta() *record.Meta {
	if atomic.AddInt32(&g.nMeta, 1) <= 2 {
		g.stop(false)
	}
	return g.Record.Meta()
}

func (g *gateRec) Unlock() {
	g.Record.Unlock()
	g.unlock.Do(func() { g.stop(true) })
}

type gateG struct{ resume chan struct{} }

type gateEvt struct {
	g    *gateG
	last bool // no further stop after this one
}

type gateCtl struct{ events chan gateEvt }

func (gt *gateCtl) pause(g *gateG, last bool) {
	gt.events <- gateEvt{g, last}
	<-g.resume
}

// gatedQuery runs a query of interface id over prefix on the injected runtime database with every provider goroutine
// of Registry.Query under the harness's scheduler: all goroutines are stopped when their provider has answered; then,
// driven by the seed, one stopped goroutine at a time is let go until its next stop (the evaluation of its next
// record) or its end. The result stream is drained concurrently. Returns what arrived, in order.
func (x *ext) gatedQuery(e *dbx.Exec, id, pfx string, seed int64) ([]record.Record, string) {
	q, ok := e.BuildQuery(x.rtDB, pfx, "-")
	if !ok || e.Iface(id) == nil {
		return nil, "bad-op"
	}
	// number of provider goroutines, as collectProviderByPrefix picks them: the registration with the longest key
	// that is a prefix of the query prefix, else every registration below the query prefix
	sp := pfx
	if sp == "-" {
		sp = ""
	}
	n := 0
	for _, k := range x.provKeys {
		if strings.HasPrefix(sp, k) {
			n = 1
		}
	}
	if n == 0 {
		for _, k := range x.provKeys {
			if strings.HasPrefix(k, sp) {
				n++
			}
		}
	}
	gt := &gateCtl{events: make(chan gateEvt, 16)}
	x.prov.gate = gt
	defer func() { x.prov.gate = nil }()
	it, err := e.Iface(id).Query(q)
	if err != nil {
		if strings.HasPrefix(dbx.ErrStr(err), "err:") {
			return nil, "badquery"
		}
		return nil, dbx.ErrStr(err)
	}
	var got []record.Record
	drained := make(chan struct{})
	go func() {
		for r := range it.Next {
			got = append(got, r)
		}
		close(drained)
	}()
	next := func() (gateEvt, bool) {
		select {
		case ev := <-gt.events:
			return ev, true
		case <-time.After(30 * time.Second):
			return gateEvt{}, false
		}
	}
	var stopped []gateEvt
	for len(stopped) < n {
		ev, ok := next()
		if !ok {
			return nil, fmt.Sprintf("err:gated-query:%d-of-%d-provider-goroutines-arrived", len(stopped), n)
		}
		stopped = append(stopped, ev)
	}
	rng := newRand(seed)
	steps := 0
	for len(stopped) > 0 {
		k := rng.Intn(len(stopped))
		ev := stopped[k]
		stopped = append(stopped[:k], stopped[k+1:]...)
		ev.g.resume <- struct{}{}
		steps++
		if !ev.last {
			nx, ok := next()
			if !ok {
				return nil, "err:gated-query:goroutine-did-not-reach-its-next-record"
			}
			stopped = append(stopped, nx)
		}
	}
	select {
	case <-drained:
	case <-time.After(30 * time.Second):
		return nil, "HANG"
	}
	gateLock.Lock()
	gateStats[fmt.Sprintf("gated-query:providers=%d", n)]++
	gateStats["gated-query:scheduler-steps"] += steps
	gateLock.Unlock()
	if ierr := it.Err(); ierr != nil {
		return got, dbx.ErrStr(ierr)
	}
	return got, ""
}

var (
	gateStats = map[string]int{}
	gateLock  sync.Mutex
)

func unwrap(r record.Record) record.Record {
	if g, ok := r.(*gateRec); ok {
		return g.Record
	}
	return r
}

// Set may be called with the record locked (Put, setters) or not (Delete): it never locks.
func (p *logProvider) Set(r record.Record) (record.Record, error) {
	p.sets = append(p.sets, p.e.ShowRecUnlocked(r))
	p.recs[r.DatabaseKey()] = dbx.CopyRecord(r)
	return r, nil
}

var rtCounter int

func (x *ext) api(e *dbx.Exec) *api.DatabaseAPI {
	if x.dbapi == nil {
		if x.replies == nil {
			x.replies = make(chan string, 4096)
		}
		replies := x.replies
		a := api.CreateDatabaseAPI(func(data []byte) {
			select {
			case replies <- string(data):
			default: // nobody reads any more (the case is over)
			}
		})
		x.dbapi = &a
		e.Closers = append(e.Closers, a.VerifShutdown) // ends the API's subscriptions with the case
	}
	return x.dbapi
}

func apiErr(msg string) string {
	switch {
	case strings.Contains(msg, "database entry not found"):
		return "notfound"
	case strings.Contains(msg, "access to database record denied"):
		return "denied"
	case strings.Contains(msg, "not implemented"):
		return "notimpl"
	case strings.Contains(msg, "format mismatch"):
		return "err-format"
	case strings.Contains(msg, "tried to set") || strings.Contains(msg, "does not exist") || strings.Contains(msg, "immutable"):
		return "setfailed"
	}
	return "err:" + strings.Join(strings.Fields(msg), "_")
}

// showAPIRecord renders `key|J{json with _meta}` as key~payload.
func showAPIRecord(dbName, key, data string) string {
	k := strings.TrimPrefix(key, dbName+":")
	if len(data) == 0 || data[0] != 'J' {
		return k + "~undecodable:" + strconv.Quote(data)
	}
	dec := json.NewDecoder(strings.NewReader(data[1:]))
	dec.UseNumber()
	var m map[string]any
	if err := dec.Decode(&m); err != nil {
		return k + "~undecodable:" + strconv.Quote(data)
	}
	delete(m, "_meta")
	b, _ := json.Marshal(m)
	w, _ := record.NewWrapper(dbName+":"+k, &record.Meta{}, 'J', b)
	if len(m) == 0 {
		return k + "~-"
	}
	return k + "~" + dbx.ShowPayload(w)
}

// opCounter numbers the API requests of the whole run (operation ids never repeat, so a late message or event of an
// earlier case cannot be mistaken for one of the current case).
var opCounter int64

func (x *ext) send(e *dbx.Exec, verb, rest string) (id string) {
	id = strconv.FormatInt(atomic.AddInt64(&opCounter, 1), 10)
	msg := []byte(id + "|" + verb + "|" + rest)
	transportLock.Lock()
	if x.via == "ws" {
		transports["startDatabaseWebsocketAPI (websocket connection)"]++
	} else {
		transports["CreateDatabaseAPI (Handle)"]++
	}
	transportLock.Unlock()
	if x.via == "ws" {
		conn := x.wsConn(e)
		if conn == nil {
			x.replies <- id + "|error|" + x.wsErr
			return id
		}
		if err := conn.WriteMessage(websocket.TextMessage, msg); err != nil {
			x.replies <- id + "|error|websocket-write:" + err.Error()
		}
		return id
	}
	x.api(e).Handle(msg)
	return id
}

func (x *ext) recv(id string) (typ string, parts []string, ok bool) {
	split := func(r string) (string, []string) {
		p := strings.SplitN(r, "|", 4)
		return p[1], p[2:]
	}
	for {
		if q := x.inbox[id]; len(q) > 0 {
			x.inbox[id] = q[1:]
			typ, parts = split(q[0])
			return typ, parts, true
		}
		select {
		case r := <-x.replies:
			p := strings.SplitN(r, "|", 3)
			if len(p) < 2 {
				continue
			}
			// replies of other operations (notifications of a subscription, late messages) are kept for the
			// operation that reads them: nothing that comes back from the API is dropped unseen
			if x.inbox == nil {
				x.inbox = map[string][]string{}
			}
			x.inbox[p[0]] = append(x.inbox[p[0]], r)
		case <-time.After(30 * time.Second):
			return "", nil, false
		}
	}
}

// subReady carries the operation ids of API subscriptions that have been registered with the database (verif event
// "dbapi:sub-ready"): a `sub` request is not acknowledged on the wire.
var subReady = make(chan string, 4096)

func apiSink(point string, args ...any) {
	if point == "dbapi:sub-ready" && len(args) > 0 {
		if id, ok := args[0].(string); ok {
			select {
			case subReady <- id:
			default:
			}
		}
	}
}

// showSorted renders `ok <n> <records sorted by key>`.
func showSorted(l []string) string {
	sort.SliceStable(l, func(a, b int) bool {
		return l[a][:strings.IndexByte(l[a], '~')] < l[b][:strings.IndexByte(l[b], '~')]
	})
	if len(l) == 0 {
		return "ok 0"
	}
	return fmt.Sprintf("ok %d %s", len(l), strings.Join(l, " "))
}

func newRand(seed int64) *rand.Rand { return rand.New(rand.NewSource(seed)) }

var cmpText = map[string]string{"eq": "==", "gt": ">", "ge": ">=", "lt": "<", "le": "<=", "sa": "sameas", "sw": "startswith", "ew": "endswith", "co": "contains"}

func (x *ext) do(e *dbx.Exec, f []string) (string, bool) {
	switch f[0] {
	case "rtinit":
		// rtinit [shadow [m<k>]]: the case's database becomes an injected runtime registry (shadow delete off / on)
		// whose value provider keeps and logs what its Set receives. Without m<k> it is registered once, at "p/"; with
		// m<k> (k = 2..4) under k key prefixes "p/a/", "p/b/", … — k providers for the registry, so that a query whose
		// prefix lies above them is served by k goroutines at once.
		if len(f) > 3 || (len(f) >= 2 && f[1] != "0" && f[1] != "1") {
			return "bad-op", true
		}
		regs := []string{"p/"}
		if len(f) == 3 {
			k := 0
			if len(f[2]) == 2 && f[2][0] == 'm' {
				k = int(f[2][1] - '0')
			}
			if k < 2 || k > 4 {
				return "bad-op", true
			}
			regs = []string{"p/a/", "p/b/", "p/c/", "p/d/"}[:k]
		}
		rtCounter++
		x.rtDB = fmt.Sprintf("vrt%d", rtCounter)
		if _, err := database.Register(&database.Database{Name: x.rtDB, Description: "verification", StorageType: database.StorageTypeInjected,
			ShadowDelete: len(f) >= 2 && f[1] == "1"}); err != nil {
			return dbx.ErrStr(err), true
		}
		reg := runtime.NewRegistry()
		if err := reg.InjectAsDatabase(x.rtDB); err != nil {
			return dbx.ErrStr(err), true
		}
		x.prov = &logProvider{e: e, recs: map[string]record.Record{}}
		x.provKeys = regs
		for _, k := range regs {
			push, err := reg.Register(k, x.prov)
			if err != nil {
				return dbx.ErrStr(err), true
			}
			x.push = push
		}
		e.UseDB(x.rtDB)
		return "ok", true
	case "rtgq":
		// rtgq <if> <prefix> <seed>: a query on the runtime database with the provider goroutines of Registry.Query
		// under a seeded scheduler (see gatedQuery). Answers like `query`.
		if len(f) != 4 || x.prov == nil {
			return "bad-op", true
		}
		seed, err := strconv.ParseInt(f[3], 10, 64)
		if err != nil {
			return "bad-op", true
		}
		got, es := x.gatedQuery(e, f[1], f[2], seed)
		if es != "" && got == nil {
			return es, true
		}
		var l []string
		for _, r := range got {
			l = append(l, e.ShowRec(unwrap(r)))
		}
		if es == "" {
			es = "nil"
		}
		return showSorted(l) + " err=" + es, true
	case "rtfq":
		// rtfq <if> <prefix> <n>: the same query n times in a row, free running (the provider goroutines race as the
		// scheduler lets them). Every repetition must list the same records; the answer is the union of all of them.
		if len(f) != 4 || x.prov == nil || e.Iface(f[1]) == nil {
			return "bad-op", true
		}
		n, err := strconv.Atoi(f[3])
		q, ok := e.BuildQuery(x.rtDB, f[2], "-")
		if err != nil || n < 1 || n > 100000 || !ok {
			return "bad-op", true
		}
		seen := map[string]bool{}
		var l []string
		for k := 0; k < n; k++ {
			it, err := e.Iface(f[1]).Query(q)
			if err != nil {
				if strings.HasPrefix(dbx.ErrStr(err), "err:") {
					return "badquery", true
				}
				return dbx.ErrStr(err), true
			}
			for r := range it.Next {
				if t := e.ShowRec(r); !seen[t] {
					seen[t] = true
					l = append(l, t)
				}
			}
			if ierr := it.Err(); ierr != nil {
				return showSorted(l) + " err=" + dbx.ErrStr(ierr), true
			}
		}
		return showSorted(l) + " err=nil", true
	case "rtput":
		// the provider's value changes on its own (no Set, nothing logged)
		if len(f) != 5 || x.prov == nil {
			return "bad-op", true
		}
		r, ok := e.BuildRecord(x.rtDB, f[1], f[2], f[3], f[4])
		if !ok {
			return "bad-op", true
		}
		x.prov.recs[f[1]] = r
		return "ok", true
	case "rtsets":
		// what the provider's Set received since the last rtsets, in order
		if len(f) != 1 || x.prov == nil {
			return "bad-op", true
		}
		l := x.prov.sets
		x.prov.sets = nil
		if len(l) == 0 {
			return "ok 0", true
		}
		return fmt.Sprintf("ok %d %s", len(l), strings.Join(l, " ")), true
	case "rtpush":
		// the provider announces its current record through the PushFunc it got from Register
		if len(f) != 2 || x.prov == nil {
			return "bad-op", true
		}
		r := x.prov.recs[f[1]]
		if r == nil {
			return "notfound", true
		}
		c := dbx.CopyRecord(r)
		c.Lock()
		x.push(c)
		c.Unlock()
		return "ok", true
	case "apivia":
		// apivia <handle|ws>: which constructor of a DatabaseAPI serves the `api` operations that follow
		if len(f) != 2 || (f[1] != "handle" && f[1] != "ws") {
			return "bad-op", true
		}
		x.via = f[1]
		return "ok", true
	case "api":
		if len(f) < 3 {
			return "bad-op", true
		}
		db := e.DB()
		switch f[1] {
		case "get":
			id := x.send(e, "get", db+":"+f[2])
			typ, p, ok := x.recv(id)
			if !ok {
				return "HANG", true
			}
			if typ == "ok" && len(p) == 2 {
				return "ok " + showAPIRecord(db, p[0], p[1]), true
			}
			if typ == "error" && len(p) >= 1 {
				return apiErr(strings.Join(p, "|")), true
			}
			return "err:unexpected-reply:" + typ, true
		case "query":
			if len(f) != 4 {
				return "bad-op", true
			}
			pfx := f[2]
			if pfx == "-" {
				pfx = ""
			}
			text := "query " + db + ":" + pfx
			if f[3] != "-" {
				c := strings.Split(strings.Trim(f[3], "[]"), ":")
				if len(c) != 3 || cmpText[c[1]] == "" {
					return "bad-op", true
				}
				text += " where " + c[0] + " " + cmpText[c[1]] + " " + c[2]
			}
			id := x.send(e, "query", text)
			var recs []string
			for {
				typ, p, ok := x.recv(id)
				if !ok {
					return "HANG", true
				}
				switch typ {
				case "ok":
					if len(p) == 2 {
						recs = append(recs, showAPIRecord(db, p[0], p[1]))
					}
				case "warning":
				case "done":
					sort.Slice(recs, func(a, b int) bool {
						return recs[a][:strings.IndexByte(recs[a], '~')] < recs[b][:strings.IndexByte(recs[b], '~')]
					})
					if len(recs) == 0 {
						return "ok 0 err=nil", true
					}
					return fmt.Sprintf("ok %d %s err=nil", len(recs), strings.Join(recs, " ")), true
				case "error":
					return apiErr(strings.Join(p, "|")), true
				}
			}
		case "create", "update":
			if len(f) != 4 {
				return "bad-op", true
			}
			w, ok := e.BuildRecord(db, f[2], "J", "0,0,0,0,0,0", f[3])
			if !ok {
				return "bad-op", true
			}
			data := w.(*record.Wrapper).Data
			id := x.send(e, f[1], db+":"+f[2]+"|J"+string(data))
			typ, p, ok := x.recv(id)
			if !ok {
				return "HANG", true
			}
			if typ == "success" {
				return "ok", true
			}
			return apiErr(strings.Join(p, "|")), true
		case "insert":
			if len(f) != 5 {
				return "bad-op", true
			}
			w, ok := e.BuildRecord(db, f[2], "J", "0,0,0,0,0,0", f[3]+"="+f[4])
			if !ok {
				return "bad-op", true
			}
			id := x.send(e, "insert", db+":"+f[2]+"|"+string(w.(*record.Wrapper).Data))
			typ, p, ok := x.recv(id)
			if !ok {
				return "HANG", true
			}
			if typ == "success" {
				return "ok", true
			}
			return apiErr(strings.Join(p, "|")), true
		case "sub":
			// api sub <name> <prefix>: a subscription through the database API. The request is not acknowledged;
			// the op returns when the API has registered it with the database.
			if len(f) != 4 {
				return "bad-op", true
			}
			pfx := f[3]
			if pfx == "-" {
				pfx = ""
			}
			id := x.send(e, "sub", "query "+db+":"+pfx)
			deadline := time.After(30 * time.Second)
			for {
				if q := x.inbox[id]; len(q) > 0 { // an error reply
					x.inbox[id] = q[1:]
					p := strings.SplitN(q[0], "|", 4)
					return apiErr(strings.Join(p[2:], "|")), true
				}
				select {
				case rid := <-subReady:
					if rid == id {
						if x.apiSubs == nil {
							x.apiSubs = map[string]string{}
						}
						x.apiSubs[f[2]] = id
						return "ok", true
					}
				case r := <-x.replies:
					if p := strings.SplitN(r, "|", 3); len(p) >= 2 {
						if x.inbox == nil {
							x.inbox = map[string][]string{}
						}
						x.inbox[p[0]] = append(x.inbox[p[0]], r)
					}
				case <-deadline:
					return "HANG", true
				}
			}
		case "feed":
			// api feed <name> <sentinel key>: everything the API pushed for the subscription, in order, up to and
			// including the notification about the sentinel record (written just before by a privileged interface:
			// notifications are delivered in order, so nothing that was pushed earlier is still under way)
			if len(f) != 4 || x.apiSubs[f[2]] == "" {
				return "bad-op", true
			}
			id := x.apiSubs[f[2]]
			var items []string
			for {
				typ, p, ok := x.recv(id)
				if !ok {
					return "HANG", true
				}
				key := ""
				if len(p) >= 1 {
					key = strings.TrimPrefix(p[0], db+":")
				}
				switch typ {
				case "upd", "new":
					if len(p) == 2 {
						items = append(items, "upd:"+showAPIRecord(db, p[0], p[1]))
					} else {
						items = append(items, "upd:"+key+"~undecodable")
					}
				case "del":
					items = append(items, "del:"+key)
				case "warning": // a record the API cannot render as JSON: the operation continues
					continue
				default:
					items = append(items, "unexpected:"+typ+":"+strings.Join(p, "|"))
				}
				if key == f[3] {
					if len(items) == 0 {
						return "ok 0", true
					}
					return fmt.Sprintf("ok %d %s", len(items), strings.Join(items, " ")), true
				}
				if typ == "done" || typ == "error" {
					return fmt.Sprintf("ok %d %s", len(items), strings.Join(items, " ")), true
				}
			}
		case "delete":
			id := x.send(e, "delete", db+":"+f[2])
			typ, p, ok := x.recv(id)
			if !ok {
				return "HANG", true
			}
			if typ == "success" {
				return "ok", true
			}
			return apiErr(strings.Join(p, "|")), true
		}
		return "bad-op", true
	}
	return "", false
}

// ---- generator ---------------------------------------------------------------------------------------

type gen struct {
	r      *hxlib.Run
	marker int
	// the history under construction has a non-privileged interface with a delayed write cache: what that interface
	// writes stays in its write set (it cannot flush), so its records carry neither a relative expiry nor an expiry in
	// the past (gcache keeps the TTL of an overwritten entry; see notes/c02.md, "Partial")
	plainExpiry bool
}

func (g *gen) pick(l []string) string { return l[g.r.Rng.Intn(len(l))] }

func (g *gen) rec(keys []string, forms []string) (key, form, line string) {
	rng := g.r.Rng
	form = g.pick(forms)
	key = g.pick(keys)
	g.marker++
	meta := dbx.GenMetaY(rng, true, g.plainExpiry, false, g.plainExpiry)
	if rng.Intn(3) != 0 { // most records are plainly visible, flags matter
		m := strings.Split(meta, ",")
		m[2], m[3] = "0", "0"
		if rng.Intn(6) == 0 {
			m[2] = "@+3600"
		}
		meta = strings.Join(m, ",")
	}
	return key, form, fmt.Sprintf("%s %s %s %s", key, form, meta, dbx.GenFields(rng, form, fmt.Sprintf("m%d", g.marker)))
}

var actors = []struct{ id, l, i string }{{"A", "0", "0"}, {"B", "0", "1"}, {"C", "1", "0"}}

func (g *gen) history(emit func(hxlib.Case), backend string, shadow bool) {
	rng := g.r.Rng
	keys := dbx.Keys(backend)
	sh := "0"
	if shadow {
		sh = "1"
	}
	lines := []string{"cfg " + backend + " " + sh}
	// every constructor of a DatabaseAPI is driven: the in-process one through Handle, the websocket endpoint
	// through a real connection (a third of the histories)
	via := "handle"
	if rng.Intn(3) == 0 {
		via = "ws"
		lines = append(lines, "apivia ws")
	}
	g.r.Count("api-transport:" + via)
	pOpts := []string{"0 0 0 0", "0 0 0 0", "1 0 0 0", "0 1 0 0"}[rng.Intn(4)]
	lines = append(lines, "if P 1 1 n "+pOpts)
	// A read cache must be used exclusively (it does not notice writes of other interfaces): in a cached history
	// exactly one non-privileged interface has a cache, the privileged one writes first, afterwards the cached
	// interface is the only writer and everybody else only reads.
	anyCached := rng.Intn(3) == 0
	cached := map[string]bool{}
	writer := ""
	// "every combination of the Local and Internal options ... every ... cache setting": the cached interface has a
	// read cache or — every other cached history — a delayed write cache (Options.DelayCachedWrites = the case's
	// database). Without both privileges such an interface cannot flush (PutMany refuses it): what it writes is
	// answered from its cache and reaches the storage only through the evict handler.
	delayed := false
	if anyCached {
		writer = actors[rng.Intn(3)].id
		cached[writer] = true
		delayed = rng.Intn(2) == 0
	}
	g.plainExpiry = false
	for _, a := range actors {
		c := "n"
		if cached[a.id] {
			c = "r"
			if delayed {
				c = "d"
			}
		}
		lines = append(lines, fmt.Sprintf("if %s %s %s %s 0 0 0 0", a.id, a.l, a.i, c))
	}
	readOnly := func(actor string) {
		k := g.pick(keys)
		switch rng.Intn(3) {
		case 0:
			lines = append(lines, "get "+actor+" "+k)
		case 1:
			lines = append(lines, "exists "+actor+" "+k)
		default:
			lines = append(lines, fmt.Sprintf("query %s %s -", actor, g.pick(dbx.Prefixes)))
		}
		g.r.Count("op:read:" + actorClass(actor))
	}
	lastForm := map[string]string{}
	everRaw := map[string]bool{} // a write may be denied: once a RAW wrapper was aimed at a key, no attribute inserts there
	write := func(actor string) {
		k, form, l := g.rec(keys, []string{"T", "J", "J", "R"})
		lastForm[k] = form
		if form == "R" {
			everRaw[k] = true
		}
		verb := "put"
		if rng.Intn(5) == 0 {
			verb = "putnew"
		}
		lines = append(lines, verb+" "+actor+" "+l)
		g.r.Count("op:" + verb + ":" + actorClass(actor))
	}
	nsub := 0
	unpriv := func(actor string) {
		k := g.pick(keys)
		switch x := rng.Intn(100); {
		case x < 22:
			lines = append(lines, "get "+actor+" "+k)
			g.r.Count("op:get:" + actorClass(actor))
		case x < 27:
			lines = append(lines, "exists "+actor+" "+k)
			g.r.Count("op:exists:" + actorClass(actor))
		case x < 42:
			c := "-"
			if rng.Intn(3) == 0 { // root-level, well-typed conditions (condition semantics are C02's subject)
				c = g.pick([]string{"[I:ge:5]", "[I:eq:7]", "[S:sw:m]", "[B:is:1]", "[F:fgt:1500]", "![I:lt:0]", "&([I:ge:0],[S:co:m])", "E1"})
			}
			lines = append(lines, fmt.Sprintf("query %s %s %s", actor, g.pick(dbx.Prefixes), c))
			g.r.Count("op:query:" + actorClass(actor))
		case x < 52:
			write(actor)
		case x < 54:
			lines = append(lines, "reput "+actor+" "+k)
			g.r.Count("op:get-then-put-back:" + actorClass(actor))
		case x < 58:
			lines = append(lines, "del "+actor+" "+k)
			g.r.Count("op:delete:" + actorClass(actor))
		case x < 63:
			abs := g.pick([]string{"5", "@+3600", "0"})
			if g.plainExpiry && abs == "5" {
				abs = "@+3600"
			}
			lines = append(lines, fmt.Sprintf("setabs %s %s %s", actor, k, abs))
			g.r.Count("op:setabs:" + actorClass(actor))
		case x < 66:
			if g.plainExpiry {
				return
			}
			lines = append(lines, fmt.Sprintf("setrel %s %s 3600", actor, k))
			g.r.Count("op:setrel:" + actorClass(actor))
		case x < 72:
			lines = append(lines, g.pick([]string{"mksecret", "mkcrown"})+" "+actor+" "+k)
			g.r.Count("op:mkflag:" + actorClass(actor))
		case x < 77:
			if cached[actor] || everRaw[k] || lastForm[k] == "" {
				return
			}
			lines = append(lines, fmt.Sprintf("insert %s %s %s %s", actor, k, g.pick([]string{"S", "I", "Q"}), g.pick([]string{"s:ins", "i:42"})))
			g.r.Count("op:insert:" + actorClass(actor))
		case x < 83:
			lines = append(lines, "pmbegin "+actor)
			if backend == "h" || backend == "b" || true {
				for i := 0; i < 1+rng.Intn(2); i++ {
					_, _, l := g.rec(keys, []string{"J"})
					lines = append(lines, "pmput "+actor+" "+l)
				}
			}
			lines = append(lines, "pmend "+actor)
			g.r.Count("op:putmany:" + actorClass(actor))
		case x < 88:
			if cached[actor] {
				return
			}
			lines = append(lines, fmt.Sprintf("purge %s %s -", actor, g.pick(dbx.Prefixes)))
			g.r.Count("op:purge:" + actorClass(actor))
		case x < 94:
			if nsub < 3 {
				nsub++
				lines = append(lines, fmt.Sprintf("sub %s s%d %s -", actor, nsub, g.pick([]string{"-", "a", "c/"})))
				g.r.Count("op:subscribe:" + actorClass(actor))
			}
		default:
			if nsub > 0 {
				lines = append(lines, fmt.Sprintf("feed s%d", 1+rng.Intn(nsub)))
			}
		}
	}
	apiOp := func() {
		k := g.pick(keys)
		switch x := rng.Intn(100); {
		case x < 35:
			lines = append(lines, "api get "+k)
			g.r.Count("op:get:api")
		case x < 60:
			c := "-"
			if rng.Intn(3) == 0 {
				c = g.pick([]string{"[I:ge:5]", "[I:eq:7]", "[S:sw:m]", "[S:sa:abc]"})
			}
			lines = append(lines, fmt.Sprintf("api query %s %s", g.pick([]string{"-", "a", "a/", "ab", "c/d/", "zz"}), c))
			g.r.Count("op:query:api")
		case x < 75:
			g.marker++
			lastForm[k] = "J"
			lines = append(lines, fmt.Sprintf("api %s %s %s", g.pick([]string{"create", "update"}), k, dbx.GenFields(rng, "T", fmt.Sprintf("m%d", g.marker))))
			g.r.Count("op:put:api")
		case x < 85:
			lines = append(lines, "api delete "+k)
			g.r.Count("op:delete:api")
		default:
			if everRaw[k] || (lastForm[k] != "J" && lastForm[k] != "T") {
				return
			}
			lines = append(lines, fmt.Sprintf("api insert %s %s %s", k, g.pick([]string{"S", "I"}), g.pick([]string{"s:apiins", "i:43"})))
			g.r.Count("op:insert:api")
		}
	}
	privWrite := func() {
		switch rng.Intn(10) {
		case 0:
			lines = append(lines, g.pick([]string{"mksecret", "mkcrown"})+" P "+g.pick(keys))
		case 1:
			lines = append(lines, "del P "+g.pick(keys))
		default:
			write("P")
		}
	}
	// feeds are drained after every step, so that what a subscriber received is judged against the flags the
	// record had when it was pushed
	drain := func() {
		for i := 1; i <= nsub; i++ {
			lines = append(lines, fmt.Sprintf("feed s%d", i))
		}
	}
	// a subscription through the database API (uncached histories, one in four): after every step a fully privileged
	// interface writes a sentinel record the API may see, and the notifications are read up to the sentinel's
	apiSub, sentinel := false, ""
	if !anyCached && rng.Intn(4) == 0 {
		apiSub = true
		pfx := g.pick([]string{"-", "-", "a", "c/"})
		sentinel = map[string]string{"-": "zsent", "a": "a/zsent", "c/": "c/zsent"}[pfx]
		lines = append(lines, "if Z 1 1 n 0 0 0 0", "api sub as1 "+pfx)
		g.r.Count("op:subscribe:api")
	}
	drain0 := drain
	drain = func() {
		drain0()
		if apiSub {
			lines = append(lines, "put Z "+sentinel+" J 0,0,0,0,0,0 S=s:sent", "api feed as1 "+sentinel)
		}
	}
	n := 20 + rng.Intn(60)
	if delayed {
		// phase 1: the delayed-write interface subscribes, the privileged interface writes (feeds drained after every
		// write); phase 2: the delayed-write interface alone reads and writes — its pending writes are not in the
		// storage, so nobody else looks there meanwhile
		nsub = 1
		lines = append(lines, fmt.Sprintf("sub %s s1 %s -", writer, g.pick([]string{"-", "-", "a"})))
		g.r.Count("op:subscribe:unprivileged")
		for i := 0; i < 6+rng.Intn(10); i++ {
			privWrite()
			drain()
		}
		g.plainExpiry = true
		for i := 0; i < n; i++ {
			if rng.Intn(15) == 0 {
				// FlushCache hands the write set to PutMany, which refuses this interface: nothing may reach the storage
				lines = append(lines, "flush "+writer)
				g.r.Count("op:flush:unprivileged")
			} else {
				unpriv(writer)
			}
			drain()
		}
		g.plainExpiry = false
		g.r.Count("delayed-write-cache:" + writer)
	} else if anyCached {
		// phase 1: the privileged interface writes; phase 2: everybody else works, P only reads
		for i := 0; i < 6+rng.Intn(10); i++ {
			privWrite()
		}
		for i := 0; i < n; i++ {
			switch x := rng.Intn(10); {
			case x < 5:
				unpriv(writer)
			case x < 7:
				readOnly(actors[rng.Intn(3)].id)
			case x < 8:
				lines = append(lines, "api get "+g.pick(keys))
			case x < 9:
				lines = append(lines, fmt.Sprintf("api query %s -", g.pick([]string{"-", "a", "c/d/"})))
			default:
				lines = append(lines, "get P "+g.pick(keys))
			}
			drain()
		}
	} else {
		for i := 0; i < n; i++ {
			switch x := rng.Intn(10); {
			case x < 3:
				privWrite()
			case x < 7:
				unpriv(actors[rng.Intn(3)].id)
			case x < 9:
				apiOp()
			default:
				lines = append(lines, "get P "+g.pick(keys))
			}
			drain()
		}
	}
	for i := 1; i <= nsub; i++ {
		lines = append(lines, fmt.Sprintf("feed s%d", i))
	}
	lines = append(lines, "query P - -", "query A - -", "query B - -", "query C - -", "api query - -")
	kind := "hist:" + backend + sh
	if anyCached {
		kind += ":cached"
	}
	if delayed {
		kind += ":delayed-writes"
	}
	emit(hxlib.Case{Lines: lines, NonTrivial: true, Kind: kind})
}

func actorClass(a string) string {
	if a == "P" {
		return "privileged"
	}
	return "unprivileged"
}

// runtimeCase: an injected runtime database (runtime.Registry with a provider that keeps and logs what its Set
// receives), shadow delete off or on. The provider starts with records of all four flag combinations; then every
// actor (Local/Internal 00, 01, 10, the privileged one, the database API) reads AND writes: put, put-new, delete,
// expiry and flag setters, attribute insert, get-and-put-back, batch, purge, API create / update / insert / delete,
// subscriptions, provider pushes, and the provider changing a value on its own. After every step the provider's
// Set log and the feeds are drained, so that every Set is attributed to the step that caused it.
func (g *gen) runtimeCase(emit func(hxlib.Case), multi int) {
	rng := g.r.Rng
	sh := g.pick([]string{"0", "1"})
	lines := []string{"cfg h 0", "rtinit " + sh}
	if multi > 0 {
		lines[1] = fmt.Sprintf("rtinit %s m%d", sh, multi)
	}
	if rng.Intn(3) == 0 {
		lines = append(lines, "apivia ws")
		g.r.Count("api-transport:ws")
	} else {
		g.r.Count("api-transport:handle")
	}
	keys := []string{"p/a", "p/ab", "p/b", "p/c/d", "p/a/x"}
	prefixes := []string{"-", "p", "p/", "p/a", "p/c/"}
	subPrefixes := []string{"p/", "p/a", "p/c/"}
	if multi > 0 {
		// several providers ("p/a/", "p/b/", …) under the query prefixes "-", "p", "p/": one goroutine each in
		// Registry.Query; every provider holds a mix of protected and visible records
		keys, prefixes, subPrefixes = nil, []string{"-", "-", "p", "p/", "p/", "p/", "p/a/", "p/b/", "p/a/s"}, []string{"p/", "p/a/", "p/b/"}
		for k := 0; k < multi; k++ {
			l := string(rune('a' + k))
			keys = append(keys, "p/"+l+"/1", "p/"+l+"/2", "p/"+l+"/s/3")
			if k >= 2 {
				prefixes = append(prefixes, "p/"+l+"/")
			}
		}
		rng.Shuffle(len(keys), func(i, j int) { keys[i], keys[j] = keys[j], keys[i] })
	}
	for _, a := range append(actors, struct{ id, l, i string }{"P", "1", "1"}) {
		lines = append(lines, fmt.Sprintf("if %s %s %s n 0 0 0 0", a.id, a.l, a.i))
	}
	nsub := 0
	everRaw := map[string]bool{}
	lastForm := map[string]string{}
	step := func(l ...string) {
		lines = append(lines, l...)
		lines = append(lines, "rtsets")
		for i := 1; i <= nsub; i++ {
			lines = append(lines, fmt.Sprintf("feed s%d", i))
		}
	}
	note := func(k, form string) {
		lastForm[k] = form
		if form == "R" {
			everRaw[k] = true
		}
	}
	// all four flag combinations, plainly visible
	for i, fl := range []string{"0,0", "1,0", "0,1", "1,1"} {
		g.marker++
		form := g.pick([]string{"T", "J"})
		note(keys[i], form)
		step(fmt.Sprintf("rtput %s %s 0,0,0,0,%s %s", keys[i], form, fl, dbx.GenFields(rng, form, fmt.Sprintf("m%d", g.marker))))
	}
	for i := 0; i < rng.Intn(4)+2*multi; i++ {
		k, form, l := g.rec(keys, []string{"T", "J", "J", "R"})
		note(k, form)
		step("rtput " + l)
	}
	ids := []string{"A", "B", "C", "P"}
	n := 30 + rng.Intn(40)
	for i := 0; i < n; i++ {
		a := ids[rng.Intn(4)]
		k := g.pick(keys)
		cls := "op:runtime:"
		switch x := rng.Intn(100); {
		case x < 8:
			step("get " + a + " " + k)
			cls += "get"
		case x < 11:
			step("exists " + a + " " + k)
			cls += "exists"
		case x < 18:
			switch {
			case multi > 0 && rng.Intn(4) != 0:
				// the provider goroutines of Registry.Query under a seeded scheduler
				step(fmt.Sprintf("rtgq %s %s %d", a, g.pick(prefixes), rng.Intn(1000000)))
				cls += "query-gated-provider-goroutines"
			case multi > 0:
				step(fmt.Sprintf("rtfq %s %s %d", a, g.pick(prefixes), g.r.Budget(20, 200)))
				cls += "query-repeated-free-running"
			default:
				step(fmt.Sprintf("query %s %s -", a, g.pick(prefixes)))
				cls += "query"
			}
		case x < 34:
			k2, form, l := g.rec(keys, []string{"T", "J", "J", "R"})
			note(k2, form)
			verb := "put"
			if rng.Intn(3) == 0 {
				verb = "putnew"
			}
			step(verb + " " + a + " " + l)
			cls += verb
		case x < 38:
			step("reput " + a + " " + k)
			cls += "get-then-put-back"
		case x < 44:
			step("del " + a + " " + k)
			cls += "delete"
		case x < 49:
			step(fmt.Sprintf("setabs %s %s %s", a, k, g.pick([]string{"5", "@+3600", "0"})))
			cls += "setabs"
		case x < 52:
			step(fmt.Sprintf("setrel %s %s 3600", a, k))
			cls += "setrel"
		case x < 58:
			step(g.pick([]string{"mksecret", "mkcrown"}) + " " + a + " " + k)
			cls += "mkflag"
		case x < 63:
			if everRaw[k] || lastForm[k] == "" {
				continue
			}
			step(fmt.Sprintf("insert %s %s %s %s", a, k, g.pick([]string{"S", "I", "Q"}), g.pick([]string{"s:ins", "i:42"})))
			cls += "insert"
		case x < 66:
			if a == "P" {
				step("pmbegin P", "pmend P") // no Batcher behind an injected database: only the end of the batch is probed
			} else {
				_, _, l := g.rec(keys, []string{"J"})
				step("pmbegin "+a, "pmput "+a+" "+l, "pmend "+a)
			}
			cls += "putmany"
		case x < 69:
			step(fmt.Sprintf("purge %s %s -", a, g.pick(prefixes)))
			cls += "purge"
		case x < 72:
			if nsub < 3 {
				nsub++
				step(fmt.Sprintf("sub %s s%d %s -", a, nsub, g.pick([]string{"p/", "p/a", "p/c/"})))
			}
			cls += "subscribe"
		case x < 75:
			step("rtpush " + k)
			a, cls = "P", cls+"provider-push"
		case x < 79:
			k2, form, l := g.rec(keys, []string{"T", "J", "R"})
			note(k2, form)
			step("rtput " + l)
			a, cls = "P", cls+"provider-changes-value"
		case x < 83:
			step("api get " + k)
			a, cls = "api", cls+"get"
		case x < 86:
			step(fmt.Sprintf("api query %s -", g.pick(subPrefixes)))
			a, cls = "api", cls+"query"
		case x < 92:
			g.marker++
			note(k, "J")
			step(fmt.Sprintf("api %s %s %s", g.pick([]string{"create", "update"}), k, dbx.GenFields(rng, "T", fmt.Sprintf("m%d", g.marker))))
			a, cls = "api", cls+"put"
		case x < 96:
			step("api delete " + k)
			a, cls = "api", cls+"delete"
		default:
			if everRaw[k] || (lastForm[k] != "J" && lastForm[k] != "T") {
				continue
			}
			step(fmt.Sprintf("api insert %s %s %s", k, g.pick([]string{"S", "I"}), g.pick([]string{"s:apiins", "i:43"})))
			a, cls = "api", cls+"insert"
		}
		if a == "api" {
			g.r.Count(cls + ":api")
		} else {
			g.r.Count(cls + ":" + actorClass(a))
		}
	}
	step("query P p/ -", "query A p/ -", "query B p/ -", "query C p/ -", "api query p/ -")
	if multi > 0 {
		for _, a := range []string{"A", "B", "C"} {
			step(fmt.Sprintf("rtgq %s p/ %d", a, rng.Intn(1000000)), fmt.Sprintf("rtgq %s - %d", a, rng.Intn(1000000)))
		}
		emit(hxlib.Case{Lines: lines, NonTrivial: true, Kind: fmt.Sprintf("runtime-registry:%d-providers:%s", multi, sh)})
		return
	}
	emit(hxlib.Case{Lines: lines, NonTrivial: true, Kind: "runtime-registry:" + sh})
}

// parkCase: a running query against concurrent re-flagging. A privileged interface stores n records below `q/`
// (some already secret / crown jewel), a non-privileged interface starts a query over them and does not read; once the
// executor has filled the result buffer and is parked in its hand-over, the privileged interface marks a subset of
// the records secret / crown jewel / both and returns; then the consumer reads to the end (op `pq`, see dbx).
// Implementation only: which records are in flight is up to the scheduler.
func (g *gen) parkCase(emit func(hxlib.Case), backend string) {
	rng := g.r.Rng
	sh := g.pick([]string{"0", "1"})
	lines := []string{"cfg " + backend + " " + sh, "if P 1 1 n 0 0 0 0"}
	for _, a := range actors {
		lines = append(lines, fmt.Sprintf("if %s %s %s n 0 0 0 0", a.id, a.l, a.i))
	}
	n := []int{4, 12, 13, 25, 30, 40, 60}[rng.Intn(7)]
	var keys []string
	form := g.pick([]string{"T", "J", "mixed"})
	for k := 0; k < n; k++ {
		key := fmt.Sprintf("q/k%02d", k)
		keys = append(keys, key)
		g.marker++
		fl := "0,0"
		if rng.Intn(8) == 0 {
			fl = g.pick([]string{"1,0", "0,1", "1,1"})
		}
		f := form
		if f == "mixed" {
			f = g.pick([]string{"T", "J"})
		}
		lines = append(lines, fmt.Sprintf("put P %s %s 0,0,0,0,%s %s", key, f, fl, dbx.GenFields(rng, f, fmt.Sprintf("m%d", g.marker))))
	}
	g.marker++
	lines = append(lines, fmt.Sprintf("put P other/x J 0,0,0,0,0,0 S=s:m%d", g.marker))
	for round := 0; round < 1+rng.Intn(2); round++ {
		var sel []string
		all := rng.Intn(2) == 0
		for _, k := range keys {
			if all || rng.Intn(3) != 0 {
				sel = append(sel, k)
			}
		}
		if len(sel) == 0 {
			sel = keys[:1]
		}
		a := actors[rng.Intn(3)].id
		op := g.pick([]string{"mksecret", "mkcrown", "mkboth"})
		lines = append(lines, fmt.Sprintf("pq %s %s P %s %s", a, g.pick([]string{"q/", "q/", "q/k", "-", "q/k1"}), op, strings.Join(sel, ",")))
		g.r.Count("op:query-vs-reflag:" + op + ":" + backend)
	}
	lines = append(lines, "query P - -", "query A - -", "query B - -", "query C - -")
	emit(hxlib.Case{Lines: lines, NonTrivial: true, Kind: "query-vs-reflag:" + backend, NoModel: true})
}

// registryStress: four providers under one query prefix, each holding protected and visible records in alternation, and
// the same query repeated thousands of times free running — real parallelism between the provider goroutines of
// Registry.Query, for windows no stop point of the gated scheduler lies in (and for the race detector, thorough tier).
func (g *gen) registryStress(emit func(hxlib.Case)) {
	lines := []string{"cfg h 0", "rtinit 0 m4"}
	for _, a := range append(actors, struct{ id, l, i string }{"P", "1", "1"}) {
		lines = append(lines, fmt.Sprintf("if %s %s %s n 0 0 0 0", a.id, a.l, a.i))
	}
	flags := []string{"1,1", "0,0", "1,0", "0,0", "0,1", "0,0"}
	n := 0
	for _, x := range []string{"a", "b", "c", "d"} {
		for _, k := range []string{"1", "2", "s/3"} {
			g.marker++
			lines = append(lines, fmt.Sprintf("rtput p/%s/%s J 0,0,0,0,%s S=s:m%d;I=i:%d", x, k, flags[n%len(flags)], g.marker, n))
			n++
		}
		n++ // shift the pattern from provider to provider
	}
	reps := g.r.Budget(3000, 6000) // the thorough tier is built with -race (≈ 10 x slower); an op has 20 s
	lines = append(lines, fmt.Sprintf("rtfq A p/ %d", reps), fmt.Sprintf("rtfq B p/ %d", reps), fmt.Sprintf("rtfq C - %d", reps), "query P p/ -")
	emit(hxlib.Case{Lines: lines, NonTrivial: true, Kind: "runtime-registry:4-providers:free-running-stress"})
}

var delayedWalk = []string{"if P 1 1 n 0 0 0 0", "if D 0 0 d 0 0 0 0", "if E 0 1 e 0 0 0 0", "if F 1 0 d 0 0 0 0",
	"sub D s1 - -", "sub E s2 - -", "sub F s3 - -",
	"put P a/x J 0,0,0,0,1,0 S=s:m1;I=i:7", "put P a/y T 0,0,0,0,0,1 S=s:m2;I=i:7;F=f:0;B=b:0;N=o{X=i:0};L=a[]", "put P b J 0,0,0,0,1,1 S=s:m3", "put P abc J 0,0,0,0,0,0 S=s:m4",
	"feed s1", "feed s2", "feed s3",
	"get D a/x", "get E a/x", "get F a/x", "get D a/y", "get E a/y", "get F a/y", "get D b", "get E b", "get F b", "exists D b", "get D abc",
	"get D a/x", "get F a/x", "get E a/y", // second lookup: through the cache path
	"query D - -", "query E - -", "query F - -", "query D a [I:eq:7]",
	"del D a/x", "del F a/x", "del E a/y", "setabs D a/y @+3600", "setabs F b @+3600", "mksecret D a/y", "mkcrown E a/y", "mkcrown F a/x",
	"put D a/x J 0,0,0,0,0,0 S=s:m5", "putnew F b J 0,0,0,0,0,0 S=s:m6", "reput E a/y",
	"pmbegin D", "pmput D a/x J 0,0,0,0,0,0 S=s:m7", "pmend D", "flush D", "flush E", "flush F",
	"get P a/x", "get P a/y", "get P b", "get P abc", "query P - -",
	"put P a/x J 0,0,0,0,1,0 S=s:m8", "mksecret P abc", "del P b", "feed s1", "feed s2", "feed s3",
	"query D - -", "query E - -", "query F - -"}

func generate(r *hxlib.Run, emit0 func(hxlib.Case)) {
	emit := func(c hxlib.Case) {
		if !dbx.Hung() {
			emit0(c)
		}
	}
	g := &gen{r: r}
	// regression: every path once with a secret and a crown-jewel record
	base := []string{"if P 1 1 n 0 0 0 0", "if A 0 0 n 0 0 0 0", "if B 0 1 r 0 0 0 0", "if C 1 0 n 0 0 0 0",
		"put P a/x J 0,0,0,0,1,0 S=s:m1;I=i:7", "put P a/y T 0,0,0,0,0,1 S=s:m2;I=i:7;F=f:0;B=b:0;N=o{X=i:0};L=a[]", "put P b J 0,0,0,0,1,1 S=s:m3", "put P abc J 0,0,0,0,0,0 S=s:m4",
		"sub A s1 - -", "sub B s2 - -", "sub C s3 - -", "if Z 1 1 n 0 0 0 0", "api sub as1 -",
		"get A a/x", "get B a/x", "get C a/x", "get A a/y", "get B a/y", "get C a/y", "exists A b", "get A abc",
		"query A - -", "query B - -", "query C - -", "api get a/x", "api get abc", "api query - -",
		"put A a/x J 0,0,0,0,0,0 S=s:m5", "del A a/x", "setabs A a/x 5", "mkcrown B a/x", "insert A a/x S s:m6", "api update a/x S=s:m7", "api delete a/x", "api insert a/x S s:m8",
		"pmbegin A", "pmput A a/x J 0,0,0,0,0,0 S=s:m9", "pmend A", "purge A - -", "get P a/x", "get P a/y", "get P b",
		"put Z zsent J 0,0,0,0,0,0 S=s:sent", "api feed as1 zsent",
		"put P a/x J 0,0,0,0,1,0 S=s:m10", "mksecret P abc", "del P b", "feed s1", "feed s2", "feed s3",
		"put Z zsent J 0,0,0,0,0,0 S=s:sent", "api feed as1 zsent"}
	for _, b := range []string{"h", "b", "f", "g"} {
		for _, sh := range []string{"0", "1"} {
			emit(hxlib.Case{Lines: append([]string{"cfg " + b + " " + sh}, base...), NonTrivial: true, Kind: "regression"})
		}
		// non-privileged interfaces with a delayed write cache (large and small): every read path, subscriptions and
		// every refused write once (nothing they do here may succeed in writing, so nothing waits in a write set)
		walk := []string{"cfg " + b + " 0"}
		for _, l := range delayedWalk {
			// a flush with an empty write set returns at once on every backend; should one of these interfaces have got a
			// write through, PutMany on a backend without Batcher may block (notes/c02.md, "Partial") — the walk is to
			// be judged by what was read and written, so fstree and badger leave the flush out
			if strings.HasPrefix(l, "flush ") && (b == "f" || b == "g") {
				continue
			}
			walk = append(walk, l)
		}
		emit(hxlib.Case{Lines: walk, NonTrivial: true, Kind: "regression:delayed-write-options"})
		// the same walk with the API operations over a real websocket connection
		emit(hxlib.Case{Lines: append([]string{"cfg " + b + " 0", "apivia ws"}, base...), NonTrivial: true, Kind: "regression:websocket-api"})
	}
	g.registryStress(emit)
	// the thorough tier is built with -race (the multi-provider registry queries race for real): ≈ 0.5 s per round there
	n := r.Budget(400, 1500)
	for i := 0; i < n; i++ {
		for _, backend := range []string{"h", "b", "f", "g"} {
			g.history(emit, backend, r.Rng.Intn(2) == 0)
			if i%10 == 0 {
				g.parkCase(emit, backend)
			}
		}
		if i%4 == 0 {
			// alternately one provider, and 2-4 providers under one query prefix
			if i%8 == 0 {
				g.runtimeCase(emit, 0)
			} else {
				g.runtimeCase(emit, 2+r.Rng.Intn(3))
			}
		}
	}
}

// ---- monitor -----------------------------------------------------------------------------------------

type priv struct{ l, i bool }

var (
	outcomes    = map[string]int{}
	outcomeLock sync.Mutex
)

// dbxParseList parses `ok <n> <tok>…`.
func dbxParseList(out string) (int, []string, string, bool) { return dbx.ParseListOut(out) }

func markersIn(s string) []string {
	var out []string
	for i := 0; i+1 < len(s); i++ {
		if s[i] == 'm' && s[i+1] >= '0' && s[i+1] <= '9' && (i == 0 || s[i-1] == ':' || s[i-1] == 'w') {
			j := i + 1
			for j < len(s) && s[j] >= '0' && s[j] <= '9' {
				j++
			}
			out = append(out, s[i:j])
			i = j
		}
	}
	return out
}

// monitor: (1) no output line of a non-privileged actor contains the marker of a record version that actor is not
// permitted to see; (2) the reference map of C02 with the permission rules (denied / exists / no write-through).
func monitor(c hxlib.Case, outs []string) (vs []hxlib.Violation) {
	o := dbx.NewOracle()
	privs := map[string]priv{"@api": {false, false}}
	subPriv := map[string]priv{}
	type ver struct{ secret, crown bool }
	flags := map[string]*ver{}  // marker -> flags of that record version
	holder := map[string]string{} // key -> marker of the version stored under it
	ms, mj := map[string]bool{}, map[string]bool{}
	backend := "?"
	// a non-privileged interface with a delayed write cache cannot flush: what it writes waits in its write set and is
	// answered from its cache, queries read the storage. The reference map has no notion of "written, not stored
	// yet", so it does not judge the completeness of query results in such a case (the marker rule judges them, the
	// compiled model — which has the write set — is compared line by line).
	pendingWrites := false
	add := func(i int, sig, what string) {
		vs = append(vs, hxlib.Violation{Sig: sig, What: fmt.Sprintf("op %d %q: %s", i, c.Lines[i], what), Lines: c.Lines[:i+1], Output: outs[:i+1]})
	}
	o.Step(-1, "if @api 0 0 n 0 0 0 0", "ok")
	// injected runtime database: what the provider holds per key (flags, expiry, deletion stamp), from the
	// provider's own changes (rtput) and from the log of its Set calls (rtsets), and the step a Set belongs to
	type pmeta struct {
		secret, crown bool
		exp, del      string
	}
	rtProv := map[string]*pmeta{}
	parsePMeta := func(meta string) *pmeta {
		m := strings.Split(meta, ",")
		if len(m) != 6 {
			return nil
		}
		return &pmeta{secret: m[4] == "1", crown: m[5] == "1", exp: m[2], del: m[3]}
	}
	var lastOp struct {
		valid bool
		p     priv
		name  string
		line  string
	}
	learn := func(actor string, f []string, key, form, meta, payload string) {
		mk := markersIn(payload)
		if len(mk) == 0 {
			delete(holder, key)
			return
		}
		m := strings.Split(meta, ",")
		v := &ver{secret: len(m) == 6 && m[4] == "1" || ms[actor], crown: len(m) == 6 && m[5] == "1" || mj[actor]}
		flags[mk[0]] = v
		holder[key] = mk[0]
	}
	for i, l := range c.Lines {
		f := strings.Fields(l)
		out := outs[i]
		if strings.HasPrefix(out, "PANIC") || out == "HANG" {
			add(i, "C03:"+strings.Fields(out)[0]+":"+f[0], out)
			continue
		}
		var actor string
		var p priv
		check := false
		switch f[0] {
		case "cfg":
			backend = f[1]
		case "rtinit":
			backend = "runtime"
		case "if":
			privs[f[1]] = priv{f[2] == "1", f[3] == "1"}
			ms[f[1]], mj[f[1]] = f[5] == "1", f[6] == "1"
			if (f[4] == "d" || f[4] == "e") && !(f[2] == "1" && f[3] == "1") {
				pendingWrites = true
			}
		case "sub":
			subPriv[f[2]] = privs[f[1]]
		case "feed":
			p, check, actor = subPriv[f[1]], true, "feed"
		case "api":
			p, check, actor = priv{false, false}, true, "api"
		case "pq":
			// "never … listed for … an interface that is not internal / not local … queries on every backend", with the
			// query still running while the records are re-flagged: a record whose hand-over check comes after the
			// re-flag has returned must not be handed over. Observable: the executor can have checked at most
			// cap (in the buffer) + 1 (blocked in the send) records before the re-flag began, and everything it checks
			// later it checks against the new flags; so from the (cap+2)-th arrival on no record may itself carry a
			// flag the querying interface is not permitted to see. (A storage that answers from a snapshot hands out
			// the unflagged versions of the snapshot: those are not records marked secret.)
			if pp, ok := privs[f[1]]; ok && len(f) == 6 {
				pq, ok := dbx.ParsePQ(out)
				if !ok {
					if out != "badquery" {
						add(i, "C03:malformed-output:pq", out)
					}
					break
				}
				capN, nrec := pq.Cap, len(pq.Arrived)
				outcomeLock.Lock()
				outcomes[fmt.Sprintf("pq:parked=%v:%s", pq.Parked, backend)]++
				if nrec > capN+1 {
					outcomes["pq:arrivals-after-the-window:"+backend] += nrec - capN - 1
				}
				outcomeLock.Unlock()
				if pq.Reflag != "ok" {
					add(i, "C03:privileged-reflag-failed:"+backend, out)
				}
				late := 0
				for k, t := range pq.Arrived {
					pt := strings.SplitN(t, "~", 3)
					m := []string{}
					if len(pt) == 3 {
						m = strings.Split(pt[1], ",")
					}
					if len(m) != 6 {
						add(i, "C03:malformed-output:pq", t)
						break
					}
					if k >= capN+1 && ((m[4] == "1" && !pp.i) || (m[5] == "1" && !pp.l)) {
						late++
						if late == 1 {
							add(i, "C03:listed-after-reflag:"+backend, fmt.Sprintf("arrival %d of %d (buffer capacity %d) of a query by an interface with local=%v internal=%v, read after the privileged re-flag had returned, is record %s carrying secret=%s crownjewel=%s: its hand-over check cannot have preceded the re-flag",
								k+1, nrec, capN, pp.l, pp.i, pt[0], m[4], m[5]))
						}
					}
				}
			}
		case "rtput":
			learn("", f, f[1], f[2], f[3], f[4])
			if out == "ok" {
				rtProv[f[1]] = parsePMeta(f[3])
			}
		case "rtpush":
		case "rtsets":
			// "never … modified, re-flagged, deleted … through an interface that is not internal / not local … on
			// injected runtime databases": no Set reaches the provider for a key whose current record is visible
			// and not permitted for the actor of the step that caused the Set
			_, toks, _, ok := dbxParseList(out)
			if !ok {
				add(i, "C03:malformed-output:rtsets", out)
				break
			}
			for _, t := range toks {
				pt := strings.SplitN(t, "~", 3)
				if len(pt) != 3 {
					add(i, "C03:malformed-output:rtsets", t)
					continue
				}
				old := rtProv[pt[0]]
				if lastOp.valid && !(lastOp.p.l && lastOp.p.i) && old != nil {
					deleted := old.del != "0" && !strings.HasPrefix(old.del, "-")
					ec := dbx.TsClass(old.exp)
					visible := !deleted && (ec == "none" || ec == "future")
					if visible && ((old.secret && !lastOp.p.i) || (old.crown && !lastOp.p.l)) {
						add(i, "C03:runtime-set-on-non-permitted-record:"+lastOp.name, fmt.Sprintf("%q by an actor with local=%v internal=%v made the provider's Set receive %s while the provider's record under %s was visible and stored as secret=%v crownjewel=%v",
							lastOp.line, lastOp.p.l, lastOp.p.i, t, pt[0], old.secret, old.crown))
					}
				}
				if nm := parsePMeta(pt[1]); nm != nil {
					rtProv[pt[0]] = nm
				}
			}
			lastOp.valid = false
		default:
			if len(f) > 1 {
				if pp, ok := privs[f[1]]; ok {
					p, check, actor = pp, true, f[1]
				}
			}
		}
		if check && f[0] != "feed" {
			lastOp.valid, lastOp.p, lastOp.name, lastOp.line = true, p, f[0], l
			if f[0] == "api" {
				lastOp.name = "api-" + f[1]
			}
		}
		if check && !(p.l && p.i) {
			outcomeLock.Lock()
			cls := strings.Fields(out)[0]
			if strings.HasPrefix(cls, "err:") {
				cls = "other-error"
			}
			outcomes[f[0]+":"+cls]++
			outcomeLock.Unlock()
			for _, mk := range markersIn(out) {
				v := flags[mk]
				if v == nil {
					continue
				}
				if (v.secret && !p.i) || (v.crown && !p.l) {
					add(i, fmt.Sprintf("C03:leak:%s:%s", f[0], backend), fmt.Sprintf("output of a non-privileged actor (%s local=%v internal=%v) contains marker %s of a record stored as secret=%v crownjewel=%v: %s", actor, p.l, p.i, mk, v.secret, v.crown, out))
				}
			}
		}
		// follow the writes (who holds which marker, with which flags)
		switch f[0] {
		case "put", "putnew":
			if out == "ok" {
				learn(f[1], f, f[2], f[3], f[4], f[5])
			}
		case "pmput":
			if out == "ok" {
				learn(f[1], f, f[2], f[3], f[4], f[5])
			}
		case "pq":
			if len(f) == 6 && strings.Contains(out, " reflag=ok ") {
				for _, k := range strings.Split(f[5], ",") {
					if f[4] != "mkcrown" {
						if holder[k] != "" {
							flags[holder[k]].secret = true
						}
						o.Step(i, "mksecret "+f[3]+" "+k, "ok")
					}
					if f[4] != "mksecret" {
						if holder[k] != "" {
							flags[holder[k]].crown = true
						}
						o.Step(i, "mkcrown "+f[3]+" "+k, "ok")
					}
				}
			}
		case "mksecret":
			if out == "ok" && holder[f[2]] != "" {
				flags[holder[f[2]]].secret = true
			}
		case "mkcrown":
			if out == "ok" && holder[f[2]] != "" {
				flags[holder[f[2]]].crown = true
			}
		case "insert":
			if out == "ok" && strings.HasPrefix(f[4], "s:") && holder[f[2]] != "" && f[3] == "S" {
				// the S field (marker) was overwritten: the version keeps its flags under the new value
				delete(holder, f[2])
			}
		case "api":
			switch f[1] {
			case "create", "update":
				if out == "ok" {
					learn("@api", f, f[2], "J", "0,0,0,0,0,0", f[3])
				}
			case "insert":
				if out == "ok" && f[3] == "S" {
					delete(holder, f[2])
				}
			}
		}
		// reference map (visibility, denied, no write-through)
		if backend == "runtime" {
			continue
		}
		switch f[0] {
		case "api":
			switch f[1] {
			case "get":
				eo := "false"
				if strings.HasPrefix(out, "ok ") || out == "denied" || out == "err-format" {
					eo = "true"
				}
				if out != "notfound" && eo == "false" {
					add(i, "C03:api-unexpected-reply:get", out)
				}
				o.Step(i, "exists @api "+f[2], eo)
			case "create":
				o.Step(i, "putnew @api "+f[2]+" J 0,0,0,0,0,0 "+f[3], out)
			case "update":
				o.Step(i, "put @api "+f[2]+" J 0,0,0,0,0,0 "+f[3], out)
			case "delete":
				o.Step(i, "del @api "+f[2], out)
			case "insert":
				o.Step(i, "insert @api "+f[2]+" "+f[3]+" "+f[4], out)
			}
		case "rtput", "rtinit", "pq":
		default:
			if pendingWrites && (f[0] == "query" || f[0] == "purge") {
				break
			}
			o.Step(i, l, out)
		}
	}
	seen := map[string]bool{}
	for _, v := range o.V {
		if seen[v.Sig] || v.Idx < 0 {
			continue
		}
		seen[v.Sig] = true
		add(v.Idx, v.Sig, v.What)
	}
	return vs
}

func main() {
	defer dbx.Cleanup()
	api.VerifSetSink(apiSink)
	hxlib.Main(&hxlib.Harness{
		Prop:     "C03",
		Rule: "a case is one history on one backend (hashmap/bbolt/fstree/badger x shadow-delete) or on an injected runtime database (runtime.Registry whose value provider keeps and logs every record its Set receives, starts with records of all four flag combinations and also changes and pushes values on its own; all actors read and write there: put, put-new, delete, expiry and flag setters, attribute insert, get-and-put-back, batch, purge, API create/update/insert/delete; the Set log and the feeds are drained after every step and the monitor checks that no Set reaches the provider for a key whose current record is visible and not permitted for the actor of that step): a privileged interface (sometimes with AlwaysMakeSecret / AlwaysMakeCrownjewel) writes records with all four flag combinations, each carrying a unique marker string; interfaces with Local/Internal = 00, 01, 10 (one of them possibly with a read cache or with a delayed write cache — Options.DelayCachedWrites set without both privileges, so it cannot flush — then used exclusively) and the database API (NewInterface(nil)) get, test existence, query, put, put-new, delete, set expiry, re-flag, insert attributes, batch-write, purge and subscribe; feeds are drained after every step. Outputs are compared with the compiled Lean model line by line; the monitor checks that no output of a non-privileged actor contains the marker of a record version that actor may not see, and replays the case on a reference map with the permission rules (denied / exists-only / no write-through). Regression cases walk every path once per backend. Parked-query cases (every 10th round, per backend, implementation only): 4-60 records below one prefix, some already protected; a non-privileged query whose consumer does not read until the result buffer is full (or the executor is done), then the privileged interface marks a subset secret / crown jewel / both and returns, then the consumer reads on; records are rendered as they arrive: no marker of a record protected before the query began, and from the (buffer capacity + 2)-th arrival on no record that itself carries a flag the interface may not see. Distinct by the hash of the lines.",
		Extra: func(*hxlib.Run) map[string]any {
			return map[string]any{"unprivileged_outcomes": outcomes, "api_operations_per_constructor": transports, "registry_query_scheduler": gateStats}
		},
		Generate: generate,
		NewExec: func(*hxlib.Run) hxlib.Exec {
			x := &ext{}
			return dbx.New(x.do)
		},
		Monitor: monitor,
		DisSig: func(line, impl, model string) string {
			return "corr:" + strings.Fields(line)[0]
		},
	})
}
