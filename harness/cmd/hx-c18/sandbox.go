package main

// The sandbox that surrounds the component's root, and the file-system oracle:
//   - a before/after snapshot (names, types, modes, sizes, content hashes) of everything in the
//     sandbox that is NOT below the root, and
//   - an inotify watch on every directory outside the root (open / read / create / modify / attrib /
//     delete / move), drained synchronously after the operation — this also sees transient files and reads.
// The oracle only looks outside the root; the root directory entry itself belongs to the component.

import (
	"crypto/sha1"
	"encoding/hex"
	"fmt"
	"os"
	"path/filepath"
	"sort"
	"strings"
	"syscall"
	"unsafe"
)

// SB is the virtual name of the sandbox top in op lines and outputs. The virtual world is the case directory (the
// oracle's scope) taken as "/": the same 8 levels p1..p8 above the sandbox top exist on both sides, so a name that
// climbs above the top and comes down again (through "sb") means the same place for the model and for the real code.
const SB = vscopeFirst + "/p2/p3/p4/p5/p6/p7/p8/sb"
const vscopeFirst = "/p1"

type sandbox struct {
	scope string // real directory the oracle watches: the case directory, several levels above top, so that
	// even a climb of depth+3 parent references from the root stays inside the observed (and disposable) area
	top     string // real path of the sandbox top (clean, symlink free); "/SBX7" in op lines and outputs
	rootRel string // root relative to top, e.g. "w/a/root"
	root    string // real path of the root
	snap    map[string]string
	outside map[string]bool // real path -> is a directory, of everything outside the root as of the latest snapshot
	inoFd   int
	wds     map[int32]string // watch descriptor -> real dir
	inoOK   bool
}

func (s *sandbox) virt(p string) string {
	if p == s.scope {
		return "/"
	}
	if strings.HasPrefix(p, s.scope+"/") {
		// (names built from the root's absolute path carry the real root path: shown as the virtual one)
		return strings.ReplaceAll(p[len(s.scope):], s.root[1:], s.root[len(s.scope)+1:])
	}
	return p
}

func (s *sandbox) real(p string) string {
	if p == vscopeFirst || strings.HasPrefix(p, vscopeFirst+"/") {
		return s.scope + p
	}
	return p
}

func must(err error) {
	if err != nil {
		panic("sandbox: " + err.Error())
	}
}

// build creates the furniture around the root: a note in every ancestor, siblings that extend the
// root's name, a sibling whose name is the root's in another letter case, an unrelated sibling, a file at the top.  plant(dir, kind) lets the component put a
// well-formed decoy (a record / a resource file) into the sibling directories.
func newSandbox(scope, top, rootRel string, decoy func(dir string)) *sandbox {
	s := &sandbox{scope: scope, top: top, rootRel: rootRel, root: filepath.Join(top, rootRel), inoFd: -1}
	must(os.MkdirAll(filepath.Dir(s.root), 0o755))
	must(os.WriteFile(filepath.Join(top, "top.txt"), []byte("OUTSIDE top\n"), 0o644))
	dir := top
	for _, seg := range strings.Split(filepath.Dir(rootRel), "/") {
		if seg == "." {
			break
		}
		dir = filepath.Join(dir, seg)
		must(os.WriteFile(filepath.Join(dir, "note.txt"), []byte("OUTSIDE "+seg+"\n"), 0o644))
	}
	parent := filepath.Dir(s.root)
	name := filepath.Base(s.root)
	// (caseVariant(name): a sibling that differs from the root in letter case only — a different directory here, the same
	// name for any comparison that folds case)
	for _, sib := range []string{name + "-other", name + "x", "other", caseVariant(name)} {
		d := filepath.Join(parent, sib)
		must(os.MkdirAll(filepath.Join(d, "sub"), 0o755))
		must(os.WriteFile(filepath.Join(d, "plain.txt"), []byte("OUTSIDE "+sib+"\n"), 0o644))
		if decoy != nil {
			decoy(d)
		}
	}
	// a foreign tree whose path embeds the root's own absolute path: <top>/mirror/<absolute path of the root>/ —
	// for names built from the root's path ("../../mirror/<abs root>/victim": the compiled path CONTAINS the root path)
	m := filepath.Join(top, "mirror", s.root[1:])
	must(os.MkdirAll(filepath.Join(m, "sub"), 0o755))
	must(os.WriteFile(filepath.Join(m, "plain.txt"), []byte("OUTSIDE mirror\n"), 0o644))
	if decoy != nil {
		decoy(m)
	}
	// a sibling that holds nothing but a well-formed decoy (a walk that gets there delivers it)
	d := filepath.Join(parent, name+"-old")
	must(os.MkdirAll(d, 0o755))
	if decoy != nil {
		decoy(d)
	} else {
		must(os.WriteFile(filepath.Join(d, "plain.txt"), []byte("OUTSIDE "+name+"-old\n"), 0o644))
	}
	return s
}

func (s *sandbox) underRoot(p string) bool {
	return p == s.root || strings.HasPrefix(p, s.root+"/")
}

// snapshot of everything outside the root.
func (s *sandbox) snapshot() map[string]string {
	m := map[string]string{}
	real := map[string]bool{}
	s.outside = real
	_ = filepath.Walk(s.scope, func(p string, info os.FileInfo, err error) error {
		if err != nil {
			m[s.virt(p)] = "error:" + err.Error()
			return nil
		}
		if p != s.root {
			real[p] = info.IsDir()
		}
		if p == s.root {
			if !info.IsDir() {
				return nil // (SkipDir on a file would skip the rest of the parent directory)
			}
			return filepath.SkipDir // the root entry and everything below belongs to the component
		}
		switch {
		case info.IsDir():
			m[s.virt(p)] = fmt.Sprintf("dir:%o", info.Mode().Perm())
		case info.Mode()&os.ModeSymlink != 0:
			t, _ := os.Readlink(p)
			m[s.virt(p)] = "link:" + t
		default:
			b, _ := os.ReadFile(p)
			h := sha1.Sum(b)
			m[s.virt(p)] = fmt.Sprintf("file:%o:%d:%s", info.Mode().Perm(), len(b), hex.EncodeToString(h[:6]))
		}
		return nil
	})
	// the root's position must not be taken by something that is not a directory reachable as before
	return m
}

func diffSnap(a, b map[string]string) []string {
	var out []string
	for k, v := range a {
		w, ok := b[k]
		switch {
		case !ok:
			out = append(out, "deleted:"+k)
		case v != w:
			out = append(out, "changed:"+k)
		}
	}
	for k := range b {
		if _, ok := a[k]; !ok {
			out = append(out, "created:"+k)
		}
	}
	sort.Strings(out)
	return out
}

const inoMask = syscall.IN_ACCESS | syscall.IN_MODIFY | syscall.IN_ATTRIB | syscall.IN_CLOSE_WRITE | syscall.IN_OPEN |
	syscall.IN_MOVED_FROM | syscall.IN_MOVED_TO | syscall.IN_CREATE | syscall.IN_DELETE | syscall.IN_DELETE_SELF | syscall.IN_MOVE_SELF

// watch puts an inotify watch on every directory outside the root.
func (s *sandbox) watch() {
	s.unwatch()
	fd, err := syscall.InotifyInit1(syscall.IN_NONBLOCK | syscall.IN_CLOEXEC)
	if err != nil {
		s.inoOK = false
		return
	}
	s.inoFd, s.wds, s.inoOK = fd, map[int32]string{}, true
	_ = filepath.Walk(s.scope, func(p string, info os.FileInfo, err error) error {
		if err != nil || !info.IsDir() {
			return nil // (also the root, if a file stands in its place)
		}
		if p == s.root {
			return filepath.SkipDir
		}
		wd, err := syscall.InotifyAddWatch(fd, p, inoMask)
		if err != nil {
			s.inoOK = false
			return nil
		}
		s.wds[int32(wd)] = p
		return nil
	})
	s.drain() // the walk above opened the directories
}

func (s *sandbox) unwatch() {
	if s.inoFd >= 0 {
		syscall.Close(s.inoFd)
		s.inoFd = -1
	}
}

var evNames = []struct {
	bit  uint32
	name string
}{
	{syscall.IN_OPEN, "opened"}, {syscall.IN_ACCESS, "read"}, {syscall.IN_MODIFY, "written"}, {syscall.IN_CLOSE_WRITE, "written"},
	{syscall.IN_ATTRIB, "attrib"}, {syscall.IN_CREATE, "created"}, {syscall.IN_DELETE, "deleted"}, {syscall.IN_DELETE_SELF, "deleted"},
	{syscall.IN_MOVED_FROM, "moved"}, {syscall.IN_MOVED_TO, "moved"}, {syscall.IN_MOVE_SELF, "moved"},
}

// drain returns the accesses outside the root seen since the last drain, canonical and sorted.
func (s *sandbox) drain() []string {
	if s.inoFd < 0 {
		return nil
	}
	set := map[string]struct{}{}
	buf := make([]byte, 1<<16)
	for {
		n, err := syscall.Read(s.inoFd, buf)
		if n <= 0 || err != nil {
			break
		}
		for off := 0; off+syscall.SizeofInotifyEvent <= n; {
			ev := (*syscall.InotifyEvent)(unsafe.Pointer(&buf[off]))
			name := ""
			if ev.Len > 0 {
				b := buf[off+syscall.SizeofInotifyEvent : off+syscall.SizeofInotifyEvent+int(ev.Len)]
				for i, c := range b {
					if c == 0 {
						b = b[:i]
						break
					}
				}
				name = string(b)
			}
			off += syscall.SizeofInotifyEvent + int(ev.Len)
			if ev.Mask&syscall.IN_Q_OVERFLOW != 0 {
				set["overflow:"+SB] = struct{}{}
				continue
			}
			dir, ok := s.wds[ev.Wd]
			if !ok {
				continue
			}
			p := dir
			if name != "" {
				p = filepath.Join(dir, name)
			}
			if s.underRoot(p) {
				continue // an event about the root directory entry itself, reported to the parent's watch
			}
			for _, e := range evNames {
				if ev.Mask&e.bit != 0 {
					set[e.name+":"+s.virt(p)] = struct{}{}
				}
			}
		}
	}
	out := make([]string, 0, len(set))
	for k := range set {
		out = append(out, k)
	}
	sort.Strings(out)
	return out
}

// observe runs f and reports every access / change outside the root ("none" if there was none).
func (s *sandbox) observe(f func()) string {
	if s.snap == nil {
		s.snap = s.snapshot()
		s.watch()
	}
	s.drain()
	if s.inoOK {
		count("oracle:snapshot+inotify")
	} else {
		count("oracle:snapshot-only(inotify unavailable)")
	}
	f()
	evs := s.drain()
	after := s.snapshot()
	s.drain() // the snapshot itself reads the outside files
	d := diffSnap(s.snap, after)
	all := append(d, evs...)
	if len(all) == 0 {
		return "none"
	}
	s.snap = after
	if len(d) > 0 {
		s.watch() // directories may have appeared / vanished
	}
	// dedupe, cap
	seen := map[string]bool{}
	var out []string
	for _, x := range all {
		if !seen[x] {
			seen[x] = true
			out = append(out, x)
		}
	}
	if len(out) > 8 {
		out = append(out[:8], fmt.Sprintf("+%d", len(out)-8))
	}
	return strings.Join(out, ";")
}
