package main

import (
	"strings"

	"github.com/safing/portbase/api"
)

// bridge runs the real callAPI (api/api_bridge.go) through the verif-only helper api.VerifBridgeCall.
func bridge(p string) string {
	seen, err := api.VerifBridgeCall(p)
	if err != nil {
		if strings.Contains(err.Error(), "violates scope") {
			return "rej scope"
		}
		return "acc urlerr"
	}
	return "acc url " + hx(seen)
}
