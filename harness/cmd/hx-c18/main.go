// hx-c18: correspondence harness and property monitor for C18
// (externally supplied names never reach files outside the component's root).
//
// Line protocol (all names hex encoded, "-" = empty string, lists comma separated, "_" = empty list; the token "@R"
// between hex pieces of a name stands for the absolute path of the case's root without its leading separator —
// the real one for the implementation, the virtual one for the model and the monitor):
//
//	sb <comp> <rootRel> <variant> <cwdRel>   first line of every case: component (fst|ds|upd|lib), position of the root
//	                                         inside the sandbox, variant (plain|slash|noexist; upd also nested:
//	                                         the storage dir is a child node of a DirStructure rooted at its parent), working directory
//	put|get|gmt|del|qry <key>                fstree Put / Get / GetMeta / Delete / Query(prefix)
//	fss <state>                              fstree: what stands at the root's place from now on, behind the back of the open database
//	                                         (plain|rmroot|rootfile|rmd|dfile|extra|bad|empty)
//	ens <r|c|g> <path> | enr <r|c|g> <rel> | end <r|c|g> <names>   DirStructure.EnsureAbsPath / EnsureRelPath / EnsureRelDir
//	                                         called on the root structure, its child or its grandchild
//	chd <h> <name> <perm> | hens <h> | hena <h> <path> | henr <h> <rel> | hend <h> <names>
//	                                         comp dsh (one DirStructure tree per case, calls accumulate): ChildDir / Ensure /
//	                                         EnsureAbsPath / EnsureRelPath / EnsureRelDir on node <h> (0 = root, children in order of registration)
//	unz <entries>                            UnpackResources on a zip archive with these entries, in this order: "<name>" (a name ending
//	                                         in "/" is a directory entry) or "<name>:d" (directory by its attributes, whatever the name)
//	scan <root>                              ResourceRegistry.ScanStorage(root)
//	clean|dir|base <p>, join|rel <a> <b>     the stdlib functions the model re-implements
//	bridge <p>                               api bridge scope check (path.Join + prefix), via api.VerifBridgeScope
//
// Output: "<decision> outside=<none | accesses and changes outside the root>".
package main

import (
	"archive/zip"
	"bytes"
	"fmt"
	"os"
	"path"
	"path/filepath"
	"sort"
	"strings"
	"sync/atomic"
	"time"

	"github.com/safing/portbase/database/query"
	"github.com/safing/portbase/database/record"
	"github.com/safing/portbase/database/storage"
	"github.com/safing/portbase/database/storage/fstree"
	"github.com/safing/portbase/formats/dsd"
	"github.com/safing/portbase/log"
	"github.com/safing/portbase/updater"
	"github.com/safing/portbase/utils"

	"verifharness/hxlib"
)

// ---- process-wide scratch -------------------------------------------------------------------------

var (
	scratchBase string
	caseNo      atomic.Int64
	startCwd    string
)

func initScratch() {
	if scratchBase != "" {
		return
	}
	startCwd, _ = os.Getwd()
	base := os.Getenv("VERIF_C18_SCRATCH")
	for _, a := range os.Args[1:] {
		if strings.TrimLeft(a, "-") == "replay" || strings.HasPrefix(strings.TrimLeft(a, "-"), "replay=") {
			// hxlib leaves a replay through os.Exit: use the directory ./check removes afterwards
			if d := os.Getenv("VERIF_SCRATCH_DIR"); d != "" && base == "" {
				base = d
			}
		}
	}
	if base == "" {
		base = "/dev/shm"
		if st, err := os.Stat(base); err != nil || !st.IsDir() {
			base = os.Getenv("VERIF_SCRATCH_DIR")
			if base == "" {
				base = "/var/tmp"
			}
		}
	}
	// leftovers of killed runs / replays (older than 3 hours)
	if ents, err := os.ReadDir(base); err == nil {
		for _, en := range ents {
			if strings.HasPrefix(en.Name(), "verif-c18.") {
				if info, err := en.Info(); err == nil && time.Since(info.ModTime()) > 3*time.Hour {
					_ = os.RemoveAll(filepath.Join(base, en.Name()))
				}
			}
		}
	}
	// the updater logs through portbase/log, which parks one goroutine per line until log.Start(): only keep critical lines
	log.SetLogLevel(log.CriticalLevel)
	d, err := os.MkdirTemp(base, "verif-c18.")
	must(err)
	d, err = filepath.EvalSymlinks(d)
	must(err)
	scratchBase = d
	// renameio probes os.TempDir() for every write (not derived from the supplied name): keep it apart
	// from the watched sandbox, on the same mount.
	must(os.MkdirAll(filepath.Join(d, "tmpdir"), 0o755))
	os.Setenv("TMPDIR", filepath.Join(d, "tmpdir"))
}

func cleanupScratch() {
	if scratchBase != "" {
		if startCwd != "" {
			_ = os.Chdir(startCwd)
		}
		_ = os.RemoveAll(scratchBase)
		scratchBase = ""
	}
}

// ---- executor --------------------------------------------------------------------------------------

type exec struct {
	r       *hxlib.Run
	caseDir string
	comp    string
	variant string
	rootRel string
	cwdRel  string
	sb      *sandbox
	gen     int // sandbox generation (a violated sandbox is rebuilt)

	fst            storage.Interface
	ds, dsC, dsG   *utils.DirStructure
	fsState        string                // comp fst: what stands at the root's place while the database is open (fss line)
	handles        []*utils.DirStructure // comp dsh: node 0 = NewDirStructure(root), then every child in order of registration
	chdLog         []dshCall             // comp dsh: the ChildDir calls of this case (replayed when the sandbox is rebuilt)
	rootGiven      string
	nonce          int
	outsideDirtied bool
}

type dshCall struct {
	h    int
	name string
	perm os.FileMode
}

func newExec(r *hxlib.Run) hxlib.Exec {
	initScratch()
	return &exec{r: r}
}

func (e *exec) Close() error {
	if e.sb != nil {
		e.sb.unwatch()
	}
	if e.caseDir != "" {
		_ = os.Chdir(scratchBase)
		_ = os.RemoveAll(e.caseDir)
	}
	return nil
}

// rootTok marks, inside a generated name, the place where the absolute path of the root (without the leading
// separator) is to be embedded; on op lines it is written "@R" between hex pieces.
const rootTok = "\x00@R\x00"

func hx(s string) string {
	if !strings.Contains(s, rootTok) {
		return hxlib.Hex([]byte(s))
	}
	parts := strings.Split(s, rootTok)
	for i, p := range parts {
		parts[i] = hxlib.Hex([]byte(p))
	}
	return strings.Join(parts, "@R")
}

// unhxR decodes a name; "@R" becomes rootNoSlash.
func unhxR(s, rootNoSlash string) (string, bool) {
	if s == "-" {
		return "", true
	}
	if !strings.Contains(s, "@R") {
		return unhx(s)
	}
	parts := strings.Split(s, "@R")
	for i, p := range parts {
		if p == "-" {
			return "", false
		}
		x, ok := unhx(p)
		if !ok {
			return "", false
		}
		parts[i] = x
	}
	return strings.Join(parts, rootNoSlash), true
}

func unhxListR(s, rootNoSlash string) ([]string, bool) {
	if s == "_" {
		return nil, true
	}
	var out []string
	for _, p := range strings.Split(s, ",") {
		x, ok := unhxR(p, rootNoSlash)
		if !ok {
			return nil, false
		}
		out = append(out, x)
	}
	return out, true
}

// zentry is one entry of a generated archive.
type zentry struct {
	name string
	dir  bool // the entry's attributes say "directory" (a name ending in "/" is a directory anyway)
}

func unhxEntriesR(s, rootNoSlash string) ([]zentry, bool) {
	if s == "_" {
		return nil, true
	}
	var out []zentry
	for _, p := range strings.Split(s, ",") {
		d := strings.HasSuffix(p, ":d")
		x, ok := unhxR(strings.TrimSuffix(p, ":d"), rootNoSlash)
		if !ok {
			return nil, false
		}
		out = append(out, zentry{x, d})
	}
	return out, true
}

// name / nameList decode the names of an op line for the implementation: the token is the real root.
func (e *exec) name(s string) (string, bool)       { return unhxR(s, e.sb.root[1:]) }
func (e *exec) nameList(s string) ([]string, bool) { return unhxListR(s, e.sb.root[1:]) }

func unhx(s string) (string, bool) {
	if s == "-" {
		return "", true
	}
	if len(s)%2 != 0 {
		return "", false
	}
	for i := 0; i < len(s); i++ {
		c := s[i]
		if !(c >= '0' && c <= '9' || c >= 'a' && c <= 'f' || c >= 'A' && c <= 'F') {
			return "", false
		}
	}
	return string(hxlib.UnHex(s)), true
}

func unhxList(s string) ([]string, bool) {
	if s == "_" {
		return nil, true
	}
	var out []string
	for _, p := range strings.Split(s, ",") {
		x, ok := unhx(p)
		if !ok {
			return nil, false
		}
		out = append(out, x)
	}
	return out, true
}

func hxList(xs []string) string {
	if len(xs) == 0 {
		return "_"
	}
	ys := make([]string, len(xs))
	for i, x := range xs {
		ys[i] = hx(x)
		if x == "" {
			ys[i] = "-"
		}
	}
	return strings.Join(ys, ",")
}

// san makes an observation printable on one line.
func san(s string) string {
	var b strings.Builder
	for i := 0; i < len(s); i++ {
		c := s[i]
		if c <= 0x20 || c >= 0x7f || c == '\\' {
			fmt.Fprintf(&b, "\\x%02x", c)
		} else {
			b.WriteByte(c)
		}
	}
	return b.String()
}

const fstDB = "c18"

func fstRecord(key, data string) record.Record {
	w, _ := record.NewWrapper(fstDB+":"+key, nil, dsd.RAW, []byte(data))
	w.SetMeta(&record.Meta{})
	w.Meta().Update()
	return w
}

var fstStatic = []string{"a", "d/b", "d/e/c"}
var updStatic = []string{"all/x_v1-0-0", "all/sub/y_v2-0-1.txt", "readme"}

// (re)builds the sandbox of this case from scratch.
func (e *exec) build() {
	if e.sb != nil {
		e.sb.unwatch()
	}
	_ = os.Chdir(scratchBase)
	if e.caseDir != "" {
		_ = os.RemoveAll(e.caseDir)
	}
	e.gen++
	e.caseDir = filepath.Join(scratchBase, fmt.Sprintf("c%d", caseNo.Add(1)))
	// the sandbox top sits 8 levels below the case directory: generated climbs (at most depth+3 parent
	// references, 6 in mixed names) stay inside the case directory even if a broken component follows them
	top := e.caseDir + SB
	must(os.MkdirAll(top, 0o755))
	var decoy func(dir string)
	realRoot := filepath.Join(top, e.rootRel)
	switch e.comp {
	case "fst":
		decoy = func(dir string) {
			db, err := fstree.NewFSTree(fstDB, dir)
			must(err)
			// (the mirror's path embeds the real root path: written as the virtual one, so that outputs do not depend on the scratch directory)
			v := strings.Replace(SB+dir[len(top):], realRoot[1:], (SB + "/" + e.rootRel)[1:], 1)
			_, err = db.Put(fstRecord("secret", "OUTSIDE:"+v+"/secret"))
			must(err)
		}
	case "upd":
		decoy = func(dir string) {
			must(os.WriteFile(filepath.Join(dir, "evil_v6-6-6"), []byte("OUTSIDE resource\n"), 0o644))
			if strings.HasPrefix(dir, filepath.Join(top, "mirror")+"/") {
				must(os.MkdirAll(filepath.Join(dir, "tmp", path.Base(unzDest)), 0o755)) // a foreign copy of the unpack dir's path
			}
		}
	}
	e.sb = newSandbox(e.caseDir, top, e.rootRel, decoy)
	e.rootGiven = e.sb.root
	if e.variant == "slash" {
		e.rootGiven += "/"
	}
	if e.variant != "noexist" {
		must(os.MkdirAll(e.sb.root, 0o755))
	}
	e.restoreInside()
	if e.comp == "dsh" {
		// a fresh tree on the (new) root path; the ChildDir calls made so far are repeated
		e.handles = []*utils.DirStructure{utils.NewDirStructure(e.rootGiven, 0o755)}
		for _, c := range e.chdLog {
			e.dshChild(c)
		}
	}
	cwd := filepath.Join(top, e.cwdRel)
	if e.variant == "noexist" && e.sb.underRoot(cwd) {
		cwd = top // the root must not exist: the working directory cannot be inside it
	}
	must(os.MkdirAll(cwd, 0o755))
	must(os.Chdir(cwd))
	e.sb.snap = nil
}

// restoreInside resets the content of the root to the static content the model knows.
func (e *exec) restoreInside() {
	root := e.sb.root
	if ents, err := os.ReadDir(root); err == nil {
		for _, en := range ents {
			_ = os.RemoveAll(filepath.Join(root, en.Name()))
		}
	}
	switch e.comp {
	case "fst":
		if st, err := os.Stat(root); err != nil || !st.IsDir() {
			_ = os.RemoveAll(root)
		}
		db, err := fstree.NewFSTree(fstDB, root)
		must(err)
		e.fst = db
		for _, k := range fstStatic {
			_, err := db.Put(fstRecord(k, "IN:"+k))
			must(err)
		}
		e.applyFsState()
	case "ds":
		if e.variant == "noexist" {
			_ = os.RemoveAll(root)
		} else {
			_ = os.RemoveAll(root)
			must(os.Mkdir(root, 0o755))
		}
		e.ds = utils.NewDirStructure(e.rootGiven, 0o755)
		e.dsC = e.ds.ChildDir("tmp", 0o700)
		e.dsG = e.dsC.ChildDir("sub", 0o750)
	case "dsh":
		// the tree of DirStructure nodes lives as long as the case; only the directory content is reset
		_ = os.RemoveAll(root)
		if e.variant != "noexist" {
			must(os.Mkdir(root, 0o755))
			must(os.Chmod(root, 0o755))
		}
	case "upd":
		if st, err := os.Stat(root); err != nil || !st.IsDir() {
			_ = os.RemoveAll(root)
			must(os.MkdirAll(root, 0o755))
		}
		for _, f := range updStatic {
			must(os.MkdirAll(filepath.Dir(filepath.Join(root, f)), 0o755))
			must(os.WriteFile(filepath.Join(root, f), []byte("IN:"+f), 0o644))
		}
		must(os.MkdirAll(filepath.Join(root, "tmp"), 0o700))
		if e.variant == "nested" {
			// the storage dir is a child of a bigger structure (dataroot.ChildDir("updates", perm)), as applications set it up
			e.ds = utils.NewDirStructure(filepath.Dir(root), 0o755).ChildDir(filepath.Base(root), 0o755)
		} else {
			e.ds = utils.NewDirStructure(e.rootGiven, 0o755)
		}
	}
}

var fsStates = map[string]bool{"plain": true, "rmroot": true, "rootfile": true, "rmd": true, "dfile": true, "extra": true, "bad": true, "empty": true}

// applyFsState changes what is below (or at) the root behind the back of the open database.
func (e *exec) applyFsState() {
	root := e.sb.root
	recBytes := func(key string) []byte { // a well-formed record file, as Put writes it
		b, err := os.ReadFile(filepath.Join(root, "a"))
		must(err)
		return bytes.Replace(b, []byte("IN:a"), []byte("IN:"+key), 1)
	}
	switch e.fsState {
	case "plain":
	case "rmroot": // the database directory was removed
		must(os.RemoveAll(root))
	case "rootfile": // ... and replaced by a (well-formed record) file
		b := recBytes(".")
		must(os.RemoveAll(root))
		must(os.WriteFile(root, b, 0o644))
	case "rmd": // an intermediate directory is missing
		must(os.RemoveAll(filepath.Join(root, "d")))
	case "dfile": // an intermediate directory was replaced by a file
		b := recBytes("d")
		must(os.RemoveAll(filepath.Join(root, "d")))
		must(os.WriteFile(filepath.Join(root, "d"), b, 0o644))
	case "extra": // entries inside the root whose names extend the name of a directory
		for _, k := range []string{"da", "dx/f"} {
			_, err := e.fst.Put(fstRecord(k, "IN:"+k))
			must(err)
		}
	case "bad": // a file that is not a record
		must(os.WriteFile(filepath.Join(root, "c0"), []byte("not a record"), 0o644))
	case "empty":
		ents, err := os.ReadDir(root)
		must(err)
		for _, en := range ents {
			must(os.RemoveAll(filepath.Join(root, en.Name())))
		}
	}
}

// listAll lists every file and directory of the sandbox (inside and outside the root): outside as of the oracle's
// latest snapshot (taken after the previous component call; nothing but component calls touches the outside),
// inside by a walk of the root.
func (e *exec) listAll() map[string]bool {
	s := e.sb
	if s.snap == nil {
		s.snap = s.snapshot()
		s.watch()
	}
	m := make(map[string]bool, len(s.outside)+16)
	for p, d := range s.outside {
		m[p] = d
	}
	_ = filepath.Walk(s.root, func(p string, info os.FileInfo, err error) error {
		if err == nil {
			m[p] = info.IsDir()
		}
		return nil
	})
	return m
}

func (e *exec) Do(line string) string {
	f := strings.Fields(line)
	if len(f) == 0 {
		return "bad-op"
	}
	if f[0] == "sb" {
		if len(f) != 5 {
			return "bad-op"
		}
		rr, ok1 := unhx(f[2])
		cw, ok2 := unhx(f[4])
		if !ok1 || !ok2 || !validRel(rr) || (cw != "" && !validRel(cw)) {
			return "bad-op"
		}
		switch f[1] {
		case "fst", "ds", "dsh", "upd", "lib":
		default:
			return "bad-op"
		}
		switch f[3] {
		case "plain", "slash", "noexist":
		case "nested":
			if f[1] != "upd" {
				return "bad-op"
			}
		default:
			return "bad-op"
		}
		e.comp, e.rootRel, e.variant, e.cwdRel = f[1], rr, f[3], cw
		e.chdLog = nil
		e.fsState = "plain"
		if e.comp != "lib" {
			e.build()
		}
		return "ok"
	}
	if e.comp == "" {
		return "bad-op"
	}
	if e.comp == "lib" {
		return e.doLib(f)
	}
	if e.comp == "fst" && f[0] == "fss" {
		if len(f) != 2 || !fsStates[f[1]] {
			return "bad-op"
		}
		e.fsState = f[1]
		e.restoreInside()
		return "ok"
	}
	// the harness's own inspection of the sandbox (listing, searching the written marker) happens in
	// prepare / finish, outside the observed window: only the component call itself is observed.
	call, finish := e.prepare(f)
	if call == nil {
		return "bad-op"
	}
	outside := e.sb.observe(call)
	dec, restore := finish()
	if dec == "bad-op" {
		return dec
	}
	if outside != "none" {
		e.build() // the surroundings were touched: start over with a pristine sandbox
	} else if restore {
		e.restoreInside()
	}
	return dec + " outside=" + san(outside)
}

func validRel(p string) bool {
	if p == "" || strings.HasPrefix(p, "/") {
		return false
	}
	for _, s := range strings.Split(p, "/") {
		if s == "" || s == "." || s == ".." || strings.ContainsAny(s, "\x00") {
			return false
		}
	}
	return true
}

func (e *exec) doLib(f []string) string {
	arg := func(i int) (string, bool) {
		if i >= len(f) {
			return "", false
		}
		return unhx(f[i])
	}
	switch f[0] {
	case "clean", "dir", "base":
		a, ok := arg(1)
		if !ok || len(f) != 2 {
			return "bad-op"
		}
		switch f[0] {
		case "clean":
			return hx(filepath.Clean(a))
		case "dir":
			return hx(filepath.Dir(a))
		}
		return hx(path.Base(a))
	case "join", "rel":
		a, ok1 := arg(1)
		b, ok2 := arg(2)
		if !ok1 || !ok2 || len(f) != 3 {
			return "bad-op"
		}
		if f[0] == "join" {
			return hx(filepath.Join(a, b))
		}
		r, err := filepath.Rel(a, b)
		if err != nil {
			return "err"
		}
		return hx(r)
	case "joinl":
		xs, ok := unhxList(f[len(f)-1])
		if !ok || len(f) != 2 {
			return "bad-op"
		}
		return hx(filepath.Join(xs...))
	case "bridge":
		a, ok := arg(1)
		if !ok || len(f) != 2 {
			return "bad-op"
		}
		return bridge(a)
	}
	return "bad-op"
}

type finishFn func() (decision string, restoreInside bool)

// prepare parses one op and returns the component call (the only part that is observed by the oracle)
// and the function that turns what happened into the decision line. call == nil: bad op.
func (e *exec) prepare(f []string) (call func(), finish finishFn) {
	s := e.sb
	switch {
	case e.comp == "fst" && len(f) == 2 && (f[0] == "put" || f[0] == "get" || f[0] == "gmt" || f[0] == "del" || f[0] == "qry"):
		key, ok := e.name(f[1])
		if !ok {
			return nil, nil
		}
		return e.prepFst(f[0], key)
	case e.comp == "ds" && len(f) == 3 && (f[0] == "ens" || f[0] == "enr" || f[0] == "end"):
		var target *utils.DirStructure
		switch f[1] {
		case "r":
			target = e.ds
		case "c":
			target = e.dsC
		case "g":
			target = e.dsG
		default:
			return nil, nil
		}
		var err error
		switch f[0] {
		case "ens":
			p, ok := e.name(f[2])
			if !ok {
				return nil, nil
			}
			call = func() { err = target.EnsureAbsPath(s.real(p)) }
		case "enr":
			p, ok := e.name(f[2])
			if !ok {
				return nil, nil
			}
			// EnsureRelPath / EnsureRelDir join with the receiver's own path; the model describes the root structure
			call = func() { err = e.ds.EnsureRelPath(p) }
		case "end":
			xs, ok := e.nameList(f[2])
			if !ok {
				return nil, nil
			}
			call = func() { err = e.ds.EnsureRelDir(xs...) }
		}
		before := e.listAll()
		return call, func() (string, bool) {
			if err != nil {
				switch {
				case strings.Contains(err.Error(), "is outside of DirStructure scope"):
					return "rej outside", false
				case strings.Contains(err.Error(), "failed to get relative path"):
					return "rej rel", false
				}
				return "acc oserr", true
			}
			var created []string
			for p, isDir := range e.listAll() {
				if _, was := before[p]; !was && isDir {
					created = append(created, s.virt(p))
				}
			}
			sort.Strings(created)
			return "acc dirs " + hxList(created), true
		}
	case e.comp == "dsh":
		return e.prepDsh(f)
	case e.comp == "upd" && len(f) == 2 && f[0] == "scan":
		root, ok := e.name(f[1])
		if !ok {
			return nil, nil
		}
		reg := &updater.ResourceRegistry{Name: "c18"}
		if err := reg.Initialize(e.ds); err != nil {
			return func() {}, func() (string, bool) { return "acc oserr", true }
		}
		var err error
		return func() { err = reg.ScanStorage(s.real(root)) }, func() (string, bool) {
			if err != nil {
				if strings.Contains(err.Error(), "not within storage") {
					return "rej outside", false
				}
				return "acc oserr", false
			}
			var ids []string
			for id := range reg.Export() {
				ids = append(ids, strings.ReplaceAll(id, s.root[1:], s.root[len(s.scope)+1:])) // (names built from the root's path: shown virtual)
			}
			sort.Strings(ids)
			return "acc ids " + hxList(ids), false
		}
	case e.comp == "upd" && len(f) == 2 && f[0] == "unz":
		entries, ok := unhxEntriesR(f[1], e.sb.root[1:])
		if !ok {
			return nil, nil
		}
		return e.prepUnzip(entries)
	}
	return nil, nil
}

func (e *exec) prepFst(op, key string) (func(), finishFn) {
	s := e.sb
	classify := func(err error) string {
		switch {
		case strings.Contains(err.Error(), "key too short"):
			return "rej tooshort"
		case strings.Contains(err.Error(), "key integrity check failed"):
			return "rej integrity"
		case strings.Contains(err.Error(), "key is not a clean path"):
			return "rej unclean" // (repo commit 6c2daee of branch verif-db2, if integrated)
		}
		return "acc oserr"
	}
	var err error
	switch op {
	case "put":
		e.nonce++
		marker := fmt.Sprintf("NONCE-%d-%d", e.gen, e.nonce)
		rec := fstRecord(key, marker)
		return func() { _, err = e.fst.Put(rec) }, func() (string, bool) {
			if err != nil {
				d := classify(err)
				return d, d == "acc oserr"
			}
			var where []string
			_ = filepath.Walk(s.scope, func(p string, info os.FileInfo, err error) error {
				if err == nil && info.Mode().IsRegular() {
					if b, err := os.ReadFile(p); err == nil && bytes.Contains(b, []byte(marker)) {
						where = append(where, s.virt(p))
					}
				}
				return nil
			})
			sort.Strings(where)
			return "acc created " + hxList(where), true
		}
	case "get":
		var r record.Record
		return func() { r, err = e.fst.Get(key) }, func() (string, bool) {
			if err != nil {
				if err == storage.ErrNotFound {
					return "acc notfound", false
				}
				return classify(err), false
			}
			w, ok := r.(*record.Wrapper)
			if !ok {
				return "acc oserr", false
			}
			d := string(w.Data)
			switch {
			case strings.HasPrefix(d, "IN:"):
				return "acc data " + hx(s.virt(s.root)+"/"+d[3:]), false
			case strings.HasPrefix(d, "OUTSIDE:"):
				return "acc data " + hx(d[8:]), false
			}
			return "acc data " + hx("?"+d), false
		}
	case "gmt":
		var m *record.Meta
		mg, ok := e.fst.(interface {
			GetMeta(key string) (*record.Meta, error)
		})
		if !ok {
			return nil, nil
		}
		return func() { m, err = mg.GetMeta(key) }, func() (string, bool) {
			if err != nil {
				if err == storage.ErrNotFound {
					return "acc notfound", false
				}
				return classify(err), false
			}
			if m == nil {
				return "acc oserr", false
			}
			return "acc meta", false
		}
	case "del":
		before := e.listAll()
		return func() { err = e.fst.Delete(key) }, func() (string, bool) {
			if err != nil {
				d := classify(err)
				return d, d == "acc oserr"
			}
			after := e.listAll()
			var gone []string
			for p := range before {
				if _, ok := after[p]; !ok {
					gone = append(gone, s.virt(p))
				}
			}
			sort.Strings(gone)
			return "acc deleted " + hxList(gone), true
		}
	case "qry":
		q, qerr := query.New(fstDB + ":" + key).Check()
		if qerr != nil {
			return func() {}, func() (string, bool) { return "acc oserr", false }
		}
		var keys, decoys []string
		var iterErr error
		return func() {
				var it interface {
					Err() error
				}
				iter, e2 := e.fst.Query(q, true, true)
				err = e2
				if e2 != nil {
					return
				}
				it = iter
				for r := range iter.Next {
					keys = append(keys, r.DatabaseKey())
					// a record whose content is a decoy's content was read from outside, whatever its key says
					if w, ok := r.(*record.Wrapper); ok && strings.HasPrefix(string(w.Data), "OUTSIDE:") {
						decoys = append(decoys, string(w.Data)[8:])
					}
				}
				iterErr = it.Err()
			}, func() (string, bool) {
				if err != nil {
					return classify(err), false
				}
				// iterator.Finish stores the walk's error before it closes Next (C02's fix), so it can be read here:
				// "walkerr" = the walk ended with an error (a file that is not a record, a walk root behind a file).
				out := make([]string, len(keys))
				for i, k := range keys {
					out[i] = s.virt(filepath.Join(s.root, k))
				}
				sort.Strings(out)
				out = append(out, decoys...)
				d := "acc keys " + hxList(out)
				if iterErr != nil {
					d += " walkerr"
				}
				return d, false
			}
	}
	return nil, nil
}

// dshChild makes one ChildDir call and returns the handle of the child.
func (e *exec) dshChild(c dshCall) int {
	child := e.handles[c.h].ChildDir(c.name, c.perm)
	for i, h := range e.handles {
		if h == child {
			return i
		}
	}
	e.handles = append(e.handles, child)
	return len(e.handles) - 1
}

func parsePerm(s string) (os.FileMode, bool) {
	if s == "" || len(s) > 4 {
		return 0, false
	}
	v := 0
	for _, c := range s {
		if c < '0' || c > '7' {
			return 0, false
		}
		v = v*8 + int(c-'0')
	}
	return os.FileMode(v), true
}

// prepDsh: calls on the DirStructure tree of the case.
func (e *exec) prepDsh(f []string) (func(), finishFn) {
	s := e.sb
	if len(f) < 2 {
		return nil, nil
	}
	h := 0
	for _, c := range f[1] {
		if c < '0' || c > '9' || len(f[1]) > 6 {
			return nil, nil
		}
		h = h*10 + int(c-'0')
	}
	if h >= len(e.handles) {
		return nil, nil
	}
	node := e.handles[h]
	if f[0] == "chd" {
		if len(f) != 4 {
			return nil, nil
		}
		name, ok := e.name(f[2])
		perm, ok2 := parsePerm(f[3])
		if !ok || !ok2 {
			return nil, nil
		}
		c := dshCall{h, name, perm}
		idx := -1
		return func() { idx = e.dshChild(c) }, func() (string, bool) {
			e.chdLog = append(e.chdLog, c)
			return fmt.Sprintf("child %d %s", idx, hx(s.virt(e.handles[idx].Path))), false
		}
	}
	var err error
	var call func()
	switch {
	case f[0] == "hens" && len(f) == 2:
		call = func() { err = node.Ensure() }
	case f[0] == "hena" && len(f) == 3:
		p, ok := e.name(f[2])
		if !ok {
			return nil, nil
		}
		call = func() { err = node.EnsureAbsPath(s.real(p)) }
	case f[0] == "henr" && len(f) == 3:
		p, ok := e.name(f[2])
		if !ok {
			return nil, nil
		}
		call = func() { err = node.EnsureRelPath(p) }
	case f[0] == "hend" && len(f) == 3:
		xs, ok := e.nameList(f[2])
		if !ok {
			return nil, nil
		}
		call = func() { err = node.EnsureRelDir(xs...) }
	default:
		return nil, nil
	}
	before := e.listAll()
	return call, func() (string, bool) {
		if err != nil {
			switch {
			case strings.Contains(err.Error(), "is outside of DirStructure scope"):
				return "rej outside", false
			case strings.Contains(err.Error(), "failed to get relative path"):
				return "rej rel", false
			}
			return "acc oserr", true
		}
		var created []string
		for p, isDir := range e.listAll() {
			if _, was := before[p]; !was && isDir {
				mode := "?"
				if st, err := os.Lstat(p); err == nil {
					mode = fmt.Sprintf("%o", st.Mode().Perm())
				}
				created = append(created, hx(s.virt(p))+":"+mode)
			}
		}
		sort.Slice(created, func(i, j int) bool {
			a, _ := unhx(strings.SplitN(created[i], ":", 2)[0])
			b, _ := unhx(strings.SplitN(created[j], ":", 2)[0])
			return a < b
		})
		out := "_"
		if len(created) > 0 {
			out = strings.Join(created, ",")
		}
		return "acc dirsm " + out, true
	}
}

const (
	unzIdentifier = "pkg/thing.zip"
	unzVersion    = "1.0.0"
	unzArchive    = "pkg/thing_v1-0-0.zip"
	unzDest       = "pkg/thing_v1-0-0"
)

func (e *exec) prepUnzip(entries []zentry) (func(), finishFn) {
	s := e.sb
	fail := func(d string) (func(), finishFn) {
		return func() {}, func() (string, bool) { return d, true }
	}
	var buf bytes.Buffer
	zw := zip.NewWriter(&buf)
	for i, en := range entries {
		n := en.name
		fh := &zip.FileHeader{Name: n, Method: zip.Store}
		if strings.HasSuffix(n, "/") || en.dir {
			fh.SetMode(os.ModeDir | 0o755) // (unix attributes + the MS-DOS directory bit)
		} else {
			fh.SetMode(0o644)
		}
		w, err := zw.CreateHeader(fh)
		if err != nil {
			return nil, nil
		}
		if !strings.HasSuffix(n, "/") && !en.dir {
			fmt.Fprintf(w, "ENTRY-%d", i)
		}
	}
	if err := zw.Close(); err != nil {
		return nil, nil
	}
	arch := filepath.Join(s.root, unzArchive)
	must(os.MkdirAll(filepath.Dir(arch), 0o755))
	must(os.WriteFile(arch, buf.Bytes(), 0o644))
	reg := &updater.ResourceRegistry{Name: "c18", AutoUnpack: []string{unzIdentifier}}
	if err := reg.Initialize(e.ds); err != nil {
		return fail("acc oserr")
	}
	if err := reg.AddResource(unzIdentifier, unzVersion, nil, true, false, false); err != nil {
		return fail("acc oserr")
	}
	reg.SelectVersions()
	var err error
	return func() { err = reg.UnpackResources() }, func() (string, bool) {
		if err != nil {
			if strings.Contains(err.Error(), "outside of the unpack dir") {
				return "rej insecure", true
			}
			return "acc oserr", true
		}
		dest := filepath.Join(s.root, unzDest)
		var got []string
		_ = filepath.Walk(dest, func(p string, info os.FileInfo, err error) error {
			if err != nil || p == dest {
				return nil
			}
			rel := p[len(dest)+1:]
			if info.IsDir() {
				rel += "/"
			}
			got = append(got, rel)
			return nil
		})
		sort.Strings(got)
		return "acc files " + hxList(got), true
	}
}

func main() {
	defer cleanupScratch()
	hxlib.Main(&hxlib.Harness{
		Prop:     "C18",
		Rule:     ruleText,
		Generate: generate,
		NewExec:  newExec,
		Monitor:  monitor,
		Extra: func(r *hxlib.Run) map[string]any {
			cleanupScratch()
			return map[string]any{"fs_oracle": "snapshot(names,types,modes,sizes,sha1) + inotify(open,read of files and of directory listings,write,attrib,create,delete,move) on every directory outside the root (parent and ancestors, siblings with decoys)"}
		},
	})
}
