package main

// The property monitor: the statement of C18 read literally on the implementation's outputs.
//  (1) nothing outside the root was read, created, modified or deleted (file-system oracle, "outside=" field);
//  (2) a name that escapes the root (decided here by plain lexical resolution: skip "" and ".", ".." pops,
//      independent of the Lean model and of filepath.Clean) is rejected by the component's own scope error,
//      i.e. before any file-system access;
//  (3) nothing the call returns (data, keys, identifiers, created / deleted paths) comes from outside the root.
// It demands nothing about names that stay inside the root.

import (
	"strings"

	"verifharness/hxlib"
)

var theRun *hxlib.Run

func count(k string) {
	if theRun != nil {
		theRun.Count(k)
	}
}

// lexical resolution of an absolute path: the directories entered from "/".
func resolveAbs(p string) []string {
	var st []string
	for _, s := range strings.Split(p, "/") {
		switch s {
		case "", ".":
		case "..":
			if len(st) > 0 {
				st = st[:len(st)-1]
			}
		default:
			st = append(st, s)
		}
	}
	return st
}

func under(p, root []string) bool {
	if len(p) < len(root) {
		return false
	}
	for i := range root {
		if p[i] != root[i] {
			return false
		}
	}
	return true
}

type caseCfg struct {
	comp, rootRel, variant, cwdRel string
	vroot, vcwd                    string
}

func parseSb(line string) (c caseCfg, ok bool) {
	f := strings.Fields(line)
	if len(f) != 5 || f[0] != "sb" {
		return c, false
	}
	rr, ok1 := unhx(f[2])
	cw, ok2 := unhx(f[4])
	if !ok1 || !ok2 {
		return c, false
	}
	c = caseCfg{comp: f[1], rootRel: rr, variant: f[3], cwdRel: cw, vroot: SB + "/" + rr, vcwd: SB}
	if cw != "" {
		c.vcwd = SB + "/" + cw
	}
	return c, true
}

// the names of an op line as the monitor reads them: the token "@R" is the virtual root
func (c caseCfg) name(s string) (string, bool)       { return unhxR(s, c.vroot[1:]) }
func (c caseCfg) nameList(s string) ([]string, bool) { return unhxListR(s, c.vroot[1:]) }

// targets returns the absolute (virtual) paths the externally supplied name(s) of an op denote, and the raw names.
func targets(c caseCfg, f []string) (paths []string, names []string) {
	abs := func(p string) string {
		if strings.HasPrefix(p, "/") {
			return p
		}
		return c.vcwd + "/" + p
	}
	switch f[0] {
	case "put", "get", "gmt", "del", "qry":
		if k, ok := c.name(f[1]); ok {
			return []string{c.vroot + "/" + k}, []string{k}
		}
	case "ens":
		if p, ok := c.name(f[2]); ok {
			return []string{abs(p)}, []string{p}
		}
	case "enr":
		if p, ok := c.name(f[2]); ok {
			return []string{c.vroot + "/" + p}, []string{p}
		}
	case "end":
		if xs, ok := c.nameList(f[2]); ok {
			return []string{c.vroot + "/" + strings.Join(xs, "/")}, []string{strings.Join(xs, "/")}
		}
	case "unz":
		if xs, ok := unhxEntriesR(f[1], c.vroot[1:]); ok {
			for _, en := range xs {
				paths = append(paths, c.vroot+"/tmp/"+path_base(unzDest)+"/"+en.name)
				n := en.name
				if en.dir && !strings.HasSuffix(n, "/") {
					n += "/" // (for the monitor a directory entry is a name with a trailing separator)
				}
				names = append(names, n)
			}
			return
		}
	case "scan":
		if p, ok := c.name(f[1]); ok && p != "" {
			return []string{abs(p)}, []string{p}
		}
	}
	return nil, nil
}

// targetsDsh: the absolute path a call on node h of the tree requests.
func targetsDsh(c caseCfg, f []string, nodePath map[string]string) (paths []string, names []string) {
	np, ok := nodePath[f[1]]
	if !ok {
		return nil, nil
	}
	switch {
	case f[0] == "hens" && len(f) == 2:
		return []string{np}, []string{np}
	case f[0] == "hena" && len(f) == 3:
		if p, ok := c.name(f[2]); ok {
			if strings.HasPrefix(p, "/") {
				return []string{p}, []string{p}
			}
			return []string{c.vcwd + "/" + p}, []string{p}
		}
	case f[0] == "henr" && len(f) == 3:
		if p, ok := c.name(f[2]); ok {
			return []string{np + "/" + p}, []string{p}
		}
	case f[0] == "hend" && len(f) == 3:
		if xs, ok := c.nameList(f[2]); ok {
			return []string{np + "/" + strings.Join(xs, "/")}, []string{strings.Join(xs, "/")}
		}
	}
	return nil, nil
}

func path_base(p string) string {
	if i := strings.LastIndex(p, "/"); i >= 0 {
		return p[i+1:]
	}
	return p
}

// inputClass names the class of a supplied name for the finding signature.
func inputClass(c caseCfg, target, name string) string {
	root := resolveAbs(c.vroot)
	res := resolveAbs(target)
	if under(res, root) {
		return "inside"
	}
	n := len(root)
	if len(res) >= n && under(res[:n-1], root[:n-1]) && strings.HasPrefix(res[n-1], root[n-1]) {
		return "sibling-sharing-name-prefix"
	}
	for _, s := range strings.Split(name, "/") {
		if s == ".." {
			return "parent-reference"
		}
	}
	if strings.HasPrefix(name, "/") {
		return "absolute-path"
	}
	return "other"
}

func simpleName(n string) bool {
	return n != "" && n != "." && n != ".." && !strings.ContainsAny(n, "/\x00") && len(n) < 200
}

func monitor(c hxlib.Case, outs []string) (vs []hxlib.Violation) {
	if len(c.Lines) == 0 {
		return nil
	}
	cfg, ok := parseSb(c.Lines[0])
	if !ok || cfg.comp == "lib" {
		return nil
	}
	root := resolveAbs(cfg.vroot)
	fssAt, fsState := 0, "plain"
	add := func(i int, sig, what string) {
		if fssAt > 0 {
			sig += ":fs=" + fsState
		}
		lines, out := []string{c.Lines[0], c.Lines[i]}, []string{outs[0], outs[i]}
		if fssAt > 0 { // the state of the file system below the root is part of the input
			lines, out = []string{c.Lines[0], c.Lines[fssAt], c.Lines[i]}, []string{outs[0], outs[fssAt], outs[i]}
		}
		if cfg.comp == "dsh" {
			// a history: the replay is the case up to the failing call
			lines, out = append([]string{}, c.Lines[:i+1]...), append([]string{}, outs[:i+1]...)
		}
		vs = append(vs, hxlib.Violation{Sig: sig, What: what, Lines: lines, Output: out})
	}
	// comp dsh: the path every node of the tree stands for, as the caller named it (parent's path + "/" + name given
	// to ChildDir; resolved lexically by resolveAbs only) — node numbers are taken from the implementation's answers
	nodePath := map[string]string{"0": cfg.vroot}
	for i := 1; i < len(c.Lines); i++ {
		f := strings.Fields(c.Lines[i])
		o := outs[i]
		if len(f) < 2 || o == "bad-op" {
			continue
		}
		if f[0] == "fss" {
			fssAt, fsState = i, f[1]
			if f[1] == "plain" {
				fssAt = 0
			}
			count("fs-state:" + f[1])
			continue
		}
		if cfg.comp == "dsh" && f[0] == "chd" && len(f) == 4 {
			if of := strings.Fields(o); len(of) >= 2 && of[0] == "child" {
				if name, ok := cfg.name(f[2]); ok {
					if _, known := nodePath[of[1]]; !known {
						nodePath[of[1]] = nodePath[f[1]] + "/" + name
					}
				}
			}
		}
		site := cfg.comp + "." + f[0]
		if strings.HasPrefix(o, "PANIC") {
			count("decision:" + site + ":PANIC")
			continue // not a statement of C18; the correspondence reports it
		}
		k := strings.LastIndex(o, " outside=")
		if k < 0 {
			continue
		}
		dec, outside := o[:k], o[k+len(" outside="):]
		df := strings.Fields(dec)
		if len(df) >= 2 && df[0] == "child" {
			count("decision:" + site + ":child")
		} else if len(df) >= 2 {
			count("decision:" + site + ":" + df[0] + "-" + df[1])
		}
		paths, names := targets(cfg, f)
		if cfg.comp == "dsh" {
			paths, names = targetsDsh(cfg, f, nodePath)
		}
		cls, escapes, firstEsc := "inside", false, -1
		for j, p := range paths {
			if !under(resolveAbs(p), root) {
				if !escapes {
					cls = inputClass(cfg, p, names[j])
					firstEsc = j
				}
				escapes = true
			}
		}
		count("name:" + site + ":" + cls)
		// (1) file-system oracle
		if outside != "none" {
			add(i, "C18:"+site+":outside-access:"+cls, "file-system access outside the root "+cfg.vroot+": "+outside)
		}
		// (2) escaping names are rejected before any file-system access
		if escapes && !strings.HasPrefix(dec, "rej ") {
			demand := true
			if f[0] == "unz" {
				// entries are processed in order: only demand the rejection if everything before the first escaping
				// entry is an orderly archive — distinct names made of plain segments, every entry directly in the unpack
				// directory or in a directory an earlier entry created — so nothing else can have stopped the unpacking
				seen, dirs := map[string]bool{}, map[string]bool{"": true}
				for _, n := range names[:firstEsc] {
					isDir := strings.HasSuffix(n, "/")
					n = strings.TrimSuffix(n, "/")
					parent, last := "", n
					if i := strings.LastIndex(n, "/"); i >= 0 {
						parent, last = n[:i], n[i+1:] // (dirs only holds chains of plain segments: a parent spelled otherwise is not in it)
					}
					if strings.HasPrefix(n, "/") || !simpleName(last) || !dirs[parent] || seen[n] {
						demand = false
					}
					seen[n] = true
					if isDir {
						dirs[n] = true
					}
				}
			}
			if demand {
				add(i, "C18:"+site+":escape-not-rejected:"+cls, "name resolves outside the root "+cfg.vroot+" but the call was not rejected: "+dec)
			}
		}
		// (3) nothing returned comes from outside
		if len(df) >= 3 && df[0] == "acc" && df[2] != "_" {
			items, ok := unhxList(df[2])
			if df[1] == "dirsm" { // items are "<hex path>:<mode>"
				items, ok = nil, true
				for _, it := range strings.Split(df[2], ",") {
					d, ok2 := unhx(strings.SplitN(it, ":", 2)[0])
					ok = ok && ok2
					items = append(items, d)
				}
			}
			if ok {
				for _, it := range items {
					bad := false
					switch df[1] {
					case "data", "keys", "created", "deleted", "dirs", "dirsm":
						bad = !under(resolveAbs(it), root)
					case "ids":
						bad = !under(resolveAbs(cfg.vroot+"/"+it), root)
					}
					if bad {
						add(i, "C18:"+site+":outside-result:"+cls, "the call returned / produced "+san(it)+" which is outside the root "+cfg.vroot)
						break
					}
				}
			}
		}
	}
	return vs
}
