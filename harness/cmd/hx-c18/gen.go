package main

import (
	"fmt"
	"math/rand"
	"strings"

	"verifharness/hxlib"
)

const ruleText = "a case is one sandbox (component fst|ds|dsh|upd, root at depth 1-4 below the sandbox top, surrounded by ancestors with files, " +
	"siblings '<root>-other', '<root>x', 'other' (well-formed decoys + plain files) and '<root>-old' (decoy only)) plus 8-24 calls with generated names: benign segment paths, " +
	"existing entries, mixes of '.', '..', empty segments and odd segments, climbs of 1..depth+3 parent references followed by a sibling / " +
	"ancestor / the root's own name, absolute paths (below the root, the root itself with suffixes '/', '/.', '/..', '-other', 'x', siblings, " +
	"sandbox top, '/'), relative scan roots against several working directories, zip archives with 1-5 such entry names. " +
	"fst: Put/Get/GetMeta/Delete/Query; a third of the names resolve to the root itself ('', '.', '../<root>', 'd/..'); 'fss' lines change what stands at the root's place " +
	"behind the open database (root removed, replaced by a record file, intermediate directory missing / replaced by a file, extra entries extending a directory's name, a non-record file, empty). " +
	"dsh: a history of calls on ONE DirStructure tree (ChildDir with plain, multi-element and escaping names on any node; Ensure on any node; EnsureAbsPath/EnsureRelPath/EnsureRelDir " +
	"aimed at every element (in particular the base name) of the names children were registered with, below the child's parent, from the root, or through another node; generic names); " +
	"the directory content is emptied before every call, created directories are compared with their modes. upd: storage dir as top-level structure or (variant nested) as a child node of a structure rooted at its parent. " +
	"Round 3b: (1) archives as SEQUENCES of entries ('unz' entries carry a directory flag of their own, '<name>:d'): an in-scope directory entry (by trailing separator or by attributes) " +
	"followed, directly or after its content, by a name that extends the directory's name textually and climbs out by len(dir)+1.. parent references; textual extensions without separator; the hostile entry first / in the middle; " +
	"duplicates (file/file, dir/dir, file then dir and the reverse, the same file under four spellings); a file entry followed by entries below it; './', '//', 'x/../' spellings of the directory; " +
	"(2) the name alphabet: every traversal shape composed with EACH of backslash, colon, full-width solidus, division slash, fraction slash, %2f, %5c, CR, LF, CRLF, TAB, ';', '|' in place of '/' (all separators, all but the first, every other one, " +
	"after a real directory element) and with look-alikes of '..' ('.. ', '...', '%2e%2e', full-width stops, overlong UTF-8, '..;', '..%00'); for all components; " +
	"(3) names built from the root's own absolute path (token @R, expanded to the real root path for the implementation and to the virtual one for model and monitor): k parent references (k = depth, depth+1, depth+2 from the directory the name is resolved in, sometimes fewer), " +
	"a foreign directory ('mirror' at the sandbox top holds <mirror>/<absolute root path>/ with a well-formed decoy, 'sub', 'tmp/thing_v1-0-0'; or a sibling), the complete root path, a rest — for fstree keys and query prefixes, DirStructure paths and ChildDir names, zip entries, scan roots (absolute and cwd-relative); " +
	"only where the embedded path starts outside the root and no parent reference follows it (both worlds then agree). " +
	"Round 5c: next to every root a sibling whose name is the root's name with the case of its first letter flipped ('root' -> 'Root'; plain file, 'sub', well-formed decoy); class case-variant: " +
	"1(+2 for zip entries) parent references (sometimes after a descent, one more / fewer), the case variant (sometimes all upper case / another letter), then nothing, '/', a complete or partial last segment ('/sec', '/secret', '/sub/', '/pl', ...) — " +
	"for fstree keys and query prefixes, DirStructure paths and ChildDir names, zip entries, scan roots (absolute: case-variant-abs); the case variant is also one of the siblings every climb class picks from. " +
	"A separate stream (implementation + oracle only, also NUL in place of the separator / after '..') has NUL bytes, 300-byte segments, NAME_MAX boundaries inside and outside the root and climbs of depth+6. lib cases compare filepath.Clean/Dir/Join/Rel and " +
	"path.Base with the model on every string over {'/','.','a'} up to length 6 (pairs up to length 3) and on random strings. " +
	"A case is non-trivial if at least one of its names contains a parent reference, an absolute prefix or a sibling name; distinct by the hash of its lines."

var rootRels = []string{"root", "w/root", "w/a/root", "w/a/b/root", "w/db", "w/a/st.or", "r"}

type gctx struct {
	r        *hxlib.Run
	rng      *rand.Rand
	comp     string
	rootRel  string
	rootName string
	depth    int
	vroot    string
	hostile  bool
	vcwd     string
	extraUp  int // levels between the root and the directory the name is resolved in (2 for zip entries: <root>/tmp/<unpack dir>)
}

func pick(rng *rand.Rand, xs []string) string { return xs[rng.Intn(len(xs))] }

var insidePool = []string{"a", "b", "c", "d", "e", "x", "y", "tmp", "sub", "all", "pkg", "thing_v1-0-0", "x_v1-0-0", "y_v2-0-1.txt", "readme"}
// odd segments: near-misses of "." and "..", and values that mean something to some layer (URL escapes, Windows
// separators and drive / device names, overlong UTF-8 and Unicode look-alikes of "..", the '*' of os.CreateTemp
// patterns, shell expansions, the suffixes the updater treats specially)
var oddPool = []string{"...", ".a", "a.", "..a", "a..", " ", "a b", "\xc3\xa9", "\xff", "~", "-", "a\\b", "..\\", "%2e%2e", "\t", "a:b", "....", ". .",
	"..%2f", "%2e%2e%2f", "\xc0\xae\xc0\xae", "\xe2\x80\xa4\xe2\x80\xa4", "\xef\xbc\x8e\xef\xbc\x8e", "*", "a*b", "$HOME", "C:", "CON", "x.zip", "y.sig", "..;", ".. ", " .."}
var decoyPool = []string{"secret", "evil_v6-6-6", "plain.txt", "note.txt", "top.txt", "sub", "new", "new/deep"}

func (g *gctx) staticNames() []string {
	switch g.comp {
	case "fst":
		return []string{"a", "d/b", "d/e/c", "d", "d/e", "a/x", "d/b/y", "d/", "d/e/", "d/e/c/", "d/.."}
	case "upd":
		return []string{"all", "all/x_v1-0-0", "all/sub", "all/sub/y_v2-0-1.txt", "readme", "tmp", "tmp/q", "tmpfoo", "readme/x", "nope"}
	}
	return []string{"tmp", "tmp/sub", "tmp/sub/k", "u", "u/v/w"}
}

func (g *gctx) benign() string {
	n := 1 + g.rng.Intn(4)
	s := make([]string, n)
	for i := range s {
		s[i] = pick(g.rng, insidePool)
	}
	return strings.Join(s, "/")
}

func (g *gctx) siblings() []string {
	return []string{g.rootName + "-other", g.rootName + "x", "other", g.rootName + "-old", g.rootName + "-new", g.rootName + ".", g.rootName + " ",
		caseVariant(g.rootName), caseVariant(g.rootName), strings.ToUpper(g.rootName)}
}

// caseVariant: the name with the letter case of its first (ASCII) letter flipped ("root" -> "Root", "st.or" -> "St.or").
// Every root name of rootRels contains a letter, so the result is a different name — a different directory on a
// case-sensitive file system — that any case-insensitive comparison takes for the root.  The sandbox holds a sibling
// of this name with decoys (sandbox.go, Drv/C18.lean: caseVariant).
func caseVariant(name string) string {
	b := []byte(name)
	for i, c := range b {
		if c >= 'a' && c <= 'z' {
			b[i] = c - 32
			return string(b)
		}
		if c >= 'A' && c <= 'Z' {
			b[i] = c + 32
			return string(b)
		}
	}
	return name
}

// caseVar: the root re-entered under another letter case — climb to the root's parent (1 + extraUp parent
// references; sometimes after a descent, sometimes one too many / too few), the case variant of the root's name (mostly
// the one that exists as a sibling directory with decoys; sometimes all upper case, or the case of another letter), then
// nothing, a separator, a complete or PARTIAL last segment (the decoys' names and prefixes of them), deeper names.
func (g *gctx) caseVar() string {
	rng := g.rng
	g.hostile = true
	k := 1 + g.extraUp
	var s []string
	if rng.Intn(6) == 0 {
		s = append(s, pick(rng, insidePool))
		k++
	}
	switch rng.Intn(12) {
	case 0:
		k++
	case 1:
		if k > 1 {
			k--
		}
	}
	for i := 0; i < k; i++ {
		s = append(s, "..")
	}
	v := caseVariant(g.rootName)
	switch rng.Intn(8) {
	case 0:
		v = strings.ToUpper(g.rootName)
	case 1:
		b := []byte(g.rootName)
		i := rng.Intn(len(b))
		if b[i] >= 'a' && b[i] <= 'z' {
			b[i] -= 32
		}
		v = string(b)
	}
	s = append(s, v)
	rest := pick(rng, []string{"", "/", "/sec", "/secret", "/s", "/sub", "/sub/", "/sub/new", "/plain.txt", "/pl", "/evil_v6-6-6", "/evil", "/new", "/a", "/d/b", "/d",
		"/tmp/thing_v1-0-0/x", "/all", "/.", "/secret/"})
	return strings.Join(s, "/") + rest
}

// tokOK: may a name that embeds the root's absolute path (rootTok) be used where relative names are resolved in the
// (virtual) directory base?  The real root path has more elements than the virtual one, so the two worlds agree only
// if (1) the embedded path starts at a place OUTSIDE the root (the unchanged code then refuses the name: nothing is
// created along a path whose elements differ between the worlds) and (2) no parent reference follows it (none of its
// elements is popped again).
func (g *gctx) tokOK(base, name string) bool {
	full := name
	if !strings.HasPrefix(name, "/") {
		full = base + "/" + name
	}
	root := resolveAbs(g.vroot)
	var st []string
	seenTok := false
	for _, sg := range strings.Split(full, "/") {
		switch {
		case strings.Contains(sg, rootTok):
			if seenTok || sg != rootTok || under(st, root) {
				return false
			}
			seenTok = true
			st = append(st, sg)
		case sg == "" || sg == ".":
		case sg == "..":
			if seenTok {
				return false
			}
			if len(st) > 0 {
				st = st[:len(st)-1]
			}
		default:
			st = append(st, sg)
		}
	}
	return true
}

// relName generates a relative name (key, entry name, relative path) and the name of its class.
func (g *gctx) relName() (string, string) {
	n, cls := g.relName0()
	base := g.vroot
	if g.extraUp == 2 {
		base += "/tmp/thing_v1-0-0"
	}
	if strings.Contains(n, rootTok) && !g.tokOK(base, n) {
		return g.benign(), "benign"
	}
	return n, cls
}

func (g *gctx) relName0() (string, string) {
	rng := g.rng
	switch x := rng.Intn(127); {
	case x >= 118:
		return g.caseVar(), "case-variant"
	case x >= 109:
		return g.embedRoot(), "embed-root"
	case x >= 100:
		return g.altSep()
	case x < 14:
		return g.benign(), "benign"
	case x < 24:
		return pick(rng, g.staticNames()), "existing"
	case x < 44:
		n := 1 + rng.Intn(6)
		s := make([]string, n)
		for i := range s {
			switch y := rng.Intn(100); {
			case y < 40:
				s[i] = pick(rng, insidePool)
			case y < 55:
				s[i] = "."
			case y < 75:
				s[i] = ".."
			case y < 85:
				s[i] = ""
			default:
				s[i] = pick(rng, oddPool)
			}
		}
		name := strings.Join(s, "/")
		if rng.Intn(5) == 0 {
			name = "/" + name
		}
		if rng.Intn(7) == 0 {
			name += "/"
		}
		g.hostile = true
		return name, "dotty"
	case x < 84:
		// climb out, then down again
		k := 1 + rng.Intn(g.depth+3)
		var s []string
		pre := rng.Intn(3)
		if rng.Intn(3) != 0 {
			pre = 0
		}
		for i := 0; i < pre; i++ {
			s = append(s, pick(rng, insidePool))
		}
		for i := 0; i < k+pre; i++ {
			s = append(s, "..")
			if rng.Intn(8) == 0 {
				s = append(s, ".")
			}
		}
		anc := strings.Split(g.rootRel, "/")
		switch y := rng.Intn(10); {
		case y < 4:
			s = append(s, pick(rng, g.siblings()))
		case y < 6:
			s = append(s, g.rootName) // may re-enter the root
		case y < 8:
			// re-descend the ancestor chain from where the climb ended
			from := len(anc) - k
			if from < 0 {
				from = 0
			}
			s = append(s, anc[from:len(anc)-1]...)
			s = append(s, pick(rng, append(g.siblings(), g.rootName)))
		default:
			s = append(s, pick(rng, []string{"etc", "w", "other", "sb", "top.txt"}))
		}
		for i := rng.Intn(3); i > 0; i-- {
			if rng.Intn(2) == 0 {
				s = append(s, pick(rng, decoyPool))
			} else {
				s = append(s, pick(rng, insidePool))
			}
		}
		g.hostile = true
		return strings.Join(s, "/"), "climb"
	case x < 92:
		g.hostile = true
		return "/" + pick(rng, []string{"etc/c18-never", "", "x", SB[1:] + "/" + g.rootRel + "/a", SB[1:] + "/" + g.rootRel + "-other/x", "dev/shm/c18-never"}), "absolute"
	default:
		b := g.benign()
		switch rng.Intn(4) {
		case 0:
			return b + "/", "trailing"
		case 1:
			return b + "/.", "trailing"
		case 2:
			g.hostile = true
			return b + "/..", "trailing"
		}
		return "./" + b, "trailing"
	}
}

// Characters that SOME layer reads as a separator or as something special, while filepath.Join / Clean / Rel on
// POSIX — and the file system — treat them as ordinary bytes of one name: the backslash, the colon (drive / stream
// separator), Unicode solidus look-alikes (full-width solidus U+FF0F, division slash U+2215, fraction slash U+2044),
// URL-encoded separators, CR / LF / TAB, the ';' and '|' of path lists.
var altSeps = []string{"\\", "\\", "\\", ":", "\xef\xbc\x8f", "\xe2\x88\x95", "\xe2\x81\x84", "%2f", "%2F", "%5c", "\r", "\n", "\r\n", "\t", ";", "|", "\\\\"}

// Look-alikes of the parent reference: with trailing dots / spaces (stripped by Windows), URL-encoded, full-width
// full stops, overlong UTF-8, with a ';' parameter.
var altDotDots = []string{".. ", "..  ", "...", ".. .", " ..", "%2e%2e", ".%2e", "%2e.", "..%00", "\xef\xbc\x8e\xef\xbc\x8e", "\xc0\xae\xc0\xae", "..;", "..\r", "..\n", "..."}

// climbSegs: k parent references followed by a target outside (sibling, ancestor note, decoy, new name).
func (g *gctx) climbSegs(k int) []string {
	rng := g.rng
	var s []string
	for i := 0; i < k; i++ {
		s = append(s, "..")
	}
	switch rng.Intn(4) {
	case 0:
		s = append(s, pick(rng, g.siblings()), pick(rng, decoyPool))
	case 1:
		s = append(s, pick(rng, []string{"x", "escaped.txt", "note.txt", "top.txt", "new"}))
	case 2:
		s = append(s, pick(rng, []string{"dir", "new", "other"}), pick(rng, insidePool))
	default:
		s = append(s, g.rootName) // may re-enter the root
		if rng.Intn(2) == 0 {
			s = append(s, pick(rng, insidePool))
		}
	}
	return s
}

// altSep composes a traversal (climb of 1..depth+3 (+extraUp) parent references, possibly after descending into a
// directory first) with EACH of the alternative separators in place of '/' — all separators, only those after the
// first element, or every other one — or with look-alikes in place of "..".
func (g *gctx) altSep() (string, string) {
	rng := g.rng
	g.hostile = true
	k := 1 + rng.Intn(g.depth+3+g.extraUp)
	var pre []string
	if rng.Intn(3) == 0 {
		pre = []string{pick(rng, []string{"sub", "a", "d", "tmp", "all"})}
		k++
	}
	segs := append(pre, g.climbSegs(k)...)
	if rng.Intn(4) == 0 {
		// the separators stay, the parent references are look-alikes
		dd := pick(rng, altDotDots)
		for i, sg := range segs {
			if sg == ".." && (rng.Intn(5) != 0) {
				segs[i] = dd
			}
		}
		name := strings.Join(segs, "/")
		if rng.Intn(6) == 0 {
			name = "/" + name
		}
		return name, "altdots"
	}
	sep := pick(rng, altSeps)
	mode := rng.Intn(4)
	var b strings.Builder
	for i, sg := range segs {
		if i > 0 {
			switch {
			case mode == 0, mode == 1 && i > 1, mode == 2 && i%2 == 1, mode == 3 && i > len(pre) && len(pre) > 0:
				b.WriteString(sep)
			case mode == 3 && len(pre) == 0:
				b.WriteString(sep)
			default:
				b.WriteString("/")
			}
		}
		b.WriteString(sg)
	}
	name := b.String()
	switch rng.Intn(8) {
	case 0:
		name += "/"
	case 1:
		name += sep
	case 2:
		name = sep + name
	}
	return name, "altsep"
}

// embedRoot: a name built from the root's own absolute path — k parent references (k = distance to the sandbox top,
// +1, +2 mostly; sometimes fewer), a foreign directory ("mirror": exists at the sandbox top and holds a decoy; or a
// sibling), then the COMPLETE absolute path of the root again (token rootTok, expanded by executor / model / monitor),
// optionally the unpack dir's relative path, then a rest.  The compiled path CONTAINS the root path but does not
// start with it; its depth and its last elements equal those of paths inside the root.
func (g *gctx) embedRoot() string {
	rng := g.rng
	g.hostile = true
	k := g.depth + g.extraUp + rng.Intn(3)
	if rng.Intn(5) == 0 {
		k = 1 + rng.Intn(g.depth+g.extraUp)
	}
	var s []string
	if rng.Intn(6) == 0 {
		s = append(s, pick(rng, insidePool))
		k++
	}
	for i := 0; i < k; i++ {
		s = append(s, "..")
	}
	switch rng.Intn(8) {
	case 0:
		s = append(s, pick(rng, g.siblings()))
	case 1:
		s = append(s, "backup-"+g.rootName)
	case 2: // no foreign directory: the root path directly below where the climb ended
	default:
		s = append(s, "mirror")
	}
	s = append(s, rootTok)
	if g.comp == "upd" && rng.Intn(2) == 0 {
		s = append(s, "tmp", "thing_v1-0-0")
	}
	switch rng.Intn(6) {
	case 0:
	case 1:
		s = append(s, "")
	case 2:
		s = append(s, pick(rng, g.staticNames()))
	default:
		s = append(s, pick(rng, decoyPool))
	}
	return strings.Join(s, "/")
}

func hxEntries(es []zentry) string {
	if len(es) == 0 {
		return "_"
	}
	ys := make([]string, len(es))
	for i, e := range es {
		ys[i] = hx(e.name)
		if e.name == "" {
			ys[i] = "-"
		}
		if e.dir {
			ys[i] += ":d"
		}
	}
	return strings.Join(ys, ",")
}

// unzSeq: archives as SEQUENCES of entries in which the verdict on one entry could depend on the entries before it:
// an in-scope directory entry followed (directly or later) by a name that extends the directory's name textually and
// then climbs out; directory entries without trailing separator (directory by attributes); duplicates (file/file,
// dir/dir, file then directory and the reverse); a file entry followed by an entry below it; the hostile entry first,
// in the middle, last; "./" and "//" spellings; alternative separators after a real directory entry; names built
// from the root's absolute path after a directory entry.
func (g *gctx) unzSeq() ([]zentry, string) {
	rng := g.rng
	g.hostile = true
	g.extraUp = 2
	defer func() { g.extraUp = 0 }()
	D := pick(rng, []string{"sub", "a", "d", "pkg", "a/b", "sub/x/y"})
	dsegs := strings.Split(D, "/")
	var es []zentry
	// the chain of directory entries leading to D
	byAttr := rng.Intn(3) == 0
	for i := range dsegs {
		n := strings.Join(dsegs[:i+1], "/")
		if byAttr {
			es = append(es, zentry{n, true})
		} else {
			es = append(es, zentry{n + "/", false})
		}
	}
	filler := func() {
		for i := rng.Intn(3); i > 0; i-- {
			es = append(es, zentry{D + "/" + pick(rng, []string{"f", "g", "h", "readme"}), false})
		}
	}
	up := func(min int) string {
		k := len(dsegs) + min + rng.Intn(g.depth+4)
		return strings.Join(g.climbSegs(k), "/")
	}
	cls := ""
	switch x := rng.Intn(100); {
	case x < 34:
		cls = "dir-then-extends-and-climbs"
		filler()
		n := D + "/" + up(1)
		dir := rng.Intn(3) == 0
		if dir && rng.Intn(2) == 0 {
			n, dir = n+"/", false
		}
		es = append(es, zentry{n, dir})
		if rng.Intn(2) == 0 {
			es = append(es, zentry{"later", false})
		}
	case x < 42:
		cls = "dir-then-textual-extension"
		es = append(es, zentry{D + pick(rng, []string{"..", "-x", ".", " ", "x"}) + "/" + up(1), false})
	case x < 50:
		cls = "hostile-first-or-middle"
		h := zentry{D + "/" + up(1), false}
		if rng.Intn(2) == 0 {
			es = append([]zentry{h}, es...)
		} else {
			es = append(es[:1:1], append([]zentry{h}, es[1:]...)...)
		}
		filler()
	case x < 62:
		cls = "duplicates"
		switch rng.Intn(5) {
		case 0:
			es = append(es, zentry{D + "/f", false}, zentry{D + "/f", false})
		case 1:
			es = append(es, zentry{D + "/", false})
		case 2:
			es = append(es, zentry{D + "/f", false}, zentry{D + "/f/", false})
		case 3:
			es = append(es, zentry{D, false})
		default:
			es = append(es, zentry{D + "/f", false}, zentry{D + "/./f", false}, zentry{D + "//f", false}, zentry{D + "/x/../f", false})
		}
		if rng.Intn(2) == 0 {
			es = append(es, zentry{D + "/" + up(1), false})
		}
	case x < 72:
		cls = "file-then-entry-below"
		es = append(es, zentry{D + "/f", false})
		if rng.Intn(2) == 0 {
			es = append(es, zentry{D + "/f/x", false})
		}
		es = append(es, zentry{D + "/f/" + up(2), rng.Intn(4) == 0})
	case x < 80:
		cls = "spellings"
		sp := pick(rng, []string{"./" + D, D + "/.", D + "//", "x/../" + D, "/" + D})
		es = append(es, zentry{sp + "/", false}, zentry{sp + "/" + up(1), false})
	case x < 92:
		cls = "dir-then-altsep"
		sep := pick(rng, altSeps)
		k := len(dsegs) + 1 + rng.Intn(g.depth+4)
		n := D + "/" + strings.Join(g.climbSegs(k), sep)
		if rng.Intn(3) == 0 {
			n = D + sep + strings.Join(g.climbSegs(k), sep)
		}
		filler()
		es = append(es, zentry{n, rng.Intn(5) == 0})
	default:
		cls = "dir-then-embed-root"
		filler()
		n := D + "/" + strings.Repeat("../", len(dsegs)) + g.embedRoot()
		if !g.tokOK(g.vroot+"/tmp/thing_v1-0-0", n) {
			n = D + "/" + up(1)
		}
		es = append(es, zentry{n, false})
	}
	return es, cls
}

// absName generates an absolute (virtual) path or a relative one for the APIs that take paths.
func (g *gctx) absName() (string, string) {
	n, cls := g.absName0()
	if strings.Contains(n, rootTok) && !g.tokOK(g.vcwd, n) {
		return g.vroot + "/" + g.benign(), "root+benign"
	}
	return n, cls
}

func (g *gctx) absName0() (string, string) {
	rng := g.rng
	switch x := rng.Intn(100); {
	case x < 45:
		n, cls := g.relName()
		sep := "/"
		if rng.Intn(12) == 0 {
			sep = "//"
		}
		return g.vroot + sep + n, "root+" + cls
	case x < 70:
		g.hostile = true
		suf := pick(rng, []string{"", "/", "/.", "/..", "-other", "-other/x", "-other/sub/new", "x", "x/y", "/../" + g.rootName + "-other/z", "//a", "/./a",
			"/../" + g.rootName, "/../" + g.rootName + "/k", "-new", "-new/k", "/a/../../" + g.rootName + "x/q", ".", " ",
			"/../" + caseVariant(g.rootName), "/../" + caseVariant(g.rootName) + "/sub", "/../" + caseVariant(g.rootName) + "/sub/new", "/a/../../" + caseVariant(g.rootName) + "/k"})
		return g.vroot + suf, "root-suffix"
	case x < 82:
		g.hostile = true
		anc := strings.Split(g.rootRel, "/")
		k := rng.Intn(len(anc))
		p := SB
		if k > 0 {
			p += "/" + strings.Join(anc[:k], "/")
		}
		if rng.Intn(2) == 0 {
			p += "/" + pick(rng, append(g.siblings(), "new", "note.txt"))
		}
		return p, "ancestor"
	case x < 88:
		g.hostile = true
		return pick(rng, []string{"/", "/dev/shm/verif-c18.never/x", "/var/tmp/verif-c18.never/x", SB, SB + "/", "//", "/.."}), "absolute"
	case x < 91:
		// the sibling that differs from the root in letter case only, named absolutely
		g.hostile = true
		return g.vroot[:len(g.vroot)-len(g.rootName)] + caseVariant(g.rootName) + pick(rng, []string{"", "/", "/sub", "/sub/new", "/plain.txt", "/evil_v6-6-6", "/secret", "/k"}), "case-variant-abs"
	case x < 94:
		// the foreign tree that embeds the root's absolute path, named absolutely
		g.hostile = true
		return SB + "/mirror/" + rootTok + pick(rng, []string{"", "/", "/sub", "/sub/new", "/plain.txt", "/evil_v6-6-6", "/tmp/thing_v1-0-0/x", "/secret"}), "embed-root-abs"
	default:
		n, cls := g.relName()
		return n, "relative+" + cls
	}
}

// dshOps generates a history of calls on one DirStructure tree: ChildDir with plain, multi-element and escaping
// names on any node; Ensure on any node; Ensure* requests aimed at the registered children (every element of the
// name a child was registered with, in particular its base name, requested below the child's parent — directly,
// from the root, or through another node), and generic names.  The generator mirrors the node numbering
// (a repeated ChildDir with the same name on the same node returns the existing child).
// climbsOut: would resolving p lexically from "/" leave the first level of the virtual world (the disposable case
// directory)?  Chained ChildDir names add up their parent references; no generated request may point above it.
func climbsOut(p string) bool {
	depth := 0
	for _, sg := range strings.Split(p, "/") {
		switch sg {
		case "", ".":
		case "..":
			if depth <= 1 {
				return true
			}
			depth--
		default:
			depth++
		}
	}
	return false
}

func (g *gctx) dshOps(n int) []string {
	rng := g.rng
	type node struct {
		parent int
		name   string
		vpath  string // as named: parent's path + "/" + name (unresolved)
		tok    bool   // the path embeds the root's absolute path (rootTok): no parent references and no requests below it
	}
	nodes := []node{{-1, "", g.vroot, false}}
	idx := map[string]int{}
	perms := []string{"700", "750", "755", "711", "770"}
	var ops []string
	cnt := func(op, cls string) { g.r.Count("gen:" + op + ":" + cls) }
	chd := func(h int, name, cls string) {
		if climbsOut(nodes[h].vpath + "/" + name) {
			name, cls = pick(rng, []string{"up", "../up"}), "plain"
			if climbsOut(nodes[h].vpath + "/" + name) {
				name = "up"
			}
		}
		if nodes[h].tok && (strings.Contains(name, "..") || strings.Contains(name, rootTok)) || strings.Contains(name, rootTok) && !g.tokOK(nodes[h].vpath, name) {
			name, cls = "up", "plain"
		}
		ops = append(ops, fmt.Sprintf("chd %d %s %s", h, hx(name), pick(rng, perms)))
		cnt("chd", cls)
		k := fmt.Sprintf("%d/%s", h, name)
		if _, ok := idx[k]; !ok {
			idx[k] = len(nodes)
			nodes = append(nodes, node{h, name, nodes[h].vpath + "/" + name, nodes[h].tok || strings.Contains(name, rootTok)})
		}
	}
	for len(ops) < n {
		h := rng.Intn(len(nodes))
		if rng.Intn(3) != 0 {
			h = 0
			if len(nodes) > 1 && rng.Intn(3) == 0 {
				h = 1 + rng.Intn(len(nodes)-1)
			}
		}
		switch x := rng.Intn(100); {
		case x < 30 || len(nodes) == 1:
			switch y := rng.Intn(100); {
			case y < 25:
				chd(h, pick(rng, []string{"tmp", "sub", "a", "b", "evil", "k"}), "plain")
			case y < 40:
				chd(h, pick(rng, []string{"tmp/", "./tmp", "a/b", "a/../b", "tmp/sub", "/abs", "", ".", "a//b", "x/./y"}), "multi-inside")
			case y < 80:
				g.hostile = true
				chd(h, pick(rng, []string{"../evil", "../" + g.rootName + "-other", "../" + g.rootName + "x", "../other", "x/../../evil", "..", "../..",
					"../" + g.rootName, "../" + g.rootName + "/k", "../" + g.rootName + "-new", "../../evil", "../evil/sub", "a/../../" + g.rootName + "-other/sub",
					"../top.txt", "../note.txt", "../" + g.rootName + "-other/plain.txt"}), "escaping")
			default:
				name, cls := g.relName()
				chd(h, name, cls)
			}
		case x < 40:
			ops = append(ops, fmt.Sprintf("hens %d", h))
			cnt("hens", "node")
		case nodes[h].tok:
			// a node whose path embeds the root's path: Ensure (refused: it is outside), or a plain request below it
			if rng.Intn(2) == 0 {
				ops = append(ops, fmt.Sprintf("hens %d", h))
				cnt("hens", "embed-root-node")
			} else {
				ops = append(ops, fmt.Sprintf("henr %d %s", h, hx(g.benign())))
				cnt("henr", "embed-root-node")
			}
		case x < 75:
			// aim at a registered child: an element of its name, requested below its parent
			c := nodes[1+rng.Intn(len(nodes)-1)]
			if c.tok || nodes[c.parent].tok {
				ops = append(ops, fmt.Sprintf("hens %d", c.parent))
				cnt("hens", "node")
				continue
			}
			var segs []string
			for _, sg := range strings.Split(c.name, "/") {
				if sg != "" && sg != "." && sg != ".." {
					segs = append(segs, sg)
				}
			}
			if len(segs) == 0 {
				segs = []string{"tmp"}
			}
			sg := segs[len(segs)-1]
			cls := "child-base"
			if rng.Intn(4) == 0 {
				sg, cls = pick(rng, segs), "child-element"
			}
			rel := sg
			for i := rng.Intn(3); i > 0; i-- {
				rel += "/" + pick(rng, insidePool)
			}
			switch rng.Intn(4) {
			case 0:
				ops = append(ops, fmt.Sprintf("henr %d %s", c.parent, hx(rel)))
				cnt("henr", cls)
			case 1:
				ops = append(ops, fmt.Sprintf("hend %d %s", c.parent, hxList(strings.Split(rel, "/"))))
				cnt("hend", cls)
			case 2:
				// the same request as an absolute path, through any node
				ops = append(ops, fmt.Sprintf("hena %d %s", h, hx(nodes[c.parent].vpath+"/"+rel)))
				cnt("hena", cls)
			default:
				// below the root, whatever the child's parent is
				ops = append(ops, fmt.Sprintf("henr 0 %s", hx(rel)))
				cnt("henr", cls+"-from-root")
			}
		case x < 83:
			name, cls := g.relName()
			if climbsOut(nodes[h].vpath+"/"+name) || strings.Contains(name, rootTok) && !g.tokOK(nodes[h].vpath, name) {
				name, cls = g.benign(), "benign"
			}
			ops = append(ops, fmt.Sprintf("henr %d %s", h, hx(name)))
			cnt("henr", cls)
		case x < 90:
			name, cls := g.relName()
			if climbsOut(nodes[h].vpath+"/"+name) || strings.Contains(name, rootTok) && !g.tokOK(nodes[h].vpath, name) {
				name, cls = g.benign(), "benign"
			}
			ops = append(ops, fmt.Sprintf("hend %d %s", h, hxList(strings.Split(name, "/"))))
			cnt("hend", cls)
		default:
			name, cls := g.absName()
			ops = append(ops, fmt.Sprintf("hena %d %s", h, hx(name)))
			cnt("hena", cls)
		}
	}
	return ops
}

func emitCase(r *hxlib.Run, emit func(hxlib.Case), comp, rootRel, variant, cwdRel string, noModel bool, kind string, ops func(g *gctx) []string) {
	g := &gctx{r: r, rng: r.Rng, comp: comp, rootRel: rootRel}
	segs := strings.Split(rootRel, "/")
	g.rootName, g.depth, g.vroot = segs[len(segs)-1], len(segs), SB+"/"+rootRel
	g.vcwd = SB
	if cwdRel != "" {
		g.vcwd = SB + "/" + cwdRel
	}
	if variant == "slash" {
		g.vroot += "" // the structure's Path has the trailing slash; names are built from the clean root
	}
	cw := "-"
	if cwdRel != "" {
		cw = hx(cwdRel)
	}
	lines := []string{fmt.Sprintf("sb %s %s %s %s", comp, hx(rootRel), variant, cw)}
	lines = append(lines, ops(g)...)
	r.Count("root-depth:" + fmt.Sprint(g.depth))
	r.Count("variant:" + comp + ":" + variant)
	emit(hxlib.Case{Lines: lines, NonTrivial: g.hostile, Kind: kind, NoModel: noModel})
}

func cwdChoices(rootRel string) []string {
	out := []string{"", rootRel}
	if i := strings.LastIndex(rootRel, "/"); i >= 0 {
		out = append(out, rootRel[:i])
	}
	out = append(out, rootRel+"-other")
	return out
}

func generate(r *hxlib.Run, emit func(hxlib.Case)) {
	theRun = r
	rng := r.Rng
	count := func(op, cls string) { r.Count("gen:" + op + ":" + cls) }

	// ---- regression corpus: the four observed defects, first --------------------------------------
	emitCase(r, emit, "fst", "w/a/root", "plain", "", false, "corpus", func(g *gctx) []string {
		g.hostile = true
		return []string{"put " + hx("../root-other/evil"), "get " + hx("../root-other/secret"), "del " + hx("../root-other/secret"),
			"qry " + hx("../root-other"), "qry " + hx("../root-other/"), "put " + hx("."), "del " + hx("d/../.."), "put " + hx("../rootx"), "qry " + hx("../rootx/q"),
			"get " + hx("a"), "gmt " + hx("d/b"), "gmt " + hx("../root-other/secret"), "gmt " + hx("nope"), "qry -", "put " + hx("n/m"), "del " + hx("a")}
	})
	emitCase(r, emit, "ds", "w/a/root", "plain", "", false, "corpus", func(g *gctx) []string {
		g.hostile = true
		return []string{"ens r " + hx(g.vroot+"/../outside/x"), "ens r " + hx(g.vroot+"/../root-other/sub/new"), "ens c " + hx(g.vroot+"/a/../../rootx/q"),
			"ens r " + hx(g.vroot+"-other/k"), "enr r " + hx("../other/k"), "end r " + hx("..") + "," + hx("other") + "," + hx("k"),
			"ens r " + hx(g.vroot+"/tmp/sub/k"), "ens r " + hx(g.vroot), "ens r " + hx(g.vroot+"/")}
	})
	emitCase(r, emit, "upd", "w/a/root", "plain", "w", false, "corpus", func(g *gctx) []string {
		g.hostile = true
		return []string{"scan " + hx(g.vroot+"-other"), "scan " + hx(g.vroot+"x"), "scan " + hx("a/root-other"), "scan " + hx(g.vroot+"/../root-other"),
			"scan -", "scan " + hx(g.vroot+"/all"), "scan " + hx("a/root/all/sub"),
			"unz " + hxList([]string{"ok.txt", "../../../root-other/evil"}), "unz " + hxList([]string{"../../../../note.txt"}),
			"unz " + hxList([]string{"d/", "d/f", "../x"}), "unz " + hxList([]string{"d/", "d/f", "g"}), "unz " + hxList([]string{"/abs"})}
	})

	emitCase(r, emit, "upd", "w/a/root", "nested", "w", false, "corpus", func(g *gctx) []string {
		g.hostile = true
		return []string{"scan " + hx(g.vroot+"-other"), "scan " + hx(g.vroot+"/../other"), "scan " + hx(SB+"/w/a"), "scan " + hx(SB+"/w/a/missing"), "scan " + hx("a/root-old"),
			"scan -", "scan " + hx(g.vroot+"/all"), "unz " + hxList([]string{"ok.txt", "../../../root-other/evil"}), "unz " + hxList([]string{"d/", "d/f", "g"})}
	})

	// the database directory removed / replaced by a file / changed while the storage is open, prefixes resolving to the root
	emitCase(r, emit, "fst", "w/db", "plain", "", false, "corpus", func(g *gctx) []string {
		g.hostile = true
		var ops []string
		for _, st := range []string{"rmroot", "rootfile", "rmd", "dfile", "extra", "bad", "empty"} {
			ops = append(ops, "fss "+st, "qry -", "qry "+hx("."), "qry "+hx("../db"), "qry "+hx("../db/"), "qry "+hx("d"), "qry "+hx("d/"), "qry "+hx("d/e"),
				"qry "+hx("../db-other"), "get "+hx("a"), "get "+hx("d/b"), "put "+hx("n/m"), "del "+hx("d/b"), "qry "+hx("x/y"))
		}
		return ops
	})

	// histories on one DirStructure tree (seeded C18-r2-2: a child registered under an escaping name serves a later in-scope request)
	emitCase(r, emit, "dsh", "w/a/root", "plain", "", false, "corpus", func(g *gctx) []string {
		g.hostile = true
		return []string{"chd 0 " + hx("../evil") + " 700", "hens 1", "henr 0 " + hx("evil/sub"), "chd 0 " + hx("../root-other") + " 700",
			"hena 0 " + hx(g.vroot+"/root-other"), "chd 0 " + hx("tmp") + " 700", "chd 2 " + hx("sub") + " 750", "chd 3 " + hx("../../../rootx") + " 711",
			"hend 3 " + hxList([]string{"sub", "rootx", "q"}), "hena 4 " + hx(g.vroot+"/tmp/rootx"), "chd 0 " + hx("tmp") + " 711", "henr 0 " + hx("tmp/./k"),
			"chd 0 " + hx("./tmp") + " 750", "henr 0 " + hx("tmp")}
	})

	// round 3b: archives as sequences (an in-scope directory entry, then a name that extends it textually and climbs out;
	// directory by attributes; duplicates; file then entry below), the name alphabet (backslashes and other bytes that some
	// layer reads as separators), names built from the root's own absolute path (seeded C18-r3-1, r3-3, r3-2)
	for _, variant := range []string{"plain", "nested"} {
		emitCase(r, emit, "upd", "w/a/root", variant, "w", false, "corpus", func(g *gctx) []string {
			g.hostile = true
			z := func(es ...zentry) string { return "unz " + hxEntries(es) }
			f := func(n string) zentry { return zentry{n, false} }
			return []string{z(f("sub/"), f("sub/../../escaped-1.txt")), z(f("sub/"), f("sub/../../../../escaped-2.txt")),
				z(f("a/"), f("a/b/"), f("a/b/../../../../../escaped-dir/")), z(f("sub/"), f("sub/f"), f("sub/../../../../../root-other/evil")),
				z(zentry{"sub", true}, f("sub/f"), f("sub/../../../../x")), z(zentry{"sub", true}, f("sub-x/../../../../x")),
				z(f("..\\x")), z(f("..\\..\\..\\x")), z(f("sub/"), f("sub/..\\..\\..\\..\\x")), z(zentry{"..\\..\\..\\dir", true}), z(f("..\\..\\..\\dir/")),
				z(f("..:..:..:x")), z(f("..\xef\xbc\x8f..\xef\xbc\x8f..\xef\xbc\x8fx")), z(f("%2e%2e/%2e%2e/%2e%2e/x")), z(f(".. /.. /.. /x")), z(f("..%2f..%2f..%2fx")),
				z(f("f"), f("f/x")), z(f("f"), f("f")), z(f("d/"), f("d/")), z(f("d/"), f("d")), z(f("d"), f("d/")), z(zentry{"d/", true}, f("d/g")),
				z(f("../../../mirror/" + rootTok + "/tmp/thing_v1-0-0/x")), z(f("../../../../../mirror/" + rootTok + "/evil_v6-6-6")),
				z(f("sub/"), f("sub/../../../../../../mirror/" + rootTok + "/x")),
				"scan " + hx(SB+"/mirror/"+rootTok), "scan " + hx(SB+"/mirror/"+rootTok+"/sub"), "scan " + hx("mirror/"+rootTok), "scan " + hx(g.vroot+"/../../../mirror/"+rootTok)}
		})
	}
	emitCase(r, emit, "fst", "w/a/root", "plain", "", false, "corpus", func(g *gctx) []string {
		g.hostile = true
		m := "../../../mirror/" + rootTok
		return []string{"get " + hx(m+"/secret"), "gmt " + hx(m+"/secret"), "put " + hx(m+"/created/here"), "put " + hx(m+"/secret"), "del " + hx(m+"/secret"),
			"qry " + hx(m), "qry " + hx(m+"/"), "qry " + hx(m+"/sec"), "get " + hx("../../../../mirror/"+rootTok+"/secret"), "get " + hx("../../"+rootTok+"/a"),
			"get " + hx("../root-other/"+rootTok+"/secret"), "put " + hx("..\\..\\x"), "get " + hx("..\\root-other\\secret"), "qry " + hx("..\\"), "del " + hx("..:..:x"),
			"put " + hx("d/..\\..\\..\\x"), "get " + hx("a")}
	})
	emitCase(r, emit, "ds", "w/a/root", "plain", "", false, "corpus", func(g *gctx) []string {
		g.hostile = true
		return []string{"ens r " + hx(SB+"/mirror/"+rootTok+"/sub/new"), "ens c " + hx(g.vroot+"/../../../mirror/"+rootTok+"/k"), "enr r " + hx("../../../mirror/"+rootTok+"/k"),
			"end r " + hxList([]string{"..", "..", "..", "mirror", rootTok, "k"}), "enr r " + hx("..\\..\\k"), "ens r " + hx(g.vroot+"/..\\..\\k"), "end r " + hxList([]string{"..\\..", "k"})}
	})
	emitCase(r, emit, "dsh", "w/a/root", "plain", "", false, "corpus", func(g *gctx) []string {
		g.hostile = true
		return []string{"chd 0 " + hx("../../../mirror/"+rootTok) + " 700", "hens 1", "henr 1 " + hx("sub"),
			"hena 0 " + hx(SB+"/mirror/"+rootTok+"/sub/new"), "chd 0 " + hx("..\\..\\evil") + " 750", "hens 2", "henr 0 " + hx("evil")}
	})

	// round 5c: the sibling that differs from the root's name in letter case only (seeded C18-r5-1: case-insensitive scope comparison)
	for _, rr := range []string{"w/a/root", "w/db", "r"} {
		emitCase(r, emit, "fst", rr, "plain", "", false, "corpus", func(g *gctx) []string {
			g.hostile = true
			v := "../" + caseVariant(g.rootName)
			return []string{"qry " + hx(v), "qry " + hx(v+"/"), "qry " + hx(v+"/sec"), "qry " + hx(v+"/secret"), "qry " + hx(v+"/sub/"), "qry " + hx(v+"/s"), "qry " + hx("d/../"+v+"/pl"),
				"get " + hx(v+"/secret"), "gmt " + hx(v+"/secret"), "put " + hx(v+"/created"), "del " + hx(v+"/secret"), "qry " + hx("../"+strings.ToUpper(g.rootName)+"/x"), "get " + hx("a"), "qry -"}
		})
	}
	emitCase(r, emit, "ds", "w/a/root", "plain", "", false, "corpus", func(g *gctx) []string {
		g.hostile = true
		return []string{"ens r " + hx(SB+"/w/a/Root/sub/new"), "ens c " + hx(g.vroot+"/../Root/k"), "enr r " + hx("../Root/k"), "end r " + hxList([]string{"..", "Root", "k"}), "ens r " + hx(SB+"/w/a/Root")}
	})
	emitCase(r, emit, "dsh", "w/a/root", "plain", "", false, "corpus", func(g *gctx) []string {
		g.hostile = true
		return []string{"chd 0 " + hx("../Root") + " 700", "hens 1", "henr 1 " + hx("sub"), "hena 0 " + hx(SB+"/w/a/Root/sub/new"), "henr 0 " + hx("../Root/k")}
	})
	for _, variant := range []string{"plain", "nested"} {
		emitCase(r, emit, "upd", "w/a/root", variant, "w", false, "corpus", func(g *gctx) []string {
			g.hostile = true
			return []string{"scan " + hx(SB+"/w/a/Root"), "scan " + hx(SB+"/w/a/Root/sub"), "scan " + hx("a/Root"), "scan " + hx(g.vroot+"/../Root"),
				"unz " + hxList([]string{"ok.txt", "../../../Root/evil"}), "unz " + hxList([]string{"../../../Root/sub/x"}), "unz " + hxList([]string{"d/", "d/../../../../Root/evil_v6-6-6"})}
		})
	}

	// ---- generated cases ----------------------------------------------------------------------------
	nCases := r.Budget(1500, 26000)
	for ci := 0; ci < nCases; ci++ {
		rootRel := pick(rng, rootRels)
		comp := []string{"fst", "ds", "upd", "dsh"}[ci%4]
		variant := "plain"
		if comp == "dsh" {
			variant = []string{"plain", "plain", "slash", "noexist"}[rng.Intn(4)]
			emitCase(r, emit, comp, rootRel, variant, "", false, comp, func(g *gctx) []string { return g.dshOps(8 + rng.Intn(17)) })
			continue
		}
		if comp == "ds" {
			variant = []string{"plain", "plain", "slash", "noexist"}[rng.Intn(4)]
		}
		if comp == "upd" && rng.Intn(3) == 0 {
			variant = "nested"
		}
		cwd := pick(rng, cwdChoices(rootRel))
		emitCase(r, emit, comp, rootRel, variant, cwd, false, comp, func(g *gctx) []string {
			var ops []string
			n := 8 + rng.Intn(17)
			if comp == "upd" {
				n = 6 + rng.Intn(8)
			}
			for i := 0; i < n; i++ {
				switch comp {
				case "fst":
					op := []string{"put", "get", "del", "qry", "get", "put", "qry", "gmt"}[rng.Intn(8)]
					name, cls := g.relName()
					if rng.Intn(25) == 0 {
						name, cls = "", "empty"
					} else if (op == "get" || op == "gmt" || op == "del" || op == "qry") && rng.Intn(4) == 0 {
						// an existing entry, possibly reached through a detour
						name, cls = pick(rng, g.staticNames()), "existing"
						switch rng.Intn(4) {
						case 0:
							name, cls = "x/../"+name, "existing-detour"
						case 1:
							name, cls = "../"+g.rootName+"/"+name, "existing-reenter"
							g.hostile = true
						}
					}
					if rng.Intn(3) == 0 {
						// a name that resolves to the root itself
						name, cls = pick(rng, []string{"", ".", "./", "../" + g.rootName, "../" + g.rootName + "/", "d/..", "d/../", "x/y/../..", "../" + g.rootName + "/."}), "root-itself"
						g.hostile = true
					}
					if i == 0 && rng.Intn(2) == 0 || rng.Intn(8) == 0 {
						// the file system below the root changes behind the back of the open database
						st := pick(rng, []string{"rmroot", "rmroot", "rootfile", "rootfile", "rmd", "dfile", "extra", "bad", "empty", "plain"})
						ops = append(ops, "fss "+st)
						count("fss", st)
					}
					ops = append(ops, op+" "+hx(name))
					count(op, cls)
				case "ds":
					switch rng.Intn(5) {
					case 0:
						name, cls := g.relName()
						ops = append(ops, "enr r "+hx(name))
						count("enr", cls)
					case 1:
						name, cls := g.relName()
						ops = append(ops, "end r "+hxList(strings.Split(name, "/")))
						count("end", cls)
					default:
						name, cls := g.absName()
						ops = append(ops, "ens "+pick(rng, []string{"r", "r", "c", "g"})+" "+hx(name))
						count("ens", cls)
					}
				case "upd":
					if rng.Intn(2) == 0 {
						name, cls := g.absName()
						if rng.Intn(20) == 0 {
							name, cls = "", "empty"
						}
						ops = append(ops, "scan "+hx(name))
						count("scan", cls)
					} else if rng.Intn(4) == 0 {
						es, cls := g.unzSeq()
						ops = append(ops, "unz "+hxEntries(es))
						count("unz-seq", cls)
					} else {
						k := 1 + rng.Intn(5)
						var names []string
						g.extraUp = 2
						for j := 0; j < k; j++ {
							var nm, cls string
							if rng.Intn(3) == 0 || j < k-1 && rng.Intn(2) == 0 {
								// a well-formed tree in archive order (a directory entry precedes its content)
								tree := []string{"f1", "d/", "d/f", "d/g/", "d/g/h", "f2"}
								nm, cls = tree[(j+len(names))%len(tree)], "plain-entry"
								if rng.Intn(6) == 0 {
									nm = pick(rng, tree)
								}
							} else {
								nm, cls = g.relName()
								if (cls == "benign" || cls == "existing") && rng.Intn(2) == 0 {
									nm = nm[strings.LastIndex(nm, "/")+1:] // a single segment: its parent exists
								}
								if rng.Intn(4) == 0 && !strings.HasSuffix(nm, "/") {
									nm += "/"
								}
							}
							names = append(names, nm)
							count("unz-entry", cls)
						}
						g.extraUp = 0
						ops = append(ops, "unz "+hxList(names))
					}
				}
			}
			return ops
		})
	}

	// ---- malformed stream: implementation + oracle only ---------------------------------------------
	for ci := 0; ci < r.Budget(15, 200); ci++ {
		rootRel := pick(rng, rootRels)
		comp := []string{"fst", "ds", "upd"}[ci%3]
		emitCase(r, emit, comp, rootRel, "plain", "", true, "malformed", func(g *gctx) []string {
			g.hostile = true
			var ops []string
			for i := 0; i < 8; i++ {
				var name string
				switch rng.Intn(10) {
				case 7:
					// NUL in place of the separator, and after the parent reference (C-string truncation: "..\x00" read as "..")
					name = strings.Join(g.climbSegs(g.depth+1+rng.Intn(3)), pick(rng, []string{"\x00", "\x00/", "/\x00"}))
				case 8:
					name = pick(rng, []string{"sub", "a"}) + "/" + strings.Repeat("..\x00/", g.depth+3) + pick(rng, []string{"x", g.rootName + "-other/evil"})
				case 9:
					name = strings.Repeat("../", g.depth+2) + "mirror/" + rootTok + "/x\x00"
				case 5:
					name = "ok/a\x00b/" + pick(rng, insidePool) // stays inside the root: the OS refuses the name
				case 6:
					name = pick(rng, insidePool) + "/" + strings.Repeat("z", 255+rng.Intn(3)) + "/k" // inside the root, at and beyond NAME_MAX
				case 0:
					name = "a\x00/../../" + g.rootName + "-other/x"
				case 1:
					name = strings.Repeat("../", g.depth+6) + "etc/c18-never" // stays inside the disposable case directory
				case 2:
					name = strings.Repeat("z", 300) + "/../../" + g.rootName + "-other/evil"
				case 3:
					name = "../" + g.rootName + "-other/" + strings.Repeat("y", 300)
				default:
					// NAME_MAX boundary: 255 bytes is a legal name, 256 is not
					name = strings.Repeat("n", 255+rng.Intn(2)) + "/../../" + g.rootName + "x/" + strings.Repeat("m", 255+rng.Intn(2))
				}
				switch comp {
				case "fst":
					ops = append(ops, pick(rng, []string{"put", "get", "gmt", "del", "qry"})+" "+hx(name))
				case "ds":
					if rng.Intn(2) == 0 {
						ops = append(ops, "enr r "+hx(name))
					} else {
						ops = append(ops, "ens r "+hx(g.vroot+"/"+name))
					}
				case "upd":
					if rng.Intn(2) == 0 {
						ops = append(ops, "scan "+hx(g.vroot+"/"+name))
					} else {
						ops = append(ops, "unz "+hxList([]string{"ok", name}))
					}
				}
				count("malformed", comp)
			}
			return ops
		})
	}

	// ---- lib: the re-implemented stdlib functions ----------------------------------------------------
	var small []string
	var rec func(p string, n int)
	rec = func(p string, n int) {
		small = append(small, p)
		if n == 0 {
			return
		}
		for _, c := range []string{"/", ".", "a"} {
			rec(p+c, n-1)
		}
	}
	rec("", r.Budget(6, 8))
	libCase := func(kind string, lines []string) {
		emit(hxlib.Case{Lines: append([]string{"sb lib " + hx("root") + " plain -"}, lines...), NonTrivial: true, Kind: kind})
	}
	var batch []string
	flush := func(kind string) {
		if len(batch) > 0 {
			libCase(kind, batch)
			batch = nil
		}
	}
	for _, p := range small {
		batch = append(batch, "clean "+hx(p), "dir "+hx(p), "base "+hx(p), "bridge "+hx(p))
		if len(batch) >= 64 {
			flush("lib-exhaustive")
		}
	}
	flush("lib-exhaustive")
	var short []string
	for _, p := range small {
		if len(p) <= r.Budget(3, 4) {
			short = append(short, p)
		}
	}
	for _, a := range short {
		for _, b := range short {
			batch = append(batch, "join "+hx(a)+" "+hx(b), "rel "+hx(a)+" "+hx(b))
			if len(batch) >= 64 {
				flush("lib-exhaustive-pairs")
			}
		}
	}
	flush("lib-exhaustive-pairs")
	alpha := []string{"/", "/", ".", ".", "a", "b", "..", "-", "/../", "/./", "root", "root-other"}
	rnd := func() string {
		n := rng.Intn(9)
		var sb strings.Builder
		for i := 0; i < n; i++ {
			sb.WriteString(pick(rng, alpha))
		}
		return sb.String()
	}
	for i := 0; i < r.Budget(6000, 300000); i++ {
		a, b := rnd(), rnd()
		if rng.Intn(3) == 0 {
			b = a + "/" + b // related paths: Rel has something to strip
		}
		batch = append(batch, "clean "+hx(a), "dir "+hx(a), "base "+hx(a), "join "+hx(a)+" "+hx(b), "rel "+hx(a)+" "+hx(b), "bridge "+hx(b),
			"joinl "+hxList([]string{a, b, rnd()}))
		if len(batch) >= 63 {
			flush("lib-random")
		}
	}
	flush("lib-random")
}
