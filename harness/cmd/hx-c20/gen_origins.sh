#!/bin/sh
# regenerates the copies orgb/orgc of the origin package orga
cd "$(dirname "$0")"
for o in orgb orgc; do
  mkdir -p $o
  sed "s/orga/$o/g" orga/orga.go > $o/$o.go
done
