// hx-c20: tie and property monitor for C20 (package log: no enabled line lost, duplicated or reordered).
//
// Every scenario runs on the REAL log package in a child process of this binary (the logger starts once
// per process). The child records, through the verif hooks, every step of the writer goroutine, the path of
// every producer call, the calls each goroutine made together with the level configuration in force, and
// what the adapter received; the recorded trace is the case. The compiled Lean model replays the writer
// and producer traces through its step functions (acceptor), predicts every adapter write, and runs the
// run checker; the monitor below reads the property statement literally on the same record.
// `lv` cases probe the level filter sequentially on a logger started in this process.
package main

import (
	"bytes"
	"context"
	"encoding/hex"
	"encoding/json"
	"fmt"
	"math/rand"
	"os"
	"os/exec"
	"sort"
	"strconv"
	"strings"
	"sync"
	"sync/atomic"
	"time"

	"github.com/safing/portbase/log"

	"verifharness/hxlib"
)

func main() {
	if len(os.Args) > 1 && os.Args[1] == "child" {
		childMain()
		return
	}
	hxlib.Main(&hxlib.Harness{
		Prop: "C20",
		Rule: "scenario = 1–32 producer goroutines running generated programs (plain/formatted calls of all 6 severities from 3 origin packages, " +
			"runs of identical calls, context-tracer submissions; 'mixed' scenarios: one call site reached through a possibly-nil tracer so that a plain line and a " +
			"tracer submission of the same text/file/line/level stand next to each other in ONE writer batch, in both orders, submissions with equal and different collected lines, " +
			"the same text from another file / line / level) against the real logger in a child process, with concurrent SetLogLevel/SetPkgLevels/UnSetPkgLevels, " +
			"slow adapter (buffer overflow), paced or free-running writer, delays injected at hook points, Shutdown at the end or mid-run; " +
			"non-trivial = more than one goroutine or more than 50 lines and at least one line written; distinct by recorded trace. " +
			"lv cases: level-filter probes (global/package level × origin × severity) on an in-process logger; " +
			"at cases: AddTracer probes (global level 0–7 × package levels inactive / origin listed at trace / listed above / NOT listed × fresh, nil or already traced context; " +
			"one line of a random severity through whatever came back, Submit); every AddTracer call of a scenario is recorded with the configuration in force and replayed through the model; " +
			"scenarios 'mixed' and 'tracer' draw the three package-level states per origin under every global level (also through -log/-plog)",
		Generate: generate, NewExec: newExec, Monitor: monitor,
		DisSig: func(line, impl, model string) string {
			return "corr:" + strings.Fields(line)[0] + ":" + firstWords(model, 3)
		},
	})
}

func firstWords(s string, n int) string {
	f := strings.Fields(s)
	if len(f) > n {
		f = f[:n]
	}
	return strings.Join(f, "-")
}

// ---------------------------------------------------------------------------------------------------
// generation

func genPkgs(rng *rand.Rand) map[string]int {
	m := map[string]int{}
	names := []string{"orga", "orgb", "orgc", "zzz"}
	for _, n := range names {
		if rng.Intn(2) == 0 {
			m[n] = 1 + rng.Intn(6)
			if rng.Intn(12) == 0 {
				m[n] = []int{0, 7}[rng.Intn(2)]
			}
		}
	}
	return m
}

// genPkgStates draws package levels that put every origin into one of the three states a level decision can
// meet while package levels are active: listed at trace, listed above trace, NOT listed (the global level
// decides again).
func genPkgStates(rng *rand.Rand) map[string]int {
	m := map[string]int{}
	for _, n := range []string{"orga", "orgb", "orgc"} {
		switch rng.Intn(3) {
		case 0:
			m[n] = 1
		case 1:
			m[n] = 2 + rng.Intn(5)
			if rng.Intn(10) == 0 {
				m[n] = []int{0, 7}[rng.Intn(2)]
			}
		}
	}
	if rng.Intn(2) == 0 {
		m["zzz"] = 1 + rng.Intn(6)
	}
	return m
}

func genLevel(rng *rand.Rand) int {
	switch rng.Intn(10) {
	case 0:
		return 0
	case 1:
		return 7
	}
	return 1 + rng.Intn(6)
}

// genSpec draws one scenario. Every random choice comes from rng.
func genSpec(r *hxlib.Run, rng *rand.Rand, kind string) Spec {
	s := Spec{Seed: rng.Int63(), Glob: 1 + rng.Intn(4), Shutdown: "end", Quiesce: true}
	np := 1 + rng.Intn(4)
	items := 5 + rng.Intn(60)
	maxReps := 1
	pTr := 0.05
	pSleep := 0.05
	tracerStates := false
	switch kind {
	case "basic":
	case "dups":
		maxReps = 2 + rng.Intn(6)
	case "overflow":
		np = 2 + rng.Intn(7)
		items = 300 + rng.Intn(r.Budget(500, 2500))
		s.AdapterUs, s.AdapterEv = 20+rng.Intn(200), 1+rng.Intn(8)
		maxReps = 1 + rng.Intn(3)
		pSleep = 0
	case "burst": // one goroutine, far more lines than the buffer holds
		np = 1
		items = 1500 + rng.Intn(r.Budget(1500, 6000))
		s.AdapterUs, s.AdapterEv = 10+rng.Intn(100), 1+rng.Intn(4)
		pSleep, pTr = 0, 0.01
	case "paced":
		s.Paced, s.TriggerUs = true, 200+rng.Intn(3000)
		items = 20 + rng.Intn(200)
	case "paced-notrigger": // only forced emptying and Shutdown ever write
		s.Paced, s.TriggerUs = true, 0
		np = 1 + rng.Intn(4)
		items = 10 + rng.Intn(2500)
		pSleep = 0
	case "paced-flood": // slow trigger, more lines than the buffer holds: forced emptying races the trigger
		s.Paced, s.TriggerUs = true, 2000+rng.Intn(20000)
		np = 1 + rng.Intn(6)
		items = 800 + rng.Intn(r.Budget(1500, 4000))
		pSleep, pTr = 0, 0.01
	case "levels":
		np = 2 + rng.Intn(5)
		items = 40 + rng.Intn(200)
		n := 2 + rng.Intn(10)
		for i := 0; i < n; i++ {
			op := CtlOp{DelayUs: rng.Intn(1500)}
			switch rng.Intn(4) {
			case 0, 1:
				op.Kind, op.Level = "level", genLevel(rng)
			case 2:
				op.Kind, op.Pkgs = "pkgs", genPkgs(rng)
			default:
				op.Kind = "unset"
			}
			s.Ctl = append(s.Ctl, op)
		}
		pSleep = 0.15
	case "mid":
		np = 1 + rng.Intn(8)
		items = 50 + rng.Intn(600)
		s.Shutdown, s.MidAfterUs = "mid", rng.Intn(4000)
		if rng.Intn(2) == 0 {
			s.AdapterUs, s.AdapterEv = 20+rng.Intn(100), 1+rng.Intn(4)
		}
	case "tracer":
		pTr = 0.5
		s.Glob = 1
		if rng.Intn(2) == 0 {
			// the level decision at tracer creation: every global level × the three package-level states per origin
			s.Glob = 1 + rng.Intn(6)
			s.Pkgs = genPkgStates(rng)
			tracerStates = true
		}
	case "yield":
		np = 2 + rng.Intn(6)
		items = 20 + rng.Intn(150)
		s.YieldUs = 20 + rng.Intn(400)
		pts := []string{"p:line", "p:enq", "p:won", "p:tok", "w:token", "w:unset", "w:empty", "w:timer", "w:deq", "p:full", "w:force"}
		for _, p := range pts {
			if rng.Intn(4) == 0 {
				s.YieldAt = append(s.YieldAt, p)
			}
		}
		s.YieldPm = rng.Intn(100)
	case "smallcap": // tiny buffer: full-buffer, forced-emptying and wake-up races all the time
		s.Cap = 1 + rng.Intn(8)
		np = 2 + rng.Intn(8)
		items = 20 + rng.Intn(r.Budget(300, 1500))
		maxReps = 1 + rng.Intn(3)
		if rng.Intn(2) == 0 {
			s.Paced, s.TriggerUs = true, []int{0, 300, 3000}[rng.Intn(3)]
		}
		if rng.Intn(3) == 0 {
			s.AdapterUs, s.AdapterEv = 10+rng.Intn(100), 1+rng.Intn(4)
		}
		if rng.Intn(2) == 0 {
			s.YieldUs = 10 + rng.Intn(200)
			for _, p := range []string{"p:enq", "p:enqB", "p:won", "w:token", "w:force", "w:empty", "w:timer", "p:full", "p:forced"} {
				if rng.Intn(4) == 0 {
					s.YieldAt = append(s.YieldAt, p)
				}
			}
		}
	case "contention":
		// a large backlog is still buffered when Shutdown is requested, while the writer competes for one
		// CPU with busy goroutines: Shutdown must nevertheless write everything logged before it.
		// Observation is kept cheap (light) so that the writer spends its time in finalizeWriting's select.
		s.Cap = 150000 + rng.Intn(100000)
		s.Paced, s.TriggerUs = true, 0
		s.Procs, s.Hogs = 1, 2+rng.Intn(3)
		s.Light = true
		s.MaxPaths = 50
		np = 1 + rng.Intn(2)
		maxReps = 120
		items = (s.Cap - 5000) / 60 / np
		pSleep, pTr = 0, 0
	case "mixed":
		return genMixed(r, rng)
	case "many":
		np = 16 + rng.Intn(17)
		items = 10 + rng.Intn(r.Budget(60, 400))
		if rng.Intn(2) == 0 {
			s.AdapterUs, s.AdapterEv = 20+rng.Intn(100), 1+rng.Intn(4)
		}
	}
	if rng.Intn(3) == 0 && !tracerStates {
		s.Pkgs = genPkgs(rng)
	}
	if rng.Intn(6) == 0 {
		s.Glob = genLevel(rng)
	}
	if kind != "yield" && kind != "contention" && rng.Intn(4) == 0 { // (a sleeping goroutine waits tens of ms for its turn under contention)
		s.YieldPm, s.YieldUs = rng.Intn(30), rng.Intn(200)
	}
	if rng.Intn(5) == 0 {
		s.Quiesce = false
	}
	for _, g := range []string{"start-twice", "shutdown-twice", "nil-adapter", "late-adapter", "pre-start", "nil-tracer", "concurrent-shutdown"} {
		if rng.Intn(6) == 0 {
			s.Glue = append(s.Glue, g)
		}
	}
	light := s.Light
	for g := 0; g < np; g++ {
		var prog []Op
		item := 0
		n := items/2 + rng.Intn(items/2+1)
		for k := 0; k < n; k++ {
			x := rng.Float64()
			switch {
			case x < pSleep:
				prog = append(prog, Op{Kind: "sleep", Us: rng.Intn(300)})
			case x < pSleep+pTr:
				ne := rng.Intn(6)
				if rng.Intn(10) == 0 {
					ne = 0
				}
				if rng.Intn(5) == 0 {
					ne = 1
				}
				op := Op{Kind: "tr", Org: rng.Intn(3), F: rng.Intn(2) == 0}
				for e := 0; e < ne; e++ {
					item++
					op.Entries = append(op.Entries, EntOp{Lvl: 1 + rng.Intn(6), Item: item})
				}
				prog = append(prog, op)
				if ne == 1 && rng.Intn(2) == 0 {
					// the same one-entry submission again: two identical main lines in a row, and tracer lines
					// are never merged (without a tracer these are two identical plain calls, which may be)
					prog = append(prog, op)
				}
			default:
				item++
				op := Op{Kind: "log", Lvl: 1 + rng.Intn(6), Org: rng.Intn(3), Item: item, Reps: 1}
				if rng.Intn(4) == 0 && !light {
					op.Kind = "logf"
				}
				if maxReps > 1 {
					op.Reps = 1 + rng.Intn(maxReps)
				}
				// favour enabled severities so that most lines are written
				if rng.Intn(3) != 0 && op.Lvl < s.Glob && s.Glob <= 6 {
					op.Lvl = s.Glob + rng.Intn(7-s.Glob)
				}
				prog = append(prog, op)
				// twin: the same message again at another severity (another call site): must NOT be merged
				tw := rng.Intn(15)
				if light {
					tw = 99 // the cheap adapter does not look at call sites
				}
				switch tw {
				case 0:
					tw := op
					tw.Lvl = 1 + (op.Lvl+rng.Intn(5))%6
					prog = append(prog, tw)
				case 1: // same message and severity from the other call site (plain ↔ formatted)
					tw := op
					tw.Kind = map[string]string{"log": "logf", "logf": "log"}[op.Kind]
					prog = append(prog, tw)
				case 2: // same message, severity and line number from another FILE (the origin packages are copies of each other)
					tw := op
					tw.Org = (op.Org + 1 + rng.Intn(2)) % 3
					prog = append(prog, tw)
				case 3: // same message from ONE call site at two severities (function value)
					prog[len(prog)-1].Kind = "dyn"
					tw := prog[len(prog)-1]
					tw.Lvl = 1 + (op.Lvl+rng.Intn(5))%6
					prog = append(prog, tw)
				case 4: // a longer message that starts with this one, same call site and severity
					tw := op
					tw.Item = op.Item + suffixBase
					prog = append(prog, tw)
				}
			}
		}
		s.Prods = append(s.Prods, prog)
	}
	if !light {
		addStartFlags(rng, &s)
	}
	return s
}

// genFlagLevel draws a -log / -plog level name: the documented names in any case, and names Start must not
// accept (ASCII only: the model lower-cases ASCII).
func genFlagLevel(rng *rand.Rand) string {
	names := []string{"trace", "debug", "info", "warning", "error", "critical"}
	n := names[rng.Intn(6)]
	switch rng.Intn(8) {
	case 0:
		return strings.ToUpper(n)
	case 1:
		return strings.ToUpper(n[:1]) + n[1:]
	case 2:
		b := []byte(n)
		for i := range b {
			if rng.Intn(2) == 0 {
				b[i] -= 32
			}
		}
		return string(b)
	case 3, 4:
		return []string{"warn", "verbose", "7", "3", " info", "info ", "none", "tracee", "err", "crit", "all", "✓"}[rng.Intn(12)]
	}
	return n
}

// addStartFlags: in one scenario of three the logger is started with -log and/or -plog; a sweep producer
// (appended last, run alone and first) then measures the levels in force on the real logger.
func addStartFlags(rng *rand.Rand, s *Spec) {
	if rng.Intn(3) != 0 {
		return
	}
	if rng.Intn(3) != 0 {
		s.FlagLog = genFlagLevel(rng)
	}
	if rng.Intn(3) != 0 {
		var pairs []string
		for i, n := 0, 1+rng.Intn(5); i < n; i++ {
			name := []string{"orga", "orgb", "orgc", "zzz", "database", ""}[rng.Intn(6)]
			switch rng.Intn(12) {
			case 0:
				pairs = append(pairs, name) // no level
			case 1:
				pairs = append(pairs, name+"="+genFlagLevel(rng)+"="+genFlagLevel(rng))
			case 2:
				pairs = append(pairs, "")
			case 3:
				pairs = append(pairs, name+"=")
			default:
				pairs = append(pairs, name+"="+genFlagLevel(rng))
			}
		}
		s.FlagPkgs = strings.Join(pairs, ",")
	}
	var sweep []Op
	for o := 0; o < 3; o++ {
		for l := 1; l <= 6; l++ {
			sweep = append(sweep, Op{Kind: "log", Lvl: l, Org: o, Item: 1 + o*6 + (l - 1), Reps: 1})
		}
	}
	s.Prods = append(s.Prods, sweep)
	s.Sweep = true
}

// genMixed draws a scenario about the merge decision of the writer (`logLine.Equal`): what counts as
// "identical". Every group of calls is a family of lines that share the message text and differ in exactly
// the things Equal looks at — tracer or not (on either side), file, line, level — and the group is closed by
// a trigger of the paced writer, so that the whole group is drained as ONE batch with its lines adjacent.
func genMixed(r *hxlib.Run, rng *rand.Rand) Spec {
	s := Spec{Seed: rng.Int63(), Glob: 1, Shutdown: "end", Quiesce: true}
	np := 1
	if rng.Intn(3) == 0 {
		np = 2 + rng.Intn(2)
	}
	mode := rng.Intn(10)
	switch {
	case mode < 7: // paced, every group triggered by its producer
		s.Paced, s.TriggerUs = true, 0
	case mode < 8: // paced, periodic trigger: batches cut anywhere
		s.Paced, s.TriggerUs = true, 500+rng.Intn(3000)
	default: // free-running writer kept busy by a slow adapter: whatever arrives meanwhile is one batch
		s.AdapterUs, s.AdapterEv = 100+rng.Intn(400), 1
	}
	// the level in force: trace everywhere (AddTracer hands out tracers), or trace only for some origins
	// (elsewhere AddTracer returns nil and the same call site logs plain lines)
	switch rng.Intn(6) {
	case 0:
		s.Glob = 2 + rng.Intn(2)
		s.Pkgs = map[string]int{}
		for _, n := range []string{"orga", "orgb", "orgc"} {
			if rng.Intn(3) != 0 {
				s.Pkgs[n] = 1
			}
		}
	case 1:
		s.Glob = 1 + rng.Intn(2)
	case 2, 3:
		// the level decision at tracer creation: every global level × the three states of the package levels per
		// origin (listed at trace: tracer; listed above: plain lines; NOT listed: the global level decides)
		s.Glob = 1 + rng.Intn(6)
		if rng.Intn(8) == 0 {
			s.Glob = []int{0, 7}[rng.Intn(2)]
		}
		s.Pkgs = genPkgStates(rng)
	}
	if rng.Intn(4) == 0 {
		s.Cap = 2 + rng.Intn(14)
	}
	if rng.Intn(5) == 0 {
		s.YieldPm, s.YieldUs = rng.Intn(30), rng.Intn(200)
	}
	groups := 8 + rng.Intn(r.Budget(30, 60))
	for g := 0; g < np; g++ {
		var prog []Op
		item := 0
		lvlNow := s.Glob
		for k := 0; k < groups; k++ {
			item++
			fam := item
			org := rng.Intn(3)
			lvl := 1 + rng.Intn(6)
			if rng.Intn(4) != 0 && lvl < 3 {
				lvl = 3 + rng.Intn(4)
			}
			reps := func() int {
				if rng.Intn(3) == 0 {
					return 2 + rng.Intn(3)
				}
				return 1
			}
			ents := func(n int) []EntOp { // n fresh collected lines
				var es []EntOp
				for i := 0; i < n; i++ {
					item++
					es = append(es, EntOp{Lvl: 1 + rng.Intn(6), Item: item})
				}
				return es
			}
			plain := Op{Kind: "via", Nil: true, Lvl: lvl, Org: org, Item: fam, Reps: 1}
			sub := Op{Kind: "via", Lvl: lvl, Org: org, Item: fam, Reps: 1}
			var grp []Op
			switch pat := rng.Intn(14); pat {
			case 0: // plain line, then a submission whose main line is identical to it
				p := plain
				p.Reps = reps()
				sb := sub
				sb.Entries = ents(rng.Intn(4))
				grp = []Op{p, sb}
			case 1: // the other order
				sb := sub
				sb.Entries = ents(rng.Intn(4))
				p := plain
				p.Reps = reps()
				grp = []Op{sb, p}
			case 2: // submission between runs of the plain line
				p1, p2 := plain, plain
				p1.Reps, p2.Reps = reps(), reps()
				sb := sub
				sb.Entries = ents(rng.Intn(3))
				grp = []Op{p1, sb, p2}
			case 3: // submissions with identical main line and EQUAL collected lines, several times
				sb := sub
				sb.Entries = ents(rng.Intn(4))
				sb.Reps = 2 + rng.Intn(3)
				grp = []Op{sb}
			case 4: // submissions with identical main line and DIFFERENT collected lines
				a, b := sub, sub
				a.Entries, b.Entries = ents(rng.Intn(3)), ents(1+rng.Intn(4))
				grp = []Op{a, b}
				if rng.Intn(2) == 0 {
					grp = append(grp, a)
				}
			case 5: // a submission with many collected lines, some of them identical to each other and to the main line
				sb := sub
				sb.Entries = ents(2 + rng.Intn(6))
				sb.Entries = append(sb.Entries, EntOp{Lvl: lvl, Item: fam})
				if rng.Intn(2) == 0 {
					sb.Entries = append(sb.Entries, sb.Entries[0])
				}
				grp = []Op{sb}
				if rng.Intn(2) == 0 {
					p := plain
					grp = append([]Op{p}, grp...)
				}
			case 6: // same text, same file and line, other level (function value), plain lines
				a := Op{Kind: "dyn", Lvl: lvl, Org: org, Item: fam, Reps: reps()}
				b := a
				b.Lvl = 1 + (lvl+rng.Intn(5))%6
				grp = []Op{a, b}
				if rng.Intn(2) == 0 {
					grp = append(grp, a)
				}
			case 7: // same text, same file and line, other level through the tracer call site
				a, b := plain, plain
				b.Lvl = 1 + (lvl+rng.Intn(5))%6
				a.Reps = reps()
				grp = []Op{a, b, a}
			case 8: // same text, level and line number from another file
				a := Op{Kind: "log", Lvl: lvl, Org: org, Item: fam, Reps: reps()}
				b := a
				b.Org = (org + 1 + rng.Intn(2)) % 3
				grp = []Op{a, b}
				if rng.Intn(2) == 0 {
					a.Kind, b.Kind = "dyn", "dyn"
					grp = []Op{a, b, a}
				}
			case 9: // same text and level from another line of the same file
				a := Op{Kind: "log", Lvl: lvl, Org: org, Item: fam, Reps: reps()}
				b := a
				b.Kind = []string{"logf", "dyn"}[rng.Intn(2)]
				c := plain
				grp = []Op{a, b, c}
				rng.Shuffle(len(grp), func(i, j int) { grp[i], grp[j] = grp[j], grp[i] })
			case 10: // two texts of which one is a proper prefix of the other, same call site and level
				a, b := plain, plain
				b.Item = fam + suffixBase*(1+rng.Intn(3))
				a.Reps = reps()
				grp = []Op{a, b, a}
				if rng.Intn(2) == 0 {
					grp = []Op{b, a, b}
				}
			case 11: // plain line, other line in between, then the submission: adjacent only in text
				item++
				mid := Op{Kind: "via", Nil: true, Lvl: lvl, Org: org, Item: item, Reps: 1}
				sb := sub
				sb.Entries = ents(rng.Intn(3))
				grp = []Op{plain, mid, sb, mid, plain}
			case 12: // a level change between two uses of the call site: AddTracer returns nil before, a tracer after (or the reverse)
				if np == 1 && s.Pkgs == nil {
					a, b := sub, sub
					a.Entries = ents(rng.Intn(3))
					b.Entries = a.Entries
					other := 2 + rng.Intn(2)
					if lvlNow != 1 {
						other = 1
					}
					grp = []Op{a, {Kind: "lvl", Lvl: other}, b}
					lvlNow = other
					if lvlNow != 1 && rng.Intn(3) != 0 {
						grp = append(grp, Op{Kind: "lvl", Lvl: 1})
						lvlNow = 1
					}
					break
				}
				fallthrough
			default: // anything of the above mixed freely
				n := 2 + rng.Intn(5)
				for i := 0; i < n; i++ {
					switch rng.Intn(5) {
					case 0, 1:
						p := plain
						p.Reps = reps()
						grp = append(grp, p)
					case 2:
						sb := sub
						sb.Entries = ents(rng.Intn(3))
						grp = append(grp, sb)
					case 3:
						grp = append(grp, Op{Kind: "dyn", Lvl: lvl, Org: org, Item: fam, Reps: reps()})
					default:
						p := plain
						p.Org = rng.Intn(3)
						grp = append(grp, p)
					}
				}
			}
			prog = append(prog, grp...)
			if rng.Intn(8) != 0 {
				prog = append(prog, Op{Kind: "trig"})
			}
			if rng.Intn(10) == 0 {
				prog = append(prog, Op{Kind: "sleep", Us: rng.Intn(300)})
			}
		}
		prog = append(prog, Op{Kind: "trig"})
		s.Prods = append(s.Prods, prog)
	}
	addStartFlags(rng, &s) // one in three: the levels the tracer call sites meet come from -log / -plog
	return s
}

var sawTimeout atomic.Bool

// runChild executes the scenario in a fresh process and returns the recorded trace lines.
func runChild(s Spec) ([]string, error) {
	js, _ := json.Marshal(s)
	pr, pw, err := os.Pipe()
	if err != nil {
		return nil, err
	}
	cmd := exec.Command(os.Args[0], "child")
	cmd.Stdin = bytes.NewReader(js)
	cmd.ExtraFiles = []*os.File{pw}
	var stderr bytes.Buffer
	cmd.Stderr = &stderr
	cmd.Env = append(os.Environ(), "GOMAXPROCS=8")
	if err := cmd.Start(); err != nil {
		pw.Close()
		pr.Close()
		return nil, err
	}
	pw.Close()
	var out bytes.Buffer
	done := make(chan struct{})
	go func() { out.ReadFrom(pr); close(done) }()
	werr := make(chan error, 1)
	go func() { werr <- cmd.Wait() }()
	select {
	case err = <-werr:
	case <-time.After(180 * time.Second):
		cmd.Process.Kill()
		err = fmt.Errorf("child timed out")
	}
	<-done
	pr.Close()
	if err != nil {
		return nil, fmt.Errorf("%v: %s", err, lastLines(stderr.String(), 5))
	}
	lines := strings.Split(strings.TrimRight(out.String(), "\n"), "\n")
	return lines, nil
}

func lastLines(s string, n int) string {
	l := strings.Split(strings.TrimSpace(s), "\n")
	if len(l) > n {
		l = l[len(l)-n:]
	}
	return strings.Join(l, " | ")
}

func generate(r *hxlib.Run, emit func(hxlib.Case)) {
	rng := r.Rng
	// (1) level-filter probes on the in-process logger
	nProbe := r.Budget(4000, 40000)
	var lv []string
	for i := 0; i < nProbe; i++ {
		glob := genLevel(rng)
		active := rng.Intn(3) != 0
		pk := "-"
		if active || rng.Intn(2) == 0 {
			m := genPkgs(rng)
			var ps []string
			for k, v := range m {
				ps = append(ps, fmt.Sprintf("%d=%d", pkgID(k), v))
			}
			sort.Strings(ps)
			if len(ps) > 0 {
				pk = strings.Join(ps, ",")
			}
		}
		a := 0
		if active {
			a = 1
		}
		lv = append(lv, fmt.Sprintf("lv %d %d %s %d %d", glob, a, pk, rng.Intn(3), 1+rng.Intn(6)))
		if len(lv) == 50 {
			emit(hxlib.Case{Lines: lv, Kind: "filter-probe", NonTrivial: true})
			lv = nil
		}
	}
	if len(lv) > 0 {
		emit(hxlib.Case{Lines: lv, Kind: "filter-probe", NonTrivial: true})
	}
	// (1a) AddTracer probes: the level decision at tracer creation × the three states of the package levels for
	// the calling origin × every global level, on a fresh / nil / already-traced context
	{
		var at []string
		for i, n := 0, r.Budget(2400, 24000); i < n; i++ {
			org := rng.Intn(3)
			glob := 1 + rng.Intn(6)
			if rng.Intn(8) == 0 {
				glob = []int{0, 7}[rng.Intn(2)]
			}
			m := map[int]int{}
			for _, o := range []int{0, 1, 2, 9} {
				if o != org && rng.Intn(2) == 0 {
					m[o] = 1 + rng.Intn(6)
				}
			}
			active, state := 1, ""
			switch rng.Intn(7) {
			case 0:
				active, state = 0, "inactive"
				if rng.Intn(2) == 0 {
					m[org] = 1 + rng.Intn(6) // a stale entry: package levels were set, then unset
				}
			case 1, 2:
				state = "listed-at-trace"
				m[org] = 1
				if rng.Intn(10) == 0 {
					m[org] = 0
				}
			case 3, 4:
				state = "listed-above-trace"
				m[org] = 2 + rng.Intn(5)
				if rng.Intn(10) == 0 {
					m[org] = 7
				}
			default:
				state = "not-listed"
			}
			var ps []string
			for k, v := range m {
				ps = append(ps, fmt.Sprintf("%d=%d", k, v))
			}
			sort.Strings(ps)
			pk := "-"
			if len(ps) > 0 {
				pk = strings.Join(ps, ",")
			}
			mode := "fresh"
			switch rng.Intn(12) {
			case 0:
				mode = "nil"
			case 1:
				mode = "existing"
			}
			r.Count("addtracer-probe:" + state + ":" + map[bool]string{true: "global-at-trace", false: "global-above-trace"}[glob <= 1] + ":" + mode)
			at = append(at, fmt.Sprintf("at %d %d %s %d %s %d", glob, active, pk, org, mode, 1+rng.Intn(6)))
			if len(at) == 60 {
				emit(hxlib.Case{Lines: at, Kind: "addtracer-probe", NonTrivial: true})
				at = nil
			}
		}
		if len(at) > 0 {
			emit(hxlib.Case{Lines: at, Kind: "addtracer-probe", NonTrivial: true})
		}
	}
	// (1b) ParseLevel / Severity.Name on the real package against the regenerated tables
	{
		var pl []string
		for i := 0; i < r.Budget(300, 3000); i++ {
			pl = append(pl, "pl "+hexOrDash(genFlagLevel(rng)))
			if i%10 == 0 {
				pl = append(pl, fmt.Sprintf("nm %d", rng.Intn(9)))
			}
		}
		pl = append(pl, "pl -")
		for i := 0; i < len(pl); i += 60 {
			emit(hxlib.Case{Lines: pl[i:min(i+60, len(pl))], Kind: "level-names", NonTrivial: true})
		}
	}
	// (2) malformed / out-of-protocol lines: the driver must reject, never default
	emit(hxlib.Case{Lines: []string{"lv x 1 - 0 3", "lv 3 1 0=x 0 3", "w bogus", "p 0 1 enq ret", "p 0 1 line won ret", "item 0 1 3 0 p 9:1*1", "out 1:2", "frobnicate", "pl zz", "nm x", "start - - 3 0", "at 3 1 - 0 fresh", "at 3 1 - 0 sideways 2", "at 3 1 - 0 fresh 9", "ta 7 0 0 1", "ta 0 0 0"}, Kind: "malformed"})
	emit(hxlib.Case{Lines: []string{"w token token"}, Kind: "malformed"})
	emit(hxlib.Case{Lines: []string{"w token unset slot W:1:3:1:10:0:0", "p 0 1 line enq won tokFull ret", "p 0 1 line enq won ret"}, Kind: "malformed"})
	// (3) scenarios on the real logger, child process each
	kinds := []string{"basic", "dups", "overflow", "burst", "paced", "paced-notrigger", "paced-flood", "levels", "mid", "tracer", "yield", "many", "smallcap", "smallcap", "contention", "mixed", "mixed"}
	n := r.Budget(300, 1900)
	type job struct {
		kind string
		spec Spec
	}
	jobs := make([]job, n)
	for i := range jobs {
		k := kinds[i%len(kinds)]
		jobs[i] = job{k, genSpec(r, rand.New(rand.NewSource(rng.Int63())), k)}
	}
	// run up to 4 children at a time, emit in generation order
	type res struct {
		lines []string
		err   error
	}
	results := make([]chan res, n)
	sem := make(chan struct{}, 4)
	for i := range jobs {
		results[i] = make(chan res, 1)
		go func(i int) {
			sem <- struct{}{}
			if sawTimeout.Load() {
				jobs[i].spec.QuiesceMs = 1500 // a delivery timeout is already a violation: do not spend 20 s on each further one
			}
			l, err := runChild(jobs[i].spec)
			if err == nil {
				for _, x := range l {
					if strings.HasPrefix(x, "meta ") && strings.Contains(x, "quiesce=timeout") {
						sawTimeout.Store(true)
					}
				}
			}
			<-sem
			results[i] <- res{l, err}
		}(i)
	}
	for i := range jobs {
		rs := <-results[i]
		js, _ := json.Marshal(jobs[i].spec)
		if rs.err != nil {
			// the scenario could not be run: reported through the monitor (never silently skipped)
			emit(hxlib.Case{Lines: []string{"scenario " + string(js), "childfail " + strings.ReplaceAll(rs.err.Error(), "\n", " ")}, Kind: "scenario-" + jobs[i].kind, NoModel: true})
			continue
		}
		lines := append([]string{"scenario " + string(js)}, rs.lines...)
		lines = append(lines, "check")
		st := parseRun(lines)
		for _, g := range jobs[i].spec.Glue {
			r.Count("glue:" + g)
		}
		r.Count(fmt.Sprintf("buffer-cap:%d", st.meta["cap"]))
		r.Count(fmt.Sprintf("producers:%s", bucket(len(jobs[i].spec.Prods), []int{1, 2, 4, 8, 16, 32})))
		r.Count(fmt.Sprintf("lines-accepted:%s", bucket(st.meta["lines"], []int{0, 10, 100, 1024, 2048, 5000, 20000})))
		r.Count(fmt.Sprintf("adapter-writes:%s", bucket(st.meta["writes"], []int{0, 10, 100, 1024, 5000, 20000})))
		for k, v := range st.counts {
			for j := 0; j < v; j++ {
				r.Count(k)
			}
		}
		nt := (len(jobs[i].spec.Prods) > 1 || st.meta["lines"] > 50) && st.meta["writes"] > 0
		emit(hxlib.Case{Lines: lines, Kind: "scenario-" + jobs[i].kind, NonTrivial: nt})
	}
}

func bucket(v int, edges []int) string {
	for _, e := range edges {
		if v <= e {
			return "≤" + strconv.Itoa(e)
		}
	}
	return ">" + strconv.Itoa(edges[len(edges)-1])
}

// ---------------------------------------------------------------------------------------------------
// the recorded run and the property read literally on it

type seg struct {
	cfg    int // -1: configuration changed during the call
	before bool
	n      int
}

type item struct {
	gid, item, lvl, org int
	kind                string
	segs                []seg
	entries             []int
	low                 int // lowest severity among the lines the call hands over (submission: collected entries and main line)
}

type outw struct {
	gid, item, dups int
	tracer          bool
	entries         []int
}

type runRec struct {
	np     int
	cfgs   map[int]cfgSnap
	items  map[int][]item
	outs   []outw
	meta   map[string]int
	quies  string
	counts map[string]int
	bad    string

	prevDeq []string
	start   []string // "start <log> <plog> <pre-cfg> <thr0> <thr1> <thr2> <glob>"
}

func atoi(s string) int { n, _ := strconv.Atoi(s); return n }

func parseRun(lines []string) *runRec {
	rr := &runRec{cfgs: map[int]cfgSnap{}, items: map[int][]item{}, meta: map[string]int{}, counts: map[string]int{}}
	for _, l := range lines {
		f := strings.Fields(l)
		if len(f) == 0 {
			continue
		}
		switch f[0] {
		case "np":
			rr.np = atoi(f[1])
		case "cfg":
			c := cfgSnap{Glob: atoi(f[2]), Active: f[3] == "1", Pkgs: map[string]int{}}
			if f[4] != "-" {
				for _, kv := range strings.Split(f[4], ",") {
					p := strings.Split(kv, "=")
					c.Pkgs[p[0]] = atoi(p[1]) // keyed by package id here
				}
			}
			rr.cfgs[atoi(f[1])] = c
		case "item":
			it := item{gid: atoi(f[1]), item: atoi(f[2]), lvl: atoi(f[3]), org: atoi(f[4]), kind: f[5]}
			for _, s := range strings.Split(f[6], ",") {
				p := strings.Split(s, "*")
				if p[0] == "u" {
					it.segs = append(it.segs, seg{cfg: -1, n: atoi(p[1])})
					rr.counts["call:config-changed-during-call"] += atoi(p[1])
				} else {
					q := strings.Split(p[0], ":")
					it.segs = append(it.segs, seg{cfg: atoi(q[0]), before: q[1] == "1", n: atoi(p[1])})
					if q[1] != "1" {
						rr.counts["call:returned-after-shutdown-request"] += atoi(p[1])
					}
				}
			}
			if len(f) > 7 && strings.HasPrefix(f[7], "e") && len(f[7]) > 1 {
				for _, e := range strings.Split(f[7][1:], ",") {
					it.entries = append(it.entries, atoi(e))
				}
			}
			it.low = it.lvl
			if it.kind == "t" {
				for _, e := range it.entries {
					it.low = min(it.low, entLevel(e))
				}
			}
			rr.counts["item:"+it.kind+":sev"+f[3]]++
			if n := it.total(); n > 1 {
				rr.counts["item:identical-run"]++
			}
			rr.items[it.gid] = append(rr.items[it.gid], it)
		case "out":
			for _, t := range f[1:] {
				count := 1
				if i := strings.IndexByte(t, '*'); i >= 0 { // "gid:key:dups*count": count identical writes in a row
					count = atoi(t[i+1:])
					t = t[:i]
				}
				p := strings.Split(t, ":")
				if len(p) < 3 || count < 1 {
					rr.bad = "out token " + t
					continue
				}
				o := outw{gid: atoi(p[0]), item: atoi(p[1]), dups: atoi(p[2])}
				for k := 1; k < count; k++ {
					rr.outs = append(rr.outs, o)
				}
				if len(p) > 3 {
					o.tracer = true
					if len(p[3]) > 1 {
						for _, e := range strings.Split(p[3][1:], ",") {
							o.entries = append(o.entries, atoi(e))
						}
					}
					rr.counts["write:tracer"]++
				}
				if o.dups > 0 {
					rr.counts["write:merged"]++
				}
				rr.outs = append(rr.outs, o)
			}
		case "p":
			path := strings.Join(f[3:], " ")
			switch {
			case strings.Contains(path, "full"):
				rr.counts["producer:buffer-full"]++
				if strings.Contains(path, "forced") {
					rr.counts["producer:forced-emptying"]++
				}
			}
			if strings.Contains(path, "won") {
				rr.counts["producer:wake-up-sent"]++
			} else {
				rr.counts["producer:flag-already-set"]++
			}
		case "w":
			for _, t := range f[1:] {
				k := t
				if i := strings.IndexByte(t, ':'); i >= 0 {
					k = t[:i]
				}
				if k != "W" && k != "deq" {
					rr.counts["writer:"+k]++
				}
				// which neighbours did the merge decision see inside one writeLoop round?
				switch k {
				case "W":
				case "deq":
					p := strings.Split(t, ":") // deq:id:msg:lvl:file:line:tr
					if len(p) == 7 {
						if q := rr.prevDeq; q != nil {
							same := func(i int) bool { return p[i] == q[i] }
							switch {
							case same(2) && same(3) && same(4) && same(5):
								rr.counts["batch-neighbours:identical-but-"+map[string]string{"00": "nothing(plain,plain)", "01": "tracer(plain→tracer)", "10": "tracer(tracer→plain)", "11": "nothing(tracer,tracer)"}[q[6]+p[6]]]++
							case same(2) && same(4) && same(5):
								rr.counts["batch-neighbours:identical-but-level"]++
							case same(2) && same(3) && same(5):
								rr.counts["batch-neighbours:identical-but-file"]++
							case same(2) && same(3) && same(4):
								rr.counts["batch-neighbours:identical-but-line"]++
							case same(3) && same(4) && same(5) && atoi(p[2])%suffixBase == atoi(q[2])%suffixBase:
								rr.counts["batch-neighbours:same-site-level-text-prefix"]++
							}
						}
						rr.prevDeq = p
					}
				default:
					rr.prevDeq = nil
				}
			}
		case "meta":
			for _, kv := range f[1:] {
				p := strings.SplitN(kv, "=", 2)
				if p[0] == "quiesce" {
					rr.quies = p[1]
					rr.counts["quiesce:"+strings.SplitN(p[1], ":", 2)[0]]++
				} else {
					rr.meta[p[0]] = atoi(p[1])
				}
			}
		case "ta":
			// an AddTracer call: which state of the package levels did the decision meet?
			if len(f) == 5 {
				c := rr.cfgs[atoi(f[1])]
				state := "pkg-levels-inactive"
				if c.Active {
					state = "origin-not-listed"
					if v, ok := c.Pkgs[f[2]]; ok {
						state = "origin-listed-above-trace"
						if v <= 1 {
							state = "origin-listed-at-trace"
						}
					}
				}
				g := "global-above-trace"
				if c.Glob <= 1 {
					g = "global-at-trace"
				}
				rr.counts["addtracer:"+state+":"+g+":"+map[string]string{"1": "live", "0": "nil"}[f[4]]]++
			}
		case "start":
			if len(f) == 10 {
				rr.start = f
				rr.counts["start:flags:"+map[bool]string{true: "log", false: "nolog"}[f[1] != "-"]+"+"+map[bool]string{true: "plog", false: "noplog"}[f[2] != "-"]]++
			}
		case "childfail":
			rr.bad = l
		}
	}
	return rr
}

func (it item) total() int {
	n := 0
	for _, s := range it.segs {
		n += s.n
	}
	return n
}

// inForce is the property's "level in force for its origin": the package level if package levels are
// active and the origin has one, the global level otherwise.
func inForce(c cfgSnap, org int) int {
	if c.Active {
		if v, ok := c.Pkgs[strconv.Itoa(org)]; ok {
			return v
		}
	}
	return c.Glob
}

// bounds: how many lines of this item MUST (lo) and MAY (hi) reach the adapter. A plain call is emitted iff
// its severity is at or above the level in force for its origin. A tracer submission hands over several lines
// at once; "the call" is the tracer's life, from AddTracer to the return of Submit (the logger decides once, at
// AddTracer): under a configuration that did not change meanwhile it MUST arrive if every line it carries is
// at or above the level in force for the origin, and must NOT if one of them is below ("messages below the level
// in force are never emitted"); if the configuration changed during its life nothing is demanded either way.
func (rr *runRec) bounds(it item) (lo, hi int) {
	for _, s := range it.segs {
		if s.cfg < 0 || it.kind == "x" {
			hi += s.n
			continue
		}
		on := it.low >= inForce(rr.cfgs[s.cfg], it.org)
		if on {
			hi += s.n
			if s.before {
				lo += s.n
			}
		}
	}
	return
}

func eqInts(a, b []int) bool {
	if len(a) != len(b) {
		return false
	}
	for i := range a {
		if a[i] != b[i] {
			return false
		}
	}
	return true
}

// verdict reads the property on the record: per goroutine, the expanded adapter output restricted to its
// lines is its items in order, each between lo and hi times, tracer lines with exactly their entries.
func (rr *runRec) verdict() string {
	if rr.bad != "" {
		return "fail record " + rr.bad
	}
	if strings.HasPrefix(rr.quies, "timeout") {
		return "fail quiesce-timeout"
	}
	if rr.meta["hang"] == 1 {
		return "fail shutdown-hang"
	}
	if rr.meta["after_return"] != 0 {
		// the adapter was still called after Shutdown had returned: what had to be written before the
		// return is judged on the writes made until then (lines logged after the request may come late)
		full := rr.outs
		n := rr.meta["writes_at_return"]
		if n > len(full) {
			n = len(full)
		}
		rr.outs = full[:n]
		rr.meta["after_return"] = 0
		v := rr.verdict()
		rr.outs = full
		if v != "pass" {
			return "fail write-after-return"
		}
	}
	for _, o := range rr.outs {
		if o.gid >= rr.np {
			return fmt.Sprintf("fail unexpected g%d i%d", o.gid, o.item)
		}
	}
	for _, o := range rr.outs {
		if o.tracer && o.dups > 0 { // a second submission was merged away together with its collected lines
			return fmt.Sprintf("fail trace g%d i%d", o.gid, o.item)
		}
	}
	// every tracer submission on its own: the submissions that MUST arrive (stable configuration, completed
	// before Shutdown was requested) are, in program order and each with exactly its collected lines, among
	// the tracer lines the adapter received from that goroutine — never counted as a repetition of another line
	expanded := make([][]outw, rr.np)
	for g := 0; g < rr.np; g++ {
		for _, o := range rr.outs {
			if o.gid == g {
				for k := 0; k <= o.dups; k++ {
					expanded[g] = append(expanded[g], o)
				}
			}
		}
	}
	// "messages below the level in force are never emitted", line by line: a line that has the identity and form
	// of items of its goroutine none of which may be emitted at all (every call of them was made below the level
	// in force, under a configuration that did not change during the call)
	for g := 0; g < rr.np; g++ {
		byID := map[int][]int{}
		for i, it := range rr.items[g] {
			byID[it.item] = append(byID[it.item], i)
		}
		for _, o := range expanded[g] {
			some, allowed := false, false
			for _, i := range byID[o.item] {
				if it := rr.items[g][i]; it.matches(o) {
					some = true
					if _, hi := rr.bounds(it); hi > 0 {
						allowed = true
						break
					}
				}
			}
			if some && !allowed {
				return fmt.Sprintf("fail filtered g%d i%d", g, o.item)
			}
		}
	}
	for g := 0; g < rr.np; g++ {
		pos := 0
		got := expanded[g]
		for _, it := range rr.items[g] {
			if it.kind != "t" {
				continue
			}
			lo, _ := rr.bounds(it)
			for k := 0; k < lo; k++ {
				for pos < len(got) && !(got[pos].tracer && got[pos].item == it.item && eqInts(got[pos].entries, it.entries)) {
					pos++
				}
				if pos == len(got) {
					return fmt.Sprintf("fail tracer-lost g%d i%d", g, it.item)
				}
				pos++
			}
		}
	}
	// the whole statement per goroutine: its part of the expanded output can be cut into consecutive blocks,
	// one per item in program order, block i made of lo…hi lines of item i in the item's form
	for g := 0; g < rr.np; g++ {
		if v := rr.greedy(g, expanded[g]); v != "pass" {
			if ok, stuck := rr.conforms(g, expanded[g]); !ok {
				return rr.diagnose(g, expanded[g], v, stuck)
			}
		}
	}
	return "pass"
}

// diagnose corrects the verdict of the greedy walk where it is known to misname: A B A with B LOST arrives as
// A A, which the walk calls a duplicate of A. A "duplicated" is kept only if the line really is emitted more
// often than all the items that can take it allow together; otherwise the item at which every cutting gets
// stuck is named as lost.
func (rr *runRec) diagnose(g int, got []outw, v string, stuck *item) string {
	f := strings.Fields(v)
	if len(f) != 4 || f[1] != "duplicated" || stuck == nil {
		return v
	}
	id := atoi(strings.TrimPrefix(f[3], "i"))
	var cand []outw
	for _, o := range got {
		if o.item == id {
			cand = append(cand, o)
		}
	}
	for _, o := range cand {
		n, allow := 0, 0
		for _, x := range cand {
			if x.tracer == o.tracer && eqInts(x.entries, o.entries) {
				n++
			}
		}
		for _, it := range rr.items[g] {
			if it.matches(o) {
				_, hi := rr.bounds(it)
				allow += hi
			}
		}
		if n > allow {
			return v
		}
	}
	return fmt.Sprintf("fail lost g%d i%d", g, stuck.item)
}

// matches: can this output line belong to the block of the item (same identity, prescribed form)?
func (it item) matches(o outw) bool {
	if o.item != it.item {
		return false
	}
	switch it.kind {
	case "p":
		return !o.tracer
	case "t":
		return o.tracer && eqInts(o.entries, it.entries)
	}
	return true
}

// greedy walks the items, every item taking as many lines as it can; it names the first item where that fails.
func (rr *runRec) greedy(g int, got []outw) string {
	for _, it := range rr.items[g] {
		c := 0
		for c < len(got) && it.matches(got[c]) {
			c++
		}
		lo, hi := rr.bounds(it)
		if c < lo {
			if c < len(got) && got[c].item == it.item {
				return fmt.Sprintf("fail trace g%d i%d", g, it.item)
			}
			return fmt.Sprintf("fail lost g%d i%d", g, it.item)
		}
		if c > hi {
			if hi == 0 {
				return fmt.Sprintf("fail filtered g%d i%d", g, it.item)
			}
			return fmt.Sprintf("fail duplicated g%d i%d", g, it.item)
		}
		got = got[c:]
	}
	if len(got) > 0 {
		return fmt.Sprintf("fail unexpected g%d i%d", g, got[0].item)
	}
	return "pass"
}

// conforms decides exactly whether SOME cutting into blocks exists (the greedy walk is not exact when an
// optional or disabled item stands between two items of identical lines: A B A with B absent arrives as A A).
func (rr *runRec) conforms(g int, got []outw) (bool, *item) {
	cur := []int{0} // positions the items so far can have consumed, ascending
	for i := range rr.items[g] {
		it := rr.items[g][i]
		lo, hi := rr.bounds(it)
		seen := map[int]bool{}
		var next []int
		for _, p := range cur {
			run := 0
			for run < hi && p+run < len(got) && it.matches(got[p+run]) {
				run++
			}
			for k := lo; k <= run; k++ {
				if !seen[p+k] {
					seen[p+k] = true
					next = append(next, p+k)
				}
			}
		}
		if len(next) == 0 {
			return false, &rr.items[g][i] // every cutting gets stuck here
		}
		sort.Ints(next)
		cur = next
	}
	return cur[len(cur)-1] == len(got), nil
}

func monitor(c hxlib.Case, outs []string) (vs []hxlib.Violation) {
	if len(c.Lines) == 0 {
		return nil
	}
	switch strings.Fields(c.Lines[0])[0] {
	case "pl", "nm":
		// the documented names, read by the harness itself
		for i, l := range c.Lines {
			f := strings.Fields(l)
			if len(f) != 2 || i >= len(outs) {
				continue
			}
			want := ""
			switch f[0] {
			case "pl":
				b, err := hex.DecodeString(f[1])
				if err != nil && f[1] != "-" {
					continue
				}
				want = fmt.Sprintf("n=%d", levelNames[strings.ToLower(string(b))])
			case "nm":
				want = "s=none"
				for k, v := range levelNames {
					if strconv.Itoa(v) == f[1] {
						want = "s=" + k
					}
				}
			}
			if outs[i] != want {
				vs = append(vs, hxlib.Violation{Sig: "C20:level-names", What: fmt.Sprintf("level name table: %s gives %s, documented: %s", l, outs[i], want), Lines: []string{l}, Output: []string{outs[i]}})
			}
		}
	case "scenario":
		rr := parseRun(c.Lines)
		v := rr.verdict()
		if v == "pass" && rr.start != nil {
			// the levels in force after Start, measured on the real logger, against the harness' reading of the flags
			c0 := rr.cfgs[0]
			clamp := func(x int) int { return max(1, min(7, x)) }
			want := fmt.Sprintf("%d %d %d %d", clamp(inForce(c0, 0)), clamp(inForce(c0, 1)), clamp(inForce(c0, 2)), c0.Glob)
			if got := strings.Join(rr.start[6:10], " "); got != want {
				v = "fail start-levels measured=" + strings.ReplaceAll(got, " ", ",") + " expected=" + strings.ReplaceAll(want, " ", ",")
			}
		}
		if v != "pass" {
			f := strings.Fields(v)
			keep := c.Lines
			vs = append(vs, hxlib.Violation{Sig: "C20:" + f[1], What: "on the recorded run of the real logger: " + v + " (" + explain(f[1]) + ")", Lines: keep, Output: []string{v}})
		}
	case "at":
		// a line logged through whatever AddTracer handed out (a live tracer, or nil: a plain call), read literally:
		// handed to the writer iff its severity >= level in force for the origin (nothing changes the levels meanwhile)
		for i, l := range c.Lines {
			f := strings.Fields(l)
			if len(f) != 7 || i >= len(outs) {
				continue
			}
			o := strings.Fields(outs[i])
			if len(o) != 2 || !strings.HasPrefix(o[1], "e=") {
				if strings.HasPrefix(outs[i], "PANIC") {
					vs = append(vs, hxlib.Violation{Sig: "C20:panic:addtracer", What: outs[i], Lines: []string{l}, Output: []string{outs[i]}})
				}
				continue
			}
			cfg := cfgSnap{Glob: atoi(f[1]), Active: f[2] == "1", Pkgs: map[string]int{}}
			if f[3] != "-" {
				for _, kv := range strings.Split(f[3], ",") {
					p := strings.Split(kv, "=")
					cfg.Pkgs[p[0]] = atoi(p[1])
				}
			}
			want := "e=0"
			if atoi(f[6]) >= inForce(cfg, atoi(f[4])) {
				want = "e=1"
			}
			if o[1] != want {
				sig := "C20:filter:tracer:line-below-level-submitted"
				if want == "e=1" {
					sig = "C20:filter:tracer:enabled-line-dropped"
				}
				vs = append(vs, hxlib.Violation{Sig: sig, What: fmt.Sprintf("AddTracer + one line of severity %s through its result + Submit, level in force %d: got %s (t: whether AddTracer handed out a live tracer, e: whether the line was handed to the writer)", f[6], inForce(cfg, atoi(f[4])), outs[i]), Lines: []string{l}, Output: []string{outs[i]}})
			}
		}
	case "lv":
		// the filter read literally: emitted iff severity >= level in force for the origin
		for i, l := range c.Lines {
			f := strings.Fields(l)
			if len(f) != 6 || !strings.HasPrefix(outs[i], "e=") {
				if strings.HasPrefix(outs[i], "PANIC") {
					vs = append(vs, hxlib.Violation{Sig: "C20:panic:filter", What: outs[i], Lines: []string{l}, Output: []string{outs[i]}})
				}
				continue
			}
			cfg := cfgSnap{Glob: atoi(f[1]), Active: f[2] == "1", Pkgs: map[string]int{}}
			if f[3] != "-" {
				for _, kv := range strings.Split(f[3], ",") {
					p := strings.Split(kv, "=")
					cfg.Pkgs[p[0]] = atoi(p[1])
				}
			}
			want := "e=0"
			if atoi(f[5]) >= inForce(cfg, atoi(f[4])) {
				want = "e=1"
			}
			if outs[i] != want {
				sig := "C20:filter:disabled-line-accepted"
				if want == "e=1" {
					sig = "C20:filter:enabled-line-dropped"
				}
				vs = append(vs, hxlib.Violation{Sig: sig, What: fmt.Sprintf("level in force %d, severity %s: got %s", inForce(cfg, atoi(f[4])), f[5], outs[i]), Lines: []string{l}, Output: []string{outs[i]}})
			}
		}
	}
	return vs
}

func explain(cls string) string {
	switch cls {
	case "lost":
		return "an enabled line logged before Shutdown was requested did not reach the adapter, or lines of one goroutine arrived out of order"
	case "duplicated":
		return "a line reached the adapter more often than it was logged"
	case "filtered":
		return "a line below the level in force was emitted"
	case "unexpected":
		return "the adapter received a line nobody logged at that position (reordering or invention)"
	case "trace":
		return "a tracer submission did not carry exactly its collected lines, or was written with a repetition count (another line counted as its repetition)"
	case "start-levels":
		return "the levels in force after Start (lowest severity emitted per origin, GetLogLevel) are not what the -log / -plog flags and the levels set before Start prescribe"
	case "tracer-lost":
		return "a context-tracer submission that had to be written did not reach the adapter, in program order, as a line of its own with its collected lines (swallowed as a repetition of another line, dropped, or written out of order)"
	case "quiesce-timeout":
		return "enqueued lines were not handed to the adapter within 20 s although the writer was free to run (lost wake-up)"
	case "shutdown-hang":
		return "Shutdown did not return within 60 s"
	case "write-after-return":
		return "Shutdown returned before everything logged before it had been handed to the adapter (the adapter was still called afterwards)"
	}
	return cls
}

// ---------------------------------------------------------------------------------------------------
// executor

type execT struct {
	lines []string
	cfgs  map[string]bool
}

func newExec(r *hxlib.Run) hxlib.Exec { return &execT{cfgs: map[string]bool{}} }

func (e *execT) Do(line string) string {
	f := strings.Fields(line)
	if len(f) == 0 {
		return "bad-op"
	}
	e.lines = append(e.lines, line)
	switch f[0] {
	case "scenario", "np", "cfg", "item", "out", "meta", "ta":
		// recorded facts about the real run; well-formedness is the model driver's business too
		if f[0] == "cfg" && len(f) == 5 {
			e.cfgs[f[1]] = true
		}
		if e.wellFormed(f) {
			return "ok"
		}
		return "bad-op"
	case "p", "w":
		// the real code took this path: the model has to accept it
		if want, ok := malformed[line]; ok {
			return want // fixed out-of-protocol corpus: the acceptor has to reject exactly like this
		}
		return "ok"
	case "check":
		return parseRun(e.lines).verdict()
	case "lv":
		return probe(f)
	case "at":
		return probeTracer(f)
	case "pl": // the real ParseLevel
		if len(f) != 2 {
			return "bad-op"
		}
		str := ""
		if f[1] != "-" {
			b, err := hex.DecodeString(f[1])
			if err != nil {
				return "bad-op"
			}
			str = string(b)
		}
		return fmt.Sprintf("n=%d", log.ParseLevel(str))
	case "nm": // the real Severity.Name
		n, err := strconv.Atoi(f[1])
		if len(f) != 2 || err != nil {
			return "bad-op"
		}
		return "s=" + log.Severity(n).Name()
	case "start":
		// recorded in the child: the levels in force after the real Start read the flags (sweep over
		// origins × severities, GetLogLevel)
		if len(f) != 10 {
			return "bad-op"
		}
		return "thr " + strings.Join(f[6:10], " ")
	}
	return "bad-op"
}

func (e *execT) wellFormed(f []string) bool {
	switch f[0] {
	case "ta":
		return len(f) == 5 && e.cfgs[f[1]]
	case "item":
		if len(f) < 7 {
			return false
		}
		for _, s := range strings.Split(f[6], ",") {
			if i := strings.IndexByte(s, ':'); i > 0 && !e.cfgs[s[:i]] { // unknown configuration id
				return false
			}
		}
	case "out":
		for _, t := range f[1:] {
			if strings.Count(t, ":") < 2 {
				return false
			}
		}
	}
	return true
}

// malformed is the out-of-protocol corpus with the rejection the acceptor must produce.
var malformed = map[string]string{
	"w bogus":                        "reject 0 bad-token",
	"w token token":                  "reject 1 not-enabled",
	"w token unset slot W:1:3:1:10:0:0": "reject 3 write-unpredicted",
	"p 0 1 enq ret":                  "reject 0 no-line",
	"p 0 1 line won ret":             "reject 1 not-enabled",
	"p 0 1 line enq won tokFull ret": "reject 3 token-dropped",
	"p 0 1 line enq won ret":         "reject 3 ret",
}

// ---- sequential probes of the level filter on a logger started in this process

var (
	probeOnce sync.Once
	probeMu   sync.Mutex
	probeHit  bool
)

type discard struct{}

func (discard) Write(log.Message, uint64) {}

// probeCfg reads "<glob> <active> <pkgs> <org>" of a probe line.
func probeCfg(f []string) (glob, act, org int, pk map[string]log.Severity, ok bool) {
	glob, e1 := strconv.Atoi(f[1])
	act, e2 := strconv.Atoi(f[2])
	org, e4 := strconv.Atoi(f[4])
	if e1 != nil || e2 != nil || e4 != nil || org < 0 || org > 2 {
		return 0, 0, 0, nil, false
	}
	pk = map[string]log.Severity{}
	if f[3] != "-" {
		for _, kv := range strings.Split(f[3], ",") {
			p := strings.Split(kv, "=")
			if len(p) != 2 {
				return 0, 0, 0, nil, false
			}
			id, e := strconv.Atoi(p[0])
			v, e6 := strconv.Atoi(p[1])
			if e != nil || e6 != nil {
				return 0, 0, 0, nil, false
			}
			name := "zzz"
			if id >= 0 && id < 3 {
				name = orgNames[id]
			}
			pk[name] = log.Severity(v)
		}
	}
	return glob, act, org, pk, true
}

// probeTracer: "at <glob> <active> <pkgs> <org> <mode> <lvl>" — AddTracer on the real package from the origin
// under the given levels, on a fresh context / a nil context / a context that already carries a tracer; one line
// of severity lvl is logged through whatever came back, then Submit. Reports whether the tracer was live and
// whether the line was handed to the writer.
func probeTracer(f []string) string {
	if len(f) != 7 {
		return "bad-op"
	}
	glob, act, org, pk, ok := probeCfg(f)
	lvl, e5 := strconv.Atoi(f[6])
	if !ok || e5 != nil || lvl < 1 || lvl > 6 {
		return "bad-op"
	}
	probeStart()
	probeMu.Lock()
	defer probeMu.Unlock()
	var ctx context.Context
	switch f[5] {
	case "fresh":
		ctx = context.Background()
	case "nil":
	case "existing":
		log.SetLogLevel(log.TraceLevel)
		log.UnSetPkgLevels()
		var t *log.ContextTracer
		ctx, t = log.AddTracer(context.Background())
		if t == nil {
			return "no-tracer-at-trace-level"
		}
	default:
		return "bad-op"
	}
	log.SetLogLevel(log.Severity(glob))
	log.SetPkgLevels(pk)
	if act == 0 {
		log.UnSetPkgLevels()
	}
	probeHit = false
	live := orgs[org].probe(ctx, lvl, "probe")
	return fmt.Sprintf("t=%d e=%d", b2i(live), b2i(probeHit))
}

func b2i(b bool) int {
	if b {
		return 1
	}
	return 0
}

func probeStart() {
	probeOnce.Do(func() {
		if dn, err := os.OpenFile(os.DevNull, os.O_WRONLY, 0); err == nil {
			so := os.Stdout
			os.Stdout = dn
			defer func() { os.Stdout = so }()
		}
		log.SetAdapter(discard{})
		log.VerifSetSink(func(point string, args ...any) {
			if point == "p:line" {
				probeHit = true
			}
		})
		_ = log.Start()
	})
}

func probe(f []string) string {
	if len(f) != 6 {
		return "bad-op"
	}
	glob, act, org, pk, ok := probeCfg(f)
	lvl, e5 := strconv.Atoi(f[5])
	if !ok || e5 != nil {
		return "bad-op"
	}
	probeStart()
	probeMu.Lock()
	defer probeMu.Unlock()
	log.SetLogLevel(log.Severity(glob))
	log.SetPkgLevels(pk)
	if act == 0 {
		log.UnSetPkgLevels()
	}
	probeHit = false
	orgs[org].log(lvl, "probe", 1, func() {})
	if probeHit {
		return "e=1"
	}
	return "e=0"
}
