package main

// Scenario runner: executes one generated scenario on the REAL log package in a fresh process
// (the logger can be started only once per process) and writes the recorded trace as case lines to fd 3.

import (
	"bufio"
	"context"
	"encoding/hex"
	"encoding/json"
	"flag"
	"fmt"
	"os"
	"runtime"
	"sort"
	"strconv"
	"strings"
	"sync"
	"sync/atomic"
	"time"

	"github.com/safing/portbase/log"

	"verifharness/cmd/hx-c20/orga"
	"verifharness/cmd/hx-c20/orgb"
	"verifharness/cmd/hx-c20/orgc"
)

// Op is one step of a producer program.
type Op struct {
	Kind    string  `json:"k"`           // log | logf | dyn | tr | via | trig | lvl | sleep
	Lvl     int     `json:"l,omitempty"` // severity 1..6
	Org     int     `json:"o,omitempty"` // origin package index 0..2
	Item    int     `json:"i,omitempty"` // message id, unique and increasing within the producer
	Reps    int     `json:"r,omitempty"` // identical consecutive calls from one call site
	Entries []EntOp `json:"e,omitempty"` // tr: the entries collected before Submit
	Us      int     `json:"us,omitempty"`
	Nil     bool    `json:"n,omitempty"` // via: log through an explicitly nil tracer (a context without tracer)
	F       bool    `json:"f,omitempty"` // tr: collect through the other half of the tracer's methods (Collectf)
}

// The call sites of the origin packages ("variants"): a line is identified by message, level, file and line,
// i.e. by (item, level, origin, variant); every variant is one source line per level, vDyn and vVia are ONE
// source line for all levels.
const (
	vLog     = 0 // orgX.Log:     log.Info(msg) …
	vLogf    = 1 // orgX.Logf:    log.Infof("%s", msg) …
	vCollect = 2 // orgX.Collect: t.Info(msg) … through a possibly-nil tracer
	vDyn     = 3 // orgX.LogDyn:  f(msg) with f = log.Info … (function value)
	vVia     = 4 // orgX.Via:     f(t, msg) with f = (*ContextTracer).Info … through a possibly-nil tracer
	vCollF   = 5 // orgX.Collectf: t.Infof/… — the other half of the tracer's methods
)

// EntOp is one entry collected by a context tracer.
type EntOp struct {
	Lvl  int `json:"l"`
	Item int `json:"i"`
}

// CtlOp is one level change made concurrently with the producers.
type CtlOp struct {
	DelayUs int            `json:"d"`
	Kind    string         `json:"k"` // level | pkgs | unset
	Level   int            `json:"l,omitempty"`
	Pkgs    map[string]int `json:"p,omitempty"`
}

// Spec is one scenario.
type Spec struct {
	Seed        int64          `json:"seed"`
	Paced       bool           `json:"paced"`      // EnableScheduling: writer paced externally
	TriggerUs   int            `json:"trigger_us"` // period of TriggerWriter calls when paced (0: never, only forced emptying and shutdown)
	Glob        int            `json:"glob"`
	Pkgs        map[string]int `json:"pkgs,omitempty"` // nil: package levels inactive
	Prods       [][]Op         `json:"prods"`
	Ctl         []CtlOp        `json:"ctl,omitempty"`
	AdapterUs   int            `json:"adapter_us"` // the adapter sleeps this long on every AdapterEvery-th write
	AdapterEv   int            `json:"adapter_every"`
	YieldPm     int            `json:"yield_pm"` // per mille of hook events that sleep
	YieldUs     int            `json:"yield_us"`
	YieldAt     []string       `json:"yield_at,omitempty"` // hook points that always sleep YieldUs
	Shutdown    string         `json:"shutdown"`           // end | mid
	MidAfterUs  int            `json:"mid_after_us"`
	Quiesce     bool           `json:"quiesce"` // before Shutdown, wait until everything enqueued was written
	QuiesceMs   int            `json:"quiesce_ms,omitempty"`
	Hogs        int            `json:"hogs,omitempty"`         // busy goroutines competing for the CPU (with GOMAXPROCS from Procs)
	Procs       int            `json:"procs,omitempty"`        // GOMAXPROCS of the child (0: default)
	AdapterSpin int            `json:"adapter_spin,omitempty"` // busy iterations per adapter write (CPU work, no sleep)
	MaxPaths    int            `json:"max_paths,omitempty"`    // record at most this many call paths per goroutine (0: all)
	Light       bool           `json:"light,omitempty"`        // cheap observation: no writer trace, adapter records only (goroutine, item, duplicates); plain calls only
	Cap         int            `json:"cap,omitempty"`          // 0: the logger's own buffer capacity (1024); else a small one (verif helper)
	Glue        []string       `json:"glue,omitempty"`         // start-twice | shutdown-twice | nil-adapter | late-adapter | pre-start | nil-tracer | concurrent-shutdown
	FlagLog     string         `json:"flag_log,omitempty"`     // -log flag given to Start ("" = not given)
	FlagPkgs    string         `json:"flag_pkgs,omitempty"`    // -plog flag given to Start
	Sweep       bool           `json:"sweep,omitempty"`        // the last producer logs once per origin × severity and runs alone, first: measures the levels in force after Start
}

// levelNames is the harness' own reading of the documented level names of the -log / -plog flags
// ("[trace|debug|info|warning|error|critical]", case-insensitive).
var levelNames = map[string]int{"trace": 1, "debug": 2, "info": 3, "warning": 4, "error": 5, "critical": 6}

// startCfg is the harness' reading of what Start makes of the flags: -log sets the global level (unknown
// name: info); a non-empty -plog replaces the package levels by its name=level pairs and activates them; the
// first pair that is not name=<known level> is "ignored" together with everything after it.
func startCfg(pre cfgSnap, lf, pf string) cfgSnap {
	c := pre
	if lf != "" {
		c.Glob = levelNames[strings.ToLower(lf)]
		if c.Glob == 0 {
			c.Glob = 3
		}
	}
	if pf != "" {
		m := map[string]int{}
		for _, pair := range strings.Split(pf, ",") {
			kv := strings.Split(pair, "=")
			if len(kv) != 2 || levelNames[strings.ToLower(kv[1])] == 0 {
				break
			}
			m[kv[0]] = levelNames[strings.ToLower(kv[1])]
		}
		c.Active, c.Pkgs = true, m
	}
	return c
}

func hexOrDash(s string) string {
	if s == "" {
		return "-"
	}
	return hex.EncodeToString([]byte(s))
}

var orgNames = []string{"orga", "orgb", "orgc"}

type orgFns struct {
	log, logf, dyn func(int, string, int, func())
	via            func(*log.ContextTracer, int, string)
	probe          func(context.Context, int, string) bool
	tracer         func() *log.ContextTracer
	collect        func(*log.ContextTracer, []orga.Entry, func())
	collectf       func(*log.ContextTracer, []orga.Entry, func())
}

var orgs = []orgFns{
	{orga.Log, orga.Logf, orga.LogDyn, orga.Via, orga.ProbeTracer, orga.Tracer, orga.Collect, orga.Collectf},
	{orgb.Log, orgb.Logf, orgb.LogDyn, orgb.Via, orgb.ProbeTracer, orgb.Tracer, func(t *log.ContextTracer, e []orga.Entry, f func()) {
		x := make([]orgb.Entry, len(e))
		for i := range e {
			x[i] = orgb.Entry(e[i])
		}
		orgb.Collect(t, x, f)
	}, func(t *log.ContextTracer, e []orga.Entry, f func()) {
		x := make([]orgb.Entry, len(e))
		for i := range e {
			x[i] = orgb.Entry(e[i])
		}
		orgb.Collectf(t, x, f)
	}},
	{orgc.Log, orgc.Logf, orgc.LogDyn, orgc.Via, orgc.ProbeTracer, orgc.Tracer, func(t *log.ContextTracer, e []orga.Entry, f func()) {
		x := make([]orgc.Entry, len(e))
		for i := range e {
			x[i] = orgc.Entry(e[i])
		}
		orgc.Collect(t, x, f)
	}, func(t *log.ContextTracer, e []orga.Entry, f func()) {
		x := make([]orgc.Entry, len(e))
		for i := range e {
			x[i] = orgc.Entry(e[i])
		}
		orgc.Collectf(t, x, f)
	}},
}

// itemKey identifies the lines that may be merged with each other: same message, same severity, same file
// (origin package) and same line (call-site variant), and neither of them a tracer submission — a tracer
// submission and a plain call are never merged, whatever else they share.
func itemKey(item, lvl, variant, org int, tracer bool) int {
	k := (((item*8+lvl)*8+variant)*4 + org) * 2
	if tracer {
		k++
	}
	return k
}

// payloads make the message texts less uniform (the logger must treat them as opaque): empty, spaces,
// format verbs, non-ASCII, control characters, long. The payload is a function of (gid, item), so
// identical calls still produce identical lines.
var payloads = []string{"", "", " x", " two words", " 100%d %s %v", " ünïcödé ✓", " tab\there", " nl\nline", " " + strings.Repeat("long ", 400)}

// suffixBase: item ids b + k*suffixBase (k = 1, 2, …) are the message of item b followed by " #k" — texts
// of which one is a proper prefix of the other.
const suffixBase = 200000

func msgText(gid, item int) string {
	b, k := item%suffixBase, item/suffixBase
	t := "g" + strconv.Itoa(gid) + " i" + strconv.Itoa(b) + payloads[(gid*31+b*7)%len(payloads)]
	if k > 0 {
		t += " #" + strconv.Itoa(k)
	}
	return t
}

// parseMsgPrefix reads "g<gid> i<item>" without checking the payload (light mode).
func parseMsgPrefix(s string) (gid, item int, ok bool) {
	if len(s) < 4 || s[0] != 'g' {
		return 0, 0, false
	}
	i := 1
	for ; i < len(s) && s[i] >= '0' && s[i] <= '9'; i++ {
		gid = gid*10 + int(s[i]-'0')
	}
	if i == 1 || i+2 >= len(s) || s[i] != ' ' || s[i+1] != 'i' {
		return 0, 0, false
	}
	j := i + 2
	for ; j < len(s) && s[j] >= '0' && s[j] <= '9'; j++ {
		item = item*10 + int(s[j]-'0')
	}
	return gid, item, j > i+2
}

func atoiSafe(s string) int { n, _ := strconv.Atoi(s); return n }

func parseMsg(s string) (gid, item int, ok bool) {
	if len(s) < 4 || s[0] != 'g' {
		return 0, 0, false
	}
	sp := strings.IndexByte(s, ' ')
	if sp < 0 || sp+2 > len(s) || s[sp+1] != 'i' {
		return 0, 0, false
	}
	g, e1 := strconv.Atoi(s[1:sp])
	end := sp + 2
	for end < len(s) && s[end] >= '0' && s[end] <= '9' {
		end++
	}
	i, e2 := strconv.Atoi(s[sp+2 : end])
	if e1 != nil || e2 != nil || i >= suffixBase {
		return 0, 0, false
	}
	if h := strings.LastIndex(s, " #"); h > 0 && s != msgText(g, i) {
		k, e3 := strconv.Atoi(s[h+2:])
		if e3 != nil || k < 1 || k > 4 {
			return 0, 0, false
		}
		i += k * suffixBase
	}
	if s != msgText(g, i) {
		return 0, 0, false
	}
	return g, i, true
}

type cfgSnap struct {
	Glob   int
	Active bool
	Pkgs   map[string]int
}

func (c cfgSnap) line(id int) string {
	a := 0
	if c.Active {
		a = 1
	}
	var ps []string
	for k, v := range c.Pkgs {
		ps = append(ps, fmt.Sprintf("%d=%d", pkgID(k), v))
	}
	sort.Strings(ps)
	p := "-"
	if len(ps) > 0 {
		p = strings.Join(ps, ",")
	}
	return fmt.Sprintf("cfg %d %d %d %s", id, c.Glob, a, p)
}

func pkgID(name string) int {
	for i, n := range orgNames {
		if n == name {
			return i
		}
	}
	return 9 // a package nobody logs from
}

// callRec is one completed log call (or tracer submission) of a producer.
type callRec struct {
	item    int
	lvl     int
	org     int
	cfg     int  // id of the level configuration in force during the whole call (tracer submission: from before AddTracer until Submit returned); -1: changed meanwhile
	before  bool // the call returned before Shutdown was requested
	variant int  // 0: Info(msg) …, 1: Infof("%s", msg) … (another call site)
	kind    byte // 'p' plain call, 't' tracer submission, 'x' / 'X' unfinished (any form, optional; X: as a tracer line)
	entries []int
}

// entID identifies a collected entry of a submission: its text and its level.
func entID(item, lvl int) int {
	if item < 0 {
		return 0
	}
	return item*8 + lvl
}

// entLevel is the severity of a collected entry, read back from its id.
func entLevel(id int) int { return id % 8 }

func (c *child) key(r callRec) int {
	if c.spec.Light {
		return itemKey(r.item, r.lvl, 0, 0, false) // the cheap adapter does not look at call sites (messages are unique there)
	}
	return itemKey(r.item, r.lvl, r.variant, r.org, r.kind == 't' || r.kind == 'X')
}

type prodState struct {
	mu         sync.Mutex
	calls      []callRec
	paths      []string // "p <gid> <seq> tokens"
	cur        []string
	seq        int
	opIdx      int
	opCalls    int // calls completed within the op in progress
	done       bool
	curVariant int // call-site variant of the call in progress (written and read on the producer goroutine)
	curLvl     int // the severity that call is made at (as the program says, not as the logger reports it)
	tas        []string // "ta <cfg> <org> <existing> <live>": AddTracer calls made under a configuration that did not change meanwhile
}

// maxTas bounds the recorded AddTracer calls per goroutine.
const maxTas = 600

// addTracer asks the origin package for a context tracer and records the outcome together with the
// configuration in force (if it did not change during the call). It returns the epoch read BEFORE the call:
// the life of a live tracer — the "call" its submission is judged as — starts there.
func (c *child) addTracer(ps *prodState, org int) (*log.ContextTracer, int64) {
	ea := c.epoch.Load()
	t := orgs[org].tracer()
	if eb := c.epoch.Load(); ea == eb && ea%2 == 0 && len(ps.tas) < maxTas {
		live := 0
		if t != nil {
			live = 1
		}
		ps.mu.Lock()
		ps.tas = append(ps.tas, fmt.Sprintf("ta %d %d 0 %d", ea/2, org, live))
		ps.mu.Unlock()
	}
	return t, ea
}

type child struct {
	spec    Spec
	mu      sync.Mutex // orders all recorded events
	wtoks   []string
	outs    []string
	sites   map[string]int
	files   map[string]int
	siteVar map[int]int    // site id → call-site variant
	varSite map[[3]int]int // (variant, origin, level or 0) → site id: every variant is ONE source line
	siteBad string
	sweepHit map[int]bool
	cfgMu   sync.Mutex // serialises level changes (control goroutine, lvl ops of producers)
	cur     cfgSnap
	info    map[any]string // line pointer → "id:msgkey:lvl:site:tr" (id = gid.seq)
	prods   []*prodState

	lightOuts []uint64     // light mode: gid<<40 | key<<8 | dups (dups < 256), written by the writer goroutine only
	nLines    atomic.Int64 // lines that passed the filter (p:line events)
	nWritten  atomic.Int64 // lines handed to the adapter, duplicates expanded
	nWrites   int
	foreign   int

	epoch        atomic.Int64
	cfgs         []cfgSnap
	shutReq      atomic.Int32
	shutRet      atomic.Int32
	afterSh      int // adapter writes after Shutdown returned
	afterShLight atomic.Int64

	rng atomic.Uint64
}

func (c *child) rnd() uint64 {
	for {
		o := c.rng.Load()
		x := o
		x ^= x << 13
		x ^= x >> 7
		x ^= x << 17
		if c.rng.CompareAndSwap(o, x) {
			return x
		}
	}
}

// orgOfFile is the origin package of a call site: the directory of the file, as the logger derives it.
func orgOfFile(file string) int {
	seg := strings.Split(file, "/")
	if len(seg) >= 2 {
		return pkgID(seg[len(seg)-2]) % 4
	}
	return 3
}

// content canonicalises a line: "msgkey:level:file:line:tracer" with small ids for message and file.
func (c *child) content(m log.Message) (gid, item int, tok string, sid, org int) {
	gid, item, ok := parseMsg(m.Text())
	if !ok {
		return -1, 0, "", 0, 0
	}
	site := m.File() + ":" + strconv.Itoa(m.LineNumber())
	sid, ok = c.sites[site]
	if !ok {
		sid = len(c.sites) + 1
		c.sites[site] = sid
	}
	fid, ok := c.files[m.File()]
	if !ok {
		fid = len(c.files) + 1
		c.files[m.File()] = fid
	}
	tr := 0
	if _, isT := log.VerifTraceEntries(m); isT {
		tr = 1
	}
	return gid, item, fmt.Sprintf("%d:%d:%d:%d:%d", gid*1000000+item, int(m.Severity()), fid, m.LineNumber(), tr), sid, orgOfFile(m.File())
}

// noteSite records which call-site variant a source line belongs to and checks what the item keys rely on:
// a source line has one variant, a variant (per origin, and per level except for the one-line variants) is
// one source line.
func (c *child) noteSite(sid, variant, org, lvl int) {
	if v, ok := c.siteVar[sid]; ok && v != variant {
		c.siteBad = fmt.Sprintf("site %d used by variants %d and %d", sid, v, variant)
	}
	c.siteVar[sid] = variant
	k := [3]int{variant, org, lvl}
	if variant == vDyn || variant == vVia {
		k[2] = 0
	}
	if s0, ok := c.varSite[k]; ok && s0 != sid {
		c.siteBad = fmt.Sprintf("variant %v has the call sites %d and %d", k, s0, sid)
	}
	c.varSite[k] = sid
}

func (c *child) sink(point string, args ...any) {
	if strings.HasPrefix(point, "yield:") {
		return
	}
	if c.spec.Light && point[0] == 'w' {
		return // the observation must not slow the writer down in contention scenarios
	}
	c.mu.Lock()
	switch {
	case strings.HasPrefix(point, "p:"):
		m, _ := args[0].(log.Message)
		gid, _, tok, sid, org := c.content(m)
		if gid < 0 || gid >= len(c.prods) {
			c.foreign++
			break
		}
		ps := c.prods[gid]
		ev := point[2:]
		if ev == "line" {
			ps.seq++
			seq := ps.seq
			if gid >= len(c.spec.Prods) {
				seq = 0 // replayed pre-Start lines: no program order to compare the channel order with
			}
			if c.spec.Sweep && gid == len(c.spec.Prods)-1 {
				_, it, _ := parseMsg(m.Text())
				c.sweepHit[it] = true
			}
			c.info[args[0]] = fmt.Sprintf("%d.%d:%s", gid, seq, tok)
			if gid < len(c.spec.Prods) {
				c.noteSite(sid, ps.curVariant, org, ps.curLvl)
			}
			c.nLines.Add(1)
			ps.cur = []string{fmt.Sprintf("p %d %d line", gid, ps.seq)}
		} else if gid >= len(c.spec.Prods) {
			// lines logged before Start are replayed by concurrent helper goroutines: no single call path
		} else {
			ps.cur = append(ps.cur, ev)
			if ev == "ret" {
				if c.spec.MaxPaths == 0 || len(ps.paths) < c.spec.MaxPaths {
					ps.mu.Lock()
					ps.paths = append(ps.paths, strings.Join(ps.cur, " "))
					ps.mu.Unlock()
				}
				ps.cur = nil
			}
		}
	case strings.HasPrefix(point, "w:"):
		ev := point[2:]
		if ev == "deq" || ev == "fdeq" {
			inf, ok := c.info[args[0]]
			if !ok {
				c.foreign++
				inf = "x.0:0:0:0:0:0"
			}
			delete(c.info, args[0])
			ev += ":" + inf
		}
		c.wtoks = append(c.wtoks, ev)
	}
	c.mu.Unlock()
	c.yield(point)
}

func (c *child) yield(point string) {
	for _, p := range c.spec.YieldAt {
		if p == point {
			time.Sleep(time.Duration(c.spec.YieldUs) * time.Microsecond)
			return
		}
	}
	if c.spec.YieldPm > 0 && int(c.rnd()%1000) < c.spec.YieldPm {
		time.Sleep(time.Duration(c.rnd()%uint64(c.spec.YieldUs+1)) * time.Microsecond)
	}
}

// Write is the adapter installed with log.SetAdapter: the observation point of the property.
func (c *child) Write(m log.Message, dups uint64) {
	if c.spec.Light {
		gid, item, ok := parseMsgPrefix(m.Text())
		if !ok || dups > 255 {
			gid, item = 1<<20, 0 // reported as a line nobody logged
		}
		c.lightOuts = append(c.lightOuts, uint64(gid)<<40|uint64(itemKey(item, int(m.Severity()), 0, 0, false))<<8|dups&255)
		c.nWritten.Add(int64(dups) + 1)
		if c.shutRet.Load() == 1 {
			c.afterShLight.Add(1)
		}
		if k := c.spec.AdapterSpin; k > 0 {
			x := dups
			for i := 0; i < k; i++ {
				x = x*6364136223846793005 + 1442695040888963407
			}
			spinSink.Store(x)
		}
		return
	}
	c.mu.Lock()
	gid, item, tok, sid, org := c.content(m)
	if gid < 0 {
		c.foreign++
		c.mu.Unlock()
		return
	}
	c.wtoks = append(c.wtoks, fmt.Sprintf("W:%s:%d", tok, dups))
	es, isT := log.VerifTraceEntries(m)
	variant := c.siteVar[sid]
	if gid >= len(c.spec.Prods) {
		variant, org = 0, 0 // lines logged before Start (from this file)
	}
	o := fmt.Sprintf("%d:%d:%d", gid, itemKey(item, int(m.Severity()), variant, org, isT), dups)
	if isT {
		var ids []string
		for _, e := range es {
			_, it, ok := parseMsg(e.Text())
			if !ok {
				it = -1
			}
			ids = append(ids, strconv.Itoa(entID(it, int(e.Severity()))))
		}
		o += ":e" + strings.Join(ids, ",")
	}
	c.outs = append(c.outs, o)
	c.nWrites++
	if c.shutRet.Load() == 1 {
		c.afterSh++
	}
	n := c.nWrites
	c.mu.Unlock()
	c.nWritten.Add(int64(dups) + 1)
	if k := c.spec.AdapterSpin; k > 0 {
		x := uint64(n)
		for i := 0; i < k; i++ {
			x = x*6364136223846793005 + 1442695040888963407
		}
		spinSink.Store(x)
	}
	if c.spec.AdapterUs > 0 && c.spec.AdapterEv > 0 && n%c.spec.AdapterEv == 0 {
		time.Sleep(time.Duration(c.spec.AdapterUs) * time.Microsecond)
	}
}

func (c *child) applyCfg(f func(), next cfgSnap) {
	c.epoch.Add(1) // odd: change in progress
	f()
	c.mu.Lock()
	c.cfgs = append(c.cfgs, next)
	c.mu.Unlock()
	c.epoch.Add(1)
}

var spinSink atomic.Uint64

func toSev(m map[string]int) map[string]log.Severity {
	o := make(map[string]log.Severity, len(m))
	for k, v := range m {
		o[k] = log.Severity(v)
	}
	return o
}

// setLevels applies one level change (from the control goroutine or from a producer's lvl op).
func (c *child) setLevels(kind string, level int, pkgs map[string]int) {
	c.cfgMu.Lock()
	defer c.cfgMu.Unlock()
	switch kind {
	case "level":
		c.cur.Glob = level
		c.applyCfg(func() { log.SetLogLevel(log.Severity(level)) }, c.cur)
	case "pkgs":
		c.cur.Active, c.cur.Pkgs = true, pkgs
		c.applyCfg(func() { log.SetPkgLevels(toSev(pkgs)) }, c.cur)
	case "unset":
		c.cur.Active = false
		c.applyCfg(func() { log.UnSetPkgLevels() }, c.cur)
	}
}

func (c *child) runProducer(gid int, prog []Op, wg *sync.WaitGroup) {
	defer wg.Done()
	ps := c.prods[gid]
	e1 := c.epoch.Load()
	rec := func(r callRec) {
		e2 := c.epoch.Load()
		r.cfg = -1
		if e1 == e2 && e1%2 == 0 {
			r.cfg = int(e1 / 2)
		}
		r.before = c.shutReq.Load() == 0
		ps.mu.Lock()
		ps.calls = append(ps.calls, r)
		ps.opCalls++
		ps.mu.Unlock()
		e1 = c.epoch.Load()
	}
	for i, op := range prog {
		ps.mu.Lock()
		ps.opIdx, ps.opCalls = i, 0
		ps.mu.Unlock()
		switch op.Kind {
		case "sleep":
			time.Sleep(time.Duration(op.Us) * time.Microsecond)
			e1 = c.epoch.Load()
		case "trig":
			// paced writer: hand the writer its time slot — a blocking send on the trigger channel, i.e. the
			// writer starts draining only after everything this goroutine logged so far is in the buffer
			// (bounded wait: the writer may be asleep with nothing to do)
			if c.spec.Paced {
				us := op.Us
				if us <= 0 {
					us = 30000
				}
				select {
				case log.TriggerWriterChannel() <- struct{}{}:
				case <-time.After(time.Duration(us) * time.Microsecond):
				}
			}
			e1 = c.epoch.Load()
		case "lvl":
			c.setLevels("level", op.Lvl, nil)
			e1 = c.epoch.Load()
		case "log", "logf", "dyn":
			f, v := orgs[op.Org].log, vLog
			switch op.Kind {
			case "logf":
				f, v = orgs[op.Org].logf, vLogf
			case "dyn":
				f, v = orgs[op.Org].dyn, vDyn
			}
			ps.curVariant, ps.curLvl = v, op.Lvl
			e1 = c.epoch.Load()
			f(op.Lvl, msgText(gid, op.Item), op.Reps, func() { rec(callRec{item: op.Item, lvl: op.Lvl, org: op.Org, variant: v, kind: 'p'}) })
		case "tr":
			vC, collect := vCollect, orgs[op.Org].collect
			if op.F {
				vC, collect = vCollF, orgs[op.Org].collectf
			}
			ps.curVariant = vC
			t, eLife := c.addTracer(ps, op.Org)
			es := make([]orga.Entry, len(op.Entries))
			ids := make([]int, len(op.Entries))
			for k, e := range op.Entries {
				es[k] = orga.Entry{Lvl: e.Lvl, Msg: msgText(gid, e.Item)}
				ids[k] = entID(e.Item, e.Lvl)
			}
			e1 = c.epoch.Load()
			if t == nil {
				// no tracer (trace level not in force for this origin): every entry is a plain call
				k := 0
				if len(es) > 0 {
					ps.curLvl = es[0].Lvl
				}
				collect(nil, es, func() {
					rec(callRec{item: op.Entries[k].Item, lvl: op.Entries[k].Lvl, org: op.Org, variant: vC, kind: 'p'})
					k++
					if k < len(es) {
						ps.curLvl = es[k].Lvl
					}
				})
				break
			}
			// a live tracer: its level decision was taken by AddTracer, for everything it collects — the submission
			// is judged under the configuration in force from before AddTracer until Submit has returned
			collect(t, es, func() {})
			e1 = eLife
			if len(es) > 0 {
				ps.curLvl = es[len(es)-1].Lvl
			}
			t.Submit()
			if len(es) > 0 {
				last := op.Entries[len(es)-1]
				rec(callRec{item: last.Item, lvl: last.Lvl, org: op.Org, variant: vC, kind: 't', entries: ids[:len(ids)-1]})
			}
		case "via":
			// one call site, reached through a possibly-nil tracer: Entries (if a tracer is asked for) and then
			// the main line (Lvl, Item). Without a tracer every line is a plain call from that very site.
			ps.curVariant = vVia
			via := orgs[op.Org].via
			for rep := 0; rep < max(op.Reps, 1); rep++ {
				var t *log.ContextTracer
				var eLife int64
				ents := op.Entries
				if op.Nil {
					ents = nil
				} else {
					t, eLife = c.addTracer(ps, op.Org)
				}
				if t == nil {
					for _, e := range ents {
						e1 = c.epoch.Load()
						ps.curLvl = e.Lvl
						via(nil, e.Lvl, msgText(gid, e.Item))
						rec(callRec{item: e.Item, lvl: e.Lvl, org: op.Org, variant: vVia, kind: 'p'})
					}
					e1 = c.epoch.Load()
					ps.curLvl = op.Lvl
					via(nil, op.Lvl, msgText(gid, op.Item))
					rec(callRec{item: op.Item, lvl: op.Lvl, org: op.Org, variant: vVia, kind: 'p'})
					continue
				}
				ids := make([]int, len(ents))
				for k, e := range ents {
					via(t, e.Lvl, msgText(gid, e.Item))
					ids[k] = entID(e.Item, e.Lvl)
				}
				via(t, op.Lvl, msgText(gid, op.Item))
				e1 = eLife // the tracer's whole life, see the tr op
				ps.curLvl = op.Lvl
				t.Submit()
				rec(callRec{item: op.Item, lvl: op.Lvl, org: op.Org, variant: vVia, kind: 't', entries: ids})
			}
		}
	}
	ps.mu.Lock()
	ps.opIdx, ps.opCalls = len(prog), 0
	ps.done = true
	ps.mu.Unlock()
}

func childMain() {
	var spec Spec
	if err := json.NewDecoder(os.Stdin).Decode(&spec); err != nil {
		fmt.Fprintln(os.Stderr, "child: bad spec:", err)
		os.Exit(4)
	}
	res := os.NewFile(3, "result")
	if res == nil {
		fmt.Fprintln(os.Stderr, "child: no result fd")
		os.Exit(4)
	}
	// keep the logger's own BOF/EOF chatter away from the harness
	if dn, err := os.OpenFile(os.DevNull, os.O_WRONLY, 0); err == nil {
		os.Stdout = dn
	}
	c := &child{spec: spec, sites: map[string]int{}, files: map[string]int{}, siteVar: map[int]int{}, varSite: map[[3]int]int{}, info: map[any]string{}, sweepHit: map[int]bool{}}
	c.rng.Store(uint64(spec.Seed)*2654435761 + 88172645463325252)
	for range spec.Prods {
		c.prods = append(c.prods, &prodState{})
	}
	pre := cfgSnap{Glob: spec.Glob, Active: spec.Pkgs != nil, Pkgs: spec.Pkgs}
	first := startCfg(pre, spec.FlagLog, spec.FlagPkgs) // what has to be in force once Start has read the flags
	c.cfgs = []cfgSnap{first}
	c.cur = first

	glue := map[string]bool{}
	for _, g := range spec.Glue {
		glue[g] = true
	}
	log.VerifSetSink(c.sink)
	log.SetAdapter(c)
	if glue["nil-adapter"] {
		log.SetAdapter(nil) // documented no-op
	}
	log.SetLogLevel(log.Severity(spec.Glob))
	if spec.Pkgs != nil {
		log.SetPkgLevels(toSev(spec.Pkgs))
	}
	preStart, preTracer := 0, 0
	if glue["pre-start"] {
		// logged before Start: outside the statement (replayed by helper goroutines in any order);
		// counted, must not disturb anything else. Uses goroutine ids nobody else has: one for plain lines,
		// one for a tracer submission made before Start (kept and submitted once the logger runs).
		preStart = 3
		c.prods = append(c.prods, &prodState{}, &prodState{}) // pseudo goroutines for the replayed lines
		for i := 0; i < preStart; i++ {
			log.Warning(msgText(len(spec.Prods), 1))
		}
		if ctx, t := log.AddTracer(context.Background()); t != nil {
			if _, again := log.AddTracer(ctx); again != nil {
				fmt.Fprintln(os.Stderr, "child: AddTracer handed out a second tracer for one context")
				os.Exit(5)
			}
			preTracer = 1
			t.Warning(msgText(len(spec.Prods)+1, 1))
			t.Submit()
		}
	}
	if spec.Paced {
		log.EnableScheduling()
	}
	if spec.FlagLog != "" {
		_ = flag.Set("log", spec.FlagLog)
	}
	if spec.FlagPkgs != "" {
		_ = flag.Set("plog", spec.FlagPkgs)
	}
	if err := log.Start(); err != nil && spec.FlagPkgs == "" { // (a malformed -plog pair is reported as an error, the logger runs)
		fmt.Fprintln(os.Stderr, "child: start:", err)
		os.Exit(4)
	}
	globAfterStart := int(log.GetLogLevel())
	if spec.Cap > 0 {
		log.VerifSetBufferCap(spec.Cap)
	}
	if glue["start-twice"] {
		_ = log.Start() // documented no-op
	}
	if glue["late-adapter"] {
		log.SetAdapter(discard{}) // after Start: must be ignored
	}
	if glue["nil-tracer"] {
		var nt *log.ContextTracer
		nt.Submit() // documented no-op
	}

	stop := make(chan struct{})
	if spec.Procs > 0 {
		runtime.GOMAXPROCS(spec.Procs)
	}
	for i := 0; i < spec.Hogs; i++ {
		go func() {
			x := uint64(i)
			for {
				select {
				case <-stop:
					return
				default:
				}
				for k := 0; k < 100000; k++ {
					x = x*6364136223846793005 + 1442695040888963407
				}
				spinSink.Store(x)
			}
		}()
	}
	var aux sync.WaitGroup
	if spec.Paced && spec.TriggerUs > 0 {
		aux.Add(1)
		go func() {
			defer aux.Done()
			t := time.NewTicker(time.Duration(spec.TriggerUs) * time.Microsecond)
			defer t.Stop()
			for {
				select {
				case <-stop:
					return
				case <-t.C:
					log.TriggerWriter()
				}
			}
		}()
	}
	// the levels in force after Start, measured on the real logger: the sweep producer logs once per origin and
	// severity, alone, before anything else happens; thr[o] = lowest severity that passed the filter
	startLine := ""
	if spec.Sweep && len(spec.Prods) > 0 {
		var w1 sync.WaitGroup
		w1.Add(1)
		c.runProducer(len(spec.Prods)-1, spec.Prods[len(spec.Prods)-1], &w1)
		c.mu.Lock()
		thr := [3]int{7, 7, 7}
		for it := range c.sweepHit {
			o, l := (it-1)/6, (it-1)%6+1
			if o >= 0 && o < 3 && l < thr[o] {
				thr[o] = l
			}
		}
		c.mu.Unlock()
		startLine = fmt.Sprintf("start %s %s %s %d %d %d %d", hexOrDash(spec.FlagLog), hexOrDash(spec.FlagPkgs),
			strings.TrimPrefix(pre.line(0), "cfg 0 "), thr[0], thr[1], thr[2], globAfterStart)
	}
	// level changes concurrent with the producers
	aux.Add(1)
	go func() {
		defer aux.Done()
		for _, op := range spec.Ctl {
			select {
			case <-stop:
				return
			case <-time.After(time.Duration(op.DelayUs) * time.Microsecond):
			}
			c.setLevels(op.Kind, op.Level, op.Pkgs)
		}
	}()

	var wg sync.WaitGroup
	for gid, prog := range spec.Prods {
		if spec.Sweep && gid == len(spec.Prods)-1 {
			continue // ran first
		}
		wg.Add(1)
		go c.runProducer(gid, prog, &wg)
	}
	prodsDone := make(chan struct{})
	go func() { wg.Wait(); close(prodsDone) }()

	quiesce := "skipped"
	if spec.Shutdown == "mid" {
		select {
		case <-prodsDone:
		case <-time.After(time.Duration(spec.MidAfterUs) * time.Microsecond):
		}
	} else {
		<-prodsDone
		if spec.Quiesce && (!spec.Paced || spec.TriggerUs > 0) {
			// liveness, with a tolerance far beyond the writer's 10 ms back-off: everything that was
			// enqueued reaches the adapter without Shutdown having to flush it
			ms := spec.QuiesceMs
			if ms <= 0 {
				ms = 20000
			}
			deadline := time.Now().Add(time.Duration(ms) * time.Millisecond)
			quiesce = "ok"
			for c.nWritten.Load() < c.nLines.Load() {
				if time.Now().After(deadline) {
					quiesce = fmt.Sprintf("timeout:%d/%d", c.nWritten.Load(), c.nLines.Load())
					break
				}
				time.Sleep(2 * time.Millisecond)
			}
		}
	}
	c.shutReq.Store(1)
	shutDone := make(chan struct{})
	if glue["concurrent-shutdown"] {
		go log.Shutdown()
	}
	go func() {
		log.Shutdown()
		c.shutRet.Store(1)
		if glue["shutdown-twice"] {
			log.Shutdown()
		}
		close(shutDone)
	}()
	hang := false
	select {
	case <-shutDone:
	case <-time.After(60 * time.Second):
		hang = true
	}
	c.mu.Lock()
	writesAtRet := c.nWrites
	c.mu.Unlock()
	// producers still inside a call after the writer is gone may stay blocked forever: do not wait for them
	select {
	case <-prodsDone:
	case <-time.After(150 * time.Millisecond):
	}
	close(stop)
	time.Sleep(5 * time.Millisecond)

	// ---- dump the trace as case lines
	w := bufio.NewWriterSize(res, 1<<16)
	c.mu.Lock()
	fmt.Fprintf(w, "np %d\n", len(c.prods))
	for i, cf := range c.cfgs {
		fmt.Fprintln(w, cf.line(i))
	}
	if startLine != "" {
		fmt.Fprintln(w, startLine)
	}
	if c.siteBad != "" {
		fmt.Fprintln(os.Stderr, "child: call sites are not what the item keys assume:", c.siteBad)
		os.Exit(5)
	}
	unfinished := 0
	for gid, ps := range c.prods {
		if gid >= len(spec.Prods) {
			// lines logged before Start: optional, any form
			if gid == len(spec.Prods) {
				fmt.Fprintf(w, "item %d %d %d 0 x u*%d\n", gid, itemKey(1, 4, 0, 0, false), 4, preStart)
			} else if preTracer > 0 {
				fmt.Fprintf(w, "item %d %d %d 0 x u*%d\n", gid, itemKey(1, 4, 0, 0, !spec.Light), 4, preTracer) // (the cheap adapter does not look at tracers)
			}
			ps.mu.Lock()
			for _, p := range ps.paths {
				fmt.Fprintln(w, p)
			}
			ps.mu.Unlock()
			continue
		}
		ps.mu.Lock()
		for _, ta := range ps.tas {
			fmt.Fprintln(w, ta)
		}
		calls := append([]callRec{}, ps.calls...)
		paths := append([]string{}, ps.paths...)
		opIdx, opCalls, done := ps.opIdx, ps.opCalls, ps.done
		ps.mu.Unlock()
		// completed calls in program order, grouped: DIRECTLY CONSECUTIVE calls that produce identical lines
		// (same key; tracer submissions: also the same collected entries) form one item. The same line logged
		// again later, after other calls, is a new item.
		type agg struct {
			first callRec
			key   int
			segs  []string
			n     int
		}
		var items []*agg
		addSeg := func(a *agg, cfg int, before bool) {
			a.n++
			b := 0
			if before {
				b = 1
			}
			key := fmt.Sprintf("%d:%d", cfg, b)
			if cfg < 0 {
				key = "u"
			}
			if n := len(a.segs); n > 0 {
				if i := strings.LastIndexByte(a.segs[n-1], '*'); a.segs[n-1][:i] == key {
					k, _ := strconv.Atoi(a.segs[n-1][i+1:])
					a.segs[n-1] = key + "*" + strconv.Itoa(k+1)
					return
				}
			}
			a.segs = append(a.segs, key+"*1")
		}
		sameInts := func(x, y []int) bool {
			if len(x) != len(y) {
				return false
			}
			for i := range x {
				if x[i] != y[i] {
					return false
				}
			}
			return true
		}
		add := func(r callRec) {
			k := c.key(r)
			if n := len(items); n > 0 && items[n-1].key == k && items[n-1].first.kind == r.kind && sameInts(items[n-1].first.entries, r.entries) {
				addSeg(items[n-1], r.cfg, r.before)
				return
			}
			a := &agg{first: r, key: k}
			items = append(items, a)
			addSeg(a, r.cfg, r.before)
		}
		for _, r := range calls {
			add(r)
		}
		// calls not completed when the run ended (producer cut off by Shutdown): may or may not appear
		if !done {
			unfinished++
			for j := min(opIdx, len(spec.Prods[gid])); j < len(spec.Prods[gid]); j++ {
				op := spec.Prods[gid][j]
				doneHere := 0
				if j == opIdx {
					doneHere = opCalls
				}
				opt := func(item, lvl, variant int, kind byte) {
					add(callRec{item: item, lvl: lvl, org: op.Org, variant: variant, kind: kind, cfg: -1})
				}
				switch op.Kind {
				case "log", "logf", "dyn":
					v := map[string]int{"log": vLog, "logf": vLogf, "dyn": vDyn}[op.Kind]
					for k := doneHere; k < op.Reps; k++ {
						opt(op.Item, op.Lvl, v, 'p')
					}
				case "tr":
					// either submitted as one tracer line or (nil tracer) entry by entry: leave every entry optional
					vC := vCollect
					if op.F {
						vC = vCollF
					}
					for k := min(doneHere, len(op.Entries)); k < len(op.Entries); k++ {
						opt(op.Entries[k].Item, op.Entries[k].Lvl, vC, 'x')
					}
					if n := len(op.Entries); n > 0 && doneHere == 0 {
						opt(op.Entries[n-1].Item, op.Entries[n-1].Lvl, vC, 'X')
					}
				case "via":
					// every repetition that may still be running: its lines as plain calls or as one submission
					for k := 0; k < max(op.Reps, 1); k++ {
						if !op.Nil {
							for _, e := range op.Entries {
								opt(e.Item, e.Lvl, vVia, 'x')
							}
						}
						opt(op.Item, op.Lvl, vVia, 'x')
						if !op.Nil {
							opt(op.Item, op.Lvl, vVia, 'X')
						}
					}
				}
			}
		}
		for _, a := range items {
			kind := strings.ToLower(string(a.first.kind))
			ent := ""
			if a.first.kind == 't' {
				var ids []string
				for _, e := range a.first.entries {
					ids = append(ids, strconv.Itoa(e))
				}
				ent = " e" + strings.Join(ids, ",")
			}
			fmt.Fprintf(w, "item %d %d %d %d %s %s%s\n", gid, a.key, a.first.lvl, a.first.org, kind, strings.Join(a.segs, ","), ent)
		}
		for _, p := range paths {
			fmt.Fprintln(w, p)
		}
	}
	for i := 0; i < len(c.wtoks); i += 120 {
		fmt.Fprintln(w, "w "+strings.Join(c.wtoks[i:min(i+120, len(c.wtoks))], " "))
	}
	if spec.Light {
		// consecutive identical writes are printed once with a repetition count: "gid:key:dups*count"
		for i := 0; i < len(c.lightOuts); {
			j := i
			for j < len(c.lightOuts) && c.lightOuts[j] == c.lightOuts[i] {
				j++
			}
			v := c.lightOuts[i]
			t := fmt.Sprintf("%d:%d:%d", v>>40, (v>>8)&0xffffffff, v&255)
			if j-i > 1 {
				t += "*" + strconv.Itoa(j-i)
			}
			c.outs = append(c.outs, t)
			i = j
		}
		c.nWrites = len(c.lightOuts)
		c.afterSh = int(c.afterShLight.Load())
		writesAtRet = c.nWrites - c.afterSh
	}
	for i := 0; i < len(c.outs); i += 200 {
		fmt.Fprintln(w, "out "+strings.Join(c.outs[i:min(i+200, len(c.outs))], " "))
	}
	h := 0
	if hang {
		h = 1
	}
	fmt.Fprintf(w, "meta cap=%d quiesce=%s hang=%d writes_at_return=%d writes=%d after_return=%d lines=%d unfinished=%d foreign=%d\n",
		log.VerifBufferCap(), quiesce, h, writesAtRet, c.nWrites, c.afterSh, c.nLines.Load(), unfinished, c.foreign)
	c.mu.Unlock()
	w.Flush()
	res.Close()
	os.Exit(0)
}
