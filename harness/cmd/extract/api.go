package main

import (
	"fmt"
	"go/ast"
	"go/token"
	"strconv"
	"strings"
)

func init() { generators["api"] = genAPI }

// httpMethodConst maps the net/http method constant names to their values.
var httpMethodConst = map[string]string{
	"MethodGet": "GET", "MethodHead": "HEAD", "MethodPost": "POST", "MethodPut": "PUT", "MethodPatch": "PATCH",
	"MethodDelete": "DELETE", "MethodConnect": "CONNECT", "MethodOptions": "OPTIONS", "MethodTrace": "TRACE",
}

func leanBytes(s string) string {
	if s == "" {
		return "[]"
	}
	parts := make([]string, len(s))
	for i := 0; i < len(s); i++ {
		parts[i] = strconv.Itoa(int(s[i]))
	}
	return "[" + strings.Join(parts, ", ") + "]"
}

func leanBytesList(ss []string) string {
	parts := make([]string, len(ss))
	for i, s := range ss {
		parts[i] = leanBytes(s)
	}
	return "[" + strings.Join(parts, ", ") + "]"
}

func strLit(e ast.Expr, what string) string {
	bl, ok := e.(*ast.BasicLit)
	if !ok || bl.Kind != token.STRING {
		die("%s: expected a string literal", what)
	}
	s, err := strconv.Unquote(bl.Value)
	if err != nil {
		die("%s: %v", what, err)
	}
	return s
}

func lowerFirst(s string) string { return strings.ToLower(s[:1]) + s[1:] }

// genAPI extracts the tables the C12 model depends on:
// Permission constants, parseAPIPermission names, getEffectiveMethod classes, session TTL,
// the Authorization scheme prefixes, the statement sequence of checkSessionCookie after the session
// lookup (with the comparison of session.Expired and the assignment of session.Refresh),
// the bridge permission, the origin exceptions.
func genAPI() {
	var sb strings.Builder
	sb.WriteString("import PB.Bytes\nnamespace PB.Gen.Api\nopen PB\n\n")

	// ---- Permission constants (api/authentication.go) --------------------------------------
	fset, f := parseFile("api/authentication.go")
	perms := map[string]string{}
	var permOrder []string
	var ttl string
	for _, d := range f.Decls {
		gd, ok := d.(*ast.GenDecl)
		if !ok || gd.Tok != token.CONST {
			continue
		}
		for _, sp := range gd.Specs {
			vs := sp.(*ast.ValueSpec)
			if id, ok := vs.Type.(*ast.Ident); ok && id.Name == "Permission" {
				if len(vs.Names) != 1 || len(vs.Values) != 1 {
					die("Permission constant %v: unexpected shape", vs.Names)
				}
				perms[vs.Names[0].Name] = constVal(fset, vs.Values[0]).ExactString()
				permOrder = append(permOrder, vs.Names[0].Name)
			}
			for i, n := range vs.Names {
				if n.Name == "sessionCookieTTL" {
					// N * time.<Unit>
					be, ok := vs.Values[i].(*ast.BinaryExpr)
					if !ok || be.Op != token.MUL {
						die("sessionCookieTTL: expected N * time.Unit")
					}
					sel, ok := be.Y.(*ast.SelectorExpr)
					if !ok {
						die("sessionCookieTTL: expected N * time.Unit")
					}
					unit := map[string]int64{"Second": 1, "Minute": 60, "Hour": 3600}[sel.Sel.Name]
					if unit == 0 {
						die("sessionCookieTTL: unknown unit %s", sel.Sel.Name)
					}
					n, err := strconv.ParseInt(constVal(fset, be.X).ExactString(), 10, 64)
					if err != nil {
						die("sessionCookieTTL: %v", err)
					}
					ttl = strconv.FormatInt(n*unit, 10)
				}
			}
		}
	}
	want := []string{"NotFound", "Dynamic", "NotSupported", "PermitAnyone", "PermitUser", "PermitAdmin", "PermitSelf"}
	if len(permOrder) != len(want) {
		die("Permission constants: got %v, want %v", permOrder, want)
	}
	for _, n := range want {
		v, ok := perms[n]
		if !ok {
			die("Permission constant %s missing", n)
		}
		fmt.Fprintf(&sb, "def %s : Int := %s\n", lowerFirst(n), v)
	}
	if ttl == "" {
		die("sessionCookieTTL not found")
	}
	fmt.Fprintf(&sb, "\n/-- `sessionCookieTTL` in seconds. -/\ndef sessionTTL : Nat := %s\n", ttl)

	// ---- parseAPIPermission ----------------------------------------------------------------
	fd := findFunc(f, "parseAPIPermission", "")
	if fd == nil || len(fd.Body.List) != 1 {
		die("parseAPIPermission: unexpected shape")
	}
	sw, ok := fd.Body.List[0].(*ast.SwitchStmt)
	if !ok || exprString(fset, sw.Tag) != "strings.ToLower(s)" {
		die("parseAPIPermission: expected switch strings.ToLower(s)")
	}
	sb.WriteString("\n/-- `parseAPIPermission`: lower-cased name ↦ permission (anything else is an error). -/\ndef permNames : List (Bytes × Int) := [\n")
	first := true
	for _, st := range sw.Body.List {
		cc := st.(*ast.CaseClause)
		if len(cc.Body) != 1 {
			die("parseAPIPermission: case body shape")
		}
		ret, ok := cc.Body[0].(*ast.ReturnStmt)
		if !ok || len(ret.Results) != 2 {
			die("parseAPIPermission: case must return (perm, err)")
		}
		if cc.List == nil {
			if exprString(fset, ret.Results[1]) == "nil" {
				die("parseAPIPermission: default case must return an error")
			}
			continue
		}
		id, ok := ret.Results[0].(*ast.Ident)
		if !ok || perms[id.Name] == "" || exprString(fset, ret.Results[1]) != "nil" {
			die("parseAPIPermission: case must return (PermissionConst, nil)")
		}
		for _, e := range cc.List {
			if !first {
				sb.WriteString(",\n")
			}
			first = false
			s := strLit(e, "parseAPIPermission case")
			fmt.Fprintf(&sb, "  (%s, %s) /- %q -/", leanBytes(s), lowerFirst(id.Name), s)
		}
	}
	sb.WriteString("]\n")

	// ---- getEffectiveMethod ----------------------------------------------------------------
	fd = findFunc(f, "getEffectiveMethod", "")
	if fd == nil {
		die("getEffectiveMethod not found")
	}
	var msw *ast.SwitchStmt
	for _, st := range fd.Body.List {
		if s, ok := st.(*ast.SwitchStmt); ok {
			if msw != nil {
				die("getEffectiveMethod: more than one switch")
			}
			msw = s
		}
	}
	if msw == nil || exprString(fset, msw.Tag) != "method" {
		die("getEffectiveMethod: expected switch method")
	}
	var readM, writeM []string
	for _, st := range msw.Body.List {
		cc := st.(*ast.CaseClause)
		if len(cc.Body) != 1 {
			die("getEffectiveMethod: case body shape")
		}
		ret, ok := cc.Body[0].(*ast.ReturnStmt)
		if !ok || len(ret.Results) != 3 {
			die("getEffectiveMethod: case must return 3 values")
		}
		r1, r2 := exprString(fset, ret.Results[1]), exprString(fset, ret.Results[2])
		if cc.List == nil {
			if r2 != "false" {
				die("getEffectiveMethod: default must return ok=false")
			}
			continue
		}
		if r2 != "true" || (r1 != "true" && r1 != "false") {
			die("getEffectiveMethod: case must return (_, bool literal, true)")
		}
		for _, e := range cc.List {
			sel, ok := e.(*ast.SelectorExpr)
			if !ok || exprString(fset, sel.X) != "http" || httpMethodConst[sel.Sel.Name] == "" {
				die("getEffectiveMethod: case %s is not an http.Method constant", exprString(fset, e))
			}
			if r1 == "true" {
				readM = append(readM, httpMethodConst[sel.Sel.Name])
			} else {
				writeM = append(writeM, httpMethodConst[sel.Sel.Name])
			}
		}
	}
	fmt.Fprintf(&sb, "\n/-- methods classed as reading by `getEffectiveMethod`: %v -/\ndef readMethods : List Bytes := %s\n", readM, leanBytesList(readM))
	fmt.Fprintf(&sb, "/-- methods classed as writing by `getEffectiveMethod`: %v -/\ndef writeMethods : List Bytes := %s\n", writeM, leanBytesList(writeM))
	fmt.Fprintf(&sb, "def methodOptions : Bytes := %s\n", leanBytes("OPTIONS"))

	// ---- Authorization scheme prefixes in checkAPIKey ------------------------------------------
	fd = findFunc(f, "checkAPIKey", "")
	if fd == nil {
		die("checkAPIKey not found")
	}
	var prefixes []string
	ast.Inspect(fd.Body, func(n ast.Node) bool {
		if ce, ok := n.(*ast.CallExpr); ok && exprString(fset, ce.Fun) == "strings.HasPrefix" && len(ce.Args) == 2 {
			prefixes = append(prefixes, strLit(ce.Args[1], "checkAPIKey prefix"))
		}
		return true
	})
	if len(prefixes) != 2 || prefixes[0] != "Bearer " || !strings.EqualFold(prefixes[1], "basic ") {
		die("checkAPIKey: expected the scheme prefixes [\"Bearer \" \"Basic \"], got %q", prefixes)
	}
	fmt.Fprintf(&sb, "\n/-- %q -/\ndef bearerPrefix : Bytes := %s\n/-- %q -/\ndef basicPrefix : Bytes := %s\n",
		prefixes[0], leanBytes(prefixes[0]), prefixes[1], leanBytes(prefixes[1]))

	// ---- sessions: Expired / Refresh / checkSessionCookie / createSession / cleanSessions -------
	genSessionSteps(&sb, fset, f)

	// ---- the key import as a critical section of apiKeysLock --------------------------------------
	genKeyImportOrder(&sb, fset, f)

	// ---- bridge permission (api/database.go) ---------------------------------------------------
	fset2, f2 := parseFile("api/database.go")
	bridge := ""
	for _, d := range f2.Decls {
		gd, ok := d.(*ast.GenDecl)
		if !ok {
			continue
		}
		for _, sp := range gd.Specs {
			vs, ok := sp.(*ast.ValueSpec)
			if !ok {
				continue
			}
			for i, n := range vs.Names {
				if n.Name == "dbCompatibilityPermission" && i < len(vs.Values) {
					bridge = exprString(fset2, vs.Values[i])
				}
			}
		}
	}
	if perms[bridge] == "" {
		die("dbCompatibilityPermission: expected a Permission constant, got %q", bridge)
	}
	fmt.Fprintf(&sb, "\n/-- `dbCompatibilityPermission` (granted to the database bridge). -/\ndef bridgePerm : Int := %s\n", lowerFirst(bridge))

	// ---- origin exceptions (api/router.go) -------------------------------------------------------
	fset3, f3 := parseFile("api/router.go")
	var devOrigins []string
	found := false
	for _, d := range f3.Decls {
		gd, ok := d.(*ast.GenDecl)
		if !ok {
			continue
		}
		for _, sp := range gd.Specs {
			vs, ok := sp.(*ast.ValueSpec)
			if !ok {
				continue
			}
			for i, n := range vs.Names {
				if n.Name == "allowedDevCORSOrigins" && i < len(vs.Values) {
					cl, ok := vs.Values[i].(*ast.CompositeLit)
					if !ok {
						die("allowedDevCORSOrigins: expected a composite literal")
					}
					for _, e := range cl.Elts {
						devOrigins = append(devOrigins, strLit(e, "allowedDevCORSOrigins"))
					}
					found = true
				}
			}
		}
	}
	if !found {
		die("allowedDevCORSOrigins not found")
	}
	fd = findFunc(f3, "handle", "mainHandler")
	if fd == nil {
		die("mainHandler.handle not found")
	}
	var schemes []string
	ast.Inspect(fd.Body, func(n ast.Node) bool {
		if be, ok := n.(*ast.BinaryExpr); ok && be.Op == token.EQL && exprString(fset3, be.X) == "originURL.Scheme" {
			schemes = append(schemes, strLit(be.Y, "originURL.Scheme comparison"))
		}
		return true
	})
	if len(schemes) == 0 {
		die("mainHandler.handle: no originURL.Scheme exception found")
	}
	fmt.Fprintf(&sb, "\n/-- `allowedDevCORSOrigins`: %q -/\ndef devOrigins : List Bytes := %s\n", devOrigins, leanBytesList(devOrigins))
	fmt.Fprintf(&sb, "/-- origin schemes always allowed: %q -/\ndef extensionSchemes : List Bytes := %s\n", schemes, leanBytesList(schemes))

	sb.WriteString("\nend PB.Gen.Api\n")
	write("Api.lean", sb.String())
}

// stmtString prints a statement on one line.
func stmtString(fset *token.FileSet, n ast.Node) string {
	var sb strings.Builder
	if err := printerFprintNode(&sb, fset, n); err != nil {
		die("print stmt: %v", err)
	}
	return strings.Join(strings.Fields(sb.String()), " ")
}

// isLogStmt: a call on the log package (log.Tracer(...).Tracef(...), log.Debugf(...)): no effect on the decision.
func isLogStmt(fset *token.FileSet, st ast.Stmt) bool {
	es, ok := st.(*ast.ExprStmt)
	if !ok {
		return false
	}
	if _, ok := es.X.(*ast.CallExpr); !ok {
		return false
	}
	return strings.HasPrefix(stmtString(fset, es), "log.")
}

func noLogs(fset *token.FileSet, list []ast.Stmt) []ast.Stmt {
	var out []ast.Stmt
	for _, st := range list {
		if !isLogStmt(fset, st) {
			out = append(out, st)
		}
	}
	return out
}

// lockedBody checks that a session method starts with `sess.Lock(); defer sess.Unlock()` and returns the rest.
func lockedBody(fset *token.FileSet, fd *ast.FuncDecl, what string) []ast.Stmt {
	if fd == nil || fd.Body == nil {
		die("%s not found", what)
	}
	l := fd.Body.List
	if len(l) < 2 || stmtString(fset, l[0]) != "sess.Lock()" || stmtString(fset, l[1]) != "defer sess.Unlock()" {
		die("%s: expected to start with sess.Lock(); defer sess.Unlock()", what)
	}
	return l[2:]
}

// genSessionSteps ties the session part of the model to the source:
//   - session.Expired is exactly `return time.Now().After(sess.validUntil)` (strictly after) or
//     `return !time.Now().Before(sess.validUntil)` (at or after),
//   - session.Refresh is exactly `sess.validUntil = time.Now().Add(ttl)`,
//   - checkSessionCookie, after the lookup of the session, is a sequence of
//     `if sess.Expired() { [log]; return nil }` | `sess.Refresh(sessionCookieTTL)` | `return sess.token`
//     (emitted in source order; the model interprets the sequence, so moving the refresh in front of
//     the expiry check changes the model and breaks the finality theorems),
//   - createSession refreshes the new session with sessionCookieTTL before storing it,
//   - cleanSessions deletes exactly the sessions for which Expired() holds.
//
// Anything else - another method on the session, a merged check-and-refresh, a refresh inside the
// expired branch - is an unknown shape: the extractor fails closed.
func genSessionSteps(sb *strings.Builder, fset *token.FileSet, f *ast.File) {
	// session.Expired
	rest := lockedBody(fset, findFunc(f, "Expired", "session"), "session.Expired")
	if len(rest) != 1 {
		die("session.Expired: expected a single return after the lock")
	}
	strict := ""
	switch stmtString(fset, rest[0]) {
	case "return time.Now().After(sess.validUntil)":
		strict = "true"
	case "return !time.Now().Before(sess.validUntil)":
		strict = "false"
	default:
		die("session.Expired: unknown comparison %q", stmtString(fset, rest[0]))
	}
	// session.Refresh
	fd := findFunc(f, "Refresh", "session")
	rest = lockedBody(fset, fd, "session.Refresh")
	if len(fd.Type.Params.List) != 1 || len(fd.Type.Params.List[0].Names) != 1 || fd.Type.Params.List[0].Names[0].Name != "ttl" ||
		len(rest) != 1 || stmtString(fset, rest[0]) != "sess.validUntil = time.Now().Add(ttl)" {
		die("session.Refresh: expected exactly `sess.validUntil = time.Now().Add(ttl)`")
	}
	// no other method may touch validUntil
	for _, d := range f.Decls {
		fd, ok := d.(*ast.FuncDecl)
		if !ok || fd.Body == nil {
			continue
		}
		isSess := fd.Recv != nil && findFunc(f, fd.Name.Name, "session") == fd
		if isSess && (fd.Name.Name == "Expired" || fd.Name.Name == "Refresh") {
			continue
		}
		ast.Inspect(fd.Body, func(n ast.Node) bool {
			if sel, ok := n.(*ast.SelectorExpr); ok && sel.Sel.Name == "validUntil" {
				die("%s reads or writes validUntil directly (only session.Expired and session.Refresh are modelled to do so)", fd.Name.Name)
			}
			return true
		})
	}

	// checkSessionCookie
	fd = findFunc(f, "checkSessionCookie", "")
	if fd == nil {
		die("checkSessionCookie not found")
	}
	body := noLogs(fset, fd.Body.List)
	prefix := []string{
		"c, err := r.Cookie(sessionCookieName)",
		"if err != nil { return nil }",
		"sessionsLock.Lock()",
		"sess, ok := sessions[c.Value]",
		"sessionsLock.Unlock()",
		"if !ok { return nil }",
	}
	if len(body) < len(prefix) {
		die("checkSessionCookie: body too short")
	}
	for i, want := range prefix {
		st := body[i]
		if is, ok := st.(*ast.IfStmt); ok && is.Init == nil && is.Else == nil {
			// compare without the log statements of the block
			cp := *is
			blk := *is.Body
			blk.List = noLogs(fset, is.Body.List)
			cp.Body = &blk
			st = &cp
		}
		if got := stmtString(fset, st); got != want {
			die("checkSessionCookie: statement %d is %q, expected %q", i, got, want)
		}
	}
	var steps []string
	for _, st := range body[len(prefix):] {
		switch x := st.(type) {
		case *ast.IfStmt:
			blk := noLogs(fset, x.Body.List)
			if x.Init != nil || x.Else != nil || stmtString(fset, x.Cond) != "sess.Expired()" || len(blk) != 1 || stmtString(fset, blk[0]) != "return nil" {
				die("checkSessionCookie: unknown if statement %q (expected `if sess.Expired() { return nil }`)", stmtString(fset, x))
			}
			steps = append(steps, ".refuseIfExpired")
		case *ast.ExprStmt:
			if stmtString(fset, x) != "sess.Refresh(sessionCookieTTL)" {
				die("checkSessionCookie: unknown statement %q", stmtString(fset, x))
			}
			steps = append(steps, ".refresh")
		case *ast.ReturnStmt:
			if stmtString(fset, x) != "return sess.token" {
				die("checkSessionCookie: unknown return %q", stmtString(fset, x))
			}
			steps = append(steps, ".grant")
		default:
			die("checkSessionCookie: unknown statement %q", stmtString(fset, st))
		}
	}
	if len(steps) == 0 || steps[len(steps)-1] != ".grant" {
		die("checkSessionCookie: must end in `return sess.token`")
	}
	for _, s := range steps[:len(steps)-1] {
		if s == ".grant" {
			die("checkSessionCookie: statements after `return sess.token`")
		}
	}

	// createSession: the new session is refreshed with the TTL before it is stored
	fd = findFunc(f, "createSession", "")
	if fd == nil {
		die("createSession not found")
	}
	seenNew, seenRefresh, seenStore := -1, -1, -1
	for i, st := range fd.Body.List {
		switch stmtString(fset, st) {
		case "sess := &session{ token: token, }":
			seenNew = i
		case "sess.Refresh(sessionCookieTTL)":
			seenRefresh = i
		case "sessions[sessionKey] = sess":
			seenStore = i
		}
	}
	if !(seenNew >= 0 && seenNew < seenRefresh && seenRefresh < seenStore) {
		die("createSession: expected sess := &session{token: token}; sess.Refresh(sessionCookieTTL); … sessions[sessionKey] = sess")
	}
	// cleanSessions: deletes exactly the expired sessions
	fd = findFunc(f, "cleanSessions", "")
	if fd == nil {
		die("cleanSessions not found")
	}
	okClean := false
	for _, st := range fd.Body.List {
		if rs, ok := st.(*ast.RangeStmt); ok {
			if stmtString(fset, rs) == "for sessionKey, sess := range sessions { if sess.Expired() { delete(sessions, sessionKey) } }" {
				okClean = true
			} else {
				die("cleanSessions: unknown loop %q", stmtString(fset, rs))
			}
		}
	}
	if !okClean {
		die("cleanSessions: loop over sessions not found")
	}

	sb.WriteString("\n/-- One statement of `checkSessionCookie` after the session has been looked up. -/\ninductive CookieStep\n" +
		"  | refuseIfExpired   -- `if sess.Expired() { return nil }`\n" +
		"  | refresh           -- `sess.Refresh(sessionCookieTTL)`\n" +
		"  | grant             -- `return sess.token`\n" +
		"  deriving DecidableEq, Repr\n")
	fmt.Fprintf(sb, "\n/-- `checkSessionCookie` after the lookup, in source order. -/\ndef checkSessionCookieSteps : List CookieStep := [%s]\n", strings.Join(steps, ", "))
	fmt.Fprintf(sb, "\n/-- `session.Expired` is `time.Now().After(validUntil)` (strictly after: true) or `!time.Now().Before(validUntil)` (false). -/\ndef sessionExpiredStrict : Bool := %s\n", strict)
}

// genKeyImportOrder ties the atomicity of the model's `updateAPIKeys` step to the source: it emits, in
// source order, where updateAPIKeys takes apiKeysLock (released by a deferred Unlock, i.e. held to the
// end), empties the key map, reads the configured keys and stores into the key map. The model treats
// the import as ONE step (read the option + rebuild the map); that is the code only if the lock comes
// first - pinned by theorem `key_import_is_one_critical_section`. It also checks that checkAPIKey
// looks a key up under the same lock. Any other locking shape fails closed.
func genKeyImportOrder(sb *strings.Builder, fset *token.FileSet, f *ast.File) {
	fd := findFunc(f, "updateAPIKeys", "")
	if fd == nil {
		die("updateAPIKeys not found")
	}
	var order []string
	seen := map[string]bool{}
	add := func(ev string) {
		if !seen[ev] {
			seen[ev] = true
			order = append(order, ev)
		}
	}
	list := fd.Body.List
	for i, st := range list {
		switch stmtString(fset, st) {
		case "apiKeysLock.Lock()":
			if seen[".lock"] {
				die("updateAPIKeys: apiKeysLock taken more than once")
			}
			if i+1 >= len(list) || stmtString(fset, list[i+1]) != "defer apiKeysLock.Unlock()" {
				die("updateAPIKeys: apiKeysLock.Lock() must be followed by defer apiKeysLock.Unlock()")
			}
			add(".lock")
			continue
		case "defer apiKeysLock.Unlock()":
			if i == 0 || stmtString(fset, list[i-1]) != "apiKeysLock.Lock()" {
				die("updateAPIKeys: stray defer apiKeysLock.Unlock()")
			}
			continue
		}
		ast.Inspect(st, func(n ast.Node) bool {
			switch x := n.(type) {
			case *ast.FuncLit:
				return false // the cleanup micro task runs later, on its own
			case *ast.CallExpr:
				fn := exprString(fset, x.Fun)
				switch {
				case fn == "configuredAPIKeys":
					add(".readConfig")
				case fn == "delete" && len(x.Args) == 2 && exprString(fset, x.Args[0]) == "apiKeys":
					add(".clear")
				case strings.HasPrefix(fn, "apiKeysLock."):
					die("updateAPIKeys: unexpected %s() inside a statement", fn)
				}
			case *ast.AssignStmt:
				for _, l := range x.Lhs {
					if ie, ok := l.(*ast.IndexExpr); ok && exprString(fset, ie.X) == "apiKeys" {
						add(".install")
					}
					if exprString(fset, l) == "apiKeys" {
						die("updateAPIKeys: the key map itself is replaced (unknown shape)")
					}
				}
			}
			return true
		})
	}
	for _, need := range []string{".lock", ".clear", ".readConfig", ".install"} {
		if !seen[need] {
			die("updateAPIKeys: %s not found", need)
		}
	}
	// checkAPIKey: the lookup happens under the lock
	fd = findFunc(f, "checkAPIKey", "")
	if fd == nil {
		die("checkAPIKey not found")
	}
	lockAt, lookupAt := -1, -1
	for i, st := range fd.Body.List {
		s := stmtString(fset, st)
		if s == "apiKeysLock.Lock()" && i+1 < len(fd.Body.List) && stmtString(fset, fd.Body.List[i+1]) == "defer apiKeysLock.Unlock()" && lockAt < 0 {
			lockAt = i
		}
		uses := false
		ast.Inspect(st, func(n ast.Node) bool {
			if id, ok := n.(*ast.Ident); ok && id.Name == "apiKeys" {
				uses = true
			}
			return true
		})
		if uses && lookupAt < 0 {
			lookupAt = i
		}
	}
	// ... and is a pure lookup: it stores nothing into the key map or into a stored token (the model's
	// checkAPIKey has no effect on the state; an expired key stays expired however often it is presented)
	ast.Inspect(fd.Body, func(n ast.Node) bool {
		var lhs []ast.Expr
		switch x := n.(type) {
		case *ast.AssignStmt:
			lhs = x.Lhs
		case *ast.IncDecStmt:
			lhs = []ast.Expr{x.X}
		case *ast.CallExpr:
			if exprString(fset, x.Fun) == "delete" {
				die("checkAPIKey: deletes from a map (the lookup is modelled without effect)")
			}
		}
		for _, l := range lhs {
			s := exprString(fset, l)
			if strings.HasPrefix(s, "token.") || strings.HasPrefix(s, "*token") || strings.HasPrefix(s, "apiKeys") {
				die("checkAPIKey: writes %s (the lookup is modelled without effect on the stored keys)", s)
			}
		}
		return true
	})
	if lockAt < 0 || lookupAt < 0 || lookupAt < lockAt {
		die("checkAPIKey: the key lookup is not inside apiKeysLock.Lock(); defer apiKeysLock.Unlock()")
	}
	sb.WriteString("\n/-- What `updateAPIKeys` does to the shared key map and the option, in source order. -/\ninductive KeyImportOp\n" +
		"  | lock         -- `apiKeysLock.Lock(); defer apiKeysLock.Unlock()` (held to the end of the import)\n" +
		"  | clear        -- `delete(apiKeys, k)` for every key\n" +
		"  | readConfig   -- `configuredAPIKeys()`\n" +
		"  | install      -- `apiKeys[path] = token`\n" +
		"  deriving DecidableEq, Repr\n")
	fmt.Fprintf(sb, "\ndef updateAPIKeysOrder : List KeyImportOp := [%s]\n", strings.Join(order, ", "))
}
