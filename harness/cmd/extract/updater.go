package main

import (
	"go/ast"
	"go/token"
	"strconv"
	"strings"
)

func init() { generators["updater"] = genUpdater }

// genUpdater extracts the two version regex literals of updater/filename.go. The Lean model re-implements
// exactly these two expressions by hand; theorem PB.C19.regex_literals pins the text they were written for.
func genUpdater() {
	_, f := parseFile("updater/filename.go")
	found := map[string]string{}
	for _, d := range f.Decls {
		gd, ok := d.(*ast.GenDecl)
		if !ok || gd.Tok != token.VAR {
			continue
		}
		for _, sp := range gd.Specs {
			vs := sp.(*ast.ValueSpec)
			for i, n := range vs.Names {
				if n.Name != "fileVersionRegex" && n.Name != "rawVersionRegex" {
					continue
				}
				if i >= len(vs.Values) {
					die("updater: %s has no initialiser", n.Name)
				}
				call, ok := vs.Values[i].(*ast.CallExpr)
				if !ok || len(call.Args) != 1 {
					die("updater: %s is not a single-argument call", n.Name)
				}
				sel, ok := call.Fun.(*ast.SelectorExpr)
				if !ok || sel.Sel.Name != "MustCompile" {
					die("updater: %s is not regexp.MustCompile(...)", n.Name)
				}
				if x, ok := sel.X.(*ast.Ident); !ok || x.Name != "regexp" {
					die("updater: %s is not regexp.MustCompile(...)", n.Name)
				}
				lit, ok := call.Args[0].(*ast.BasicLit)
				if !ok || lit.Kind != token.STRING {
					die("updater: %s argument is not a string literal", n.Name)
				}
				s, err := strconv.Unquote(lit.Value)
				if err != nil {
					die("updater: %s: %v", n.Name, err)
				}
				for _, c := range []byte(s) {
					if c < 0x20 || c > 0x7e {
						die("updater: %s contains a non-printable byte", n.Name)
					}
				}
				found[n.Name] = s
			}
		}
	}
	if len(found) != 2 {
		die("updater: expected fileVersionRegex and rawVersionRegex in updater/filename.go, found %v", found)
	}
	// the functions that use them must still have the shape the model was written from
	for _, fn := range []string{"GetIdentifierAndVersion", "GetVersionedPath"} {
		if findFunc(f, fn, "") == nil {
			die("updater: func %s not found", fn)
		}
	}
	q := func(s string) string {
		return `"` + strings.NewReplacer(`\`, `\\`, `"`, `\"`).Replace(s) + `"`
	}
	var sb strings.Builder
	sb.WriteString("namespace PB.Gen.Updater\n\n")
	sb.WriteString("/-- `fileVersionRegex`, regenerated from updater/filename.go. -/\n")
	sb.WriteString("def fileVersionRegex : String := " + q(found["fileVersionRegex"]) + "\n\n")
	sb.WriteString("/-- `rawVersionRegex`, regenerated from updater/filename.go. -/\n")
	sb.WriteString("def rawVersionRegex : String := " + q(found["rawVersionRegex"]) + "\n\n")
	sb.WriteString("end PB.Gen.Updater\n")
	write("Updater.lean", sb.String())
}
