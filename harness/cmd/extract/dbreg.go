package main

import (
	"fmt"
	"go/ast"
	"go/token"
	"strings"
)

func init() { generators["dbreg"] = genDbReg }

// genDbReg regenerates (C03) what the interleaving model of runtime.Registry.Query (lean/PB/Model/Iter.lean,
// namespace RegQuery) takes from runtime/registry.go:
//
//   - Query starts one goroutine per provider: `for … := range providers { … grp.Go(func() … { … }) }`;
//   - inside the function literal one loop over the provider's records whose body is, in this order: `r.Lock()`, the
//     evaluation of the filter into variables, `r.Unlock()`, the decision `if !<v> { …; continue }`, the send into
//     `iter.Next` (select with `<-iter.Done`);
//   - the decision variable <v> is the conjunction of per-record checks — which ones (MatchesKey, CheckValidity,
//     CheckPermission(local, internal), MatchesRecord), each evaluated on the loop's record;
//   - WHERE the decision variable and every variable the filter writes are declared: inside the record loop (0),
//     inside the goroutine's function literal (1) — both private to the goroutine — or in Query itself (2), where all
//     provider goroutines share them.
//
// Fails closed on every other shape.
func genDbReg() {
	const file = "runtime/registry.go"
	fset, f := parseFile(file)
	fd := findFunc(f, "Query", "Registry")
	if fd == nil {
		die("dbreg: %s: Registry.Query not found", file)
	}
	var params []string
	for _, p := range fd.Type.Params.List {
		for _, n := range p.Names {
			params = append(params, n.Name)
		}
	}
	if len(params) != 3 {
		die("dbreg: Query: expected (q, local, internal), got %v", params)
	}
	qName, locName, intName := params[0], params[1], params[2]

	// the provider loop with grp.Go(func …)
	var lit *ast.FuncLit
	var provLoop *ast.RangeStmt
	for _, st := range fd.Body.List {
		rs, ok := st.(*ast.RangeStmt)
		if !ok {
			continue
		}
		if exprString(fset, rs.X) != "providers" {
			die("dbreg: Query: a loop over %s", exprString(fset, rs.X))
		}
		if provLoop != nil {
			die("dbreg: Query: more than one loop over the providers")
		}
		provLoop = rs
		for _, bs := range rs.Body.List {
			es, ok := bs.(*ast.ExprStmt)
			if !ok {
				continue
			}
			call, ok := es.X.(*ast.CallExpr)
			if !ok {
				continue
			}
			if fn := exprString(fset, call.Fun); fn != "grp.Go" {
				die("dbreg: Query: provider loop calls %s", fn)
			}
			l, ok := call.Args[0].(*ast.FuncLit)
			if !ok || len(call.Args) != 1 || lit != nil {
				die("dbreg: Query: grp.Go is not given one function literal")
			}
			lit = l
		}
	}
	if provLoop == nil || lit == nil {
		die("dbreg: Query: no `for … range providers { grp.Go(func() …) }`")
	}
	// go statements / further goroutines inside the literal would be another concurrency structure
	ast.Inspect(lit.Body, func(n ast.Node) bool {
		if _, ok := n.(*ast.GoStmt); ok {
			die("dbreg: Query: a go statement inside the provider goroutine")
		}
		return true
	})

	// the record loop
	var recLoop *ast.RangeStmt
	for _, st := range lit.Body.List {
		if rs, ok := st.(*ast.RangeStmt); ok {
			if recLoop != nil {
				die("dbreg: Query: more than one loop in the provider goroutine")
			}
			recLoop = rs
		}
	}
	if recLoop == nil || exprString(fset, recLoop.X) != "records" || recLoop.Value == nil {
		die("dbreg: Query: no `for _, r := range records` in the provider goroutine")
	}
	rec := exprString(fset, recLoop.Value)
	body := noLogs(fset, recLoop.Body.List)

	// segment the body: Lock, evaluation…, Unlock, decision, send
	idx := 0
	expectCall := func(want string) {
		if idx >= len(body) || stmtString(fset, body[idx]) != want {
			got := "<end of loop body>"
			if idx < len(body) {
				got = stmtString(fset, body[idx])
			}
			die("dbreg: Query: record loop: expected `%s`, found `%s`", want, got)
		}
		idx++
	}
	expectCall(rec + ".Lock()")
	var eval []ast.Stmt
	for idx < len(body) && stmtString(fset, body[idx]) != rec+".Unlock()" {
		eval = append(eval, body[idx])
		idx++
	}
	expectCall(rec + ".Unlock()")
	if idx >= len(body) {
		die("dbreg: Query: record loop ends after Unlock")
	}
	dec, ok := body[idx].(*ast.IfStmt)
	if !ok || dec.Init != nil || dec.Else != nil {
		die("dbreg: Query: record loop: expected the decision `if !allowed { … continue }`, found `%s`", stmtString(fset, body[idx]))
	}
	un, ok := dec.Cond.(*ast.UnaryExpr)
	if !ok || un.Op != token.NOT {
		die("dbreg: Query: decision condition `%s` is not `!<variable>`", exprString(fset, dec.Cond))
	}
	decVarID, ok := un.X.(*ast.Ident)
	if !ok {
		die("dbreg: Query: decision condition `%s` is not `!<variable>`", exprString(fset, dec.Cond))
	}
	decVar := decVarID.Name
	decBody := noLogs(fset, dec.Body.List)
	if len(decBody) != 1 || stmtString(fset, decBody[0]) != "continue" {
		die("dbreg: Query: the decision's body is not `continue`")
	}
	idx++
	if idx != len(body)-1 {
		die("dbreg: Query: record loop: %d statements after the decision, expected the send only", len(body)-idx)
	}
	sel, ok := body[idx].(*ast.SelectStmt)
	if !ok {
		die("dbreg: Query: record loop does not end with the select that sends the record")
	}
	sends := 0
	for _, c := range sel.Body.List {
		cc := c.(*ast.CommClause)
		if cc.Comm == nil {
			die("dbreg: Query: the send has a default case")
		}
		switch s := stmtString(fset, cc.Comm); s {
		case "iter.Next <- " + rec:
			sends++
		case "<-iter.Done":
		default:
			die("dbreg: Query: select case `%s`", s)
		}
	}
	if sends != 1 {
		die("dbreg: Query: the select does not send the record exactly once")
	}

	// the evaluation: definitions var → expression; the decision variable is a conjunction of checks on the record
	defs := map[string]ast.Expr{}
	var order []string
	var condUpdate ast.Expr // `if v { v = <call> }`
	note := func(name string, e ast.Expr) {
		if _, dup := defs[name]; dup {
			die("dbreg: Query: filter variable %s is written twice", name)
		}
		defs[name] = e
		order = append(order, name)
	}
	for _, st := range eval {
		switch s := st.(type) {
		case *ast.DeclStmt:
			gd, ok := s.Decl.(*ast.GenDecl)
			if !ok || gd.Tok != token.VAR {
				die("dbreg: Query: evaluation: `%s`", stmtString(fset, st))
			}
			for _, sp := range gd.Specs {
				vs := sp.(*ast.ValueSpec)
				if len(vs.Names) != len(vs.Values) {
					die("dbreg: Query: evaluation: `%s` declares without a value", stmtString(fset, st))
				}
				for i, n := range vs.Names {
					note(n.Name, vs.Values[i])
				}
			}
		case *ast.AssignStmt:
			if len(s.Lhs) != len(s.Rhs) || (s.Tok != token.DEFINE && s.Tok != token.ASSIGN) {
				die("dbreg: Query: evaluation: `%s`", stmtString(fset, st))
			}
			for i, l := range s.Lhs {
				id, ok := l.(*ast.Ident)
				if !ok {
					die("dbreg: Query: evaluation writes to `%s`", exprString(fset, l))
				}
				note(id.Name, s.Rhs[i])
			}
		case *ast.IfStmt:
			if condUpdate != nil || s.Init != nil || s.Else != nil || exprString(fset, s.Cond) != decVar || len(s.Body.List) != 1 {
				die("dbreg: Query: evaluation: `%s`", stmtString(fset, st))
			}
			as, ok := s.Body.List[0].(*ast.AssignStmt)
			if !ok || as.Tok != token.ASSIGN || len(as.Lhs) != 1 || exprString(fset, as.Lhs[0]) != decVar {
				die("dbreg: Query: evaluation: `%s`", stmtString(fset, st))
			}
			condUpdate = as.Rhs[0]
		default:
			die("dbreg: Query: evaluation: `%s`", stmtString(fset, st))
		}
	}
	checkName := func(e ast.Expr) string {
		s := exprString(fset, e)
		switch s {
		case qName + ".MatchesKey(" + rec + ".DatabaseKey())":
			return "MatchesKey"
		case rec + ".Meta().CheckValidity()":
			return "CheckValidity"
		case rec + ".Meta().CheckPermission(" + locName + ", " + intName + ")":
			return "CheckPermission"
		case qName + ".MatchesRecord(" + rec + ")":
			return "MatchesRecord"
		}
		die("dbreg: Query: `%s` is not one of the per-record checks on the loop's record with Query's own privileges", s)
		return ""
	}
	var conj []string
	var flatten func(e ast.Expr)
	flatten = func(e ast.Expr) {
		switch x := e.(type) {
		case *ast.ParenExpr:
			flatten(x.X)
		case *ast.BinaryExpr:
			if x.Op != token.LAND {
				die("dbreg: Query: `%s`: the decision is not a conjunction", exprString(fset, e))
			}
			flatten(x.X)
			flatten(x.Y)
		case *ast.Ident:
			d, ok := defs[x.Name]
			if !ok || x.Name == decVar {
				die("dbreg: Query: `%s` is not written by the evaluation of this record", x.Name)
			}
			flatten(d)
		case *ast.CallExpr:
			conj = append(conj, checkName(x))
		default:
			die("dbreg: Query: `%s` in the decision", exprString(fset, e))
		}
	}
	d0, ok := defs[decVar]
	if !ok {
		die("dbreg: Query: the decision variable %s is not written by the evaluation of the record", decVar)
	}
	flatten(d0)
	if condUpdate != nil {
		// `if v { v = c }` = `v && c`
		conj = append(conj, checkName(condUpdate))
	}

	// scopes
	scopeOf := func(name string) int {
		declaredIn := func(list []ast.Stmt, stop ast.Node) bool {
			found := false
			for _, st := range list {
				ast.Inspect(st, func(n ast.Node) bool {
					if n == stop {
						return false
					}
					if _, isLit := n.(*ast.FuncLit); isLit && n != ast.Node(lit) {
						return false
					}
					switch s := n.(type) {
					case *ast.AssignStmt:
						if s.Tok == token.DEFINE {
							for _, l := range s.Lhs {
								if id, ok := l.(*ast.Ident); ok && id.Name == name {
									found = true
								}
							}
						}
					case *ast.ValueSpec:
						for _, id := range s.Names {
							if id.Name == name {
								found = true
							}
						}
					}
					return true
				})
			}
			return found
		}
		switch {
		case declaredIn(recLoop.Body.List, nil):
			return 0
		case declaredIn(lit.Body.List, recLoop):
			return 1
		case declaredIn(fd.Body.List, lit):
			return 2
		}
		for _, p := range params {
			if p == name {
				die("dbreg: Query: filter variable %s is a parameter", name)
			}
		}
		die("dbreg: Query: cannot find the declaration of %s inside Query (package level?)", name)
		return -1
	}
	var sb strings.Builder
	sb.WriteString("/- runtime.Registry.Query: goroutine structure, per-record filter and the scopes of its variables,\n")
	sb.WriteString("   regenerated by harness/cmd/extract/dbreg.go. -/\n")
	sb.WriteString("namespace PB.Gen.DbReg\n\n")
	sb.WriteString("/-- One goroutine per provider (`grp.Go` inside the loop over the providers), one record loop in it whose body is\n")
	sb.WriteString("    Lock, evaluation, Unlock, decision, send — checked shape. -/\n")
	sb.WriteString("def goroutinePerProvider : Bool := true\n\n")
	fmt.Fprintf(&sb, "/-- The variable the decision `if !%s { continue }` reads (after the record was unlocked). -/\n", decVar)
	fmt.Fprintf(&sb, "def decisionVar : String := %q\n\n", decVar)
	sb.WriteString("/-- Where it is declared: 0 = inside the record loop, 1 = inside the goroutine's function literal, 2 = in `Query`\n")
	sb.WriteString("    itself (shared by all provider goroutines). -/\n")
	fmt.Fprintf(&sb, "def decisionVarScope : Nat := %d\n\n", scopeOf(decVar))
	sb.WriteString("/-- Every variable the per-record evaluation writes, with its scope. -/\n")
	var vs []string
	for _, n := range order {
		vs = append(vs, fmt.Sprintf("(%q, %d)", n, scopeOf(n)))
	}
	fmt.Fprintf(&sb, "def filterVarScopes : List (String × Nat) := [%s]\n\n", strings.Join(vs, ", "))
	sb.WriteString("/-- The checks whose conjunction the decision variable holds, each on the loop's record, `CheckPermission` with\n")
	sb.WriteString("    the `local` / `internal` parameters of `Query`. -/\n")
	var cs []string
	for _, c := range conj {
		cs = append(cs, fmt.Sprintf("%q", c))
	}
	fmt.Fprintf(&sb, "def decisionConjuncts : List String := [%s]\n\n", strings.Join(cs, ", "))
	sb.WriteString("end PB.Gen.DbReg\n")
	write("DbReg.lean", sb.String())
}
