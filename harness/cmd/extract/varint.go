package main

import (
	"fmt"
	"go/ast"
	"go/token"
	"strings"
)

func init() { generators["varint"] = genVarint }

// genVarint extracts the threshold table of varint.EncodedSize and the literal shape of Pack8.
func genVarint() {
	fset, f := parseFile("formats/varint/helpers.go")
	fd := findFunc(f, "EncodedSize", "")
	if fd == nil || len(fd.Body.List) != 1 {
		die("EncodedSize: unexpected shape")
	}
	sw, ok := fd.Body.List[0].(*ast.SwitchStmt)
	if !ok || sw.Tag != nil {
		die("EncodedSize: expected tagless switch")
	}
	var sb strings.Builder
	sb.WriteString("namespace PB.Gen.Varint\n\n")
	sb.WriteString("/-- `varint.EncodedSize`, regenerated from the switch in formats/varint/helpers.go. -/\n")
	sb.WriteString("def encodedSize (n : Nat) : Nat :=\n")
	var def string
	for _, st := range sw.Body.List {
		cc := st.(*ast.CaseClause)
		if len(cc.Body) != 1 {
			die("EncodedSize: case body shape")
		}
		ret, ok := cc.Body[0].(*ast.ReturnStmt)
		if !ok || len(ret.Results) != 1 {
			die("EncodedSize: case must return one value")
		}
		rv := constVal(fset, ret.Results[0]).ExactString()
		if cc.List == nil {
			def = rv
			continue
		}
		if len(cc.List) != 1 {
			die("EncodedSize: multi-expression case")
		}
		be, ok := cc.List[0].(*ast.BinaryExpr)
		if !ok {
			die("EncodedSize: case is not a comparison")
		}
		id, ok := be.X.(*ast.Ident)
		if !ok || id.Name != "n" {
			die("EncodedSize: comparison lhs is not n")
		}
		thr := constVal(fset, be.Y).ExactString()
		var op string
		switch be.Op {
		case token.LSS:
			op = "<"
		case token.LEQ:
			op = "≤"
		default:
			die("EncodedSize: unsupported operator %s", be.Op)
		}
		fmt.Fprintf(&sb, "  if n %s %s then %s else\n", op, thr, rv)
	}
	if def == "" {
		die("EncodedSize: no default case")
	}
	fmt.Fprintf(&sb, "  %s\n\n", def)
	sb.WriteString("end PB.Gen.Varint\n")
	write("Varint.lean", sb.String())
}
