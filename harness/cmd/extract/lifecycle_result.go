package main

import (
	"fmt"
	"go/ast"
	"go/parser"
	"go/token"
	"path/filepath"
	"strings"
)

// The RESULT PATH of a lifecycle routine (C01): how the error a prep/start/stop function returns travels to the
// `rep.err != nil` test of prepareModules / startModules / stopModules:
//
//	fn()  ->  err (goroutine of startCtrlFn)  ->  ctrlFnError  ->  runCtrlFnWithTimeout / stopAllTasks
//	      ->  err (goroutine of Module.prep / Module.start; stopAllTasks)  ->  report.err  ->  rep.err
//
// The model has one Boolean per finished routine ("failed"); that is only right while every station hands the
// value on UNCHANGED and looks at nothing but `== nil`. So every mention of the variables that hold the value
// (err, ctrlFnError, stopFnError, rep) in those functions is collected, in source order, together with the
// control structures around it, and compared with the one shape this extractor understands. Anything else —
// an errors.Is / errors.As / type switch / comparison on the value, a second assignment, a conditional reset —
// is an error (fail closed). The only degree of freedom is what the deferred panic handler of startCtrlFn
// assigns: a freshly made error (kind "error"), nil (kind "nil"), or nothing (kind "none"); that kind is
// emitted as `ctrlFailureSeen`, over which PB.C01.ctrl_failure_is_seen is stated.

type useLine struct {
	ctx  string // enclosing control structures, outermost first, " | "-separated
	text string // the innermost simple statement / condition that mentions the variable
}

func (u useLine) String() string {
	if u.ctx == "" {
		return u.text
	}
	return u.ctx + " | " + u.text
}

// usesOf lists, in source order, the simple statements and conditions inside body that mention one of the
// identifiers in vars (struct field keys `err:` of composite literals and selectors `x.err` of OTHER variables
// do not count), each with its chain of enclosing control structures.
func usesOf(fset *token.FileSet, body ast.Node, vars map[string]bool) []useLine {
	squash := func(n ast.Node) string {
		var b strings.Builder
		if err := printerFprintNode(&b, fset, n); err != nil {
			die("lifecycle: print: %v", err)
		}
		return strings.Join(strings.Fields(b.String()), " ")
	}
	var stack []ast.Node
	var out []useLine
	var lastAnchor ast.Node
	// goroutines and deferred calls are numbered in source order: "the same defer" and "another defer" differ
	// (deferred calls run in reverse order of their declaration)
	ordinal := map[ast.Node]int{}
	nGo, nDefer := 0, 0
	ast.Inspect(body, func(n ast.Node) bool {
		switch n.(type) {
		case *ast.GoStmt:
			nGo++
			ordinal[n] = nGo
		case *ast.DeferStmt:
			nDefer++
			ordinal[n] = nDefer
		}
		return true
	})
	ast.Inspect(body, func(n ast.Node) bool {
		if n == nil {
			stack = stack[:len(stack)-1]
			return true
		}
		stack = append(stack, n)
		id, ok := n.(*ast.Ident)
		if !ok || !vars[id.Name] {
			return true
		}
		parent := stack[len(stack)-2]
		if kv, ok := parent.(*ast.KeyValueExpr); ok && kv.Key == n {
			return true // field name in a composite literal
		}
		if se, ok := parent.(*ast.SelectorExpr); ok && se.Sel == n {
			return true // x.err: a field of something else; the variable that counts is x
		}
		// the anchor: innermost simple statement, or the expression that is a condition / tag / case expression
		anchor := ast.Node(nil)
		anchorIdx := -1
		for i := len(stack) - 2; i >= 0 && anchor == nil; i-- {
			switch p := stack[i].(type) {
			case *ast.AssignStmt, *ast.SendStmt, *ast.ReturnStmt, *ast.DeclStmt, *ast.ExprStmt, *ast.IncDecStmt:
				anchor, anchorIdx = p, i
			case *ast.IfStmt:
				if p.Cond == stack[i+1] {
					anchor, anchorIdx = p.Cond, i+1
				}
			case *ast.SwitchStmt:
				if p.Tag == stack[i+1] {
					anchor, anchorIdx = p.Tag, i+1
				}
			case *ast.CaseClause:
				for _, e := range p.List {
					if e == stack[i+1] {
						anchor, anchorIdx = e, i+1
					}
				}
			case *ast.ForStmt:
				if p.Cond == stack[i+1] {
					anchor, anchorIdx = p.Cond, i+1
				}
			case *ast.RangeStmt:
				if p.X == stack[i+1] || p.Key == stack[i+1] || p.Value == stack[i+1] {
					die("lifecycle: result path: the value is ranged over: %s", squash(p))
				}
			}
		}
		if anchor == nil {
			die("lifecycle: result path: cannot place the use of %s at %s", id.Name, fset.Position(id.Pos()))
		}
		if es, ok := anchor.(*ast.ExprStmt); ok {
			if ce, ok := es.X.(*ast.CallExpr); ok {
				if fid, ok := ce.Fun.(*ast.Ident); ok && strings.HasPrefix(fid.Name, "verif") {
					return true // a verification hook line (empty without the build tag)
				}
			}
		}
		if anchor == lastAnchor {
			return true
		}
		lastAnchor = anchor
		// context: control structures strictly around the anchor
		var ctx []string
		for i := 0; i < anchorIdx; i++ {
			switch p := stack[i].(type) {
			case *ast.IfStmt:
				if i+1 < len(stack) && stack[i+1] == p.Else {
					ctx = append(ctx, "else of if "+squash(p.Cond))
				} else if i+1 < len(stack) && stack[i+1] == p.Body {
					ctx = append(ctx, "if "+squash(p.Cond))
				}
			case *ast.GoStmt:
				ctx = append(ctx, fmt.Sprintf("go#%d", ordinal[p]))
			case *ast.DeferStmt:
				ctx = append(ctx, fmt.Sprintf("defer#%d", ordinal[p]))
			case *ast.ForStmt:
				ctx = append(ctx, "for")
			case *ast.RangeStmt:
				ctx = append(ctx, "range")
			case *ast.SelectStmt:
				ctx = append(ctx, "select")
			case *ast.SwitchStmt:
				ctx = append(ctx, "switch")
			case *ast.TypeSwitchStmt:
				ctx = append(ctx, "typeswitch")
			case *ast.CommClause:
				if p.Comm == nil {
					ctx = append(ctx, "default")
				} else if i+1 < len(stack) && stack[i+1] != p.Comm {
					ctx = append(ctx, "case "+squash(p.Comm))
				}
			case *ast.CaseClause:
				if p.List == nil {
					ctx = append(ctx, "default")
				} else {
					parts := make([]string, len(p.List))
					for j, e := range p.List {
						parts[j] = squash(e)
					}
					ctx = append(ctx, "case "+strings.Join(parts, ", "))
				}
			}
		}
		text := squash(anchor)
		switch pp := stack[anchorIdx-1].(type) {
		case *ast.CommClause:
			if pp.Comm == anchor {
				text = "case " + text
			}
		case *ast.IfStmt:
			if pp.Cond == anchor {
				text = "if " + text
			}
		case *ast.SwitchStmt:
			if pp.Tag == anchor {
				text = "switch " + text
			}
		case *ast.CaseClause:
			text = "case " + text
		case *ast.ForStmt:
			if pp.Cond == anchor {
				text = "for " + text
			}
		}
		out = append(out, useLine{strings.Join(ctx, " | "), text})
		return true
	})
	return out
}

// matchUses compares the collected uses with the expected shape. An expected line may be a prefix pattern
// ending in "…" (used for log/report calls whose wording does not matter: they only read the message).
func matchUses(fn string, got []useLine, want []string) {
	show := func() string {
		var b strings.Builder
		for _, u := range got {
			b.WriteString("\n    " + u.String())
		}
		return b.String()
	}
	if len(got) != len(want) {
		// name the first line that does not fit
		for i := range got {
			if i >= len(want) || !lineFits(got[i].String(), want[i]) {
				die("lifecycle: result path of %s: unexpected use of the routine's result:\n    %s\n  (expected %s)\n  all uses:%s", fn, got[i],
					func() string {
						if i < len(want) {
							return "`" + want[i] + "`"
						}
						return "no further use"
					}(), show())
			}
		}
		die("lifecycle: result path of %s: %d uses of the routine's result, expected %d; all uses:%s", fn, len(got), len(want), show())
	}
	for i := range got {
		if !lineFits(got[i].String(), want[i]) {
			die("lifecycle: result path of %s: unexpected use of the routine's result:\n    %s\n  (expected `%s`)\n  all uses:%s", fn, got[i], want[i], show())
		}
	}
}

func lineFits(got, want string) bool {
	if strings.HasSuffix(want, "…") {
		return strings.HasPrefix(got, strings.TrimSuffix(want, "…"))
	}
	return got == want
}

// genResultPath appends the result-path facts to the Lifecycle table.
func genResultPath(sb *strings.Builder) {
	parse := func(rel string) (*token.FileSet, *ast.File) { // without comments: statements are compared as printed
		fset := token.NewFileSet()
		f, err := parser.ParseFile(fset, filepath.Join(repo, rel), nil, 0)
		if err != nil {
			die("parse %s: %v", rel, err)
		}
		return fset, f
	}
	fsetW, wf := parse("modules/worker.go")
	fsetM, mf := parse("modules/modules.go")
	fsetS, sf := parse("modules/start.go")
	fsetT, tf := parse("modules/stop.go")
	fnBody := func(f *ast.File, name, recv string) *ast.BlockStmt {
		fd := findFunc(f, name, recv)
		if fd == nil || fd.Body == nil {
			die("lifecycle: result path: func %s not found", name)
		}
		return fd.Body
	}

	// ---- startCtrlFn: fn() -> err -> ctrlFnError ---------------------------------------------
	uses := usesOf(fsetW, fnBody(wf, "startCtrlFn", "Module"), map[string]bool{"err": true, "ctrlFnError": true})
	// the deferred panic handler may assign something to err: that line is taken out and classified
	panicKind := "none"
	var rest []useLine
	for i, u := range uses {
		if u.ctx == "go#1 | defer#1 | if panicVal != nil" && strings.HasPrefix(u.text, "err = ") {
			if panicKind != "none" {
				die("lifecycle: result path of startCtrlFn: the panic handler assigns the result twice")
			}
			// it must come before the result is sent
			for _, v := range uses[:i] {
				if strings.HasPrefix(v.text, "ctrlFnError <-") && strings.HasPrefix(v.ctx, "go#1") {
					die("lifecycle: result path of startCtrlFn: the result is sent before the panic handler sets it")
				}
			}
			rhs := strings.TrimPrefix(u.text, "err = ")
			switch {
			case rhs == "nil":
				panicKind = "nil"
			case strings.HasPrefix(rhs, "fmt.Errorf(\"") || strings.HasPrefix(rhs, "errors.New(\"") || rhs == "me":
				// a freshly made error value (me is the *ModuleError made by m.NewPanicError two lines above)
				panicKind = "error"
			default:
				die("lifecycle: result path of startCtrlFn: the panic handler assigns %s — neither nil nor a freshly made error", rhs)
			}
			continue
		}
		rest = append(rest, u)
	}
	matchUses("startCtrlFn", rest, []string{
		"ctrlFnError := make(chan error, 1)",
		"if fn == nil | ctrlFnError <- nil",
		"if fn == nil | return ctrlFnError",
		"go#1 | var err error",
		"go#1 | defer#1 | ctrlFnError <- err",
		"go#1 | err = fn()",
		"return ctrlFnError",
	})
	// the send must be the LAST statement of the deferred function and `err = fn()` the last of the goroutine:
	// checked by position — nothing that mentions err follows them (matchUses), and the deferred function is
	// declared before fn() runs.

	// ---- runCtrlFnWithTimeout: ctrlFnError -> return value --------------------------------------
	uses = usesOf(fsetW, fnBody(wf, "runCtrlFnWithTimeout", "Module"), map[string]bool{"err": true, "stopFnError": true})
	matchUses("runCtrlFnWithTimeout", uses, []string{
		"stopFnError := m.startCtrlFn(name, fn)",
		"select | case err := <-stopFnError",
		"select | case err := <-stopFnError | return err",
	})
	var rets []string
	ast.Inspect(fnBody(wf, "runCtrlFnWithTimeout", "Module"), func(n ast.Node) bool {
		if r, ok := n.(*ast.ReturnStmt); ok {
			if len(r.Results) != 1 {
				die("lifecycle: result path of runCtrlFnWithTimeout: return shape")
			}
			rets = append(rets, exprString(fsetW, r.Results[0]))
		}
		return true
	})
	if len(rets) != 2 || rets[0] != "err" || !strings.HasPrefix(rets[1], "fmt.Errorf(\"timed out") {
		die("lifecycle: result path of runCtrlFnWithTimeout: returns %v, expected [err, fmt.Errorf(\"timed out…\")]", rets)
	}

	// ---- Module.prep / Module.start: return value -> report.err ------------------------------------
	for _, x := range []struct{ fn, field, what, verb string }{
		{"prep", "prepFn", "prep module", "prep"}, {"start", "startFn", "start module", "start"},
	} {
		uses = usesOf(fsetM, fnBody(mf, x.fn, "Module"), map[string]bool{"err": true})
		matchUses("Module."+x.fn, uses, []string{
			"go#2 | var err error",
			fmt.Sprintf("go#2 | if m.%s != nil | err = m.runCtrlFnWithTimeout( %q, moduleStartTimeout, m.%s, )", x.field, x.what, x.field),
			"go#2 | if err != nil",
			"go#2 | if err != nil | m.Error(…",
			"go#2 | reports <- &report{ module: m, err: err, }",
		})
	}

	// ---- stopAllTasks: ctrlFnError -> report.err ----------------------------------------------------
	uses = usesOf(fsetM, fnBody(mf, "stopAllTasks", "Module"), map[string]bool{"err": true, "stopFnError": true})
	matchUses("Module.stopAllTasks", uses, []string{
		"stopFnError := m.startCtrlFn(\"stop module\", m.stopFn)",
		"var err error",
		"select | case <-m.stopComplete | err = <-stopFnError",
		"select | case <-time.After(moduleStopTimeout) | select | case err = <-stopFnError",
		"if err != nil",
		"if err != nil | m.Error(…",
		"reports <- &report{ module: m, err: err, }",
	})

	// ---- the three manager loops: report -> `rep.err != nil` ----------------------------------------
	uses = usesOf(fsetS, fnBody(sf, "prepareModules", ""), map[string]bool{"rep": true})
	matchUses("prepareModules", uses, []string{
		"var rep *report",
		"for | if reportCnt < execCnt | rep = <-reports",
		"for | if reportCnt < execCnt | if rep.err != nil",
		// which of two non-nil errors is returned; both branches return a non-nil error
		"for | if reportCnt < execCnt | if rep.err != nil | if errors.Is(rep.err, ErrCleanExit)",
		"for | if reportCnt < execCnt | if rep.err != nil | if errors.Is(rep.err, ErrCleanExit) | return rep.err",
		"for | if reportCnt < execCnt | if rep.err != nil | rep.module.NewErrorMessage(\"prep module\", rep.err).Report()",
		"for | if reportCnt < execCnt | if rep.err != nil | return fmt.Errorf(\"failed to prep module %s: %w\", rep.module.Name, rep.err)",
	})
	uses = usesOf(fsetS, fnBody(sf, "startModules", ""), map[string]bool{"rep": true})
	matchUses("startModules", uses, []string{
		"var rep *report",
		"for | if reportCnt < execCnt | rep = <-reports",
		"for | if reportCnt < execCnt | if rep.err != nil",
		"for | if reportCnt < execCnt | if rep.err != nil | rep.module.NewErrorMessage(\"start module\", rep.err).Report()",
		"for | if reportCnt < execCnt | if rep.err != nil | return fmt.Errorf(\"modules: could not start module %s: %w\", rep.module.Name, rep.err)",
		"for | if reportCnt < execCnt | log.Infof(\"modules: started %s\", rep.module.Name)",
	})
	uses = usesOf(fsetT, fnBody(tf, "stopModules", ""), map[string]bool{"rep": true, "lastErr": true})
	matchUses("stopModules", uses, []string{
		"var rep *report",
		"var lastErr error",
		"for | if reportCnt < execCnt | rep = <-reports",
		"for | if reportCnt < execCnt | if rep.err != nil",
		"for | if reportCnt < execCnt | if rep.err != nil | lastErr = rep.err",
		"for | if reportCnt < execCnt | if rep.err != nil | rep.module.NewErrorMessage(\"stop module\", rep.err).Report()",
		"for | if reportCnt < execCnt | if rep.err != nil | log.Warningf(\"modules: could not stop module %s: %s\", rep.module.Name, rep.err)",
		"for | if reportCnt < execCnt | log.Infof(\"modules: stopped %s\", rep.module.Name)",
		"for | else of if reportCnt < execCnt | return lastErr",
	})

	sb.WriteString("\n/-- The result path of a lifecycle routine, regenerated from `startCtrlFn` / `runCtrlFnWithTimeout`\n" +
		"    (modules/worker.go), `Module.prep` / `start` / `stopAllTasks` (modules/modules.go) and the three manager\n" +
		"    loops: the error `fn()` returns is handed on unchanged and only ever compared with nil (every other\n" +
		"    use of it makes the extractor fail). What is left open is the deferred panic handler of `startCtrlFn`;\n" +
		"    it assigns: " + panicKind + ". Hence: does the manager see a failure, given that the routine returned a\n" +
		"    non-nil error / panicked? -/\n")
	switch panicKind {
	case "error":
		sb.WriteString("def ctrlFailureSeen (returnedErr panicked : Bool) : Bool := if panicked then true else returnedErr\n")
	case "nil":
		sb.WriteString("def ctrlFailureSeen (returnedErr panicked : Bool) : Bool := if panicked then false else returnedErr\n")
	default:
		// nothing assigned: err still holds its zero value nil when the function panicked before returning
		sb.WriteString("def ctrlFailureSeen (returnedErr panicked : Bool) : Bool := if panicked then false else returnedErr\n")
	}
}
