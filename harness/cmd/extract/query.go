package main

import (
	"fmt"
	"go/ast"
	"go/token"
	"sort"
	"strconv"
	"strings"
)

func init() { generators["query"] = genQuery }

// genQuery extracts from database/query: the operator constants (iota order), the textual operator
// names (operators.go: operatorNames) and the dispatch table of Where (operator → condition constructor).
func genQuery() {
	// --- operator constants of condition.go
	_, f := parseFile("database/query/condition.go")
	consts := map[string]int{}
	var constOrder []string
	for _, d := range f.Decls {
		gd, ok := d.(*ast.GenDecl)
		if !ok || gd.Tok != token.CONST {
			continue
		}
		iota := 0
		implicitIota := false
		for _, sp := range gd.Specs {
			vs := sp.(*ast.ValueSpec)
			if len(vs.Names) != 1 {
				die("query consts: multi-name spec")
			}
			name := vs.Names[0].Name
			switch {
			case len(vs.Values) == 1:
				switch v := vs.Values[0].(type) {
				case *ast.Ident:
					if v.Name != "iota" {
						die("query consts: %s = %s not understood", name, v.Name)
					}
					implicitIota = true
					consts[name] = iota
				case *ast.BasicLit:
					n, err := strconv.Atoi(v.Value)
					if err != nil {
						die("query consts: %s literal %s", name, v.Value)
					}
					implicitIota = false
					consts[name] = n
				default:
					die("query consts: %s has an unsupported value expression", name)
				}
			case len(vs.Values) == 0 && implicitIota:
				consts[name] = iota
			default:
				die("query consts: %s: unsupported spec", name)
			}
			if t, ok := vs.Type.(*ast.Ident); vs.Type != nil && (!ok || t.Name != "uint8") {
				die("query consts: %s is not uint8", name)
			}
			constOrder = append(constOrder, name)
			iota++
		}
	}
	if len(consts) == 0 {
		die("query consts: none found")
	}
	// --- Where dispatch
	fd := findFunc(f, "Where", "")
	if fd == nil || len(fd.Body.List) != 1 {
		die("Where: unexpected shape")
	}
	sw, ok := fd.Body.List[0].(*ast.SwitchStmt)
	if !ok {
		die("Where: expected a switch")
	}
	if id, ok := sw.Tag.(*ast.Ident); !ok || id.Name != "operator" {
		die("Where: switch tag is not operator")
	}
	kind := map[int]string{}
	sawDefault := false
	for _, st := range sw.Body.List {
		cc := st.(*ast.CaseClause)
		if len(cc.Body) != 1 {
			die("Where: case body shape")
		}
		ret, ok := cc.Body[0].(*ast.ReturnStmt)
		if !ok || len(ret.Results) != 1 {
			die("Where: case must return one value")
		}
		call, ok := ret.Results[0].(*ast.CallExpr)
		if !ok {
			die("Where: return is not a call")
		}
		fn, ok := call.Fun.(*ast.Ident)
		if !ok {
			die("Where: callee not an identifier")
		}
		if cc.List == nil {
			if fn.Name != "newErrorCondition" {
				die("Where: default case calls %s", fn.Name)
			}
			sawDefault = true
			continue
		}
		// argument shape: (key, operator, value) or (key, operator)
		wantArgs := []string{"key", "operator", "value"}
		if fn.Name == "newExistsCondition" {
			wantArgs = wantArgs[:2]
		}
		if len(call.Args) != len(wantArgs) {
			die("Where: %s called with %d arguments", fn.Name, len(call.Args))
		}
		for i, a := range call.Args {
			if id, ok := a.(*ast.Ident); !ok || id.Name != wantArgs[i] {
				die("Where: %s argument %d is not %s", fn.Name, i, wantArgs[i])
			}
		}
		for _, e := range cc.List {
			id, ok := e.(*ast.Ident)
			if !ok {
				die("Where: case expression is not a constant name")
			}
			v, ok := consts[id.Name]
			if !ok {
				die("Where: unknown constant %s", id.Name)
			}
			if _, dup := kind[v]; dup {
				die("Where: operator %d dispatched twice", v)
			}
			kind[v] = fn.Name
		}
	}
	if !sawDefault {
		die("Where: no default case")
	}
	// --- operator names of operators.go
	_, f2 := parseFile("database/query/operators.go")
	names := map[string]int{}
	found := false
	for _, d := range f2.Decls {
		gd, ok := d.(*ast.GenDecl)
		if !ok || gd.Tok != token.VAR {
			continue
		}
		for _, sp := range gd.Specs {
			vs := sp.(*ast.ValueSpec)
			for i, n := range vs.Names {
				if n.Name != "operatorNames" {
					continue
				}
				if i >= len(vs.Values) {
					die("operatorNames: no initialiser")
				}
				cl, ok := vs.Values[i].(*ast.CompositeLit)
				if !ok {
					die("operatorNames: not a composite literal")
				}
				for _, el := range cl.Elts {
					kv, ok := el.(*ast.KeyValueExpr)
					if !ok {
						die("operatorNames: element shape")
					}
					k, ok := kv.Key.(*ast.BasicLit)
					if !ok || k.Kind != token.STRING {
						die("operatorNames: key is not a string literal")
					}
					ks, err := strconv.Unquote(k.Value)
					if err != nil {
						die("operatorNames: %v", err)
					}
					id, ok := kv.Value.(*ast.Ident)
					if !ok {
						die("operatorNames: value is not a constant name")
					}
					v, ok := consts[id.Name]
					if !ok {
						die("operatorNames: unknown constant %s", id.Name)
					}
					if _, dup := names[ks]; dup {
						die("operatorNames: duplicate key %q", ks)
					}
					names[ks] = v
				}
				found = true
			}
		}
	}
	if !found {
		die("operatorNames: not found")
	}
	var sb strings.Builder
	sb.WriteString("namespace PB.Gen.Query\n\n")
	sb.WriteString("/-- Operator constants of database/query/condition.go in declaration order. -/\n")
	sb.WriteString("def opConsts : List (String × Nat) := [\n")
	for i, n := range constOrder {
		sep := ","
		if i == len(constOrder)-1 {
			sep = ""
		}
		fmt.Fprintf(&sb, "  (%s, %d)%s\n", strconv.Quote(n), consts[n], sep)
	}
	sb.WriteString("]\n\n")
	sb.WriteString("/-- `operatorNames` of database/query/operators.go (sorted by name). -/\n")
	sb.WriteString("def operatorNames : List (String × Nat) := [\n")
	ks := sortedKeys(names)
	for i, k := range ks {
		sep := ","
		if i == len(ks)-1 {
			sep = ""
		}
		fmt.Fprintf(&sb, "  (%s, %d)%s\n", strconv.Quote(k), names[k], sep)
	}
	sb.WriteString("]\n\n")
	sb.WriteString("/-- Dispatch of `Where`: operator → condition constructor; every other operator is an error condition. -/\n")
	sb.WriteString("def whereTable : List (Nat × String) := [\n")
	var ops []int
	for o := range kind {
		ops = append(ops, o)
	}
	sort.Ints(ops)
	for i, o := range ops {
		sep := ","
		if i == len(ops)-1 {
			sep = ""
		}
		fmt.Fprintf(&sb, "  (%d, %s)%s\n", o, strconv.Quote(kind[o]), sep)
	}
	sb.WriteString("]\n\n")
	sb.WriteString("end PB.Gen.Query\n")
	write("Query.lean", sb.String())
}
