package main

import (
	"fmt"
	"go/ast"
	"go/token"
	"strings"
)

func init() { generators["log"] = genLog }

// genLog extracts from log/logging.go: the severity constants (typed `Severity = n` in one const block),
// the capacity of logBuffer (make(chan *logLine, N) in Start) and of logsWaiting (make(chan struct{}, N)),
// the merge decision `(*logLine).Equal` as a Lean function over the fields of `logLine` (see genLogEqual);
// from log/input.go and log/trace.go the level decisions taken outside log(): `fastcheck`, the decision tree of
// `AddTracer`, and the table (function → severity it pre-checks / logs at / collects at) of every exported
// logging function and tracer method (see genLogDecisions). The rest of input.go / output.go is modelled by
// hand and tied by traces.
func genLog() {
	fset, f := parseFile("log/logging.go")
	equalDef := genLogEqual(fset, f) + genLogNames(fset, f)
	sevNames := map[string]bool{}
	type sev struct {
		name string
		val  string
	}
	var sevs []sev
	for _, d := range f.Decls {
		gd, ok := d.(*ast.GenDecl)
		if !ok || gd.Tok != token.CONST {
			continue
		}
		for _, sp := range gd.Specs {
			vs := sp.(*ast.ValueSpec)
			id, ok := vs.Type.(*ast.Ident)
			if !ok || id.Name != "Severity" {
				continue
			}
			if len(vs.Names) != 1 || len(vs.Values) != 1 {
				die("log: severity constant %v: unexpected shape", vs.Names)
			}
			sevs = append(sevs, sev{vs.Names[0].Name, constVal(fset, vs.Values[0]).ExactString()})
		}
	}
	want := []string{"TraceLevel", "DebugLevel", "InfoLevel", "WarningLevel", "ErrorLevel", "CriticalLevel"}
	if len(sevs) != len(want) {
		die("log: expected %d severity constants, found %d", len(want), len(sevs))
	}
	for i, w := range want {
		if sevs[i].name != w {
			die("log: severity constant %d is %s, expected %s", i, sevs[i].name, w)
		}
	}
	for _, s := range sevs {
		sevNames[s.name] = true
	}
	decisions := genLogDecisions(sevNames)
	// channel capacities
	caps := map[string]string{}
	ast.Inspect(f, func(n ast.Node) bool {
		var name string
		var rhs ast.Expr
		switch x := n.(type) {
		case *ast.AssignStmt:
			if len(x.Lhs) == 1 && len(x.Rhs) == 1 {
				if id, ok := x.Lhs[0].(*ast.Ident); ok {
					name, rhs = id.Name, x.Rhs[0]
				}
			}
		case *ast.ValueSpec:
			if len(x.Names) == 1 && len(x.Values) == 1 {
				name, rhs = x.Names[0].Name, x.Values[0]
			}
		}
		if name != "logBuffer" && name != "logsWaiting" && name != "forceEmptyingOfBuffer" {
			return true
		}
		call, ok := rhs.(*ast.CallExpr)
		if !ok {
			return true
		}
		if fn, ok := call.Fun.(*ast.Ident); !ok || fn.Name != "make" {
			return true
		}
		if _, dup := caps[name]; dup {
			die("log: %s is made twice", name)
		}
		switch len(call.Args) {
		case 1:
			caps[name] = "0"
		case 2:
			caps[name] = constVal(fset, call.Args[1]).ExactString()
		default:
			die("log: make(%s): unexpected arguments", name)
		}
		return true
	})
	for _, n := range []string{"logBuffer", "logsWaiting", "forceEmptyingOfBuffer"} {
		if _, ok := caps[n]; !ok {
			die("log: no make(chan …) found for %s", n)
		}
	}
	var sb strings.Builder
	sb.WriteString("namespace PB.Gen.Log\n\n")
	sb.WriteString("/-- The `Severity` constants of log/logging.go, in declaration order. -/\n")
	sb.WriteString("def severities : List (String × Nat) :=\n  [")
	for i, s := range sevs {
		if i > 0 {
			sb.WriteString(", ")
		}
		fmt.Fprintf(&sb, "(%q, %s)", s.name, s.val)
	}
	sb.WriteString("]\n\n")
	for _, s := range sevs {
		fmt.Fprintf(&sb, "def %s : Nat := %s\n", strings.ToLower(s.name[:1])+s.name[1:], s.val)
	}
	fmt.Fprintf(&sb, "\n/-- `logBuffer = make(chan *logLine, N)`. -/\ndef bufferCap : Nat := %s\n", caps["logBuffer"])
	fmt.Fprintf(&sb, "\n/-- `logsWaiting = make(chan struct{}, N)`. -/\ndef logsWaitingCap : Nat := %s\n", caps["logsWaiting"])
	fmt.Fprintf(&sb, "\n/-- `forceEmptyingOfBuffer = make(chan struct{})` (0 = rendezvous). -/\ndef forceEmptyingCap : Nat := %s\n", caps["forceEmptyingOfBuffer"])
	sb.WriteString(equalDef)
	sb.WriteString(decisions)
	sb.WriteString("\nend PB.Gen.Log\n")
	write("Log.lean", sb.String())
}

// logLineFields is the `logLine` struct as the model knows it. `timestamp` exists but is not part of the
// model (Equal must not look at it); any other field is an unknown shape.
var logLineFields = []string{"msg", "tracer", "level", "timestamp", "file", "line"}

// genLogEqual regenerates the merge decision of the writer, `func (ll *logLine) Equal(ol *logLine) bool`:
// a tagless switch whose cases each `return false`, followed by `return true`. Every case condition is a
// boolean combination (||, &&, !, parentheses) of
//
//	<a>.<field> != <b>.<field>   (a, b the two lines, field one of msg, file, line, level; also ==)
//	<a>.tracer != nil            (also == nil)
//
// Anything else (another field, a prefix/slice of the message, a call, a case that returns something else,
// a default clause, statements before the switch) is an unknown shape: fail closed.
func genLogEqual(fset *token.FileSet, f *ast.File) string {
	// the struct: exactly the fields the model was written against
	var st *ast.StructType
	for _, d := range f.Decls {
		gd, ok := d.(*ast.GenDecl)
		if !ok || gd.Tok != token.TYPE {
			continue
		}
		for _, sp := range gd.Specs {
			ts := sp.(*ast.TypeSpec)
			if ts.Name.Name == "logLine" {
				st, _ = ts.Type.(*ast.StructType)
			}
		}
	}
	if st == nil {
		die("log: struct logLine not found")
	}
	var got []string
	for _, fl := range st.Fields.List {
		if len(fl.Names) == 0 {
			die("log: logLine has an embedded field")
		}
		for _, n := range fl.Names {
			got = append(got, n.Name)
		}
	}
	if strings.Join(got, ",") != strings.Join(logLineFields, ",") {
		die("log: logLine fields are %v, the model knows %v", got, logLineFields)
	}
	fd := findFunc(f, "Equal", "logLine")
	if fd == nil {
		die("log: (*logLine).Equal not found")
	}
	if len(fd.Recv.List[0].Names) != 1 || fd.Type.Params == nil || len(fd.Type.Params.List) != 1 ||
		len(fd.Type.Params.List[0].Names) != 1 {
		die("log: Equal: unexpected receiver/parameters")
	}
	side := map[string]string{fd.Recv.List[0].Names[0].Name: "ll", fd.Type.Params.List[0].Names[0].Name: "ol"}
	if len(side) != 2 {
		die("log: Equal: receiver and parameter have the same name")
	}
	if len(fd.Body.List) != 2 {
		die("log: Equal: expected `switch {…}; return true`, found %d statements", len(fd.Body.List))
	}
	sw, ok := fd.Body.List[0].(*ast.SwitchStmt)
	if !ok || sw.Tag != nil || sw.Init != nil {
		die("log: Equal: expected a tagless switch")
	}
	isReturn := func(s ast.Stmt, val string) bool {
		r, ok := s.(*ast.ReturnStmt)
		if !ok || len(r.Results) != 1 {
			return false
		}
		id, ok := r.Results[0].(*ast.Ident)
		return ok && id.Name == val
	}
	if !isReturn(fd.Body.List[1], "true") {
		die("log: Equal: last statement is not `return true`")
	}
	// field of one of the two lines
	sel := func(e ast.Expr) (string, string) {
		s, ok := e.(*ast.SelectorExpr)
		if !ok {
			die("log: Equal: unexpected operand %s", exprString(fset, e))
		}
		id, ok := s.X.(*ast.Ident)
		if !ok || side[id.Name] == "" {
			die("log: Equal: unexpected operand %s", exprString(fset, e))
		}
		return side[id.Name], s.Sel.Name
	}
	leanField := map[string]string{"msg": "msg", "file": "file", "line": "line", "level": "level"}
	var cond func(e ast.Expr) string
	cond = func(e ast.Expr) string {
		switch x := e.(type) {
		case *ast.ParenExpr:
			return cond(x.X)
		case *ast.UnaryExpr:
			if x.Op != token.NOT {
				die("log: Equal: unexpected unary operator %s", x.Op)
			}
			return "(!" + cond(x.X) + ")"
		case *ast.BinaryExpr:
			switch x.Op {
			case token.LOR:
				return "(" + cond(x.X) + " || " + cond(x.Y) + ")"
			case token.LAND:
				return "(" + cond(x.X) + " && " + cond(x.Y) + ")"
			case token.NEQ, token.EQL:
				op := map[token.Token]string{token.NEQ: "!=", token.EQL: "=="}[x.Op]
				if id, ok := x.Y.(*ast.Ident); ok && id.Name == "nil" {
					s, fld := sel(x.X)
					if fld != "tracer" {
						die("log: Equal: %s compared with nil", exprString(fset, x.X))
					}
					if x.Op == token.NEQ {
						return s + ".tracer"
					}
					return "(!" + s + ".tracer)"
				}
				s1, f1 := sel(x.X)
				s2, f2 := sel(x.Y)
				if f1 != f2 || s1 == s2 || leanField[f1] == "" {
					die("log: Equal: unexpected comparison %s", exprString(fset, x))
				}
				return "(" + s1 + "." + leanField[f1] + " " + op + " " + s2 + "." + leanField[f2] + ")"
			}
			die("log: Equal: unexpected operator %s in %s", x.Op, exprString(fset, x))
		}
		die("log: Equal: unexpected condition %s", exprString(fset, e))
		return ""
	}
	var sb strings.Builder
	var srcs, conds []string
	for _, s := range sw.Body.List {
		cc := s.(*ast.CaseClause)
		if len(cc.List) != 1 {
			die("log: Equal: a case with %d conditions (default clause or list)", len(cc.List))
		}
		if len(cc.Body) != 1 || !isReturn(cc.Body[0], "false") {
			die("log: Equal: case %s does not just `return false`", exprString(fset, cc.List[0]))
		}
		srcs = append(srcs, exprString(fset, cc.List[0]))
		conds = append(conds, cond(cc.List[0]))
	}
	sb.WriteString("\n/-- What `(*logLine).Equal` can see of a `logLine`: every field except the timestamp, the tracer as\n")
	sb.WriteString("    \"is non-nil\". -/\nstructure LineKey where\n  msg : Nat\n  tracer : Bool\n  file : Nat\n  line : Nat\n  level : Nat\n  deriving DecidableEq, Repr\n")
	sb.WriteString("\n/-- The case conditions of the switch in `(*logLine).Equal` (log/logging.go), in source order; every\n")
	sb.WriteString("    case returns false, falling through all of them returns true. -/\ndef equalCases : List String :=\n  [")
	for i, s := range srcs {
		if i > 0 {
			sb.WriteString(",\n   ")
		}
		fmt.Fprintf(&sb, "%q", s)
	}
	sb.WriteString("]\n")
	sb.WriteString("\n/-- `ll.Equal(ol)`, regenerated from that switch. -/\ndef lineEqual (ll ol : LineKey) : Bool :=\n")
	for _, c := range conds {
		fmt.Fprintf(&sb, "  if %s then false else\n", c)
	}
	sb.WriteString("  true\n")
	return sb.String()
}

// genLogNames regenerates the two name tables of log/logging.go:
//
//	func ParseLevel(level string) Severity { switch strings.ToLower(level) { case "trace": return 1 … }; return 0 }
//	func (s Severity) Name() string       { switch s { case TraceLevel: return "trace" … default: return "none" } }
//
// Start() turns the -log / -plog flags into the levels in force through ParseLevel.
func genLogNames(fset *token.FileSet, f *ast.File) string {
	var sb strings.Builder
	// ParseLevel
	pl := findFunc(f, "ParseLevel", "")
	if pl == nil || len(pl.Body.List) != 2 {
		die("log: ParseLevel: expected `switch …; return 0`")
	}
	sw, ok := pl.Body.List[0].(*ast.SwitchStmt)
	if !ok || sw.Init != nil || exprString(fset, sw.Tag) != "strings.ToLower(level)" {
		die("log: ParseLevel: expected a switch on strings.ToLower(level)")
	}
	if r, ok := pl.Body.List[1].(*ast.ReturnStmt); !ok || len(r.Results) != 1 || constVal(fset, r.Results[0]).ExactString() != "0" {
		die("log: ParseLevel: does not end with `return 0`")
	}
	sb.WriteString("\n/-- `ParseLevel`: the cases of its switch on the lower-cased name; any other name yields 0. -/\ndef levelNames : List (String × Nat) :=\n  [")
	for i, st := range sw.Body.List {
		cc := st.(*ast.CaseClause)
		if len(cc.List) != 1 || len(cc.Body) != 1 {
			die("log: ParseLevel: unexpected case shape")
		}
		lit, ok := cc.List[0].(*ast.BasicLit)
		r, ok2 := cc.Body[0].(*ast.ReturnStmt)
		if !ok || lit.Kind != token.STRING || !ok2 || len(r.Results) != 1 {
			die("log: ParseLevel: unexpected case %s", exprString(fset, cc.List[0]))
		}
		if i > 0 {
			sb.WriteString(", ")
		}
		fmt.Fprintf(&sb, "(%s, %s)", lit.Value, constVal(fset, r.Results[0]).ExactString())
	}
	sb.WriteString("]\n")
	// Severity.Name
	nm := findFunc(f, "Name", "Severity")
	if nm == nil || len(nm.Body.List) != 1 {
		die("log: Severity.Name: expected a single switch")
	}
	sw, ok = nm.Body.List[0].(*ast.SwitchStmt)
	if !ok || sw.Init != nil || exprString(fset, sw.Tag) != nm.Recv.List[0].Names[0].Name {
		die("log: Severity.Name: expected a switch on the receiver")
	}
	sb.WriteString("\n/-- `Severity.Name`: constant name → text, and the text of the default clause. -/\ndef severityNames : List (String × String) :=\n  [")
	def := ""
	n := 0
	for _, st := range sw.Body.List {
		cc := st.(*ast.CaseClause)
		if len(cc.Body) != 1 {
			die("log: Severity.Name: unexpected case shape")
		}
		r, ok := cc.Body[0].(*ast.ReturnStmt)
		if !ok || len(r.Results) != 1 {
			die("log: Severity.Name: case does not return")
		}
		lit, ok := r.Results[0].(*ast.BasicLit)
		if !ok || lit.Kind != token.STRING {
			die("log: Severity.Name: case does not return a string literal")
		}
		if cc.List == nil {
			def = lit.Value
			continue
		}
		id, ok := cc.List[0].(*ast.Ident)
		if len(cc.List) != 1 || !ok {
			die("log: Severity.Name: unexpected case %s", exprString(fset, cc.List[0]))
		}
		if n > 0 {
			sb.WriteString(", ")
		}
		n++
		fmt.Fprintf(&sb, "(%q, %s)", id.Name, lit.Value)
	}
	if def == "" {
		die("log: Severity.Name: no default clause")
	}
	fmt.Fprintf(&sb, "]\ndef severityNameDefault : String := %s\n", def)
	return sb.String()
}

// ---------------------------------------------------------------------------------------------------
// Level decisions taken outside log(): fastcheck, AddTracer, and which severity every API function asks about.

// decEnv is what the identifiers of a function body stand for while its statements are translated.
type decVal struct {
	kind string // bool | num | file | segs | tracer | level
	lean string
}

type decTr struct {
	fset *token.FileSet
	what string          // for error messages
	sevs map[string]bool // the Severity constants
	ctx  string          // name of the context parameter ("" if none)
}

func (t *decTr) die(format string, a ...any) {
	die("log: %s: "+format, append([]any{t.what}, a...)...)
}

func leanSev(name string) string { return strings.ToLower(name[:1]) + name[1:] }

// num translates a numeric operand of a level comparison: a Severity constant (also as uint32(C)), an
// identifier bound to a number (also as uint32(x)), or the global level atomic.LoadUint32(logLevel).
func (t *decTr) num(e ast.Expr, env map[string]decVal) string {
	switch x := e.(type) {
	case *ast.ParenExpr:
		return t.num(x.X, env)
	case *ast.Ident:
		if t.sevs[x.Name] {
			return leanSev(x.Name)
		}
		if v, ok := env[x.Name]; ok && (v.kind == "num" || v.kind == "level") {
			return v.lean
		}
	case *ast.CallExpr:
		s := exprString(t.fset, x)
		if s == "atomic.LoadUint32(logLevel)" {
			return "glob"
		}
		if id, ok := x.Fun.(*ast.Ident); ok && id.Name == "uint32" && len(x.Args) == 1 {
			return t.num(x.Args[0], env)
		}
	}
	t.die("unexpected operand %s of a level comparison", exprString(t.fset, e))
	return ""
}

// cond translates a branch condition into a Lean Bool term.
func (t *decTr) cond(e ast.Expr, env map[string]decVal) string {
	switch x := e.(type) {
	case *ast.ParenExpr:
		return t.cond(x.X, env)
	case *ast.Ident:
		if v, ok := env[x.Name]; ok && v.kind == "bool" {
			return v.lean
		}
	case *ast.UnaryExpr:
		if x.Op == token.NOT {
			return "(!" + t.cond(x.X, env) + ")"
		}
	case *ast.CallExpr:
		s := exprString(t.fset, x)
		if s == "pkgLevelsActive.IsSet()" {
			return "active"
		}
		if id, ok := x.Fun.(*ast.Ident); ok && id.Name == "fastcheck" && len(x.Args) == 1 {
			if a, ok := x.Args[0].(*ast.Ident); ok && t.sevs[a.Name] {
				return "(fastcheck active glob " + leanSev(a.Name) + ")"
			}
		}
	case *ast.BinaryExpr:
		switch x.Op {
		case token.LAND:
			return "(" + t.cond(x.X, env) + " && " + t.cond(x.Y, env) + ")"
		case token.LOR:
			return "(" + t.cond(x.X, env) + " || " + t.cond(x.Y, env) + ")"
		case token.LSS, token.LEQ, token.GTR, token.GEQ, token.EQL, token.NEQ:
			// ctx != nil / ctx == nil
			if id, ok := x.Y.(*ast.Ident); ok && id.Name == "nil" {
				if c, ok := x.X.(*ast.Ident); ok && t.ctx != "" && c.Name == t.ctx && (x.Op == token.NEQ || x.Op == token.EQL) {
					if x.Op == token.NEQ {
						return "(!ctxNil)"
					}
					return "ctxNil"
				}
				break
			}
			// len(pathSegments) < 2
			if c, ok := x.X.(*ast.CallExpr); ok {
				if id, ok := c.Fun.(*ast.Ident); ok && id.Name == "len" && len(c.Args) == 1 {
					a, ok := c.Args[0].(*ast.Ident)
					if ok && env[a.Name].kind == "segs" && x.Op == token.LSS && exprString(t.fset, x.Y) == "2" {
						return "short"
					}
					break
				}
			}
			op := map[token.Token]string{token.LSS: "<", token.LEQ: "≤", token.GTR: ">", token.GEQ: "≥", token.EQL: "==", token.NEQ: "!="}[x.Op]
			return "(decide (" + t.num(x.X, env) + " " + op + " " + t.num(x.Y, env) + "))"
		}
	}
	t.die("unexpected condition %s", exprString(t.fset, e))
	return ""
}

// block translates a statement list into a Lean Bool term (the function's decision); `after` is the term for
// what follows the list when it falls through ("" = falling through is an error). Identifiers declared inside
// a block are local to it (only `:=` is accepted, so nothing leaks out of a block).
func (t *decTr) block(stmts []ast.Stmt, env map[string]decVal, after string, ret func(*ast.ReturnStmt, map[string]decVal) string, ind string) string {
	env2 := map[string]decVal{}
	for k, v := range env {
		env2[k] = v
	}
	env = env2
	for i, s := range stmts {
		switch x := s.(type) {
		case *ast.ReturnStmt:
			if i != len(stmts)-1 {
				t.die("statements after a return")
			}
			return ret(x, env)
		case *ast.ExprStmt:
			if c := exprString(t.fset, x.X); c != "pkgLevelsLock.Lock()" && c != "pkgLevelsLock.Unlock()" {
				t.die("unexpected statement %s", c)
			}
		case *ast.AssignStmt:
			t.assign(x, env)
		case *ast.IfStmt:
			if x.Init != nil {
				t.die("if with an init statement")
			}
			rest := t.block(stmts[i+1:], env, after, ret, ind+"  ")
			c := t.cond(x.Cond, env)
			th := t.block(x.Body.List, env, rest, ret, ind+"  ")
			el := rest
			switch e := x.Else.(type) {
			case nil:
			case *ast.BlockStmt:
				el = t.block(e.List, env, rest, ret, ind+"  ")
			case *ast.IfStmt:
				el = t.block([]ast.Stmt{e}, env, rest, ret, ind+"  ")
			default:
				t.die("unexpected else")
			}
			return "(if " + c + " then\n" + ind + "  " + th + "\n" + ind + "else\n" + ind + "  " + el + ")"
		default:
			t.die("unexpected statement %T", s)
		}
	}
	if after == "" {
		t.die("a path falls off the end of the function")
	}
	return after
}

// assign: the `:=` statements of AddTracer, each binding its identifiers to what they stand for.
func (t *decTr) assign(a *ast.AssignStmt, env map[string]decVal) {
	if a.Tok != token.DEFINE || len(a.Rhs) != 1 {
		t.die("unexpected assignment %s", exprString(t.fset, a.Lhs[0]))
	}
	names := make([]string, len(a.Lhs))
	for i, l := range a.Lhs {
		id, ok := l.(*ast.Ident)
		if !ok {
			t.die("unexpected assignment target")
		}
		names[i] = id.Name
	}
	bind := func(i int, v decVal) {
		if names[i] != "_" {
			env[names[i]] = v
		}
	}
	rhs := exprString(t.fset, a.Rhs[0])
	switch {
	case rhs == "runtime.Caller(1)" && len(names) == 4 && names[0] == "_" && names[2] == "_":
		// the caller of AddTracer: its file decides the origin package
		bind(1, decVal{"file", ""})
		bind(3, decVal{"bool", "callerOk"})
	case len(names) == 1 && strings.HasPrefix(rhs, "strings.Split("):
		c := a.Rhs[0].(*ast.CallExpr)
		id, ok := c.Args[0].(*ast.Ident)
		if len(c.Args) != 2 || !ok || env[id.Name].kind != "file" || exprString(t.fset, c.Args[1]) != `"/"` {
			t.die("unexpected %s", rhs)
		}
		bind(0, decVal{"segs", ""})
	case len(names) == 2:
		if ix, ok := a.Rhs[0].(*ast.IndexExpr); ok {
			// severity, ok := pkgLevels[pathSegments[len(pathSegments)-2]]: the directory of the caller's file
			m, ok1 := ix.X.(*ast.Ident)
			in, ok2 := ix.Index.(*ast.IndexExpr)
			if ok1 && ok2 && m.Name == "pkgLevels" {
				sg, ok3 := in.X.(*ast.Ident)
				if ok3 && env[sg.Name].kind == "segs" && exprString(t.fset, in.Index) == "len("+sg.Name+") - 2" {
					bind(0, decVal{"num", "(found.getD 0)"})
					bind(1, decVal{"bool", "found.isSome"})
					return
				}
			}
			t.die("unexpected map lookup %s", rhs)
		}
		if ta, ok := a.Rhs[0].(*ast.TypeAssertExpr); ok && t.ctx != "" {
			if exprString(t.fset, ta.X) == t.ctx+".Value(key)" && exprString(t.fset, ta.Type) == "*ContextTracer" && names[0] == "_" {
				bind(1, decVal{"bool", "existing"})
				return
			}
		}
		t.die("unexpected assignment from %s", rhs)
	case len(names) == 1 && rhs == "&ContextTracer{}":
		bind(0, decVal{"tracer", ""})
	default:
		t.die("unexpected assignment from %s", rhs)
	}
}

// genLogDecisions regenerates
//
//	fastcheck(level)  (input.go)  → def fastcheck (active : Bool) (glob level : Nat) : Bool
//	AddTracer(ctx)    (trace.go)  → def addTracer (ctxNil callerOk short active : Bool) (glob : Nat)
//	                                  (found : Option Nat) (existing : Bool) : Bool   -- true: a live tracer is returned
//	levelCalls                    → for every exported logging function / tracer method:
//	                                  (receiver, name, argument of fastcheck, first argument of log, first argument of tracer.log)
//
// Statement shapes accepted: `if … {…} else {…}`, `return`, the lock calls, and the `:=` statements listed in
// assign; conditions: see cond. Everything else is an error (fail closed).
func genLogDecisions(sevs map[string]bool) string {
	var sb strings.Builder
	// ---- fastcheck
	fsetI, fi := parseFile("log/input.go")
	fc := findFunc(fi, "fastcheck", "")
	if fc == nil || fc.Type.Params == nil || len(fc.Type.Params.List) != 1 || len(fc.Type.Params.List[0].Names) != 1 ||
		exprString(fsetI, fc.Type.Params.List[0].Type) != "Severity" || fc.Type.Results == nil || len(fc.Type.Results.List) != 1 ||
		exprString(fsetI, fc.Type.Results.List[0].Type) != "bool" {
		die("log: fastcheck(level Severity) bool not found")
	}
	t := &decTr{fset: fsetI, what: "fastcheck", sevs: sevs}
	retBool := func(r *ast.ReturnStmt, _ map[string]decVal) string {
		if len(r.Results) == 1 {
			if id, ok := r.Results[0].(*ast.Ident); ok && (id.Name == "true" || id.Name == "false") {
				return id.Name
			}
		}
		t.die("unexpected return")
		return ""
	}
	body := t.block(fc.Body.List, map[string]decVal{fc.Type.Params.List[0].Names[0].Name: {"level", "level"}}, "", retBool, "  ")
	sb.WriteString("\n/-- `fastcheck(level)` (log/input.go), regenerated: the cheap pre-check in front of `log()` and `AddTracer`;\n")
	sb.WriteString("    `active` = `pkgLevelsActive.IsSet()`, `glob` = `atomic.LoadUint32(logLevel)`. -/\n")
	sb.WriteString("def fastcheck (active : Bool) (glob level : Nat) : Bool :=\n  " + body + "\n")

	// ---- AddTracer
	fsetT, ft := parseFile("log/trace.go")
	at := findFunc(ft, "AddTracer", "")
	if at == nil || at.Type.Params == nil || len(at.Type.Params.List) != 1 || len(at.Type.Params.List[0].Names) != 1 ||
		exprString(fsetT, at.Type.Params.List[0].Type) != "context.Context" || at.Type.Results == nil || len(at.Type.Results.List) != 2 {
		die("log: AddTracer(ctx context.Context) (context.Context, *ContextTracer) not found")
	}
	ctx := at.Type.Params.List[0].Names[0].Name
	t = &decTr{fset: fsetT, what: "AddTracer", sevs: sevs, ctx: ctx}
	retTracer := func(r *ast.ReturnStmt, env map[string]decVal) string {
		if len(r.Results) == 2 {
			second, ok := r.Results[1].(*ast.Ident)
			first := exprString(fsetT, r.Results[0])
			if ok && second.Name == "nil" && first == ctx {
				return "false"
			}
			if ok && env[second.Name].kind == "tracer" && first == "context.WithValue("+ctx+", key, "+second.Name+")" {
				return "true"
			}
		}
		t.die("unexpected return %s", exprString(fsetT, r.Results[0]))
		return ""
	}
	body = t.block(at.Body.List, map[string]decVal{}, "", retTracer, "  ")
	sb.WriteString("\n/-- `AddTracer(ctx)` (log/trace.go), regenerated branch by branch: does the caller get a live tracer?\n")
	sb.WriteString("    `ctxNil`: ctx == nil; `callerOk`: runtime.Caller(1) succeeded; `short`: the caller's file path has fewer than\n")
	sb.WriteString("    two segments; `found`: the entry of the caller's directory in `pkgLevels`; `existing`: the context already\n")
	sb.WriteString("    carries a tracer. -/\n")
	sb.WriteString("def addTracer (ctxNil callerOk short active : Bool) (glob : Nat) (found : Option Nat) (existing : Bool) : Bool :=\n  " + body + "\n")

	// ---- which severity every logging function asks fastcheck about, logs at, collects at
	type row struct{ recv, name, fc, lg, tl string }
	var rows []row
	sevArg := func(fset *token.FileSet, what string, c *ast.CallExpr) string {
		if len(c.Args) == 0 {
			die("log: %s: call without arguments", what)
		}
		id, ok := c.Args[0].(*ast.Ident)
		if !ok || !sevs[id.Name] {
			die("log: %s: %s is not called with a Severity constant", what, exprString(fset, c.Fun))
		}
		return id.Name
	}
	// log(X, <text>, nil) as the only statement of a block
	logCall := func(fset *token.FileSet, what string, body []ast.Stmt) string {
		if len(body) == 1 {
			if es, ok := body[0].(*ast.ExprStmt); ok {
				if c, ok := es.X.(*ast.CallExpr); ok {
					if id, ok := c.Fun.(*ast.Ident); ok && id.Name == "log" && len(c.Args) == 3 && exprString(fset, c.Args[2]) == "nil" {
						return sevArg(fset, what, c)
					}
				}
			}
		}
		die("log: %s: expected `log(<Severity>, <text>, nil)`", what)
		return ""
	}
	fastArg := func(fset *token.FileSet, what string, e ast.Expr) string {
		c, ok := e.(*ast.CallExpr)
		if ok {
			if id, ok := c.Fun.(*ast.Ident); ok && id.Name == "fastcheck" && len(c.Args) == 1 {
				return sevArg(fset, what, c)
			}
		}
		die("log: %s: expected `fastcheck(<Severity>)`, found %s", what, exprString(fset, e))
		return ""
	}
	mentions := func(fd *ast.FuncDecl) bool { // does the body call fastcheck / log / <x>.log?
		hit := false
		ast.Inspect(fd.Body, func(n ast.Node) bool {
			if c, ok := n.(*ast.CallExpr); ok {
				switch f := c.Fun.(type) {
				case *ast.Ident:
					hit = hit || f.Name == "fastcheck" || f.Name == "log"
				case *ast.SelectorExpr:
					hit = hit || f.Sel.Name == "log"
				}
			}
			return true
		})
		return hit
	}
	for _, d := range fi.Decls {
		fd, ok := d.(*ast.FuncDecl)
		if !ok || fd.Body == nil || fd.Recv != nil || fd.Name.Name == "log" || fd.Name.Name == "fastcheck" || !mentions(fd) {
			continue
		}
		what := fd.Name.Name
		st := fd.Body.List
		// an optional line counter in front: atomic.AddUint64(<counter>, 1)
		if len(st) == 2 {
			if es, ok := st[0].(*ast.ExprStmt); ok && strings.HasPrefix(exprString(fsetI, es.X), "atomic.AddUint64(") {
				st = st[1:]
			}
		}
		ifs, ok := st[0].(*ast.IfStmt)
		if len(st) != 1 || !ok || ifs.Init != nil || ifs.Else != nil {
			die("log: %s: expected `if fastcheck(<Severity>) { log(<Severity>, <text>, nil) }`", what)
		}
		rows = append(rows, row{"", what, fastArg(fsetI, what, ifs.Cond), logCall(fsetI, what, ifs.Body.List), ""})
	}
	for _, d := range ft.Decls {
		fd, ok := d.(*ast.FuncDecl)
		if !ok || fd.Body == nil || !mentions(fd) {
			continue
		}
		if fd.Recv == nil {
			if fd.Name.Name == "AddTracer" {
				continue
			}
			die("log: trace.go: function %s takes a level decision the model does not know", fd.Name.Name)
		}
		if fd.Name.Name == "log" {
			continue // (*ContextTracer).log: collects unconditionally (modelled by hand)
		}
		what := "(*ContextTracer)." + fd.Name.Name
		if len(fd.Recv.List) != 1 || len(fd.Recv.List[0].Names) != 1 || exprString(fsetT, fd.Recv.List[0].Type) != "*ContextTracer" {
			die("log: %s: unexpected receiver", what)
		}
		rc := fd.Recv.List[0].Names[0].Name
		sw, ok := fd.Body.List[0].(*ast.SwitchStmt)
		if len(fd.Body.List) != 1 || !ok || sw.Tag != nil || sw.Init != nil || len(sw.Body.List) != 2 {
			die("log: %s: expected `switch { case %s != nil: …; case fastcheck(…): … }`", what, rc)
		}
		c0, c1 := sw.Body.List[0].(*ast.CaseClause), sw.Body.List[1].(*ast.CaseClause)
		if len(c0.List) != 1 || exprString(fsetT, c0.List[0]) != rc+" != nil" || len(c1.List) != 1 || len(c0.Body) != 1 {
			die("log: %s: unexpected cases", what)
		}
		tl := ""
		if es, ok := c0.Body[0].(*ast.ExprStmt); ok {
			if c, ok := es.X.(*ast.CallExpr); ok && exprString(fsetT, c.Fun) == rc+".log" && len(c.Args) == 2 {
				tl = sevArg(fsetT, what, c)
			}
		}
		if tl == "" {
			die("log: %s: expected `%s.log(<Severity>, <text>)` in the first case", what, rc)
		}
		rows = append(rows, row{"ContextTracer", fd.Name.Name, fastArg(fsetT, what, c1.List[0]), logCall(fsetT, what, c1.Body), tl})
	}
	if len(rows) == 0 {
		die("log: no logging functions found")
	}
	sb.WriteString("\n/-- Every exported logging function of log/input.go (receiver \"\") and every logging method of\n")
	sb.WriteString("    `*ContextTracer` (log/trace.go): (receiver, name, the severity it asks `fastcheck` about, the severity it\n")
	sb.WriteString("    passes to `log()`, the severity it passes to `tracer.log()` — \"\" for the package functions). -/\n")
	sb.WriteString("def levelCalls : List (String × String × String × String × String) :=\n  [")
	for i, r := range rows {
		if i > 0 {
			sb.WriteString(",\n   ")
		}
		fmt.Fprintf(&sb, "(%q, %q, %q, %q, %q)", r.recv, r.name, r.fc, r.lg, r.tl)
	}
	sb.WriteString("]\n")
	return sb.String()
}
