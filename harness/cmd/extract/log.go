package main

import (
	"fmt"
	"go/ast"
	"go/token"
	"strings"
)

func init() { generators["log"] = genLog }

// genLog extracts from log/logging.go: the severity constants (typed `Severity = n` in one const block),
// the capacity of logBuffer (make(chan *logLine, N) in Start) and of logsWaiting (make(chan struct{}, N)),
// and from log/output.go / log/input.go nothing (their logic is modelled by hand and tied by traces).
func genLog() {
	fset, f := parseFile("log/logging.go")
	type sev struct {
		name string
		val  string
	}
	var sevs []sev
	for _, d := range f.Decls {
		gd, ok := d.(*ast.GenDecl)
		if !ok || gd.Tok != token.CONST {
			continue
		}
		for _, sp := range gd.Specs {
			vs := sp.(*ast.ValueSpec)
			id, ok := vs.Type.(*ast.Ident)
			if !ok || id.Name != "Severity" {
				continue
			}
			if len(vs.Names) != 1 || len(vs.Values) != 1 {
				die("log: severity constant %v: unexpected shape", vs.Names)
			}
			sevs = append(sevs, sev{vs.Names[0].Name, constVal(fset, vs.Values[0]).ExactString()})
		}
	}
	want := []string{"TraceLevel", "DebugLevel", "InfoLevel", "WarningLevel", "ErrorLevel", "CriticalLevel"}
	if len(sevs) != len(want) {
		die("log: expected %d severity constants, found %d", len(want), len(sevs))
	}
	for i, w := range want {
		if sevs[i].name != w {
			die("log: severity constant %d is %s, expected %s", i, sevs[i].name, w)
		}
	}
	// channel capacities
	caps := map[string]string{}
	ast.Inspect(f, func(n ast.Node) bool {
		var name string
		var rhs ast.Expr
		switch x := n.(type) {
		case *ast.AssignStmt:
			if len(x.Lhs) == 1 && len(x.Rhs) == 1 {
				if id, ok := x.Lhs[0].(*ast.Ident); ok {
					name, rhs = id.Name, x.Rhs[0]
				}
			}
		case *ast.ValueSpec:
			if len(x.Names) == 1 && len(x.Values) == 1 {
				name, rhs = x.Names[0].Name, x.Values[0]
			}
		}
		if name != "logBuffer" && name != "logsWaiting" && name != "forceEmptyingOfBuffer" {
			return true
		}
		call, ok := rhs.(*ast.CallExpr)
		if !ok {
			return true
		}
		if fn, ok := call.Fun.(*ast.Ident); !ok || fn.Name != "make" {
			return true
		}
		if _, dup := caps[name]; dup {
			die("log: %s is made twice", name)
		}
		switch len(call.Args) {
		case 1:
			caps[name] = "0"
		case 2:
			caps[name] = constVal(fset, call.Args[1]).ExactString()
		default:
			die("log: make(%s): unexpected arguments", name)
		}
		return true
	})
	for _, n := range []string{"logBuffer", "logsWaiting", "forceEmptyingOfBuffer"} {
		if _, ok := caps[n]; !ok {
			die("log: no make(chan …) found for %s", n)
		}
	}
	var sb strings.Builder
	sb.WriteString("namespace PB.Gen.Log\n\n")
	sb.WriteString("/-- The `Severity` constants of log/logging.go, in declaration order. -/\n")
	sb.WriteString("def severities : List (String × Nat) :=\n  [")
	for i, s := range sevs {
		if i > 0 {
			sb.WriteString(", ")
		}
		fmt.Fprintf(&sb, "(%q, %s)", s.name, s.val)
	}
	sb.WriteString("]\n\n")
	for _, s := range sevs {
		fmt.Fprintf(&sb, "def %s : Nat := %s\n", strings.ToLower(s.name[:1])+s.name[1:], s.val)
	}
	fmt.Fprintf(&sb, "\n/-- `logBuffer = make(chan *logLine, N)`. -/\ndef bufferCap : Nat := %s\n", caps["logBuffer"])
	fmt.Fprintf(&sb, "\n/-- `logsWaiting = make(chan struct{}, N)`. -/\ndef logsWaitingCap : Nat := %s\n", caps["logsWaiting"])
	fmt.Fprintf(&sb, "\n/-- `forceEmptyingOfBuffer = make(chan struct{})` (0 = rendezvous). -/\ndef forceEmptyingCap : Nat := %s\n", caps["forceEmptyingOfBuffer"])
	sb.WriteString("\nend PB.Gen.Log\n")
	write("Log.lean", sb.String())
}
