package main

import (
	"fmt"
	"go/ast"
	"go/token"
	"strings"
)

func init() { generators["log"] = genLog }

// genLog extracts from log/logging.go: the severity constants (typed `Severity = n` in one const block),
// the capacity of logBuffer (make(chan *logLine, N) in Start) and of logsWaiting (make(chan struct{}, N)),
// the merge decision `(*logLine).Equal` as a Lean function over the fields of `logLine` (see genLogEqual),
// and from log/output.go / log/input.go nothing (their logic is modelled by hand and tied by traces).
func genLog() {
	fset, f := parseFile("log/logging.go")
	equalDef := genLogEqual(fset, f) + genLogNames(fset, f)
	type sev struct {
		name string
		val  string
	}
	var sevs []sev
	for _, d := range f.Decls {
		gd, ok := d.(*ast.GenDecl)
		if !ok || gd.Tok != token.CONST {
			continue
		}
		for _, sp := range gd.Specs {
			vs := sp.(*ast.ValueSpec)
			id, ok := vs.Type.(*ast.Ident)
			if !ok || id.Name != "Severity" {
				continue
			}
			if len(vs.Names) != 1 || len(vs.Values) != 1 {
				die("log: severity constant %v: unexpected shape", vs.Names)
			}
			sevs = append(sevs, sev{vs.Names[0].Name, constVal(fset, vs.Values[0]).ExactString()})
		}
	}
	want := []string{"TraceLevel", "DebugLevel", "InfoLevel", "WarningLevel", "ErrorLevel", "CriticalLevel"}
	if len(sevs) != len(want) {
		die("log: expected %d severity constants, found %d", len(want), len(sevs))
	}
	for i, w := range want {
		if sevs[i].name != w {
			die("log: severity constant %d is %s, expected %s", i, sevs[i].name, w)
		}
	}
	// channel capacities
	caps := map[string]string{}
	ast.Inspect(f, func(n ast.Node) bool {
		var name string
		var rhs ast.Expr
		switch x := n.(type) {
		case *ast.AssignStmt:
			if len(x.Lhs) == 1 && len(x.Rhs) == 1 {
				if id, ok := x.Lhs[0].(*ast.Ident); ok {
					name, rhs = id.Name, x.Rhs[0]
				}
			}
		case *ast.ValueSpec:
			if len(x.Names) == 1 && len(x.Values) == 1 {
				name, rhs = x.Names[0].Name, x.Values[0]
			}
		}
		if name != "logBuffer" && name != "logsWaiting" && name != "forceEmptyingOfBuffer" {
			return true
		}
		call, ok := rhs.(*ast.CallExpr)
		if !ok {
			return true
		}
		if fn, ok := call.Fun.(*ast.Ident); !ok || fn.Name != "make" {
			return true
		}
		if _, dup := caps[name]; dup {
			die("log: %s is made twice", name)
		}
		switch len(call.Args) {
		case 1:
			caps[name] = "0"
		case 2:
			caps[name] = constVal(fset, call.Args[1]).ExactString()
		default:
			die("log: make(%s): unexpected arguments", name)
		}
		return true
	})
	for _, n := range []string{"logBuffer", "logsWaiting", "forceEmptyingOfBuffer"} {
		if _, ok := caps[n]; !ok {
			die("log: no make(chan …) found for %s", n)
		}
	}
	var sb strings.Builder
	sb.WriteString("namespace PB.Gen.Log\n\n")
	sb.WriteString("/-- The `Severity` constants of log/logging.go, in declaration order. -/\n")
	sb.WriteString("def severities : List (String × Nat) :=\n  [")
	for i, s := range sevs {
		if i > 0 {
			sb.WriteString(", ")
		}
		fmt.Fprintf(&sb, "(%q, %s)", s.name, s.val)
	}
	sb.WriteString("]\n\n")
	for _, s := range sevs {
		fmt.Fprintf(&sb, "def %s : Nat := %s\n", strings.ToLower(s.name[:1])+s.name[1:], s.val)
	}
	fmt.Fprintf(&sb, "\n/-- `logBuffer = make(chan *logLine, N)`. -/\ndef bufferCap : Nat := %s\n", caps["logBuffer"])
	fmt.Fprintf(&sb, "\n/-- `logsWaiting = make(chan struct{}, N)`. -/\ndef logsWaitingCap : Nat := %s\n", caps["logsWaiting"])
	fmt.Fprintf(&sb, "\n/-- `forceEmptyingOfBuffer = make(chan struct{})` (0 = rendezvous). -/\ndef forceEmptyingCap : Nat := %s\n", caps["forceEmptyingOfBuffer"])
	sb.WriteString(equalDef)
	sb.WriteString("\nend PB.Gen.Log\n")
	write("Log.lean", sb.String())
}

// logLineFields is the `logLine` struct as the model knows it. `timestamp` exists but is not part of the
// model (Equal must not look at it); any other field is an unknown shape.
var logLineFields = []string{"msg", "tracer", "level", "timestamp", "file", "line"}

// genLogEqual regenerates the merge decision of the writer, `func (ll *logLine) Equal(ol *logLine) bool`:
// a tagless switch whose cases each `return false`, followed by `return true`. Every case condition is a
// boolean combination (||, &&, !, parentheses) of
//
//	<a>.<field> != <b>.<field>   (a, b the two lines, field one of msg, file, line, level; also ==)
//	<a>.tracer != nil            (also == nil)
//
// Anything else (another field, a prefix/slice of the message, a call, a case that returns something else,
// a default clause, statements before the switch) is an unknown shape: fail closed.
func genLogEqual(fset *token.FileSet, f *ast.File) string {
	// the struct: exactly the fields the model was written against
	var st *ast.StructType
	for _, d := range f.Decls {
		gd, ok := d.(*ast.GenDecl)
		if !ok || gd.Tok != token.TYPE {
			continue
		}
		for _, sp := range gd.Specs {
			ts := sp.(*ast.TypeSpec)
			if ts.Name.Name == "logLine" {
				st, _ = ts.Type.(*ast.StructType)
			}
		}
	}
	if st == nil {
		die("log: struct logLine not found")
	}
	var got []string
	for _, fl := range st.Fields.List {
		if len(fl.Names) == 0 {
			die("log: logLine has an embedded field")
		}
		for _, n := range fl.Names {
			got = append(got, n.Name)
		}
	}
	if strings.Join(got, ",") != strings.Join(logLineFields, ",") {
		die("log: logLine fields are %v, the model knows %v", got, logLineFields)
	}
	fd := findFunc(f, "Equal", "logLine")
	if fd == nil {
		die("log: (*logLine).Equal not found")
	}
	if len(fd.Recv.List[0].Names) != 1 || fd.Type.Params == nil || len(fd.Type.Params.List) != 1 ||
		len(fd.Type.Params.List[0].Names) != 1 {
		die("log: Equal: unexpected receiver/parameters")
	}
	side := map[string]string{fd.Recv.List[0].Names[0].Name: "ll", fd.Type.Params.List[0].Names[0].Name: "ol"}
	if len(side) != 2 {
		die("log: Equal: receiver and parameter have the same name")
	}
	if len(fd.Body.List) != 2 {
		die("log: Equal: expected `switch {…}; return true`, found %d statements", len(fd.Body.List))
	}
	sw, ok := fd.Body.List[0].(*ast.SwitchStmt)
	if !ok || sw.Tag != nil || sw.Init != nil {
		die("log: Equal: expected a tagless switch")
	}
	isReturn := func(s ast.Stmt, val string) bool {
		r, ok := s.(*ast.ReturnStmt)
		if !ok || len(r.Results) != 1 {
			return false
		}
		id, ok := r.Results[0].(*ast.Ident)
		return ok && id.Name == val
	}
	if !isReturn(fd.Body.List[1], "true") {
		die("log: Equal: last statement is not `return true`")
	}
	// field of one of the two lines
	sel := func(e ast.Expr) (string, string) {
		s, ok := e.(*ast.SelectorExpr)
		if !ok {
			die("log: Equal: unexpected operand %s", exprString(fset, e))
		}
		id, ok := s.X.(*ast.Ident)
		if !ok || side[id.Name] == "" {
			die("log: Equal: unexpected operand %s", exprString(fset, e))
		}
		return side[id.Name], s.Sel.Name
	}
	leanField := map[string]string{"msg": "msg", "file": "file", "line": "line", "level": "level"}
	var cond func(e ast.Expr) string
	cond = func(e ast.Expr) string {
		switch x := e.(type) {
		case *ast.ParenExpr:
			return cond(x.X)
		case *ast.UnaryExpr:
			if x.Op != token.NOT {
				die("log: Equal: unexpected unary operator %s", x.Op)
			}
			return "(!" + cond(x.X) + ")"
		case *ast.BinaryExpr:
			switch x.Op {
			case token.LOR:
				return "(" + cond(x.X) + " || " + cond(x.Y) + ")"
			case token.LAND:
				return "(" + cond(x.X) + " && " + cond(x.Y) + ")"
			case token.NEQ, token.EQL:
				op := map[token.Token]string{token.NEQ: "!=", token.EQL: "=="}[x.Op]
				if id, ok := x.Y.(*ast.Ident); ok && id.Name == "nil" {
					s, fld := sel(x.X)
					if fld != "tracer" {
						die("log: Equal: %s compared with nil", exprString(fset, x.X))
					}
					if x.Op == token.NEQ {
						return s + ".tracer"
					}
					return "(!" + s + ".tracer)"
				}
				s1, f1 := sel(x.X)
				s2, f2 := sel(x.Y)
				if f1 != f2 || s1 == s2 || leanField[f1] == "" {
					die("log: Equal: unexpected comparison %s", exprString(fset, x))
				}
				return "(" + s1 + "." + leanField[f1] + " " + op + " " + s2 + "." + leanField[f2] + ")"
			}
			die("log: Equal: unexpected operator %s in %s", x.Op, exprString(fset, x))
		}
		die("log: Equal: unexpected condition %s", exprString(fset, e))
		return ""
	}
	var sb strings.Builder
	var srcs, conds []string
	for _, s := range sw.Body.List {
		cc := s.(*ast.CaseClause)
		if len(cc.List) != 1 {
			die("log: Equal: a case with %d conditions (default clause or list)", len(cc.List))
		}
		if len(cc.Body) != 1 || !isReturn(cc.Body[0], "false") {
			die("log: Equal: case %s does not just `return false`", exprString(fset, cc.List[0]))
		}
		srcs = append(srcs, exprString(fset, cc.List[0]))
		conds = append(conds, cond(cc.List[0]))
	}
	sb.WriteString("\n/-- What `(*logLine).Equal` can see of a `logLine`: every field except the timestamp, the tracer as\n")
	sb.WriteString("    \"is non-nil\". -/\nstructure LineKey where\n  msg : Nat\n  tracer : Bool\n  file : Nat\n  line : Nat\n  level : Nat\n  deriving DecidableEq, Repr\n")
	sb.WriteString("\n/-- The case conditions of the switch in `(*logLine).Equal` (log/logging.go), in source order; every\n")
	sb.WriteString("    case returns false, falling through all of them returns true. -/\ndef equalCases : List String :=\n  [")
	for i, s := range srcs {
		if i > 0 {
			sb.WriteString(",\n   ")
		}
		fmt.Fprintf(&sb, "%q", s)
	}
	sb.WriteString("]\n")
	sb.WriteString("\n/-- `ll.Equal(ol)`, regenerated from that switch. -/\ndef lineEqual (ll ol : LineKey) : Bool :=\n")
	for _, c := range conds {
		fmt.Fprintf(&sb, "  if %s then false else\n", c)
	}
	sb.WriteString("  true\n")
	return sb.String()
}

// genLogNames regenerates the two name tables of log/logging.go:
//
//	func ParseLevel(level string) Severity { switch strings.ToLower(level) { case "trace": return 1 … }; return 0 }
//	func (s Severity) Name() string       { switch s { case TraceLevel: return "trace" … default: return "none" } }
//
// Start() turns the -log / -plog flags into the levels in force through ParseLevel.
func genLogNames(fset *token.FileSet, f *ast.File) string {
	var sb strings.Builder
	// ParseLevel
	pl := findFunc(f, "ParseLevel", "")
	if pl == nil || len(pl.Body.List) != 2 {
		die("log: ParseLevel: expected `switch …; return 0`")
	}
	sw, ok := pl.Body.List[0].(*ast.SwitchStmt)
	if !ok || sw.Init != nil || exprString(fset, sw.Tag) != "strings.ToLower(level)" {
		die("log: ParseLevel: expected a switch on strings.ToLower(level)")
	}
	if r, ok := pl.Body.List[1].(*ast.ReturnStmt); !ok || len(r.Results) != 1 || constVal(fset, r.Results[0]).ExactString() != "0" {
		die("log: ParseLevel: does not end with `return 0`")
	}
	sb.WriteString("\n/-- `ParseLevel`: the cases of its switch on the lower-cased name; any other name yields 0. -/\ndef levelNames : List (String × Nat) :=\n  [")
	for i, st := range sw.Body.List {
		cc := st.(*ast.CaseClause)
		if len(cc.List) != 1 || len(cc.Body) != 1 {
			die("log: ParseLevel: unexpected case shape")
		}
		lit, ok := cc.List[0].(*ast.BasicLit)
		r, ok2 := cc.Body[0].(*ast.ReturnStmt)
		if !ok || lit.Kind != token.STRING || !ok2 || len(r.Results) != 1 {
			die("log: ParseLevel: unexpected case %s", exprString(fset, cc.List[0]))
		}
		if i > 0 {
			sb.WriteString(", ")
		}
		fmt.Fprintf(&sb, "(%s, %s)", lit.Value, constVal(fset, r.Results[0]).ExactString())
	}
	sb.WriteString("]\n")
	// Severity.Name
	nm := findFunc(f, "Name", "Severity")
	if nm == nil || len(nm.Body.List) != 1 {
		die("log: Severity.Name: expected a single switch")
	}
	sw, ok = nm.Body.List[0].(*ast.SwitchStmt)
	if !ok || sw.Init != nil || exprString(fset, sw.Tag) != nm.Recv.List[0].Names[0].Name {
		die("log: Severity.Name: expected a switch on the receiver")
	}
	sb.WriteString("\n/-- `Severity.Name`: constant name → text, and the text of the default clause. -/\ndef severityNames : List (String × String) :=\n  [")
	def := ""
	n := 0
	for _, st := range sw.Body.List {
		cc := st.(*ast.CaseClause)
		if len(cc.Body) != 1 {
			die("log: Severity.Name: unexpected case shape")
		}
		r, ok := cc.Body[0].(*ast.ReturnStmt)
		if !ok || len(r.Results) != 1 {
			die("log: Severity.Name: case does not return")
		}
		lit, ok := r.Results[0].(*ast.BasicLit)
		if !ok || lit.Kind != token.STRING {
			die("log: Severity.Name: case does not return a string literal")
		}
		if cc.List == nil {
			def = lit.Value
			continue
		}
		id, ok := cc.List[0].(*ast.Ident)
		if len(cc.List) != 1 || !ok {
			die("log: Severity.Name: unexpected case %s", exprString(fset, cc.List[0]))
		}
		if n > 0 {
			sb.WriteString(", ")
		}
		n++
		fmt.Fprintf(&sb, "(%q, %s)", id.Name, lit.Value)
	}
	if def == "" {
		die("log: Severity.Name: no default clause")
	}
	fmt.Fprintf(&sb, "]\ndef severityNameDefault : String := %s\n", def)
	return sb.String()
}
