package main

func init() { generators["containersrc"] = genContainerSrc }

// genContainerSrc translates the constructors and the loop-free methods of container.Container
// (container/container.go) to Lean: PB.Gen.ContainerSrc. Calls to varint.Pack64 go to its translation.
func genContainerSrc() {
	translateType(typeCfg{
		dir: "container", files: []string{"container.go", "serialization.go"}, typeName: "Container",
		constructors: []string{"NewContainer", "New"},
		methods:      []string{"Append", "AppendNumber", "AppendInt", "AppendAsBlock", "Replace", "checkOffset"},
		extern:       map[string]string{"varint.Pack64": "PB.Gen.VarintSrc.Pack64"},
		imports:      []string{"PB.Gen.VarintSrc"},
		ns:           "PB.Gen.ContainerSrc", outFile: "ContainerSrc.lean",
		header: "/- Constructors and loop-free methods of container.Container translated by harness/cmd/extract/golean.go.\n   A *Container is a value; methods without results return the updated receiver. -/\n",
	})
}
