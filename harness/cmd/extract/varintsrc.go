package main

func init() { generators["varintsrc"] = genVarintSrc }

// genVarintSrc translates every function of formats/varint (varint.go, helpers.go) to Lean.
func genVarintSrc() {
	translatePackage("formats/varint", []string{"varint.go", "helpers.go"},
		[]string{"Pack8", "Pack16", "Pack32", "Pack64", "Unpack8", "Unpack16", "Unpack32", "Unpack64",
			"PrependLength", "GetNextBlock", "EncodedSize"},
		"PB.Gen.VarintSrc", "VarintSrc.lean",
		"/- formats/varint translated function by function by harness/cmd/extract/golean.go.\n   Intrinsics: binary.PutUvarint (via PB.Go.putUvarintInto), binary.Uvarint (PB.Go.uvarint). -/\n")
}
