package main

import (
	"fmt"
	"go/ast"
	"go/parser"
	"go/token"
	"os"
	"path/filepath"
	"sort"
	"strconv"
	"strings"
)

func init() { generators["microtasks"] = genMicroTasks }

// genMicroTasks extracts from modules/microtasks.go the facts the C15 model and theorems are stated over:
//   - the admission guard of microTaskScheduler (comparison operator between the counter and the limit),
//   - SetMaxConcurrentMicroTasks (minimum limit),
//   - the capacity of the microTaskFinished channel,
//   - every atomic.AddInt32 on the global counter / the per-module counter, per function, with its delta,
//   - that the enqueue-timeout path counts and the wait-timeout path does not,
//   - that concludeMicroTask decrements the global counter before it offers the finished token,
//   - the default max delays, and which of Run*/Signal* replace a max delay of 0 by the default,
//   - that concludeMicroTask calls checkIfStopComplete unconditionally between its two decrements, and the
//     comparison checkIfStopComplete (modules/modules.go) applies to the module's microtask counter,
//   - every write to the two counters anywhere in package modules (all non-test files, verif helpers included):
//     a write outside the functions of microtasks.go listed below (any atomic.Store*/Add*/Swap*/CompareAndSwap*,
//     a plain assignment through the pointer, a re-pointing of the counter outside init/initNewModule) is an error,
//   - that the hook lines of the stop protocol the C15 trace relies on are still in place.
//
// It fails closed: any function of the package that touches the counters in a shape not listed here is an error.
func genMicroTasks() {
	fset, f := parseFile("modules/microtasks.go")
	var sb strings.Builder
	sb.WriteString("namespace PB.Gen.MicroTasks\n\n")

	// --- channel capacity and default delays (package-level declarations)
	finCap := ""
	delays := map[string]string{}
	for _, d := range f.Decls {
		gd, ok := d.(*ast.GenDecl)
		if !ok || (gd.Tok != token.VAR && gd.Tok != token.CONST) {
			continue
		}
		for _, sp := range gd.Specs {
			vs := sp.(*ast.ValueSpec)
			for i, n := range vs.Names {
				if i >= len(vs.Values) {
					continue
				}
				switch n.Name {
				case "microTaskFinished":
					ce, ok := vs.Values[i].(*ast.CallExpr)
					if !ok || !mtIsIdent(ce.Fun, "make") || len(ce.Args) != 2 {
						die("microTaskFinished: expected make(chan struct{}, N)")
					}
					if _, ok := ce.Args[0].(*ast.ChanType); !ok {
						die("microTaskFinished: expected a channel")
					}
					finCap = constVal(fset, ce.Args[1]).ExactString()
				case "defaultMediumPriorityMaxDelay", "defaultLowPriorityMaxDelay":
					delays[n.Name] = durationMs(fset, vs.Values[i])
				}
			}
		}
	}
	if finCap == "" || len(delays) != 2 {
		die("microtasks: microTaskFinished / default delays not found")
	}
	fmt.Fprintf(&sb, "/-- capacity of the `microTaskFinished` channel -/\ndef finishedCap : Nat := %s\n\n", finCap)
	fmt.Fprintf(&sb, "def defaultMediumDelayMs : Nat := %s\ndef defaultLowDelayMs : Nat := %s\n\n",
		delays["defaultMediumPriorityMaxDelay"], delays["defaultLowPriorityMaxDelay"])

	// --- SetMaxConcurrentMicroTasks
	fd := findFunc(f, "SetMaxConcurrentMicroTasks", "")
	if fd == nil || len(fd.Body.List) != 1 {
		die("SetMaxConcurrentMicroTasks: unexpected shape")
	}
	ifs, ok := fd.Body.List[0].(*ast.IfStmt)
	if !ok || ifs.Init != nil || ifs.Else == nil {
		die("SetMaxConcurrentMicroTasks: expected if/else")
	}
	cmp, ok := ifs.Cond.(*ast.BinaryExpr)
	if !ok || !mtIsIdent(cmp.X, "n") {
		die("SetMaxConcurrentMicroTasks: condition is not a comparison of n")
	}
	op := leanCmp(cmp.Op)
	thr := constVal(fset, cmp.Y).ExactString()
	thenV := storeArg(fset, ifs.Body, "SetMaxConcurrentMicroTasks then")
	els, ok := ifs.Else.(*ast.BlockStmt)
	if !ok {
		die("SetMaxConcurrentMicroTasks: else is not a block")
	}
	elseV := storeArg(fset, els, "SetMaxConcurrentMicroTasks else")
	fmt.Fprintf(&sb, "/-- `SetMaxConcurrentMicroTasks`: the limit stored for a requested `n` -/\ndef setMax (n : Int) : Int :=\n  if n %s %s then %s else %s\n\n",
		op, thr, thenV, elseV)

	// --- admission guard of the scheduler
	sched := findFunc(f, "microTaskScheduler", "")
	if sched == nil {
		die("microTaskScheduler not found")
	}
	guards := 0
	guardOp := ""
	ast.Inspect(sched.Body, func(n ast.Node) bool {
		is, ok := n.(*ast.IfStmt)
		if !ok {
			return true
		}
		be, ok := is.Cond.(*ast.BinaryExpr)
		if !ok {
			return true
		}
		if isLoadOf(be.X, "microTasks") && isLoadOf(be.Y, "microTasksThreshhold") {
			guards++
			guardOp = leanCmp(be.Op)
		} else if isLoadOf(be.X, "microTasksThreshhold") || isLoadOf(be.Y, "microTasks") {
			die("microTaskScheduler: admission guard has unexpected operand order")
		}
		return true
	})
	if guards != 1 {
		die("microTaskScheduler: expected exactly one admission guard, found %d", guards)
	}
	fmt.Fprintf(&sb, "/-- admission guard of `microTaskScheduler`: is there space for one more microtask? -/\ndef schedSpace (cnt lim : Int) : Bool := decide (cnt %s lim)\n\n", guardOp)

	// --- counter operations per function
	type opT struct{ target, delta string }
	want := map[string][]string{ // function -> expected targets, in source order
		"RunHighPriorityMicroTask":    {"g"},
		"SignalHighPriorityMicroTask": {"g"},
		"runMicroTask":                {"m"},
		"signalMicroTask":             {"m"},
		"concludeMicroTask":           {"m", "g"},
		"microTaskScheduler":          {"g"},
		"microTaskShutdownScheduler":  {"g"},
		"getMediumPriorityClearance":  {"g"},
		"getLowPriorityClearance":     {"g"},
	}
	names := map[string][]string{
		"RunHighPriorityMicroTask":    {"dHighRun"},
		"SignalHighPriorityMicroTask": {"dHighSignal"},
		"runMicroTask":                {"dModRun"},
		"signalMicroTask":             {"dModSignal"},
		"concludeMicroTask":           {"dModConclude", "dConclude"},
		"microTaskScheduler":          {"dSched"},
		"microTaskShutdownScheduler":  {"dShutdownSched"},
		"getMediumPriorityClearance":  {"dTimeoutMedium"},
		"getLowPriorityClearance":     {"dTimeoutLow"},
	}
	for _, d := range f.Decls {
		fn, ok := d.(*ast.FuncDecl)
		if !ok || fn.Body == nil {
			continue
		}
		var ops []opT
		ast.Inspect(fn.Body, func(n ast.Node) bool {
			ce, ok := n.(*ast.CallExpr)
			if !ok {
				return true
			}
			if !isSel(ce.Fun, "atomic", "AddInt32") || len(ce.Args) != 2 {
				if w, tgt := counterWrite(ce); w != "" {
					die("%s: %s on the %s microtask counter (only atomic.AddInt32 is in the model)", fn.Name.Name, w, tgt)
				}
				return true
			}
			t := ""
			switch {
			case mtIsIdent(ce.Args[0], "microTasks"):
				t = "g"
			case isSel(ce.Args[0], "m", "microTaskCnt"):
				t = "m"
			case isCounter(ce.Args[0]) != "":
				die("%s: atomic.AddInt32 on the microtask counter of another module object than the receiver", fn.Name.Name)
			default:
				return true
			}
			ops = append(ops, opT{t, constVal(fset, ce.Args[1]).ExactString()})
			return true
		})
		w, known := want[fn.Name.Name]
		if !known {
			if len(ops) > 0 {
				die("%s: unexpected microtask counter operation (function not in the model)", fn.Name.Name)
			}
			continue
		}
		if len(ops) != len(w) {
			die("%s: expected %d counter operations, found %d", fn.Name.Name, len(w), len(ops))
		}
		for i, o := range ops {
			if o.target != w[i] {
				die("%s: counter operation %d is on %q, expected %q", fn.Name.Name, i, o.target, w[i])
			}
			fmt.Fprintf(&sb, "/-- delta of the `atomic.AddInt32` on the %s counter in `%s` -/\ndef %s : Int := %s\n",
				map[string]string{"g": "global", "m": "per-module"}[o.target], fn.Name.Name, names[fn.Name.Name][i], o.delta)
		}
		delete(want, fn.Name.Name)
	}
	if len(want) != 0 {
		die("microtasks: functions not found: %v", sortedKeys(want))
	}
	sb.WriteString("\n")

	// --- which timeout path counts
	for _, fnName := range []string{"getMediumPriorityClearance", "getLowPriorityClearance"} {
		fn := findFunc(f, fnName, "")
		var selects []*ast.SelectStmt
		for _, st := range fn.Body.List {
			if s, ok := st.(*ast.SelectStmt); ok {
				selects = append(selects, s)
			}
		}
		if len(selects) != 2 {
			die("%s: expected two top-level selects (enqueue, wait), found %d", fnName, len(selects))
		}
		if !hasGlobalAdd(selects[0]) || hasGlobalAdd(selects[1]) {
			die("%s: expected the counter increment in the enqueue-timeout path only", fnName)
		}
	}
	sb.WriteString("/-- the enqueue-timeout path of get*PriorityClearance counts the task itself; the wait-timeout path leaves the increment to the scheduler -/\ndef timeoutEnqueueCounts : Bool := true\ndef timeoutWaitCounts : Bool := false\n\n")

	// --- which API functions replace a max delay of 0 by the documented default
	for _, e := range [][2]string{{"RunMicroTask", "runMediumDefaultsZeroDelay"}, {"RunLowPriorityMicroTask", "runLowDefaultsZeroDelay"},
		{"SignalMicroTask", "signalMediumDefaultsZeroDelay"}, {"SignalLowPriorityMicroTask", "signalLowDefaultsZeroDelay"}} {
		fn := findFunc(f, e[0], "Module")
		if fn == nil {
			die("%s not found", e[0])
		}
		defaults := 0
		ast.Inspect(fn.Body, func(n ast.Node) bool {
			is, ok := n.(*ast.IfStmt)
			if !ok {
				return true
			}
			be, ok := is.Cond.(*ast.BinaryExpr)
			if !ok || !mtIsIdent(be.X, "maxDelay") {
				return true
			}
			// the only recognised shape: if maxDelay <= 0 { maxDelay = default…MaxDelay }
			okShape := be.Op == token.LEQ && constVal(fset, be.Y).ExactString() == "0" && is.Else == nil && len(is.Body.List) == 1
			if okShape {
				as, ok := is.Body.List[0].(*ast.AssignStmt)
				okShape = ok && len(as.Lhs) == 1 && len(as.Rhs) == 1 && mtIsIdent(as.Lhs[0], "maxDelay") &&
					(mtIsIdent(as.Rhs[0], "defaultMediumPriorityMaxDelay") || mtIsIdent(as.Rhs[0], "defaultLowPriorityMaxDelay"))
			}
			if !okShape {
				die("%s: unrecognised condition on maxDelay", e[0])
			}
			defaults++
			return true
		})
		if defaults > 1 {
			die("%s: more than one default-delay statement", e[0])
		}
		fmt.Fprintf(&sb, "/-- does `%s` replace a max delay ≤ 0 by the default before waiting for a clearance? -/\ndef %s : Bool := %v\n", e[0], e[1], defaults == 1)
	}
	sb.WriteString("\n")

	// --- concludeMicroTask: decrement before the finished token is offered
	con := findFunc(f, "concludeMicroTask", "Module")
	decIdx, tokIdx := -1, -1
	for i, st := range con.Body.List {
		if es, ok := st.(*ast.ExprStmt); ok {
			if ce, ok := es.X.(*ast.CallExpr); ok && isSel(ce.Fun, "atomic", "AddInt32") && mtIsIdent(ce.Args[0], "microTasks") {
				decIdx = i
			}
		}
		if s, ok := st.(*ast.SelectStmt); ok {
			sends, def := 0, false
			for _, c := range s.Body.List {
				cc := c.(*ast.CommClause)
				if cc.Comm == nil {
					def = true
				} else if ss, ok := cc.Comm.(*ast.SendStmt); ok && mtIsIdent(ss.Chan, "microTaskFinished") {
					sends++
				}
			}
			if sends == 1 && def {
				tokIdx = i
			}
		}
	}
	if decIdx < 0 || tokIdx < 0 {
		die("concludeMicroTask: decrement / non-blocking finished-token send not found")
	}
	fmt.Fprintf(&sb, "/-- `concludeMicroTask` decrements the global counter before it offers the finished token (non-blocking send) -/\ndef tokenAfterDec : Bool := %v\n\n", decIdx < tokIdx)

	// --- concludeMicroTask: the stop check, unconditional, after the module decrement and before the global one
	modDecIdx, chkIdx, chkCalls := -1, -1, 0
	for i, st := range con.Body.List {
		ast.Inspect(st, func(n ast.Node) bool {
			ce, ok := n.(*ast.CallExpr)
			if !ok {
				return true
			}
			if isSel(ce.Fun, "atomic", "AddInt32") && len(ce.Args) == 2 && isCounter(ce.Args[0]) == "per-module" {
				modDecIdx = i
			}
			if se, ok := ce.Fun.(*ast.SelectorExpr); ok && se.Sel.Name == "checkIfStopComplete" {
				chkCalls++
			}
			return true
		})
		if es, ok := st.(*ast.ExprStmt); ok {
			if ce, ok := es.X.(*ast.CallExpr); ok && isSel(ce.Fun, "m", "checkIfStopComplete") && len(ce.Args) == 0 {
				chkIdx = i
			}
		}
	}
	fmt.Fprintf(&sb, "/-- `concludeMicroTask` calls `m.checkIfStopComplete()` exactly once, unconditionally, after the module decrement and before the global decrement -/\ndef concludeChecksStop : Bool := %v\n\n",
		chkCalls == 1 && modDecIdx >= 0 && modDecIdx < chkIdx && chkIdx < decIdx)

	// --- checkIfStopComplete (modules/modules.go): the comparison applied to the module's microtask counter
	mfset, mf := parseFile("modules/modules.go")
	chk := findFunc(mf, "checkIfStopComplete", "Module")
	if chk == nil {
		die("checkIfStopComplete not found in modules/modules.go")
	}
	var conds []*ast.BinaryExpr
	loads := 0
	ast.Inspect(chk.Body, func(n ast.Node) bool {
		switch x := n.(type) {
		case *ast.CallExpr:
			if isSel(x.Fun, "atomic", "LoadInt32") && len(x.Args) == 1 && isCounter(x.Args[0]) == "per-module" {
				loads++
			}
		case *ast.IfStmt:
			var flat func(e ast.Expr)
			flat = func(e ast.Expr) {
				if p, ok := e.(*ast.ParenExpr); ok {
					flat(p.X)
					return
				}
				if be, ok := e.(*ast.BinaryExpr); ok {
					if be.Op == token.LAND {
						flat(be.X)
						flat(be.Y)
						return
					}
					if ce, ok := be.X.(*ast.CallExpr); ok && isSel(ce.Fun, "atomic", "LoadInt32") && len(ce.Args) == 1 && isSel(ce.Args[0], "m", "microTaskCnt") {
						conds = append(conds, be)
					}
				}
			}
			flat(x.Cond)
		}
		return true
	})
	if len(conds) != 1 || loads != 1 {
		die("checkIfStopComplete: expected exactly one conjunct `atomic.LoadInt32(m.microTaskCnt) <op> <const>` (found %d conjuncts, %d loads of the counter)", len(conds), loads)
	}
	fmt.Fprintf(&sb, "/-- the condition `checkIfStopComplete` puts on the module's microtask counter (a conjunct of its completion test) -/\ndef stopCheckMicro (cnt : Int) : Bool := decide (cnt %s %s)\n\n",
		leanCmp(conds[0].Op), constVal(mfset, conds[0].Y).ExactString())

	// --- every write to the counters in the whole package
	files, err := filepath.Glob(filepath.Join(repo, "modules", "*.go"))
	if err != nil || len(files) == 0 {
		die("modules/*.go: %v", err)
	}
	sort.Strings(files)
	nFiles := 0
	for _, path := range files {
		if strings.HasSuffix(path, "_test.go") {
			continue
		}
		nFiles++
		base := filepath.Base(path)
		pfset := token.NewFileSet()
		src, err := os.ReadFile(path)
		if err != nil {
			die("%v", err)
		}
		pf, err := parser.ParseFile(pfset, path, src, 0)
		if err != nil {
			die("parse %s: %v", base, err)
		}
		for _, d := range pf.Decls {
			fn, ok := d.(*ast.FuncDecl)
			if !ok || fn.Body == nil {
				continue
			}
			where := base + ":" + fn.Name.Name
			ast.Inspect(fn.Body, func(n ast.Node) bool {
				switch x := n.(type) {
				case *ast.CallExpr:
					if w, tgt := counterWrite(x); w != "" && base != "microtasks.go" {
						// the functions of microtasks.go are checked one by one above
						die("%s: %s on the %s microtask counter outside modules/microtasks.go (not in the model)", where, w, tgt)
					}
					if isSel(x.Fun, "atomic", "AddInt32") && len(x.Args) == 2 && isCounter(x.Args[0]) != "" && base != "microtasks.go" {
						die("%s: atomic.AddInt32 on the %s microtask counter outside modules/microtasks.go (not in the model)", where, isCounter(x.Args[0]))
					}
				case *ast.AssignStmt:
					for _, l := range x.Lhs {
						if st, ok := l.(*ast.StarExpr); ok && isCounter(st.X) != "" {
							die("%s: plain assignment to the %s microtask counter", where, isCounter(st.X))
						}
						if c := isCounter(l); c != "" && !(base == "microtasks.go" && fn.Name.Name == "init") {
							die("%s: the %s microtask counter is re-pointed", where, c)
						}
					}
				case *ast.IncDecStmt:
					if st, ok := x.X.(*ast.StarExpr); ok && isCounter(st.X) != "" {
						die("%s: plain %s on the %s microtask counter", where, x.Tok, isCounter(st.X))
					}
				case *ast.UnaryExpr:
					// taking the address of the pointer variable itself would allow writes we cannot see
					if x.Op == token.AND && isCounter(x.X) != "" {
						die("%s: address of the %s microtask counter variable taken", where, isCounter(x.X))
					}
				}
				return true
			})
		}
	}
	fmt.Fprintf(&sb, "/-- non-test files of package modules scanned for writes to the two counters; none outside the modelled functions of microtasks.go -/\ndef counterWritersScannedFiles : Nat := %d\ndef counterWritesOutsideModel : Nat := 0\n\n", nFiles)

	// --- hook lines of the stop protocol the C15 trace relies on (bracket around the module counter operations,
	// the stop check's read of the counter, the stop/start steps)
	need := map[string][]string{
		"modules/microtasks.go": {`verifEvent("pre:inc:m", m.Name)`, `verifEvent("pre:dec:m", m.Name)`, `verifEvent("post", m.Name)`},
		"modules/modules.go": {`verifEvent("pre:cFast", m.Name)`, `verifTrue("mid:cM", m.Name)`, `verifEvent("mid:cCas", m.Name)`, `verifEvent("post:fail", m.Name)`,
			`verifEvent("pre:stopBegin", m.Name)`, `verifEvent("pre:sFlag", m.Name)`, `verifEvent("ev:sWake", m.Name)`, `verifEvent("ev:sTimeout", m.Name)`,
			`verifEvent("pre:sOffline", m.Name)`, `verifEvent("pre:startBegin", m.Name)`},
	}
	for _, rel := range sortedKeys(need) {
		src, err := os.ReadFile(filepath.Join(repo, rel))
		if err != nil {
			die("%v", err)
		}
		for _, h := range need[rel] {
			if !strings.Contains(string(src), h) {
				die("%s: hook line %s not found (the C15 trace of the module counter / stop protocol needs it)", rel, h)
			}
		}
	}

	sb.WriteString("end PB.Gen.MicroTasks\n")
	write("MicroTasks.lean", sb.String())
}

// isCounter says whether e denotes one of the two counters: "global" for the package variable microTasks,
// "per-module" for <anything>.microTaskCnt, "" otherwise.
func isCounter(e ast.Expr) string {
	if p, ok := e.(*ast.ParenExpr); ok {
		return isCounter(p.X)
	}
	if mtIsIdent(e, "microTasks") {
		return "global"
	}
	if s, ok := e.(*ast.SelectorExpr); ok && s.Sel.Name == "microTaskCnt" {
		return "per-module"
	}
	return ""
}

// counterWrite recognises a call of package atomic other than a Load* and other than AddInt32 whose first argument
// is one of the counters; it returns the function name and the counter ("" if it is none).
func counterWrite(ce *ast.CallExpr) (string, string) {
	se, ok := ce.Fun.(*ast.SelectorExpr)
	if !ok || !mtIsIdent(se.X, "atomic") || len(ce.Args) == 0 {
		return "", ""
	}
	if strings.HasPrefix(se.Sel.Name, "Load") || se.Sel.Name == "AddInt32" {
		return "", ""
	}
	if c := isCounter(ce.Args[0]); c != "" {
		return "atomic." + se.Sel.Name, c
	}
	return "", ""
}

func mtIsIdent(e ast.Expr, name string) bool {
	id, ok := e.(*ast.Ident)
	return ok && id.Name == name
}

func isSel(e ast.Expr, x, sel string) bool {
	s, ok := e.(*ast.SelectorExpr)
	return ok && mtIsIdent(s.X, x) && s.Sel.Name == sel
}

func isLoadOf(e ast.Expr, v string) bool {
	ce, ok := e.(*ast.CallExpr)
	return ok && isSel(ce.Fun, "atomic", "LoadInt32") && len(ce.Args) == 1 && mtIsIdent(ce.Args[0], v)
}

func leanCmp(op token.Token) string {
	switch op {
	case token.LSS:
		return "<"
	case token.LEQ:
		return "≤"
	case token.GTR:
		return ">"
	case token.GEQ:
		return "≥"
	case token.EQL:
		return "="
	case token.NEQ:
		return "≠"
	}
	die("unsupported comparison operator %s", op)
	return ""
}

// storeArg returns the value stored by the single `atomic.StoreInt32(microTasksThreshhold, v)` of a block:
// a constant, or "n" for `int32(n)`.
func storeArg(fset *token.FileSet, b *ast.BlockStmt, where string) string {
	if len(b.List) != 1 {
		die("%s: expected one statement", where)
	}
	es, ok := b.List[0].(*ast.ExprStmt)
	if !ok {
		die("%s: expected a call", where)
	}
	ce, ok := es.X.(*ast.CallExpr)
	if !ok || !isSel(ce.Fun, "atomic", "StoreInt32") || len(ce.Args) != 2 || !mtIsIdent(ce.Args[0], "microTasksThreshhold") {
		die("%s: expected atomic.StoreInt32(microTasksThreshhold, …)", where)
	}
	if conv, ok := ce.Args[1].(*ast.CallExpr); ok && mtIsIdent(conv.Fun, "int32") && len(conv.Args) == 1 && mtIsIdent(conv.Args[0], "n") {
		return "n"
	}
	return constVal(fset, ce.Args[1]).ExactString()
}

// durationMs evaluates `K * time.Second|Millisecond` to milliseconds.
func durationMs(fset *token.FileSet, e ast.Expr) string {
	be, ok := e.(*ast.BinaryExpr)
	if !ok || be.Op != token.MUL {
		die("duration: expected K * time.Unit, got %s", exprString(fset, e))
	}
	k, err := strconv.Atoi(constVal(fset, be.X).ExactString())
	if err != nil {
		die("duration: factor is not an integer: %s", exprString(fset, be.X))
	}
	switch {
	case isSel(be.Y, "time", "Second"):
		return strconv.Itoa(k * 1000)
	case isSel(be.Y, "time", "Millisecond"):
		return strconv.Itoa(k)
	}
	die("duration: unsupported unit in %s", exprString(fset, e))
	return ""
}

func hasGlobalAdd(n ast.Node) bool {
	found := false
	ast.Inspect(n, func(x ast.Node) bool {
		if ce, ok := x.(*ast.CallExpr); ok && isSel(ce.Fun, "atomic", "AddInt32") && len(ce.Args) == 2 && mtIsIdent(ce.Args[0], "microTasks") {
			found = true
		}
		return true
	})
	return found
}
