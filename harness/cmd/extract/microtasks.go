package main

import (
	"fmt"
	"go/ast"
	"go/token"
	"strconv"
	"strings"
)

func init() { generators["microtasks"] = genMicroTasks }

// genMicroTasks extracts from modules/microtasks.go the facts the C15 model and theorems are stated over:
//   - the admission guard of microTaskScheduler (comparison operator between the counter and the limit),
//   - SetMaxConcurrentMicroTasks (minimum limit),
//   - the capacity of the microTaskFinished channel,
//   - every atomic.AddInt32 on the global counter / the per-module counter, per function, with its delta,
//   - that the enqueue-timeout path counts and the wait-timeout path does not,
//   - that concludeMicroTask decrements the global counter before it offers the finished token,
//   - the default max delays, and which of Run*/Signal* replace a max delay of 0 by the default.
//
// It fails closed: any function of the file that touches the counters in a shape not listed here is an error.
func genMicroTasks() {
	fset, f := parseFile("modules/microtasks.go")
	var sb strings.Builder
	sb.WriteString("namespace PB.Gen.MicroTasks\n\n")

	// --- channel capacity and default delays (package-level declarations)
	finCap := ""
	delays := map[string]string{}
	for _, d := range f.Decls {
		gd, ok := d.(*ast.GenDecl)
		if !ok || (gd.Tok != token.VAR && gd.Tok != token.CONST) {
			continue
		}
		for _, sp := range gd.Specs {
			vs := sp.(*ast.ValueSpec)
			for i, n := range vs.Names {
				if i >= len(vs.Values) {
					continue
				}
				switch n.Name {
				case "microTaskFinished":
					ce, ok := vs.Values[i].(*ast.CallExpr)
					if !ok || !mtIsIdent(ce.Fun, "make") || len(ce.Args) != 2 {
						die("microTaskFinished: expected make(chan struct{}, N)")
					}
					if _, ok := ce.Args[0].(*ast.ChanType); !ok {
						die("microTaskFinished: expected a channel")
					}
					finCap = constVal(fset, ce.Args[1]).ExactString()
				case "defaultMediumPriorityMaxDelay", "defaultLowPriorityMaxDelay":
					delays[n.Name] = durationMs(fset, vs.Values[i])
				}
			}
		}
	}
	if finCap == "" || len(delays) != 2 {
		die("microtasks: microTaskFinished / default delays not found")
	}
	fmt.Fprintf(&sb, "/-- capacity of the `microTaskFinished` channel -/\ndef finishedCap : Nat := %s\n\n", finCap)
	fmt.Fprintf(&sb, "def defaultMediumDelayMs : Nat := %s\ndef defaultLowDelayMs : Nat := %s\n\n",
		delays["defaultMediumPriorityMaxDelay"], delays["defaultLowPriorityMaxDelay"])

	// --- SetMaxConcurrentMicroTasks
	fd := findFunc(f, "SetMaxConcurrentMicroTasks", "")
	if fd == nil || len(fd.Body.List) != 1 {
		die("SetMaxConcurrentMicroTasks: unexpected shape")
	}
	ifs, ok := fd.Body.List[0].(*ast.IfStmt)
	if !ok || ifs.Init != nil || ifs.Else == nil {
		die("SetMaxConcurrentMicroTasks: expected if/else")
	}
	cmp, ok := ifs.Cond.(*ast.BinaryExpr)
	if !ok || !mtIsIdent(cmp.X, "n") {
		die("SetMaxConcurrentMicroTasks: condition is not a comparison of n")
	}
	op := leanCmp(cmp.Op)
	thr := constVal(fset, cmp.Y).ExactString()
	thenV := storeArg(fset, ifs.Body, "SetMaxConcurrentMicroTasks then")
	els, ok := ifs.Else.(*ast.BlockStmt)
	if !ok {
		die("SetMaxConcurrentMicroTasks: else is not a block")
	}
	elseV := storeArg(fset, els, "SetMaxConcurrentMicroTasks else")
	fmt.Fprintf(&sb, "/-- `SetMaxConcurrentMicroTasks`: the limit stored for a requested `n` -/\ndef setMax (n : Int) : Int :=\n  if n %s %s then %s else %s\n\n",
		op, thr, thenV, elseV)

	// --- admission guard of the scheduler
	sched := findFunc(f, "microTaskScheduler", "")
	if sched == nil {
		die("microTaskScheduler not found")
	}
	guards := 0
	guardOp := ""
	ast.Inspect(sched.Body, func(n ast.Node) bool {
		is, ok := n.(*ast.IfStmt)
		if !ok {
			return true
		}
		be, ok := is.Cond.(*ast.BinaryExpr)
		if !ok {
			return true
		}
		if isLoadOf(be.X, "microTasks") && isLoadOf(be.Y, "microTasksThreshhold") {
			guards++
			guardOp = leanCmp(be.Op)
		} else if isLoadOf(be.X, "microTasksThreshhold") || isLoadOf(be.Y, "microTasks") {
			die("microTaskScheduler: admission guard has unexpected operand order")
		}
		return true
	})
	if guards != 1 {
		die("microTaskScheduler: expected exactly one admission guard, found %d", guards)
	}
	fmt.Fprintf(&sb, "/-- admission guard of `microTaskScheduler`: is there space for one more microtask? -/\ndef schedSpace (cnt lim : Int) : Bool := decide (cnt %s lim)\n\n", guardOp)

	// --- counter operations per function
	type opT struct{ target, delta string }
	want := map[string][]string{ // function -> expected targets, in source order
		"RunHighPriorityMicroTask":    {"g"},
		"SignalHighPriorityMicroTask": {"g"},
		"runMicroTask":                {"m"},
		"signalMicroTask":             {"m"},
		"concludeMicroTask":           {"m", "g"},
		"microTaskScheduler":          {"g"},
		"microTaskShutdownScheduler":  {"g"},
		"getMediumPriorityClearance":  {"g"},
		"getLowPriorityClearance":     {"g"},
	}
	names := map[string][]string{
		"RunHighPriorityMicroTask":    {"dHighRun"},
		"SignalHighPriorityMicroTask": {"dHighSignal"},
		"runMicroTask":                {"dModRun"},
		"signalMicroTask":             {"dModSignal"},
		"concludeMicroTask":           {"dModConclude", "dConclude"},
		"microTaskScheduler":          {"dSched"},
		"microTaskShutdownScheduler":  {"dShutdownSched"},
		"getMediumPriorityClearance":  {"dTimeoutMedium"},
		"getLowPriorityClearance":     {"dTimeoutLow"},
	}
	for _, d := range f.Decls {
		fn, ok := d.(*ast.FuncDecl)
		if !ok || fn.Body == nil {
			continue
		}
		var ops []opT
		ast.Inspect(fn.Body, func(n ast.Node) bool {
			ce, ok := n.(*ast.CallExpr)
			if !ok {
				return true
			}
			if !isSel(ce.Fun, "atomic", "AddInt32") || len(ce.Args) != 2 {
				if isSel(ce.Fun, "atomic", "StoreInt32") && len(ce.Args) == 2 && mtIsIdent(ce.Args[0], "microTasks") {
					die("%s: stores to the global microtask counter", fn.Name.Name)
				}
				return true
			}
			t := ""
			switch {
			case mtIsIdent(ce.Args[0], "microTasks"):
				t = "g"
			case isSel(ce.Args[0], "m", "microTaskCnt"):
				t = "m"
			default:
				return true
			}
			ops = append(ops, opT{t, constVal(fset, ce.Args[1]).ExactString()})
			return true
		})
		w, known := want[fn.Name.Name]
		if !known {
			if len(ops) > 0 {
				die("%s: unexpected microtask counter operation (function not in the model)", fn.Name.Name)
			}
			continue
		}
		if len(ops) != len(w) {
			die("%s: expected %d counter operations, found %d", fn.Name.Name, len(w), len(ops))
		}
		for i, o := range ops {
			if o.target != w[i] {
				die("%s: counter operation %d is on %q, expected %q", fn.Name.Name, i, o.target, w[i])
			}
			fmt.Fprintf(&sb, "/-- delta of the `atomic.AddInt32` on the %s counter in `%s` -/\ndef %s : Int := %s\n",
				map[string]string{"g": "global", "m": "per-module"}[o.target], fn.Name.Name, names[fn.Name.Name][i], o.delta)
		}
		delete(want, fn.Name.Name)
	}
	if len(want) != 0 {
		die("microtasks: functions not found: %v", sortedKeys(want))
	}
	sb.WriteString("\n")

	// --- which timeout path counts
	for _, fnName := range []string{"getMediumPriorityClearance", "getLowPriorityClearance"} {
		fn := findFunc(f, fnName, "")
		var selects []*ast.SelectStmt
		for _, st := range fn.Body.List {
			if s, ok := st.(*ast.SelectStmt); ok {
				selects = append(selects, s)
			}
		}
		if len(selects) != 2 {
			die("%s: expected two top-level selects (enqueue, wait), found %d", fnName, len(selects))
		}
		if !hasGlobalAdd(selects[0]) || hasGlobalAdd(selects[1]) {
			die("%s: expected the counter increment in the enqueue-timeout path only", fnName)
		}
	}
	sb.WriteString("/-- the enqueue-timeout path of get*PriorityClearance counts the task itself; the wait-timeout path leaves the increment to the scheduler -/\ndef timeoutEnqueueCounts : Bool := true\ndef timeoutWaitCounts : Bool := false\n\n")

	// --- which API functions replace a max delay of 0 by the documented default
	for _, e := range [][2]string{{"RunMicroTask", "runMediumDefaultsZeroDelay"}, {"RunLowPriorityMicroTask", "runLowDefaultsZeroDelay"},
		{"SignalMicroTask", "signalMediumDefaultsZeroDelay"}, {"SignalLowPriorityMicroTask", "signalLowDefaultsZeroDelay"}} {
		fn := findFunc(f, e[0], "Module")
		if fn == nil {
			die("%s not found", e[0])
		}
		defaults := 0
		ast.Inspect(fn.Body, func(n ast.Node) bool {
			is, ok := n.(*ast.IfStmt)
			if !ok {
				return true
			}
			be, ok := is.Cond.(*ast.BinaryExpr)
			if !ok || !mtIsIdent(be.X, "maxDelay") {
				return true
			}
			// the only recognised shape: if maxDelay <= 0 { maxDelay = default…MaxDelay }
			okShape := be.Op == token.LEQ && constVal(fset, be.Y).ExactString() == "0" && is.Else == nil && len(is.Body.List) == 1
			if okShape {
				as, ok := is.Body.List[0].(*ast.AssignStmt)
				okShape = ok && len(as.Lhs) == 1 && len(as.Rhs) == 1 && mtIsIdent(as.Lhs[0], "maxDelay") &&
					(mtIsIdent(as.Rhs[0], "defaultMediumPriorityMaxDelay") || mtIsIdent(as.Rhs[0], "defaultLowPriorityMaxDelay"))
			}
			if !okShape {
				die("%s: unrecognised condition on maxDelay", e[0])
			}
			defaults++
			return true
		})
		if defaults > 1 {
			die("%s: more than one default-delay statement", e[0])
		}
		fmt.Fprintf(&sb, "/-- does `%s` replace a max delay ≤ 0 by the default before waiting for a clearance? -/\ndef %s : Bool := %v\n", e[0], e[1], defaults == 1)
	}
	sb.WriteString("\n")

	// --- concludeMicroTask: decrement before the finished token is offered
	con := findFunc(f, "concludeMicroTask", "Module")
	decIdx, tokIdx := -1, -1
	for i, st := range con.Body.List {
		if es, ok := st.(*ast.ExprStmt); ok {
			if ce, ok := es.X.(*ast.CallExpr); ok && isSel(ce.Fun, "atomic", "AddInt32") && mtIsIdent(ce.Args[0], "microTasks") {
				decIdx = i
			}
		}
		if s, ok := st.(*ast.SelectStmt); ok {
			sends, def := 0, false
			for _, c := range s.Body.List {
				cc := c.(*ast.CommClause)
				if cc.Comm == nil {
					def = true
				} else if ss, ok := cc.Comm.(*ast.SendStmt); ok && mtIsIdent(ss.Chan, "microTaskFinished") {
					sends++
				}
			}
			if sends == 1 && def {
				tokIdx = i
			}
		}
	}
	if decIdx < 0 || tokIdx < 0 {
		die("concludeMicroTask: decrement / non-blocking finished-token send not found")
	}
	fmt.Fprintf(&sb, "/-- `concludeMicroTask` decrements the global counter before it offers the finished token (non-blocking send) -/\ndef tokenAfterDec : Bool := %v\n\n", decIdx < tokIdx)

	sb.WriteString("end PB.Gen.MicroTasks\n")
	write("MicroTasks.lean", sb.String())
}

func mtIsIdent(e ast.Expr, name string) bool {
	id, ok := e.(*ast.Ident)
	return ok && id.Name == name
}

func isSel(e ast.Expr, x, sel string) bool {
	s, ok := e.(*ast.SelectorExpr)
	return ok && mtIsIdent(s.X, x) && s.Sel.Name == sel
}

func isLoadOf(e ast.Expr, v string) bool {
	ce, ok := e.(*ast.CallExpr)
	return ok && isSel(ce.Fun, "atomic", "LoadInt32") && len(ce.Args) == 1 && mtIsIdent(ce.Args[0], v)
}

func leanCmp(op token.Token) string {
	switch op {
	case token.LSS:
		return "<"
	case token.LEQ:
		return "≤"
	case token.GTR:
		return ">"
	case token.GEQ:
		return "≥"
	case token.EQL:
		return "="
	case token.NEQ:
		return "≠"
	}
	die("unsupported comparison operator %s", op)
	return ""
}

// storeArg returns the value stored by the single `atomic.StoreInt32(microTasksThreshhold, v)` of a block:
// a constant, or "n" for `int32(n)`.
func storeArg(fset *token.FileSet, b *ast.BlockStmt, where string) string {
	if len(b.List) != 1 {
		die("%s: expected one statement", where)
	}
	es, ok := b.List[0].(*ast.ExprStmt)
	if !ok {
		die("%s: expected a call", where)
	}
	ce, ok := es.X.(*ast.CallExpr)
	if !ok || !isSel(ce.Fun, "atomic", "StoreInt32") || len(ce.Args) != 2 || !mtIsIdent(ce.Args[0], "microTasksThreshhold") {
		die("%s: expected atomic.StoreInt32(microTasksThreshhold, …)", where)
	}
	if conv, ok := ce.Args[1].(*ast.CallExpr); ok && mtIsIdent(conv.Fun, "int32") && len(conv.Args) == 1 && mtIsIdent(conv.Args[0], "n") {
		return "n"
	}
	return constVal(fset, ce.Args[1]).ExactString()
}

// durationMs evaluates `K * time.Second|Millisecond` to milliseconds.
func durationMs(fset *token.FileSet, e ast.Expr) string {
	be, ok := e.(*ast.BinaryExpr)
	if !ok || be.Op != token.MUL {
		die("duration: expected K * time.Unit, got %s", exprString(fset, e))
	}
	k, err := strconv.Atoi(constVal(fset, be.X).ExactString())
	if err != nil {
		die("duration: factor is not an integer: %s", exprString(fset, be.X))
	}
	switch {
	case isSel(be.Y, "time", "Second"):
		return strconv.Itoa(k * 1000)
	case isSel(be.Y, "time", "Millisecond"):
		return strconv.Itoa(k)
	}
	die("duration: unsupported unit in %s", exprString(fset, e))
	return ""
}

func hasGlobalAdd(n ast.Node) bool {
	found := false
	ast.Inspect(n, func(x ast.Node) bool {
		if ce, ok := x.(*ast.CallExpr); ok && isSel(ce.Fun, "atomic", "AddInt32") && len(ce.Args) == 2 && mtIsIdent(ce.Args[0], "microTasks") {
			found = true
		}
		return true
	})
	return found
}
