package main

import (
	"fmt"
	"go/ast"
	"go/parser"
	"go/token"
	"os"
	"path/filepath"
	"sort"
	"strconv"
	"strings"
)

func init() { generators["microtasks"] = genMicroTasks }

// genMicroTasks extracts from modules/microtasks.go the facts the C15 model and theorems are stated over:
//   - the admission guard of microTaskScheduler (comparison operator between the counter and the limit),
//   - SetMaxConcurrentMicroTasks (minimum limit),
//   - the capacity of the microTaskFinished channel,
//   - every atomic.AddInt32 on the global counter / the per-module counter, per function, with its delta,
//   - that the enqueue-timeout path counts and the wait-timeout path does not,
//   - that concludeMicroTask decrements the global counter before it offers the finished token,
//   - the default max delays, and which of Run*/Signal* replace a max delay of 0 by the default,
//   - that concludeMicroTask calls checkIfStopComplete unconditionally between its two decrements, and the
//     comparison checkIfStopComplete (modules/modules.go) applies to the module's microtask counter,
//   - every write to the two counters anywhere in package modules (all non-test files, verif helpers included):
//     a write outside the functions of microtasks.go listed below (any atomic.Store*/Add*/Swap*/CompareAndSwap*,
//     a plain assignment through the pointer, a re-pointing of the counter outside init/initNewModule) is an error,
//   - that the hook lines of the stop protocol the C15 trace relies on are still in place.
//   - what each of the four max-delay timers of get{Medium,Low}PriorityClearance is armed with, what the Run*/Signal*/
//     Start* functions do with their maxDelay argument on its way there, and the flow of the function's error through
//     runMicroTask and the Run* variants to the caller (mtTimersAndErrors below).
//
// It fails closed: any function of the package that touches the counters in a shape not listed here is an error.
func genMicroTasks() {
	fset, f := parseFile("modules/microtasks.go")
	var sb strings.Builder
	sb.WriteString("namespace PB.Gen.MicroTasks\n\n")

	// --- channel capacity and default delays (package-level declarations)
	finCap := ""
	delays := map[string]string{}
	for _, d := range f.Decls {
		gd, ok := d.(*ast.GenDecl)
		if !ok || (gd.Tok != token.VAR && gd.Tok != token.CONST) {
			continue
		}
		for _, sp := range gd.Specs {
			vs := sp.(*ast.ValueSpec)
			for i, n := range vs.Names {
				if i >= len(vs.Values) {
					continue
				}
				switch n.Name {
				case "microTaskFinished":
					ce, ok := vs.Values[i].(*ast.CallExpr)
					if !ok || !mtIsIdent(ce.Fun, "make") || len(ce.Args) != 2 {
						die("microTaskFinished: expected make(chan struct{}, N)")
					}
					if _, ok := ce.Args[0].(*ast.ChanType); !ok {
						die("microTaskFinished: expected a channel")
					}
					finCap = constVal(fset, ce.Args[1]).ExactString()
				case "defaultMediumPriorityMaxDelay", "defaultLowPriorityMaxDelay":
					delays[n.Name] = durationMs(fset, vs.Values[i])
				}
			}
		}
	}
	if finCap == "" || len(delays) != 2 {
		die("microtasks: microTaskFinished / default delays not found")
	}
	fmt.Fprintf(&sb, "/-- capacity of the `microTaskFinished` channel -/\ndef finishedCap : Nat := %s\n\n", finCap)
	fmt.Fprintf(&sb, "def defaultMediumDelayMs : Nat := %s\ndef defaultLowDelayMs : Nat := %s\n\n",
		delays["defaultMediumPriorityMaxDelay"], delays["defaultLowPriorityMaxDelay"])

	// --- SetMaxConcurrentMicroTasks
	fd := findFunc(f, "SetMaxConcurrentMicroTasks", "")
	if fd == nil || len(fd.Body.List) != 1 {
		die("SetMaxConcurrentMicroTasks: unexpected shape")
	}
	ifs, ok := fd.Body.List[0].(*ast.IfStmt)
	if !ok || ifs.Init != nil || ifs.Else == nil {
		die("SetMaxConcurrentMicroTasks: expected if/else")
	}
	cmp, ok := ifs.Cond.(*ast.BinaryExpr)
	if !ok || !mtIsIdent(cmp.X, "n") {
		die("SetMaxConcurrentMicroTasks: condition is not a comparison of n")
	}
	op := leanCmp(cmp.Op)
	thr := constVal(fset, cmp.Y).ExactString()
	thenV := storeArg(fset, ifs.Body, "SetMaxConcurrentMicroTasks then")
	els, ok := ifs.Else.(*ast.BlockStmt)
	if !ok {
		die("SetMaxConcurrentMicroTasks: else is not a block")
	}
	elseV := storeArg(fset, els, "SetMaxConcurrentMicroTasks else")
	fmt.Fprintf(&sb, "/-- `SetMaxConcurrentMicroTasks`: the limit stored for a requested `n` -/\ndef setMax (n : Int) : Int :=\n  if n %s %s then %s else %s\n\n",
		op, thr, thenV, elseV)

	// --- admission guard of the scheduler
	sched := findFunc(f, "microTaskScheduler", "")
	if sched == nil {
		die("microTaskScheduler not found")
	}
	guards := 0
	guardOp := ""
	ast.Inspect(sched.Body, func(n ast.Node) bool {
		is, ok := n.(*ast.IfStmt)
		if !ok {
			return true
		}
		be, ok := is.Cond.(*ast.BinaryExpr)
		if !ok {
			return true
		}
		if isLoadOf(be.X, "microTasks") && isLoadOf(be.Y, "microTasksThreshhold") {
			guards++
			guardOp = leanCmp(be.Op)
		} else if isLoadOf(be.X, "microTasksThreshhold") || isLoadOf(be.Y, "microTasks") {
			die("microTaskScheduler: admission guard has unexpected operand order")
		}
		return true
	})
	if guards != 1 {
		die("microTaskScheduler: expected exactly one admission guard, found %d", guards)
	}
	fmt.Fprintf(&sb, "/-- admission guard of `microTaskScheduler`: is there space for one more microtask? -/\ndef schedSpace (cnt lim : Int) : Bool := decide (cnt %s lim)\n\n", guardOp)

	// --- counter operations per function
	type opT struct{ target, delta string }
	want := map[string][]string{ // function -> expected targets, in source order
		"RunHighPriorityMicroTask":    {"g"},
		"SignalHighPriorityMicroTask": {"g"},
		"runMicroTask":                {"m"},
		"signalMicroTask":             {"m"},
		"concludeMicroTask":           {"m", "g"},
		"microTaskScheduler":          {"g"},
		"microTaskShutdownScheduler":  {"g"},
		"getMediumPriorityClearance":  {"g"},
		"getLowPriorityClearance":     {"g"},
	}
	names := map[string][]string{
		"RunHighPriorityMicroTask":    {"dHighRun"},
		"SignalHighPriorityMicroTask": {"dHighSignal"},
		"runMicroTask":                {"dModRun"},
		"signalMicroTask":             {"dModSignal"},
		"concludeMicroTask":           {"dModConclude", "dConclude"},
		"microTaskScheduler":          {"dSched"},
		"microTaskShutdownScheduler":  {"dShutdownSched"},
		"getMediumPriorityClearance":  {"dTimeoutMedium"},
		"getLowPriorityClearance":     {"dTimeoutLow"},
	}
	for _, d := range f.Decls {
		fn, ok := d.(*ast.FuncDecl)
		if !ok || fn.Body == nil {
			continue
		}
		var ops []opT
		ast.Inspect(fn.Body, func(n ast.Node) bool {
			ce, ok := n.(*ast.CallExpr)
			if !ok {
				return true
			}
			if !isSel(ce.Fun, "atomic", "AddInt32") || len(ce.Args) != 2 {
				if w, tgt := counterWrite(ce); w != "" {
					die("%s: %s on the %s microtask counter (only atomic.AddInt32 is in the model)", fn.Name.Name, w, tgt)
				}
				return true
			}
			t := ""
			switch {
			case mtIsIdent(ce.Args[0], "microTasks"):
				t = "g"
			case isSel(ce.Args[0], "m", "microTaskCnt"):
				t = "m"
			case isCounter(ce.Args[0]) != "":
				die("%s: atomic.AddInt32 on the microtask counter of another module object than the receiver", fn.Name.Name)
			default:
				return true
			}
			ops = append(ops, opT{t, constVal(fset, ce.Args[1]).ExactString()})
			return true
		})
		w, known := want[fn.Name.Name]
		if !known {
			if len(ops) > 0 {
				die("%s: unexpected microtask counter operation (function not in the model)", fn.Name.Name)
			}
			continue
		}
		if len(ops) != len(w) {
			die("%s: expected %d counter operations, found %d", fn.Name.Name, len(w), len(ops))
		}
		for i, o := range ops {
			if o.target != w[i] {
				die("%s: counter operation %d is on %q, expected %q", fn.Name.Name, i, o.target, w[i])
			}
			fmt.Fprintf(&sb, "/-- delta of the `atomic.AddInt32` on the %s counter in `%s` -/\ndef %s : Int := %s\n",
				map[string]string{"g": "global", "m": "per-module"}[o.target], fn.Name.Name, names[fn.Name.Name][i], o.delta)
		}
		delete(want, fn.Name.Name)
	}
	if len(want) != 0 {
		die("microtasks: functions not found: %v", sortedKeys(want))
	}
	sb.WriteString("\n")

	// --- which timeout path counts
	for _, fnName := range []string{"getMediumPriorityClearance", "getLowPriorityClearance"} {
		fn := findFunc(f, fnName, "")
		var selects []*ast.SelectStmt
		for _, st := range fn.Body.List {
			if s, ok := st.(*ast.SelectStmt); ok {
				selects = append(selects, s)
			}
		}
		if len(selects) != 2 {
			die("%s: expected two top-level selects (enqueue, wait), found %d", fnName, len(selects))
		}
		if !hasGlobalAdd(selects[0]) || hasGlobalAdd(selects[1]) {
			die("%s: expected the counter increment in the enqueue-timeout path only", fnName)
		}
	}
	sb.WriteString("/-- the enqueue-timeout path of get*PriorityClearance counts the task itself; the wait-timeout path leaves the increment to the scheduler -/\ndef timeoutEnqueueCounts : Bool := true\ndef timeoutWaitCounts : Bool := false\n\n")

	// --- which API functions replace a max delay of 0 by the documented default
	for _, e := range [][2]string{{"RunMicroTask", "runMediumDefaultsZeroDelay"}, {"RunLowPriorityMicroTask", "runLowDefaultsZeroDelay"},
		{"SignalMicroTask", "signalMediumDefaultsZeroDelay"}, {"SignalLowPriorityMicroTask", "signalLowDefaultsZeroDelay"}} {
		fn := findFunc(f, e[0], "Module")
		if fn == nil {
			die("%s not found", e[0])
		}
		defaults := 0
		ast.Inspect(fn.Body, func(n ast.Node) bool {
			is, ok := n.(*ast.IfStmt)
			if !ok {
				return true
			}
			be, ok := is.Cond.(*ast.BinaryExpr)
			if !ok || !mtIsIdent(be.X, "maxDelay") {
				return true
			}
			// the only recognised shape: if maxDelay <= 0 { maxDelay = default…MaxDelay }
			okShape := be.Op == token.LEQ && constVal(fset, be.Y).ExactString() == "0" && is.Else == nil && len(is.Body.List) == 1
			if okShape {
				as, ok := is.Body.List[0].(*ast.AssignStmt)
				okShape = ok && len(as.Lhs) == 1 && len(as.Rhs) == 1 && mtIsIdent(as.Lhs[0], "maxDelay") &&
					(mtIsIdent(as.Rhs[0], "defaultMediumPriorityMaxDelay") || mtIsIdent(as.Rhs[0], "defaultLowPriorityMaxDelay"))
			}
			if !okShape {
				die("%s: unrecognised condition on maxDelay", e[0])
			}
			defaults++
			return true
		})
		if defaults > 1 {
			die("%s: more than one default-delay statement", e[0])
		}
		fmt.Fprintf(&sb, "/-- does `%s` replace a max delay ≤ 0 by the default before waiting for a clearance? -/\ndef %s : Bool := %v\n", e[0], e[1], defaults == 1)
	}
	sb.WriteString("\n")

	// --- concludeMicroTask: decrement before the finished token is offered
	con := findFunc(f, "concludeMicroTask", "Module")
	decIdx, tokIdx := -1, -1
	for i, st := range con.Body.List {
		if es, ok := st.(*ast.ExprStmt); ok {
			if ce, ok := es.X.(*ast.CallExpr); ok && isSel(ce.Fun, "atomic", "AddInt32") && mtIsIdent(ce.Args[0], "microTasks") {
				decIdx = i
			}
		}
		if s, ok := st.(*ast.SelectStmt); ok {
			sends, def := 0, false
			for _, c := range s.Body.List {
				cc := c.(*ast.CommClause)
				if cc.Comm == nil {
					def = true
				} else if ss, ok := cc.Comm.(*ast.SendStmt); ok && mtIsIdent(ss.Chan, "microTaskFinished") {
					sends++
				}
			}
			if sends == 1 && def {
				tokIdx = i
			}
		}
	}
	if decIdx < 0 || tokIdx < 0 {
		die("concludeMicroTask: decrement / non-blocking finished-token send not found")
	}
	fmt.Fprintf(&sb, "/-- `concludeMicroTask` decrements the global counter before it offers the finished token (non-blocking send) -/\ndef tokenAfterDec : Bool := %v\n\n", decIdx < tokIdx)

	// --- concludeMicroTask: the stop check, unconditional, after the module decrement and before the global one
	modDecIdx, chkIdx, chkCalls := -1, -1, 0
	for i, st := range con.Body.List {
		ast.Inspect(st, func(n ast.Node) bool {
			ce, ok := n.(*ast.CallExpr)
			if !ok {
				return true
			}
			if isSel(ce.Fun, "atomic", "AddInt32") && len(ce.Args) == 2 && isCounter(ce.Args[0]) == "per-module" {
				modDecIdx = i
			}
			if se, ok := ce.Fun.(*ast.SelectorExpr); ok && se.Sel.Name == "checkIfStopComplete" {
				chkCalls++
			}
			return true
		})
		if es, ok := st.(*ast.ExprStmt); ok {
			if ce, ok := es.X.(*ast.CallExpr); ok && isSel(ce.Fun, "m", "checkIfStopComplete") && len(ce.Args) == 0 {
				chkIdx = i
			}
		}
	}
	fmt.Fprintf(&sb, "/-- `concludeMicroTask` calls `m.checkIfStopComplete()` exactly once, unconditionally, after the module decrement and before the global decrement -/\ndef concludeChecksStop : Bool := %v\n\n",
		chkCalls == 1 && modDecIdx >= 0 && modDecIdx < chkIdx && chkIdx < decIdx)

	// --- checkIfStopComplete (modules/modules.go): the comparison applied to the module's microtask counter
	mfset, mf := parseFile("modules/modules.go")
	chk := findFunc(mf, "checkIfStopComplete", "Module")
	if chk == nil {
		die("checkIfStopComplete not found in modules/modules.go")
	}
	var conds []*ast.BinaryExpr
	loads := 0
	ast.Inspect(chk.Body, func(n ast.Node) bool {
		switch x := n.(type) {
		case *ast.CallExpr:
			if isSel(x.Fun, "atomic", "LoadInt32") && len(x.Args) == 1 && isCounter(x.Args[0]) == "per-module" {
				loads++
			}
		case *ast.IfStmt:
			var flat func(e ast.Expr)
			flat = func(e ast.Expr) {
				if p, ok := e.(*ast.ParenExpr); ok {
					flat(p.X)
					return
				}
				if be, ok := e.(*ast.BinaryExpr); ok {
					if be.Op == token.LAND {
						flat(be.X)
						flat(be.Y)
						return
					}
					if ce, ok := be.X.(*ast.CallExpr); ok && isSel(ce.Fun, "atomic", "LoadInt32") && len(ce.Args) == 1 && isSel(ce.Args[0], "m", "microTaskCnt") {
						conds = append(conds, be)
					}
				}
			}
			flat(x.Cond)
		}
		return true
	})
	if len(conds) != 1 || loads != 1 {
		die("checkIfStopComplete: expected exactly one conjunct `atomic.LoadInt32(m.microTaskCnt) <op> <const>` (found %d conjuncts, %d loads of the counter)", len(conds), loads)
	}
	fmt.Fprintf(&sb, "/-- the condition `checkIfStopComplete` puts on the module's microtask counter (a conjunct of its completion test) -/\ndef stopCheckMicro (cnt : Int) : Bool := decide (cnt %s %s)\n\n",
		leanCmp(conds[0].Op), constVal(mfset, conds[0].Y).ExactString())

	// --- every write to the counters in the whole package
	files, err := filepath.Glob(filepath.Join(repo, "modules", "*.go"))
	if err != nil || len(files) == 0 {
		die("modules/*.go: %v", err)
	}
	sort.Strings(files)
	nFiles := 0
	for _, path := range files {
		if strings.HasSuffix(path, "_test.go") {
			continue
		}
		nFiles++
		base := filepath.Base(path)
		pfset := token.NewFileSet()
		src, err := os.ReadFile(path)
		if err != nil {
			die("%v", err)
		}
		pf, err := parser.ParseFile(pfset, path, src, 0)
		if err != nil {
			die("parse %s: %v", base, err)
		}
		for _, d := range pf.Decls {
			fn, ok := d.(*ast.FuncDecl)
			if !ok || fn.Body == nil {
				continue
			}
			where := base + ":" + fn.Name.Name
			ast.Inspect(fn.Body, func(n ast.Node) bool {
				switch x := n.(type) {
				case *ast.CallExpr:
					if w, tgt := counterWrite(x); w != "" && base != "microtasks.go" {
						// the functions of microtasks.go are checked one by one above
						die("%s: %s on the %s microtask counter outside modules/microtasks.go (not in the model)", where, w, tgt)
					}
					if isSel(x.Fun, "atomic", "AddInt32") && len(x.Args) == 2 && isCounter(x.Args[0]) != "" && base != "microtasks.go" {
						die("%s: atomic.AddInt32 on the %s microtask counter outside modules/microtasks.go (not in the model)", where, isCounter(x.Args[0]))
					}
				case *ast.AssignStmt:
					for _, l := range x.Lhs {
						if st, ok := l.(*ast.StarExpr); ok && isCounter(st.X) != "" {
							die("%s: plain assignment to the %s microtask counter", where, isCounter(st.X))
						}
						if c := isCounter(l); c != "" && !(base == "microtasks.go" && fn.Name.Name == "init") {
							die("%s: the %s microtask counter is re-pointed", where, c)
						}
					}
				case *ast.IncDecStmt:
					if st, ok := x.X.(*ast.StarExpr); ok && isCounter(st.X) != "" {
						die("%s: plain %s on the %s microtask counter", where, x.Tok, isCounter(st.X))
					}
				case *ast.UnaryExpr:
					// taking the address of the pointer variable itself would allow writes we cannot see
					if x.Op == token.AND && isCounter(x.X) != "" {
						die("%s: address of the %s microtask counter variable taken", where, isCounter(x.X))
					}
				}
				return true
			})
		}
	}
	fmt.Fprintf(&sb, "/-- non-test files of package modules scanned for writes to the two counters; none outside the modelled functions of microtasks.go -/\ndef counterWritersScannedFiles : Nat := %d\ndef counterWritesOutsideModel : Nat := 0\n\n", nFiles)

	// --- hook lines of the stop protocol the C15 trace relies on (bracket around the module counter operations,
	// the stop check's read of the counter, the stop/start steps)
	need := map[string][]string{
		"modules/microtasks.go": {`verifEvent("pre:inc:m", m.Name)`, `verifEvent("pre:dec:m", m.Name)`, `verifEvent("post", m.Name)`},
		"modules/modules.go": {`verifEvent("pre:cFast", m.Name)`, `verifTrue("mid:cM", m.Name)`, `verifEvent("mid:cCas", m.Name)`, `verifEvent("post:fail", m.Name)`,
			`verifEvent("pre:stopBegin", m.Name)`, `verifEvent("pre:sFlag", m.Name)`, `verifEvent("ev:sWake", m.Name)`, `verifEvent("ev:sTimeout", m.Name)`,
			`verifEvent("pre:sOffline", m.Name)`, `verifEvent("pre:startBegin", m.Name)`},
	}
	for _, rel := range sortedKeys(need) {
		src, err := os.ReadFile(filepath.Join(repo, rel))
		if err != nil {
			die("%v", err)
		}
		for _, h := range need[rel] {
			if !strings.Contains(string(src), h) {
				die("%s: hook line %s not found (the C15 trace of the module counter / stop protocol needs it)", rel, h)
			}
		}
	}

	mtTimersAndErrors(fset, f, &sb, delays)

	sb.WriteString("end PB.Gen.MicroTasks\n")
	write("MicroTasks.lean", sb.String())
}

// mtTimersAndErrors regenerates
//   - what each of the four timers of get{Medium,Low}PriorityClearance (enqueue phase, wait phase) is armed with:
//     the function's own maxDelay parameter or a constant; that the parameter is not modified inside these functions;
//   - what the Run*/Signal* functions hand to the clearance function (their own maxDelay, to the function of their own
//     priority) and the effective max delay they compute from the argument (the default substitution) as a Lean function;
//     that the Start* variants pass name, maxDelay and fn through to the Run* variant of their priority;
//   - the flow of the function's error through runMicroTask to the caller of the blocking variants: `err = fn(m.Ctx)`
//     is the last statement before the bare return, the deferred closure replaces err in its panic branch only,
//     nothing else assigns err, and every Run* variant returns the result of m.runMicroTask(name, fn) directly.
//
// Unknown shapes (another timer API, an argument that is neither the parameter nor a constant, a second clearance
// call) are errors; recognised deviations are written as facts the theorems are stated over.
func mtTimersAndErrors(fset *token.FileSet, f *ast.File, sb *strings.Builder, delaysMs map[string]string) {
	sb.WriteString("/-- what a max-delay timer is armed with: the function's `maxDelay` parameter, or a constant (nanoseconds) -/\ninductive Arm\n  | param\n  | const (ns : Int)\n  deriving DecidableEq, Repr\n\n")
	constNs := func(name string) string {
		ms, err := strconv.Atoi(delaysMs[name])
		if err != nil {
			die("default delay %s: %v", name, err)
		}
		return strconv.Itoa(ms) + "000000"
	}
	for _, e := range [][2]string{{"getMediumPriorityClearance", "Medium"}, {"getLowPriorityClearance", "Low"}} {
		fn := findFunc(f, e[0], "")
		if fn.Type.Params == nil || len(fn.Type.Params.List) != 1 || len(fn.Type.Params.List[0].Names) != 1 {
			die("%s: expected exactly one parameter (maxDelay)", e[0])
		}
		param := fn.Type.Params.List[0].Names[0].Name
		if !isSel(fn.Type.Params.List[0].Type, "time", "Duration") {
			die("%s: parameter %s is not a time.Duration", e[0], param)
		}
		// the parameter must reach the timers as it was given
		ast.Inspect(fn.Body, func(n ast.Node) bool {
			switch x := n.(type) {
			case *ast.AssignStmt:
				for _, l := range x.Lhs {
					if mtIsIdent(l, param) {
						die("%s: %s is modified inside the function (the timers would not be armed with the caller's max delay)", e[0], param)
					}
				}
			case *ast.IncDecStmt:
				if mtIsIdent(x.X, param) {
					die("%s: %s is modified inside the function", e[0], param)
				}
			case *ast.UnaryExpr:
				if x.Op == token.AND && mtIsIdent(x.X, param) {
					die("%s: address of %s taken", e[0], param)
				}
			}
			return true
		})
		var selects []*ast.SelectStmt
		for _, st := range fn.Body.List {
			if s, ok := st.(*ast.SelectStmt); ok {
				selects = append(selects, s)
			}
		}
		if len(selects) != 2 {
			die("%s: expected two top-level selects (enqueue, wait), found %d", e[0], len(selects))
		}
		timeCalls := 0
		ast.Inspect(fn.Body, func(n ast.Node) bool {
			if ce, ok := n.(*ast.CallExpr); ok {
				if se, ok := ce.Fun.(*ast.SelectorExpr); ok && mtIsIdent(se.X, "time") {
					timeCalls++
				}
			}
			return true
		})
		if timeCalls != 2 {
			die("%s: expected exactly two calls into package time (one time.After per phase), found %d", e[0], timeCalls)
		}
		for pi, phase := range []string{"Enqueue", "Wait"} {
			var arms []ast.Expr
			ast.Inspect(selects[pi], func(n ast.Node) bool {
				cc, ok := n.(*ast.CommClause)
				if !ok || cc.Comm == nil {
					return true
				}
				es, ok := cc.Comm.(*ast.ExprStmt)
				if !ok {
					return true
				}
				ue, ok := es.X.(*ast.UnaryExpr)
				if !ok || ue.Op != token.ARROW {
					return true
				}
				if ce, ok := ue.X.(*ast.CallExpr); ok && isSel(ce.Fun, "time", "After") && len(ce.Args) == 1 {
					arms = append(arms, ce.Args[0])
				}
				return true
			})
			if len(arms) != 1 {
				die("%s: %s phase: expected exactly one `case <-time.After(…)`, found %d", e[0], strings.ToLower(phase), len(arms))
			}
			arm := ""
			switch {
			case mtIsIdent(arms[0], param):
				arm = ".param"
			case mtIsIdent(arms[0], "defaultMediumPriorityMaxDelay"), mtIsIdent(arms[0], "defaultLowPriorityMaxDelay"):
				arm = ".const " + constNs(arms[0].(*ast.Ident).Name)
			default:
				// a literal duration like 3 * time.Second; anything that mentions the parameter or is not constant is unknown
				mentions := false
				ast.Inspect(arms[0], func(n ast.Node) bool {
					if id, ok := n.(*ast.Ident); ok && id.Name == param {
						mentions = true
					}
					return true
				})
				if mentions {
					die("%s: %s phase: timer armed with an expression of %s this extractor does not know: %s", e[0], strings.ToLower(phase), param, exprString(fset, arms[0]))
				}
				ms, err := strconv.Atoi(durationMs(fset, arms[0]))
				if err != nil {
					die("%s: %s phase: timer argument %s", e[0], strings.ToLower(phase), exprString(fset, arms[0]))
				}
				arm = ".const " + strconv.Itoa(ms) + "000000"
			}
			fmt.Fprintf(sb, "/-- `%s`, %s phase: what `time.After` is armed with (source: `%s`) -/\ndef arm%s%s : Arm := %s\n",
				e[0], strings.ToLower(phase), exprString(fset, arms[0]), phase, e[1], arm)
		}
	}
	sb.WriteString("\n")

	// --- the API functions: effective max delay and what they hand to the clearance function
	passOK := true
	for _, e := range [][4]string{{"RunMicroTask", "runMediumDelay", "getMediumPriorityClearance", "defaultMediumPriorityMaxDelay"},
		{"RunLowPriorityMicroTask", "runLowDelay", "getLowPriorityClearance", "defaultLowPriorityMaxDelay"},
		{"SignalMicroTask", "signalMediumDelay", "getMediumPriorityClearance", "defaultMediumPriorityMaxDelay"},
		{"SignalLowPriorityMicroTask", "signalLowDelay", "getLowPriorityClearance", "defaultLowPriorityMaxDelay"}} {
		fn := findFunc(f, e[0], "Module")
		if fn == nil {
			die("%s not found", e[0])
		}
		// the default substitution (shape checked above: `if maxDelay <= 0 { maxDelay = default…MaxDelay }`), and no other write
		assigns, dflt := 0, ""
		ast.Inspect(fn.Body, func(n ast.Node) bool {
			switch x := n.(type) {
			case *ast.AssignStmt:
				for i, l := range x.Lhs {
					if mtIsIdent(l, "maxDelay") {
						assigns++
						if len(x.Rhs) == len(x.Lhs) {
							if id, ok := x.Rhs[i].(*ast.Ident); ok {
								dflt = id.Name
							}
						}
					}
				}
			case *ast.IncDecStmt:
				if mtIsIdent(x.X, "maxDelay") {
					die("%s: maxDelay is modified by %s", e[0], x.Tok)
				}
			case *ast.UnaryExpr:
				if x.Op == token.AND && mtIsIdent(x.X, "maxDelay") {
					die("%s: address of maxDelay taken", e[0])
				}
			}
			return true
		})
		ifs := 0
		ast.Inspect(fn.Body, func(n ast.Node) bool {
			if is, ok := n.(*ast.IfStmt); ok {
				if be, ok := is.Cond.(*ast.BinaryExpr); ok && mtIsIdent(be.X, "maxDelay") {
					ifs++
				}
			}
			return true
		})
		if assigns != ifs || assigns > 1 {
			die("%s: maxDelay is assigned %d times, %d of them the recognised default substitution", e[0], assigns, ifs)
		}
		if assigns == 1 {
			if dflt != "defaultMediumPriorityMaxDelay" && dflt != "defaultLowPriorityMaxDelay" {
				die("%s: unrecognised default %q", e[0], dflt)
			}
			fmt.Fprintf(sb, "/-- `%s`: the max delay (ns) the clearance is asked with, for the argument `d` (default: `%s`) -/\ndef %s (d : Int) : Int := if d ≤ 0 then %s else d\n",
				e[0], dflt, e[1], constNs(dflt))
		} else {
			fmt.Fprintf(sb, "/-- `%s`: the max delay (ns) the clearance is asked with, for the argument `d` (no default substitution in the source) -/\ndef %s (d : Int) : Int := d\n", e[0], e[1])
		}
		// exactly one clearance call, after the substitution, with the parameter itself, of the own priority
		var calls []*ast.CallExpr
		ast.Inspect(fn.Body, func(n ast.Node) bool {
			if ce, ok := n.(*ast.CallExpr); ok {
				if id, ok := ce.Fun.(*ast.Ident); ok && (id.Name == "getMediumPriorityClearance" || id.Name == "getLowPriorityClearance") {
					calls = append(calls, ce)
				}
			}
			return true
		})
		if len(calls) != 1 {
			die("%s: expected exactly one clearance call, found %d", e[0], len(calls))
		}
		if !mtIsIdent(calls[0].Fun, e[2]) || len(calls[0].Args) != 1 || !mtIsIdent(calls[0].Args[0], "maxDelay") {
			passOK = false
		}
		// the clearance call must be a top-level statement that follows the substitution
		callIdx, ifIdx := -1, -1
		for i, st := range fn.Body.List {
			if es, ok := st.(*ast.ExprStmt); ok && es.X == ast.Expr(calls[0]) {
				callIdx = i
			}
			if is, ok := st.(*ast.IfStmt); ok {
				if be, ok := is.Cond.(*ast.BinaryExpr); ok && mtIsIdent(be.X, "maxDelay") {
					ifIdx = i
				}
			}
		}
		if callIdx < 0 || (assigns == 1 && (ifIdx < 0 || ifIdx > callIdx)) {
			passOK = false
		}
	}
	fmt.Fprintf(sb, "/-- every Run*/Signal* function calls the clearance function of its own priority exactly once, unconditionally, after the default substitution, with its `maxDelay` variable as the argument -/\ndef clearanceCallsPassMaxDelay : Bool := %v\n", passOK)

	startOK := true
	for _, e := range [][3]string{{"StartMicroTask", "RunMicroTask", "3"}, {"StartLowPriorityMicroTask", "RunLowPriorityMicroTask", "3"},
		{"StartHighPriorityMicroTask", "RunHighPriorityMicroTask", "2"}} {
		fn := findFunc(f, e[0], "Module")
		if fn == nil {
			die("%s not found", e[0])
		}
		var calls []*ast.CallExpr
		ast.Inspect(fn.Body, func(n ast.Node) bool {
			if ce, ok := n.(*ast.CallExpr); ok {
				if se, ok := ce.Fun.(*ast.SelectorExpr); ok && (strings.HasPrefix(se.Sel.Name, "Run") || strings.HasPrefix(se.Sel.Name, "Signal") || se.Sel.Name == "runMicroTask") {
					calls = append(calls, ce)
				}
			}
			return true
		})
		if len(calls) != 1 {
			die("%s: expected exactly one call of a Run* variant, found %d", e[0], len(calls))
		}
		want := []string{"name", "maxDelay", "fn"}
		if e[2] == "2" {
			want = []string{"name", "fn"}
		}
		ok := isSel(calls[0].Fun, "m", e[1]) && len(calls[0].Args) == len(want)
		for i := 0; ok && i < len(want); i++ {
			ok = mtIsIdent(calls[0].Args[i], want[i])
		}
		ast.Inspect(fn.Body, func(n ast.Node) bool { // the arguments must arrive unmodified
			if as, isAs := n.(*ast.AssignStmt); isAs {
				for _, l := range as.Lhs {
					if mtIsIdent(l, "maxDelay") || mtIsIdent(l, "fn") || mtIsIdent(l, "name") {
						ok = false
					}
				}
			}
			return true
		})
		if !ok {
			startOK = false
		}
	}
	fmt.Fprintf(sb, "/-- every Start* variant calls the Run* variant of its priority once, with its own `name`, `maxDelay`, `fn` unmodified -/\ndef startVariantsPassThrough : Bool := %v\n\n", startOK)

	// --- runMicroTask: the function's error on its way to the caller
	rm := findFunc(f, "runMicroTask", "Module")
	if rm == nil || rm.Type.Results == nil || len(rm.Type.Results.List) != 1 || len(rm.Type.Results.List[0].Names) != 1 {
		die("runMicroTask: expected one named result")
	}
	res := rm.Type.Results.List[0].Names[0].Name
	fnParam := ""
	for _, p := range rm.Type.Params.List {
		if _, ok := p.Type.(*ast.FuncType); ok && len(p.Names) == 1 {
			fnParam = p.Names[0].Name
		}
	}
	if fnParam == "" {
		die("runMicroTask: function parameter not found")
	}
	// (1) the last two statements: `err = fn(m.Ctx)` and a bare `return`
	bodyOK := false
	if n := len(rm.Body.List); n >= 2 {
		as, ok1 := rm.Body.List[n-2].(*ast.AssignStmt)
		rs, ok2 := rm.Body.List[n-1].(*ast.ReturnStmt)
		if ok1 && ok2 && len(rs.Results) == 0 && as.Tok == token.ASSIGN && len(as.Lhs) == 1 && len(as.Rhs) == 1 && mtIsIdent(as.Lhs[0], res) {
			if ce, ok := as.Rhs[0].(*ast.CallExpr); ok && mtIsIdent(ce.Fun, fnParam) && len(ce.Args) == 1 && isSel(ce.Args[0], "m", "Ctx") {
				bodyOK = true
			}
		}
	}
	// (2) every write to the result, every return, every call of fn in the whole function (closures included)
	writes, panicWrites, returns, fnCalls, defers := 0, 0, 0, 0, 0
	var inPanicIf func(n ast.Node, inside bool)
	inPanicIf = func(n ast.Node, inside bool) {
		ast.Inspect(n, func(x ast.Node) bool {
			switch y := x.(type) {
			case *ast.IfStmt:
				if be, ok := y.Cond.(*ast.BinaryExpr); ok && be.Op == token.NEQ && mtIsIdent(be.X, "panicVal") && mtIsIdent(be.Y, "nil") && y.Init == nil && !inside {
					inPanicIf(y.Body, true)
					if y.Else != nil {
						inPanicIf(y.Else, false)
					}
					return false
				}
			case *ast.AssignStmt:
				for i, l := range y.Lhs {
					if mtIsIdent(l, res) {
						writes++
						if inside && len(y.Rhs) == len(y.Lhs) && mtIsIdent(y.Rhs[i], "me") {
							panicWrites++
						}
					}
					if mtIsIdent(l, fnParam) {
						die("runMicroTask: %s is re-assigned", fnParam)
					}
				}
			case *ast.UnaryExpr:
				if y.Op == token.AND && mtIsIdent(y.X, res) {
					die("runMicroTask: address of the result %s taken", res)
				}
			case *ast.ReturnStmt:
				returns++
			case *ast.CallExpr:
				if mtIsIdent(y.Fun, fnParam) {
					fnCalls++
				}
				for _, a := range y.Args { // fn handed to something else could be run a second time / its error lost
					if mtIsIdent(a, fnParam) {
						die("runMicroTask: %s is passed on to %s", fnParam, exprString(fset, y.Fun))
					}
				}
			case *ast.DeferStmt:
				defers++
			case *ast.GoStmt:
				die("runMicroTask: starts a goroutine")
			}
			return true
		})
	}
	inPanicIf(rm.Body, false)
	// `panicVal := recover()` must be what the panic branch tests
	recovers := 0
	ast.Inspect(rm.Body, func(n ast.Node) bool {
		if as, ok := n.(*ast.AssignStmt); ok && len(as.Lhs) == 1 && len(as.Rhs) == 1 && mtIsIdent(as.Lhs[0], "panicVal") {
			if ce, ok := as.Rhs[0].(*ast.CallExpr); ok && mtIsIdent(ce.Fun, "recover") {
				recovers++
			} else {
				die("runMicroTask: panicVal is not the result of recover()")
			}
		}
		return true
	})
	errFlowOK := bodyOK && writes == 2 && panicWrites == 1 && returns == 1 && fnCalls == 1 && defers == 1 && recovers == 1
	fmt.Fprintf(sb, "/-- `runMicroTask`: `%s = %s(m.Ctx)` is the last statement before the bare return; besides it only the panic branch of the deferred closure assigns the result (writes: %d, in the panic branch: %d, returns: %d, calls of the function: %d) -/\ndef runReturnsFnError : Bool := %v\n",
		res, fnParam, writes, panicWrites, returns, fnCalls, errFlowOK)

	directOK := true
	for _, name := range []string{"RunMicroTask", "RunLowPriorityMicroTask", "RunHighPriorityMicroTask"} {
		fn := findFunc(f, name, "Module")
		if fn == nil {
			die("%s not found", name)
		}
		var rets []*ast.ReturnStmt
		ast.Inspect(fn.Body, func(n ast.Node) bool {
			switch x := n.(type) {
			case *ast.ReturnStmt:
				rets = append(rets, x)
			case *ast.FuncLit:
				die("%s: contains a function literal (the function handed to runMicroTask may be wrapped)", name)
			case *ast.AssignStmt:
				for _, l := range x.Lhs {
					if mtIsIdent(l, "fn") {
						die("%s: fn is re-assigned", name)
					}
				}
			}
			return true
		})
		ok := len(rets) == 2 && len(rets[0].Results) == 1 && mtIsIdent(rets[0].Results[0], "errNoModule") && len(rets[1].Results) == 1
		if ok {
			ce, isCall := rets[1].Results[0].(*ast.CallExpr)
			ok = isCall && isSel(ce.Fun, "m", "runMicroTask") && len(ce.Args) == 2 && mtIsIdent(ce.Args[0], "name") && mtIsIdent(ce.Args[1], "fn")
			// … and it is the last statement of the function, the errNoModule return sits in `if m == nil`
			ok = ok && fn.Body.List[len(fn.Body.List)-1] == ast.Stmt(rets[1])
			if is, isIf := fn.Body.List[0].(*ast.IfStmt); isIf && ok {
				be, isBe := is.Cond.(*ast.BinaryExpr)
				ok = isBe && be.Op == token.EQL && mtIsIdent(be.X, "m") && mtIsIdent(be.Y, "nil") && len(is.Body.List) >= 1 &&
					is.Body.List[len(is.Body.List)-1] == ast.Stmt(rets[0])
			} else {
				ok = false
			}
		}
		if !ok {
			directOK = false
		}
	}
	fmt.Fprintf(sb, "/-- every blocking Run* variant ends with `return m.runMicroTask(name, fn)` (its only other return: `errNoModule` for a nil module) -/\ndef runVariantsReturnDirect : Bool := %v\n\n", directOK)
}

// isCounter says whether e denotes one of the two counters: "global" for the package variable microTasks,
// "per-module" for <anything>.microTaskCnt, "" otherwise.
func isCounter(e ast.Expr) string {
	if p, ok := e.(*ast.ParenExpr); ok {
		return isCounter(p.X)
	}
	if mtIsIdent(e, "microTasks") {
		return "global"
	}
	if s, ok := e.(*ast.SelectorExpr); ok && s.Sel.Name == "microTaskCnt" {
		return "per-module"
	}
	return ""
}

// counterWrite recognises a call of package atomic other than a Load* and other than AddInt32 whose first argument
// is one of the counters; it returns the function name and the counter ("" if it is none).
func counterWrite(ce *ast.CallExpr) (string, string) {
	se, ok := ce.Fun.(*ast.SelectorExpr)
	if !ok || !mtIsIdent(se.X, "atomic") || len(ce.Args) == 0 {
		return "", ""
	}
	if strings.HasPrefix(se.Sel.Name, "Load") || se.Sel.Name == "AddInt32" {
		return "", ""
	}
	if c := isCounter(ce.Args[0]); c != "" {
		return "atomic." + se.Sel.Name, c
	}
	return "", ""
}

func mtIsIdent(e ast.Expr, name string) bool {
	id, ok := e.(*ast.Ident)
	return ok && id.Name == name
}

func isSel(e ast.Expr, x, sel string) bool {
	s, ok := e.(*ast.SelectorExpr)
	return ok && mtIsIdent(s.X, x) && s.Sel.Name == sel
}

func isLoadOf(e ast.Expr, v string) bool {
	ce, ok := e.(*ast.CallExpr)
	return ok && isSel(ce.Fun, "atomic", "LoadInt32") && len(ce.Args) == 1 && mtIsIdent(ce.Args[0], v)
}

func leanCmp(op token.Token) string {
	switch op {
	case token.LSS:
		return "<"
	case token.LEQ:
		return "≤"
	case token.GTR:
		return ">"
	case token.GEQ:
		return "≥"
	case token.EQL:
		return "="
	case token.NEQ:
		return "≠"
	}
	die("unsupported comparison operator %s", op)
	return ""
}

// storeArg returns the value stored by the single `atomic.StoreInt32(microTasksThreshhold, v)` of a block:
// a constant, or "n" for `int32(n)`.
func storeArg(fset *token.FileSet, b *ast.BlockStmt, where string) string {
	if len(b.List) != 1 {
		die("%s: expected one statement", where)
	}
	es, ok := b.List[0].(*ast.ExprStmt)
	if !ok {
		die("%s: expected a call", where)
	}
	ce, ok := es.X.(*ast.CallExpr)
	if !ok || !isSel(ce.Fun, "atomic", "StoreInt32") || len(ce.Args) != 2 || !mtIsIdent(ce.Args[0], "microTasksThreshhold") {
		die("%s: expected atomic.StoreInt32(microTasksThreshhold, …)", where)
	}
	if conv, ok := ce.Args[1].(*ast.CallExpr); ok && mtIsIdent(conv.Fun, "int32") && len(conv.Args) == 1 && mtIsIdent(conv.Args[0], "n") {
		return "n"
	}
	return constVal(fset, ce.Args[1]).ExactString()
}

// durationMs evaluates `K * time.Second|Millisecond` to milliseconds.
func durationMs(fset *token.FileSet, e ast.Expr) string {
	be, ok := e.(*ast.BinaryExpr)
	if !ok || be.Op != token.MUL {
		die("duration: expected K * time.Unit, got %s", exprString(fset, e))
	}
	k, err := strconv.Atoi(constVal(fset, be.X).ExactString())
	if err != nil {
		die("duration: factor is not an integer: %s", exprString(fset, be.X))
	}
	switch {
	case isSel(be.Y, "time", "Second"):
		return strconv.Itoa(k * 1000)
	case isSel(be.Y, "time", "Millisecond"):
		return strconv.Itoa(k)
	}
	die("duration: unsupported unit in %s", exprString(fset, e))
	return ""
}

func hasGlobalAdd(n ast.Node) bool {
	found := false
	ast.Inspect(n, func(x ast.Node) bool {
		if ce, ok := x.(*ast.CallExpr); ok && isSel(ce.Fun, "atomic", "AddInt32") && len(ce.Args) == 2 && mtIsIdent(ce.Args[0], "microTasks") {
			found = true
		}
		return true
	})
	return found
}
