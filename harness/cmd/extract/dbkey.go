package main

import (
	"fmt"
	"go/ast"
	"go/token"
	"strconv"
	"strings"
)

func init() { generators["dbkey"] = genDbKey }

// genDbKey translates record.ParseKey (database/record/key.go) — the function every interface operation, every
// record constructor and query.New use to split "<database>:<key>" — into Lean over the string-list semantics of
// lean/PB/Model/GoStr.lean (strings.SplitN / Split / Join, len, index and slice expressions with explicit bounds
// checks). C02 proves about the translation that "<db>:<key>" splits into exactly (db, key) for every key,
// colons included: the database key is an opaque string.
//
// Fragment (fails closed on everything else): a function of one string parameter returning two strings whose
// body is a sequence of
//
//	x := <list expression>           if <int comparison> { return <string>, <string> }      return <string>, <string>
//
// list expressions: strings.SplitN(s, "<lit>", <int>), strings.Split(s, "<lit>"), x[i:], x[i:j], x
// string expressions: a parameter or variable, "<lit>", x[i], strings.Join(<list>, "<lit>")
// int expressions: <int literal>, len(<list>); comparisons <, <=, >, >=, ==, !=
func genDbKey() {
	const file = "database/record/key.go"
	fset, f := parseFile(file)
	fd := findFunc(f, "ParseKey", "")
	if fd == nil {
		die("dbkey: %s: func ParseKey not found", file)
	}
	t := &keyTr{fset: fset, kind: map[string]string{}}
	// signature: (key string) (dbName, dbKey string)
	nres := 0
	if fd.Type.Results != nil {
		for _, r := range fd.Type.Results.List {
			if exprString(fset, r.Type) != "string" {
				t.die(r, "result type %s", exprString(fset, r.Type))
			}
			k := len(r.Names)
			if k == 0 {
				k = 1
			}
			nres += k
		}
	}
	var params []string
	for _, p := range fd.Type.Params.List {
		if exprString(fset, p.Type) != "string" {
			t.die(p, "parameter type %s", exprString(fset, p.Type))
		}
		for _, n := range p.Names {
			params = append(params, n.Name)
			t.kind[n.Name] = "str"
		}
	}
	if len(params) != 1 || nres != 2 {
		die("dbkey: %s: ParseKey must be func(string) (string, string)", file)
	}
	body := t.stmts(fd.Body.List, "  ")
	var sb strings.Builder
	sb.WriteString("import PB.Model.GoStr\n")
	sb.WriteString("/- record.ParseKey translated by harness/cmd/extract/dbkey.go. Strings are lists of characters; a Go run-time\n")
	sb.WriteString("   panic (index / slice out of range) is the value `.panic`. -/\n")
	sb.WriteString("namespace PB.Gen.DbKey\nopen PB.GoStr\n\n")
	fmt.Fprintf(&sb, "/-- translated from %s:%d -/\n", file, fset.Position(fd.Pos()).Line)
	fmt.Fprintf(&sb, "def ParseKey (%s : Str) : PB.Go.Res (Str × Str) :=\n  %s\n\n", lname(params[0]), body)
	sb.WriteString("end PB.Gen.DbKey\n")
	write("DbKey.lean", sb.String())
}

type keyTr struct {
	fset *token.FileSet
	kind map[string]string // variable -> "str" | "list"
}

func (t *keyTr) die(n ast.Node, format string, a ...any) {
	pos := t.fset.Position(n.Pos())
	die("dbkey: %s:%d: %s", pos.Filename, pos.Line, fmt.Sprintf(format, a...))
}

func leanChars(s string) string {
	var parts []string
	for _, c := range s {
		parts = append(parts, "'"+strings.Trim(strconv.QuoteRune(c), "'")+"'")
	}
	return "[" + strings.Join(parts, ", ") + "]"
}

func (t *keyTr) strLit(e ast.Expr) (string, bool) {
	bl, ok := e.(*ast.BasicLit)
	if !ok || bl.Kind != token.STRING {
		return "", false
	}
	s, err := strconv.Unquote(bl.Value)
	if err != nil {
		t.die(e, "string literal %s", bl.Value)
	}
	for _, c := range s {
		if c > 0x7e || c < 0x20 || c == '\'' || c == '\\' {
			t.die(e, "string literal %s: character outside the translated range", bl.Value)
		}
	}
	return leanChars(s), true
}

// intExpr: literal or len(list). Returns the Lean term and its bounds guards.
func (t *keyTr) intExpr(e ast.Expr) (string, []string) {
	switch x := e.(type) {
	case *ast.BasicLit:
		if x.Kind == token.INT {
			if _, err := strconv.ParseInt(x.Value, 10, 64); err != nil {
				t.die(e, "integer literal %s", x.Value)
			}
			return "(" + x.Value + " : Int)", nil
		}
	case *ast.UnaryExpr:
		if x.Op == token.SUB {
			if bl, ok := x.X.(*ast.BasicLit); ok && bl.Kind == token.INT {
				return "(-" + bl.Value + " : Int)", nil
			}
		}
	case *ast.ParenExpr:
		return t.intExpr(x.X)
	case *ast.CallExpr:
		if id, ok := x.Fun.(*ast.Ident); ok && id.Name == "len" && len(x.Args) == 1 {
			l, g := t.listExpr(x.Args[0])
			return "(len " + l + ")", g
		}
	}
	t.die(e, "integer expression %s", exprString(t.fset, e))
	return "", nil
}

func (t *keyTr) listExpr(e ast.Expr) (string, []string) {
	switch x := e.(type) {
	case *ast.Ident:
		if t.kind[x.Name] == "list" {
			return lname(x.Name), nil
		}
	case *ast.ParenExpr:
		return t.listExpr(x.X)
	case *ast.SliceExpr:
		if x.Slice3 {
			t.die(e, "3-index slice")
		}
		l, g := t.listExpr(x.X)
		lo, hi := "(0 : Int)", "(len "+l+")"
		if x.Low != nil {
			var g2 []string
			lo, g2 = t.intExpr(x.Low)
			g = append(g, g2...)
		}
		if x.High != nil {
			var g2 []string
			hi, g2 = t.intExpr(x.High)
			g = append(g, g2...)
		}
		g = append(g, "inSlice "+l+" "+lo+" "+hi)
		return "(slice " + l + " " + lo + " " + hi + ")", g
	case *ast.CallExpr:
		switch exprString(t.fset, x.Fun) {
		case "strings.SplitN":
			if len(x.Args) != 3 {
				t.die(e, "strings.SplitN arity")
			}
			s, g := t.strExpr(x.Args[0])
			sep, ok := t.strLit(x.Args[1])
			if !ok || sep == "[]" {
				t.die(e, "strings.SplitN: the separator must be a non-empty string literal")
			}
			n, g2 := t.intExpr(x.Args[2])
			return "(splitN " + s + " " + sep + " " + n + ")", append(g, g2...)
		case "strings.Split":
			if len(x.Args) != 2 {
				t.die(e, "strings.Split arity")
			}
			s, g := t.strExpr(x.Args[0])
			sep, ok := t.strLit(x.Args[1])
			if !ok || sep == "[]" {
				t.die(e, "strings.Split: the separator must be a non-empty string literal")
			}
			return "(split " + s + " " + sep + ")", g
		}
	}
	t.die(e, "list expression %s", exprString(t.fset, e))
	return "", nil
}

func (t *keyTr) strExpr(e ast.Expr) (string, []string) {
	if s, ok := t.strLit(e); ok {
		return "(" + s + " : Str)", nil
	}
	switch x := e.(type) {
	case *ast.Ident:
		if t.kind[x.Name] == "str" {
			return lname(x.Name), nil
		}
	case *ast.ParenExpr:
		return t.strExpr(x.X)
	case *ast.IndexExpr:
		l, g := t.listExpr(x.X)
		i, g2 := t.intExpr(x.Index)
		g = append(append(g, g2...), "inIdx "+l+" "+i)
		return "(strAt " + l + " " + i + ")", g
	case *ast.CallExpr:
		if exprString(t.fset, x.Fun) == "strings.Join" && len(x.Args) == 2 {
			l, g := t.listExpr(x.Args[0])
			sep, ok := t.strLit(x.Args[1])
			if !ok {
				t.die(e, "strings.Join: the separator must be a string literal")
			}
			return "(join " + l + " " + sep + ")", g
		}
	}
	t.die(e, "string expression %s", exprString(t.fset, e))
	return "", nil
}

func (t *keyTr) cond(e ast.Expr) (string, []string) {
	b, ok := e.(*ast.BinaryExpr)
	if !ok {
		t.die(e, "condition %s", exprString(t.fset, e))
	}
	op, ok := map[token.Token]string{token.LSS: "<", token.LEQ: "≤", token.GTR: ">", token.GEQ: "≥", token.EQL: "=", token.NEQ: "≠"}[b.Op]
	if !ok {
		t.die(e, "condition operator %s", b.Op)
	}
	l, g := t.intExpr(b.X)
	r, g2 := t.intExpr(b.Y)
	return "decide (" + l + " " + op + " " + r + ")", append(g, g2...)
}

func guarded(gs []string, body, ind string) string {
	out := body
	for i := len(gs) - 1; i >= 0; i-- {
		out = "if " + gs[i] + " then\n" + ind + "  " + out + "\n" + ind + "else .panic"
	}
	return out
}

func (t *keyTr) ret(s *ast.ReturnStmt, ind string) string {
	if len(s.Results) != 2 {
		t.die(s, "return with %d values", len(s.Results))
	}
	a, g := t.strExpr(s.Results[0])
	b, g2 := t.strExpr(s.Results[1])
	return guarded(append(g, g2...), ".ok ("+a+", "+b+")", ind)
}

func (t *keyTr) stmts(list []ast.Stmt, ind string) string {
	if len(list) == 0 {
		die("dbkey: ParseKey: control reaches the end of a block without return")
	}
	s, rest := list[0], list[1:]
	switch x := s.(type) {
	case *ast.ReturnStmt:
		return t.ret(x, ind)
	case *ast.AssignStmt:
		if x.Tok != token.DEFINE || len(x.Lhs) != 1 || len(x.Rhs) != 1 {
			t.die(s, "assignment %s", exprString(t.fset, x.Lhs[0]))
		}
		id, ok := x.Lhs[0].(*ast.Ident)
		if !ok || t.kind[id.Name] != "" {
			t.die(s, "assignment to %s", exprString(t.fset, x.Lhs[0]))
		}
		// a list expression? (call to Split/SplitN or a slice expression)
		isList := false
		switch r := x.Rhs[0].(type) {
		case *ast.SliceExpr:
			isList = true
		case *ast.CallExpr:
			fn := exprString(t.fset, r.Fun)
			isList = fn == "strings.SplitN" || fn == "strings.Split"
		}
		var term string
		var g []string
		if isList {
			term, g = t.listExpr(x.Rhs[0])
			t.kind[id.Name] = "list"
		} else {
			term, g = t.strExpr(x.Rhs[0])
			t.kind[id.Name] = "str"
		}
		return guarded(g, "let "+lname(id.Name)+" := "+term+"\n"+ind+t.stmts(rest, ind), ind)
	case *ast.IfStmt:
		if x.Init != nil || x.Else != nil || len(x.Body.List) != 1 {
			t.die(s, "if statement outside the fragment (init / else / body that is not a single return)")
		}
		r, ok := x.Body.List[0].(*ast.ReturnStmt)
		if !ok {
			t.die(s, "if body that does not return")
		}
		c, g := t.cond(x.Cond)
		ni := ind + "  "
		return guarded(g, "if "+c+" then\n"+ni+t.ret(r, ni)+"\n"+ind+"else\n"+ni+t.stmts(rest, ni), ind)
	}
	t.die(s, "statement %T", s)
	return ""
}
