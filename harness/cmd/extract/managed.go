package main

import (
	"fmt"
	"go/ast"
	"go/printer"
	"go/token"
	"path/filepath"
	"sort"
	"strings"
)

func init() { generators["managed"] = genManaged }

// genManaged extracts, for C06 (lean/PB/Gen/Managed.lean):
//
//   - moduleErrorChainMethods: which of the methods Unwrap / Is / As the type ModuleError declares anywhere in
//     package modules. They decide whether errors.Is / errors.As can look *through* a panic error at the panic
//     value; the managed-execution code compares returned errors with sentinels (context.Canceled, ErrRestartNow),
//     and a panic error must never match one of them.
//   - svcSwitch: the cases of the switch in runServiceWorker that decides what happens after a run of the
//     service worker function, in source order, each with its action (return | loop | backoff).
//   - reportSend: the shape of the send on errorReportingChannel in (*ModuleError).Report:
//     "select-default" (non-blocking) or "send" (blocking).
//   - reportSeq: the statements of Report in source order (lock, last = me, send, stderr).
//
// Fails closed on every other shape.
func genManaged() {
	var sb strings.Builder
	sb.WriteString("namespace PB.Gen.Managed\n\n")

	// ---- methods of ModuleError that take part in error chains
	files, err := filepath.Glob(filepath.Join(repo, "modules", "*.go"))
	if err != nil || len(files) == 0 {
		die("managed: no files in modules/")
	}
	sort.Strings(files)
	var chain []string
	for _, p := range files {
		if strings.HasSuffix(p, "_test.go") {
			continue
		}
		rel, _ := filepath.Rel(repo, p)
		_, f := parseFile(rel)
		for _, d := range f.Decls {
			fd, ok := d.(*ast.FuncDecl)
			if !ok || fd.Recv == nil || len(fd.Recv.List) != 1 {
				continue
			}
			t := fd.Recv.List[0].Type
			if s, ok := t.(*ast.StarExpr); ok {
				t = s.X
			}
			id, ok := t.(*ast.Ident)
			if !ok || id.Name != "ModuleError" {
				continue
			}
			switch fd.Name.Name {
			case "Unwrap", "Is", "As":
				chain = append(chain, fd.Name.Name)
			}
		}
	}
	sort.Strings(chain)
	fmt.Fprintf(&sb, "/-- methods among Unwrap / Is / As declared on ModuleError (package modules). -/\ndef moduleErrorChainMethods : List String := %s\n\n", leanStrList(chain))

	// ---- the decision of the service worker loop
	fsetW, fW := parseFile("modules/worker.go")
	rsw := findFunc(fW, "runServiceWorker", "Module")
	if rsw == nil {
		die("managed: runServiceWorker not found")
	}
	var loop *ast.ForStmt
	for _, st := range rsw.Body.List {
		if fs, ok := st.(*ast.ForStmt); ok && fs.Cond == nil && fs.Init == nil && fs.Post == nil {
			if loop != nil {
				die("managed: runServiceWorker: more than one loop")
			}
			loop = fs
		}
	}
	if loop == nil {
		die("managed: runServiceWorker: restart loop not found")
	}
	isHook := func(st ast.Stmt) bool {
		es, ok := st.(*ast.ExprStmt)
		if !ok {
			return false
		}
		ce, ok := es.X.(*ast.CallExpr)
		return ok && strings.HasPrefix(exprString(fsetW, ce.Fun), "verif")
	}
	var body []ast.Stmt
	for _, st := range loop.Body.List {
		if !isHook(st) {
			body = append(body, st)
		}
	}
	// if m.IsStopping() { return } ; err := m.runWorker(name, fn) ; switch { ... }
	if len(body) != 3 {
		die("managed: runServiceWorker: the loop body is not `if stopping {return}; err := m.runWorker(..); switch {..}` (%d statements)", len(body))
	}
	as, ok := body[1].(*ast.AssignStmt)
	if !ok || len(as.Lhs) != 1 || len(as.Rhs) != 1 || exprString(fsetW, as.Lhs[0]) != "err" ||
		exprString(fsetW, as.Rhs[0]) != "m.runWorker(name, fn)" {
		die("managed: runServiceWorker: expected `err := m.runWorker(name, fn)`, got %s", managedStmtString(fsetW, body[1]))
	}
	sw, ok := body[2].(*ast.SwitchStmt)
	if !ok || sw.Tag != nil || sw.Init != nil {
		die("managed: runServiceWorker: expected a tagless switch after the run")
	}
	var cases [][2]string
	for _, c := range sw.Body.List {
		cc := c.(*ast.CaseClause)
		cond := "default"
		if cc.List != nil {
			if len(cc.List) != 1 {
				die("managed: runServiceWorker: case with several expressions")
			}
			cond = exprString(fsetW, cc.List[0])
			switch cond {
			case "err == nil", "errors.Is(err, context.Canceled)", "errors.Is(err, ErrRestartNow)",
				"errors.Is(err, context.DeadlineExceeded)":
			default:
				die("managed: runServiceWorker: unrecognised case condition %q", cond)
			}
		}
		var stmts []ast.Stmt
		for _, st := range cc.Body {
			if !isHook(st) {
				stmts = append(stmts, st)
			}
		}
		action := ""
		switch {
		case len(stmts) == 0:
			action = "loop"
		case len(stmts) == 1 && isBareReturn(stmts[0]):
			action = "return"
		default:
			// back-off: bookkeeping and logging, then select { <-time.After(..): ; <-m.Ctx.Done(): return }
			sel, ok := stmts[len(stmts)-1].(*ast.SelectStmt)
			if !ok || len(sel.Body.List) != 2 {
				die("managed: runServiceWorker: case %q: unrecognised body", cond)
			}
			seenTimer, seenCtx := false, false
			for _, cl := range sel.Body.List {
				cm := cl.(*ast.CommClause)
				es, ok := cm.Comm.(*ast.ExprStmt)
				if !ok {
					die("managed: runServiceWorker: case %q: unrecognised select clause", cond)
				}
				switch s := exprString(fsetW, es.X); {
				case strings.HasPrefix(s, "<-time.After(") && len(cm.Body) == 0:
					seenTimer = true
				case s == "<-m.Ctx.Done()" && len(cm.Body) == 1 && isBareReturn(cm.Body[0]):
					seenCtx = true
				default:
					die("managed: runServiceWorker: case %q: unrecognised select clause %s", cond, s)
				}
			}
			if !seenTimer || !seenCtx {
				die("managed: runServiceWorker: case %q: select is not timer | context", cond)
			}
			for _, st := range stmts[:len(stmts)-1] {
				ast.Inspect(st, func(n ast.Node) bool {
					switch n.(type) {
					case *ast.ReturnStmt, *ast.BranchStmt, *ast.GoStmt, *ast.SelectStmt, *ast.ForStmt:
						die("managed: runServiceWorker: case %q: control flow before the back-off select", cond)
					}
					return true
				})
			}
			action = "backoff"
		}
		cases = append(cases, [2]string{cond, action})
	}
	sb.WriteString("/-- the switch after `err := m.runWorker(name, fn)` in runServiceWorker (modules/worker.go), in source order:\n    condition, action (return = the worker is finished, loop = run again at once, backoff = wait, then run again). -/\ndef svcSwitch : List (String × String) :=\n  [")
	for i, c := range cases {
		if i > 0 {
			sb.WriteString(", ")
		}
		fmt.Fprintf(&sb, "(%q, %q)", c[0], c[1])
	}
	sb.WriteString("]\n\n")

	// ---- Report(): the send on the reporting channel
	fsetE, fE := parseFile("modules/error.go")
	rep := findFunc(fE, "Report", "ModuleError")
	if rep == nil {
		die("managed: (*ModuleError).Report not found")
	}
	var seq []string
	send := ""
	for _, st := range rep.Body.List {
		if isHook(st) {
			continue
		}
		s := managedStmtString(fsetE, st)
		switch {
		case s == "reportingLock.Lock()":
			seq = append(seq, "lock")
		case s == "defer reportingLock.Unlock()":
			seq = append(seq, "defer unlock")
		case s == "lastReportedError = me":
			seq = append(seq, "last = me")
		default:
			is, ok := st.(*ast.IfStmt)
			if !ok || is.Init != nil || is.Else != nil {
				die("managed: Report: unrecognised statement %s", s)
			}
			switch exprString(fsetE, is.Cond) {
			case "errorReportingChannel != nil":
				if len(is.Body.List) != 1 {
					die("managed: Report: the channel branch has %d statements", len(is.Body.List))
				}
				switch x := is.Body.List[0].(type) {
				case *ast.SendStmt:
					if exprString(fsetE, x.Chan) != "errorReportingChannel" || exprString(fsetE, x.Value) != "me" {
						die("managed: Report: unrecognised send %s", managedStmtString(fsetE, x))
					}
					send = "send"
				case *ast.SelectStmt:
					if len(x.Body.List) != 2 {
						die("managed: Report: select with %d clauses", len(x.Body.List))
					}
					okSend, okDefault := false, false
					for _, cl := range x.Body.List {
						cm := cl.(*ast.CommClause)
						if cm.Comm == nil {
							okDefault = len(cm.Body) == 0
							continue
						}
						ss, ok := cm.Comm.(*ast.SendStmt)
						okSend = ok && len(cm.Body) == 0 && exprString(fsetE, ss.Chan) == "errorReportingChannel" &&
							exprString(fsetE, ss.Value) == "me"
					}
					if !okSend || !okDefault {
						die("managed: Report: the select is not `case errorReportingChannel <- me: default:`")
					}
					send = "select-default"
				default:
					die("managed: Report: unrecognised statement in the channel branch: %s", managedStmtString(fsetE, x))
				}
				seq = append(seq, "send")
			case "reportToStdErr":
				seq = append(seq, "stderr")
			default:
				die("managed: Report: unrecognised condition %s", exprString(fsetE, is.Cond))
			}
		}
	}
	if send == "" {
		die("managed: Report: no send on errorReportingChannel found")
	}
	fmt.Fprintf(&sb, "/-- how (*ModuleError).Report hands the error to errorReportingChannel (modules/error.go):\n    \"select-default\" = `select { case ch <- me: default: }` (never blocks), \"send\" = `ch <- me` (blocks while the channel is full). -/\ndef reportSend : String := %q\n\n", send)
	fmt.Fprintf(&sb, "/-- the statements of Report in source order. -/\ndef reportSeq : List String := %s\n\n", leanStrList(seq))

	// ---- api/router.go: the handler-level recover of mainHandler.handle
	fsetR, fR := parseFile("api/router.go")
	hd := findFunc(fR, "handle", "mainHandler")
	if hd == nil {
		die("managed: (*mainHandler).handle not found")
	}
	var recBody []ast.Stmt
	nRec := 0
	ast.Inspect(hd.Body, func(n ast.Node) bool {
		is, ok := n.(*ast.IfStmt)
		if !ok || is.Init == nil {
			return true
		}
		if managedStmtString(fsetR, is.Init) == "panicValue := recover()" {
			nRec++
			if exprString(fsetR, is.Cond) != "panicValue != nil" || is.Else != nil {
				die("managed: handle: unrecognised recover test")
			}
			recBody = is.Body.List
		}
		return true
	})
	if nRec != 1 {
		die("managed: handle: expected exactly one `if panicValue := recover(); panicValue != nil`, found %d", nRec)
	}
	onlyRespond := func(list []ast.Stmt) bool {
		if len(list) != 1 {
			return false
		}
		es, ok := list[0].(*ast.ExprStmt)
		if !ok {
			return false
		}
		ce, ok := es.X.(*ast.CallExpr)
		if !ok || exprString(fsetR, ce.Fun) != "http.Error" || len(ce.Args) != 3 {
			return false
		}
		return exprString(fsetR, ce.Args[0]) == "lrw" && exprString(fsetR, ce.Args[2]) == "http.StatusInternalServerError"
	}
	var apiSeq []string
	for _, st := range recBody {
		if isHookR := func() bool {
			es, ok := st.(*ast.ExprStmt)
			if !ok {
				return false
			}
			ce, ok := es.X.(*ast.CallExpr)
			return ok && strings.HasPrefix(exprString(fsetR, ce.Fun), "verif")
		}(); isHookR {
			continue
		}
		switch s := managedStmtString(fsetR, st); {
		case s == `me := module.NewPanicError("api request", "custom", panicValue)`:
			apiSeq = append(apiSeq, "new")
		case s == "me.Report()":
			apiSeq = append(apiSeq, "report")
		default:
			is, ok := st.(*ast.IfStmt)
			if !ok || is.Init != nil || exprString(fsetR, is.Cond) != "devMode()" {
				die("managed: handle: unrecognised statement in the recover block: %s", s)
			}
			el, ok := is.Else.(*ast.BlockStmt)
			if !ok || !onlyRespond(is.Body.List) || !onlyRespond(el.List) {
				die("managed: handle: the devMode branches of the recover block are not `http.Error(lrw, …, 500)` each")
			}
			apiSeq = append(apiSeq, "if devMode { respond 500 detail } else { respond 500 plain }")
		}
	}
	fmt.Fprintf(&sb, "/-- the handler-level recover block of (*mainHandler).handle (api/router.go), statements in source order. -/\ndef apiRecoverSeq : List String := %s\n\n", leanStrList(apiSeq))

	// ---- modules/modules.go: how stopAllTasks gets the stop routine's result into the error it reports
	//
	//	var err error
	//	select {
	//	case <-m.stopComplete:            err = <-stopFnError
	//	case <-time.After(moduleStopTimeout): …log…; select { case err = <-stopFnError: default: }
	//	}
	//	if err != nil { m.Error(…) } … reports <- &report{module: m, err: err}
	//
	// stopFetch: per way the wait ends ("completed" / "timeout") how the result is received ("recv" = a blocking
	// receive statement, "select-default" = a receive that is given up when nothing was sent yet) and the assignment
	// token: "=" assigns to the function's `err`, ":=" would declare a new variable in the case clause and leave the
	// reported `err` nil. stopReportErr: the expression stored in the `err` field of the report.
	fsetM, fM := parseFile("modules/modules.go")
	sat := findFunc(fM, "stopAllTasks", "Module")
	if sat == nil {
		die("managed: (*Module).stopAllTasks not found")
	}
	isHookM := func(st ast.Stmt) bool {
		es, ok := st.(*ast.ExprStmt)
		if !ok {
			return false
		}
		ce, ok := es.X.(*ast.CallExpr)
		if !ok {
			return false
		}
		fn := exprString(fsetM, ce.Fun)
		return strings.HasPrefix(fn, "verif") || strings.HasPrefix(fn, "log.")
	}
	// statements that only log (also: an `if` around log calls)
	var onlyLogs func(list []ast.Stmt) bool
	onlyLogs = func(list []ast.Stmt) bool {
		for _, st := range list {
			if isHookM(st) {
				continue
			}
			is, ok := st.(*ast.IfStmt)
			if !ok || is.Init != nil || !onlyLogs(is.Body.List) {
				return false
			}
			if is.Else != nil {
				el, ok := is.Else.(*ast.BlockStmt)
				if !ok || !onlyLogs(el.List) {
					return false
				}
			}
		}
		return true
	}
	// `err = <-stopFnError` / `err := <-stopFnError`
	fetchTok := func(st ast.Stmt) (string, bool) {
		as, ok := st.(*ast.AssignStmt)
		if !ok || len(as.Lhs) != 1 || len(as.Rhs) != 1 || exprString(fsetM, as.Lhs[0]) != "err" ||
			exprString(fsetM, as.Rhs[0]) != "<-stopFnError" {
			return "", false
		}
		return as.Tok.String(), true
	}
	var errDecls, selects int
	var stopFetch [][3]string
	for _, st := range sat.Body.List {
		switch x := st.(type) {
		case *ast.DeclStmt:
			if gd, ok := x.Decl.(*ast.GenDecl); ok && gd.Tok == token.VAR && len(gd.Specs) == 1 {
				vs := gd.Specs[0].(*ast.ValueSpec)
				if len(vs.Names) == 1 && vs.Names[0].Name == "err" && vs.Type != nil && exprString(fsetM, vs.Type) == "error" && len(vs.Values) == 0 {
					errDecls++
				}
			}
		case *ast.SelectStmt:
			selects++
			for _, cl := range x.Body.List {
				cm := cl.(*ast.CommClause)
				if cm.Comm == nil {
					die("managed: stopAllTasks: the wait has a default case")
				}
				var body []ast.Stmt
				for _, b := range cm.Body {
					if !isHookM(b) {
						body = append(body, b)
					}
				}
				switch c := managedStmtString(fsetM, cm.Comm); c {
				case "<-m.stopComplete":
					if len(body) != 1 {
						die("managed: stopAllTasks: completion branch: expected the receive of the stop routine's result only")
					}
					tok, ok := fetchTok(body[0])
					if !ok {
						die("managed: stopAllTasks: completion branch: unrecognised statement %s", managedStmtString(fsetM, body[0]))
					}
					stopFetch = append(stopFetch, [3]string{"completed", "recv", tok})
				case "<-time.After(moduleStopTimeout)":
					if len(body) != 1 {
						die("managed: stopAllTasks: timeout branch: expected logging and one select")
					}
					sel, ok := body[0].(*ast.SelectStmt)
					if !ok || len(sel.Body.List) != 2 {
						die("managed: stopAllTasks: timeout branch: unrecognised statement %s", managedStmtString(fsetM, body[0]))
					}
					tok, seenDefault := "", false
					for _, icl := range sel.Body.List {
						icm := icl.(*ast.CommClause)
						if !onlyLogs(icm.Body) {
							die("managed: stopAllTasks: timeout branch: a case of the inner select does more than log")
						}
						if icm.Comm == nil {
							seenDefault = true
							continue
						}
						t, ok := fetchTok(icm.Comm)
						if !ok {
							die("managed: stopAllTasks: timeout branch: unrecognised case %s", managedStmtString(fsetM, icm.Comm))
						}
						tok = t
					}
					if tok == "" || !seenDefault {
						die("managed: stopAllTasks: timeout branch: the inner select is not `case err … <-stopFnError: default:`")
					}
					stopFetch = append(stopFetch, [3]string{"timeout", "select-default", tok})
				default:
					die("managed: stopAllTasks: unrecognised case of the wait: %s", c)
				}
			}
		}
	}
	if errDecls != 1 || selects != 1 || len(stopFetch) != 2 {
		die("managed: stopAllTasks: expected one `var err error` and one wait with a completion and a timeout branch (%d, %d, %d)", errDecls, selects, len(stopFetch))
	}
	// nothing else writes `err`; the report carries it
	nAssign := 0
	reportErr := ""
	ast.Inspect(sat.Body, func(n ast.Node) bool {
		switch x := n.(type) {
		case *ast.AssignStmt:
			for _, l := range x.Lhs {
				if exprString(fsetM, l) == "err" {
					nAssign++
				}
			}
		case *ast.SendStmt:
			if exprString(fsetM, x.Chan) == "reports" {
				ue, ok := x.Value.(*ast.UnaryExpr)
				if !ok || ue.Op != token.AND {
					die("managed: stopAllTasks: unrecognised report value")
				}
				cl, ok := ue.X.(*ast.CompositeLit)
				if !ok || exprString(fsetM, cl.Type) != "report" {
					die("managed: stopAllTasks: unrecognised report value")
				}
				for _, el := range cl.Elts {
					kv, ok := el.(*ast.KeyValueExpr)
					if ok && exprString(fsetM, kv.Key) == "err" {
						reportErr = exprString(fsetM, kv.Value)
					}
				}
			}
		}
		return true
	})
	if nAssign != 2 {
		die("managed: stopAllTasks: `err` is assigned %d times (expected: the two receives of the stop routine's result)", nAssign)
	}
	if reportErr == "" {
		die("managed: stopAllTasks: the report has no err field")
	}
	sb.WriteString("/-- stopAllTasks (modules/modules.go): per way its wait ends, how the stop routine's result is received and with\n    which assignment token (\"=\": into the function's own `err`; \":=\": into a new variable of the case clause). -/\ndef stopFetch : List (String × String × String) :=\n  [")
	for i, c := range stopFetch {
		if i > 0 {
			sb.WriteString(", ")
		}
		fmt.Fprintf(&sb, "(%q, %q, %q)", c[0], c[1], c[2])
	}
	sb.WriteString("]\n\n")
	fmt.Fprintf(&sb, "/-- the expression stopAllTasks puts into the `err` field of its report to the pass. -/\ndef stopReportErr : String := %q\n\n", reportErr)

	sb.WriteString("end PB.Gen.Managed\n")
	write("Managed.lean", sb.String())
}

func managedStmtString(fset *token.FileSet, n ast.Node) string {
	var sb strings.Builder
	if err := printer.Fprint(&sb, fset, n); err != nil {
		die("print stmt: %v", err)
	}
	return sb.String()
}

func isBareReturn(st ast.Stmt) bool {
	r, ok := st.(*ast.ReturnStmt)
	return ok && len(r.Results) == 0
}
