package main

func init() { generators["recordsrc"] = genRecordSrc }

// genRecordSrc translates record.Meta.Duplicate (database/record/meta.go) to Lean: PB.Gen.RecordSrc.
func genRecordSrc() {
	translateType(typeCfg{
		dir: "database/record", files: []string{"meta.go"}, typeName: "Meta",
		methods: []string{"Duplicate", "IsDeleted"},
		ns:      "PB.Gen.RecordSrc", outFile: "RecordSrc.lean",
		header:  "/- record.Meta.Duplicate translated by harness/cmd/extract/golean.go (a *Meta is a value). -/\n",
	})
}
