package main

import (
	"fmt"
	"go/ast"
	"go/token"
	"strings"
)

func init() { generators["subs"] = genSubs }

// boolExpr translates a Go boolean expression over the identifiers local/internal and the selectors
// m.secret / m.cronjewel into Lean Bool syntax. Anything else is an unknown shape (fail closed).
func boolExpr(e ast.Expr) string {
	switch x := e.(type) {
	case *ast.ParenExpr:
		return "(" + boolExpr(x.X) + ")"
	case *ast.UnaryExpr:
		if x.Op != token.NOT {
			die("CheckPermission: unexpected unary operator %s", x.Op)
		}
		return "!" + boolExpr(x.X)
	case *ast.BinaryExpr:
		switch x.Op {
		case token.LAND:
			return "(" + boolExpr(x.X) + " && " + boolExpr(x.Y) + ")"
		case token.LOR:
			return "(" + boolExpr(x.X) + " || " + boolExpr(x.Y) + ")"
		}
		die("CheckPermission: unexpected binary operator %s", x.Op)
	case *ast.Ident:
		switch x.Name {
		case "local":
			return "loc"
		case "internal":
			return "int"
		case "true", "false":
			return x.Name
		}
		die("CheckPermission: unexpected identifier %s", x.Name)
	case *ast.SelectorExpr:
		id, ok := x.X.(*ast.Ident)
		if !ok || id.Name != "m" {
			die("CheckPermission: unexpected selector base")
		}
		switch x.Sel.Name {
		case "secret":
			return "secret"
		case "cronjewel":
			return "crownjewel"
		}
		die("CheckPermission: unexpected field m.%s", x.Sel.Name)
	}
	die("CheckPermission: unexpected expression %T", e)
	return ""
}

// genSubs extracts (a) the feed buffer size from Interface.Subscribe and (b) the decision switch of
// Meta.CheckPermission as a Lean function.
func genSubs() {
	var sb strings.Builder
	sb.WriteString("namespace PB.Gen.Subs\n\n")

	// (a) Feed: make(chan record.Record, N) inside Interface.Subscribe
	fset, f := parseFile("database/interface.go")
	fd := findFunc(f, "Subscribe", "Interface")
	if fd == nil {
		die("Interface.Subscribe not found")
	}
	var caps []string
	ast.Inspect(fd.Body, func(n ast.Node) bool {
		kv, ok := n.(*ast.KeyValueExpr)
		if !ok {
			return true
		}
		if id, ok := kv.Key.(*ast.Ident); !ok || id.Name != "Feed" {
			return true
		}
		call, ok := kv.Value.(*ast.CallExpr)
		if !ok {
			die("Subscribe: Feed is not initialised by a call")
		}
		if fn, ok := call.Fun.(*ast.Ident); !ok || fn.Name != "make" || len(call.Args) != 2 {
			die("Subscribe: Feed is not make(chan …, N)")
		}
		if _, ok := call.Args[0].(*ast.ChanType); !ok {
			die("Subscribe: Feed is not a channel")
		}
		caps = append(caps, constVal(fset, call.Args[1]).ExactString())
		return true
	})
	if len(caps) != 1 {
		die("Subscribe: expected exactly one Feed initialiser, found %d", len(caps))
	}
	sb.WriteString("/-- Buffer size of `Subscription.Feed`, regenerated from `Interface.Subscribe` (database/interface.go). -/\n")
	fmt.Fprintf(&sb, "def feedCap : Nat := %s\n\n", caps[0])

	// (b) Meta.CheckPermission: `if m == nil {return false}` followed by a tagless switch of `return <const>` cases
	_, f2 := parseFile("database/record/meta.go")
	cp := findFunc(f2, "CheckPermission", "Meta")
	if cp == nil || len(cp.Body.List) != 2 {
		die("Meta.CheckPermission: unexpected shape")
	}
	if cp.Type.Params == nil || len(cp.Type.Params.List) != 1 || len(cp.Type.Params.List[0].Names) != 2 ||
		cp.Type.Params.List[0].Names[0].Name != "local" || cp.Type.Params.List[0].Names[1].Name != "internal" {
		die("Meta.CheckPermission: parameters are not (local, internal bool)")
	}
	ifs, ok := cp.Body.List[0].(*ast.IfStmt)
	if !ok || exprOf(ifs.Cond) != "m == nil" {
		die("Meta.CheckPermission: first statement is not the nil check")
	}
	sw, ok := cp.Body.List[1].(*ast.SwitchStmt)
	if !ok || sw.Tag != nil || sw.Init != nil {
		die("Meta.CheckPermission: expected a tagless switch")
	}
	sb.WriteString("/-- `Meta.CheckPermission` (database/record/meta.go), regenerated from its switch. -/\n")
	sb.WriteString("def checkPermission (loc int secret crownjewel : Bool) : Bool :=\n")
	def := ""
	for _, st := range sw.Body.List {
		cc := st.(*ast.CaseClause)
		if len(cc.Body) != 1 {
			die("Meta.CheckPermission: case body shape")
		}
		ret, ok := cc.Body[0].(*ast.ReturnStmt)
		if !ok || len(ret.Results) != 1 {
			die("Meta.CheckPermission: case must return one value")
		}
		id, ok := ret.Results[0].(*ast.Ident)
		if !ok || (id.Name != "true" && id.Name != "false") {
			die("Meta.CheckPermission: case must return a boolean literal")
		}
		if cc.List == nil {
			def = id.Name
			continue
		}
		if def != "" {
			die("Meta.CheckPermission: default is not the last case")
		}
		if len(cc.List) != 1 {
			die("Meta.CheckPermission: multi-expression case")
		}
		fmt.Fprintf(&sb, "  if %s then %s else\n", boolExpr(cc.List[0]), id.Name)
	}
	if def == "" {
		die("Meta.CheckPermission: no default case")
	}
	fmt.Fprintf(&sb, "  %s\n\n", def)

	genNotifyLoop(&sb)
	genHookLocks(&sb)
	genRegisterHook(&sb)
	genRegistryPush(&sb)
	genPushUpdateGuard(&sb)

	sb.WriteString("end PB.Gen.Subs\n")
	write("Subs.lean", sb.String())
}

// ---- (c) the loop over c.subscriptions in Controller.notifySubscribers --------------------------------------
//
// For each of the three paths one iteration can take — the record is not for the subscriber (skip), it is and the
// non-blocking send succeeds (sent), it is and the feed is full (full) — the extractor follows the statements of
// the loop body and reports whether the path goes on to the next subscription or leaves the loop (`return`, `break`
// of the loop). It follows: `if` on the permission-and-match condition (or its negation), `select` with exactly the
// send case and a default, `continue`, `return`, unlabelled `break`, calls of verifEvent. Anything else: fail closed.

const (
	flowFall = iota // fell off the end of the statement list
	flowNext        // goes on with the next subscription
	flowExit        // leaves the loop
	flowBreak       // unlabelled break (meaning depends on what encloses it)
)

type notifyPath struct {
	vis, room bool
	sends     int // how often the path went through the select
}

const notifyCond = "r.Meta().CheckPermission(sub.local, sub.internal) && sub.q.Matches(r)"

var notifyNegConds = map[string]bool{
	"!r.Meta().CheckPermission(sub.local, sub.internal) || !sub.q.Matches(r)": true,
	"!(" + notifyCond + ")": true,
}

func isVerifEventCall(e ast.Expr) bool {
	call, ok := e.(*ast.CallExpr)
	if !ok {
		return false
	}
	id, ok := call.Fun.(*ast.Ident)
	return ok && (id.Name == "verifEvent" || id.Name == "verifYield")
}

func (p *notifyPath) flow(fset *token.FileSet, stmts []ast.Stmt) int {
	for _, st := range stmts {
		switch x := st.(type) {
		case *ast.ExprStmt:
			if !isVerifEventCall(x.X) {
				die("notifySubscribers: unexpected statement in the subscriber loop: %s", exprString(fset, x.X))
			}
		case *ast.EmptyStmt:
		case *ast.BranchStmt:
			if x.Label != nil {
				die("notifySubscribers: labelled %s in the subscriber loop", x.Tok)
			}
			switch x.Tok {
			case token.CONTINUE:
				return flowNext
			case token.BREAK:
				return flowBreak
			}
			die("notifySubscribers: unexpected %s in the subscriber loop", x.Tok)
		case *ast.ReturnStmt:
			return flowExit
		case *ast.BlockStmt:
			if f := p.flow(fset, x.List); f != flowFall {
				return f
			}
		case *ast.IfStmt:
			if x.Init != nil {
				die("notifySubscribers: if with init statement in the subscriber loop")
			}
			c := exprString(fset, x.Cond)
			var val bool
			switch {
			case c == notifyCond:
				val = p.vis
			case notifyNegConds[c]:
				val = !p.vis
			default:
				die("notifySubscribers: condition in the subscriber loop is not the permission-and-match test: %s", c)
			}
			f := flowFall
			if val {
				f = p.flow(fset, x.Body.List)
			} else if x.Else != nil {
				f = p.flow(fset, []ast.Stmt{x.Else})
			}
			if f != flowFall {
				return f
			}
		case *ast.SelectStmt:
			if !p.vis {
				die("notifySubscribers: a send is attempted for a record that is not for the subscriber")
			}
			var send, dflt *ast.CommClause
			for _, cl := range x.Body.List {
				cc := cl.(*ast.CommClause)
				if cc.Comm == nil {
					dflt = cc
					continue
				}
				ss, ok := cc.Comm.(*ast.SendStmt)
				if !ok || exprString(fset, ss.Chan) != "sub.Feed" || exprString(fset, ss.Value) != "r" || send != nil {
					die("notifySubscribers: select has a case other than `sub.Feed <- r`")
				}
				send = cc
			}
			if send == nil || dflt == nil || len(x.Body.List) != 2 {
				die("notifySubscribers: select is not {case sub.Feed <- r; default}")
			}
			p.sends++
			body := dflt.Body
			if p.room {
				body = send.Body
			}
			switch f := p.flow(fset, body); f {
			case flowFall, flowBreak: // break inside select ends the select
			default:
				return f
			}
		default:
			die("notifySubscribers: unexpected statement %T in the subscriber loop", st)
		}
	}
	return flowFall
}

func genNotifyLoop(sb *strings.Builder) {
	fset, f := parseFile("database/controller.go")
	fd := findFunc(f, "notifySubscribers", "Controller")
	if fd == nil {
		die("Controller.notifySubscribers not found")
	}
	var loops []*ast.RangeStmt
	ast.Inspect(fd.Body, func(n ast.Node) bool {
		switch x := n.(type) {
		case *ast.RangeStmt:
			loops = append(loops, x)
		case *ast.ForStmt, *ast.GoStmt, *ast.FuncLit, *ast.LabeledStmt:
			die("notifySubscribers: unexpected %T", x)
		}
		return true
	})
	if len(loops) != 1 {
		die("notifySubscribers: expected exactly one range loop, found %d", len(loops))
	}
	loop := loops[0]
	if exprString(fset, loop.X) != "c.subscriptions" {
		die("notifySubscribers: the loop does not range over c.subscriptions")
	}
	if v, ok := loop.Value.(*ast.Ident); !ok || v.Name != "sub" {
		die("notifySubscribers: loop variable is not `sub`")
	}
	// the loop is a top-level statement of the function and nothing but deferred calls / events surrounds it
	top := false
	for _, st := range fd.Body.List {
		if st == ast.Stmt(loop) {
			top = true
		}
	}
	if !top {
		die("notifySubscribers: the subscriber loop is not a top-level statement")
	}
	exits := func(name string, vis, room bool) bool {
		p := &notifyPath{vis: vis, room: room}
		fl := p.flow(fset, loop.Body.List)
		want := 0
		if vis {
			want = 1
		}
		if p.sends != want {
			die("notifySubscribers: path %q goes through the select %d times (expected %d)", name, p.sends, want)
		}
		return fl == flowExit || fl == flowBreak // a break directly in the loop body leaves the loop
	}
	sb.WriteString("/-- The loop over `c.subscriptions` in `Controller.notifySubscribers` (database/controller.go), regenerated:\n")
	sb.WriteString("    does an iteration that took the named path leave the loop (`return` / `break`) instead of going on with the\n")
	sb.WriteString("    next subscription? skip = the record is not for this subscriber; sent = the non-blocking send succeeded;\n")
	sb.WriteString("    full = the `default:` branch (feed buffer full). -/\n")
	fmt.Fprintf(sb, "def notifySkipExits : Bool := %v\n", exits("skip", false, false))
	fmt.Fprintf(sb, "def notifySentExits : Bool := %v\n", exits("sent", true, true))
	fmt.Fprintf(sb, "def notifyFullExits : Bool := %v\n\n", exits("full", true, false))
}

// ---- (d) hooksLock around the hook calls ------------------------------------------------------------------
//
// runPreGetHooks / runPostGetHooks / runPrePutHooks: `c.hooksLock.RLock()` as a top-level statement, then either
// `defer c.hooksLock.RUnlock()` (the lock is held until the function returns, i.e. during every hook call), or one
// plain `c.hooksLock.RUnlock()` at top level that comes before the (only) call of the hook method (the calls are made
// without the lock). RegisteredHook.Cancel: `c.hooksLock.Lock()` + `defer c.hooksLock.Unlock()` (exclusive) or
// `RLock`/`RUnlock` (shared). Anything else: fail closed.

func hookRunnerUnderLock(fset *token.FileSet, f *ast.File, fn, method string) bool {
	fd := findFunc(f, fn, "Controller")
	if fd == nil {
		die("Controller.%s not found", fn)
	}
	lockAt, deferAt, plainAt := -1, -1, -1
	for i, st := range fd.Body.List {
		switch x := st.(type) {
		case *ast.ExprStmt:
			switch exprString(fset, x.X) {
			case "c.hooksLock.RLock()":
				if lockAt >= 0 {
					die("%s: hooksLock.RLock() twice", fn)
				}
				lockAt = i
			case "c.hooksLock.RUnlock()":
				if plainAt >= 0 {
					die("%s: hooksLock.RUnlock() twice", fn)
				}
				plainAt = i
			}
		case *ast.DeferStmt:
			if exprString(fset, x.Call) == "c.hooksLock.RUnlock()" {
				if deferAt >= 0 {
					die("%s: deferred RUnlock twice", fn)
				}
				deferAt = i
			}
		}
	}
	nLock, nUnlock, nCalls := 0, 0, 0
	var callPos token.Pos
	ast.Inspect(fd.Body, func(n ast.Node) bool {
		switch x := n.(type) {
		case *ast.GoStmt, *ast.FuncLit:
			die("%s: unexpected %T", fn, x)
		case *ast.CallExpr:
			if sel, ok := x.Fun.(*ast.SelectorExpr); ok {
				switch {
				case sel.Sel.Name == method:
					nCalls++
					callPos = x.Pos()
				case exprString(fset, sel.X) == "c.hooksLock":
					switch sel.Sel.Name {
					case "RLock":
						nLock++
					case "RUnlock":
						nUnlock++
					default:
						die("%s: unexpected c.hooksLock.%s()", fn, sel.Sel.Name)
					}
				}
			}
		}
		return true
	})
	if lockAt < 0 || nLock != 1 || nUnlock != 1 || nCalls != 1 {
		die("%s: expected one top-level RLock, one RUnlock and one call of %s (found %d/%d/%d)", fn, method, nLock, nUnlock, nCalls)
	}
	switch {
	case deferAt > lockAt && plainAt < 0:
		if callPos < fd.Body.List[deferAt].End() {
			die("%s: the hook is called before the lock is taken", fn)
		}
		return true
	case plainAt > lockAt && deferAt < 0:
		if callPos > fd.Body.List[plainAt].End() {
			return false // unlocked before the hooks are called
		}
		die("%s: plain RUnlock after the hook call: unknown shape (early returns would leak the lock)", fn)
	}
	die("%s: unknown locking shape", fn)
	return false
}

func genHookLocks(sb *strings.Builder) {
	fset, f := parseFile("database/controller.go")
	sb.WriteString("/-- Is `hooksLock` (read) held while the hooks are called? Regenerated from `runPreGetHooks` / `runPostGetHooks` /\n")
	sb.WriteString("    `runPrePutHooks` (database/controller.go): `RLock(); defer RUnlock()` = true, `RUnlock()` before the call = false. -/\n")
	fmt.Fprintf(sb, "def preGetCallsUnderLock : Bool := %v\n", hookRunnerUnderLock(fset, f, "runPreGetHooks", "PreGet"))
	fmt.Fprintf(sb, "def postGetCallsUnderLock : Bool := %v\n", hookRunnerUnderLock(fset, f, "runPostGetHooks", "PostGet"))
	fmt.Fprintf(sb, "def prePutCallsUnderLock : Bool := %v\n\n", hookRunnerUnderLock(fset, f, "runPrePutHooks", "PrePut"))

	fset2, f2 := parseFile("database/hook.go")
	fd := findFunc(f2, "Cancel", "RegisteredHook")
	if fd == nil {
		die("RegisteredHook.Cancel not found")
	}
	var seq []string
	for _, st := range fd.Body.List {
		switch x := st.(type) {
		case *ast.ExprStmt:
			if s := exprString(fset2, x.X); strings.HasPrefix(s, "c.hooksLock.") {
				seq = append(seq, s)
			}
		case *ast.DeferStmt:
			if s := exprString(fset2, x.Call); strings.HasPrefix(s, "c.hooksLock.") {
				seq = append(seq, "defer "+s)
			}
		}
	}
	n := 0
	ast.Inspect(fd.Body, func(nd ast.Node) bool {
		switch x := nd.(type) {
		case *ast.GoStmt, *ast.FuncLit:
			die("RegisteredHook.Cancel: unexpected %T", x)
		case *ast.SelectorExpr:
			if exprString(fset2, x.X) == "c.hooksLock" {
				n++
			}
		}
		return true
	})
	excl := false
	switch strings.Join(seq, "; ") {
	case "c.hooksLock.Lock(); defer c.hooksLock.Unlock()":
		excl = true
	case "c.hooksLock.RLock(); defer c.hooksLock.RUnlock()":
	default:
		die("RegisteredHook.Cancel: unknown locking shape: %s", strings.Join(seq, "; "))
	}
	if n != 2 {
		die("RegisteredHook.Cancel: hooksLock used %d times", n)
	}
	// the removal must come after the lock statement
	lockEnd := token.NoPos
	for _, st := range fd.Body.List {
		if d, ok := st.(*ast.DeferStmt); ok && strings.HasPrefix(exprString(fset2, d.Call), "c.hooksLock.") {
			lockEnd = d.End()
		}
	}
	ast.Inspect(fd.Body, func(nd ast.Node) bool {
		if as, ok := nd.(*ast.AssignStmt); ok && len(as.Lhs) == 1 && exprString(fset2, as.Lhs[0]) == "c.hooks" && as.Pos() < lockEnd {
			die("RegisteredHook.Cancel: c.hooks is changed before the lock is taken")
		}
		return true
	})
	// the removal itself: the one loop over c.hooks takes out the entry that IS this registration (`hook == h`) — not one
	// that merely has the same query or the same hook value — and only that one
	var loops []*ast.RangeStmt
	ast.Inspect(fd.Body, func(nd ast.Node) bool {
		if rs, ok := nd.(*ast.RangeStmt); ok {
			loops = append(loops, rs)
		}
		if _, ok := nd.(*ast.ForStmt); ok {
			die("RegisteredHook.Cancel: unexpected for statement")
		}
		return true
	})
	if len(loops) != 1 || exprString(fset2, loops[0].X) != "c.hooks" || len(loops[0].Body.List) != 1 {
		die("RegisteredHook.Cancel: expected one loop over c.hooks with one statement")
	}
	ifs, ok := loops[0].Body.List[0].(*ast.IfStmt)
	kn, vn := "", ""
	if id, ok := loops[0].Key.(*ast.Ident); ok {
		kn = id.Name
	}
	if id, ok := loops[0].Value.(*ast.Ident); ok {
		vn = id.Name
	}
	if !ok || ifs.Init != nil || ifs.Else != nil || kn == "" || vn == "" || (exprString(fset2, ifs.Cond) != vn+" == h" && exprString(fset2, ifs.Cond) != "h == "+vn) {
		die("RegisteredHook.Cancel: the loop does not test `%s == h` (the registration itself)", vn)
	}
	var body []string
	for _, st := range ifs.Body.List {
		switch x := st.(type) {
		case *ast.AssignStmt:
			if len(x.Lhs) != 1 || len(x.Rhs) != 1 {
				die("RegisteredHook.Cancel: unexpected assignment in the removal")
			}
			body = append(body, exprString(fset2, x.Lhs[0])+" "+x.Tok.String()+" "+exprString(fset2, x.Rhs[0]))
		case *ast.ReturnStmt:
			body = append(body, "return")
		case *ast.ExprStmt:
			if !isVerifEventCall(x.X) {
				die("RegisteredHook.Cancel: unexpected statement in the removal")
			}
		default:
			die("RegisteredHook.Cancel: unexpected statement %T in the removal", st)
		}
	}
	if got, want := strings.Join(body, "; "), "c.hooks = append(c.hooks[:"+kn+"], c.hooks["+kn+"+1:]...); return"; got != want {
		die("RegisteredHook.Cancel: the removal is not `%s` but `%s`", want, got)
	}
	sb.WriteString("/-- Does `RegisteredHook.Cancel` (database/hook.go) hold `hooksLock` exclusively (`Lock(); defer Unlock()`) while it\n")
	sb.WriteString("    removes the hook? -/\n")
	fmt.Fprintf(sb, "def hookCancelWriteLocked : Bool := %v\n\n", excl)
}

// ---- (e) RegisterHook: every call makes its own list entry ---------------------------------------------------
//
// After the query check and getController: `rh := &RegisteredHook{q: q, h: hook}` (both fields, from the two
// parameters), `c.hooksLock.Lock()`, `defer c.hooksLock.Unlock()`, `c.hooks = append(c.hooks, rh)`, `return rh, nil`
// — and nothing else that reads or writes c.hooks or returns another registration. Anything else: fail closed.

func genRegisterHook(sb *strings.Builder) {
	fset, f := parseFile("database/hook.go")
	fd := findFunc(f, "RegisterHook", "")
	if fd == nil {
		die("RegisterHook not found")
	}
	if fd.Type.Params == nil || len(fd.Type.Params.List) != 2 || len(fd.Type.Params.List[0].Names) != 1 || len(fd.Type.Params.List[1].Names) != 1 ||
		fd.Type.Params.List[0].Names[0].Name != "q" || fd.Type.Params.List[1].Names[0].Name != "hook" {
		die("RegisterHook: parameters are not (q, hook)")
	}
	// statements from the lock on
	lockAt := -1
	for i, st := range fd.Body.List {
		if es, ok := st.(*ast.ExprStmt); ok && exprString(fset, es.X) == "c.hooksLock.Lock()" {
			lockAt = i
		}
	}
	if lockAt < 0 {
		die("RegisterHook: c.hooksLock.Lock() is not a top-level statement")
	}
	var tail []string
	for _, st := range fd.Body.List[lockAt:] {
		switch x := st.(type) {
		case *ast.ExprStmt:
			if isVerifEventCall(x.X) {
				continue
			}
			tail = append(tail, exprString(fset, x.X))
		case *ast.DeferStmt:
			tail = append(tail, "defer "+exprString(fset, x.Call))
		case *ast.AssignStmt:
			if len(x.Lhs) != 1 || len(x.Rhs) != 1 {
				die("RegisterHook: unexpected assignment under the lock")
			}
			tail = append(tail, exprString(fset, x.Lhs[0])+" "+x.Tok.String()+" "+exprString(fset, x.Rhs[0]))
		case *ast.ReturnStmt:
			var rs []string
			for _, r := range x.Results {
				rs = append(rs, exprString(fset, r))
			}
			tail = append(tail, "return "+strings.Join(rs, ", "))
		default:
			die("RegisterHook: unexpected statement %T under hooksLock (every call must append its own registration)", st)
		}
	}
	want := "c.hooksLock.Lock(); defer c.hooksLock.Unlock(); c.hooks = append(c.hooks, rh); return rh, nil"
	if got := strings.Join(tail, "; "); got != want {
		die("RegisterHook: the locked section is not `%s` but `%s`", want, got)
	}
	// rh is the fresh registration made of the two parameters, and c.hooks is touched nowhere else
	nrh, nhooks := 0, 0
	ast.Inspect(fd.Body, func(n ast.Node) bool {
		switch x := n.(type) {
		case *ast.GoStmt, *ast.FuncLit:
			die("RegisterHook: unexpected %T", x)
		case *ast.AssignStmt:
			for i, l := range x.Lhs {
				if id, ok := l.(*ast.Ident); ok && id.Name == "rh" {
					nrh++
					if len(x.Rhs) != len(x.Lhs) {
						die("RegisterHook: rh is assigned from a multi-value expression")
					}
					s := strings.Join(strings.Fields(exprString(fset, x.Rhs[i])), " ")
					s = strings.NewReplacer("{ ", "{", ", }", "}", " }", "}").Replace(s)
					if s != "&RegisteredHook{q: q, h: hook}" {
						die("RegisterHook: rh is not &RegisteredHook{q: q, h: hook} but %s", s)
					}
				}
			}
		case *ast.SelectorExpr:
			if exprString(fset, x) == "c.hooks" {
				nhooks++
			}
		}
		return true
	})
	if nrh != 1 || nhooks != 2 {
		die("RegisterHook: rh assigned %d times, c.hooks used %d times (expected 1 and 2)", nrh, nhooks)
	}
	sb.WriteString("/-- `RegisterHook` (database/hook.go), regenerated: under `hooksLock` (exclusive) it appends a fresh\n")
	sb.WriteString("    `&RegisteredHook{q, hook}` to `c.hooks` and returns it — unconditionally: the list and the hook value are not looked at. -/\n")
	sb.WriteString("def registerHookAlwaysAppends : Bool := true\n\n")
}

// ---- (f) runtime.Registry: which controller does the PushFunc that Register returns push to? ---------------------
//
// The function literal `Register` returns calls `<X>.PushUpdate(rec)` in a range loop over its variadic parameter.
// X = `r.dbController` with `r.l.RLock()` + `defer r.l.RUnlock()` as the literal's first statements: the controller is
// read when the function is called (true). X = a local of Register that was set from `r.dbController` outside the
// literal: it is the controller the registry had when the provider was registered (false). Anything else: fail closed.
// InjectAsDatabase must set r.dbController under r.l.Lock() and refuse a second injection.

func genRegistryPush(sb *strings.Builder) {
	fset, f := parseFile("runtime/registry.go")
	fd := findFunc(f, "Register", "Registry")
	if fd == nil {
		die("Registry.Register not found")
	}
	if fd.Recv == nil || len(fd.Recv.List) != 1 || len(fd.Recv.List[0].Names) != 1 || fd.Recv.List[0].Names[0].Name != "r" {
		die("Registry.Register: receiver is not named r")
	}
	var lit *ast.FuncLit
	nlits := 0
	for _, st := range fd.Body.List {
		if ret, ok := st.(*ast.ReturnStmt); ok && len(ret.Results) == 2 {
			if fl, ok := ret.Results[0].(*ast.FuncLit); ok {
				lit = fl
				nlits++
			}
		}
	}
	if lit == nil || nlits != 1 {
		die("Registry.Register: expected exactly one top-level `return func(records ...record.Record) {…}, nil`")
	}
	if lit.Type.Params == nil || len(lit.Type.Params.List) != 1 || len(lit.Type.Params.List[0].Names) != 1 {
		die("Registry.Register: the push function does not have one (variadic) parameter")
	}
	if _, ok := lit.Type.Params.List[0].Type.(*ast.Ellipsis); !ok {
		die("Registry.Register: the push function's parameter is not variadic")
	}
	param := lit.Type.Params.List[0].Names[0].Name
	// the calls of PushUpdate inside the literal
	var recvs []string
	var loopOK bool
	ast.Inspect(lit.Body, func(n ast.Node) bool {
		switch x := n.(type) {
		case *ast.GoStmt, *ast.FuncLit:
			die("Registry.Register: unexpected %T in the push function", x)
		case *ast.RangeStmt:
			if exprString(fset, x.X) == param && len(x.Body.List) == 1 {
				if es, ok := x.Body.List[0].(*ast.ExprStmt); ok {
					if call, ok := es.X.(*ast.CallExpr); ok && len(call.Args) == 1 {
						if v, ok := x.Value.(*ast.Ident); ok && exprString(fset, call.Args[0]) == v.Name {
							loopOK = true
						}
					}
				}
			}
		case *ast.CallExpr:
			if sel, ok := x.Fun.(*ast.SelectorExpr); ok && sel.Sel.Name == "PushUpdate" {
				recvs = append(recvs, exprString(fset, sel.X))
			}
		}
		return true
	})
	if len(recvs) != 1 || !loopOK {
		die("Registry.Register: the push function is not one loop `for _, rec := range %s { X.PushUpdate(rec) }`", param)
	}
	// top-level statements of the literal: optional lock pair, optional nil guard on X, the loop
	var shape []string
	for _, st := range lit.Body.List {
		switch x := st.(type) {
		case *ast.ExprStmt:
			shape = append(shape, exprString(fset, x.X))
		case *ast.DeferStmt:
			shape = append(shape, "defer "+exprString(fset, x.Call))
		case *ast.IfStmt:
			if x.Init != nil || x.Else != nil || len(x.Body.List) != 1 {
				die("Registry.Register: unexpected if in the push function")
			}
			if ret, ok := x.Body.List[0].(*ast.ReturnStmt); !ok || len(ret.Results) != 0 {
				die("Registry.Register: the if in the push function does not just return")
			}
			shape = append(shape, "if "+exprString(fset, x.Cond)+" return")
		case *ast.RangeStmt:
			shape = append(shape, "loop")
		default:
			die("Registry.Register: unexpected statement %T in the push function", st)
		}
	}
	x := recvs[0]
	atPush := false
	switch strings.Join(shape, "; ") {
	case "r.l.RLock(); defer r.l.RUnlock(); if " + x + " == nil return; loop", "r.l.RLock(); defer r.l.RUnlock(); loop":
		if x != "r.dbController" {
			die("Registry.Register: the push function locks the registry but pushes to %s", x)
		}
		atPush = true
	case "if " + x + " == nil return; loop", "loop":
		// no lock: X must be a local of Register bound once from r.dbController, outside the literal
		if id, ok := lit.Body.List[len(lit.Body.List)-1].(*ast.RangeStmt); !ok || id == nil {
			die("Registry.Register: unknown shape of the push function")
		}
		bound := 0
		for _, st := range fd.Body.List {
			if as, ok := st.(*ast.AssignStmt); ok && len(as.Lhs) == 1 && len(as.Rhs) == 1 && exprString(fset, as.Lhs[0]) == x {
				if exprString(fset, as.Rhs[0]) != "r.dbController" {
					die("Registry.Register: %s is bound to %s", x, exprString(fset, as.Rhs[0]))
				}
				bound++
			}
		}
		if bound != 1 {
			die("Registry.Register: the push function pushes to %s, which is not a local bound once to r.dbController", x)
		}
	default:
		die("Registry.Register: unknown shape of the push function: %s", strings.Join(shape, "; "))
	}
	// InjectAsDatabase: exclusive lock, refuses when r.dbController != nil, sets r.dbController to what InjectDatabase returned
	inj := findFunc(f, "InjectAsDatabase", "Registry")
	if inj == nil {
		die("Registry.InjectAsDatabase not found")
	}
	var ishape []string
	for _, st := range inj.Body.List {
		switch y := st.(type) {
		case *ast.ExprStmt:
			ishape = append(ishape, exprString(fset, y.X))
		case *ast.DeferStmt:
			ishape = append(ishape, "defer "+exprString(fset, y.Call))
		case *ast.IfStmt:
			ishape = append(ishape, "if "+exprString(fset, y.Cond))
		case *ast.AssignStmt:
			var l, r []string
			for _, e := range y.Lhs {
				l = append(l, exprString(fset, e))
			}
			for _, e := range y.Rhs {
				r = append(r, exprString(fset, e))
			}
			ishape = append(ishape, strings.Join(l, ", ")+" "+y.Tok.String()+" "+strings.Join(r, ", "))
		case *ast.ReturnStmt:
			ishape = append(ishape, "return")
		default:
			die("Registry.InjectAsDatabase: unexpected statement %T", st)
		}
	}
	wantInj := "r.l.Lock(); defer r.l.Unlock(); if r.dbController != nil; ctrl, err := database.InjectDatabase(name, r.asStorage()); if err != nil; r.dbName = name; r.dbController = ctrl; return"
	if got := strings.Join(ishape, "; "); got != wantInj {
		die("Registry.InjectAsDatabase: unknown shape: %s", got)
	}
	sb.WriteString("/-- The `PushFunc` that `Registry.Register` (runtime/registry.go) returns, regenerated: does it read `r.dbController`\n")
	sb.WriteString("    (under the registry lock) each time it is called (true), or does it push to the controller the registry had when\n")
	sb.WriteString("    the provider was registered (false)? -/\n")
	fmt.Fprintf(sb, "def pushReadsControllerAtPush : Bool := %v\n\n", atPush)
}

// Controller.PushUpdate must be exactly
//   if c != nil { if <guard> { return }; [verifEvent(…);] c.notifySubscribers(r) }
// with <guard> a disjunction of `shuttingDown.IsSet()` (required) and, possibly, `c.ReadOnly()` / `c.storage.ReadOnly()`
// (the guard Put has: a database whose storage accepts no Put pushes nothing — reported as pushUpdateSkipsReadOnly).
// Any other disjunct, operator or statement: fail closed.
func genPushUpdateGuard(sb *strings.Builder) {
	fset, f := parseFile("database/controller.go")
	fd := findFunc(f, "PushUpdate", "Controller")
	if fd == nil {
		die("Controller.PushUpdate not found")
	}
	if fd.Recv == nil || len(fd.Recv.List) != 1 || len(fd.Recv.List[0].Names) != 1 || fd.Recv.List[0].Names[0].Name != "c" {
		die("Controller.PushUpdate: receiver is not named c")
	}
	if fd.Type.Params == nil || len(fd.Type.Params.List) != 1 || len(fd.Type.Params.List[0].Names) != 1 {
		die("Controller.PushUpdate: expected one parameter")
	}
	param := fd.Type.Params.List[0].Names[0].Name
	if len(fd.Body.List) != 1 {
		die("Controller.PushUpdate: expected the single statement `if c != nil {…}`")
	}
	outer, ok := fd.Body.List[0].(*ast.IfStmt)
	if !ok || outer.Init != nil || outer.Else != nil || exprString(fset, outer.Cond) != "c != nil" {
		die("Controller.PushUpdate: expected the single statement `if c != nil {…}` without else")
	}
	var disjuncts func(e ast.Expr) []string
	disjuncts = func(e ast.Expr) []string {
		switch x := e.(type) {
		case *ast.ParenExpr:
			return disjuncts(x.X)
		case *ast.BinaryExpr:
			if x.Op == token.LOR {
				return append(disjuncts(x.X), disjuncts(x.Y)...)
			}
		}
		return []string{exprString(fset, e)}
	}
	guards, shutdown, readOnly, notified := 0, false, false, 0
	for _, st := range outer.Body.List {
		switch x := st.(type) {
		case *ast.IfStmt:
			if notified > 0 || x.Init != nil || x.Else != nil || len(x.Body.List) != 1 {
				die("Controller.PushUpdate: unexpected if statement: %s", exprString(fset, x.Cond))
			}
			if ret, ok := x.Body.List[0].(*ast.ReturnStmt); !ok || len(ret.Results) != 0 {
				die("Controller.PushUpdate: a guard does something else than return")
			}
			guards++
			for _, d := range disjuncts(x.Cond) {
				switch d {
				case "shuttingDown.IsSet()":
					shutdown = true
				case "c.ReadOnly()", "c.storage.ReadOnly()":
					readOnly = true
				default:
					die("Controller.PushUpdate: unknown condition under which a pushed update is dropped: %s", d)
				}
			}
		case *ast.ExprStmt:
			if isVerifEventCall(x.X) {
				continue
			}
			if exprString(fset, x.X) != "c.notifySubscribers("+param+")" {
				die("Controller.PushUpdate: unexpected statement: %s", exprString(fset, x.X))
			}
			notified++
		default:
			die("Controller.PushUpdate: unexpected statement %T", st)
		}
	}
	if !shutdown || notified != 1 || guards > 2 {
		die("Controller.PushUpdate: expected the shutdown guard and exactly one c.notifySubscribers(%s)", param)
	}
	sb.WriteString("/-- `Controller.PushUpdate` (database/controller.go), regenerated from its guards: is a pushed update dropped when the\n")
	sb.WriteString("    storage says `ReadOnly()` (the guard `Put` has), besides the shutdown guard? Nothing else may stand between the\n")
	sb.WriteString("    call and `notifySubscribers`. -/\n")
	fmt.Fprintf(sb, "def pushUpdateSkipsReadOnly : Bool := %v\n\n", readOnly)
}

func exprOf(e ast.Expr) string {
	be, ok := e.(*ast.BinaryExpr)
	if !ok {
		return ""
	}
	x, ok1 := be.X.(*ast.Ident)
	y, ok2 := be.Y.(*ast.Ident)
	if !ok1 || !ok2 {
		return ""
	}
	return x.Name + " " + be.Op.String() + " " + y.Name
}
