package main

import (
	"fmt"
	"go/ast"
	"go/token"
	"strings"
)

func init() { generators["subs"] = genSubs }

// boolExpr translates a Go boolean expression over the identifiers local/internal and the selectors
// m.secret / m.cronjewel into Lean Bool syntax. Anything else is an unknown shape (fail closed).
func boolExpr(e ast.Expr) string {
	switch x := e.(type) {
	case *ast.ParenExpr:
		return "(" + boolExpr(x.X) + ")"
	case *ast.UnaryExpr:
		if x.Op != token.NOT {
			die("CheckPermission: unexpected unary operator %s", x.Op)
		}
		return "!" + boolExpr(x.X)
	case *ast.BinaryExpr:
		switch x.Op {
		case token.LAND:
			return "(" + boolExpr(x.X) + " && " + boolExpr(x.Y) + ")"
		case token.LOR:
			return "(" + boolExpr(x.X) + " || " + boolExpr(x.Y) + ")"
		}
		die("CheckPermission: unexpected binary operator %s", x.Op)
	case *ast.Ident:
		switch x.Name {
		case "local":
			return "loc"
		case "internal":
			return "int"
		case "true", "false":
			return x.Name
		}
		die("CheckPermission: unexpected identifier %s", x.Name)
	case *ast.SelectorExpr:
		id, ok := x.X.(*ast.Ident)
		if !ok || id.Name != "m" {
			die("CheckPermission: unexpected selector base")
		}
		switch x.Sel.Name {
		case "secret":
			return "secret"
		case "cronjewel":
			return "crownjewel"
		}
		die("CheckPermission: unexpected field m.%s", x.Sel.Name)
	}
	die("CheckPermission: unexpected expression %T", e)
	return ""
}

// genSubs extracts (a) the feed buffer size from Interface.Subscribe and (b) the decision switch of
// Meta.CheckPermission as a Lean function.
func genSubs() {
	var sb strings.Builder
	sb.WriteString("namespace PB.Gen.Subs\n\n")

	// (a) Feed: make(chan record.Record, N) inside Interface.Subscribe
	fset, f := parseFile("database/interface.go")
	fd := findFunc(f, "Subscribe", "Interface")
	if fd == nil {
		die("Interface.Subscribe not found")
	}
	var caps []string
	ast.Inspect(fd.Body, func(n ast.Node) bool {
		kv, ok := n.(*ast.KeyValueExpr)
		if !ok {
			return true
		}
		if id, ok := kv.Key.(*ast.Ident); !ok || id.Name != "Feed" {
			return true
		}
		call, ok := kv.Value.(*ast.CallExpr)
		if !ok {
			die("Subscribe: Feed is not initialised by a call")
		}
		if fn, ok := call.Fun.(*ast.Ident); !ok || fn.Name != "make" || len(call.Args) != 2 {
			die("Subscribe: Feed is not make(chan …, N)")
		}
		if _, ok := call.Args[0].(*ast.ChanType); !ok {
			die("Subscribe: Feed is not a channel")
		}
		caps = append(caps, constVal(fset, call.Args[1]).ExactString())
		return true
	})
	if len(caps) != 1 {
		die("Subscribe: expected exactly one Feed initialiser, found %d", len(caps))
	}
	sb.WriteString("/-- Buffer size of `Subscription.Feed`, regenerated from `Interface.Subscribe` (database/interface.go). -/\n")
	fmt.Fprintf(&sb, "def feedCap : Nat := %s\n\n", caps[0])

	// (b) Meta.CheckPermission: `if m == nil {return false}` followed by a tagless switch of `return <const>` cases
	_, f2 := parseFile("database/record/meta.go")
	cp := findFunc(f2, "CheckPermission", "Meta")
	if cp == nil || len(cp.Body.List) != 2 {
		die("Meta.CheckPermission: unexpected shape")
	}
	if cp.Type.Params == nil || len(cp.Type.Params.List) != 1 || len(cp.Type.Params.List[0].Names) != 2 ||
		cp.Type.Params.List[0].Names[0].Name != "local" || cp.Type.Params.List[0].Names[1].Name != "internal" {
		die("Meta.CheckPermission: parameters are not (local, internal bool)")
	}
	ifs, ok := cp.Body.List[0].(*ast.IfStmt)
	if !ok || exprOf(ifs.Cond) != "m == nil" {
		die("Meta.CheckPermission: first statement is not the nil check")
	}
	sw, ok := cp.Body.List[1].(*ast.SwitchStmt)
	if !ok || sw.Tag != nil || sw.Init != nil {
		die("Meta.CheckPermission: expected a tagless switch")
	}
	sb.WriteString("/-- `Meta.CheckPermission` (database/record/meta.go), regenerated from its switch. -/\n")
	sb.WriteString("def checkPermission (loc int secret crownjewel : Bool) : Bool :=\n")
	def := ""
	for _, st := range sw.Body.List {
		cc := st.(*ast.CaseClause)
		if len(cc.Body) != 1 {
			die("Meta.CheckPermission: case body shape")
		}
		ret, ok := cc.Body[0].(*ast.ReturnStmt)
		if !ok || len(ret.Results) != 1 {
			die("Meta.CheckPermission: case must return one value")
		}
		id, ok := ret.Results[0].(*ast.Ident)
		if !ok || (id.Name != "true" && id.Name != "false") {
			die("Meta.CheckPermission: case must return a boolean literal")
		}
		if cc.List == nil {
			def = id.Name
			continue
		}
		if def != "" {
			die("Meta.CheckPermission: default is not the last case")
		}
		if len(cc.List) != 1 {
			die("Meta.CheckPermission: multi-expression case")
		}
		fmt.Fprintf(&sb, "  if %s then %s else\n", boolExpr(cc.List[0]), id.Name)
	}
	if def == "" {
		die("Meta.CheckPermission: no default case")
	}
	fmt.Fprintf(&sb, "  %s\n\nend PB.Gen.Subs\n", def)
	write("Subs.lean", sb.String())
}

func exprOf(e ast.Expr) string {
	be, ok := e.(*ast.BinaryExpr)
	if !ok {
		return ""
	}
	x, ok1 := be.X.(*ast.Ident)
	y, ok2 := be.Y.(*ast.Ident)
	if !ok1 || !ok2 {
		return ""
	}
	return x.Name + " " + be.Op.String() + " " + y.Name
}
