package main

import (
	"fmt"
	"go/ast"
	"go/token"
	"sort"
	"strings"
)

func init() { generators["record"] = genRecord }

type layoutEntry struct {
	idx   int64
	field string
	shift int64
}

func constInt(fset *token.FileSet, e ast.Expr) int64 {
	v := constVal(fset, e)
	n, ok := constantInt64(v)
	if !ok {
		die("not an int constant: %s", exprString(fset, e))
	}
	return n
}

// genRecord extracts the byte layout of Meta.GenCodeMarshal / GenCodeUnmarshal / GenCodeSize
// (database/record/meta-gencode.go) and the record format constants used by wrapper.go / base.go.
func genRecord() {
	fset, f := parseFile("database/record/meta-gencode.go")
	var sb strings.Builder
	sb.WriteString("namespace PB.Gen.Record\n\n")

	// GenCodeSize: `s += N`
	fd := findFunc(f, "GenCodeSize", "Meta")
	if fd == nil {
		die("GenCodeSize not found")
	}
	size := int64(-1)
	for _, st := range fd.Body.List {
		if as, ok := st.(*ast.AssignStmt); ok && as.Tok == token.ADD_ASSIGN && len(as.Rhs) == 1 {
			if size >= 0 {
				die("GenCodeSize: more than one increment")
			}
			size = constInt(fset, as.Rhs[0])
		} else if _, ok := st.(*ast.ReturnStmt); !ok {
			die("GenCodeSize: unexpected statement")
		}
	}
	if size < 0 {
		die("GenCodeSize: no increment found")
	}
	fmt.Fprintf(&sb, "def size : Nat := %d\n\n", size)

	// GenCodeMarshal
	fd = findFunc(f, "GenCodeMarshal", "Meta")
	if fd == nil {
		die("GenCodeMarshal not found")
	}
	var ints []layoutEntry
	type flagEntry struct {
		idx   int64
		field string
		t, e  int64
	}
	var flags []flagEntry
	var walk func(stmts []ast.Stmt, top bool)
	walk = func(stmts []ast.Stmt, top bool) {
		for _, st := range stmts {
			switch s := st.(type) {
			case *ast.BlockStmt:
				walk(s.List, false)
			case *ast.AssignStmt:
				if len(s.Lhs) != 1 || len(s.Rhs) != 1 {
					die("GenCodeMarshal: assignment shape")
				}
				ix, ok := s.Lhs[0].(*ast.IndexExpr)
				if !ok {
					if top {
						continue // size := …, i := uint64(0)
					}
					die("GenCodeMarshal: unexpected assignment %s", exprString(fset, s.Lhs[0]))
				}
				if id, ok := ix.X.(*ast.Ident); !ok || id.Name != "buf" {
					die("GenCodeMarshal: assignment target is not buf[...]")
				}
				call, ok := s.Rhs[0].(*ast.CallExpr)
				if !ok || exprString(fset, call.Fun) != "byte" || len(call.Args) != 1 {
					die("GenCodeMarshal: rhs is not byte(...)")
				}
				be, ok := call.Args[0].(*ast.BinaryExpr)
				if !ok || be.Op != token.SHR {
					die("GenCodeMarshal: rhs is not a right shift")
				}
				sel, ok := be.X.(*ast.SelectorExpr)
				if !ok || exprString(fset, sel.X) != "m" {
					die("GenCodeMarshal: shifted value is not m.Field")
				}
				ints = append(ints, layoutEntry{constInt(fset, ix.Index), sel.Sel.Name, constInt(fset, be.Y)})
			case *ast.IfStmt:
				if top {
					continue // never at top level in this file
				}
				sel, ok := s.Cond.(*ast.SelectorExpr)
				if !ok || exprString(fset, sel.X) != "m" {
					if exprString(fset, s.Cond) == "cap(buf) >= size" {
						continue
					}
					die("GenCodeMarshal: unexpected if condition %s", exprString(fset, s.Cond))
				}
				get := func(b *ast.BlockStmt) (int64, int64) {
					if len(b.List) != 1 {
						die("GenCodeMarshal: flag branch shape")
					}
					as := b.List[0].(*ast.AssignStmt)
					ix := as.Lhs[0].(*ast.IndexExpr)
					return constInt(fset, ix.Index), constInt(fset, as.Rhs[0])
				}
				i1, v1 := get(s.Body)
				eb, ok := s.Else.(*ast.BlockStmt)
				if !ok {
					die("GenCodeMarshal: flag without else")
				}
				i2, v2 := get(eb)
				if i1 != i2 {
					die("GenCodeMarshal: flag branches write different bytes")
				}
				flags = append(flags, flagEntry{i1, sel.Sel.Name, v1, v2})
			case *ast.ReturnStmt:
				if len(s.Results) != 2 || exprString(fset, s.Results[0]) != fmt.Sprintf("buf[:i+%d]", size) {
					die("GenCodeMarshal: return is not buf[:i+size]: %s", exprString(fset, s.Results[0]))
				}
			default:
				die("GenCodeMarshal: unexpected statement %T", st)
			}
		}
	}
	walk(fd.Body.List, true)
	sort.Slice(ints, func(i, j int) bool { return ints[i].idx < ints[j].idx })
	sb.WriteString("/-- `buf[idx] = byte(m.<field> >> shift)` entries of GenCodeMarshal, sorted by idx. -/\n")
	sb.WriteString("def marshalInts : List (Nat × String × Nat) := [\n")
	for i, e := range ints {
		c := ","
		if i == len(ints)-1 {
			c = ""
		}
		fmt.Fprintf(&sb, "  (%d, \"%s\", %d)%s\n", e.idx, e.field, e.shift, c)
	}
	sb.WriteString("]\n\n")
	sb.WriteString("/-- `if m.<field> { buf[idx] = t } else { buf[idx] = e }` entries of GenCodeMarshal. -/\n")
	sb.WriteString("def marshalFlags : List (Nat × String × Nat × Nat) := [")
	for i, e := range flags {
		if i > 0 {
			sb.WriteString(", ")
		}
		fmt.Fprintf(&sb, "(%d, \"%s\", %d, %d)", e.idx, e.field, e.t, e.e)
	}
	sb.WriteString("]\n\n")

	// GenCodeUnmarshal
	fd = findFunc(f, "GenCodeUnmarshal", "Meta")
	if fd == nil {
		die("GenCodeUnmarshal not found")
	}
	var uints []layoutEntry
	var uflags []layoutEntry
	var minLen string
	var uwalk func(stmts []ast.Stmt, top bool)
	uwalk = func(stmts []ast.Stmt, top bool) {
		for _, st := range stmts {
			switch s := st.(type) {
			case *ast.BlockStmt:
				uwalk(s.List, false)
			case *ast.IfStmt:
				if !top {
					die("GenCodeUnmarshal: nested if")
				}
				minLen = exprString(fset, s.Cond)
			case *ast.AssignStmt:
				if top {
					continue // i := uint64(0)
				}
				sel, ok := s.Lhs[0].(*ast.SelectorExpr)
				if !ok || exprString(fset, sel.X) != "m" {
					die("GenCodeUnmarshal: assignment target")
				}
				// flag: buf[k] == v
				if be, ok := s.Rhs[0].(*ast.BinaryExpr); ok && be.Op == token.EQL {
					ix := be.X.(*ast.IndexExpr)
					uflags = append(uflags, layoutEntry{constInt(fset, ix.Index), sel.Sel.Name, constInt(fset, be.Y)})
					continue
				}
				// int: 0 | (int64(buf[k]) << s) | ...
				var collect func(e ast.Expr)
				collect = func(e ast.Expr) {
					switch x := e.(type) {
					case *ast.ParenExpr:
						collect(x.X)
					case *ast.BasicLit:
						if x.Value != "0" {
							die("GenCodeUnmarshal: literal %s", x.Value)
						}
					case *ast.BinaryExpr:
						switch x.Op {
						case token.OR:
							collect(x.X)
							collect(x.Y)
						case token.SHL:
							call, ok := x.X.(*ast.CallExpr)
							if !ok || exprString(fset, call.Fun) != "int64" {
								die("GenCodeUnmarshal: shifted operand is not int64(...)")
							}
							ix, ok := call.Args[0].(*ast.IndexExpr)
							if !ok || exprString(fset, ix.X) != "buf" {
								die("GenCodeUnmarshal: not buf[...]")
							}
							uints = append(uints, layoutEntry{constInt(fset, ix.Index), sel.Sel.Name, constInt(fset, x.Y)})
						default:
							die("GenCodeUnmarshal: operator %s", x.Op)
						}
					default:
						die("GenCodeUnmarshal: expression %T", e)
					}
				}
				collect(s.Rhs[0])
			case *ast.ReturnStmt:
				if exprString(fset, s.Results[0]) != fmt.Sprintf("i + %d", size) {
					die("GenCodeUnmarshal: return %s", exprString(fset, s.Results[0]))
				}
			default:
				die("GenCodeUnmarshal: unexpected statement %T", st)
			}
		}
	}
	uwalk(fd.Body.List, true)
	if minLen != "len(buf) < m.GenCodeSize()" {
		die("GenCodeUnmarshal: length guard is %q", minLen)
	}
	sort.Slice(uints, func(i, j int) bool { return uints[i].idx < uints[j].idx })
	sb.WriteString("/-- `m.<field> |= int64(buf[idx]) << shift` entries of GenCodeUnmarshal (guarded by `len(buf) < GenCodeSize()`). -/\n")
	sb.WriteString("def unmarshalInts : List (Nat × String × Nat) := [\n")
	for i, e := range uints {
		c := ","
		if i == len(uints)-1 {
			c = ""
		}
		fmt.Fprintf(&sb, "  (%d, \"%s\", %d)%s\n", e.idx, e.field, e.shift, c)
	}
	sb.WriteString("]\n\n")
	sb.WriteString("/-- `m.<field> = buf[idx] == v` entries of GenCodeUnmarshal. -/\n")
	sb.WriteString("def unmarshalFlags : List (Nat × String × Nat) := [")
	for i, e := range uflags {
		if i > 0 {
			sb.WriteString(", ")
		}
		fmt.Fprintf(&sb, "(%d, \"%s\", %d)", e.idx, e.field, e.shift)
	}
	sb.WriteString("]\n\n")

	// dsd format constants used by the record format
	fsetD, fdsd := parseFile("formats/dsd/format.go")
	consts := map[string]int64{}
	for _, d := range fdsd.Decls {
		gd, ok := d.(*ast.GenDecl)
		if !ok || gd.Tok != token.CONST {
			continue
		}
		for _, sp := range gd.Specs {
			vs := sp.(*ast.ValueSpec)
			for i, n := range vs.Names {
				if i < len(vs.Values) {
					consts[n.Name] = constInt(fsetD, vs.Values[i])
				}
			}
		}
	}
	for _, n := range []string{"AUTO", "RAW", "CBOR", "GenCode", "JSON", "MsgPack", "YAML", "GZIP"} {
		v, ok := consts[n]
		if !ok {
			die("dsd constant %s not found", n)
		}
		fmt.Fprintf(&sb, "def dsd%s : Nat := %d\n", n, v)
	}
	sb.WriteString("\nend PB.Gen.Record\n")
	write("Record.lean", sb.String())
}
