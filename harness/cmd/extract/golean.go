package main

// golean.go: a translator from a small pure fragment of Go to Lean 4 (see lean/PB/GoSem.lean for the
// semantics helpers). It fails closed: any construct outside the fragment aborts the extraction, which
// the check reports as a broken tie. Fragment: functions whose bodies are sequences of
//   if cond { …return } [else { … }]   |  tagless switch whose cases return  |  x := e  |  a, b := f(…)
//   var x T  |  return e…
// over integers (all Go integer types, modelled as Int with explicit wrap-around), []byte, bool, error;
// expressions: literals, arithmetic, comparisons, &&, ||, !, len, index, slice, conversions, []byte{…},
// append(a, b...), errors.New("…"), calls to other translated functions and to registered intrinsics.
// Index and slice expressions become explicit bounds checks; a failed check is the value `.panic`.

import (
	"fmt"
	"go/ast"
	"go/importer"
	"go/token"
	"go/types"
	"sort"
	"strconv"
	"strings"
)

type goLean struct {
	fset       *token.FileSet
	info       *types.Info
	pkg        *types.Package
	funcs      map[string]*ast.FuncDecl // functions being translated (callable from each other)
	fresh      int
	curFn      string
	curResults []string
	recv       string // receiver name of the method being translated ("" for functions)
	recvType   string // Lean structure name of the receiver
	voidMethod bool   // method without results: the translation returns the updated receiver
	methods    map[string]*ast.FuncDecl
	sentin     map[string]bool // package-level error variables
	// extensions used by translateType (containersrc.go, recordsrc.go); zero values = behaviour as before
	noClock bool                       // methods do not take `now`
	structs map[string]*ast.StructType // struct types of the package that are translated to Lean structures
	extern  map[string]string          // calls into other translated packages: "varint.Pack64" → Lean name
}

func (g *goLean) nowArg() string {
	if g.noClock {
		return ""
	}
	return " now"
}

// structName returns the Lean structure name for T or *T if T is one of the translated struct types.
func (g *goLean) structName(t types.Type) (string, bool) {
	if p, ok := t.(*types.Pointer); ok {
		t = p.Elem()
	}
	if n, ok := t.(*types.Named); ok {
		if _, ok := g.structs[n.Obj().Name()]; ok && n.Obj().Pkg() == g.pkg {
			return n.Obj().Name(), true
		}
	}
	return "", false
}

// zeroOf gives the Go zero value of a Lean type of the fragment.
func zeroOf(leanT string) string {
	return map[string]string{"Int": "(0 : Int)", "Bool": "false", "PB.Bytes": "([] : PB.Bytes)", "PB.Go.Err": "(none : PB.Go.Err)",
		"List PB.Bytes": "([] : List PB.Bytes)", "String": "\"\""}[leanT]
}

type exprRes struct {
	term   string
	guards []string
	hoists []hoist
}

type hoist struct{ name, call string }

func (g *goLean) die(n ast.Node, format string, a ...any) {
	pos := g.fset.Position(n.Pos())
	die("golean: %s:%d (%s): %s", pos.Filename, pos.Line, g.curFn, fmt.Sprintf(format, a...))
}

var leanKeywords = map[string]bool{"from": true, "end": true, "at": true, "open": true, "in": true, "fun": true, "let": true,
	"do": true, "then": true, "else": true, "if": true, "match": true, "with": true, "where": true, "have": true, "show": true,
	"by": true, "def": true, "theorem": true, "instance": true, "structure": true, "class": true, "meta": true, "local": true, "section": true, "namespace": true, "import": true, "private": true, "type": true, "Type": true}

func lname(s string) string {
	if leanKeywords[s] {
		return s + "_"
	}
	return s
}

func (g *goLean) leanType(t types.Type) string {
	if n, ok := g.structName(t); ok {
		return n
	}
	switch u := t.Underlying().(type) {
	case *types.Basic:
		switch {
		case u.Info()&types.IsInteger != 0:
			return "Int"
		case u.Info()&types.IsBoolean != 0:
			return "Bool"
		case u.Info()&types.IsString != 0:
			return "String"
		}
	case *types.Slice:
		if b, ok := u.Elem().Underlying().(*types.Basic); ok && b.Kind() == types.Uint8 {
			return "PB.Bytes"
		}
		if in, ok := u.Elem().Underlying().(*types.Slice); ok {
			if b, ok := in.Elem().Underlying().(*types.Basic); ok && b.Kind() == types.Uint8 {
				return "List PB.Bytes" // [][]byte
			}
		}
	case *types.Interface:
		if t.String() == "error" {
			return "PB.Go.Err"
		}
	}
	die("golean: unsupported type %s", t.String())
	return ""
}

func (g *goLean) wrap(t types.Type, term string) string {
	b, ok := t.Underlying().(*types.Basic)
	if !ok || b.Info()&types.IsInteger == 0 {
		die("golean: wrap of non-integer type %s", t.String())
	}
	switch b.Kind() {
	case types.Uint8:
		return "(PB.Go.wrapU 8 " + term + ")"
	case types.Uint16:
		return "(PB.Go.wrapU 16 " + term + ")"
	case types.Uint32:
		return "(PB.Go.wrapU 32 " + term + ")"
	case types.Uint64, types.Uint, types.Uintptr:
		return "(PB.Go.wrapU 64 " + term + ")"
	case types.Int, types.Int64:
		return "(PB.Go.wrapI64 " + term + ")"
	case types.UntypedInt:
		return term
	}
	die("golean: unsupported integer kind %s", t.String())
	return ""
}

func merge(rs ...exprRes) (guards []string, hoists []hoist) {
	for _, r := range rs {
		guards = append(guards, r.guards...)
		hoists = append(hoists, r.hoists...)
	}
	return
}

func (g *goLean) expr(e ast.Expr) exprRes {
	// constants first (named constants, constant expressions)
	if tv, ok := g.info.Types[e]; ok && tv.Value != nil {
		if tv.Value.Kind().String() == "Int" {
			return exprRes{term: "(" + tv.Value.ExactString() + " : Int)"}
		}
		if tv.Value.Kind().String() == "Bool" {
			return exprRes{term: tv.Value.ExactString()}
		}
		if tv.Value.Kind().String() == "String" {
			return exprRes{term: strconv.Quote(strings.Trim(tv.Value.ExactString(), "\""))}
		}
	}
	switch x := e.(type) {
	case *ast.ParenExpr:
		r := g.expr(x.X)
		r.term = "(" + r.term + ")"
		return r
	case *ast.Ident:
		if x.Name == "nil" {
			if t := g.info.TypeOf(e); t != nil {
				if _, ok := t.Underlying().(*types.Slice); ok {
					return exprRes{term: "([] : PB.Bytes)"}
				}
				if b, ok := t.Underlying().(*types.Basic); ok && b.Kind() == types.UntypedNil {
					return exprRes{term: "(none : PB.Go.Err)"} // only compared with / assigned to error values in the fragment
				}
			}
			return exprRes{term: "(none : PB.Go.Err)"}
		}
		if obj := g.info.Uses[x]; obj != nil {
			if v, ok := obj.(*types.Var); ok && v.Parent() == g.pkg.Scope() {
				if g.leanType(v.Type()) == "PB.Go.Err" {
					g.sentin[x.Name] = true
					return exprRes{term: "(some " + strconv.Quote(x.Name) + " : PB.Go.Err)"}
				}
				g.die(e, "package-level variable %s", x.Name)
			}
		}
		return exprRes{term: lname(x.Name)}
	case *ast.BinaryExpr:
		if g.recv != "" && (x.Op == token.EQL || x.Op == token.NEQ) {
			if id, ok := x.X.(*ast.Ident); ok && id.Name == g.recv && exprString(g.fset, x.Y) == "nil" {
				if x.Op == token.EQL {
					return exprRes{term: "false"} // nil receivers are outside the model
				}
				return exprRes{term: "true"}
			}
		}
		a, b := g.expr(x.X), g.expr(x.Y)
		gs, hs := merge(a, b)
		t := g.info.TypeOf(e)
		switch x.Op {
		case token.ADD, token.SUB, token.MUL:
			op := map[token.Token]string{token.ADD: "+", token.SUB: "-", token.MUL: "*"}[x.Op]
			return exprRes{g.wrap(t, "("+a.term+" "+op+" "+b.term+")"), gs, hs}
		case token.QUO:
			// integer division truncates toward zero; a zero divisor is a run-time panic
			if tv := g.info.Types[x.Y]; tv.Value == nil || tv.Value.ExactString() == "0" {
				gs = append(gs, "decide ("+b.term+" ≠ 0)")
			}
			return exprRes{g.wrap(t, "(Int.tdiv "+a.term+" "+b.term+")"), gs, hs}
		case token.SHL:
			tv := g.info.Types[x.Y]
			if tv.Value == nil {
				g.die(e, "shift by a non-constant")
			}
			return exprRes{g.wrap(t, "("+a.term+" * (2 : Int) ^ "+tv.Value.ExactString()+")"), gs, hs}
		case token.LSS, token.LEQ, token.GTR, token.GEQ, token.EQL, token.NEQ:
			op := map[token.Token]string{token.LSS: "<", token.LEQ: "≤", token.GTR: ">", token.GEQ: "≥", token.EQL: "=", token.NEQ: "≠"}[x.Op]
			return exprRes{"decide (" + a.term + " " + op + " " + b.term + ")", gs, hs}
		case token.LAND, token.LOR:
			if len(b.guards) > 0 || len(b.hoists) > 0 {
				g.die(e, "index/slice/call on the right of a short-circuit operator")
			}
			op := map[token.Token]string{token.LAND: "&&", token.LOR: "||"}[x.Op]
			return exprRes{"(" + a.term + " " + op + " " + b.term + ")", gs, hs}
		}
		g.die(e, "operator %s", x.Op)
	case *ast.UnaryExpr:
		if x.Op == token.NOT {
			r := g.expr(x.X)
			r.term = "(!" + r.term + ")"
			return r
		}
		if x.Op == token.SUB {
			r := g.expr(x.X)
			r.term = g.wrap(g.info.TypeOf(e), "(0 - "+r.term+")")
			return r
		}
		if x.Op == token.AND {
			if cl, ok := x.X.(*ast.CompositeLit); ok {
				if _, ok := g.structName(g.info.TypeOf(cl)); ok {
					return g.expr(cl) // &T{…}: pointers to translated structs are values in Lean
				}
			}
		}
		g.die(e, "unary operator %s", x.Op)
	case *ast.SelectorExpr:
		// field of the receiver
		if id, ok := x.X.(*ast.Ident); ok && g.recv != "" && id.Name == g.recv {
			return exprRes{term: "(" + lname(g.recv) + "." + x.Sel.Name + ")"}
		}
		g.die(e, "selector %s", exprString(g.fset, e))
	case *ast.IndexExpr:
		a, i := g.expr(x.X), g.expr(x.Index)
		gs, hs := merge(a, i)
		if g.leanType(g.info.TypeOf(x.X)) == "List PB.Bytes" {
			gs = append(gs, "PB.Go.inIdxL "+a.term+" "+i.term)
			return exprRes{"(PB.Go.atL " + a.term + " " + i.term + ")", gs, hs}
		}
		gs = append(gs, "PB.Go.inIdx "+a.term+" "+i.term)
		return exprRes{"(PB.Go.byteAt " + a.term + " " + i.term + ")", gs, hs}
	case *ast.SliceExpr:
		if x.Slice3 {
			g.die(e, "3-index slice")
		}
		a := g.expr(x.X)
		lo, hi := exprRes{term: "(0 : Int)"}, exprRes{term: "(PB.Go.len " + a.term + ")"}
		if x.Low != nil {
			lo = g.expr(x.Low)
		}
		if x.High != nil {
			hi = g.expr(x.High)
		}
		gs, hs := merge(a, lo, hi)
		gs = append(gs, "PB.Go.inSlice "+a.term+" "+lo.term+" "+hi.term)
		return exprRes{"(PB.Go.slice " + a.term + " " + lo.term + " " + hi.term + ")", gs, hs}
	case *ast.CompositeLit:
		if sn, ok := g.structName(g.info.TypeOf(e)); ok {
			// T{f: e, …}: every field of the structure, unnamed ones with their zero value
			vals := map[string]exprRes{}
			for _, el := range x.Elts {
				kv, ok := el.(*ast.KeyValueExpr)
				if !ok {
					g.die(e, "positional struct literal")
				}
				vals[kv.Key.(*ast.Ident).Name] = g.expr(kv.Value)
			}
			var parts []string
			var all []exprRes
			for _, fld := range g.structs[sn].Fields.List {
				for _, nm := range fld.Names {
					if r, ok := vals[nm.Name]; ok {
						all = append(all, r)
						parts = append(parts, nm.Name+" := "+r.term)
						delete(vals, nm.Name)
					} else {
						parts = append(parts, nm.Name+" := "+zeroOf(g.leanType(g.info.TypeOf(fld.Type))))
					}
				}
			}
			if len(vals) != 0 {
				g.die(e, "struct literal names an unknown field")
			}
			gs, hs := merge(all...)
			return exprRes{"({ " + strings.Join(parts, ", ") + " } : " + sn + ")", gs, hs}
		}
		if g.leanType(g.info.TypeOf(e)) == "List PB.Bytes" {
			var parts []string
			var all []exprRes
			for _, el := range x.Elts {
				r := g.expr(el)
				all = append(all, r)
				parts = append(parts, r.term)
			}
			gs, hs := merge(all...)
			return exprRes{"([" + strings.Join(parts, ", ") + "] : List PB.Bytes)", gs, hs}
		}
		if g.leanType(g.info.TypeOf(e)) != "PB.Bytes" {
			g.die(e, "composite literal of type %s", g.info.TypeOf(e))
		}
		var parts []string
		var all []exprRes
		for _, el := range x.Elts {
			r := g.expr(el)
			all = append(all, r)
			parts = append(parts, r.term)
		}
		gs, hs := merge(all...)
		return exprRes{"(PB.Go.mkBytes [" + strings.Join(parts, ", ") + "])", gs, hs}
	case *ast.CallExpr:
		// conversion
		if tv, ok := g.info.Types[x.Fun]; ok && tv.IsType() {
			if len(x.Args) != 1 {
				g.die(e, "conversion arity")
			}
			r := g.expr(x.Args[0])
			r.term = g.wrap(tv.Type, r.term)
			return r
		}
		switch fn := x.Fun.(type) {
		case *ast.Ident:
			switch fn.Name {
			case "len":
				r := g.expr(x.Args[0])
				if g.leanType(g.info.TypeOf(x.Args[0])) == "List PB.Bytes" {
					r.term = "(PB.Go.lenL " + r.term + ")"
					return r
				}
				r.term = "(PB.Go.len " + r.term + ")"
				return r
			case "append":
				if len(x.Args) == 2 && g.leanType(g.info.TypeOf(x.Args[0])) == "List PB.Bytes" {
					a, b := g.expr(x.Args[0]), g.expr(x.Args[1])
					gs, hs := merge(a, b)
					if x.Ellipsis.IsValid() {
						return exprRes{"(" + a.term + " ++ " + b.term + ")", gs, hs}
					}
					return exprRes{"(" + a.term + " ++ [" + b.term + "])", gs, hs}
				}
				if len(x.Args) != 2 || !x.Ellipsis.IsValid() {
					g.die(e, "only append(a, b...) is supported")
				}
				a, b := g.expr(x.Args[0]), g.expr(x.Args[1])
				gs, hs := merge(a, b)
				return exprRes{"(" + a.term + " ++ " + b.term + ")", gs, hs}
			}
			if _, ok := g.funcs[fn.Name]; ok {
				var parts []string
				var all []exprRes
				for _, a := range x.Args {
					r := g.expr(a)
					all = append(all, r)
					parts = append(parts, r.term)
				}
				gs, hs := merge(all...)
				g.fresh++
				v := fmt.Sprintf("c%d", g.fresh)
				hs = append(hs, hoist{v, fn.Name + " " + strings.Join(parts, " ")})
				return exprRes{v, gs, hs}
			}
			g.die(e, "call to %s", fn.Name)
		case *ast.SelectorExpr:
			if exprString(g.fset, x) == "time.Now().Unix()" {
				return exprRes{term: "now"}
			}
			if id, ok := fn.X.(*ast.Ident); ok && g.recv != "" && id.Name == g.recv {
				if _, ok := g.methods[fn.Sel.Name]; ok && len(x.Args) == 0 {
					g.fresh++
					v := fmt.Sprintf("c%d", g.fresh)
					return exprRes{term: v, hoists: []hoist{{v, g.recvType + "_" + fn.Sel.Name + " " + lname(g.recv) + g.nowArg()}}}
				}
			}
			if ln, ok := g.extern[exprString(g.fset, fn)]; ok {
				var parts []string
				var all []exprRes
				for _, a := range x.Args {
					r := g.expr(a)
					all = append(all, r)
					parts = append(parts, r.term)
				}
				gs, hs := merge(all...)
				g.fresh++
				v := fmt.Sprintf("c%d", g.fresh)
				hs = append(hs, hoist{v, ln + " " + strings.Join(parts, " ")})
				return exprRes{v, gs, hs}
			}
			if exprString(g.fset, fn) == "errors.New" {
				tv := g.info.Types[x.Args[0]]
				if tv.Value == nil {
					g.die(e, "errors.New with a non-constant message")
				}
				return exprRes{term: "(some " + tv.Value.ExactString() + " : PB.Go.Err)"}
			}
			g.die(e, "call to %s", exprString(g.fset, fn))
		}
	}
	g.die(e, "expression %T", e)
	return exprRes{}
}

// wrapStmt puts hoisted calls and bounds guards around a statement's translation.
func wrapStmt(r []exprRes, body string, ind string) string {
	gs, hs := merge(r...)
	out := body
	for i := len(gs) - 1; i >= 0; i-- {
		out = "if " + gs[i] + " then\n" + ind + "  " + out + "\n" + ind + "else .panic"
	}
	for i := len(hs) - 1; i >= 0; i-- {
		out = "match " + hs[i].call + " with\n" + ind + "| .panic => .panic\n" + ind + "| .ok " + hs[i].name + " =>\n" + ind + "  " + out
	}
	return out
}

func alwaysReturns(list []ast.Stmt) bool {
	if len(list) == 0 {
		return false
	}
	switch s := list[len(list)-1].(type) {
	case *ast.ReturnStmt:
		return true
	case *ast.IfStmt:
		if s.Else == nil {
			return false
		}
		eb, ok := s.Else.(*ast.BlockStmt)
		return ok && alwaysReturns(s.Body.List) && alwaysReturns(eb.List)
	case *ast.BlockStmt:
		return alwaysReturns(s.List)
	}
	return false
}

func (g *goLean) stmts(list []ast.Stmt, ind string) string {
	if len(list) == 0 {
		if g.voidMethod {
			return ".ok " + lname(g.recv)
		}
		die("golean: %s: control reaches the end of a block without return", g.curFn)
	}
	s, rest := list[0], list[1:]
	ni := ind + "  "
	// receiver field assignments: m.F = e   →   let m := { m with F := e }
	if as, ok := s.(*ast.AssignStmt); ok && g.recv != "" && len(as.Lhs) == 1 && len(as.Rhs) == 1 {
		if sel, ok := as.Lhs[0].(*ast.SelectorExpr); ok {
			if id, ok := sel.X.(*ast.Ident); ok && id.Name == g.recv {
				if as.Tok != token.ASSIGN {
					g.die(s, "compound assignment to a field")
				}
				r := g.expr(as.Rhs[0])
				m := lname(g.recv)
				return wrapStmt([]exprRes{r}, "let "+m+" := { "+m+" with "+sel.Sel.Name+" := "+r.term+" }\n"+ind+g.stmts(rest, ind), ind)
			}
		}
	}
	// if whose body only updates receiver fields (no return):  let m := if c then {…} else m
	if is, ok := s.(*ast.IfStmt); ok && g.recv != "" && is.Init == nil && is.Else == nil && !alwaysReturns(is.Body.List) {
		c := g.expr(is.Cond)
		if len(c.guards) > 0 || len(c.hoists) > 0 {
			g.die(s, "guarded condition in a field-update if")
		}
		m := lname(g.recv)
		upd := m
		for _, bs := range is.Body.List {
			as, ok := bs.(*ast.AssignStmt)
			if !ok || len(as.Lhs) != 1 || as.Tok != token.ASSIGN {
				g.die(bs, "if-body that neither returns nor only assigns receiver fields")
			}
			sel, ok := as.Lhs[0].(*ast.SelectorExpr)
			if !ok || exprString(g.fset, sel.X) != g.recv {
				g.die(bs, "if-body assigns something other than a receiver field")
			}
			r := g.expr(as.Rhs[0])
			if len(r.guards) > 0 || len(r.hoists) > 0 {
				g.die(bs, "guarded expression in a field-update if")
			}
			// later assignments see earlier ones: substitute the running value for the receiver
			val := strings.ReplaceAll(r.term, "("+m+".", "(("+upd+").")
			upd = "{ " + upd + " with " + sel.Sel.Name + " := " + val + " }"
		}
		return "let " + m + " := if " + c.term + " then " + upd + " else " + m + "\n" + ind + g.stmts(rest, ind)
	}
	// c.Method(args) as a statement, Method without results: the receiver is replaced by the updated one
	if es, ok := s.(*ast.ExprStmt); ok && g.recv != "" {
		if call, ok := es.X.(*ast.CallExpr); ok {
			if sel, ok := call.Fun.(*ast.SelectorExpr); ok {
				if id, ok := sel.X.(*ast.Ident); ok && id.Name == g.recv {
					md, ok := g.methods[sel.Sel.Name]
					if !ok || (md.Type.Results != nil && len(md.Type.Results.List) > 0) {
						g.die(s, "call statement to %s (not a translated method without results)", sel.Sel.Name)
					}
					var parts []string
					var all []exprRes
					for _, a := range call.Args {
						r := g.expr(a)
						all = append(all, r)
						parts = append(parts, r.term)
					}
					m := lname(g.recv)
					body := "match " + g.recvType + "_" + sel.Sel.Name + " " + m + g.nowArg() + " " + strings.Join(parts, " ") + " with\n" + ind + "| .panic => .panic\n" + ind + "| .ok " + m + " =>\n" + ni + g.stmts(rest, ni)
					return wrapStmt(all, body, ind)
				}
			}
		}
	}
	// c.f++ / c.f-- on a receiver field
	if ids, ok := s.(*ast.IncDecStmt); ok && g.recv != "" {
		if sel, ok := ids.X.(*ast.SelectorExpr); ok {
			if id, ok := sel.X.(*ast.Ident); ok && id.Name == g.recv {
				op := "+"
				if ids.Tok == token.DEC {
					op = "-"
				}
				m := lname(g.recv)
				val := g.wrap(g.info.TypeOf(ids.X), "(("+m+"."+sel.Sel.Name+") "+op+" 1)")
				return "let " + m + " := { " + m + " with " + sel.Sel.Name + " := " + val + " }\n" + ind + g.stmts(rest, ind)
			}
		}
	}
	switch x := s.(type) {
	case *ast.BlockStmt:
		return g.stmts(append(append([]ast.Stmt{}, x.List...), rest...), ind)
	case *ast.ReturnStmt:
		if g.voidMethod {
			if len(x.Results) != 0 {
				g.die(s, "return with values in a method without results")
			}
			return ".ok " + lname(g.recv)
		}
		var parts []string
		var all []exprRes
		for i, e := range x.Results {
			r := g.expr(e)
			if id, ok := e.(*ast.Ident); ok && id.Name == "nil" && i < len(g.curResults) {
				if g.curResults[i] == "PB.Bytes" {
					r = exprRes{term: "([] : PB.Bytes)"}
				}
			}
			all = append(all, r)
			parts = append(parts, r.term)
		}
		body := ".ok (" + strings.Join(parts, ", ") + ")"
		if len(parts) == 1 {
			body = ".ok (" + parts[0] + ")"
		}
		return wrapStmt(all, body, ind)
	case *ast.IfStmt:
		if x.Init != nil {
			g.die(s, "if with init statement")
		}
		c := g.expr(x.Cond)
		var thenS, elseS string
		if !alwaysReturns(x.Body.List) {
			g.die(s, "if-branch that does not return (fragment requires early-return style)")
		}
		thenS = g.stmts(x.Body.List, ni)
		var elseList []ast.Stmt
		if x.Else != nil {
			eb, ok := x.Else.(*ast.BlockStmt)
			if !ok {
				elseList = []ast.Stmt{x.Else}
			} else {
				elseList = eb.List
			}
			if !alwaysReturns(elseList) {
				elseList = append(append([]ast.Stmt{}, elseList...), rest...)
			}
		} else {
			elseList = rest
		}
		elseS = g.stmts(elseList, ni)
		return wrapStmt([]exprRes{c}, "if "+c.term+" then\n"+ni+thenS+"\n"+ind+"else\n"+ni+elseS, ind)
	case *ast.SwitchStmt:
		if x.Tag != nil || x.Init != nil {
			g.die(s, "switch with tag/init")
		}
		var def []ast.Stmt
		type arm struct {
			c    exprRes
			body []ast.Stmt
		}
		var arms []arm
		for _, st := range x.Body.List {
			cc := st.(*ast.CaseClause)
			if !alwaysReturns(cc.Body) {
				g.die(cc, "switch case that does not return")
			}
			if cc.List == nil {
				def = cc.Body
				continue
			}
			if len(cc.List) != 1 {
				g.die(cc, "multi-expression case")
			}
			arms = append(arms, arm{g.expr(cc.List[0]), cc.Body})
		}
		if def == nil {
			def = rest
		}
		out := g.stmts(def, ni)
		for i := len(arms) - 1; i >= 0; i-- {
			out = wrapStmt([]exprRes{arms[i].c}, "if "+arms[i].c.term+" then\n"+ni+g.stmts(arms[i].body, ni)+"\n"+ind+"else\n"+ni+out, ind)
		}
		return out
	case *ast.DeclStmt:
		gd := x.Decl.(*ast.GenDecl)
		if gd.Tok != token.VAR {
			g.die(s, "declaration")
		}
		out := g.stmts(rest, ind)
		for i := len(gd.Specs) - 1; i >= 0; i-- {
			vs := gd.Specs[i].(*ast.ValueSpec)
			if len(vs.Values) != 0 {
				g.die(s, "var with initialiser")
			}
			for _, n := range vs.Names {
				zero := map[string]string{"Int": "(0 : Int)", "Bool": "false", "PB.Bytes": "([] : PB.Bytes)", "PB.Go.Err": "(none : PB.Go.Err)"}[g.leanType(g.info.TypeOf(n))]
				out = "let " + lname(n.Name) + " := " + zero + "\n" + ind + out
			}
		}
		return out
	case *ast.AssignStmt:
		// pattern: buf := make([]byte, K); w := binary.PutUvarint(buf, X); return buf[:w]
		if len(rest) >= 2 && len(x.Lhs) == 1 && len(x.Rhs) == 1 {
			if mk, ok := x.Rhs[0].(*ast.CallExpr); ok && exprString(g.fset, mk.Fun) == "make" && len(mk.Args) == 2 {
				buf := x.Lhs[0].(*ast.Ident).Name
				as2, ok2 := rest[0].(*ast.AssignStmt)
				ret, ok3 := rest[1].(*ast.ReturnStmt)
				if ok2 && ok3 && len(as2.Rhs) == 1 && len(rest) == 2 {
					if call, ok := as2.Rhs[0].(*ast.CallExpr); ok && exprString(g.fset, call.Fun) == "binary.PutUvarint" &&
						len(call.Args) == 2 && exprString(g.fset, call.Args[0]) == buf &&
						len(ret.Results) == 1 && exprString(g.fset, ret.Results[0]) == buf+"[:"+as2.Lhs[0].(*ast.Ident).Name+"]" {
						k, v := g.expr(mk.Args[1]), g.expr(call.Args[1])
						return wrapStmt([]exprRes{k, v}, "PB.Go.putUvarintInto "+k.term+" "+v.term, ind)
					}
				}
				g.die(s, "make([]byte, …) outside the PutUvarint pattern")
			}
		}
		names := func() []string {
			var ns []string
			for _, l := range x.Lhs {
				id, ok := l.(*ast.Ident)
				if !ok {
					g.die(s, "assignment to a non-identifier")
				}
				n := lname(id.Name)
				if id.Name == "_" {
					n = "_"
				}
				ns = append(ns, n)
			}
			return ns
		}()
		if x.Tok != token.DEFINE && x.Tok != token.ASSIGN {
			g.die(s, "assignment operator %s", x.Tok)
		}
		if len(x.Rhs) == 1 && len(x.Lhs) > 1 {
			call, ok := x.Rhs[0].(*ast.CallExpr)
			if !ok {
				g.die(s, "multi-value assignment from a non-call")
			}
			fnName := exprString(g.fset, call.Fun)
			var parts []string
			var all []exprRes
			for _, a := range call.Args {
				r := g.expr(a)
				all = append(all, r)
				parts = append(parts, r.term)
			}
			cont := g.stmts(rest, ni)
			pat := "(" + strings.Join(names, ", ") + ")"
			if fnName == "binary.Uvarint" {
				return wrapStmt(all, "match PB.Go.uvarint "+strings.Join(parts, " ")+" with\n"+ind+"| "+pat+" =>\n"+ni+cont, ind)
			}
			if _, ok := g.funcs[fnName]; ok {
				return wrapStmt(all, "match "+fnName+" "+strings.Join(parts, " ")+" with\n"+ind+"| .panic => .panic\n"+ind+"| .ok "+pat+" =>\n"+ni+cont, ind)
			}
			g.die(s, "multi-value call to %s", fnName)
		}
		if len(x.Lhs) != len(x.Rhs) {
			g.die(s, "assignment arity")
		}
		var all []exprRes
		out := g.stmts(rest, ind)
		for i := len(names) - 1; i >= 0; i-- {
			r := g.expr(x.Rhs[i])
			all = append([]exprRes{r}, all...)
			out = "let " + names[i] + " := " + r.term + "\n" + ind + out
		}
		return wrapStmt(all, out, ind)
	}
	g.die(s, "statement %T", s)
	return ""
}

// translatePackage type-checks the given files of one package directory and translates the named functions.
func translatePackage(dir string, files []string, names []string, ns string, outFile string, header string) {
	fset := token.NewFileSet()
	var afs []*ast.File
	for _, f := range files {
		_, af := parseFileInto(fset, dir+"/"+f)
		afs = append(afs, af)
	}
	info := &types.Info{Types: map[ast.Expr]types.TypeAndValue{}, Uses: map[*ast.Ident]types.Object{}, Defs: map[*ast.Ident]types.Object{}}
	conf := types.Config{Importer: importer.ForCompiler(fset, "source", nil)}
	pkg, err := conf.Check(dir, fset, afs, info)
	if err != nil {
		die("golean: type-check %s: %v", dir, err)
	}
	g := &goLean{fset: fset, info: info, pkg: pkg, funcs: map[string]*ast.FuncDecl{}, sentin: map[string]bool{}}
	for _, af := range afs {
		for _, d := range af.Decls {
			if fd, ok := d.(*ast.FuncDecl); ok && fd.Recv == nil {
				for _, n := range names {
					if fd.Name.Name == n {
						g.funcs[n] = fd
					}
				}
			}
		}
	}
	var sb strings.Builder
	sb.WriteString("import PB.GoSem\n")
	sb.WriteString(header)
	sb.WriteString("namespace " + ns + "\n\n")
	for _, n := range names { // order given = dependency order
		fd, ok := g.funcs[n]
		if !ok {
			die("golean: function %s not found in %s", n, dir)
		}
		g.curFn = n
		var params []string
		for _, fld := range fd.Type.Params.List {
			for _, nm := range fld.Names {
				params = append(params, "("+lname(nm.Name)+" : "+g.leanType(g.info.TypeOf(fld.Type))+")")
			}
		}
		var rts []string
		for _, fld := range fd.Type.Results.List {
			k := len(fld.Names)
			if k == 0 {
				k = 1
			}
			for i := 0; i < k; i++ {
				rts = append(rts, g.leanType(g.info.TypeOf(fld.Type)))
			}
		}
		g.curResults = rts
		rt := strings.Join(rts, " × ")
		if len(rts) > 1 {
			rt = "(" + rt + ")"
		}
		pos := fset.Position(fd.Pos())
		fmt.Fprintf(&sb, "/-- translated from %s:%d -/\n", strings.TrimPrefix(pos.Filename, repo+"/"), pos.Line)
		fmt.Fprintf(&sb, "def %s %s : PB.Go.Res %s :=\n  %s\n\n", n, strings.Join(params, " "), rt, g.stmts(fd.Body.List, "  "))
	}
	var ss []string
	for s := range g.sentin {
		ss = append(ss, s)
	}
	sort.Strings(ss)
	fmt.Fprintf(&sb, "/-- package-level error sentinels referenced by the translated functions -/\ndef sentinels : List String := %s\n\n", leanStrList(ss))
	sb.WriteString("end " + ns + "\n")
	write(outFile, sb.String())
}

func leanStrList(ss []string) string {
	var q []string
	for _, s := range ss {
		q = append(q, strconv.Quote(s))
	}
	return "[" + strings.Join(q, ", ") + "]"
}

// translateMethods translates methods of one struct type (pointer receiver; the receiver is a value in Lean,
// nil receivers are outside the model). Methods without results return the updated receiver. Every method
// takes `now : Int`, the value of `time.Now().Unix()`.
func translateMethods(dir string, files []string, typeName string, methods []string, ns string, outFile string, header string) {
	fset := token.NewFileSet()
	var afs []*ast.File
	for _, f := range files {
		_, af := parseFileInto(fset, dir+"/"+f)
		afs = append(afs, af)
	}
	info := &types.Info{Types: map[ast.Expr]types.TypeAndValue{}, Uses: map[*ast.Ident]types.Object{}, Defs: map[*ast.Ident]types.Object{}}
	conf := types.Config{Importer: importer.ForCompiler(fset, "source", nil)}
	pkg, err := conf.Check(dir, fset, afs, info)
	if err != nil {
		die("golean: type-check %s: %v", dir, err)
	}
	g := &goLean{fset: fset, info: info, pkg: pkg, funcs: map[string]*ast.FuncDecl{}, sentin: map[string]bool{}, methods: map[string]*ast.FuncDecl{}, recvType: typeName}
	var st *ast.StructType
	for _, af := range afs {
		for _, d := range af.Decls {
			switch x := d.(type) {
			case *ast.GenDecl:
				for _, sp := range x.Specs {
					if ts, ok := sp.(*ast.TypeSpec); ok && ts.Name.Name == typeName {
						st, _ = ts.Type.(*ast.StructType)
					}
				}
			case *ast.FuncDecl:
				if x.Recv != nil && len(x.Recv.List) == 1 {
					t := x.Recv.List[0].Type
					if se, ok := t.(*ast.StarExpr); ok {
						t = se.X
					}
					if id, ok := t.(*ast.Ident); ok && id.Name == typeName {
						for _, n := range methods {
							if x.Name.Name == n {
								g.methods[n] = x
							}
						}
					}
				}
			}
		}
	}
	if st == nil {
		die("golean: struct %s not found", typeName)
	}
	var sb strings.Builder
	sb.WriteString("import PB.GoSem\n")
	sb.WriteString(header)
	sb.WriteString("namespace " + ns + "\n\n")
	fmt.Fprintf(&sb, "/-- fields of Go struct `%s` -/\nstructure %s where\n", typeName, typeName)
	for _, fld := range st.Fields.List {
		for _, nm := range fld.Names {
			fmt.Fprintf(&sb, "  %s : %s\n", nm.Name, g.leanType(info.TypeOf(fld.Type)))
		}
	}
	sb.WriteString("  deriving Repr, DecidableEq\n\n")
	for _, n := range methods {
		fd, ok := g.methods[n]
		if !ok {
			die("golean: method %s.%s not found", typeName, n)
		}
		g.curFn = typeName + "." + n
		if len(fd.Recv.List[0].Names) != 1 {
			die("golean: %s: unnamed receiver", g.curFn)
		}
		g.recv = fd.Recv.List[0].Names[0].Name
		params := []string{"(" + lname(g.recv) + " : " + typeName + ")", "(now : Int)"}
		for _, fld := range fd.Type.Params.List {
			for _, nm := range fld.Names {
				params = append(params, "("+lname(nm.Name)+" : "+g.leanType(g.info.TypeOf(fld.Type))+")")
			}
		}
		var rts []string
		if fd.Type.Results != nil {
			for _, fld := range fd.Type.Results.List {
				k := len(fld.Names)
				if k == 0 {
					k = 1
				}
				for i := 0; i < k; i++ {
					rts = append(rts, g.leanType(g.info.TypeOf(fld.Type)))
				}
			}
		}
		g.voidMethod = len(rts) == 0
		g.curResults = rts
		rt := strings.Join(rts, " × ")
		if len(rts) > 1 {
			rt = "(" + rt + ")"
		}
		if g.voidMethod {
			rt = typeName
		}
		pos := fset.Position(fd.Pos())
		fmt.Fprintf(&sb, "/-- translated from %s:%d -/\n", strings.TrimPrefix(pos.Filename, repo+"/"), pos.Line)
		fmt.Fprintf(&sb, "def %s_%s %s : PB.Go.Res %s :=\n  %s\n\n", typeName, n, strings.Join(params, " "), rt, g.stmts(fd.Body.List, "  "))
	}
	sb.WriteString("end " + ns + "\n")
	write(outFile, sb.String())
}
