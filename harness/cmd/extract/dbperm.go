package main

import (
	"fmt"
	"go/ast"
	"go/token"
	"os"
	"path/filepath"
	"sort"
	"strings"
)

func init() { generators["dbperm"] = genDbPerm }

// genDbPerm regenerates (C03):
//   - the decision table of record.Meta.CheckPermission (database/record/meta.go),
//   - every constructor of a DatabaseAPI in package api with the privileges of the interface it opens.
func genDbPerm() {
	fset, f := parseFile("database/record/meta.go")
	fd := findFunc(f, "CheckPermission", "Meta")
	if fd == nil {
		die("CheckPermission: not found")
	}
	// parameter names: (local, internal bool)
	var params []string
	for _, p := range fd.Type.Params.List {
		for _, n := range p.Names {
			params = append(params, n.Name)
		}
	}
	if len(params) != 2 {
		die("CheckPermission: expected two parameters, got %v", params)
	}
	recv := fd.Recv.List[0].Names[0].Name
	var sw *ast.SwitchStmt
	for _, st := range fd.Body.List {
		switch s := st.(type) {
		case *ast.IfStmt: // if m == nil { return false }
			if exprString(fset, s.Cond) != recv+" == nil" {
				die("CheckPermission: unexpected guard %s", exprString(fset, s.Cond))
			}
		case *ast.SwitchStmt:
			if sw != nil || s.Tag != nil {
				die("CheckPermission: expected one tagless switch")
			}
			sw = s
		default:
			die("CheckPermission: unexpected statement %T", st)
		}
	}
	if sw == nil {
		die("CheckPermission: no switch")
	}
	leanName := map[string]string{params[0]: "loc", params[1]: "int", recv + ".cronjewel": "crown", recv + ".secret": "secret"}
	var atom func(e ast.Expr) string
	atom = func(e ast.Expr) string {
		switch x := e.(type) {
		case *ast.ParenExpr:
			return atom(x.X)
		case *ast.UnaryExpr:
			if x.Op != token.NOT {
				die("CheckPermission: operator %s", x.Op)
			}
			return "(!" + atom(x.X) + ")"
		case *ast.BinaryExpr:
			switch x.Op {
			case token.LAND:
				return "(" + atom(x.X) + " && " + atom(x.Y) + ")"
			case token.LOR:
				return "(" + atom(x.X) + " || " + atom(x.Y) + ")"
			}
			die("CheckPermission: operator %s", x.Op)
		case *ast.Ident, *ast.SelectorExpr:
			n, ok := leanName[exprString(fset, e)]
			if !ok {
				die("CheckPermission: unknown operand %s", exprString(fset, e))
			}
			return n
		}
		die("CheckPermission: unexpected expression %s", exprString(fset, e))
		return ""
	}
	boolLit := func(st []ast.Stmt) string {
		if len(st) != 1 {
			die("CheckPermission: case body shape")
		}
		ret, ok := st[0].(*ast.ReturnStmt)
		if !ok || len(ret.Results) != 1 {
			die("CheckPermission: case must return one value")
		}
		s := exprString(fset, ret.Results[0])
		if s != "true" && s != "false" {
			die("CheckPermission: case returns %s", s)
		}
		return s
	}
	var sb strings.Builder
	sb.WriteString("namespace PB.Gen.DbPerm\n\n")
	sb.WriteString("/-- `record.Meta.CheckPermission(local, internal)`, regenerated from the switch in database/record/meta.go. -/\n")
	sb.WriteString("def checkPermission (crown secret loc int : Bool) : Bool :=\n")
	def := ""
	for _, st := range sw.Body.List {
		cc := st.(*ast.CaseClause)
		if cc.List == nil {
			def = boolLit(cc.Body)
			continue
		}
		if len(cc.List) != 1 {
			die("CheckPermission: multi-expression case")
		}
		fmt.Fprintf(&sb, "  if %s then %s else\n", atom(cc.List[0]), boolLit(cc.Body))
	}
	if def == "" {
		die("CheckPermission: no default case")
	}
	fmt.Fprintf(&sb, "  %s\n\n", def)

	// HasAllPermissions
	_, fi := parseFile("database/interface.go")
	ha := findFunc(fi, "HasAllPermissions", "Options")
	if ha == nil || len(ha.Body.List) != 1 {
		die("HasAllPermissions: unexpected shape")
	}
	ret, ok := ha.Body.List[0].(*ast.ReturnStmt)
	if !ok || len(ret.Results) != 1 {
		die("HasAllPermissions: unexpected shape")
	}
	r := ha.Recv.List[0].Names[0].Name
	leanName = map[string]string{r + ".Local": "loc", r + ".Internal": "int"}
	sb.WriteString("/-- `Options.HasAllPermissions`, regenerated from database/interface.go. -/\n")
	fmt.Fprintf(&sb, "def hasAllPermissions (loc int : Bool) : Bool := %s\n\n", atom(ret.Results[0]))

	// NewInterface(nil) must mean empty options
	ni := findFunc(fi, "NewInterface", "")
	if ni == nil {
		die("NewInterface: not found")
	}
	nilMeansEmpty := false
	ast.Inspect(ni.Body, func(n ast.Node) bool {
		if s, ok := n.(*ast.IfStmt); ok && exprString(fset, s.Cond) == "opts == nil" && len(s.Body.List) == 1 {
			if exprString(fset, s.Body.List[0].(*ast.AssignStmt).Rhs[0]) == "&Options{}" {
				nilMeansEmpty = true
			}
		}
		return true
	})
	if !nilMeansEmpty {
		die("NewInterface: `if opts == nil { opts = &Options{} }` not found")
	}

	// The privileges of an interface are the Local / Internal the caller put into its Options: no function of
	// package database (all non-test files) may write them, replace the options of an Interface, or build Options
	// of its own (besides NewInterface's `&Options{}` for nil). Every such write is listed with the function it
	// stands in, the conditions around it and its right-hand side; the theorem demands the list to be empty.
	// Fails closed on what it cannot list (the options pointer handed to another function, aliased, or
	// dereferenced on the left of an assignment).
	{
		ents, err := os.ReadDir(filepath.Join(repo, "database"))
		if err != nil {
			die("database: %v", err)
		}
		var writes []string
		privField := func(e ast.Expr) string {
			if s, ok := e.(*ast.SelectorExpr); ok && (s.Sel.Name == "Local" || s.Sel.Name == "Internal") {
				return s.Sel.Name
			}
			return ""
		}
		for _, ent := range ents {
			name := ent.Name()
			if ent.IsDir() || !strings.HasSuffix(name, ".go") || strings.HasSuffix(name, "_test.go") {
				continue
			}
			fs, file := parseFile("database/" + name)
			for _, d := range file.Decls {
				fd, ok := d.(*ast.FuncDecl)
				if !ok || fd.Body == nil {
					continue
				}
				fn := fd.Name.Name
				var conds []string
				var walk func(n ast.Node)
				record := func(field, rhs string) {
					c := strings.Join(conds, " && ")
					if c == "" {
						c = "true"
					}
					writes = append(writes, fmt.Sprintf("(%q, %q, %q, %q)", fn, field, c, rhs))
				}
				walk = func(n ast.Node) {
					switch x := n.(type) {
					case nil:
						return
					case *ast.IfStmt:
						walk(x.Init)
						conds = append(conds, exprString(fs, x.Cond))
						walk(x.Body)
						conds[len(conds)-1] = "!(" + conds[len(conds)-1] + ")"
						walk(x.Else)
						conds = conds[:len(conds)-1]
						return
					case *ast.AssignStmt:
						for k, l := range x.Lhs {
							rhs := "?"
							if len(x.Rhs) == len(x.Lhs) {
								rhs = exprString(fs, x.Rhs[k])
							}
							if fld := privField(l); fld != "" {
								record(fld, rhs)
							}
							if s, ok := l.(*ast.SelectorExpr); ok && s.Sel.Name == "options" {
								record("options", rhs)
							}
							if st, ok := l.(*ast.StarExpr); ok {
								if id, ok := st.X.(*ast.Ident); ok && fn == "NewInterface" && id.Name == "opts" {
									die("NewInterface: assignment through *opts")
								}
							}
						}
						if fn == "NewInterface" {
							for _, r := range x.Rhs {
								if id, ok := r.(*ast.Ident); ok && id.Name == "opts" {
									die("NewInterface: the options pointer is aliased (%s)", exprString(fs, x.Lhs[0]))
								}
							}
						}
					case *ast.IncDecStmt:
						if fld := privField(x.X); fld != "" {
							record(fld, x.Tok.String())
						}
					case *ast.UnaryExpr:
						if x.Op == token.AND {
							if fld := privField(x.X); fld != "" {
								record(fld, "address taken")
							}
						}
					case *ast.CallExpr:
						if fn == "NewInterface" {
							for _, a := range x.Args {
								if id, ok := a.(*ast.Ident); ok && id.Name == "opts" {
									die("NewInterface: the options pointer is handed to %s", exprString(fs, x.Fun))
								}
							}
						}
					case *ast.CompositeLit:
						if id, ok := x.Type.(*ast.Ident); ok && id.Name == "Options" {
							if !(fn == "NewInterface" && len(x.Elts) == 0 && len(conds) == 1 && conds[0] == "opts == nil") {
								record("Options literal", exprString(fs, x))
							}
						}
						if id, ok := x.Type.(*ast.Ident); ok && id.Name == "Interface" {
							for _, el := range x.Elts {
								kv, ok := el.(*ast.KeyValueExpr)
								if !ok {
									die("%s: unkeyed Interface literal", fn)
								}
								if exprString(fs, kv.Key) == "options" && !(fn == "NewInterface" && exprString(fs, kv.Value) == "opts") {
									record("options", exprString(fs, kv.Value))
								}
							}
						}
					}
					// children
					ast.Inspect(n, func(c ast.Node) bool {
						if c == n || c == nil {
							return c == n
						}
						walk(c)
						return false
					})
				}
				walk(fd.Body)
			}
		}
		sb.WriteString("/-- Every place in package database (all non-test files) that writes `Local` / `Internal` of an `Options` value,\n")
		sb.WriteString("    replaces the `options` of an `Interface` or builds `Options` of its own — (function, field, conditions around the\n")
		sb.WriteString("    write, right-hand side). `NewInterface`'s `opts = &Options{}` under `opts == nil` and `options: opts` are not writes. -/\n")
		fmt.Fprintf(&sb, "def optionPrivilegeWrites : List (String × String × String × String) := [%s]\n\n", strings.Join(writes, ", "))
	}

	// every constructor of a DatabaseAPI in package api (all non-test files, verif-tagged ones included): a
	// composite literal of type DatabaseAPI whose `db` field is a database.NewInterface(...) call with literal
	// options. Fails closed on: a NewInterface call anywhere else in the package, a DatabaseAPI literal without
	// `db`, an assignment to a `.db` field, and a constructor the C03 harness has no driver for.
	drivers := map[string]string{
		"CreateDatabaseAPI":         "messages handed to DatabaseAPI.Handle, replies through the send function",
		"startDatabaseWebsocketAPI": "a real websocket connection to the HTTP handler (api.VerifDatabaseWebsocketHandler)",
	}
	ents, err := os.ReadDir(filepath.Join(repo, "api"))
	if err != nil {
		die("api: %v", err)
	}
	type ctor struct{ fn, loc, in string }
	var ctors []ctor
	for _, ent := range ents {
		name := ent.Name()
		if ent.IsDir() || !strings.HasSuffix(name, ".go") || strings.HasSuffix(name, "_test.go") {
			continue
		}
		fset2, fa := parseFile("api/" + name)
		options := func(arg ast.Expr) (loc, in string) {
			loc, in = "false", "false"
			switch a := arg.(type) {
			case *ast.Ident:
				if a.Name != "nil" {
					die("api/%s: NewInterface(%s): cannot evaluate", name, a.Name)
				}
			case *ast.UnaryExpr:
				cl, ok := a.X.(*ast.CompositeLit)
				if !ok || a.Op != token.AND || exprString(fset2, cl.Type) != "database.Options" {
					die("api/%s: NewInterface(%s): cannot evaluate", name, exprString(fset2, a))
				}
				for _, el := range cl.Elts {
					kv, ok := el.(*ast.KeyValueExpr)
					if !ok {
						die("api/%s: unkeyed Options literal", name)
					}
					v := exprString(fset2, kv.Value)
					switch exprString(fset2, kv.Key) {
					case "Local":
						loc = v
					case "Internal":
						in = v
					}
					if v != "true" && v != "false" && (exprString(fset2, kv.Key) == "Local" || exprString(fset2, kv.Key) == "Internal") {
						die("api/%s: Options.%s = %s is not a literal", name, exprString(fset2, kv.Key), v)
					}
				}
			default:
				die("api/%s: NewInterface(%s): cannot evaluate", name, exprString(fset2, arg))
			}
			return loc, in
		}
		for _, d := range fa.Decls {
			fd, isFunc := d.(*ast.FuncDecl)
			fn := "(package level)"
			if isFunc {
				fn = fd.Name.Name
			}
			inLiteral := map[*ast.CallExpr]bool{}
			ast.Inspect(d, func(n ast.Node) bool {
				switch x := n.(type) {
				case *ast.CompositeLit:
					if x.Type == nil || exprString(fset2, x.Type) != "DatabaseAPI" {
						return true
					}
					var dbVal ast.Expr
					for _, el := range x.Elts {
						kv, ok := el.(*ast.KeyValueExpr)
						if !ok {
							die("api/%s: %s: unkeyed DatabaseAPI literal", name, fn)
						}
						if exprString(fset2, kv.Key) == "db" {
							dbVal = kv.Value
						}
					}
					if dbVal == nil {
						die("api/%s: %s builds a DatabaseAPI without a `db` field: its interface comes from somewhere the extractor does not see", name, fn)
					}
					c, ok := dbVal.(*ast.CallExpr)
					if !ok || exprString(fset2, c.Fun) != "database.NewInterface" || len(c.Args) != 1 {
						die("api/%s: %s: DatabaseAPI.db = %s is not a database.NewInterface(...) call", name, fn, exprString(fset2, dbVal))
					}
					inLiteral[c] = true
					loc, in := options(c.Args[0])
					if !isFunc {
						die("api/%s: DatabaseAPI built at package level", name)
					}
					ctors = append(ctors, ctor{fn, loc, in})
				case *ast.AssignStmt:
					for _, l := range x.Lhs {
						if se, ok := l.(*ast.SelectorExpr); ok && se.Sel.Name == "db" {
							die("api/%s: %s assigns to %s: the interface of a DatabaseAPI is replaced after construction", name, fn, exprString(fset2, l))
						}
					}
				}
				return true
			})
			ast.Inspect(d, func(n ast.Node) bool {
				c, ok := n.(*ast.CallExpr)
				if ok && exprString(fset2, c.Fun) == "database.NewInterface" && !inLiteral[c] {
					die("api/%s: %s calls database.NewInterface outside a DatabaseAPI literal", name, fn)
				}
				return true
			})
		}
	}
	if len(ctors) == 0 {
		die("api: no constructor of a DatabaseAPI found")
	}
	sort.Slice(ctors, func(a, b int) bool { return ctors[a].fn < ctors[b].fn })
	seen := map[string]bool{}
	var calls, named []string
	for _, c := range ctors {
		if drivers[c.fn] == "" {
			die("api: %s constructs a DatabaseAPI, but the C03 harness has no driver for it (it drives: %s)", c.fn, strings.Join(sortedKeys(drivers), ", "))
		}
		if seen[c.fn] {
			die("api: %s constructs more than one DatabaseAPI", c.fn)
		}
		seen[c.fn] = true
		calls = append(calls, fmt.Sprintf("(%s, %s)", c.loc, c.in))
		named = append(named, fmt.Sprintf("(%q, %s, %s)", c.fn, c.loc, c.in))
	}
	for fn := range drivers {
		if !seen[fn] {
			die("api: constructor %s, which the C03 harness drives, no longer builds a DatabaseAPI", fn)
		}
	}
	sb.WriteString("/-- (Local, Internal) of every `database.NewInterface(...)` in package api. -/\n")
	fmt.Fprintf(&sb, "def apiInterfaces : List (Bool × Bool) := [%s]\n\n", strings.Join(calls, ", "))
	sb.WriteString("/-- Every function of package api that constructs a `DatabaseAPI`, with the (Local, Internal) of the interface it\n")
	sb.WriteString("    gives it. The C03 harness drives each of them: " + strings.Join(func() []string {
		var l []string
		for _, k := range sortedKeys(drivers) {
			l = append(l, k+" — "+drivers[k])
		}
		return l
	}(), "; ") + ". -/\n")
	fmt.Fprintf(&sb, "def apiConstructors : List (String × Bool × Bool) := [%s]\n\n", strings.Join(named, ", "))
	sb.WriteString("end PB.Gen.DbPerm\n")
	write("DbPerm.lean", sb.String())
}
