package main

import (
	"fmt"
	"go/ast"
	"go/token"
	"strings"
)

func init() { generators["dbperm"] = genDbPerm }

// genDbPerm regenerates (C03):
//   - the decision table of record.Meta.CheckPermission (database/record/meta.go),
//   - the privileges of every database.NewInterface(...) call in api/database.go.
func genDbPerm() {
	fset, f := parseFile("database/record/meta.go")
	fd := findFunc(f, "CheckPermission", "Meta")
	if fd == nil {
		die("CheckPermission: not found")
	}
	// parameter names: (local, internal bool)
	var params []string
	for _, p := range fd.Type.Params.List {
		for _, n := range p.Names {
			params = append(params, n.Name)
		}
	}
	if len(params) != 2 {
		die("CheckPermission: expected two parameters, got %v", params)
	}
	recv := fd.Recv.List[0].Names[0].Name
	var sw *ast.SwitchStmt
	for _, st := range fd.Body.List {
		switch s := st.(type) {
		case *ast.IfStmt: // if m == nil { return false }
			if exprString(fset, s.Cond) != recv+" == nil" {
				die("CheckPermission: unexpected guard %s", exprString(fset, s.Cond))
			}
		case *ast.SwitchStmt:
			if sw != nil || s.Tag != nil {
				die("CheckPermission: expected one tagless switch")
			}
			sw = s
		default:
			die("CheckPermission: unexpected statement %T", st)
		}
	}
	if sw == nil {
		die("CheckPermission: no switch")
	}
	leanName := map[string]string{params[0]: "loc", params[1]: "int", recv + ".cronjewel": "crown", recv + ".secret": "secret"}
	var atom func(e ast.Expr) string
	atom = func(e ast.Expr) string {
		switch x := e.(type) {
		case *ast.ParenExpr:
			return atom(x.X)
		case *ast.UnaryExpr:
			if x.Op != token.NOT {
				die("CheckPermission: operator %s", x.Op)
			}
			return "(!" + atom(x.X) + ")"
		case *ast.BinaryExpr:
			switch x.Op {
			case token.LAND:
				return "(" + atom(x.X) + " && " + atom(x.Y) + ")"
			case token.LOR:
				return "(" + atom(x.X) + " || " + atom(x.Y) + ")"
			}
			die("CheckPermission: operator %s", x.Op)
		case *ast.Ident, *ast.SelectorExpr:
			n, ok := leanName[exprString(fset, e)]
			if !ok {
				die("CheckPermission: unknown operand %s", exprString(fset, e))
			}
			return n
		}
		die("CheckPermission: unexpected expression %s", exprString(fset, e))
		return ""
	}
	boolLit := func(st []ast.Stmt) string {
		if len(st) != 1 {
			die("CheckPermission: case body shape")
		}
		ret, ok := st[0].(*ast.ReturnStmt)
		if !ok || len(ret.Results) != 1 {
			die("CheckPermission: case must return one value")
		}
		s := exprString(fset, ret.Results[0])
		if s != "true" && s != "false" {
			die("CheckPermission: case returns %s", s)
		}
		return s
	}
	var sb strings.Builder
	sb.WriteString("namespace PB.Gen.DbPerm\n\n")
	sb.WriteString("/-- `record.Meta.CheckPermission(local, internal)`, regenerated from the switch in database/record/meta.go. -/\n")
	sb.WriteString("def checkPermission (crown secret loc int : Bool) : Bool :=\n")
	def := ""
	for _, st := range sw.Body.List {
		cc := st.(*ast.CaseClause)
		if cc.List == nil {
			def = boolLit(cc.Body)
			continue
		}
		if len(cc.List) != 1 {
			die("CheckPermission: multi-expression case")
		}
		fmt.Fprintf(&sb, "  if %s then %s else\n", atom(cc.List[0]), boolLit(cc.Body))
	}
	if def == "" {
		die("CheckPermission: no default case")
	}
	fmt.Fprintf(&sb, "  %s\n\n", def)

	// HasAllPermissions
	_, fi := parseFile("database/interface.go")
	ha := findFunc(fi, "HasAllPermissions", "Options")
	if ha == nil || len(ha.Body.List) != 1 {
		die("HasAllPermissions: unexpected shape")
	}
	ret, ok := ha.Body.List[0].(*ast.ReturnStmt)
	if !ok || len(ret.Results) != 1 {
		die("HasAllPermissions: unexpected shape")
	}
	r := ha.Recv.List[0].Names[0].Name
	leanName = map[string]string{r + ".Local": "loc", r + ".Internal": "int"}
	sb.WriteString("/-- `Options.HasAllPermissions`, regenerated from database/interface.go. -/\n")
	fmt.Fprintf(&sb, "def hasAllPermissions (loc int : Bool) : Bool := %s\n\n", atom(ret.Results[0]))

	// NewInterface(nil) must mean empty options
	ni := findFunc(fi, "NewInterface", "")
	if ni == nil {
		die("NewInterface: not found")
	}
	nilMeansEmpty := false
	ast.Inspect(ni.Body, func(n ast.Node) bool {
		if s, ok := n.(*ast.IfStmt); ok && exprString(fset, s.Cond) == "opts == nil" && len(s.Body.List) == 1 {
			if exprString(fset, s.Body.List[0].(*ast.AssignStmt).Rhs[0]) == "&Options{}" {
				nilMeansEmpty = true
			}
		}
		return true
	})
	if !nilMeansEmpty {
		die("NewInterface: `if opts == nil { opts = &Options{} }` not found")
	}

	// every NewInterface call of the database API
	fset2, fa := parseFile("api/database.go")
	var calls []string
	ast.Inspect(fa, func(n ast.Node) bool {
		c, ok := n.(*ast.CallExpr)
		if !ok || exprString(fset2, c.Fun) != "database.NewInterface" {
			return true
		}
		if len(c.Args) != 1 {
			die("api: NewInterface call shape")
		}
		loc, in := "false", "false"
		switch a := c.Args[0].(type) {
		case *ast.Ident:
			if a.Name != "nil" {
				die("api: NewInterface(%s): cannot evaluate", a.Name)
			}
		case *ast.UnaryExpr:
			cl, ok := a.X.(*ast.CompositeLit)
			if !ok || a.Op != token.AND || exprString(fset2, cl.Type) != "database.Options" {
				die("api: NewInterface(%s): cannot evaluate", exprString(fset2, a))
			}
			for _, el := range cl.Elts {
				kv, ok := el.(*ast.KeyValueExpr)
				if !ok {
					die("api: unkeyed Options literal")
				}
				v := exprString(fset2, kv.Value)
				switch exprString(fset2, kv.Key) {
				case "Local":
					loc = v
				case "Internal":
					in = v
				}
				if v != "true" && v != "false" && (exprString(fset2, kv.Key) == "Local" || exprString(fset2, kv.Key) == "Internal") {
					die("api: Options.%s = %s is not a literal", exprString(fset2, kv.Key), v)
				}
			}
		default:
			die("api: NewInterface(%s): cannot evaluate", exprString(fset2, c.Args[0]))
		}
		calls = append(calls, fmt.Sprintf("(%s, %s)", loc, in))
		return true
	})
	if len(calls) == 0 {
		die("api: no database.NewInterface call found")
	}
	sb.WriteString("/-- (Local, Internal) of every `database.NewInterface(...)` in api/database.go. -/\n")
	fmt.Fprintf(&sb, "def apiInterfaces : List (Bool × Bool) := [%s]\n\n", strings.Join(calls, ", "))
	sb.WriteString("end PB.Gen.DbPerm\n")
	write("DbPerm.lean", sb.String())
}
