package main

func init() { generators["metasrc"] = genMetaSrc }

// genMetaSrc translates the decision and bookkeeping methods of record.Meta (database/record/meta.go).
func genMetaSrc() {
	translateMethods("database/record", []string{"meta.go"}, "Meta",
		[]string{"SetAbsoluteExpiry", "SetRelativateExpiry", "GetAbsoluteExpiry", "GetRelativeExpiry", "MakeCrownJewel",
			"MakeSecret", "Update", "Reset", "Delete", "IsDeleted", "CheckValidity", "CheckPermission"},
		"PB.Gen.MetaSrc", "MetaSrc.lean",
		"/- Methods of database/record.Meta translated by harness/cmd/extract/golean.go.\n   `now` = time.Now().Unix(); nil receivers are outside the model; methods without results return the updated receiver. -/\n")
}
