package main

import (
	"fmt"
	"go/ast"
	"go/parser"
	"go/printer"
	"go/token"
	"path/filepath"
	"sort"
	"strings"
)

func init() { generators["stopproto"] = genStopProto }

// genStopProto extracts, for C05: the module status constants (modules/status.go), the order of the protocol
// operations in stopAllTasks and in checkIfStopComplete (modules/modules.go), the wait condition of readyToStop and
// the stop-flag gate of OnlineSoon (modules/status.go). Unknown call shapes inside the two protocol functions are an
// error (fail closed).
func genStopProto() {
	var sb strings.Builder
	sb.WriteString("namespace PB.Gen.StopProto\n\n")

	// ---- status constants
	fset, f := parseFile("modules/status.go")
	want := []string{"StatusDead", "StatusPreparing", "StatusOffline", "StatusStopping", "StatusStarting", "StatusOnline"}
	vals := map[string]string{}
	for _, d := range f.Decls {
		gd, ok := d.(*ast.GenDecl)
		if !ok || gd.Tok != token.CONST {
			continue
		}
		for _, sp := range gd.Specs {
			vs := sp.(*ast.ValueSpec)
			for i, n := range vs.Names {
				if strings.HasPrefix(n.Name, "Status") && i < len(vs.Values) {
					vals[n.Name] = constVal(fset, vs.Values[i]).ExactString()
				}
			}
		}
	}
	for _, w := range want {
		v, ok := vals[w]
		if !ok {
			die("stopproto: constant %s not found in modules/status.go", w)
		}
		fmt.Fprintf(&sb, "abbrev s%s : Nat := %s\n", w[1:], v)
	}
	sb.WriteString("\n")

	// ---- readyToStop wait condition, OnlineSoon gate
	rts := findFunc(f, "readyToStop", "Module")
	if rts == nil {
		die("stopproto: readyToStop not found")
	}
	var waitCond []string
	ast.Inspect(rts.Body, func(n ast.Node) bool {
		if be, ok := n.(*ast.BinaryExpr); ok {
			if strings.HasPrefix(exprString(fset, be.X), "revDep.Status()") {
				waitCond = append(waitCond, exprString(fset, be))
			}
		}
		return true
	})
	if len(waitCond) != 1 {
		die("stopproto: readyToStop: expected exactly one comparison of revDep.Status(), got %v", waitCond)
	}
	fmt.Fprintf(&sb, "/-- `readyToStop` keeps a module waiting while this holds for one of its reverse dependencies. -/\ndef revDepWaitCond : String := %q\n\n", waitCond[0])
	os := findFunc(f, "OnlineSoon", "Module")
	if os == nil || len(os.Body.List) == 0 {
		die("stopproto: OnlineSoon not found")
	}
	ret, ok := os.Body.List[len(os.Body.List)-1].(*ast.ReturnStmt)
	if !ok || len(ret.Results) != 1 {
		die("stopproto: OnlineSoon: last statement is not a single-value return")
	}
	fmt.Fprintf(&sb, "/-- the final result of `OnlineSoon` (after the management-flag test). -/\ndef onlineSoonResult : String := %q\n\n", exprString(fset, ret.Results[0]))

	// ---- runServiceWorker: the restart loop starts with the stopping test
	fsetW, fW := parseFile("modules/worker.go")
	rsw := findFunc(fW, "runServiceWorker", "Module")
	if rsw == nil {
		die("stopproto: runServiceWorker not found")
	}
	var loop *ast.ForStmt
	for _, st := range rsw.Body.List {
		if fs, ok := st.(*ast.ForStmt); ok && fs.Cond == nil && fs.Init == nil {
			loop = fs
		}
	}
	if loop == nil || len(loop.Body.List) == 0 {
		die("stopproto: runServiceWorker: restart loop not found")
	}
	head := "-"
	for _, st := range loop.Body.List {
		// skip verif hook lines
		if es, ok := st.(*ast.ExprStmt); ok {
			if ce, ok := es.X.(*ast.CallExpr); ok && strings.HasPrefix(exprString(fsetW, ce.Fun), "verif") {
				continue
			}
		}
		if is, ok := st.(*ast.IfStmt); ok && is.Init == nil && is.Else == nil && len(is.Body.List) >= 1 {
			if _, ok := is.Body.List[len(is.Body.List)-1].(*ast.ReturnStmt); ok {
				onlyHooks := true
				for _, b := range is.Body.List[:len(is.Body.List)-1] {
					es, ok := b.(*ast.ExprStmt)
					if !ok {
						onlyHooks = false
						break
					}
					ce, ok := es.X.(*ast.CallExpr)
					if !ok || !strings.HasPrefix(exprString(fsetW, ce.Fun), "verif") {
						onlyHooks = false
					}
				}
				if onlyHooks {
					head = "if " + exprString(fsetW, is.Cond) + " { return }"
				}
			}
		}
		break
	}
	fmt.Fprintf(&sb, "/-- first statement of the restart loop of `runServiceWorker` (modules/worker.go); \"-\" if it is not a guarded return. -/\ndef serviceWorkerLoopHead : String := %q\n\n", head)

	// ---- runServiceWorker: how the worker waits between two runs of its function. The only statement of the restart
	// loop that may wait is a `select` that ends the `default` clause (the back-off) of the switch on the function's
	// result; every case of it is emitted as "<comm>:<body>" with body "" (falls out of the select) or "return".
	// Anything else that could wait anywhere in the loop (another call statement, a receive, a send, a nested loop, a
	// go/defer statement) is an error: fail closed.
	isHookW := func(st ast.Stmt) bool {
		es, ok := st.(*ast.ExprStmt)
		if !ok {
			return false
		}
		ce, ok := es.X.(*ast.CallExpr)
		return ok && strings.HasPrefix(exprString(fsetW, ce.Fun), "verif")
	}
	stmtW := func(st ast.Stmt) string {
		var b strings.Builder
		if err := printer.Fprint(&b, fsetW, st); err != nil {
			die("print stmt: %v", err)
		}
		return strings.Join(strings.Fields(b.String()), " ")
	}
	// calls that are known not to wait
	harmlessCall := func(ce *ast.CallExpr) bool {
		fn := exprString(fsetW, ce.Fun)
		switch {
		case strings.HasPrefix(fn, "verif"), strings.HasPrefix(fn, "log."), strings.HasPrefix(fn, "errors.Is"),
			fn == "time.Now", fn == "time.Duration", fn == "m.IsStopping", fn == "m.runWorker",
			strings.HasPrefix(fn, "time.Now()."):
			return true
		}
		return false
	}
	var backoffWait []string
	var sawSelect bool
	var checkNoWait func(n ast.Node, where string)
	checkNoWait = func(n ast.Node, where string) {
		ast.Inspect(n, func(c ast.Node) bool {
			switch x := c.(type) {
			case *ast.CallExpr:
				if !harmlessCall(x) {
					die("stopproto: runServiceWorker: %s: call %s may wait between two runs of the function (only the back-off select may)", where, exprString(fsetW, x))
				}
			case *ast.UnaryExpr:
				if x.Op == token.ARROW {
					die("stopproto: runServiceWorker: %s: receive %s outside the back-off select", where, exprString(fsetW, x))
				}
			case *ast.SendStmt, *ast.SelectStmt, *ast.ForStmt, *ast.RangeStmt, *ast.GoStmt, *ast.DeferStmt:
				die("stopproto: runServiceWorker: %s: unexpected statement %s", where, stmtW(x.(ast.Stmt)))
			}
			return true
		})
	}
	for _, st := range loop.Body.List {
		if isHookW(st) {
			continue
		}
		sw, ok := st.(*ast.SwitchStmt)
		if !ok {
			checkNoWait(st, "restart loop")
			continue
		}
		if sw.Init != nil || sw.Tag != nil {
			die("stopproto: runServiceWorker: unrecognised switch shape")
		}
		for _, cl := range sw.Body.List {
			cc := cl.(*ast.CaseClause)
			for _, e := range cc.List {
				checkNoWait(e, "switch condition")
			}
			body := cc.Body
			if cc.List == nil && len(body) > 0 { // default: the back-off
				if sel, ok := body[len(body)-1].(*ast.SelectStmt); ok {
					sawSelect = true
					body = body[:len(body)-1]
					for _, c := range sel.Body.List {
						cm := c.(*ast.CommClause)
						if cm.Comm == nil {
							die("stopproto: runServiceWorker: the back-off select has a default case (does not wait)")
						}
						es, ok := cm.Comm.(*ast.ExprStmt)
						if !ok {
							die("stopproto: runServiceWorker: back-off select: unrecognised case %s", stmtW(cm.Comm))
						}
						ue, ok := es.X.(*ast.UnaryExpr)
						if !ok || ue.Op != token.ARROW {
							die("stopproto: runServiceWorker: back-off select: unrecognised case %s", stmtW(cm.Comm))
						}
						what := ""
						var rest []ast.Stmt
						for _, b := range cm.Body {
							if !isHookW(b) {
								rest = append(rest, b)
							}
						}
						switch {
						case len(rest) == 0:
						case len(rest) == 1:
							if r, ok := rest[0].(*ast.ReturnStmt); ok && len(r.Results) == 0 {
								what = "return"
							} else {
								die("stopproto: runServiceWorker: back-off select: unrecognised case body %s", stmtW(rest[0]))
							}
						default:
							die("stopproto: runServiceWorker: back-off select: case body with %d statements", len(rest))
						}
						backoffWait = append(backoffWait, exprString(fsetW, ue)+":"+what)
					}
				}
			}
			for _, b := range body {
				checkNoWait(b, "switch clause")
			}
		}
	}
	if !sawSelect {
		die("stopproto: runServiceWorker: the default clause of the result switch does not end with the back-off select")
	}
	{
		q := make([]string, len(backoffWait))
		for i, x := range backoffWait {
			q[i] = fmt.Sprintf("%q", x)
		}
		fmt.Fprintf(&sb, "/-- cases of the back-off `select` of `runServiceWorker` (\"<comm>:<body>\", body \"\" or \"return\"); nothing else in its\n    restart loop waits (checked by the extractor, fail closed). -/\ndef backoffWait : List String :=\n  [%s]\n\n", strings.Join(q, ", "))
	}

	// ---- stopAllTasks / checkIfStopComplete operation order
	fset2, f2 := parseFile("modules/modules.go")
	seqOf := func(fn string, known map[string]string, ignore []string) []string {
		fd := findFunc(f2, fn, "Module")
		if fd == nil {
			die("stopproto: %s not found", fn)
		}
		var seq []string
		ast.Inspect(fd.Body, func(n ast.Node) bool {
			switch x := n.(type) {
			case *ast.CallExpr:
				s := exprString(fset2, x.Fun)
				full := exprString(fset2, x)
				if v, ok := known[full]; ok {
					seq = append(seq, v)
					return true
				}
				if v, ok := known[s]; ok {
					seq = append(seq, v)
					return true
				}
				for _, ig := range ignore {
					if s == ig || strings.HasPrefix(s, ig) {
						return true
					}
				}
				die("stopproto: %s: unrecognised call %s", fn, full)
			case *ast.AssignStmt:
				if len(x.Lhs) == 1 && exprString(fset2, x.Lhs[0]) == "m.status" {
					seq = append(seq, "status="+exprString(fset2, x.Rhs[0]))
				}
			case *ast.SendStmt:
				seq = append(seq, exprString(fset2, x.Chan)+"<-")
			case *ast.UnaryExpr:
				if x.Op == token.ARROW {
					seq = append(seq, "<-"+exprString(fset2, x.X))
				}
			case *ast.BinaryExpr:
				if x.Op == token.EQL && strings.HasPrefix(exprString(fset2, x.X), "atomic.LoadInt32(") && exprString(fset2, x.Y) == "0" {
					seq = append(seq, strings.TrimSuffix(strings.TrimPrefix(exprString(fset2, x.X), "atomic.LoadInt32(m."), ")")+"==0")
				}
			case *ast.DeferStmt:
				seq = append(seq, "defer")
			}
			return true
		})
		return seq
	}
	stopSeq := seqOf("stopAllTasks", map[string]string{
		"m.ctrlFuncRunning.Set": "ctrlFuncRunning.Set", "m.stopFlag.Set": "stopFlag.Set", "m.cancelCtx": "cancelCtx",
		"m.startCtrlFn": "startCtrlFn", "time.After(moduleStopTimeout)": "time.After(moduleStopTimeout)",
	}, []string{"verifEvent", "verifTrue", "verifYield", "log.", "fmt.", "m.Error", "m.Lock", "m.Unlock", "m.notifyOfChange", "m.Resolve",
		"atomic.LoadInt32", "m.ctrlFuncRunning.IsSet", "err.Error"})
	checkSeq := seqOf("checkIfStopComplete", map[string]string{
		"m.stopFlag.IsSet": "stopFlag.IsSet", "m.stopFlag.IsNotSet": "stopFlag.IsNotSet", "m.ctrlFuncRunning.IsNotSet": "ctrlFuncRunning.IsNotSet",
		"m.stopCompleted.SetToIf(false, true)": "stopCompleted.SetToIf(false,true)", "close(m.stopComplete)": "close(stopComplete)",
		"m.Lock": "Lock", "m.Unlock": "Unlock",
	}, []string{"verifEvent", "verifTrue", "verifYield", "atomic.LoadInt32"})
	lst := func(xs []string) string {
		q := make([]string, len(xs))
		for i, x := range xs {
			q[i] = fmt.Sprintf("%q", x)
		}
		return "[" + strings.Join(q, ", ") + "]"
	}
	fmt.Fprintf(&sb, "/-- protocol operations of `stopAllTasks` in source order (modules/modules.go). -/\ndef stopSeq : List String :=\n  %s\n\n", lst(stopSeq))
	fmt.Fprintf(&sb, "/-- protocol operations of `checkIfStopComplete` in source order. -/\ndef checkSeq : List String :=\n  %s\n\n", lst(checkSeq))

	// ---- start(): the locked section up to the goroutine, statement by statement (fail closed), and the status
	// writes of its goroutine by branch; prep(): its status writes.
	isHook := func(st ast.Stmt) bool {
		es, ok := st.(*ast.ExprStmt)
		if !ok {
			return false
		}
		ce, ok := es.X.(*ast.CallExpr)
		return ok && strings.HasPrefix(exprString(fset2, ce.Fun), "verif")
	}
	noHooks := func(l []ast.Stmt) []ast.Stmt {
		var out []ast.Stmt
		for _, st := range l {
			if !isHook(st) {
				out = append(out, st)
			}
		}
		return out
	}
	squash := func(x string) string { return strings.Join(strings.Fields(x), " ") }
	stmtString := func(st ast.Stmt) string {
		var b strings.Builder
		if err := printer.Fprint(&b, fset2, st); err != nil {
			die("print stmt: %v", err)
		}
		return squash(b.String())
	}
	startFd := findFunc(f2, "start", "Module")
	if startFd == nil {
		die("stopproto: start not found")
	}
	var startSeq []string
	sawGo := false
	for _, st := range noHooks(startFd.Body.List) {
		if sawGo {
			die("stopproto: start: statement after the goroutine: %s", stmtString(st))
		}
		switch x := st.(type) {
		case *ast.GoStmt:
			sawGo = true
			startSeq = append(startSeq, "go")
		case *ast.IfStmt:
			cond := exprString(fset2, x.Cond)
			if x.Init != nil || x.Else != nil {
				die("stopproto: start: unrecognised if shape: %s", stmtString(st))
			}
			body := noHooks(x.Body.List)
			switch {
			case cond == "m.status != StatusOffline":
				if len(body) == 0 {
					die("stopproto: start: empty status guard")
				}
				if _, ok := body[len(body)-1].(*ast.ReturnStmt); !ok {
					die("stopproto: start: the status guard does not return")
				}
				startSeq = append(startSeq, "if "+cond+" { return }")
			default:
				parts := make([]string, len(body))
				for i, b := range body {
					parts[i] = stmtString(b)
				}
				startSeq = append(startSeq, "if "+cond+" { "+strings.Join(parts, "; ")+" }")
			}
		default:
			startSeq = append(startSeq, stmtString(st))
		}
	}
	if !sawGo {
		die("stopproto: start: no goroutine found")
	}
	fmt.Fprintf(&sb, "/-- the statements of `start()` up to its goroutine, in source order (hook lines skipped). -/\ndef startSeq : List String :=\n  %s\n\n", lst(startSeq))

	// status writes / start-complete close inside a function's goroutine, tagged with the branch of `if err != nil`
	branchWrites := func(fd *ast.FuncDecl) []string {
		var out []string
		var walk func(n ast.Node, tag string)
		walk = func(n ast.Node, tag string) {
			ast.Inspect(n, func(c ast.Node) bool {
				switch x := c.(type) {
				case *ast.IfStmt:
					if exprString(fset2, x.Cond) == "err != nil" && x.Init == nil {
						walk(x.Body, tag+"err:")
						if x.Else != nil {
							walk(x.Else, tag+"ok:")
						}
						return false
					}
				case *ast.AssignStmt:
					if len(x.Lhs) == 1 && exprString(fset2, x.Lhs[0]) == "m.status" {
						out = append(out, tag+"status="+exprString(fset2, x.Rhs[0]))
					}
					for _, l := range x.Lhs {
						if ls := exprString(fset2, l); ls == "m.Ctx" || ls == "m.cancelCtx" || ls == "m.stopFlag" {
							out = append(out, tag+"write:"+ls)
						}
					}
				case *ast.CallExpr:
					switch full := squash(exprString(fset2, x)); full {
					case "close(m.startComplete)", "m.cancelCtx()", "m.stopFlag.Set()", "m.stopFlag.UnSet()":
						out = append(out, tag+full)
					}
				}
				return true
			})
		}
		for _, st := range fd.Body.List {
			if g, ok := st.(*ast.GoStmt); ok {
				walk(g.Call, "")
			}
		}
		return out
	}
	fmt.Fprintf(&sb, "/-- what the goroutine of `start()` does to status / context / stop flag, by branch of `if err != nil`. -/\ndef startResultSeq : List String :=\n  %s\n\n", lst(branchWrites(startFd)))
	prepFd := findFunc(f2, "prep", "Module")
	if prepFd == nil {
		die("stopproto: prep not found")
	}
	var prepSeq []string
	ast.Inspect(prepFd.Body, func(c ast.Node) bool {
		switch x := c.(type) {
		case *ast.GoStmt:
			if len(prepSeq) > 0 && !strings.HasPrefix(prepSeq[len(prepSeq)-1], "status=StatusPreparing") {
				return false // the reporting goroutine of the "already prepped" branch
			}
		case *ast.AssignStmt:
			for _, l := range x.Lhs {
				switch ls := exprString(fset2, l); ls {
				case "m.status":
					prepSeq = append(prepSeq, "status="+exprString(fset2, x.Rhs[0]))
				case "m.Ctx", "m.cancelCtx", "m.stopFlag":
					prepSeq = append(prepSeq, "write:"+ls)
				}
			}
		case *ast.CallExpr:
			switch full := squash(exprString(fset2, x)); full {
			case "m.cancelCtx()", "m.stopFlag.Set()", "m.stopFlag.UnSet()":
				prepSeq = append(prepSeq, full)
			}
		}
		return true
	})
	fmt.Fprintf(&sb, "/-- what `prep()` does to status / context / stop flag, in source order. -/\ndef prepSeq : List String :=\n  %s\n\n", lst(prepSeq))

	// ---- who replaces / cancels a module context, package-wide (every non-test file of package modules)
	var ctxWriters, ctxCancellers []string
	files, err := filepath.Glob(filepath.Join(repo, "modules", "*.go"))
	if err != nil || len(files) == 0 {
		die("stopproto: cannot list modules/*.go: %v", err)
	}
	sort.Strings(files)
	for _, fn := range files {
		if strings.HasSuffix(fn, "_test.go") {
			continue
		}
		fs := token.NewFileSet()
		af, err := parser.ParseFile(fs, fn, nil, 0)
		if err != nil {
			die("stopproto: parse %s: %v", fn, err)
		}
		for _, d := range af.Decls {
			fd, ok := d.(*ast.FuncDecl)
			if !ok || fd.Body == nil {
				continue
			}
			// the Module-typed names in scope that we can tell syntactically: a *Module receiver
			recv := ""
			if fd.Recv != nil && len(fd.Recv.List) == 1 && len(fd.Recv.List[0].Names) == 1 {
				t := fd.Recv.List[0].Type
				if st, ok := t.(*ast.StarExpr); ok {
					t = st.X
				}
				if id, ok := t.(*ast.Ident); ok && id.Name == "Module" {
					recv = fd.Recv.List[0].Names[0].Name
				}
			}
			ast.Inspect(fd.Body, func(c ast.Node) bool {
				switch x := c.(type) {
				case *ast.AssignStmt:
					for _, l := range x.Lhs {
						if se, ok := l.(*ast.SelectorExpr); ok && se.Sel.Name == "Ctx" {
							ctxWriters = append(ctxWriters, fd.Name.Name+":"+exprString(fs, se))
						}
					}
				case *ast.IncDecStmt, *ast.UnaryExpr:
					// &x.Ctx would let somebody else write it
					if ue, ok := c.(*ast.UnaryExpr); ok && ue.Op == token.AND {
						if se, ok := ue.X.(*ast.SelectorExpr); ok && (se.Sel.Name == "Ctx" || se.Sel.Name == "cancelCtx") {
							ctxWriters = append(ctxWriters, fd.Name.Name+":&"+exprString(fs, se))
						}
					}
				case *ast.KeyValueExpr:
					if id, ok := x.Key.(*ast.Ident); ok && id.Name == "Ctx" {
						ctxWriters = append(ctxWriters, fd.Name.Name+":literal")
					}
				case *ast.CallExpr:
					if se, ok := x.Fun.(*ast.SelectorExpr); ok && se.Sel.Name == "cancelCtx" {
						who := exprString(fs, se.X)
						// `t.cancelCtx()` / `newTask.cancelCtx()` cancel a task's own child context (type Task)
						if recv != "" && who == recv {
							ctxCancellers = append(ctxCancellers, fd.Name.Name)
						} else if strings.Contains(who, "module") || strings.Contains(who, "Module") {
							ctxCancellers = append(ctxCancellers, fd.Name.Name+":"+who)
						}
					}
				}
				return true
			})
		}
	}
	fmt.Fprintf(&sb, "/-- every assignment to a field `Ctx` in package modules (function:target), files in name order. -/\ndef ctxWriters : List String :=\n  %s\n\n", lst(ctxWriters))
	fmt.Fprintf(&sb, "/-- every function of package modules that calls the module's `cancelCtx`. -/\ndef ctxCancellers : List String :=\n  %s\n\n", lst(ctxCancellers))
	sb.WriteString("end PB.Gen.StopProto\n")
	write("StopProto.lean", sb.String())
}
