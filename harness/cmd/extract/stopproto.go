package main

import (
	"fmt"
	"go/ast"
	"go/token"
	"strings"
)

func init() { generators["stopproto"] = genStopProto }

// genStopProto extracts, for C05: the module status constants (modules/status.go), the order of the protocol
// operations in stopAllTasks and in checkIfStopComplete (modules/modules.go), the wait condition of readyToStop and
// the stop-flag gate of OnlineSoon (modules/status.go). Unknown call shapes inside the two protocol functions are an
// error (fail closed).
func genStopProto() {
	var sb strings.Builder
	sb.WriteString("namespace PB.Gen.StopProto\n\n")

	// ---- status constants
	fset, f := parseFile("modules/status.go")
	want := []string{"StatusDead", "StatusPreparing", "StatusOffline", "StatusStopping", "StatusStarting", "StatusOnline"}
	vals := map[string]string{}
	for _, d := range f.Decls {
		gd, ok := d.(*ast.GenDecl)
		if !ok || gd.Tok != token.CONST {
			continue
		}
		for _, sp := range gd.Specs {
			vs := sp.(*ast.ValueSpec)
			for i, n := range vs.Names {
				if strings.HasPrefix(n.Name, "Status") && i < len(vs.Values) {
					vals[n.Name] = constVal(fset, vs.Values[i]).ExactString()
				}
			}
		}
	}
	for _, w := range want {
		v, ok := vals[w]
		if !ok {
			die("stopproto: constant %s not found in modules/status.go", w)
		}
		fmt.Fprintf(&sb, "abbrev s%s : Nat := %s\n", w[1:], v)
	}
	sb.WriteString("\n")

	// ---- readyToStop wait condition, OnlineSoon gate
	rts := findFunc(f, "readyToStop", "Module")
	if rts == nil {
		die("stopproto: readyToStop not found")
	}
	var waitCond []string
	ast.Inspect(rts.Body, func(n ast.Node) bool {
		if be, ok := n.(*ast.BinaryExpr); ok {
			if strings.HasPrefix(exprString(fset, be.X), "revDep.Status()") {
				waitCond = append(waitCond, exprString(fset, be))
			}
		}
		return true
	})
	if len(waitCond) != 1 {
		die("stopproto: readyToStop: expected exactly one comparison of revDep.Status(), got %v", waitCond)
	}
	fmt.Fprintf(&sb, "/-- `readyToStop` keeps a module waiting while this holds for one of its reverse dependencies. -/\ndef revDepWaitCond : String := %q\n\n", waitCond[0])
	os := findFunc(f, "OnlineSoon", "Module")
	if os == nil || len(os.Body.List) == 0 {
		die("stopproto: OnlineSoon not found")
	}
	ret, ok := os.Body.List[len(os.Body.List)-1].(*ast.ReturnStmt)
	if !ok || len(ret.Results) != 1 {
		die("stopproto: OnlineSoon: last statement is not a single-value return")
	}
	fmt.Fprintf(&sb, "/-- the final result of `OnlineSoon` (after the management-flag test). -/\ndef onlineSoonResult : String := %q\n\n", exprString(fset, ret.Results[0]))

	// ---- runServiceWorker: the restart loop starts with the stopping test
	fsetW, fW := parseFile("modules/worker.go")
	rsw := findFunc(fW, "runServiceWorker", "Module")
	if rsw == nil {
		die("stopproto: runServiceWorker not found")
	}
	var loop *ast.ForStmt
	for _, st := range rsw.Body.List {
		if fs, ok := st.(*ast.ForStmt); ok && fs.Cond == nil && fs.Init == nil {
			loop = fs
		}
	}
	if loop == nil || len(loop.Body.List) == 0 {
		die("stopproto: runServiceWorker: restart loop not found")
	}
	head := "-"
	for _, st := range loop.Body.List {
		// skip verif hook lines
		if es, ok := st.(*ast.ExprStmt); ok {
			if ce, ok := es.X.(*ast.CallExpr); ok && strings.HasPrefix(exprString(fsetW, ce.Fun), "verif") {
				continue
			}
		}
		if is, ok := st.(*ast.IfStmt); ok && is.Init == nil && is.Else == nil && len(is.Body.List) >= 1 {
			if _, ok := is.Body.List[len(is.Body.List)-1].(*ast.ReturnStmt); ok {
				onlyHooks := true
				for _, b := range is.Body.List[:len(is.Body.List)-1] {
					es, ok := b.(*ast.ExprStmt)
					if !ok {
						onlyHooks = false
						break
					}
					ce, ok := es.X.(*ast.CallExpr)
					if !ok || !strings.HasPrefix(exprString(fsetW, ce.Fun), "verif") {
						onlyHooks = false
					}
				}
				if onlyHooks {
					head = "if " + exprString(fsetW, is.Cond) + " { return }"
				}
			}
		}
		break
	}
	fmt.Fprintf(&sb, "/-- first statement of the restart loop of `runServiceWorker` (modules/worker.go); \"-\" if it is not a guarded return. -/\ndef serviceWorkerLoopHead : String := %q\n\n", head)

	// ---- stopAllTasks / checkIfStopComplete operation order
	fset2, f2 := parseFile("modules/modules.go")
	seqOf := func(fn string, known map[string]string, ignore []string) []string {
		fd := findFunc(f2, fn, "Module")
		if fd == nil {
			die("stopproto: %s not found", fn)
		}
		var seq []string
		ast.Inspect(fd.Body, func(n ast.Node) bool {
			switch x := n.(type) {
			case *ast.CallExpr:
				s := exprString(fset2, x.Fun)
				full := exprString(fset2, x)
				if v, ok := known[full]; ok {
					seq = append(seq, v)
					return true
				}
				if v, ok := known[s]; ok {
					seq = append(seq, v)
					return true
				}
				for _, ig := range ignore {
					if s == ig || strings.HasPrefix(s, ig) {
						return true
					}
				}
				die("stopproto: %s: unrecognised call %s", fn, full)
			case *ast.AssignStmt:
				if len(x.Lhs) == 1 && exprString(fset2, x.Lhs[0]) == "m.status" {
					seq = append(seq, "status="+exprString(fset2, x.Rhs[0]))
				}
			case *ast.SendStmt:
				seq = append(seq, exprString(fset2, x.Chan)+"<-")
			case *ast.UnaryExpr:
				if x.Op == token.ARROW {
					seq = append(seq, "<-"+exprString(fset2, x.X))
				}
			case *ast.BinaryExpr:
				if x.Op == token.EQL && strings.HasPrefix(exprString(fset2, x.X), "atomic.LoadInt32(") && exprString(fset2, x.Y) == "0" {
					seq = append(seq, strings.TrimSuffix(strings.TrimPrefix(exprString(fset2, x.X), "atomic.LoadInt32(m."), ")")+"==0")
				}
			case *ast.DeferStmt:
				seq = append(seq, "defer")
			}
			return true
		})
		return seq
	}
	stopSeq := seqOf("stopAllTasks", map[string]string{
		"m.ctrlFuncRunning.Set": "ctrlFuncRunning.Set", "m.stopFlag.Set": "stopFlag.Set", "m.cancelCtx": "cancelCtx",
		"m.startCtrlFn": "startCtrlFn", "time.After(moduleStopTimeout)": "time.After(moduleStopTimeout)",
	}, []string{"verifEvent", "verifTrue", "verifYield", "log.", "fmt.", "m.Error", "m.Lock", "m.Unlock", "m.notifyOfChange", "m.Resolve",
		"atomic.LoadInt32", "m.ctrlFuncRunning.IsSet", "err.Error"})
	checkSeq := seqOf("checkIfStopComplete", map[string]string{
		"m.stopFlag.IsSet": "stopFlag.IsSet", "m.stopFlag.IsNotSet": "stopFlag.IsNotSet", "m.ctrlFuncRunning.IsNotSet": "ctrlFuncRunning.IsNotSet",
		"m.stopCompleted.SetToIf(false, true)": "stopCompleted.SetToIf(false,true)", "close(m.stopComplete)": "close(stopComplete)",
		"m.Lock": "Lock", "m.Unlock": "Unlock",
	}, []string{"verifEvent", "verifTrue", "verifYield", "atomic.LoadInt32"})
	lst := func(xs []string) string {
		q := make([]string, len(xs))
		for i, x := range xs {
			q[i] = fmt.Sprintf("%q", x)
		}
		return "[" + strings.Join(q, ", ") + "]"
	}
	fmt.Fprintf(&sb, "/-- protocol operations of `stopAllTasks` in source order (modules/modules.go). -/\ndef stopSeq : List String :=\n  %s\n\n", lst(stopSeq))
	fmt.Fprintf(&sb, "/-- protocol operations of `checkIfStopComplete` in source order. -/\ndef checkSeq : List String :=\n  %s\n\n", lst(checkSeq))
	sb.WriteString("end PB.Gen.StopProto\n")
	write("StopProto.lean", sb.String())
}
