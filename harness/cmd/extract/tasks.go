package main

import (
	"fmt"
	"go/ast"
	"go/token"
	"strconv"
	"strings"
)

func init() { generators["tasks"] = genTasks }

// genTasks extracts the time constants of the task scheduler (modules/tasks.go) in nanoseconds.
func genTasks() {
	fset, f := parseFile("modules/tasks.go")
	want := map[string]string{"maxTimeslotWait": "", "minRepeatDuration": "", "maxExecutionWait": "", "defaultMaxDelay": ""}
	units := map[string]int64{"Nanosecond": 1, "Microsecond": 1e3, "Millisecond": 1e6, "Second": 1e9, "Minute": 60e9, "Hour": 3600e9}
	for _, d := range f.Decls {
		gd, ok := d.(*ast.GenDecl)
		if !ok || gd.Tok != token.CONST {
			continue
		}
		for _, sp := range gd.Specs {
			vs := sp.(*ast.ValueSpec)
			for i, n := range vs.Names {
				if _, w := want[n.Name]; !w {
					continue
				}
				if i >= len(vs.Values) {
					die("tasks: constant %s has no value", n.Name)
				}
				be, ok := vs.Values[i].(*ast.BinaryExpr)
				if !ok || be.Op != token.MUL {
					die("tasks: constant %s is not of the form N * time.Unit: %s", n.Name, exprString(fset, vs.Values[i]))
				}
				lit, ok1 := be.X.(*ast.BasicLit)
				sel, ok2 := be.Y.(*ast.SelectorExpr)
				if !ok1 || !ok2 || lit.Kind != token.INT {
					die("tasks: constant %s is not of the form N * time.Unit", n.Name)
				}
				pkg, ok3 := sel.X.(*ast.Ident)
				u, ok4 := units[sel.Sel.Name]
				if !ok3 || pkg.Name != "time" || !ok4 {
					die("tasks: constant %s: unknown unit %s", n.Name, exprString(fset, be.Y))
				}
				k, err := strconv.ParseInt(lit.Value, 0, 64)
				if err != nil || k < 0 {
					die("tasks: constant %s: bad literal %s", n.Name, lit.Value)
				}
				want[n.Name] = strconv.FormatInt(k*u, 10)
			}
		}
	}
	var sb strings.Builder
	sb.WriteString("namespace PB.Gen.Tasks\n\n/-! Time constants of modules/tasks.go in nanoseconds. -/\n\n")
	for _, n := range []string{"maxTimeslotWait", "minRepeatDuration", "maxExecutionWait", "defaultMaxDelay"} {
		if want[n] == "" {
			die("tasks: constant %s not found", n)
		}
		fmt.Fprintf(&sb, "def %s : Nat := %s\n", n, want[n])
	}
	sb.WriteString(genFetchSection(fset, f))
	sb.WriteString("\nend PB.Gen.Tasks\n")
	write("Tasks.lean", sb.String())
}

// ---- fetch section of taskScheduleHandler ---------------------------------------------------------
//
// The statements the schedule handler executes on the first entry of the schedule (after
// `t := e.Value.(*Task)`) are read as a decision tree over the two conditions the code tests,
//   notYet   = now.Before(t.executeAt)   (with now := time.Now() assigned before on the same path)
//   overtime = t.overtime
// with three kinds of leaves: the handler goes back to waiting without touching the task (notDue), it
// calls t.runWithLocking() (run), it calls t.StartASAP() (asap). The tree is emitted as a Lean function, the
// value assigned to t.overtime on the way to a run / asap leaf as two Bool constants. Anything else in that
// section (another condition, another call, an assignment to another field, a return) stops the extraction.

type fetchLeaf struct {
	nowSet   bool   // now := time.Now() seen on this path
	unlocked bool   // scheduleLock.Unlock() seen on this path
	setOT    string // "", "true", "false": value assigned to t.overtime on this path
	call     string // "", "run", "asap"
}

type fetchTree struct {
	cond      string // "notYet" | "overtime" (inner node), "" (leaf)
	neg       bool
	yes, no   *fetchTree
	leaf      fetchLeaf
	leafIsSet bool
}

func genFetchSection(fset *token.FileSet, f *ast.File) string {
	fd := findFunc(f, "taskScheduleHandler", "")
	if fd == nil {
		die("tasks: func taskScheduleHandler not found")
	}
	// the select clause `case <-waitUntilNextScheduledTask():`
	var clause *ast.CommClause
	ast.Inspect(fd.Body, func(n ast.Node) bool {
		cc, ok := n.(*ast.CommClause)
		if !ok || cc.Comm == nil {
			return true
		}
		if es, ok := cc.Comm.(*ast.ExprStmt); ok {
			if ue, ok := es.X.(*ast.UnaryExpr); ok && ue.Op == token.ARROW {
				if ce, ok := ue.X.(*ast.CallExpr); ok {
					if id, ok := ce.Fun.(*ast.Ident); ok && id.Name == "waitUntilNextScheduledTask" {
						if clause != nil {
							die("tasks: taskScheduleHandler has two clauses waiting for the next scheduled task")
						}
						clause = cc
					}
				}
			}
		}
		return true
	})
	if clause == nil {
		die("tasks: taskScheduleHandler: clause `case <-waitUntilNextScheduledTask():` not found")
	}
	// prologue: lock, e := taskSchedule.Front(), if e == nil {...; continue}, t := e.Value.(*Task)
	start, sawFront, sawLock := -1, false, false
	for i, st := range clause.Body {
		src := exprStmtString(fset, st)
		switch {
		case isIgnorableCall(st):
		case src == "scheduleLock.Lock()":
			sawLock = true
		case src == "e := taskSchedule.Front()":
			sawFront = true
		case strings.HasPrefix(src, "if e == nil {"):
			ifs := st.(*ast.IfStmt)
			if ifs.Else != nil || len(ifs.Body.List) == 0 {
				die("tasks: fetch section: unexpected shape of the empty-schedule check: %s", src)
			}
			if br, ok := ifs.Body.List[len(ifs.Body.List)-1].(*ast.BranchStmt); !ok || br.Tok != token.CONTINUE {
				die("tasks: fetch section: the empty-schedule check does not end with continue")
			}
		case src == "t := e.Value.(*Task)":
			start = i + 1
		default:
			die("tasks: fetch section: unknown statement before the task is taken from the entry: %s", src)
		}
		if start >= 0 {
			break
		}
	}
	if start < 0 || !sawFront || !sawLock {
		die("tasks: fetch section: prologue (scheduleLock.Lock / e := taskSchedule.Front() / t := e.Value.(*Task)) not recognised")
	}
	tree := fetchInterp(fset, clause.Body[start:], fetchLeaf{})
	// leaves: consistency of the overtime writes per kind
	writes := map[string]string{}
	var walk func(t *fetchTree)
	kinds := map[string]int{}
	walk = func(t *fetchTree) {
		if t.cond != "" {
			walk(t.yes)
			walk(t.no)
			return
		}
		l := t.leaf
		if !l.unlocked {
			die("tasks: fetch section: a path leaves the section without scheduleLock.Unlock()")
		}
		k := l.call
		if k == "" {
			k = "notDue"
			if l.setOT != "" {
				die("tasks: fetch section: a path that does not act on the task writes t.overtime")
			}
		} else if l.setOT == "" {
			die("tasks: fetch section: the %s path does not write t.overtime", k)
		}
		if w, ok := writes[k]; ok && w != l.setOT {
			die("tasks: fetch section: two %s paths write different values to t.overtime", k)
		}
		writes[k] = l.setOT
		kinds[k]++
	}
	walk(tree)
	for _, k := range []string{"notDue", "run", "asap"} {
		if kinds[k] == 0 {
			die("tasks: fetch section: no %s path", k)
		}
	}
	var sb strings.Builder
	sb.WriteString("\n/-! Fetch section of `taskScheduleHandler` (the statements executed on the first entry of the schedule),\n")
	sb.WriteString("    read from the source as a decision tree: `notYet` = `now.Before(t.executeAt)`, `overtime` = `t.overtime`;\n")
	sb.WriteString("    outcomes: back to waiting (notDue), `t.runWithLocking()` (run), `t.StartASAP()` (asap). -/\n\n")
	sb.WriteString("inductive FetchOut where\n  | notDue | run | asap\nderiving DecidableEq, Repr\n\n")
	sb.WriteString("def fetchOut (notYet overtime : Bool) : FetchOut :=\n  " + fetchEmit(tree) + "\n\n")
	sb.WriteString("/-- Value assigned to `t.overtime` on the way to `t.runWithLocking()`. -/\n")
	sb.WriteString("def overtimeOnRun : Bool := " + writes["run"] + "\n")
	sb.WriteString("/-- Value assigned to `t.overtime` on the way to `t.StartASAP()`. -/\n")
	sb.WriteString("def overtimeOnAsap : Bool := " + writes["asap"] + "\n")
	return sb.String()
}

func exprStmtString(fset *token.FileSet, st ast.Stmt) string {
	var sb strings.Builder
	if err := printerFprintNode(&sb, fset, st); err != nil {
		die("print stmt: %v", err)
	}
	// drop trailing comments / normalise whitespace of one-liners
	s := sb.String()
	if i := strings.Index(s, "\n"); i >= 0 && !strings.HasPrefix(s, "if ") {
		s = s[:i]
	}
	if i := strings.Index(s, " //"); i >= 0 && !strings.HasPrefix(s, "if ") {
		s = s[:i]
	}
	return strings.TrimSpace(s)
}

// isIgnorableCall: hook lines (build tag verif) — they do not touch scheduler state.
func isIgnorableCall(st ast.Stmt) bool {
	es, ok := st.(*ast.ExprStmt)
	if !ok {
		return false
	}
	ce, ok := es.X.(*ast.CallExpr)
	if !ok {
		return false
	}
	id, ok := ce.Fun.(*ast.Ident)
	return ok && (id.Name == "verifEvent" || id.Name == "verifTaskEnd" || id.Name == "verifTaskEndAt" || id.Name == "verifYield")
}

func fetchInterp(fset *token.FileSet, stmts []ast.Stmt, acc fetchLeaf) *fetchTree {
	for i, st := range stmts {
		if acc.call != "" {
			// nothing but the end of the path may follow the call
			if br, ok := st.(*ast.BranchStmt); ok && br.Tok == token.CONTINUE {
				return &fetchTree{leaf: acc, leafIsSet: true}
			}
			die("tasks: fetch section: statement after the %s call: %s", acc.call, exprStmtString(fset, st))
		}
		if isIgnorableCall(st) {
			continue
		}
		switch x := st.(type) {
		case *ast.BranchStmt:
			if x.Tok != token.CONTINUE || x.Label != nil {
				die("tasks: fetch section: unexpected branch statement %s", exprStmtString(fset, st))
			}
			return &fetchTree{leaf: acc, leafIsSet: true}
		case *ast.ExprStmt:
			switch exprStmtString(fset, st) {
			case "scheduleLock.Unlock()":
				acc.unlocked = true
			case "t.runWithLocking()":
				if !acc.unlocked {
					die("tasks: fetch section: t.runWithLocking() is called with scheduleLock held")
				}
				acc.call = "run"
			case "t.StartASAP()":
				if !acc.unlocked {
					die("tasks: fetch section: t.StartASAP() is called with scheduleLock held")
				}
				acc.call = "asap"
			default:
				die("tasks: fetch section: unknown call %s", exprStmtString(fset, st))
			}
		case *ast.AssignStmt:
			switch exprStmtString(fset, st) {
			case "now := time.Now()":
				acc.nowSet = true
			case "t.overtime = true":
				if acc.unlocked {
					die("tasks: fetch section: t.overtime is written after scheduleLock.Unlock()")
				}
				acc.setOT = "true"
			case "t.overtime = false":
				if acc.unlocked {
					die("tasks: fetch section: t.overtime is written after scheduleLock.Unlock()")
				}
				acc.setOT = "false"
			default:
				die("tasks: fetch section: unknown assignment %s", exprStmtString(fset, st))
			}
		case *ast.IfStmt:
			if x.Init != nil {
				die("tasks: fetch section: if with init statement")
			}
			if acc.unlocked {
				die("tasks: fetch section: a condition is tested after scheduleLock.Unlock()")
			}
			cond, neg := fetchCond(fset, x.Cond, acc)
			rest := stmts[i+1:]
			yes := append(append([]ast.Stmt{}, x.Body.List...), rest...)
			var no []ast.Stmt
			switch e := x.Else.(type) {
			case nil:
				no = rest
			case *ast.BlockStmt:
				no = append(append([]ast.Stmt{}, e.List...), rest...)
			default:
				die("tasks: fetch section: else-if chain: %s", exprStmtString(fset, st))
			}
			return &fetchTree{cond: cond, neg: neg, yes: fetchInterp(fset, yes, acc), no: fetchInterp(fset, no, acc)}
		default:
			die("tasks: fetch section: unknown statement %s", exprStmtString(fset, st))
		}
	}
	// end of the clause body: the handler loop iterates
	return &fetchTree{leaf: acc, leafIsSet: true}
}

func fetchCond(fset *token.FileSet, e ast.Expr, acc fetchLeaf) (string, bool) {
	if p, ok := e.(*ast.ParenExpr); ok {
		return fetchCond(fset, p.X, acc)
	}
	if u, ok := e.(*ast.UnaryExpr); ok && u.Op == token.NOT {
		c, n := fetchCond(fset, u.X, acc)
		return c, !n
	}
	switch exprString(fset, e) {
	case "now.Before(t.executeAt)":
		if !acc.nowSet {
			die("tasks: fetch section: `now` is compared before `now := time.Now()`")
		}
		return "notYet", false
	case "t.overtime":
		return "overtime", false
	}
	die("tasks: fetch section: unknown condition %s", exprString(fset, e))
	return "", false
}

func fetchEmit(t *fetchTree) string {
	if t.cond == "" {
		switch t.leaf.call {
		case "run":
			return ".run"
		case "asap":
			return ".asap"
		}
		return ".notDue"
	}
	y, n := fetchEmit(t.yes), fetchEmit(t.no)
	if t.neg {
		y, n = n, y
	}
	return "(if " + t.cond + " then " + y + " else " + n + ")"
}
