package main

import (
	"fmt"
	"go/ast"
	"go/token"
	"strconv"
	"strings"
)

func init() { generators["tasks"] = genTasks }

// genTasks extracts the time constants of the task scheduler (modules/tasks.go) in nanoseconds.
func genTasks() {
	fset, f := parseFile("modules/tasks.go")
	want := map[string]string{"maxTimeslotWait": "", "minRepeatDuration": "", "maxExecutionWait": "", "defaultMaxDelay": ""}
	units := map[string]int64{"Nanosecond": 1, "Microsecond": 1e3, "Millisecond": 1e6, "Second": 1e9, "Minute": 60e9, "Hour": 3600e9}
	for _, d := range f.Decls {
		gd, ok := d.(*ast.GenDecl)
		if !ok || gd.Tok != token.CONST {
			continue
		}
		for _, sp := range gd.Specs {
			vs := sp.(*ast.ValueSpec)
			for i, n := range vs.Names {
				if _, w := want[n.Name]; !w {
					continue
				}
				if i >= len(vs.Values) {
					die("tasks: constant %s has no value", n.Name)
				}
				be, ok := vs.Values[i].(*ast.BinaryExpr)
				if !ok || be.Op != token.MUL {
					die("tasks: constant %s is not of the form N * time.Unit: %s", n.Name, exprString(fset, vs.Values[i]))
				}
				lit, ok1 := be.X.(*ast.BasicLit)
				sel, ok2 := be.Y.(*ast.SelectorExpr)
				if !ok1 || !ok2 || lit.Kind != token.INT {
					die("tasks: constant %s is not of the form N * time.Unit", n.Name)
				}
				pkg, ok3 := sel.X.(*ast.Ident)
				u, ok4 := units[sel.Sel.Name]
				if !ok3 || pkg.Name != "time" || !ok4 {
					die("tasks: constant %s: unknown unit %s", n.Name, exprString(fset, be.Y))
				}
				k, err := strconv.ParseInt(lit.Value, 0, 64)
				if err != nil || k < 0 {
					die("tasks: constant %s: bad literal %s", n.Name, lit.Value)
				}
				want[n.Name] = strconv.FormatInt(k*u, 10)
			}
		}
	}
	var sb strings.Builder
	sb.WriteString("namespace PB.Gen.Tasks\n\n/-! Time constants of modules/tasks.go in nanoseconds. -/\n\n")
	for _, n := range []string{"maxTimeslotWait", "minRepeatDuration", "maxExecutionWait", "defaultMaxDelay"} {
		if want[n] == "" {
			die("tasks: constant %s not found", n)
		}
		fmt.Fprintf(&sb, "def %s : Nat := %s\n", n, want[n])
	}
	sb.WriteString(genFetchSection(fset, f))
	sb.WriteString(genSlotSection(fset, f))
	sb.WriteString("\nend PB.Gen.Tasks\n")
	write("Tasks.lean", sb.String())
}

// ---- fetch section of taskScheduleHandler ---------------------------------------------------------
//
// The statements the schedule handler executes on the first entry of the schedule (after
// `t := e.Value.(*Task)`) are read as a decision tree over the two conditions the code tests,
//   notYet   = now.Before(t.executeAt)   (with now := time.Now() assigned before on the same path)
//   overtime = t.overtime
// with three kinds of leaves: the handler goes back to waiting without touching the task (notDue), it
// calls t.runWithLocking() (run), it calls t.StartASAP() (asap). The tree is emitted as a Lean function, the
// value assigned to t.overtime on the way to a run / asap leaf as two Bool constants. Anything else in that
// section (another condition, another call, an assignment to another field, a return) stops the extraction.

type fetchLeaf struct {
	nowSet   bool   // now := time.Now() seen on this path
	unlocked bool   // scheduleLock.Unlock() seen on this path
	setOT    string // "", "true", "false": value assigned to t.overtime on this path
	call     string // "", "run", "asap"
}

type fetchTree struct {
	cond      string // "notYet" | "overtime" (inner node), "" (leaf)
	neg       bool
	yes, no   *fetchTree
	leaf      fetchLeaf
	leafIsSet bool
}

func genFetchSection(fset *token.FileSet, f *ast.File) string {
	fd := findFunc(f, "taskScheduleHandler", "")
	if fd == nil {
		die("tasks: func taskScheduleHandler not found")
	}
	// the select clause `case <-waitUntilNextScheduledTask():`
	var clause *ast.CommClause
	ast.Inspect(fd.Body, func(n ast.Node) bool {
		cc, ok := n.(*ast.CommClause)
		if !ok || cc.Comm == nil {
			return true
		}
		if es, ok := cc.Comm.(*ast.ExprStmt); ok {
			if ue, ok := es.X.(*ast.UnaryExpr); ok && ue.Op == token.ARROW {
				if ce, ok := ue.X.(*ast.CallExpr); ok {
					if id, ok := ce.Fun.(*ast.Ident); ok && id.Name == "waitUntilNextScheduledTask" {
						if clause != nil {
							die("tasks: taskScheduleHandler has two clauses waiting for the next scheduled task")
						}
						clause = cc
					}
				}
			}
		}
		return true
	})
	if clause == nil {
		die("tasks: taskScheduleHandler: clause `case <-waitUntilNextScheduledTask():` not found")
	}
	// prologue: lock, e := taskSchedule.Front(), if e == nil {...; continue}, t := e.Value.(*Task)
	start, sawFront, sawLock := -1, false, false
	for i, st := range clause.Body {
		src := exprStmtString(fset, st)
		switch {
		case isIgnorableCall(st):
		case src == "scheduleLock.Lock()":
			sawLock = true
		case src == "e := taskSchedule.Front()":
			sawFront = true
		case strings.HasPrefix(src, "if e == nil {"):
			ifs := st.(*ast.IfStmt)
			if ifs.Else != nil || len(ifs.Body.List) == 0 {
				die("tasks: fetch section: unexpected shape of the empty-schedule check: %s", src)
			}
			if br, ok := ifs.Body.List[len(ifs.Body.List)-1].(*ast.BranchStmt); !ok || br.Tok != token.CONTINUE {
				die("tasks: fetch section: the empty-schedule check does not end with continue")
			}
		case src == "t := e.Value.(*Task)":
			start = i + 1
		default:
			die("tasks: fetch section: unknown statement before the task is taken from the entry: %s", src)
		}
		if start >= 0 {
			break
		}
	}
	if start < 0 || !sawFront || !sawLock {
		die("tasks: fetch section: prologue (scheduleLock.Lock / e := taskSchedule.Front() / t := e.Value.(*Task)) not recognised")
	}
	tree := fetchInterp(fset, clause.Body[start:], fetchLeaf{})
	// leaves: consistency of the overtime writes per kind
	writes := map[string]string{}
	var walk func(t *fetchTree)
	kinds := map[string]int{}
	walk = func(t *fetchTree) {
		if t.cond != "" {
			walk(t.yes)
			walk(t.no)
			return
		}
		l := t.leaf
		if !l.unlocked {
			die("tasks: fetch section: a path leaves the section without scheduleLock.Unlock()")
		}
		k := l.call
		if k == "" {
			k = "notDue"
			if l.setOT != "" {
				die("tasks: fetch section: a path that does not act on the task writes t.overtime")
			}
		} else if l.setOT == "" {
			die("tasks: fetch section: the %s path does not write t.overtime", k)
		}
		if w, ok := writes[k]; ok && w != l.setOT {
			die("tasks: fetch section: two %s paths write different values to t.overtime", k)
		}
		writes[k] = l.setOT
		kinds[k]++
	}
	walk(tree)
	for _, k := range []string{"notDue", "run", "asap"} {
		if kinds[k] == 0 {
			die("tasks: fetch section: no %s path", k)
		}
	}
	var sb strings.Builder
	sb.WriteString("\n/-! Fetch section of `taskScheduleHandler` (the statements executed on the first entry of the schedule),\n")
	sb.WriteString("    read from the source as a decision tree: `notYet` = `now.Before(t.executeAt)`, `overtime` = `t.overtime`;\n")
	sb.WriteString("    outcomes: back to waiting (notDue), `t.runWithLocking()` (run), `t.StartASAP()` (asap). -/\n\n")
	sb.WriteString("inductive FetchOut where\n  | notDue | run | asap\nderiving DecidableEq, Repr\n\n")
	sb.WriteString("def fetchOut (notYet overtime : Bool) : FetchOut :=\n  " + fetchEmit(tree) + "\n\n")
	sb.WriteString("/-- Value assigned to `t.overtime` on the way to `t.runWithLocking()`. -/\n")
	sb.WriteString("def overtimeOnRun : Bool := " + writes["run"] + "\n")
	sb.WriteString("/-- Value assigned to `t.overtime` on the way to `t.StartASAP()`. -/\n")
	sb.WriteString("def overtimeOnAsap : Bool := " + writes["asap"] + "\n")
	return sb.String()
}

func exprStmtString(fset *token.FileSet, st ast.Stmt) string {
	var sb strings.Builder
	if err := printerFprintNode(&sb, fset, st); err != nil {
		die("print stmt: %v", err)
	}
	// drop trailing comments / normalise whitespace of one-liners
	s := sb.String()
	if i := strings.Index(s, "\n"); i >= 0 && !strings.HasPrefix(s, "if ") {
		s = s[:i]
	}
	if i := strings.Index(s, " //"); i >= 0 && !strings.HasPrefix(s, "if ") {
		s = s[:i]
	}
	return strings.TrimSpace(s)
}

// isIgnorableCall: hook lines (build tag verif) — they do not touch scheduler state.
func isIgnorableCall(st ast.Stmt) bool {
	es, ok := st.(*ast.ExprStmt)
	if !ok {
		return false
	}
	ce, ok := es.X.(*ast.CallExpr)
	if !ok {
		return false
	}
	id, ok := ce.Fun.(*ast.Ident)
	return ok && (id.Name == "verifEvent" || id.Name == "verifTaskEnd" || id.Name == "verifTaskEndAt" || id.Name == "verifYield")
}

func fetchInterp(fset *token.FileSet, stmts []ast.Stmt, acc fetchLeaf) *fetchTree {
	for i, st := range stmts {
		if acc.call != "" {
			// nothing but the end of the path may follow the call
			if br, ok := st.(*ast.BranchStmt); ok && br.Tok == token.CONTINUE {
				return &fetchTree{leaf: acc, leafIsSet: true}
			}
			die("tasks: fetch section: statement after the %s call: %s", acc.call, exprStmtString(fset, st))
		}
		if isIgnorableCall(st) {
			continue
		}
		switch x := st.(type) {
		case *ast.BranchStmt:
			if x.Tok != token.CONTINUE || x.Label != nil {
				die("tasks: fetch section: unexpected branch statement %s", exprStmtString(fset, st))
			}
			return &fetchTree{leaf: acc, leafIsSet: true}
		case *ast.ExprStmt:
			src := exprStmtString(fset, st)
			if isRunWithLockingCall(x.X) {
				// arguments (if any) are read per call site by genSlotSection
				src = "t.runWithLocking()"
			}
			switch src {
			case "scheduleLock.Unlock()":
				acc.unlocked = true
			case "t.runWithLocking()":
				if !acc.unlocked {
					die("tasks: fetch section: t.runWithLocking() is called with scheduleLock held")
				}
				acc.call = "run"
			case "t.StartASAP()":
				if !acc.unlocked {
					die("tasks: fetch section: t.StartASAP() is called with scheduleLock held")
				}
				acc.call = "asap"
			default:
				die("tasks: fetch section: unknown call %s", exprStmtString(fset, st))
			}
		case *ast.AssignStmt:
			switch exprStmtString(fset, st) {
			case "now := time.Now()":
				acc.nowSet = true
			case "t.overtime = true":
				if acc.unlocked {
					die("tasks: fetch section: t.overtime is written after scheduleLock.Unlock()")
				}
				acc.setOT = "true"
			case "t.overtime = false":
				if acc.unlocked {
					die("tasks: fetch section: t.overtime is written after scheduleLock.Unlock()")
				}
				acc.setOT = "false"
			default:
				die("tasks: fetch section: unknown assignment %s", exprStmtString(fset, st))
			}
		case *ast.IfStmt:
			if x.Init != nil {
				die("tasks: fetch section: if with init statement")
			}
			if acc.unlocked {
				die("tasks: fetch section: a condition is tested after scheduleLock.Unlock()")
			}
			cond, neg := fetchCond(fset, x.Cond, acc)
			rest := stmts[i+1:]
			yes := append(append([]ast.Stmt{}, x.Body.List...), rest...)
			var no []ast.Stmt
			switch e := x.Else.(type) {
			case nil:
				no = rest
			case *ast.BlockStmt:
				no = append(append([]ast.Stmt{}, e.List...), rest...)
			default:
				die("tasks: fetch section: else-if chain: %s", exprStmtString(fset, st))
			}
			return &fetchTree{cond: cond, neg: neg, yes: fetchInterp(fset, yes, acc), no: fetchInterp(fset, no, acc)}
		default:
			die("tasks: fetch section: unknown statement %s", exprStmtString(fset, st))
		}
	}
	// end of the clause body: the handler loop iterates
	return &fetchTree{leaf: acc, leafIsSet: true}
}

func fetchCond(fset *token.FileSet, e ast.Expr, acc fetchLeaf) (string, bool) {
	if p, ok := e.(*ast.ParenExpr); ok {
		return fetchCond(fset, p.X, acc)
	}
	if u, ok := e.(*ast.UnaryExpr); ok && u.Op == token.NOT {
		c, n := fetchCond(fset, u.X, acc)
		return c, !n
	}
	switch exprString(fset, e) {
	case "now.Before(t.executeAt)":
		if !acc.nowSet {
			die("tasks: fetch section: `now` is compared before `now := time.Now()`")
		}
		return "notYet", false
	case "t.overtime":
		return "overtime", false
	}
	die("tasks: fetch section: unknown condition %s", exprString(fset, e))
	return "", false
}

func fetchEmit(t *fetchTree) string {
	if t.cond == "" {
		switch t.leaf.call {
		case "run":
			return ".run"
		case "asap":
			return ".asap"
		}
		return ".notDue"
	}
	y, n := fetchEmit(t.yes), fetchEmit(t.no)
	if t.neg {
		y, n = n, y
	}
	return "(if " + t.cond + " then " + y + " else " + n + ")"
}

// ---- end of runWithLocking: the queue slot ----------------------------------------------------------
//
// After its locked check section and the waits, runWithLocking raises queueCnt, starts the executor
// goroutine and starts the watcher goroutine that lowers queueCnt again (context of the execution over, or
// maxExecutionWait). The statements from the first of these three to the end of the function are read per
// call site (queue handler / schedule handler): conditions may only be bool parameters of runWithLocking,
// which are evaluated with the literal arguments of the call site. Emitted: how many times each caller
// raises the count, starts an executor and starts a watcher. Anything else stops the extraction.

func isRunWithLockingCall(e ast.Expr) bool {
	ce, ok := e.(*ast.CallExpr)
	if !ok {
		return false
	}
	sel, ok := ce.Fun.(*ast.SelectorExpr)
	if !ok || sel.Sel.Name != "runWithLocking" {
		return false
	}
	id, ok := sel.X.(*ast.Ident)
	return ok && id.Name == "t"
}

type slotCount struct{ inc, exec, watch int }

func genSlotSection(fset *token.FileSet, f *ast.File) string {
	fd := findFunc(f, "runWithLocking", "Task")
	if fd == nil {
		die("tasks: func (t *Task) runWithLocking not found")
	}
	var params []string
	if fd.Type.Params != nil {
		for _, fl := range fd.Type.Params.List {
			id, ok := fl.Type.(*ast.Ident)
			if !ok || id.Name != "bool" {
				die("tasks: runWithLocking: parameter of a type other than bool: %s", exprString(fset, fl.Type))
			}
			for _, n := range fl.Names {
				params = append(params, n.Name)
			}
		}
	}
	// call sites
	envs := map[string]map[string]bool{}
	for _, d := range f.Decls {
		cfd, ok := d.(*ast.FuncDecl)
		if !ok || cfd.Body == nil {
			continue
		}
		ast.Inspect(cfd.Body, func(n ast.Node) bool {
			ce, ok := n.(*ast.CallExpr)
			if !ok {
				return true
			}
			sel, ok := ce.Fun.(*ast.SelectorExpr)
			if !ok || sel.Sel.Name != "runWithLocking" {
				return true
			}
			who := map[string]string{"taskQueueHandler": "queue", "taskScheduleHandler": "direct"}[cfd.Name.Name]
			if who == "" || cfd.Recv != nil {
				die("tasks: runWithLocking is called from %s (known callers: taskQueueHandler, taskScheduleHandler)", cfd.Name.Name)
			}
			if _, dup := envs[who]; dup {
				die("tasks: %s calls runWithLocking twice", cfd.Name.Name)
			}
			if !isRunWithLockingCall(ce) {
				die("tasks: %s: runWithLocking is not called on `t`: %s", cfd.Name.Name, exprString(fset, ce))
			}
			if len(ce.Args) != len(params) {
				die("tasks: %s: runWithLocking called with %d arguments, declared with %d", cfd.Name.Name, len(ce.Args), len(params))
			}
			env := map[string]bool{}
			for i, a := range ce.Args {
				id, ok := a.(*ast.Ident)
				if !ok || (id.Name != "true" && id.Name != "false") {
					die("tasks: %s: argument %s of runWithLocking is not a literal true/false", cfd.Name.Name, exprString(fset, a))
				}
				env[params[i]] = id.Name == "true"
			}
			envs[who] = env
			return true
		})
	}
	for _, who := range []string{"queue", "direct"} {
		if _, ok := envs[who]; !ok {
			die("tasks: no call of runWithLocking by the %s caller found", who)
		}
	}
	// the tail of the body
	mentions := func(n ast.Node) bool {
		found := false
		ast.Inspect(n, func(m ast.Node) bool {
			if id, ok := m.(*ast.Ident); ok && (id.Name == "queueCnt" || id.Name == "executeWithLocking" || id.Name == "queueFree") {
				found = true
			}
			return !found
		})
		return found
	}
	start := -1
	for i, st := range fd.Body.List {
		if mentions(st) {
			start = i
			break
		}
	}
	if start < 0 {
		die("tasks: runWithLocking: no statement touching queueCnt / executeWithLocking found")
	}
	res := map[string]slotCount{}
	for who, env := range envs {
		c := slotCount{}
		slotInterp(fset, fd.Body.List[start:], env, &c)
		res[who] = c
	}
	var sb strings.Builder
	sb.WriteString("\n/-! End of `runWithLocking` (from the first statement touching `queueCnt` to the end of the function), read\n")
	sb.WriteString("    from the source per call site (`direct` = called by the schedule handler, else by the queue handler;\n")
	sb.WriteString("    conditions on bool parameters are evaluated with the literal arguments of the call site): how often the\n")
	sb.WriteString("    caller raises `queueCnt`, starts `executeWithLocking`, and starts the watcher that lowers `queueCnt`\n")
	sb.WriteString("    again when the execution's context is over or after `maxExecutionWait`. -/\n\n")
	emit := func(name string, get func(slotCount) int) {
		fmt.Fprintf(&sb, "def %s (direct : Bool) : Nat := if direct then %d else %d\n", name, get(res["direct"]), get(res["queue"]))
	}
	emit("slotsTaken", func(c slotCount) int { return c.inc })
	emit("executorsStarted", func(c slotCount) int { return c.exec })
	emit("watchersStarted", func(c slotCount) int { return c.watch })
	return sb.String()
}

// slotInterp interprets the statements; it reports whether the path has returned.
func slotInterp(fset *token.FileSet, stmts []ast.Stmt, env map[string]bool, c *slotCount) bool {
	for _, st := range stmts {
		if isIgnorableCall(st) {
			continue
		}
		switch x := st.(type) {
		case *ast.ReturnStmt:
			if len(x.Results) != 0 {
				die("tasks: runWithLocking: return with a value")
			}
			return true
		case *ast.ExprStmt:
			if exprString(fset, x.X) != "atomic.AddInt32(&queueCnt, 1)" {
				die("tasks: runWithLocking, start of the execution: unknown statement %s", exprStmtString(fset, st))
			}
			if c.exec > 0 {
				die("tasks: runWithLocking: queueCnt is raised after the executor goroutine was started")
			}
			c.inc++
		case *ast.GoStmt:
			if exprString(fset, x.Call) == "t.executeWithLocking()" {
				c.exec++
				continue
			}
			fl, ok := x.Call.Fun.(*ast.FuncLit)
			if !ok || len(x.Call.Args) != 0 {
				die("tasks: runWithLocking: unknown goroutine %s", exprStmtString(fset, st))
			}
			slotWatcher(fset, fl)
			c.watch++
		case *ast.IfStmt:
			if x.Init != nil {
				die("tasks: runWithLocking, start of the execution: if with init statement")
			}
			v := slotCond(fset, x.Cond, env)
			var blk []ast.Stmt
			if v {
				blk = x.Body.List
			} else {
				switch e := x.Else.(type) {
				case nil:
				case *ast.BlockStmt:
					blk = e.List
				default:
					die("tasks: runWithLocking, start of the execution: else-if chain")
				}
			}
			if slotInterp(fset, blk, env, c) {
				return true
			}
		default:
			die("tasks: runWithLocking, start of the execution: unknown statement %s", exprStmtString(fset, st))
		}
	}
	return false
}

func slotCond(fset *token.FileSet, e ast.Expr, env map[string]bool) bool {
	switch x := e.(type) {
	case *ast.ParenExpr:
		return slotCond(fset, x.X, env)
	case *ast.UnaryExpr:
		if x.Op == token.NOT {
			return !slotCond(fset, x.X, env)
		}
	case *ast.Ident:
		if v, ok := env[x.Name]; ok {
			return v
		}
		if x.Name == "true" || x.Name == "false" {
			return x.Name == "true"
		}
	}
	die("tasks: runWithLocking: the queue slot is taken / handed back under a condition that is not a bool parameter: %s", exprString(fset, e))
	return false
}

// slotWatcher checks the shape of the goroutine that hands the slot back:
// select { case <-t.ctx.Done(): case <-time.After(maxExecutionWait): }; if atomic.AddInt32(&queueCnt, -1) == 0 { signal queueFree }
func slotWatcher(fset *token.FileSet, fl *ast.FuncLit) {
	var body []ast.Stmt
	for _, st := range fl.Body.List {
		if !isIgnorableCall(st) {
			body = append(body, st)
		}
	}
	if len(body) != 2 {
		die("tasks: slot watcher: expected a select followed by the decrement, found %d statements", len(body))
	}
	sel, ok := body[0].(*ast.SelectStmt)
	if !ok || len(sel.Body.List) != 2 {
		die("tasks: slot watcher: first statement is not a two-way select")
	}
	want := map[string]bool{"<-t.ctx.Done()": false, "<-time.After(maxExecutionWait)": false}
	for _, cl := range sel.Body.List {
		cc := cl.(*ast.CommClause)
		if cc.Comm == nil || len(cc.Body) != 0 {
			die("tasks: slot watcher: select clause with a body or a default clause")
		}
		s := exprStmtString(fset, cc.Comm)
		if seen, ok := want[s]; !ok || seen {
			die("tasks: slot watcher: unknown wait %s", s)
		}
		want[s] = true
	}
	ifs, ok := body[1].(*ast.IfStmt)
	if !ok || ifs.Init != nil || ifs.Else != nil || exprString(fset, ifs.Cond) != "atomic.AddInt32(&queueCnt, -1) == 0" {
		die("tasks: slot watcher: second statement is not `if atomic.AddInt32(&queueCnt, -1) == 0 {...}`")
	}
	if len(ifs.Body.List) != 1 {
		die("tasks: slot watcher: unexpected body of the release signal")
	}
	s2, ok := ifs.Body.List[0].(*ast.SelectStmt)
	if !ok || len(s2.Body.List) != 2 {
		die("tasks: slot watcher: the release signal is not a non-blocking send")
	}
	sent := false
	for _, cl := range s2.Body.List {
		cc := cl.(*ast.CommClause)
		if cc.Comm == nil {
			continue
		}
		if exprStmtString(fset, cc.Comm) != "queueFree <- struct{}{}" || len(cc.Body) != 0 {
			die("tasks: slot watcher: unknown release signal %s", exprStmtString(fset, cc.Comm))
		}
		sent = true
	}
	if !sent {
		die("tasks: slot watcher: queueFree is not signalled")
	}
}
