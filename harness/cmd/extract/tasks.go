package main

import (
	"fmt"
	"go/ast"
	"go/token"
	"strconv"
	"strings"
)

func init() { generators["tasks"] = genTasks }

// genTasks extracts the time constants of the task scheduler (modules/tasks.go) in nanoseconds.
func genTasks() {
	fset, f := parseFile("modules/tasks.go")
	want := map[string]string{"maxTimeslotWait": "", "minRepeatDuration": "", "maxExecutionWait": "", "defaultMaxDelay": ""}
	units := map[string]int64{"Nanosecond": 1, "Microsecond": 1e3, "Millisecond": 1e6, "Second": 1e9, "Minute": 60e9, "Hour": 3600e9}
	for _, d := range f.Decls {
		gd, ok := d.(*ast.GenDecl)
		if !ok || gd.Tok != token.CONST {
			continue
		}
		for _, sp := range gd.Specs {
			vs := sp.(*ast.ValueSpec)
			for i, n := range vs.Names {
				if _, w := want[n.Name]; !w {
					continue
				}
				if i >= len(vs.Values) {
					die("tasks: constant %s has no value", n.Name)
				}
				be, ok := vs.Values[i].(*ast.BinaryExpr)
				if !ok || be.Op != token.MUL {
					die("tasks: constant %s is not of the form N * time.Unit: %s", n.Name, exprString(fset, vs.Values[i]))
				}
				lit, ok1 := be.X.(*ast.BasicLit)
				sel, ok2 := be.Y.(*ast.SelectorExpr)
				if !ok1 || !ok2 || lit.Kind != token.INT {
					die("tasks: constant %s is not of the form N * time.Unit", n.Name)
				}
				pkg, ok3 := sel.X.(*ast.Ident)
				u, ok4 := units[sel.Sel.Name]
				if !ok3 || pkg.Name != "time" || !ok4 {
					die("tasks: constant %s: unknown unit %s", n.Name, exprString(fset, be.Y))
				}
				k, err := strconv.ParseInt(lit.Value, 0, 64)
				if err != nil || k < 0 {
					die("tasks: constant %s: bad literal %s", n.Name, lit.Value)
				}
				want[n.Name] = strconv.FormatInt(k*u, 10)
			}
		}
	}
	var sb strings.Builder
	sb.WriteString("namespace PB.Gen.Tasks\n\n/-! Time constants of modules/tasks.go in nanoseconds. -/\n\n")
	for _, n := range []string{"maxTimeslotWait", "minRepeatDuration", "maxExecutionWait", "defaultMaxDelay"} {
		if want[n] == "" {
			die("tasks: constant %s not found", n)
		}
		fmt.Fprintf(&sb, "def %s : Nat := %s\n", n, want[n])
	}
	sb.WriteString("\nend PB.Gen.Tasks\n")
	write("Tasks.lean", sb.String())
}
