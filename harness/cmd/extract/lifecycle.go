package main

import (
	"fmt"
	"go/ast"
	"go/printer"
	"go/token"
	"io"
	"strings"
)

func printerFprintNode(w io.Writer, fset *token.FileSet, n ast.Node) error {
	return printer.Fprint(w, fset, n)
}

func init() { generators["lifecycle"] = genLifecycle }

// genLifecycle extracts, for C01, from modules/status.go the status constants, the ready verdicts and the
// comparisons made by readyToPrep / readyToStart / readyToStop, and from modules/modules.go the status
// values written by Module.prep / start / stop / stopAllTasks. Output: lean/PB/Gen/Lifecycle.lean.
// Any shape it does not recognise is an error (fail closed).
func genLifecycle() {
	fset, f := parseFile("modules/status.go")
	var sb strings.Builder
	sb.WriteString("namespace PB.Gen.Lifecycle\n\n")

	// --- status constants -------------------------------------------------------------------
	want := []string{"StatusDead", "StatusPreparing", "StatusOffline", "StatusStopping", "StatusStarting", "StatusOnline"}
	vals := map[string]string{}
	var iotaNames []string
	for _, d := range f.Decls {
		gd, ok := d.(*ast.GenDecl)
		if !ok || gd.Tok != token.CONST {
			continue
		}
		for i, sp := range gd.Specs {
			vs := sp.(*ast.ValueSpec)
			for j, id := range vs.Names {
				if strings.HasPrefix(id.Name, "Status") && len(vs.Values) > j {
					vals[id.Name] = constVal(fset, vs.Values[j]).ExactString()
				}
			}
			// the iota block of ready verdicts
			if len(vs.Names) == 1 && vs.Names[0].Name == "statusWaiting" {
				if i != 0 || len(vs.Values) != 1 || exprString(fset, vs.Values[0]) != "iota" {
					die("lifecycle: ready verdict block does not start with `statusWaiting … = iota`")
				}
				for _, sp2 := range gd.Specs {
					vs2 := sp2.(*ast.ValueSpec)
					if len(vs2.Names) != 1 {
						die("lifecycle: ready verdict block shape")
					}
					iotaNames = append(iotaNames, vs2.Names[0].Name)
				}
			}
		}
	}
	sb.WriteString("/-- Module status values, regenerated from the const block in modules/status.go. -/\n")
	for _, n := range want {
		v, ok := vals[n]
		if !ok {
			die("lifecycle: constant %s not found", n)
		}
		fmt.Fprintf(&sb, "abbrev s%s : Nat := %s\n", n[1:], v)
	}
	if strings.Join(iotaNames, ",") != "statusWaiting,statusReady,statusNothingToDo" {
		die("lifecycle: ready verdicts are %v", iotaNames)
	}
	sb.WriteString("\n/-- Ready verdicts (iota block in modules/status.go). -/\n")
	sb.WriteString("abbrev readyWaiting : Nat := 0\nabbrev readyReady : Nat := 1\nabbrev readyNothingToDo : Nat := 2\n\n")

	// --- helpers ------------------------------------------------------------------------------
	norm := func(n ast.Node) string {
		var b strings.Builder
		if err := printerFprintNode(&b, fset, n); err != nil {
			die("lifecycle: print: %v", err)
		}
		return strings.Join(strings.Fields(b.String()), " ")
	}
	leanConst := func(e ast.Expr) string {
		id, ok := e.(*ast.Ident)
		if !ok {
			die("lifecycle: comparison against %s, expected a Status constant", exprString(fset, e))
		}
		if _, ok := vals[id.Name]; !ok {
			die("lifecycle: unknown status constant %s", id.Name)
		}
		return "s" + id.Name[1:]
	}
	// cmp recognises `if <lhs> OP StatusX { return <verdict> }` and returns the Lean body.
	cmp := func(fn string, st ast.Stmt, lhs, verdict, arg string) string {
		is, ok := st.(*ast.IfStmt)
		if !ok || is.Init != nil || is.Else != nil || len(is.Body.List) != 1 {
			die("lifecycle: %s: expected a plain if statement, got %s", fn, norm(st))
		}
		if norm(is.Body.List[0]) != "return "+verdict {
			die("lifecycle: %s: expected `return %s`, got %s", fn, verdict, norm(is.Body.List[0]))
		}
		be, ok := is.Cond.(*ast.BinaryExpr)
		if !ok || exprString(fset, be.X) != lhs {
			die("lifecycle: %s: expected a comparison of %s, got %s", fn, lhs, norm(is.Cond))
		}
		var op string
		switch be.Op {
		case token.NEQ:
			op = "!="
		case token.EQL:
			op = "=="
		case token.LSS:
			op = "<"
		case token.LEQ:
			op = "≤"
		case token.GTR:
			op = ">"
		case token.GEQ:
			op = "≥"
		default:
			die("lifecycle: %s: unsupported operator %s", fn, be.Op)
		}
		return fmt.Sprintf("%s %s %s", arg, op, leanConst(be.Y))
	}
	// loop recognises `for _, v := range m.<field> { if v.Status() OP StatusX { return statusWaiting } }`.
	loop := func(fn string, st ast.Stmt, field, v, arg string) string {
		rs, ok := st.(*ast.RangeStmt)
		if !ok || exprString(fset, rs.X) != "m."+field || len(rs.Body.List) != 1 {
			die("lifecycle: %s: expected a loop over m.%s, got %s", fn, field, norm(st))
		}
		if id, ok := rs.Value.(*ast.Ident); !ok || id.Name != v {
			die("lifecycle: %s: loop variable", fn)
		}
		return cmp(fn, rs.Body.List[0], v+".Status()", "statusWaiting", arg)
	}
	body := func(name string, n int) []ast.Stmt {
		fd := findFunc(f, name, "Module")
		if fd == nil {
			die("lifecycle: func %s not found", name)
		}
		if len(fd.Body.List) != n {
			die("lifecycle: %s has %d statements, expected %d", name, len(fd.Body.List), n)
		}
		return fd.Body.List
	}
	expect := func(fn string, st ast.Node, text string) {
		if norm(st) != text {
			die("lifecycle: %s: expected\n  %s\ngot\n  %s", fn, text, norm(st))
		}
	}
	def := func(doc, name, arg, rhs string) {
		fmt.Fprintf(&sb, "/-- %s -/\ndef %s (%s : Nat) : Bool := %s\n", doc, name, arg, rhs)
	}

	// --- readyToPrep ---------------------------------------------------------------------------
	b := body("readyToPrep", 3)
	def("`readyToPrep`: own status test that yields statusNothingToDo.", "prepOwnSkip", "own",
		cmp("readyToPrep", b[0], "m.Status()", "statusNothingToDo", "own"))
	def("`readyToPrep`: dependency status test that yields statusWaiting.", "prepDepWaits", "dep",
		loop("readyToPrep", b[1], "depModules", "dep", "dep"))
	expect("readyToPrep", b[2], "return statusReady")

	// --- readyToStart --------------------------------------------------------------------------
	// Two shapes are understood: with the "never prepared => waiting" test (6 statements) and without it
	// (4 statements, the tree before that repair; the missing test is emitted as constantly false so that
	// the proofs, not the extractor, say what no longer holds).
	if fd := findFunc(f, "readyToStart", "Module"); fd != nil && len(fd.Body.List) == 4 {
		b = body("readyToStart", 4)
		expect("readyToStart", b[0], "if moduleMgmtEnabled.IsSet() { if !m.enabled.IsSet() && !m.enabledAsDependency.IsSet() { return statusNothingToDo } }")
		def("`readyToStart`: NO own status test that yields statusWaiting in the source.", "startOwnBlocked", "own", "own < 0")
		def("`readyToStart`: own status test that yields statusNothingToDo.", "startOwnSkip", "own",
			cmp("readyToStart", b[1], "m.Status()", "statusNothingToDo", "own"))
		def("`readyToStart`: dependency status test that yields statusWaiting.", "startDepWaits", "dep",
			loop("readyToStart", b[2], "depModules", "dep", "dep"))
		expect("readyToStart", b[3], "return statusReady")
	} else {
		b = body("readyToStart", 6)
		expect("readyToStart", b[0], "if moduleMgmtEnabled.IsSet() { if !m.enabled.IsSet() && !m.enabledAsDependency.IsSet() { return statusNothingToDo } }")
		expect("readyToStart", b[1], "status := m.Status()")
		def("`readyToStart`: own status test that yields statusWaiting (never prepared).", "startOwnBlocked", "own",
			cmp("readyToStart", b[2], "status", "statusWaiting", "own"))
		def("`readyToStart`: own status test that yields statusNothingToDo.", "startOwnSkip", "own",
			cmp("readyToStart", b[3], "status", "statusNothingToDo", "own"))
		def("`readyToStart`: dependency status test that yields statusWaiting.", "startDepWaits", "dep",
			loop("readyToStart", b[4], "depModules", "dep", "dep"))
		expect("readyToStart", b[5], "return statusReady")
	}

	// --- readyToStop ---------------------------------------------------------------------------
	b = body("readyToStop", 4)
	expect("readyToStop", b[0], "if moduleMgmtEnabled.IsSet() && !shutdownFlag.IsSet() { if m.enabled.IsSet() || m.enabledAsDependency.IsSet() { return statusNothingToDo } }")
	def("`readyToStop`: own status test that yields statusNothingToDo.", "stopOwnSkip", "own",
		cmp("readyToStop", b[1], "m.Status()", "statusNothingToDo", "own"))
	def("`readyToStop`: reverse-dependency status test that yields statusWaiting.", "stopRevWaits", "rev",
		loop("readyToStop", b[2], "depReverse", "revDep", "rev"))
	expect("readyToStop", b[3], "return statusReady")

	// --- status writes of Module.prep / start / stop / stopAllTasks -----------------------------
	_, mf := parseFile("modules/modules.go")
	writes := func(name string) []string {
		fd := findFunc(mf, name, "Module")
		if fd == nil {
			die("lifecycle: func %s not found in modules.go", name)
		}
		var out []string
		ast.Inspect(fd.Body, func(n ast.Node) bool {
			as, ok := n.(*ast.AssignStmt)
			if !ok || len(as.Lhs) != 1 || len(as.Rhs) != 1 {
				return true
			}
			if se, ok := as.Lhs[0].(*ast.SelectorExpr); ok && se.Sel.Name == "status" {
				if x, ok := se.X.(*ast.Ident); ok && x.Name == "m" {
					out = append(out, leanConst(as.Rhs[0]))
				}
			}
			return true
		})
		return out
	}
	emit := func(fn string, names ...string) {
		w := writes(fn)
		if len(w) != len(names) {
			die("lifecycle: %s writes m.status %d times (%v), expected %d", fn, len(w), w, len(names))
		}
		for i, n := range names {
			fmt.Fprintf(&sb, "abbrev %s : Nat := %s\n", n, w[i])
		}
	}
	sb.WriteString("\n/-- Status written by `Module.prep` / `start` / `stop` / `stopAllTasks`, in source order. -/\n")
	emit("prep", "prepLaunch", "prepDone")
	if len(writes("start")) == 2 {
		// the tree before the repair: a failed start leaves the status it was launched with
		emit("start", "startLaunch", "startDone")
		sb.WriteString("abbrev startFailed : Nat := startLaunch\n")
	} else {
		emit("start", "startLaunch", "startFailed", "startDone")
	}
	emit("stop", "stopLaunch")
	emit("stopAllTasks", "stopDone")
	genResultPath(&sb)
	sb.WriteString("\nend PB.Gen.Lifecycle\n")
	write("Lifecycle.lean", sb.String())
}
