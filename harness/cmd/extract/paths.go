package main

import (
	"fmt"
	"go/ast"
	"go/constant"
	"go/token"
	"strings"
)

func init() { generators["paths"] = genPaths }

// stringConst finds `name = "<literal>"` in a const (or var) declaration of the file and returns the string.
func stringConst(rel, name string) string {
	fset, f := parseFile(rel)
	for _, d := range f.Decls {
		gd, ok := d.(*ast.GenDecl)
		if !ok || (gd.Tok != token.CONST && gd.Tok != token.VAR) {
			continue
		}
		for _, sp := range gd.Specs {
			vs := sp.(*ast.ValueSpec)
			for i, id := range vs.Names {
				if id.Name != name {
					continue
				}
				if i >= len(vs.Values) {
					die("%s: %s has no value", rel, name)
				}
				v := constVal(fset, vs.Values[i])
				if v.Kind() != constant.String {
					die("%s: %s is not a string constant", rel, name)
				}
				return constant.StringVal(v)
			}
		}
	}
	die("%s: constant %s not found", rel, name)
	return ""
}

func pathsLeanBytes(s string) string {
	parts := make([]string, len(s))
	for i := 0; i < len(s); i++ {
		parts[i] = fmt.Sprint(s[i])
	}
	return "[" + strings.Join(parts, ", ") + "]"
}

// dirStructureShape reads, from utils/structure.go, the shape facts the tree invariant of the model rests on
// (a child is registered, and later looked up, under the very name its path is built from):
//   - ChildDir indexes <recv>.Children only with its name parameter, never assigns to that parameter, and builds
//     the child's Path as filepath.Join(<recv>.Path, <name parameter>);
//   - ensure reads <recv>.Children exactly once, as <recv>.Children[<elements parameter>[0]].
// Anything else yields false (the theorem over these definitions then no longer holds).
func dirStructureShape() (keyIsName, pathJoinsName, ensureByElement bool) {
	fset, f := parseFile("utils/structure.go")
	recvName := func(fd *ast.FuncDecl) string {
		if fd.Recv != nil && len(fd.Recv.List) == 1 && len(fd.Recv.List[0].Names) == 1 {
			return fd.Recv.List[0].Names[0].Name
		}
		return ""
	}
	firstParam := func(fd *ast.FuncDecl) string {
		if fd.Type.Params != nil && len(fd.Type.Params.List) > 0 && len(fd.Type.Params.List[0].Names) > 0 {
			return fd.Type.Params.List[0].Names[0].Name
		}
		return ""
	}
	cd := findFunc(f, "ChildDir", "DirStructure")
	en := findFunc(f, "ensure", "DirStructure")
	if cd == nil || en == nil || cd.Body == nil || en.Body == nil {
		die("utils/structure.go: ChildDir / ensure not found")
	}
	rv, name := recvName(cd), firstParam(cd)
	if rv == "" || name == "" {
		die("utils/structure.go: ChildDir has no receiver name / name parameter")
	}
	keyIsName, pathJoinsName = true, false
	nIndex := 0
	ast.Inspect(cd.Body, func(n ast.Node) bool {
		switch x := n.(type) {
		case *ast.IndexExpr:
			if exprString(fset, x.X) == rv+".Children" {
				nIndex++
				if exprString(fset, x.Index) != name {
					keyIsName = false
				}
			}
		case *ast.AssignStmt:
			for _, l := range x.Lhs {
				if id, ok := l.(*ast.Ident); ok && id.Name == name {
					keyIsName = false // the name parameter is overwritten
				}
			}
		case *ast.RangeStmt:
			if strings.Contains(exprString(fset, x.X), "Children") {
				keyIsName = false
			}
		case *ast.KeyValueExpr:
			if id, ok := x.Key.(*ast.Ident); ok && id.Name == "Path" {
				pathJoinsName = exprString(fset, x.Value) == "filepath.Join("+rv+".Path, "+name+")"
			}
		}
		return true
	})
	if nIndex == 0 {
		keyIsName = false
	}
	rv2, elems := recvName(en), firstParam(en)
	nChildren, okLookup := 0, false
	ast.Inspect(en.Body, func(n ast.Node) bool {
		switch x := n.(type) {
		case *ast.SelectorExpr:
			if x.Sel.Name == "Children" {
				nChildren++
			}
		case *ast.IndexExpr:
			if exprString(fset, x.X) == rv2+".Children" && exprString(fset, x.Index) == elems+"[0]" {
				okLookup = true
			}
		}
		return true
	})
	ensureByElement = nChildren == 1 && okLookup
	return
}

// genPaths extracts the string constants the path scope checks of C18 depend on.
func genPaths() {
	api := stringConst("api/endpoints.go", "apiV1Path")
	zip := stringConst("updater/unpacking.go", "zipSuffix")
	var sb strings.Builder
	sb.WriteString("namespace PB.Gen.Paths\n\n")
	sb.WriteString("/-- `apiV1Path` (api/endpoints.go): the URL prefix bridged requests must stay below. -/\n")
	fmt.Fprintf(&sb, "def apiV1Path : List UInt8 := %s -- %q\n\n", pathsLeanBytes(api), api)
	sb.WriteString("/-- `zipSuffix` (updater/unpacking.go). -/\n")
	fmt.Fprintf(&sb, "def zipSuffix : List UInt8 := %s -- %q\n\n", pathsLeanBytes(zip), zip)
	k, pj, eb := dirStructureShape()
	sb.WriteString("/-- utils/structure.go `ChildDir`: `Children` is indexed with the name parameter only (which is never reassigned). -/\n")
	fmt.Fprintf(&sb, "def childDirKeyIsGivenName : Bool := %v\n\n", k)
	sb.WriteString("/-- utils/structure.go `ChildDir`: the child's `Path` is `filepath.Join(ds.Path, <name parameter>)`. -/\n")
	fmt.Fprintf(&sb, "def childDirPathJoinsGivenName : Bool := %v\n\n", pj)
	sb.WriteString("/-- utils/structure.go `ensure`: `Children` is read exactly once, as `Children[pathDirs[0]]`. -/\n")
	fmt.Fprintf(&sb, "def ensureLooksUpByElement : Bool := %v\n\n", eb)
	sb.WriteString("end PB.Gen.Paths\n")
	write("Paths.lean", sb.String())
}
