package main

import (
	"fmt"
	"go/ast"
	"go/constant"
	"go/token"
	"strings"
)

func init() { generators["paths"] = genPaths }

// stringConst finds `name = "<literal>"` in a const (or var) declaration of the file and returns the string.
func stringConst(rel, name string) string {
	fset, f := parseFile(rel)
	for _, d := range f.Decls {
		gd, ok := d.(*ast.GenDecl)
		if !ok || (gd.Tok != token.CONST && gd.Tok != token.VAR) {
			continue
		}
		for _, sp := range gd.Specs {
			vs := sp.(*ast.ValueSpec)
			for i, id := range vs.Names {
				if id.Name != name {
					continue
				}
				if i >= len(vs.Values) {
					die("%s: %s has no value", rel, name)
				}
				v := constVal(fset, vs.Values[i])
				if v.Kind() != constant.String {
					die("%s: %s is not a string constant", rel, name)
				}
				return constant.StringVal(v)
			}
		}
	}
	die("%s: constant %s not found", rel, name)
	return ""
}

func pathsLeanBytes(s string) string {
	parts := make([]string, len(s))
	for i := 0; i < len(s); i++ {
		parts[i] = fmt.Sprint(s[i])
	}
	return "[" + strings.Join(parts, ", ") + "]"
}

// genPaths extracts the string constants the path scope checks of C18 depend on.
func genPaths() {
	api := stringConst("api/endpoints.go", "apiV1Path")
	zip := stringConst("updater/unpacking.go", "zipSuffix")
	var sb strings.Builder
	sb.WriteString("namespace PB.Gen.Paths\n\n")
	sb.WriteString("/-- `apiV1Path` (api/endpoints.go): the URL prefix bridged requests must stay below. -/\n")
	fmt.Fprintf(&sb, "def apiV1Path : List UInt8 := %s -- %q\n\n", pathsLeanBytes(api), api)
	sb.WriteString("/-- `zipSuffix` (updater/unpacking.go). -/\n")
	fmt.Fprintf(&sb, "def zipSuffix : List UInt8 := %s -- %q\n\n", pathsLeanBytes(zip), zip)
	sb.WriteString("end PB.Gen.Paths\n")
	write("Paths.lean", sb.String())
}
