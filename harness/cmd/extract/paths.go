package main

import (
	"fmt"
	"go/ast"
	"go/constant"
	"go/token"
	"strings"
)

func init() { generators["paths"] = genPaths }

// stringConst finds `name = "<literal>"` in a const (or var) declaration of the file and returns the string.
func stringConst(rel, name string) string {
	fset, f := parseFile(rel)
	for _, d := range f.Decls {
		gd, ok := d.(*ast.GenDecl)
		if !ok || (gd.Tok != token.CONST && gd.Tok != token.VAR) {
			continue
		}
		for _, sp := range gd.Specs {
			vs := sp.(*ast.ValueSpec)
			for i, id := range vs.Names {
				if id.Name != name {
					continue
				}
				if i >= len(vs.Values) {
					die("%s: %s has no value", rel, name)
				}
				v := constVal(fset, vs.Values[i])
				if v.Kind() != constant.String {
					die("%s: %s is not a string constant", rel, name)
				}
				return constant.StringVal(v)
			}
		}
	}
	die("%s: constant %s not found", rel, name)
	return ""
}

func pathsLeanBytes(s string) string {
	parts := make([]string, len(s))
	for i := 0; i < len(s); i++ {
		parts[i] = fmt.Sprint(s[i])
	}
	return "[" + strings.Join(parts, ", ") + "]"
}

// dirStructureShape reads, from utils/structure.go, the shape facts the tree invariant of the model rests on
// (a child is registered, and later looked up, under the very name its path is built from):
//   - ChildDir indexes <recv>.Children only with its name parameter, never assigns to that parameter, and builds
//     the child's Path as filepath.Join(<recv>.Path, <name parameter>);
//   - ensure reads <recv>.Children exactly once, as <recv>.Children[<elements parameter>[0]].
// Anything else yields false (the theorem over these definitions then no longer holds).
func dirStructureShape() (keyIsName, pathJoinsName, ensureByElement bool) {
	fset, f := parseFile("utils/structure.go")
	recvName := func(fd *ast.FuncDecl) string {
		if fd.Recv != nil && len(fd.Recv.List) == 1 && len(fd.Recv.List[0].Names) == 1 {
			return fd.Recv.List[0].Names[0].Name
		}
		return ""
	}
	firstParam := func(fd *ast.FuncDecl) string {
		if fd.Type.Params != nil && len(fd.Type.Params.List) > 0 && len(fd.Type.Params.List[0].Names) > 0 {
			return fd.Type.Params.List[0].Names[0].Name
		}
		return ""
	}
	cd := findFunc(f, "ChildDir", "DirStructure")
	en := findFunc(f, "ensure", "DirStructure")
	if cd == nil || en == nil || cd.Body == nil || en.Body == nil {
		die("utils/structure.go: ChildDir / ensure not found")
	}
	rv, name := recvName(cd), firstParam(cd)
	if rv == "" || name == "" {
		die("utils/structure.go: ChildDir has no receiver name / name parameter")
	}
	keyIsName, pathJoinsName = true, false
	nIndex := 0
	ast.Inspect(cd.Body, func(n ast.Node) bool {
		switch x := n.(type) {
		case *ast.IndexExpr:
			if exprString(fset, x.X) == rv+".Children" {
				nIndex++
				if exprString(fset, x.Index) != name {
					keyIsName = false
				}
			}
		case *ast.AssignStmt:
			for _, l := range x.Lhs {
				if id, ok := l.(*ast.Ident); ok && id.Name == name {
					keyIsName = false // the name parameter is overwritten
				}
			}
		case *ast.RangeStmt:
			if strings.Contains(exprString(fset, x.X), "Children") {
				keyIsName = false
			}
		case *ast.KeyValueExpr:
			if id, ok := x.Key.(*ast.Ident); ok && id.Name == "Path" {
				pathJoinsName = exprString(fset, x.Value) == "filepath.Join("+rv+".Path, "+name+")"
			}
		}
		return true
	})
	if nIndex == 0 {
		keyIsName = false
	}
	rv2, elems := recvName(en), firstParam(en)
	nChildren, okLookup := 0, false
	ast.Inspect(en.Body, func(n ast.Node) bool {
		switch x := n.(type) {
		case *ast.SelectorExpr:
			if x.Sel.Name == "Children" {
				nChildren++
			}
		case *ast.IndexExpr:
			if exprString(fset, x.X) == rv2+".Children" && exprString(fset, x.Index) == elems+"[0]" {
				okLookup = true
			}
		}
		return true
	})
	ensureByElement = nChildren == 1 && okLookup
	return
}


// scopeIfCond finds, in function fn (receiver type recv, "" for a plain function) of file rel, the `if` statement
// whose body produces the error text msg, and returns its condition as source text.  Exactly one such statement
// must exist, it must have no init statement and no else branch, and its body must end in a return.
func scopeIfCond(rel, fn, recv, msg string) string {
	fset, f := parseFile(rel)
	fd := findFunc(f, fn, recv)
	if fd == nil || fd.Body == nil {
		die("%s: function %s not found", rel, fn)
	}
	var found []*ast.IfStmt
	ast.Inspect(fd.Body, func(n ast.Node) bool {
		is, ok := n.(*ast.IfStmt)
		if !ok {
			return true
		}
		has := false
		for _, st := range is.Body.List { // direct statements of the body only
			ast.Inspect(st, func(m ast.Node) bool {
				if _, nested := m.(*ast.IfStmt); nested {
					return false
				}
				if bl, ok := m.(*ast.BasicLit); ok && bl.Kind == token.STRING && strings.Contains(bl.Value, msg) {
					has = true
				}
				return true
			})
		}
		if has {
			found = append(found, is)
		}
		return true
	})
	if len(found) != 1 {
		die("%s: %s: expected exactly one if statement producing %q, found %d", rel, fn, msg, len(found))
	}
	is := found[0]
	if is.Else != nil || len(is.Body.List) == 0 {
		die("%s: %s: the if statement producing %q has an else branch / empty body", rel, fn, msg)
	}
	if _, ok := is.Body.List[len(is.Body.List)-1].(*ast.ReturnStmt); !ok {
		die("%s: %s: the if statement producing %q does not end in a return", rel, fn, msg)
	}
	if is.Init != nil { // reported as written: the theorem over the generated text then shows the difference
		var sb strings.Builder
		if err := printerFprintNode(&sb, fset, is.Init); err != nil {
			die("print stmt: %v", err)
		}
		return sb.String() + "; " + exprString(fset, is.Cond)
	}
	return exprString(fset, is.Cond)
}

// assignedIn reports whether the identifier name is (re)assigned, re-declared, incremented, used as a range variable
// or has its address taken anywhere below node n (other than by the one statement `except`).
func assignedIn(n ast.Node, name string, except ast.Stmt) bool {
	hit := false
	ast.Inspect(n, func(m ast.Node) bool {
		if m == nil || hit {
			return false
		}
		if st, ok := m.(ast.Stmt); ok && except != nil && st == except {
			return false
		}
		isName := func(e ast.Expr) bool { id, ok := e.(*ast.Ident); return ok && id.Name == name }
		switch x := m.(type) {
		case *ast.AssignStmt:
			for _, l := range x.Lhs {
				if isName(l) {
					hit = true
				}
			}
		case *ast.IncDecStmt:
			hit = hit || isName(x.X)
		case *ast.RangeStmt:
			hit = hit || (x.Key != nil && isName(x.Key)) || (x.Value != nil && isName(x.Value))
		case *ast.UnaryExpr:
			hit = hit || (x.Op == token.AND && isName(x.X))
		case *ast.ValueSpec:
			for _, id := range x.Names {
				hit = hit || id.Name == name
			}
		case *ast.FuncLit:
			for _, fl := range x.Type.Params.List {
				for _, id := range fl.Names {
					hit = hit || id.Name == name
				}
			}
		}
		return !hit
	})
	return hit
}

// unpackLoopShape reads, from updater/unpacking.go, the shape facts the model of the entry loop rests on:
//
//	everyEntryChecked: the loop over archiveReader.File starts with `dstPath := filepath.Join(tmpDir,
//	  filepath.FromSlash(file.Name))`, immediately followed — as a direct, unconditional statement of the loop body —
//	  by the scope check (the if statement producing "outside of the unpack dir", ending in a return); neither
//	  dstPath nor tmpDir is assigned anywhere else in the loop; the body has no continue / goto / label; the one
//	  call of copyFromZipArchive comes after the check and gets (file, dstPath);
//	copyUsesGivenPath: copyFromZipArchive never assigns, re-declares or takes the address of its path parameter and
//	  every call into package os that takes a path (Mkdir, OpenFile, …) gets that parameter itself as first argument.
func unpackLoopShape() (everyEntryChecked, copyUsesGivenPath bool, scopeCond string) {
	const rel = "updater/unpacking.go"
	scopeCond = scopeIfCond(rel, "unpackZipArchive", "Resource", "outside of the unpack dir")
	fset, f := parseFile(rel)
	fd := findFunc(f, "unpackZipArchive", "Resource")
	var loops []*ast.RangeStmt
	ast.Inspect(fd.Body, func(n ast.Node) bool {
		if rs, ok := n.(*ast.RangeStmt); ok && exprString(fset, rs.X) == "archiveReader.File" {
			loops = append(loops, rs)
		}
		return true
	})
	if len(loops) != 1 {
		die("%s: expected exactly one loop over archiveReader.File, found %d", rel, len(loops))
	}
	loop := loops[0]
	fileVar := ""
	if id, ok := loop.Value.(*ast.Ident); ok {
		fileVar = id.Name
	}
	body := loop.Body.List
	everyEntryChecked = fileVar != "" && len(body) >= 3
	if everyEntryChecked {
		as, ok := body[0].(*ast.AssignStmt)
		everyEntryChecked = ok && as.Tok == token.DEFINE && len(as.Lhs) == 1 && len(as.Rhs) == 1 &&
			exprString(fset, as.Lhs[0]) == "dstPath" &&
			exprString(fset, as.Rhs[0]) == "filepath.Join(tmpDir, filepath.FromSlash("+fileVar+".Name))"
	}
	if everyEntryChecked {
		is, ok := body[1].(*ast.IfStmt)
		everyEntryChecked = ok && is.Init == nil && is.Else == nil && exprString(fset, is.Cond) == scopeCond && len(is.Body.List) > 0
		if everyEntryChecked {
			_, isRet := is.Body.List[len(is.Body.List)-1].(*ast.ReturnStmt)
			everyEntryChecked = isRet && !assignedIn(is, "dstPath", nil) && !assignedIn(is, "tmpDir", nil)
		}
	}
	if everyEntryChecked {
		everyEntryChecked = !assignedIn(loop.Body, "dstPath", body[0]) && !assignedIn(loop.Body, "tmpDir", nil) && !assignedIn(loop.Body, fileVar, nil)
		nCalls := 0
		ast.Inspect(loop.Body, func(n ast.Node) bool {
			switch x := n.(type) {
			case *ast.BranchStmt, *ast.LabeledStmt:
				everyEntryChecked = false
			case *ast.CallExpr:
				if exprString(fset, x.Fun) == "copyFromZipArchive" {
					nCalls++
					if len(x.Args) != 2 || exprString(fset, x.Args[0]) != fileVar || exprString(fset, x.Args[1]) != "dstPath" || x.Pos() < body[1].End() {
						everyEntryChecked = false
					}
				}
			}
			return true
		})
		everyEntryChecked = everyEntryChecked && nCalls == 1
	}
	// the check must not be disabled from outside the loop either: tmpDir is assigned exactly once in the function
	nTmp := 0
	ast.Inspect(fd.Body, func(n ast.Node) bool {
		if as, ok := n.(*ast.AssignStmt); ok {
			for _, l := range as.Lhs {
				if id, ok := l.(*ast.Ident); ok && id.Name == "tmpDir" {
					nTmp++
				}
			}
		}
		return true
	})
	everyEntryChecked = everyEntryChecked && nTmp == 1

	cp := findFunc(f, "copyFromZipArchive", "")
	if cp == nil || cp.Body == nil || cp.Type.Params == nil {
		die("%s: copyFromZipArchive not found", rel)
	}
	var params []string
	for _, fl := range cp.Type.Params.List {
		for _, id := range fl.Names {
			params = append(params, id.Name)
		}
	}
	if len(params) != 2 {
		die("%s: copyFromZipArchive: expected (archiveFile, dstPath), got %v", rel, params)
	}
	pathParam := params[1]
	copyUsesGivenPath = !assignedIn(cp.Body, pathParam, nil)
	nOS := 0
	ast.Inspect(cp.Body, func(n ast.Node) bool {
		ce, ok := n.(*ast.CallExpr)
		if !ok {
			return true
		}
		fn := exprString(fset, ce.Fun)
		if strings.HasPrefix(fn, "os.") || strings.HasPrefix(fn, "ioutil.") || strings.HasPrefix(fn, "renameio.") || strings.HasPrefix(fn, "utils.") {
			nOS++
			if len(ce.Args) == 0 || exprString(fset, ce.Args[0]) != pathParam {
				copyUsesGivenPath = false
			}
		}
		return true
	})
	copyUsesGivenPath = copyUsesGivenPath && nOS == 2 // os.Mkdir and os.OpenFile
	return
}

func leanStr(s string) string {
	return "\"" + strings.NewReplacer("\\", "\\\\", "\"", "\\\"", "\n", "\\n", "\t", "\\t").Replace(s) + "\""
}

// genPaths extracts the string constants the path scope checks of C18 depend on.
func genPaths() {
	api := stringConst("api/endpoints.go", "apiV1Path")
	zip := stringConst("updater/unpacking.go", "zipSuffix")
	var sb strings.Builder
	sb.WriteString("namespace PB.Gen.Paths\n\n")
	sb.WriteString("/-- `apiV1Path` (api/endpoints.go): the URL prefix bridged requests must stay below. -/\n")
	fmt.Fprintf(&sb, "def apiV1Path : List UInt8 := %s -- %q\n\n", pathsLeanBytes(api), api)
	sb.WriteString("/-- `zipSuffix` (updater/unpacking.go). -/\n")
	fmt.Fprintf(&sb, "def zipSuffix : List UInt8 := %s -- %q\n\n", pathsLeanBytes(zip), zip)
	k, pj, eb := dirStructureShape()
	sb.WriteString("/-- utils/structure.go `ChildDir`: `Children` is indexed with the name parameter only (which is never reassigned). -/\n")
	fmt.Fprintf(&sb, "def childDirKeyIsGivenName : Bool := %v\n\n", k)
	sb.WriteString("/-- utils/structure.go `ChildDir`: the child's `Path` is `filepath.Join(ds.Path, <name parameter>)`. -/\n")
	fmt.Fprintf(&sb, "def childDirPathJoinsGivenName : Bool := %v\n\n", pj)
	sb.WriteString("/-- utils/structure.go `ensure`: `Children` is read exactly once, as `Children[pathDirs[0]]`. -/\n")
	fmt.Fprintf(&sb, "def ensureLooksUpByElement : Bool := %v\n\n", eb)
	every, given, unpackCond := unpackLoopShape()
	sb.WriteString("/-- updater/unpacking.go `unpackZipArchive`: every pass of the loop over the archive entries computes `dstPath` from the\n    entry's own name and runs the scope check on it unconditionally, before the one call `copyFromZipArchive(file, dstPath)`. -/\n")
	fmt.Fprintf(&sb, "def unpackLoopChecksEveryEntry : Bool := %v\n\n", every)
	sb.WriteString("/-- updater/unpacking.go `copyFromZipArchive`: the path parameter is never changed and is what `os.Mkdir` / `os.OpenFile` get. -/\n")
	fmt.Fprintf(&sb, "def copyUsesGivenPath : Bool := %v\n\n", given)
	sb.WriteString("/-- The conditions of the scope checks, as written (the `if` statements that produce the components' scope errors). -/\n")
	fmt.Fprintf(&sb, "def unpackScopeCond : String := %s\n", leanStr(unpackCond))
	fmt.Fprintf(&sb, "def fstreeScopeCond : String := %s\n", leanStr(scopeIfCond("database/storage/fstree/fstree.go", "buildFilePath", "FSTree", "key integrity check failed")))
	fmt.Fprintf(&sb, "def fstreeCleanCond : String := %s\n", leanStr(scopeIfCond("database/storage/fstree/fstree.go", "buildFilePath", "FSTree", "key is not a clean path")))
	fmt.Fprintf(&sb, "def scanScopeCond : String := %s\n", leanStr(scopeIfCond("updater/storage.go", "ScanStorage", "ResourceRegistry", "not within storage")))
	fmt.Fprintf(&sb, "def dirStructureScopeCond : String := %s\n", leanStr(scopeIfCond("utils/structure.go", "EnsureAbsPath", "DirStructure", "outside of DirStructure scope")))
	fmt.Fprintf(&sb, "def bridgeScopeCond : String := %s\n\n", leanStr(scopeIfCond("api/api_bridge.go", "callAPI", "", "violates scope")))
	sb.WriteString("end PB.Gen.Paths\n")
	write("Paths.lean", sb.String())
}
