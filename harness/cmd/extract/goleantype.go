package main

// goleantype.go: translateType — constructors and methods of one struct type, without the clock parameter that
// translateMethods adds for record.Meta (see golean.go for the fragment and its semantics).

import (
	"fmt"
	"go/ast"
	"go/build"
	"go/importer"
	"go/parser"
	"go/token"
	"go/types"
	"os"
	"path/filepath"
	"strings"
)

// repoImporter resolves imports of portbase packages from the repo tree that is being extracted (so that the
// extractor does not depend on the directory it is started in or on module resolution); everything else goes
// to the standard source importer.
type repoImporter struct {
	fset  *token.FileSet
	std   types.Importer
	cache map[string]*types.Package
}

func (ri *repoImporter) Import(path string) (*types.Package, error) {
	const pfx = "github.com/safing/portbase/"
	if !strings.HasPrefix(path, pfx) {
		return ri.std.Import(path)
	}
	if p, ok := ri.cache[path]; ok {
		return p, nil
	}
	dir := filepath.Join(repo, strings.TrimPrefix(path, pfx))
	ents, err := os.ReadDir(dir)
	if err != nil {
		return nil, err
	}
	var files []*ast.File
	for _, e := range ents {
		n := e.Name()
		if e.IsDir() || !strings.HasSuffix(n, ".go") || strings.HasSuffix(n, "_test.go") {
			continue
		}
		if ok, err := build.Default.MatchFile(dir, n); err != nil || !ok {
			continue
		}
		f, err := parser.ParseFile(ri.fset, filepath.Join(dir, n), nil, 0)
		if err != nil {
			return nil, err
		}
		files = append(files, f)
	}
	conf := types.Config{Importer: ri}
	p, err := conf.Check(path, ri.fset, files, nil)
	if err != nil {
		return nil, err
	}
	ri.cache[path] = p
	return p, nil
}

type typeCfg struct {
	dir          string
	files        []string
	typeName     string
	constructors []string // package-level functions returning *T
	methods      []string // in dependency order
	extern       map[string]string
	imports      []string
	ns, outFile  string
	header       string
}

func translateType(cfg typeCfg) {
	fset := token.NewFileSet()
	var afs []*ast.File
	for _, f := range cfg.files {
		_, af := parseFileInto(fset, cfg.dir+"/"+f)
		afs = append(afs, af)
	}
	info := &types.Info{Types: map[ast.Expr]types.TypeAndValue{}, Uses: map[*ast.Ident]types.Object{}, Defs: map[*ast.Ident]types.Object{}}
	conf := types.Config{Importer: &repoImporter{fset: fset, std: importer.ForCompiler(fset, "source", nil), cache: map[string]*types.Package{}}}
	pkg, err := conf.Check(cfg.dir, fset, afs, info)
	if err != nil {
		die("golean: type-check %s: %v", cfg.dir, err)
	}
	g := &goLean{fset: fset, info: info, pkg: pkg, funcs: map[string]*ast.FuncDecl{}, sentin: map[string]bool{}, methods: map[string]*ast.FuncDecl{},
		recvType: cfg.typeName, noClock: true, structs: map[string]*ast.StructType{}, extern: cfg.extern}
	ctors := map[string]*ast.FuncDecl{}
	for _, af := range afs {
		for _, d := range af.Decls {
			switch x := d.(type) {
			case *ast.GenDecl:
				for _, sp := range x.Specs {
					if ts, ok := sp.(*ast.TypeSpec); ok && ts.Name.Name == cfg.typeName {
						if st, ok := ts.Type.(*ast.StructType); ok {
							g.structs[cfg.typeName] = st
						}
					}
				}
			case *ast.FuncDecl:
				if x.Recv == nil {
					for _, n := range cfg.constructors {
						if x.Name.Name == n {
							ctors[n] = x
						}
					}
					continue
				}
				if len(x.Recv.List) != 1 {
					continue
				}
				t := x.Recv.List[0].Type
				if se, ok := t.(*ast.StarExpr); ok {
					t = se.X
				}
				if id, ok := t.(*ast.Ident); ok && id.Name == cfg.typeName {
					for _, n := range cfg.methods {
						if x.Name.Name == n {
							g.methods[n] = x
						}
					}
				}
			}
		}
	}
	st := g.structs[cfg.typeName]
	if st == nil {
		die("golean: struct %s not found", cfg.typeName)
	}
	var sb strings.Builder
	sb.WriteString("import PB.GoSem\n")
	for _, im := range cfg.imports {
		sb.WriteString("import " + im + "\n")
	}
	sb.WriteString(cfg.header)
	sb.WriteString("namespace " + cfg.ns + "\n\n")
	fmt.Fprintf(&sb, "/-- fields of Go struct `%s` -/\nstructure %s where\n", cfg.typeName, cfg.typeName)
	for _, fld := range st.Fields.List {
		for _, nm := range fld.Names {
			fmt.Fprintf(&sb, "  %s : %s\n", nm.Name, g.leanType(info.TypeOf(fld.Type)))
		}
	}
	sb.WriteString("  deriving Repr, DecidableEq\n\n")
	results := func(fd *ast.FuncDecl) []string {
		var rts []string
		if fd.Type.Results != nil {
			for _, fld := range fd.Type.Results.List {
				k := len(fld.Names)
				if k == 0 {
					k = 1
				}
				for i := 0; i < k; i++ {
					rts = append(rts, g.leanType(g.info.TypeOf(fld.Type)))
				}
			}
		}
		return rts
	}
	paramsOf := func(fd *ast.FuncDecl) []string {
		var params []string
		for _, fld := range fd.Type.Params.List {
			for _, nm := range fld.Names {
				params = append(params, "("+lname(nm.Name)+" : "+g.leanType(g.info.TypeOf(nm))+")")
			}
		}
		return params
	}
	for _, n := range cfg.constructors {
		fd, ok := ctors[n]
		if !ok {
			die("golean: function %s not found in %s", n, cfg.dir)
		}
		g.curFn, g.recv, g.voidMethod = n, "", false
		rts := results(fd)
		g.curResults = rts
		rt := strings.Join(rts, " × ")
		if len(rts) > 1 {
			rt = "(" + rt + ")"
		}
		pos := fset.Position(fd.Pos())
		fmt.Fprintf(&sb, "/-- translated from %s:%d -/\n", strings.TrimPrefix(pos.Filename, repo+"/"), pos.Line)
		fmt.Fprintf(&sb, "def %s %s : PB.Go.Res %s :=\n  %s\n\n", n, strings.Join(paramsOf(fd), " "), rt, g.stmts(fd.Body.List, "  "))
	}
	for _, n := range cfg.methods {
		fd, ok := g.methods[n]
		if !ok {
			die("golean: method %s.%s not found", cfg.typeName, n)
		}
		g.curFn = cfg.typeName + "." + n
		if len(fd.Recv.List[0].Names) != 1 {
			die("golean: %s: unnamed receiver", g.curFn)
		}
		g.recv = fd.Recv.List[0].Names[0].Name
		params := append([]string{"(" + lname(g.recv) + " : " + cfg.typeName + ")"}, paramsOf(fd)...)
		rts := results(fd)
		g.voidMethod = len(rts) == 0
		g.curResults = rts
		rt := strings.Join(rts, " × ")
		if len(rts) > 1 {
			rt = "(" + rt + ")"
		}
		if g.voidMethod {
			rt = cfg.typeName
		}
		pos := fset.Position(fd.Pos())
		fmt.Fprintf(&sb, "/-- translated from %s:%d -/\n", strings.TrimPrefix(pos.Filename, repo+"/"), pos.Line)
		fmt.Fprintf(&sb, "def %s_%s %s : PB.Go.Res %s :=\n  %s\n\n", cfg.typeName, n, strings.Join(params, " "), rt, g.stmts(fd.Body.List, "  "))
	}
	sb.WriteString("end " + cfg.ns + "\n")
	write(cfg.outFile, sb.String())
}
