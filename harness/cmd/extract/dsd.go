package main

import (
	"fmt"
	"go/ast"
	"go/parser"
	"go/token"
	"path/filepath"
	"sort"
	"strconv"
	"strings"
)

func init() { generators["dsd"] = genDsd }

// genDsd regenerates lean/PB/Gen/Dsd.lean from formats/dsd:
//   - the format constants and the two Default* variables (format.go)
//   - the case sets of ValidateSerializationFormat / ValidateCompressionFormat (format.go)
//   - the dispatch tables of LoadAsFormat and dumpWithoutIdentifier: format -> third-party codec called (dsd.go)
//   - the case sets of the compression switches in DumpAndCompress / DecompressAndLoad (compression.go)
//   - the maps FormatToMimeType / MimeTypeToFormat (http.go)
//   - the package's state surface: the names of all package-level variables of the non-test files that are not
//     error values (`errors.New("...")`), and of every `init` function. The model is a set of pure functions of
//     (arguments, the two Default* variables); a new package-level variable (a cache, a pool, a value computed at
//     init time) is state the model does not have, and changes `packageState` (a theorem pins the list).
//
// Fails closed on every shape it does not recognise.
func genDsd() {
	var sb strings.Builder
	sb.WriteString("namespace PB.Gen.Dsd\n\n")
	sb.WriteString("/-- Third-party codecs the dispatch switches of dsd.go call (labels only). -/\n")
	sb.WriteString("inductive Lib where\n  | json | yaml | cbor | msgpack | gencode\n  deriving DecidableEq, Repr\n\n")
	sb.WriteString("/-- What a case of `LoadAsFormat` / `dumpWithoutIdentifier` does with the payload. -/\n")
	sb.WriteString("inductive Disp where\n  | raw\n  | lib (l : Lib)\n  deriving DecidableEq, Repr\n\n")

	// ---- format.go: constants ---------------------------------------------------------------
	fset, f := parseFile("formats/dsd/format.go")
	consts := map[string]string{}
	var constOrder []string
	vars := map[string]string{}
	for _, d := range f.Decls {
		gd, ok := d.(*ast.GenDecl)
		if !ok {
			continue
		}
		for _, s := range gd.Specs {
			vs, ok := s.(*ast.ValueSpec)
			if !ok {
				continue
			}
			for i, n := range vs.Names {
				if i >= len(vs.Values) {
					if gd.Tok == token.CONST {
						die("dsd: constant %s without explicit value (iota?)", n.Name)
					}
					continue
				}
				switch gd.Tok {
				case token.CONST:
					v := constVal(fset, vs.Values[i]).ExactString()
					if _, err := strconv.ParseUint(v, 10, 8); err != nil {
						die("dsd: constant %s = %s is not a uint8", n.Name, v)
					}
					consts[n.Name] = v
					constOrder = append(constOrder, n.Name)
				case token.VAR:
					if id, ok := vs.Values[i].(*ast.Ident); ok && strings.HasPrefix(n.Name, "Default") {
						vars[n.Name] = id.Name
					}
				}
			}
		}
	}
	for _, need := range []string{"AUTO", "RAW", "CBOR", "GenCode", "JSON", "MsgPack", "YAML", "GZIP"} {
		if _, ok := consts[need]; !ok {
			die("dsd: constant %s not found in format.go", need)
		}
	}
	for _, n := range constOrder {
		fmt.Fprintf(&sb, "def %s : Nat := %s\n", n, consts[n])
	}
	sb.WriteString("\n")
	for _, dv := range []string{"DefaultSerializationFormat", "DefaultCompressionFormat"} {
		c, ok := vars[dv]
		if !ok {
			die("dsd: variable %s not found or not initialised with a named constant", dv)
		}
		if _, ok := consts[c]; !ok {
			die("dsd: %s initialised with unknown constant %s", dv, c)
		}
		fmt.Fprintf(&sb, "def %s : Nat := %s\n", dsdLowerFirst(dv), c)
	}
	sb.WriteString("\n")

	// ---- format.go: Validate* ------------------------------------------------------------------
	validate := func(fn, dflt, leanName string) {
		fd := findFunc(f, fn, "")
		if fd == nil || len(fd.Body.List) != 1 {
			die("%s: unexpected shape", fn)
		}
		sw, ok := fd.Body.List[0].(*ast.SwitchStmt)
		if !ok || sw.Init != nil || !dsdIsIdent(sw.Tag, "format") {
			die("%s: expected `switch format`", fn)
		}
		var same, auto []string
		haveDefault := false
		for _, st := range sw.Body.List {
			cc := st.(*ast.CaseClause)
			if len(cc.Body) != 1 {
				die("%s: case body shape", fn)
			}
			ret, ok := cc.Body[0].(*ast.ReturnStmt)
			if !ok || len(ret.Results) != 2 {
				die("%s: case must return two values", fn)
			}
			if cc.List == nil {
				if !isLit(ret.Results[0], "0") || !dsdIsIdent(ret.Results[1], "false") {
					die("%s: default must return 0, false", fn)
				}
				haveDefault = true
				continue
			}
			if !dsdIsIdent(ret.Results[1], "true") {
				die("%s: non-default case must return ..., true", fn)
			}
			var dst *[]string
			switch {
			case dsdIsIdent(ret.Results[0], "format"):
				dst = &same
			case dsdIsIdent(ret.Results[0], dflt):
				dst = &auto
			default:
				die("%s: case returns neither format nor %s", fn, dflt)
			}
			for _, e := range cc.List {
				id, ok := e.(*ast.Ident)
				if !ok || consts[id.Name] == "" {
					die("%s: case label is not a format constant", fn)
				}
				*dst = append(*dst, id.Name)
			}
		}
		if !haveDefault {
			die("%s: no default case", fn)
		}
		fmt.Fprintf(&sb, "/-- `%s`: labels of the cases that return `(format, true)`. -/\n", fn)
		fmt.Fprintf(&sb, "def %sSame : List Nat := [%s]\n", leanName, strings.Join(same, ", "))
		fmt.Fprintf(&sb, "/-- `%s`: labels of the cases that return `(%s, true)`; every other value is `(0, false)`. -/\n", fn, dflt)
		fmt.Fprintf(&sb, "def %sAuto : List Nat := [%s]\n\n", leanName, strings.Join(auto, ", "))
	}
	validate("ValidateSerializationFormat", "DefaultSerializationFormat", "serialization")
	validate("ValidateCompressionFormat", "DefaultCompressionFormat", "compression")

	// ---- dsd.go: dispatch switches ---------------------------------------------------------------
	_, df := parseFile("formats/dsd/dsd.go")
	libOf := map[string]string{"json": "json", "yaml": "yaml", "cbor": "cbor", "msgpack": "msgpack"}
	dispatch := func(fn string, method map[string]bool, genMethod string, rawOK func(cc *ast.CaseClause) bool, leanName string) {
		fd := findFunc(df, fn, "")
		if fd == nil {
			die("%s: not found", fn)
		}
		var sw *ast.SwitchStmt
		for _, st := range fd.Body.List {
			if s, ok := st.(*ast.SwitchStmt); ok {
				if sw != nil {
					die("%s: more than one switch", fn)
				}
				sw = s
			}
		}
		if sw == nil || sw.Init != nil || !dsdIsIdent(sw.Tag, "format") {
			die("%s: expected exactly one `switch format`", fn)
		}
		var rows []string
		haveDefault := false
		for _, st := range sw.Body.List {
			cc := st.(*ast.CaseClause)
			if cc.List == nil {
				haveDefault = true
				if !returnsIdent(cc, "ErrIncompatibleFormat") {
					die("%s: default case must return ErrIncompatibleFormat", fn)
				}
				continue
			}
			// which codec does the body call?
			var libs []string
			ast.Inspect(&ast.BlockStmt{List: cc.Body}, func(n ast.Node) bool {
				call, ok := n.(*ast.CallExpr)
				if !ok {
					return true
				}
				sel, ok := call.Fun.(*ast.SelectorExpr)
				if !ok {
					return true
				}
				x, ok := sel.X.(*ast.Ident)
				if !ok {
					return true
				}
				if l, ok := libOf[x.Name]; ok {
					if !method[sel.Sel.Name] {
						die("%s: unexpected call %s.%s", fn, x.Name, sel.Sel.Name)
					}
					libs = append(libs, l)
				} else if sel.Sel.Name == genMethod {
					libs = append(libs, "gencode")
				}
				return true
			})
			var disp string
			switch {
			case len(libs) == 0 && rawOK(cc):
				disp = ".raw"
			case len(libs) >= 1 && allEqual(libs):
				disp = ".lib ." + libs[0]
			default:
				die("%s: cannot classify a case body (calls: %v)", fn, libs)
			}
			for _, e := range cc.List {
				id, ok := e.(*ast.Ident)
				if !ok || consts[id.Name] == "" {
					die("%s: case label is not a format constant", fn)
				}
				rows = append(rows, fmt.Sprintf("(%s, %s)", id.Name, disp))
			}
		}
		if !haveDefault {
			die("%s: no default case", fn)
		}
		fmt.Fprintf(&sb, "/-- `%s`: case label → what handles the payload; every other value → ErrIncompatibleFormat. -/\n", fn)
		fmt.Fprintf(&sb, "def %s : List (Nat × Disp) := [%s]\n\n", leanName, strings.Join(rows, ", "))
	}
	dispatch("LoadAsFormat", map[string]bool{"Unmarshal": true}, "GenCodeUnmarshal",
		func(cc *ast.CaseClause) bool { return returnsIdent(cc, "ErrIsRaw") }, "loadDispatch")
	dispatch("dumpWithoutIdentifier", map[string]bool{"Marshal": true, "MarshalIndent": true}, "GenCodeMarshal",
		func(cc *ast.CaseClause) bool {
			// data, ok = t.([]byte)
			found := false
			ast.Inspect(&ast.BlockStmt{List: cc.Body}, func(n ast.Node) bool {
				if ta, ok := n.(*ast.TypeAssertExpr); ok {
					if at, ok := ta.Type.(*ast.ArrayType); ok && at.Len == nil && dsdIsIdent(at.Elt, "byte") {
						found = true
					}
				}
				return true
			})
			return found
		}, "dumpDispatch")

	// ---- compression.go: the two `switch compression` -------------------------------------------
	_, cf := parseFile("formats/dsd/compression.go")
	compSwitch := func(fn, leanName string) {
		fd := findFunc(cf, fn, "")
		if fd == nil {
			die("%s: not found", fn)
		}
		var sw *ast.SwitchStmt
		for _, st := range fd.Body.List {
			if s, ok := st.(*ast.SwitchStmt); ok {
				if sw != nil {
					die("%s: more than one switch", fn)
				}
				sw = s
			}
		}
		if sw == nil || sw.Init != nil || !dsdIsIdent(sw.Tag, "compression") {
			die("%s: expected exactly one `switch compression`", fn)
		}
		var labels []string
		haveDefault := false
		for _, st := range sw.Body.List {
			cc := st.(*ast.CaseClause)
			if cc.List == nil {
				haveDefault = true
				continue
			}
			usesGzip := false
			ast.Inspect(&ast.BlockStmt{List: cc.Body}, func(n ast.Node) bool {
				if sel, ok := n.(*ast.SelectorExpr); ok && dsdIsIdent(sel.X, "gzip") {
					usesGzip = true
				}
				return true
			})
			if !usesGzip {
				die("%s: a compression case does not use compress/gzip", fn)
			}
			for _, e := range cc.List {
				id, ok := e.(*ast.Ident)
				if !ok || consts[id.Name] == "" {
					die("%s: case label is not a format constant", fn)
				}
				labels = append(labels, id.Name)
			}
		}
		if !haveDefault {
			die("%s: no default case", fn)
		}
		fmt.Fprintf(&sb, "/-- `%s`: labels of the cases that run compress/gzip; every other value → ErrIncompatibleFormat. -/\n", fn)
		fmt.Fprintf(&sb, "def %s : List Nat := [%s]\n\n", leanName, strings.Join(labels, ", "))
	}
	compSwitch("DumpAndCompress", "compressGzipCases")
	compSwitch("DecompressAndLoad", "decompressGzipCases")

	// ---- http.go: the two maps --------------------------------------------------------------------
	_, hf := parseFile("formats/dsd/http.go")
	var f2m, m2f *ast.CompositeLit
	for _, d := range hf.Decls {
		gd, ok := d.(*ast.GenDecl)
		if !ok || gd.Tok != token.VAR {
			continue
		}
		for _, s := range gd.Specs {
			vs := s.(*ast.ValueSpec)
			for i, n := range vs.Names {
				if i < len(vs.Values) {
					if cl, ok := vs.Values[i].(*ast.CompositeLit); ok {
						switch n.Name {
						case "FormatToMimeType":
							f2m = cl
						case "MimeTypeToFormat":
							m2f = cl
						}
					}
				}
			}
		}
	}
	if f2m == nil || m2f == nil {
		die("http.go: FormatToMimeType / MimeTypeToFormat composite literals not found")
	}
	type row struct{ k, v string }
	var rows []row
	for _, e := range f2m.Elts {
		kv, ok := e.(*ast.KeyValueExpr)
		if !ok {
			die("FormatToMimeType: element shape")
		}
		id, ok := kv.Key.(*ast.Ident)
		if !ok || consts[id.Name] == "" {
			die("FormatToMimeType: key is not a format constant")
		}
		rows = append(rows, row{id.Name, dsdStrLit(kv.Value)})
	}
	sort.Slice(rows, func(i, j int) bool { return atoi(consts[rows[i].k]) < atoi(consts[rows[j].k]) })
	sb.WriteString("/-- `FormatToMimeType` (strings as lists of Unicode code points), sorted by format id. -/\n")
	sb.WriteString("def formatToMimeType : List (Nat × List Nat) := [\n")
	for i, r := range rows {
		fmt.Fprintf(&sb, "  (%s, %s)%s  -- %q\n", r.k, codePoints(r.v), comma(i, len(rows)), r.v)
	}
	sb.WriteString("]\n\n")
	rows = rows[:0]
	for _, e := range m2f.Elts {
		kv, ok := e.(*ast.KeyValueExpr)
		if !ok {
			die("MimeTypeToFormat: element shape")
		}
		id, ok := kv.Value.(*ast.Ident)
		if !ok || consts[id.Name] == "" {
			die("MimeTypeToFormat: value is not a format constant")
		}
		rows = append(rows, row{dsdStrLit(kv.Key), id.Name})
	}
	sort.Slice(rows, func(i, j int) bool { return rows[i].k < rows[j].k })
	for i := 1; i < len(rows); i++ {
		if rows[i].k == rows[i-1].k {
			die("MimeTypeToFormat: duplicate key")
		}
	}
	sb.WriteString("/-- `MimeTypeToFormat`, sorted by key. -/\n")
	sb.WriteString("def mimeTypeToFormat : List (List Nat × Nat) := [\n")
	for i, r := range rows {
		fmt.Fprintf(&sb, "  (%s, %s)%s  -- %q\n", codePoints(r.k), r.v, comma(i, len(rows)), r.k)
	}
	sb.WriteString("]\n\n")
	// ---- http.go: what FormatFromAccept iterates over ---------------------------------------------------
	// The model's loop runs over `splitOn 44 accept` — every element. The source must say exactly
	// `for _, mimeType := range strings.Split(accept, ",")`: one range loop in the function, over a call of
	// strings.Split with the parameter and a one-character literal. Anything else (SplitN / a limit, another
	// separator, a slice expression on the result, a second loop) fails closed.
	{
		fd := findFunc(hf, "FormatFromAccept", "")
		if fd == nil || fd.Type.Params == nil || len(fd.Type.Params.List) != 1 || len(fd.Type.Params.List[0].Names) != 1 {
			die("FormatFromAccept: not found or unexpected parameter list")
		}
		param := fd.Type.Params.List[0].Names[0].Name
		var loops []ast.Stmt
		ast.Inspect(fd.Body, func(n ast.Node) bool {
			switch n.(type) {
			case *ast.RangeStmt, *ast.ForStmt:
				loops = append(loops, n.(ast.Stmt))
			}
			return true
		})
		if len(loops) != 1 {
			die("FormatFromAccept: expected exactly one loop, found %d", len(loops))
		}
		rs, ok := loops[0].(*ast.RangeStmt)
		if !ok || rs.Tok != token.DEFINE || !dsdIsIdent(rs.Key, "_") || rs.Value == nil {
			die("FormatFromAccept: expected `for _, x := range ...`")
		}
		call, ok := rs.X.(*ast.CallExpr)
		if !ok || len(call.Args) != 2 || call.Ellipsis != token.NoPos {
			die("FormatFromAccept: the loop must range over a two-argument call (strings.Split(accept, \",\"))")
		}
		sel, ok := call.Fun.(*ast.SelectorExpr)
		if !ok || !dsdIsIdent(sel.X, "strings") || sel.Sel.Name != "Split" {
			die("FormatFromAccept: the loop must range over strings.Split(...), every element")
		}
		if !dsdIsIdent(call.Args[0], param) {
			die("FormatFromAccept: strings.Split must be applied to the parameter %s itself", param)
		}
		sep := dsdStrLit(call.Args[1])
		if len([]rune(sep)) != 1 {
			die("FormatFromAccept: separator %q is not a single character", sep)
		}
		// the parameter must not be reassigned / resliced before the loop
		ast.Inspect(fd.Body, func(n ast.Node) bool {
			if as, ok := n.(*ast.AssignStmt); ok {
				for _, l := range as.Lhs {
					if dsdIsIdent(l, param) {
						die("FormatFromAccept: the parameter %s is assigned to", param)
					}
				}
			}
			return true
		})
		sb.WriteString("/-- What the loop of `FormatFromAccept` ranges over: the function called on the parameter, and its separator. -/\n")
		fmt.Fprintf(&sb, "def acceptSplit : String × List Nat := (\"strings.Split\", %s)  -- %q\n\n", codePoints(sep), sep)
	}

	// ---- state surface of the package ---------------------------------------------------------------
	files, err := filepath.Glob(filepath.Join(repo, "formats/dsd", "*.go"))
	if err != nil || len(files) == 0 {
		die("dsd: cannot list the package files")
	}
	sort.Strings(files)
	var state []string
	for _, path := range files {
		if strings.HasSuffix(path, "_test.go") {
			continue
		}
		pf, err := parser.ParseFile(token.NewFileSet(), path, nil, 0)
		if err != nil {
			die("parse %s: %v", path, err)
		}
		for _, d := range pf.Decls {
			switch d := d.(type) {
			case *ast.FuncDecl:
				if d.Recv == nil && d.Name.Name == "init" {
					state = append(state, "init()@"+filepath.Base(path))
				}
			case *ast.GenDecl:
				if d.Tok != token.VAR {
					continue
				}
				for _, s := range d.Specs {
					vs := s.(*ast.ValueSpec)
					for i, n := range vs.Names {
						if n.Name == "_" {
							continue
						}
						if i < len(vs.Values) && len(vs.Values) == len(vs.Names) && dsdIsErrorsNew(vs.Values[i]) {
							continue // an error value: compared by identity, never assigned
						}
						state = append(state, n.Name)
					}
				}
			}
		}
	}
	sort.Strings(state)
	sb.WriteString("/-- Package-level variables of the non-test files of formats/dsd that are not `errors.New` values, and `init`\n    functions: everything a call could depend on besides its arguments. -/\n")
	quoted := make([]string, len(state))
	for i, n := range state {
		quoted[i] = strconv.Quote(n)
	}
	fmt.Fprintf(&sb, "def packageState : List String := [%s]\n\n", strings.Join(quoted, ", "))

	sb.WriteString("end PB.Gen.Dsd\n")
	write("Dsd.lean", sb.String())
}

// dsdIsErrorsNew: `errors.New("literal")`.
func dsdIsErrorsNew(e ast.Expr) bool {
	call, ok := e.(*ast.CallExpr)
	if !ok || len(call.Args) != 1 {
		return false
	}
	sel, ok := call.Fun.(*ast.SelectorExpr)
	if !ok || !dsdIsIdent(sel.X, "errors") || sel.Sel.Name != "New" {
		return false
	}
	l, ok := call.Args[0].(*ast.BasicLit)
	return ok && l.Kind == token.STRING
}

func dsdLowerFirst(s string) string { return strings.ToLower(s[:1]) + s[1:] }

func dsdIsIdent(e ast.Expr, name string) bool {
	id, ok := e.(*ast.Ident)
	return ok && id.Name == name
}

func isLit(e ast.Expr, v string) bool {
	l, ok := e.(*ast.BasicLit)
	return ok && l.Value == v
}

// returnsIdent: the case body is exactly `return <name>` (possibly with a leading `nil,`).
func returnsIdent(cc *ast.CaseClause, name string) bool {
	if len(cc.Body) != 1 {
		return false
	}
	ret, ok := cc.Body[0].(*ast.ReturnStmt)
	if !ok || len(ret.Results) == 0 {
		return false
	}
	return dsdIsIdent(ret.Results[len(ret.Results)-1], name)
}

func allEqual(s []string) bool {
	for _, x := range s {
		if x != s[0] {
			return false
		}
	}
	return true
}

func dsdStrLit(e ast.Expr) string {
	l, ok := e.(*ast.BasicLit)
	if !ok || l.Kind != token.STRING {
		die("expected a string literal")
	}
	s, err := strconv.Unquote(l.Value)
	if err != nil {
		die("string literal: %v", err)
	}
	return s
}

func codePoints(s string) string {
	var parts []string
	for _, r := range s {
		parts = append(parts, strconv.Itoa(int(r)))
	}
	return "[" + strings.Join(parts, ", ") + "]"
}

func comma(i, n int) string {
	if i+1 < n {
		return ","
	}
	return ""
}

func atoi(s string) int {
	n, err := strconv.Atoi(s)
	if err != nil {
		die("atoi %q", s)
	}
	return n
}
