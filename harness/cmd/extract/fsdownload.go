package main

import (
	"fmt"
	"go/ast"
	"go/token"
	"os"
	"path/filepath"
	"strings"
)

func init() { generators["fsdownload"] = genFsDownload }

// genFsDownload regenerates the guards of the download / unpack writers (C17) as Lean definitions:
//
//   - updater/fetch.go makeRequest: the status-code guard `if resp.StatusCode != http.StatusOK { … return error }`
//   - updater/fetch.go fetchFile: the statement sequence `n, err := io.Copy(writeDst, resp.Body)`,
//     `if err != nil { return … }`, `if <length guard> { return … }` — the length guard is translated
//   - updater/fetch.go fetchFile: `defer atomicFile.Cleanup()` directly after the TempFile error check, and the
//     order TempFile < makeRequest < io.Copy < CloseAtomicallyReplace
//   - updater/unpacking.go: MaxUnpackSize and the error test of copyFromZipArchive (`errors.Is(err, io.EOF)`)
//
// The Lean model (PB.Model.FsDownload) evaluates the generated guards; the theorems of PBProofs.C17 are stated over
// them, so a changed comparison re-checks the proofs. Unknown shapes fail closed.
func genFsDownload() {
	fset, f := parseFile("updater/fetch.go")
	var sb strings.Builder
	sb.WriteString("namespace PB.Gen.FsDownload\n\n")

	// ---- makeRequest: status guard
	mr := findFunc(f, "makeRequest", "ResourceRegistry")
	if mr == nil {
		die("fsdownload: func (*ResourceRegistry).makeRequest not found")
	}
	var statusGuards []ast.Expr
	for _, st := range mr.Body.List {
		is, ok := st.(*ast.IfStmt)
		if !ok || is.Init != nil {
			continue
		}
		if strings.Contains(exprString(fset, is.Cond), "StatusCode") {
			if is.Else != nil || !endsWithErrorReturn(is.Body) {
				die("fsdownload: makeRequest: the status guard does not end in a return of an error: %s", exprString(fset, is.Cond))
			}
			statusGuards = append(statusGuards, is.Cond)
		}
	}
	if len(statusGuards) != 1 {
		die("fsdownload: makeRequest: expected exactly one top-level `if` on resp.StatusCode, found %d", len(statusGuards))
	}
	// nothing else in makeRequest may look at the status or the length
	nStatus := 0
	ast.Inspect(mr.Body, func(n ast.Node) bool {
		if se, ok := n.(*ast.SelectorExpr); ok && (se.Sel.Name == "StatusCode" || se.Sel.Name == "ContentLength") {
			nStatus++
		}
		return true
	})
	if nStatus != 2 { // the guard and its error message
		die("fsdownload: makeRequest: resp.StatusCode / resp.ContentLength used %d times (expected 2: guard and message)", nStatus)
	}
	envStatus := map[string]string{"resp.StatusCode": "status", "http.StatusOK": "200", "http.StatusCreated": "201", "http.StatusNoContent": "204",
		"http.StatusPartialContent": "206", "http.StatusMultipleChoices": "300", "http.StatusNotModified": "304", "http.StatusBadRequest": "400",
		"http.StatusInternalServerError": "500"}
	env := map[string]string{"resp.ContentLength": "contentLength", "n": "n"}
	sb.WriteString("/-- updater/fetch.go makeRequest: `if " + exprString(fset, statusGuards[0]) + " { … return error }`. -/\n")
	sb.WriteString("def statusRefused (status : Int) : Bool := " + leanBool(fset, statusGuards[0], envStatus, "makeRequest status guard") + "\n\n")
	sb.WriteString("def statusGuardSrc : String := " + leanQuote(exprString(fset, statusGuards[0])) + "\n\n")

	// ---- fetchFile: statement sequence
	ff := findFunc(f, "fetchFile", "ResourceRegistry")
	if ff == nil {
		die("fsdownload: func (*ResourceRegistry).fetchFile not found")
	}
	idx := func(pred func(ast.Stmt) bool, what string) int {
		found := -1
		for i, st := range ff.Body.List {
			if pred(st) {
				if found >= 0 {
					die("fsdownload: fetchFile: more than one top-level statement %s", what)
				}
				found = i
			}
		}
		if found < 0 {
			die("fsdownload: fetchFile: no top-level statement %s", what)
		}
		return found
	}
	assignCall := func(st ast.Stmt, callee string) bool {
		as, ok := st.(*ast.AssignStmt)
		if !ok || len(as.Rhs) != 1 {
			return false
		}
		ce, ok := as.Rhs[0].(*ast.CallExpr)
		return ok && exprString(fset, ce.Fun) == callee
	}
	iTemp := idx(func(st ast.Stmt) bool { return assignCall(st, "renameio.TempFile") }, "atomicFile, err := renameio.TempFile(…)")
	iReq := idx(func(st ast.Stmt) bool { return assignCall(st, "reg.makeRequest") }, "resp, downloadURL, err := reg.makeRequest(…)")
	iCopy := idx(func(st ast.Stmt) bool { return assignCall(st, "io.Copy") }, "n, err := io.Copy(…)")
	iFin := idx(func(st ast.Stmt) bool { return assignCall(st, "atomicFile.CloseAtomicallyReplace") }, "err = atomicFile.CloseAtomicallyReplace()")
	if !(iTemp < iReq && iReq < iCopy && iCopy < iFin) {
		die("fsdownload: fetchFile: expected TempFile < makeRequest < io.Copy < CloseAtomicallyReplace, got positions %d %d %d %d", iTemp, iReq, iCopy, iFin)
	}
	isErrGuard := func(st ast.Stmt) bool {
		is, ok := st.(*ast.IfStmt)
		return ok && is.Init == nil && is.Else == nil && exprString(fset, is.Cond) == "err != nil" && endsWithErrorReturn(is.Body)
	}
	// TempFile; if err != nil { return }; defer atomicFile.Cleanup()
	if iTemp+2 >= len(ff.Body.List) || !isErrGuard(ff.Body.List[iTemp+1]) {
		die("fsdownload: fetchFile: renameio.TempFile is not followed by `if err != nil { return … }`")
	}
	if ds, ok := ff.Body.List[iTemp+2].(*ast.DeferStmt); !ok || exprString(fset, ds.Call) != "atomicFile.Cleanup()" {
		die("fsdownload: fetchFile: the TempFile error check is not followed by `defer atomicFile.Cleanup()`")
	}
	// makeRequest; if err != nil { return err }
	if !isErrGuard(ff.Body.List[iReq+1]) {
		die("fsdownload: fetchFile: reg.makeRequest is not followed by `if err != nil { return … }`")
	}
	// io.Copy(writeDst, resp.Body) assigned to n, err
	cp := ff.Body.List[iCopy].(*ast.AssignStmt)
	if len(cp.Lhs) != 2 || exprString(fset, cp.Lhs[0]) != "n" || exprString(fset, cp.Lhs[1]) != "err" {
		die("fsdownload: fetchFile: io.Copy is not assigned to `n, err`")
	}
	if a := cp.Rhs[0].(*ast.CallExpr).Args; len(a) != 2 || exprString(fset, a[0]) != "writeDst" || exprString(fset, a[1]) != "resp.Body" {
		die("fsdownload: fetchFile: expected io.Copy(writeDst, resp.Body)")
	}
	if !isErrGuard(ff.Body.List[iCopy+1]) {
		die("fsdownload: fetchFile: io.Copy is not followed by `if err != nil { return … }`")
	}
	lg, ok := ff.Body.List[iCopy+2].(*ast.IfStmt)
	if !ok || lg.Init != nil || lg.Else != nil || !endsWithErrorReturn(lg.Body) || !strings.Contains(exprString(fset, lg.Cond), "ContentLength") {
		die("fsdownload: fetchFile: the copy error check is not followed by the length guard `if … resp.ContentLength … { return error }`")
	}
	sb.WriteString("/-- updater/fetch.go fetchFile, after `n, err := io.Copy(writeDst, resp.Body)` and its error check:\n    `if " + exprString(fset, lg.Cond) + " { return error }`. -/\n")
	sb.WriteString("def lengthRefused (contentLength n : Int) : Bool := " + leanBool(fset, lg.Cond, env, "fetchFile length guard") + "\n\n")
	sb.WriteString("def lengthGuardSrc : String := " + leanQuote(exprString(fset, lg.Cond)) + "\n\n")
	// between the length guard and CloseAtomicallyReplace: only the hash check and the signature file (two `if`s)
	var mid []string
	for _, st := range ff.Body.List[iCopy+3 : iFin] {
		is, ok := st.(*ast.IfStmt)
		if !ok || is.Init != nil {
			die("fsdownload: fetchFile: unexpected statement between the length guard and CloseAtomicallyReplace")
		}
		mid = append(mid, exprString(fset, is.Cond))
	}
	if len(mid) != 2 || mid[0] != "hasher != nil" || mid[1] != "len(sigFileData) > 0 && hasher != nil" {
		die("fsdownload: fetchFile: between the length guard and CloseAtomicallyReplace expected `if hasher != nil` and `if len(sigFileData) > 0 && hasher != nil`, got %q", mid)
	}
	// no other top-level early `return nil` between TempFile and CloseAtomicallyReplace
	for _, st := range ff.Body.List[iTemp:iFin] {
		if _, ok := st.(*ast.ReturnStmt); ok {
			die("fsdownload: fetchFile: unexpected top-level return between TempFile and CloseAtomicallyReplace")
		}
	}
	sb.WriteString("/-- Positions of TempFile, makeRequest, io.Copy, CloseAtomicallyReplace among the top-level statements of fetchFile\n    (checked by the extractor: strictly increasing; `defer atomicFile.Cleanup()` follows the TempFile error check). -/\n")
	sb.WriteString(fmt.Sprintf("def fetchFileOrder : List Nat := [%d, %d, %d, %d]\n\n", iTemp, iReq, iCopy, iFin))

	// ---- unpacking.go
	fset2, f2 := parseFile("updater/unpacking.go")
	max := int64(-1)
	for _, d := range f2.Decls {
		gd, ok := d.(*ast.GenDecl)
		if !ok || gd.Tok != token.CONST {
			continue
		}
		for _, sp := range gd.Specs {
			vs := sp.(*ast.ValueSpec)
			for i, n := range vs.Names {
				if n.Name == "MaxUnpackSize" && i < len(vs.Values) {
					v, ok := constantInt64(constVal(fset2, vs.Values[i]))
					if !ok || v <= 0 {
						die("fsdownload: MaxUnpackSize is not a positive integer constant")
					}
					max = v
				}
			}
		}
	}
	if max < 0 {
		die("fsdownload: const MaxUnpackSize not found in updater/unpacking.go")
	}
	cz := findFunc(f2, "copyFromZipArchive", "")
	if cz == nil {
		die("fsdownload: func copyFromZipArchive not found")
	}
	// the copy statement: if _, err := io.CopyN(dstFile, fileReader, MaxUnpackSize); err != nil { if errors.Is(err, io.EOF) { return nil }; return err }
	var cpn *ast.IfStmt
	for _, st := range cz.Body.List {
		if is, ok := st.(*ast.IfStmt); ok && is.Init != nil && strings.Contains(exprString(fset2, is.Init.(*ast.AssignStmt).Rhs[0]), "io.CopyN(dstFile") {
			if cpn != nil {
				die("fsdownload: copyFromZipArchive: more than one io.CopyN")
			}
			cpn = is
		}
	}
	if cpn == nil {
		die("fsdownload: copyFromZipArchive: `if _, err := io.CopyN(…); err != nil` not found")
	}
	if got := exprString(fset2, cpn.Init.(*ast.AssignStmt).Rhs[0]); got != "io.CopyN(dstFile, fileReader, MaxUnpackSize)" {
		die("fsdownload: copyFromZipArchive: expected io.CopyN(dstFile, fileReader, MaxUnpackSize), got %s", got)
	}
	if exprString(fset2, cpn.Cond) != "err != nil" || cpn.Else != nil || len(cpn.Body.List) != 2 {
		die("fsdownload: copyFromZipArchive: unexpected shape of the io.CopyN error handling")
	}
	inner, ok := cpn.Body.List[0].(*ast.IfStmt)
	if !ok || inner.Init != nil || inner.Else != nil || exprString(fset2, inner.Cond) != "errors.Is(err, io.EOF)" || len(inner.Body.List) != 1 {
		die("fsdownload: copyFromZipArchive: the only error accepted after io.CopyN must be `errors.Is(err, io.EOF)`, got %s", exprString(fset2, cpn.Body.List[0].(*ast.IfStmt).Cond))
	}
	if r, ok := inner.Body.List[0].(*ast.ReturnStmt); !ok || len(r.Results) != 1 || exprString(fset2, r.Results[0]) != "nil" {
		die("fsdownload: copyFromZipArchive: `errors.Is(err, io.EOF)` must return nil")
	}
	if r, ok := cpn.Body.List[1].(*ast.ReturnStmt); !ok || len(r.Results) != 1 || exprString(fset2, r.Results[0]) != "err" {
		die("fsdownload: copyFromZipArchive: every other io.CopyN error must be returned")
	}
	sb.WriteString("/-- updater/unpacking.go: `const MaxUnpackSize`; copyFromZipArchive copies at most this many bytes of a member\n    (io.CopyN) and accepts exactly the error io.EOF. -/\n")
	sb.WriteString(fmt.Sprintf("def maxUnpackSize : Nat := %d\n\n", max))
	// what follows the io.CopyN statement: either `return nil` at once (a member larger than the limit is cut and
	// accepted), or first the check that the member ends at the limit
	var tail []ast.Stmt
	for i, st := range cz.Body.List {
		if st == ast.Stmt(cpn) {
			tail = cz.Body.List[i+1:]
		}
	}
	isReturnNil := func(st ast.Stmt) bool {
		r, ok := st.(*ast.ReturnStmt)
		return ok && len(r.Results) == 1 && exprString(fset2, r.Results[0]) == "nil"
	}
	limitChecked := false
	switch {
	case len(tail) == 1 && isReturnNil(tail[0]):
	case len(tail) == 2 && isReturnNil(tail[1]):
		chk, ok := tail[0].(*ast.IfStmt)
		if !ok || chk.Init == nil || exprString(fset2, chk.Init.(*ast.AssignStmt).Rhs[0]) != "io.CopyN(io.Discard, fileReader, 1)" ||
			exprString(fset2, chk.Init.(*ast.AssignStmt).Lhs[0]) != "n" || exprString(fset2, chk.Cond) != "n > 0" || !endsWithErrorReturn(chk.Body) {
			die("fsdownload: copyFromZipArchive: unexpected statement after io.CopyN (expected `if n, err := io.CopyN(io.Discard, fileReader, 1); n > 0 { return error }`)")
		}
		el, ok := chk.Else.(*ast.IfStmt)
		if !ok || el.Init != nil || el.Else != nil || exprString(fset2, el.Cond) != "!errors.Is(err, io.EOF)" || len(el.Body.List) != 1 {
			die("fsdownload: copyFromZipArchive: the limit check must end with `else if !errors.Is(err, io.EOF) { return err }`")
		}
		if r, ok := el.Body.List[0].(*ast.ReturnStmt); !ok || len(r.Results) != 1 || exprString(fset2, r.Results[0]) != "err" {
			die("fsdownload: copyFromZipArchive: the limit check must return the read error")
		}
		limitChecked = true
	default:
		die("fsdownload: copyFromZipArchive: unexpected statements after io.CopyN")
	}
	sb.WriteString("/-- copyFromZipArchive: after MaxUnpackSize bytes were copied without error the code reads on and fails if the\n    member has more (true), or returns nil at once (false: a larger member is cut and accepted). -/\n")
	sb.WriteString(fmt.Sprintf("def zipLimitChecked : Bool := %v\n\n", limitChecked))
	// ---- unpacking.go: what serialises two unpackers of one resource
	// unpackZipArchive works in a NAME-DERIVED temp directory, decides by "does the destination exist?" and removes
	// the destination when it fails: two of them at once disturb each other. UnpackArchive must therefore hold the
	// resource's lock exclusively around it, and nothing else may call unpackZipArchive.
	ua := findFunc(f2, "UnpackArchive", "Resource")
	uz := findFunc(f2, "unpackZipArchive", "Resource")
	if ua == nil || uz == nil {
		die("fsdownload: func (*Resource).UnpackArchive / unpackZipArchive not found")
	}
	if ua.Recv.List[0].Names == nil || len(ua.Recv.List[0].Names) != 1 {
		die("fsdownload: UnpackArchive: unnamed receiver")
	}
	recvName := ua.Recv.List[0].Names[0].Name
	callOn := func(st ast.Stmt, deferred bool) string { // "<recv>.<Method>()" of an expression / defer statement
		var call *ast.CallExpr
		switch x := st.(type) {
		case *ast.ExprStmt:
			if !deferred {
				call, _ = x.X.(*ast.CallExpr)
			}
		case *ast.DeferStmt:
			if deferred {
				call = x.Call
			}
		}
		if call == nil || len(call.Args) != 0 {
			return ""
		}
		return exprString(fset2, call.Fun)
	}
	lockKind := -1
	if len(ua.Body.List) >= 2 {
		a, b := callOn(ua.Body.List[0], false), callOn(ua.Body.List[1], true)
		switch {
		case a == recvName+".Lock" && b == recvName+".Unlock":
			lockKind = 2
		case a == recvName+".RLock" && b == recvName+".RUnlock":
			lockKind = 1
		case !strings.Contains(a, "Lock") && !strings.Contains(b, "Lock") && !strings.Contains(b, "Unlock"):
			lockKind = 0
		}
	}
	if lockKind < 0 {
		die("fsdownload: UnpackArchive: expected `%s.Lock(); defer %s.Unlock()` (or the RLock pair, or no lock) as the first two statements", recvName, recvName)
	}
	// no other lock / unlock call anywhere in UnpackArchive or unpackZipArchive (the lock is held to the end)
	nLockCalls := 0
	for _, fn := range []*ast.FuncDecl{ua, uz} {
		ast.Inspect(fn.Body, func(n ast.Node) bool {
			if se, ok := n.(*ast.SelectorExpr); ok {
				switch se.Sel.Name {
				case "Lock", "Unlock", "RLock", "RUnlock", "TryLock", "TryRLock":
					nLockCalls++
				}
			}
			return true
		})
	}
	if want := map[int]int{0: 0, 1: 2, 2: 2}[lockKind]; nLockCalls != want {
		die("fsdownload: UnpackArchive / unpackZipArchive: %d lock/unlock calls, expected %d", nLockCalls, want)
	}
	// the callers of unpackZipArchive: exactly one, inside UnpackArchive, after the lock statements
	for _, rel := range goFilesOf("updater") {
		fsx, fx := parseFile(rel)
		_ = fsx
		for _, d := range fx.Decls {
			fd, ok := d.(*ast.FuncDecl)
			if !ok || fd.Body == nil {
				continue
			}
			ast.Inspect(fd.Body, func(n ast.Node) bool {
				if se, ok := n.(*ast.SelectorExpr); ok && se.Sel.Name == "unpackZipArchive" {
					if rel != "updater/unpacking.go" || fd.Name.Name != "UnpackArchive" {
						die("fsdownload: unpackZipArchive is used outside UnpackArchive (%s, func %s): not covered by the resource lock", rel, fd.Name.Name)
					}
				}
				return true
			})
		}
	}
	// the lock itself: Resource embeds sync.Mutex (or sync.RWMutex, whose Lock() is exclusive as well)
	_, fr := parseFile("updater/resource.go")
	embedded := ""
	for _, d := range fr.Decls {
		gd, ok := d.(*ast.GenDecl)
		if !ok || gd.Tok != token.TYPE {
			continue
		}
		for _, sp := range gd.Specs {
			ts := sp.(*ast.TypeSpec)
			st, ok := ts.Type.(*ast.StructType)
			if !ok || ts.Name.Name != "Resource" {
				continue
			}
			for _, fl := range st.Fields.List {
				if len(fl.Names) == 0 {
					if se, ok := fl.Type.(*ast.SelectorExpr); ok {
						if x, ok := se.X.(*ast.Ident); ok && x.Name == "sync" && (se.Sel.Name == "Mutex" || se.Sel.Name == "RWMutex") {
							if embedded != "" {
								die("fsdownload: type Resource embeds more than one lock")
							}
							embedded = se.Sel.Name
						}
					}
				}
			}
		}
	}
	if embedded == "" {
		die("fsdownload: type Resource does not embed sync.Mutex / sync.RWMutex")
	}
	sb.WriteString("/-- updater/unpacking.go (*Resource).UnpackArchive, first two statements: 2 = `res.Lock(); defer res.Unlock()` (exclusive,\n    held until unpackZipArchive has returned), 1 = `res.RLock(); defer res.RUnlock()` (shared), 0 = no lock. The extractor\n    also checks that unpackZipArchive is called from nowhere else and that Resource embeds sync." + embedded + ". -/\n")
	sb.WriteString(fmt.Sprintf("def unpackLock : Nat := %d\n\n", lockKind))
	sb.WriteString("end PB.Gen.FsDownload\n")
	write("FsDownload.lean", sb.String())
}

// endsWithErrorReturn: the block's last statement is a return whose last result is not the literal nil.
func endsWithErrorReturn(b *ast.BlockStmt) bool {
	if b == nil || len(b.List) == 0 {
		return false
	}
	r, ok := b.List[len(b.List)-1].(*ast.ReturnStmt)
	if !ok || len(r.Results) == 0 {
		return false
	}
	if id, ok := r.Results[len(r.Results)-1].(*ast.Ident); ok && id.Name == "nil" {
		return false
	}
	return true
}

// goFilesOf lists the non-test Go files of a package directory of the repo (relative paths).
func goFilesOf(dir string) []string {
	es, err := os.ReadDir(filepath.Join(repo, dir))
	if err != nil {
		die("fsdownload: %v", err)
	}
	var out []string
	for _, e := range es {
		n := e.Name()
		if !e.IsDir() && strings.HasSuffix(n, ".go") && !strings.HasSuffix(n, "_test.go") {
			out = append(out, dir+"/"+n)
		}
	}
	return out
}

func leanQuote(s string) string {
	return `"` + strings.NewReplacer(`\`, `\\`, `"`, `\"`).Replace(s) + `"`
}

// leanBool translates a Go boolean expression over integer operands (names given by env, integer literals) into
// a Lean Bool term over Int variables. Anything else fails closed.
func leanBool(fset *token.FileSet, e ast.Expr, env map[string]string, what string) string {
	switch x := e.(type) {
	case *ast.ParenExpr:
		return leanBool(fset, x.X, env, what)
	case *ast.UnaryExpr:
		if x.Op == token.NOT {
			return "(!" + leanBool(fset, x.X, env, what) + ")"
		}
	case *ast.BinaryExpr:
		switch x.Op {
		case token.LAND:
			return "(" + leanBool(fset, x.X, env, what) + " && " + leanBool(fset, x.Y, env, what) + ")"
		case token.LOR:
			return "(" + leanBool(fset, x.X, env, what) + " || " + leanBool(fset, x.Y, env, what) + ")"
		case token.EQL, token.NEQ, token.LSS, token.LEQ, token.GTR, token.GEQ:
			a, b := leanInt(fset, x.X, env, what), leanInt(fset, x.Y, env, what)
			op := map[token.Token]string{token.EQL: "=", token.NEQ: "≠", token.LSS: "<", token.LEQ: "≤", token.GTR: ">", token.GEQ: "≥"}[x.Op]
			return "decide (" + a + " " + op + " " + b + ")"
		}
	}
	die("fsdownload: %s: unsupported boolean expression %s", what, exprString(fset, e))
	return ""
}

func leanInt(fset *token.FileSet, e ast.Expr, env map[string]string, what string) string {
	switch x := e.(type) {
	case *ast.ParenExpr:
		return leanInt(fset, x.X, env, what)
	case *ast.BasicLit:
		if x.Kind == token.INT {
			v, ok := constantInt64(constVal(fset, x))
			if ok && v >= 0 {
				return fmt.Sprintf("(%d : Int)", v)
			}
		}
	case *ast.UnaryExpr:
		if x.Op == token.SUB {
			return "(-" + leanInt(fset, x.X, env, what) + ")"
		}
	case *ast.Ident, *ast.SelectorExpr:
		if v, ok := env[exprString(fset, e)]; ok {
			if v[0] >= '0' && v[0] <= '9' {
				return "(" + v + " : Int)"
			}
			return v
		}
	case *ast.CallExpr:
		// int64(n) style conversions of a known operand
		if id, ok := x.Fun.(*ast.Ident); ok && (id.Name == "int64" || id.Name == "int") && len(x.Args) == 1 {
			return leanInt(fset, x.Args[0], env, what)
		}
	}
	die("fsdownload: %s: unsupported integer operand %s", what, exprString(fset, e))
	return ""
}
