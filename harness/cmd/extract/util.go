package main

import (
	"fmt"
	"go/ast"
	"go/parser"
	"go/printer"
	"go/token"
	"io"
	"path/filepath"
)

func printerFprint(w io.Writer, fset *token.FileSet, e ast.Expr) error {
	return printer.Fprint(w, fset, e)
}

func constantInt64(v interface{ ExactString() string }) (int64, bool) {
	var n int64
	_, err := fmtSscan(v.ExactString(), &n)
	return n, err == nil
}

func fmtSscan(s string, n *int64) (int, error) { return fmt.Sscan(s, n) }

func parseFileInto(fset *token.FileSet, rel string) (*token.FileSet, *ast.File) {
	f, err := parser.ParseFile(fset, filepath.Join(repo, rel), nil, parser.ParseComments)
	if err != nil {
		die("parse %s: %v", rel, err)
	}
	return fset, f
}
