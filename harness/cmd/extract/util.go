package main

import (
	"fmt"
	"go/ast"
	"go/printer"
	"go/token"
	"io"
)

func printerFprint(w io.Writer, fset *token.FileSet, e ast.Expr) error {
	return printer.Fprint(w, fset, e)
}

func constantInt64(v interface{ ExactString() string }) (int64, bool) {
	var n int64
	_, err := fmtSscan(v.ExactString(), &n)
	return n, err == nil
}

func fmtSscan(s string, n *int64) (int, error) { return fmt.Sscan(s, n) }
