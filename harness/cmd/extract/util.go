package main

import (
	"go/ast"
	"go/printer"
	"go/token"
	"io"
)

func printerFprint(w io.Writer, fset *token.FileSet, e ast.Expr) error {
	return printer.Fprint(w, fset, e)
}
