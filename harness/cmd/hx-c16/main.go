// hx-c16: correspondence harness and property monitor for C16 (container as byte queue).
package main

import (
	"bytes"
	"encoding/base64"
	"encoding/json"
	"errors"
	"fmt"
	"math"
	"strconv"
	"strings"
	"sync"

	"github.com/safing/portbase/container"
	"github.com/safing/portbase/formats/varint"

	"verifharness/hxlib"
)

type exec struct {
	c     *container.Container   // the current container (= conts[cur])
	conts []*container.Container // all live containers of the case
	cur   int
	kept  *container.Container // most recently split-off container, read again later (kdump)
	held []heldSlice          // the most recent byte slices the container handed out, looked at again later (held)
}

type heldSlice struct {
	data []byte
	was  string
}

func errStr(err error) string {
	switch {
	case errors.Is(err, varint.ErrBufTooSmall):
		return "err small"
	case strings.Contains(err.Error(), "greater than"):
		return "err large"
	case strings.Contains(err.Error(), "not enough data to return"):
		return "err notenough"
	}
	return "err other:" + err.Error()
}

func hexes(fs []string) [][]byte {
	out := make([][]byte, len(fs))
	for i, f := range fs {
		out[i] = hxlib.UnHex(f)
	}
	return out
}

func (e *exec) Do(line string) string {
	f := strings.Fields(line)
	if len(f) == 0 {
		return "bad-op"
	}
	if f[0] == "new" {
		e.c = container.New(hexes(f[1:])...)
		e.conts, e.cur = []*container.Container{e.c}, 0
		e.kept = nil
		e.held = nil
		return "ok"
	}
	if f[0] == "conc" && len(f) == 4 { // implementation only: conc <goroutines> <steps> <seed>
		n, _ := strconv.Atoi(f[1])
		steps, _ := strconv.Atoi(f[2])
		seed, _ := strconv.ParseUint(f[3], 10, 64)
		if n < 1 || n > 64 {
			return "bad-op"
		}
		return concurrentQueues(n, steps, seed)
	}
	if f[0] == "newc" { // the deprecated second constructor
		e.c = container.NewContainer(hexes(f[1:])...)
		e.conts, e.cur = []*container.Container{e.c}, 0
		e.kept = nil
		e.held = nil
		return "ok"
	}
	c := e.c
	if c == nil {
		return "bad-op"
	}
	atoi := func() int { n, _ := strconv.ParseInt(f[1], 10, 64); return int(n) }
	atou := func() uint64 { n, _ := strconv.ParseUint(f[1], 10, 64); return n }
	b := func(x []byte) string {
		if len(x) > 0 {
			e.held = append(e.held, heldSlice{x, hxlib.Hex(x)})
			if len(e.held) > 6 {
				e.held = e.held[1:]
			}
		}
		return "b " + hxlib.Hex(x)
	}
	switch f[0] {
	case "also": // a further live container; the current one stays current
		e.conts = append(e.conts, container.New(hexes(f[1:])...))
		return "ok"
	case "sel":
		i := atoi()
		if i < 0 || i >= len(e.conts) {
			return "bad-op"
		}
		e.cur, e.c = i, e.conts[i]
		return "ok"
	case "appendfrom", "appendfromblock": // the argument is another live container in whatever state it is
		j := atoi()
		if j < 0 || j >= len(e.conts) {
			return "bad-op"
		}
		if f[0] == "appendfrom" {
			c.AppendContainer(e.conts[j])
		} else {
			c.AppendContainerAsBlock(e.conts[j])
		}
		return "ok"
	case "keepslot": // the split-off container becomes a further live container
		if e.kept == nil {
			return "nil"
		}
		e.conts = append(e.conts, e.kept)
		e.kept = nil // moved, not shared: one container object is never held in two slots
		return "ok"
	case "held": // the slices handed out earlier must still hold what they held when they were returned
		for _, h := range e.held {
			if now := hxlib.Hex(h.data); now != h.was {
				return "changed: a slice returned as " + h.was + " now reads " + now
			}
		}
		return "same"
	case "append":
		c.Append(hxlib.UnHex(f[1]))
	case "prepend":
		c.Prepend(hxlib.UnHex(f[1]))
	case "appendnum":
		c.AppendNumber(atou())
	case "prependnum":
		c.PrependNumber(atou())
	case "appendint":
		c.AppendInt(atoi())
	case "prependint":
		c.PrependInt(atoi())
	case "appendblock":
		c.AppendAsBlock(hxlib.UnHex(f[1]))
	case "prependblock":
		c.PrependAsBlock(hxlib.UnHex(f[1]))
	case "appendcont":
		c.AppendContainer(container.New(hexes(f[1:])...))
	case "appendcontblock":
		c.AppendContainerAsBlock(container.New(hexes(f[1:])...))
	case "prependlen":
		c.PrependLength()
	case "appendpack8", "appendpack16", "appendpack32", "prependpack8", "prependpack16", "prependpack32":
		var enc []byte
		switch strings.TrimLeft(f[0], "apenrd") { // "pack8" → "ck8" etc.
		case "ck8":
			enc = varint.Pack8(uint8(atou()))
		case "ck16":
			enc = varint.Pack16(uint16(atou()))
		default:
			enc = varint.Pack32(uint32(atou()))
		}
		if strings.HasPrefix(f[0], "append") {
			c.Append(enc)
		} else {
			c.Prepend(enc)
		}
	case "replace":
		c.Replace(hxlib.UnHex(f[1]))
	case "compile":
		return b(c.CompileData())
	case "get":
		d, err := c.Get(atoi())
		if err != nil {
			return errStr(err)
		}
		return b(d)
	case "getall":
		return b(c.GetAll())
	case "getcont":
		nc, err := c.GetAsContainer(atoi())
		if err != nil {
			return errStr(err)
		}
		e.kept = nc
		return b(dumpOf(nc))
	case "getmax":
		return b(c.GetMax(atoi()))
	case "wts":
		s := make([]byte, atoi())
		n, emptied := c.WriteToSlice(s)
		t := "f"
		if emptied {
			t = "t"
		}
		return "wts " + hxlib.Hex(s[:n]) + " " + t
	case "peek":
		return b(c.Peek(atoi()))
	case "peekcont":
		nc := c.PeekContainer(atoi())
		if nc == nil {
			return "nil"
		}
		e.kept = nc
		return b(dumpOf(nc))
	case "block":
		d, err := c.GetNextBlock()
		if err != nil {
			return errStr(err)
		}
		return b(d)
	case "blockcont":
		nc, err := c.GetNextBlockAsContainer()
		if err != nil {
			return errStr(err)
		}
		e.kept = nc
		return b(dumpOf(nc))
	case "kdump":
		if e.kept == nil {
			return "nil"
		}
		return b(dumpOf(e.kept))
	case "n8", "n16", "n32", "n64":
		var v uint64
		var err error
		switch f[0] {
		case "n8":
			var x uint8
			x, err = c.GetNextN8()
			v = uint64(x)
		case "n16":
			var x uint16
			x, err = c.GetNextN16()
			v = uint64(x)
		case "n32":
			var x uint32
			x, err = c.GetNextN32()
			v = uint64(x)
		default:
			v, err = c.GetNextN64()
		}
		if err != nil {
			return errStr(err)
		}
		return "n " + strconv.FormatUint(v, 10)
	case "holds":
		if c.HoldsData() {
			return "t"
		}
		return "f"
	case "len":
		return "n " + strconv.Itoa(c.Length())
	case "json", "jsonm": // serialization.go, called directly / through encoding/json as callers do
		var js []byte
		var err error
		if f[0] == "json" {
			js, err = c.MarshalJSON()
		} else {
			js, err = json.Marshal(c)
		}
		if err != nil {
			return "err other:" + err.Error()
		}
		if string(js) == "null" {
			// canonicalisation: a container whose only compartment is a nil slice serialises as null, one
			// whose only compartment is an empty non-nil slice as "" — both are the empty byte string
			// (the model has no nil/empty distinction)
			js = []byte(`""`)
		}
		return b(js)
	case "unjson", "unjsonm":
		var err error
		if f[0] == "unjson" {
			err = c.UnmarshalJSON(hxlib.UnHex(f[1]))
		} else {
			err = json.Unmarshal(hxlib.UnHex(f[1]), c)
		}
		if err != nil {
			return "err json"
		}
		return "ok"
	case "writeto", "writetox":
		// WriteAllTo into a writer that accepts f[1] bytes in total and then fails with a short write;
		// writetox: the writer additionally takes at most f[2] bytes per call (short writes WITHOUT an error,
		// which the io.Writer contract forbids but the loop in WriteAllTo tolerates)
		w := &budgetWriter{budget: atoi(), chunk: 1 << 30}
		if f[0] == "writetox" {
			w.chunk, _ = strconv.Atoi(f[2])
		}
		err := c.WriteAllTo(w)
		if err != nil && !errors.Is(err, errWriterFull) {
			return "err other:" + err.Error()
		}
		t := "t"
		if err != nil {
			t = "f"
		}
		return "wts " + hxlib.Hex(w.buf) + " " + t
	case "dump":
		var buf bytes.Buffer
		if err := c.WriteAllTo(&buf); err != nil {
			return "err other:" + err.Error()
		}
		return b(buf.Bytes())
	default:
		return "bad-op"
	}
	return "ok"
}

// concurrentQueues: containers are independent objects in the model (no state shared between containers). n
// goroutines each drive a container of their own next to a plain byte queue of their own and compare every
// result. Returns "ok" or the first failure.
func concurrentQueues(n, steps int, seed uint64) string {
	var wg sync.WaitGroup
	start := make(chan struct{})
	fails := make(chan string, n)
	for g := 0; g < n; g++ {
		wg.Add(1)
		go func(g int) {
			defer wg.Done()
			defer func() {
				if r := recover(); r != nil {
					fails <- fmt.Sprintf("PANIC g=%d: %v", g, r)
				}
			}()
			x := seed*0x9E3779B97F4A7C15 + uint64(g)*0xD1B54A32D192ED03 + 1
			next := func() uint64 { x ^= x << 13; x ^= x >> 7; x ^= x << 17; return x }
			c := container.New()
			var q []byte
			fail := func(it int, what string) { fails <- fmt.Sprintf("FAIL g=%d step=%d %s", g, it, what) }
			<-start
			for it := 0; it < steps; it++ {
				r := next()
				sl := bytes.Repeat([]byte{byte(g*16 + it%16)}, int(r>>8)%9)
				switch r % 9 {
				case 0:
					c.Append(sl)
					q = append(q, sl...)
				case 1:
					c.Prepend(sl)
					q = append(append([]byte{}, sl...), q...)
				case 2:
					v := next() >> (r >> 16 % 64)
					c.AppendNumber(v)
					q = append(q, refPut(v)...)
				case 3:
					c.PrependLength()
					q = append(refPut(uint64(len(q))), q...)
				case 4:
					c.AppendAsBlock(sl)
					q = append(append(q, refPut(uint64(len(sl)))...), sl...)
				case 5:
					k := int(r>>8) % 7
					d, err := c.Get(k)
					if k > len(q) {
						if err == nil {
							fail(it, "Get beyond the end succeeded")
							return
						}
						continue
					}
					if err != nil || !bytes.Equal(d, q[:k]) {
						fail(it, fmt.Sprintf("Get(%d) = %x, %v; byte queue has %x", k, d, err, q[:k]))
						return
					}
					q = q[k:]
				case 6:
					v, err := c.GetNextN64()
					w, used, e := uvar(q, 10, math.MaxUint64)
					if e != "" {
						if err == nil {
							fail(it, "GetNextN64 decoded something a byte queue cannot decode")
							return
						}
						continue
					}
					if err != nil || v != w {
						fail(it, fmt.Sprintf("GetNextN64 = %d, %v; byte queue has %d", v, err, w))
						return
					}
					q = q[used:]
				case 7:
					if d := c.CompileData(); !bytes.Equal(d, q) {
						fail(it, fmt.Sprintf("CompileData = %x, byte queue has %x", d, q))
						return
					}
				default:
					if c.Length() != len(q) {
						fail(it, fmt.Sprintf("Length = %d, byte queue has %d", c.Length(), len(q)))
						return
					}
					if len(q) > 400 {
						d := c.GetAll()
						if !bytes.Equal(d, q) {
							fail(it, "GetAll differs from the byte queue")
							return
						}
						q = nil
					}
				}
			}
		}(g)
	}
	close(start)
	wg.Wait()
	close(fails)
	for f := range fails {
		return f
	}
	return "ok"
}

var errWriterFull = errors.New("writer full")

type budgetWriter struct {
	buf    []byte
	budget int
	chunk  int
	calls  int
}

func (w *budgetWriter) Write(p []byte) (int, error) {
	w.calls++
	if w.calls > 1<<20 {
		panic("WriteAllTo does not terminate")
	}
	n := len(p)
	short := false
	if n > w.chunk {
		n = w.chunk
	}
	if n > w.budget {
		n = w.budget
		short = true
	}
	w.buf = append(w.buf, p[:n]...)
	w.budget -= n
	if short {
		return n, errWriterFull
	}
	return n, nil
}

// dumpOf reads a container without consuming or restructuring it.
func dumpOf(c *container.Container) []byte {
	var buf bytes.Buffer
	_ = c.WriteAllTo(&buf)
	return buf.Bytes()
}

// ---- monitor: a plain byte queue written independently in Go -------------------------------

func uvar(q []byte, k int, limit uint64) (uint64, int, string) {
	if len(q) > k {
		q = q[:k]
	}
	var x uint64
	for i, c := range q {
		if i == 10 {
			return 0, 0, "large"
		}
		if c < 0x80 {
			if i == 9 && c > 1 {
				return 0, 0, "large"
			}
			x |= uint64(c) << (7 * uint(i))
			if x > limit {
				return 0, 0, "large"
			}
			return x, i + 1, ""
		}
		x |= uint64(c&0x7f) << (7 * uint(i))
	}
	return 0, 0, "small"
}

// refPut: base-128 little-endian groups with continuation bits — the monitor's own encoder.
func refPut(n uint64) []byte {
	var o []byte
	for n >= 0x80 {
		o = append(o, byte(n)|0x80)
		n >>= 7
	}
	return append(o, byte(n))
}

func monitor(c hxlib.Case, outs []string) (vs []hxlib.Violation) {
	var q []byte      // the current byte queue
	var qs [][]byte   // the other live queues (qs[cur] is stale while q is current)
	cur := 0
	var kept []byte
	haveKept := false
	started := false
	add := func(i int, class, what string) {
		f := strings.Fields(c.Lines[i])
		vs = append(vs, hxlib.Violation{Sig: "C16:" + f[0] + ":" + class, What: what, Lines: c.Lines[:i+1], Output: outs[:i+1]})
	}
	for i, l := range c.Lines {
		f := strings.Fields(l)
		o := outs[i]
		if strings.HasPrefix(o, "PANIC") {
			add(i, "panic", o)
			return vs // state after a panic is undefined
		}
		if o == "bad-op" {
			continue
		}
		if f[0] == "held" {
			if o != "same" {
				add(i, "returned-data-changed-later", o)
			}
			continue
		}
		if f[0] == "conc" {
			if o != "ok" {
				add(i, "concurrent-containers", o)
			}
			continue
		}
		want := "ok"
		atoi := func() int { n, _ := strconv.ParseInt(f[1], 10, 64); return int(n) }
		atou := func() uint64 { n, _ := strconv.ParseUint(f[1], 10, 64); return n }
		hx := func(x []byte) string { return "b " + hxlib.Hex(x) }
		cat := func(fs []string) []byte {
			var r []byte
			for _, x := range fs {
				r = append(r, hxlib.UnHex(x)...)
			}
			return r
		}
		take := func(n int) []byte { return append([]byte{}, q[:n]...) }
		switch f[0] {
		case "new", "newc":
			q = cat(f[1:])
			qs, cur = [][]byte{nil}, 0
			started = true
			haveKept = false
		case "also":
			qs = append(qs, cat(f[1:]))
		case "sel":
			if i := atoi(); i >= 0 && i < len(qs) {
				qs[cur] = q
				cur, q = i, append([]byte{}, qs[i]...)
			} else {
				want = "bad-op"
			}
		case "appendfrom", "appendfromblock":
			if j := atoi(); j >= 0 && j < len(qs) {
				qs[cur] = q
				other := append([]byte{}, qs[j]...)
				if f[0] == "appendfromblock" {
					q = append(q, refPut(uint64(len(other)))...)
				}
				q = append(q, other...)
			} else {
				want = "bad-op"
			}
		case "keepslot":
			if haveKept {
				qs = append(qs, append([]byte{}, kept...))
				haveKept = false
			} else {
				want = "nil"
			}
		case "json", "jsonm":
			want = hx([]byte(`"` + base64.StdEncoding.EncodeToString(q) + `"`))
		case "unjson", "unjsonm":
			// reference: what the JSON codec itself makes of the text as a byte string
			var raw []byte
			if err := json.Unmarshal(hxlib.UnHex(f[1]), &raw); err != nil {
				want = "err json" // the container must stay as it was (checked by the following lines)
			} else {
				q = append([]byte{}, raw...)
			}
		case "writeto", "writetox":
			n := atoi()
			t := "f"
			if n >= len(q) {
				n = len(q)
				t = "t"
			}
			if n < 0 {
				n = 0
			}
			want = "wts " + hxlib.Hex(take(n)) + " " + t
		case "kdump":
			want = "nil"
			if haveKept {
				want = hx(kept)
			}
		case "append":
			q = append(q, hxlib.UnHex(f[1])...)
		case "prepend":
			q = append(hxlib.UnHex(f[1]), q...)
		case "appendnum":
			q = append(q, refPut(atou())...)
		case "prependnum":
			q = append(refPut(atou()), q...)
		case "appendint":
			q = append(q, refPut(uint64(atoi()))...)
		case "prependint":
			q = append(refPut(uint64(atoi())), q...)
		case "appendblock":
			d := hxlib.UnHex(f[1])
			q = append(append(q, refPut(uint64(len(d)))...), d...)
		case "prependblock":
			d := hxlib.UnHex(f[1])
			q = append(append(refPut(uint64(len(d))), d...), q...)
		case "appendcont":
			q = append(q, cat(f[1:])...)
		case "appendcontblock":
			d := cat(f[1:])
			q = append(append(q, refPut(uint64(len(d)))...), d...)
		case "appendpack8", "appendpack16", "appendpack32":
			q = append(q, refPut(atou())...)
		case "prependpack8", "prependpack16", "prependpack32":
			q = append(refPut(atou()), q...)
		case "prependlen":
			q = append(refPut(uint64(len(q))), q...)
		case "replace":
			q = hxlib.UnHex(f[1])
		case "compile", "dump":
			want = hx(q)
		case "get", "getcont":
			n := atoi()
			switch {
			case n <= 0 && f[0] == "get", n == 0:
				want = hx(nil)
			case n < 0 || n > len(q):
				want = "err notenough"
			default:
				want = hx(take(n))
				q = q[n:]
			}
			if f[0] == "getcont" && strings.HasPrefix(want, "b ") {
				kept, haveKept = hxlib.UnHex(strings.TrimPrefix(want, "b ")), true
			}
		case "getall":
			want = hx(q)
			q = nil
		case "getmax":
			n := atoi()
			if n < 0 {
				n = 0
			}
			if n > len(q) {
				n = len(q)
			}
			want = hx(take(n))
			q = q[n:]
		case "wts":
			n := atoi()
			t := "f"
			if n >= len(q) {
				n = len(q)
				t = "t"
			}
			want = "wts " + hxlib.Hex(take(n)) + " " + t
			q = q[n:]
		case "peek":
			n := atoi()
			if n < 0 {
				n = 0
			}
			if n > len(q) {
				n = len(q)
			}
			want = hx(take(n))
		case "peekcont":
			n := atoi()
			if n < 0 || n > len(q) {
				want = "nil"
			} else {
				want = hx(take(n))
				kept, haveKept = take(n), true
			}
		case "n8", "n16", "n32", "n64":
			k, lim := map[string]int{"n8": 2, "n16": 3, "n32": 5, "n64": 10}[f[0]], map[string]uint64{"n8": 255, "n16": 65535, "n32": math.MaxUint32, "n64": math.MaxUint64}[f[0]]
			v, used, e := uvar(q, k, lim)
			if e != "" {
				// the property allows an error for anything that is not a decodable number of the width;
				// which error class is not prescribed: accept any "err"
				if !strings.HasPrefix(o, "err ") {
					add(i, "accepted-invalid", fmt.Sprintf("byte queue cannot decode a %s here (%s) but got %q", f[0], e, o))
				}
				continue
			}
			if strings.HasPrefix(o, "err ") && f[0] == "n8" && used == 2 && q[1] != 1 {
				continue // Unpack8 rejects non-minimal two-byte forms; an error is allowed
			}
			want = "n " + strconv.FormatUint(v, 10)
			q = q[used:]
		case "block", "blockcont":
			v, used, e := uvar(q, 10, math.MaxUint64)
			if e != "" {
				if !strings.HasPrefix(o, "err ") {
					add(i, "accepted-invalid", fmt.Sprintf("no decodable length prefix (%s) but got %q", e, o))
				}
				continue
			}
			q = q[used:] // the number read is one queue operation, the block read the next
			if v > uint64(len(q)) {
				want = "err notenough"
			} else {
				want = hx(take(int(v)))
				if f[0] == "blockcont" {
					kept, haveKept = take(int(v)), true
				}
				q = q[v:]
			}
		case "holds":
			want = "f"
			if len(q) > 0 {
				want = "t"
			}
		case "len":
			want = "n " + strconv.Itoa(len(q))
		}
		if !started {
			continue
		}
		if o != want {
			class := "differs-from-byte-queue"
			if strings.HasPrefix(want, "err") && !strings.HasPrefix(o, "err") {
				class = "accepted-invalid"
			}
			add(i, class, fmt.Sprintf("container returned %q, a plain byte queue returns %q", o, want))
			return vs // later ops would only repeat the desynchronisation
		}
	}
	return vs
}

// ---- generator -------------------------------------------------------------------------------

func generate(r *hxlib.Run, emit func(hxlib.Case)) {
	rng := r.Rng
	slice := func() string {
		var n int
		switch rng.Intn(10) {
		case 0:
			n = 0
		case 1:
			n = 1
		case 2:
			n = 200
		default:
			n = 2 + rng.Intn(15)
		}
		b := make([]byte, n)
		rng.Read(b)
		if n > 0 && rng.Intn(3) == 0 {
			b[0] = byte(rng.Intn(n + 2)) // plausible length prefix
		}
		return hxlib.Hex(b)
	}
	slices := func() string {
		k := rng.Intn(4)
		p := make([]string, k)
		for i := range p {
			p[i] = slice()
		}
		return strings.Join(p, " ")
	}
	nums := []uint64{0, 1, 127, 128, 129, 255, 256, 16383, 16384, 1<<32 - 1, 1 << 32, 1<<63 - 1, 1 << 63, 1<<64 - 1}
	num := func() string {
		if rng.Intn(3) == 0 {
			return strconv.FormatUint(rng.Uint64()>>uint(rng.Intn(64)), 10)
		}
		return strconv.FormatUint(nums[rng.Intn(len(nums))], 10)
	}
	// fixed regression corpus first (minimised past failures)
	corpus := [][]string{
		{"new", "peek 1", "get 1", "n8", "n64", "block", "len"},
		{"new 01", "prepend 02", "replace 0909", "len", "get 2", "dump"},
		{"new", "append c801", "append 07", "n8", "dump", "len"},
		{"new ffffffffffffffffff01 0102", "block", "dump"},
		{"new 8080808080808080807f 0102", "block", "dump"},
		{"new 8080808080800100 01", "blockcont", "dump"},
		{"new 0102", "get 9223372036854775807", "getmax 9223372036854775807", "len"},
		{"new 01", "prepend 02", "unjson 2241513d3d22", "len", "dump", "prepend 03", "dump"},
		{"newc 01 -", "get 1", "unjsonm 6e756c6c", "len", "json", "prependlen", "jsonm", "writeto 0", "writeto 1"},
	}
	for _, c := range corpus {
		emit(hxlib.Case{Lines: c, NonTrivial: true, Kind: "corpus"})
	}
	// containers with very many compartments, consumed piecewise (offset far beyond the small-case range,
	// split-off containers read again after the parent was modified)
	for i := 0; i < r.Budget(300, 6000); i++ {
		k := 90 + rng.Intn(140)
		parts := make([]string, k)
		for j := range parts {
			b := make([]byte, 1+rng.Intn(3))
			rng.Read(b)
			parts[j] = hxlib.Hex(b)
		}
		var lines []string
		if rng.Intn(2) == 0 {
			lines = append(lines, "new "+strings.Join(parts, " "))
		} else {
			lines = append(lines, "new")
			for _, p := range parts {
				lines = append(lines, "append "+p)
			}
		}
		steps := 60 + rng.Intn(260)
		for j := 0; j < steps; j++ {
			switch rng.Intn(12) {
			case 0:
				lines = append(lines, "wts "+strconv.Itoa(1+rng.Intn(3)))
			case 1:
				lines = append(lines, "getmax "+strconv.Itoa(1+rng.Intn(3)))
			case 2:
				lines = append(lines, "n8")
			case 3:
				lines = append(lines, "getcont "+strconv.Itoa(1+rng.Intn(4)), "append "+slice(), "kdump")
			case 4:
				lines = append(lines, "append "+slice())
			case 5:
				lines = append(lines, "len", "kdump")
			default:
				lines = append(lines, "get "+strconv.Itoa(1+rng.Intn(3)))
			}
			if j%40 == 39 {
				lines = append(lines, "len", "dump")
			}
		}
		lines = append(lines, "len", "holds", "dump")
		emit(hxlib.Case{Lines: lines, NonTrivial: true, Kind: "many-compartments"})
	}
	// split-off containers: split exactly the rest / a part, modify the parent, read the child again
	for i := 0; i < r.Budget(1500, 60000); i++ {
		lines := []string{strings.TrimSpace("new " + slices() + " " + slice())}
		for j := 0; j < 1+rng.Intn(6); j++ {
			switch rng.Intn(5) {
			case 0:
				lines = append(lines, "append "+slice())
			case 1:
				lines = append(lines, "prepend "+slice())
			case 2:
				lines = append(lines, "get "+strconv.Itoa(rng.Intn(6)))
			case 3:
				lines = append(lines, "appendblock "+slice())
			default:
				lines = append(lines, "wts "+strconv.Itoa(rng.Intn(9)))
			}
		}
		// how much is held is learned from the implementation (generator may call it)
		e := &exec{}
		held := 0
		for _, l := range lines {
			e.Do(l)
		}
		if e.c != nil {
			held = e.c.Length()
		}
		n := held
		switch rng.Intn(4) {
		case 0:
			n = held / 2
		case 1:
			n = held - 1
		}
		split := "getcont " + strconv.Itoa(n)
		if rng.Intn(4) == 0 {
			split = "peekcont " + strconv.Itoa(n)
		}
		if rng.Intn(6) == 0 {
			split = "blockcont"
		}
		lines = append(lines, split, "kdump")
		for j := 0; j < 1+rng.Intn(5); j++ {
			switch rng.Intn(6) {
			case 0:
				lines = append(lines, "append "+slice())
			case 1:
				lines = append(lines, "appendnum "+num())
			case 2:
				lines = append(lines, "appendblock "+slice())
			case 3:
				lines = append(lines, "prepend "+slice())
			case 4:
				lines = append(lines, "getall")
			default:
				lines = append(lines, "get "+strconv.Itoa(rng.Intn(5)))
			}
			lines = append(lines, "kdump")
		}
		lines = append(lines, "len", "dump", "kdump")
		emit(hxlib.Case{Lines: lines, NonTrivial: true, Kind: "split-then-modify"})
	}
	// operations that take ANOTHER container as their argument: 2–4 live containers, each with a history of its
	// own (consumed compartments, offset > 0, spare slots in front after a prepend, split-off containers), handed
	// to each other — and to themselves — in whatever state they are
	for i := 0; i < r.Budget(2500, 100000); i++ {
		lines := []string{strings.TrimSpace([]string{"new", "newc"}[rng.Intn(2)] + " " + slices() + " " + slice())}
		n := 1
		for j := 0; j < 1+rng.Intn(3); j++ {
			lines = append(lines, strings.TrimSpace("also "+slices()+" "+slice()))
			n++
		}
		for j := 0; j < 4+rng.Intn(16); j++ {
			switch rng.Intn(16) {
			case 0, 1:
				lines = append(lines, "sel "+strconv.Itoa(rng.Intn(n)))
			case 2, 3, 4:
				lines = append(lines, "get "+strconv.Itoa(1+rng.Intn(20)))
			case 5:
				lines = append(lines, "prepend "+slice())
			case 6:
				lines = append(lines, "getmax "+strconv.Itoa(1+rng.Intn(20)))
			case 7:
				lines = append(lines, "wts "+strconv.Itoa(1+rng.Intn(20)))
			case 8:
				lines = append(lines, []string{"n8", "n64", "block", "getall", "compile", "prependlen"}[rng.Intn(6)])
			case 9:
				lines = append(lines, "getcont "+strconv.Itoa(1+rng.Intn(12)), "keepslot")
				n++ // optimistic: if the split failed, the slot index is simply out of range later (bad-op on both sides)
			case 10:
				lines = append(lines, "append "+slice())
			default:
				lines = append(lines, []string{"appendfrom ", "appendfrom ", "appendfromblock "}[rng.Intn(3)]+strconv.Itoa(rng.Intn(n)), "len")
			}
			if j%5 == 4 {
				lines = append(lines, "len", "dump")
			}
		}
		for k := 0; k < n; k++ {
			lines = append(lines, "sel "+strconv.Itoa(k), "len", "dump")
		}
		lines = append(lines, "held")
		emit(hxlib.Case{Lines: lines, NonTrivial: true, Kind: "container-arguments"})
	}
	// JSON round trip (serialization.go): a container with history is serialised; the text is read back into
	// the same container later, or into another container that has been used before (offset > 0, spare slots)
	for i := 0; i < r.Budget(1500, 60000); i++ {
		ctor := []string{"new", "newc"}[rng.Intn(2)]
		lines := []string{strings.TrimSpace(ctor + " " + slices())}
		for j := 0; j < rng.Intn(5); j++ {
			switch rng.Intn(5) {
			case 0:
				lines = append(lines, "append "+slice())
			case 1:
				lines = append(lines, "prepend "+slice())
			case 2:
				lines = append(lines, "get "+strconv.Itoa(rng.Intn(6)))
			case 3:
				lines = append(lines, "prependnum "+num())
			default:
				lines = append(lines, "wts "+strconv.Itoa(rng.Intn(9)))
			}
		}
		e := &exec{}
		for _, l := range lines {
			e.Do(l)
		}
		js := []string{"json", "jsonm"}[rng.Intn(2)]
		text := strings.TrimPrefix(e.Do(js), "b ") // generator may call the implementation to learn the text
		lines = append(lines, js, "len", "dump")
		if rng.Intn(2) == 0 { // a second, used container takes the text
			lines = append(lines, strings.TrimSpace([]string{"new", "newc"}[rng.Intn(2)]+" "+slices()))
		}
		for j := 0; j < rng.Intn(4); j++ {
			switch rng.Intn(4) {
			case 0:
				lines = append(lines, "prepend "+slice())
			case 1:
				lines = append(lines, "get "+strconv.Itoa(1+rng.Intn(20)))
			case 2:
				lines = append(lines, "prependlen")
			default:
				lines = append(lines, "append "+slice())
			}
		}
		un := []string{"unjson ", "unjsonm "}[rng.Intn(2)]
		if rng.Intn(8) == 0 {
			lines = append(lines, un+hxlib.Hex(canonicalJSON(rng)), "len", "dump")
		}
		lines = append(lines, un+text, "len", "holds", "dump")
		for j := 0; j < 1+rng.Intn(4); j++ {
			switch rng.Intn(6) {
			case 0:
				lines = append(lines, "prepend "+slice())
			case 1:
				lines = append(lines, "append "+slice())
			case 2:
				lines = append(lines, "get "+strconv.Itoa(rng.Intn(6)))
			case 3:
				lines = append(lines, "n64")
			case 4:
				lines = append(lines, "writeto "+strconv.Itoa(rng.Intn(12)))
			default:
				lines = append(lines, js)
			}
			lines = append(lines, "len")
		}
		lines = append(lines, "len", "dump")
		emit(hxlib.Case{Lines: lines, NonTrivial: true, Kind: "json-roundtrip"})
	}
	// JSON texts outside the modelled codec (white space, escapes, line breaks inside the string, arrays of
	// numbers, other JSON values, broken syntax): implementation only; the monitor's reference is the JSON
	// codec itself applied to a byte slice; after an error the container must be as before
	for i := 0; i < r.Budget(1500, 60000); i++ {
		lines := []string{strings.TrimSpace([]string{"new", "newc"}[rng.Intn(2)] + " " + slices())}
		for j := 0; j < rng.Intn(3); j++ {
			lines = append(lines, []string{"prepend " + slice(), "get " + strconv.Itoa(1+rng.Intn(9)), "append " + slice()}[rng.Intn(3)])
		}
		for j := 0; j < 1+rng.Intn(3); j++ {
			lines = append(lines, []string{"unjson ", "unjsonm "}[rng.Intn(2)]+hxlib.Hex(oddJSON(rng)), "len", "dump")
			if rng.Intn(2) == 0 {
				lines = append(lines, "prepend "+slice(), "len", "get 2", "dump")
			}
		}
		emit(hxlib.Case{Lines: lines, NonTrivial: true, Kind: "json-outside-model", NoModel: true})
	}
	// writers that take a few bytes per call without reporting an error (short writes), with and without a
	// total budget: implementation only
	for i := 0; i < r.Budget(800, 30000); i++ {
		lines := []string{strings.TrimSpace([]string{"new", "newc"}[rng.Intn(2)] + " " + slices())}
		for j := 0; j < rng.Intn(4); j++ {
			lines = append(lines, []string{"prepend " + slice(), "get " + strconv.Itoa(1+rng.Intn(9)), "append " + slice(), "append -"}[rng.Intn(4)])
		}
		for j := 0; j < 1+rng.Intn(3); j++ {
			lines = append(lines, fmt.Sprintf("writetox %d %d", []int{0, 1, 5, 17, 1000}[rng.Intn(5)], 1+rng.Intn(7)), "len", "dump")
		}
		emit(hxlib.Case{Lines: lines, NonTrivial: true, Kind: "short-writer", NoModel: true})
	}
	// numbers of the narrow widths: written with Pack8/16/32, read back with the matching and with narrower
	// readers (a value too large for the reader is an error and must leave the queue as it was)
	for i := 0; i < r.Budget(1000, 40000); i++ {
		lines := []string{[]string{"new", "newc"}[rng.Intn(2)]}
		type wn struct {
			w int
			n uint64
		}
		var put []wn
		for j := 0; j < 1+rng.Intn(6); j++ {
			w := []int{8, 16, 32}[rng.Intn(3)]
			n := rng.Uint64() >> uint(64-w) >> uint(rng.Intn(w))
			if rng.Intn(4) == 0 {
				n = []uint64{0, 127, 128, 255, 256, 16383, 16384, 65535, 65536, 2097151, 2097152, 1<<32 - 1}[rng.Intn(12)] & (1<<uint(w) - 1)
			}
			if rng.Intn(5) == 0 {
				lines = append(lines, fmt.Sprintf("prependpack%d %d", w, n))
				put = append([]wn{{w, n}}, put...)
			} else {
				lines = append(lines, fmt.Sprintf("appendpack%d %d", w, n))
				put = append(put, wn{w, n})
			}
		}
		if rng.Intn(3) == 0 {
			lines = append(lines, "append "+slice())
		}
		for _, p := range put {
			rd := p.w
			if rng.Intn(3) == 0 {
				rd = []int{8, 16, 32, 64}[rng.Intn(4)]
			}
			lines = append(lines, fmt.Sprintf("n%d", rd))
			if rng.Intn(4) == 0 {
				lines = append(lines, "len")
			}
		}
		lines = append(lines, "len", "dump")
		emit(hxlib.Case{Lines: lines, NonTrivial: true, Kind: "narrow-numbers"})
	}
	// containers are independent objects in the model: goroutines driving containers of their own next to byte
	// queues of their own (implementation only)
	for i := 0; i < r.Budget(5, 40); i++ {
		emit(hxlib.Case{Lines: []string{fmt.Sprintf("conc %d %d %d", []int{2, 4, 8, 16, 32}[rng.Intn(5)], r.Budget(20000, 200000), rng.Intn(1000))},
			NonTrivial: true, Kind: "concurrent-containers", NoModel: true})
	}
	N := r.Budget(20000, 1500000)
	for i := 0; i < N; i++ {
		var lines []string
		ctor := "new"
		if rng.Intn(4) == 0 {
			ctor = "newc"
		}
		r.Count("ctor:" + ctor)
		switch rng.Intn(4) {
		case 0:
			lines = append(lines, ctor)
		case 1:
			lines = append(lines, ctor+" "+slice())
		default:
			lines = append(lines, strings.TrimSpace(ctor+" "+slices()+" "+slice()))
		}
		maxOps := 60
		if r.Thorough && rng.Intn(20) == 0 {
			maxOps = 400
		}
		nops := 1 + rng.Intn(maxOps)
		held := 0 // rough estimate, only to aim requested lengths
		consuming, adding, prepends := 0, 0, 0
		for j := 0; j < nops; j++ {
			ln := func() string {
				switch rng.Intn(9) {
				case 0:
					return "-5"
				case 1:
					return "-1"
				case 2:
					return "0"
				case 3:
					return "1"
				case 4:
					return strconv.Itoa(held)
				case 5:
					return strconv.Itoa(held + 1)
				case 6:
					if held > 0 {
						return strconv.Itoa(held - 1)
					}
					return "2"
				case 7:
					return []string{"2147483648", "9223372036854775807", "1099511627776", "-9223372036854775808"}[rng.Intn(4)]
				}
				return strconv.Itoa(rng.Intn(20))
			}
			var l string
			switch k := rng.Intn(38); k {
			case 34:
				l = []string{"json", "jsonm"}[rng.Intn(2)]
			case 35:
				l = []string{"unjson ", "unjsonm "}[rng.Intn(2)] + hxlib.Hex(canonicalJSON(rng))
				adding++
			case 36, 37:
				l = "writeto " + strings.TrimPrefix(ln(), "-")
			case 0, 1:
				l = "append " + slice()
				adding++
			case 2, 3:
				l = "prepend " + slice()
				adding++
				prepends++
			case 4:
				l = "appendnum " + num()
				adding++
			case 5:
				l = "prependnum " + num()
				adding++
				prepends++
			case 6:
				l = "appendint " + strconv.FormatInt(int64(rng.Uint64()>>uint(rng.Intn(64))), 10)
			case 7:
				l = "prependint " + strconv.FormatInt(-int64(rng.Intn(3)), 10)
				prepends++
			case 8:
				l = "appendblock " + slice()
				adding++
			case 9:
				l = "prependblock " + slice()
				adding++
				prepends++
			case 10:
				l = strings.TrimSpace("appendcont " + slices())
			case 11:
				l = strings.TrimSpace("appendcontblock " + slices())
			case 12:
				l = "prependlen"
				prepends++
			case 13:
				if rng.Intn(4) == 0 {
					l = "replace " + slice()
				} else {
					l = "len"
				}
			case 14:
				l = "compile"
			case 15, 16:
				l = "get " + ln()
				consuming++
			case 17:
				if rng.Intn(6) == 0 {
					l = "getall"
				} else {
					l = "holds"
				}
			case 18:
				l = "getcont " + ln()
				consuming++
			case 19:
				l = "getmax " + ln()
				consuming++
			case 20, 21:
				l = "wts " + strconv.Itoa(rng.Intn(24))
				consuming++
			case 22:
				l = "peek " + ln()
			case 23:
				l = "peekcont " + ln()
			case 24, 25:
				l = "block"
				consuming++
			case 26:
				l = "blockcont"
				consuming++
			case 27:
				l = "n8"
				consuming++
			case 28:
				l = "n16"
				consuming++
			case 29:
				l = "n32"
				consuming++
			case 30:
				l = "n64"
				consuming++
			case 31:
				if rng.Intn(2) == 0 {
					l = "kdump"
				} else {
					l = "len"
				}
			case 32:
				l = "holds"
			default:
				l = "dump"
			}
			lines = append(lines, l)
			r.Count("op:" + strings.Fields(l)[0])
			if j%8 == 7 {
				lines = append(lines, "len", "holds", "dump", "held")
			}
			held = (held + rng.Intn(12)) % 64
		}
		lines = append(lines, "len", "dump", "held")
		emit(hxlib.Case{Lines: lines, NonTrivial: consuming > 0 && adding > 0 && prepends > 0, Kind: "random-sequence"})
	}
}

// canonicalJSON: a text inside the modelled codec — null, or a quoted string over the base64 alphabet and '=':
// mostly the encoding of random bytes, sometimes damaged (wrong length, padding in the wrong place, data after
// the padding, unused trailing bits set).
func canonicalJSON(rng interface{ Intn(int) int }) []byte {
	if rng.Intn(12) == 0 {
		return []byte("null")
	}
	raw := make([]byte, []int{0, 1, 2, 3, 4, 5, 6, 7, 30, 31, 32}[rng.Intn(11)])
	for i := range raw {
		raw[i] = byte(rng.Intn(256))
	}
	s := []byte(base64.StdEncoding.EncodeToString(raw))
	const alpha = "ABCDEFGHIJKLMNOPQRSTUVWXYZabcdefghijklmnopqrstuvwxyz0123456789+/="
	if len(s) > 0 {
		switch rng.Intn(8) {
		case 0:
			s[rng.Intn(len(s))] = '='
		case 1:
			s = s[:len(s)-1-rng.Intn(2)]
		case 2:
			s = append(s, alpha[rng.Intn(len(alpha))])
		case 3:
			s[rng.Intn(len(s))] = alpha[rng.Intn(len(alpha))]
		case 4:
			s = append(s, s[:4]...)
		}
	}
	return []byte(`"` + string(s) + `"`)
}

// oddJSON: JSON texts (and non-JSON) that the model does not decide.
func oddJSON(rng interface{ Intn(int) int }) []byte {
	raw := make([]byte, rng.Intn(9))
	for i := range raw {
		raw[i] = byte(rng.Intn(256))
	}
	b64 := base64.StdEncoding.EncodeToString(raw)
	switch rng.Intn(14) {
	case 0:
		return []byte(" \n\t\"" + b64 + "\" \r\n")
	case 1:
		arr, _ := json.Marshal(func() []int { o := make([]int, len(raw)); for i, x := range raw { o[i] = int(x) }; return o }())
		return arr
	case 2:
		return []byte("[1, 256, -1]")
	case 3:
		if len(b64) > 2 {
			return []byte(`"` + b64[:2] + "\\n" + b64[2:] + `"`) // escaped line break inside the string: base64 skips it
		}
		return []byte(`"\n"`)
	case 4:
		return []byte(`"\u0051\u0051=="`)
	case 5:
		return []byte(`{"a":1}`)
	case 6:
		return []byte("12")
	case 7:
		return []byte(`"` + b64) // unterminated
	case 8:
		return nil
	case 9:
		return []byte(`"` + strings.ReplaceAll(b64, "=", "") + `"`) // unpadded
	case 10:
		return []byte(`"` + strings.NewReplacer("+", "-", "/", "_").Replace(b64) + `-_"`) // URL alphabet
	case 11:
		return []byte("true")
	case 12:
		return []byte(`"` + b64 + `" x`)
	}
	return raw
}

func main() {
	hxlib.Main(&hxlib.Harness{
		Prop:     "C16",
		Rule:     "(also: 2–4 live containers per case, each with a history of its own, handed to each other and to themselves through AppendContainer/AppendContainerAsBlock in whatever state they are, incl. split-off containers) (also: 2–32 goroutines each driving a container of their own next to a byte queue of their own — ties that containers share no state) (also: both constructors New/NewContainer; MarshalJSON/UnmarshalJSON directly and through encoding/json, round trip into the same and into another used container, damaged base64 texts; JSON texts outside the modelled codec and short-writing writers on the implementation only; WriteAllTo into writers that fail after k bytes) (also: containers with 90–230 compartments consumed piecewise; split-off containers read again after the parent was modified) each case creates a container (empty / one slice / many slices incl. empty ones) and applies 1–60 (thorough: up to 400) random public method calls with slices of length 0, 1, 2–16, 200, numbers at all varint boundaries up to 2^64-1, requested lengths from {-5,-1,0,1,exact,exact±1,huge,MinInt}; Length/HoldsData/full dump after every 8th op and at the end. Non-trivial: at least one consuming op after at least one append and one prepend (so more than one compartment and the offset machinery are exercised); distinct by hash of the op lines.",
		Generate: generate,
		NewExec:  func(*hxlib.Run) hxlib.Exec { return &exec{} },
		Monitor:  monitor,
	})
}
