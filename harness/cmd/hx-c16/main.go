// hx-c16: correspondence harness and property monitor for C16 (container as byte queue).
package main

import (
	"bytes"
	"errors"
	"fmt"
	"math"
	"strconv"
	"strings"

	"github.com/safing/portbase/container"
	"github.com/safing/portbase/formats/varint"

	"verifharness/hxlib"
)

type exec struct {
	c    *container.Container
	kept *container.Container // most recently split-off container, read again later (kdump)
}

func errStr(err error) string {
	switch {
	case errors.Is(err, varint.ErrBufTooSmall):
		return "err small"
	case strings.Contains(err.Error(), "greater than"):
		return "err large"
	case strings.Contains(err.Error(), "not enough data to return"):
		return "err notenough"
	}
	return "err other:" + err.Error()
}

func hexes(fs []string) [][]byte {
	out := make([][]byte, len(fs))
	for i, f := range fs {
		out[i] = hxlib.UnHex(f)
	}
	return out
}

func (e *exec) Do(line string) string {
	f := strings.Fields(line)
	if len(f) == 0 {
		return "bad-op"
	}
	if f[0] == "new" {
		e.c = container.New(hexes(f[1:])...)
		e.kept = nil
		return "ok"
	}
	c := e.c
	if c == nil {
		return "bad-op"
	}
	atoi := func() int { n, _ := strconv.ParseInt(f[1], 10, 64); return int(n) }
	atou := func() uint64 { n, _ := strconv.ParseUint(f[1], 10, 64); return n }
	b := func(x []byte) string { return "b " + hxlib.Hex(x) }
	switch f[0] {
	case "append":
		c.Append(hxlib.UnHex(f[1]))
	case "prepend":
		c.Prepend(hxlib.UnHex(f[1]))
	case "appendnum":
		c.AppendNumber(atou())
	case "prependnum":
		c.PrependNumber(atou())
	case "appendint":
		c.AppendInt(atoi())
	case "prependint":
		c.PrependInt(atoi())
	case "appendblock":
		c.AppendAsBlock(hxlib.UnHex(f[1]))
	case "prependblock":
		c.PrependAsBlock(hxlib.UnHex(f[1]))
	case "appendcont":
		c.AppendContainer(container.New(hexes(f[1:])...))
	case "appendcontblock":
		c.AppendContainerAsBlock(container.New(hexes(f[1:])...))
	case "prependlen":
		c.PrependLength()
	case "replace":
		c.Replace(hxlib.UnHex(f[1]))
	case "compile":
		return b(c.CompileData())
	case "get":
		d, err := c.Get(atoi())
		if err != nil {
			return errStr(err)
		}
		return b(d)
	case "getall":
		return b(c.GetAll())
	case "getcont":
		nc, err := c.GetAsContainer(atoi())
		if err != nil {
			return errStr(err)
		}
		e.kept = nc
		return b(dumpOf(nc))
	case "getmax":
		return b(c.GetMax(atoi()))
	case "wts":
		s := make([]byte, atoi())
		n, emptied := c.WriteToSlice(s)
		t := "f"
		if emptied {
			t = "t"
		}
		return "wts " + hxlib.Hex(s[:n]) + " " + t
	case "peek":
		return b(c.Peek(atoi()))
	case "peekcont":
		nc := c.PeekContainer(atoi())
		if nc == nil {
			return "nil"
		}
		e.kept = nc
		return b(dumpOf(nc))
	case "block":
		d, err := c.GetNextBlock()
		if err != nil {
			return errStr(err)
		}
		return b(d)
	case "blockcont":
		nc, err := c.GetNextBlockAsContainer()
		if err != nil {
			return errStr(err)
		}
		e.kept = nc
		return b(dumpOf(nc))
	case "kdump":
		if e.kept == nil {
			return "nil"
		}
		return b(dumpOf(e.kept))
	case "n8", "n16", "n32", "n64":
		var v uint64
		var err error
		switch f[0] {
		case "n8":
			var x uint8
			x, err = c.GetNextN8()
			v = uint64(x)
		case "n16":
			var x uint16
			x, err = c.GetNextN16()
			v = uint64(x)
		case "n32":
			var x uint32
			x, err = c.GetNextN32()
			v = uint64(x)
		default:
			v, err = c.GetNextN64()
		}
		if err != nil {
			return errStr(err)
		}
		return "n " + strconv.FormatUint(v, 10)
	case "holds":
		if c.HoldsData() {
			return "t"
		}
		return "f"
	case "len":
		return "n " + strconv.Itoa(c.Length())
	case "dump":
		var buf bytes.Buffer
		if err := c.WriteAllTo(&buf); err != nil {
			return "err other:" + err.Error()
		}
		return b(buf.Bytes())
	default:
		return "bad-op"
	}
	return "ok"
}

// dumpOf reads a container without consuming or restructuring it.
func dumpOf(c *container.Container) []byte {
	var buf bytes.Buffer
	_ = c.WriteAllTo(&buf)
	return buf.Bytes()
}

// ---- monitor: a plain byte queue written independently in Go -------------------------------

func uvar(q []byte, k int, limit uint64) (uint64, int, string) {
	if len(q) > k {
		q = q[:k]
	}
	var x uint64
	for i, c := range q {
		if i == 10 {
			return 0, 0, "large"
		}
		if c < 0x80 {
			if i == 9 && c > 1 {
				return 0, 0, "large"
			}
			x |= uint64(c) << (7 * uint(i))
			if x > limit {
				return 0, 0, "large"
			}
			return x, i + 1, ""
		}
		x |= uint64(c&0x7f) << (7 * uint(i))
	}
	return 0, 0, "small"
}

func monitor(c hxlib.Case, outs []string) (vs []hxlib.Violation) {
	var q []byte
	var kept []byte
	haveKept := false
	started := false
	add := func(i int, class, what string) {
		f := strings.Fields(c.Lines[i])
		vs = append(vs, hxlib.Violation{Sig: "C16:" + f[0] + ":" + class, What: what, Lines: c.Lines[:i+1], Output: outs[:i+1]})
	}
	for i, l := range c.Lines {
		f := strings.Fields(l)
		o := outs[i]
		if strings.HasPrefix(o, "PANIC") {
			add(i, "panic", o)
			return vs // state after a panic is undefined
		}
		if o == "bad-op" {
			continue
		}
		want := "ok"
		atoi := func() int { n, _ := strconv.ParseInt(f[1], 10, 64); return int(n) }
		atou := func() uint64 { n, _ := strconv.ParseUint(f[1], 10, 64); return n }
		hx := func(x []byte) string { return "b " + hxlib.Hex(x) }
		cat := func(fs []string) []byte {
			var r []byte
			for _, x := range fs {
				r = append(r, hxlib.UnHex(x)...)
			}
			return r
		}
		take := func(n int) []byte { return append([]byte{}, q[:n]...) }
		switch f[0] {
		case "new":
			q = cat(f[1:])
			started = true
			haveKept = false
		case "kdump":
			want = "nil"
			if haveKept {
				want = hx(kept)
			}
		case "append":
			q = append(q, hxlib.UnHex(f[1])...)
		case "prepend":
			q = append(hxlib.UnHex(f[1]), q...)
		case "appendnum":
			q = append(q, varint.Pack64(atou())...)
		case "prependnum":
			q = append(varint.Pack64(atou()), q...)
		case "appendint":
			q = append(q, varint.Pack64(uint64(atoi()))...)
		case "prependint":
			q = append(varint.Pack64(uint64(atoi())), q...)
		case "appendblock":
			d := hxlib.UnHex(f[1])
			q = append(append(q, varint.Pack64(uint64(len(d)))...), d...)
		case "prependblock":
			d := hxlib.UnHex(f[1])
			q = append(append(varint.Pack64(uint64(len(d))), d...), q...)
		case "appendcont":
			q = append(q, cat(f[1:])...)
		case "appendcontblock":
			d := cat(f[1:])
			q = append(append(q, varint.Pack64(uint64(len(d)))...), d...)
		case "prependlen":
			q = append(varint.Pack64(uint64(len(q))), q...)
		case "replace":
			q = hxlib.UnHex(f[1])
		case "compile", "dump":
			want = hx(q)
		case "get", "getcont":
			n := atoi()
			switch {
			case n <= 0 && f[0] == "get", n == 0:
				want = hx(nil)
			case n < 0 || n > len(q):
				want = "err notenough"
			default:
				want = hx(take(n))
				q = q[n:]
			}
			if f[0] == "getcont" && strings.HasPrefix(want, "b ") {
				kept, haveKept = hxlib.UnHex(strings.TrimPrefix(want, "b ")), true
			}
		case "getall":
			want = hx(q)
			q = nil
		case "getmax":
			n := atoi()
			if n < 0 {
				n = 0
			}
			if n > len(q) {
				n = len(q)
			}
			want = hx(take(n))
			q = q[n:]
		case "wts":
			n := atoi()
			t := "f"
			if n >= len(q) {
				n = len(q)
				t = "t"
			}
			want = "wts " + hxlib.Hex(take(n)) + " " + t
			q = q[n:]
		case "peek":
			n := atoi()
			if n < 0 {
				n = 0
			}
			if n > len(q) {
				n = len(q)
			}
			want = hx(take(n))
		case "peekcont":
			n := atoi()
			if n < 0 || n > len(q) {
				want = "nil"
			} else {
				want = hx(take(n))
				kept, haveKept = take(n), true
			}
		case "n8", "n16", "n32", "n64":
			k, lim := map[string]int{"n8": 2, "n16": 3, "n32": 5, "n64": 10}[f[0]], map[string]uint64{"n8": 255, "n16": 65535, "n32": math.MaxUint32, "n64": math.MaxUint64}[f[0]]
			v, used, e := uvar(q, k, lim)
			if e != "" {
				// the property allows an error for anything that is not a decodable number of the width;
				// which error class is not prescribed: accept any "err"
				if !strings.HasPrefix(o, "err ") {
					add(i, "accepted-invalid", fmt.Sprintf("byte queue cannot decode a %s here (%s) but got %q", f[0], e, o))
				}
				continue
			}
			if strings.HasPrefix(o, "err ") && f[0] == "n8" && used == 2 && q[1] != 1 {
				continue // Unpack8 rejects non-minimal two-byte forms; an error is allowed
			}
			want = "n " + strconv.FormatUint(v, 10)
			q = q[used:]
		case "block", "blockcont":
			v, used, e := uvar(q, 10, math.MaxUint64)
			if e != "" {
				if !strings.HasPrefix(o, "err ") {
					add(i, "accepted-invalid", fmt.Sprintf("no decodable length prefix (%s) but got %q", e, o))
				}
				continue
			}
			q = q[used:] // the number read is one queue operation, the block read the next
			if v > uint64(len(q)) {
				want = "err notenough"
			} else {
				want = hx(take(int(v)))
				if f[0] == "blockcont" {
					kept, haveKept = take(int(v)), true
				}
				q = q[v:]
			}
		case "holds":
			want = "f"
			if len(q) > 0 {
				want = "t"
			}
		case "len":
			want = "n " + strconv.Itoa(len(q))
		}
		if !started {
			continue
		}
		if o != want {
			class := "differs-from-byte-queue"
			if strings.HasPrefix(want, "err") && !strings.HasPrefix(o, "err") {
				class = "accepted-invalid"
			}
			add(i, class, fmt.Sprintf("container returned %q, a plain byte queue returns %q", o, want))
			return vs // later ops would only repeat the desynchronisation
		}
	}
	return vs
}

// ---- generator -------------------------------------------------------------------------------

func generate(r *hxlib.Run, emit func(hxlib.Case)) {
	rng := r.Rng
	slice := func() string {
		var n int
		switch rng.Intn(10) {
		case 0:
			n = 0
		case 1:
			n = 1
		case 2:
			n = 200
		default:
			n = 2 + rng.Intn(15)
		}
		b := make([]byte, n)
		rng.Read(b)
		if n > 0 && rng.Intn(3) == 0 {
			b[0] = byte(rng.Intn(n + 2)) // plausible length prefix
		}
		return hxlib.Hex(b)
	}
	slices := func() string {
		k := rng.Intn(4)
		p := make([]string, k)
		for i := range p {
			p[i] = slice()
		}
		return strings.Join(p, " ")
	}
	nums := []uint64{0, 1, 127, 128, 129, 255, 256, 16383, 16384, 1<<32 - 1, 1 << 32, 1<<63 - 1, 1 << 63, 1<<64 - 1}
	num := func() string {
		if rng.Intn(3) == 0 {
			return strconv.FormatUint(rng.Uint64()>>uint(rng.Intn(64)), 10)
		}
		return strconv.FormatUint(nums[rng.Intn(len(nums))], 10)
	}
	// fixed regression corpus first (minimised past failures)
	corpus := [][]string{
		{"new", "peek 1", "get 1", "n8", "n64", "block", "len"},
		{"new 01", "prepend 02", "replace 0909", "len", "get 2", "dump"},
		{"new", "append c801", "append 07", "n8", "dump", "len"},
		{"new ffffffffffffffffff01 0102", "block", "dump"},
		{"new 8080808080808080807f 0102", "block", "dump"},
		{"new 8080808080800100 01", "blockcont", "dump"},
		{"new 0102", "get 9223372036854775807", "getmax 9223372036854775807", "len"},
	}
	for _, c := range corpus {
		emit(hxlib.Case{Lines: c, NonTrivial: true, Kind: "corpus"})
	}
	// containers with very many compartments, consumed piecewise (offset far beyond the small-case range,
	// split-off containers read again after the parent was modified)
	for i := 0; i < r.Budget(300, 6000); i++ {
		k := 90 + rng.Intn(140)
		parts := make([]string, k)
		for j := range parts {
			b := make([]byte, 1+rng.Intn(3))
			rng.Read(b)
			parts[j] = hxlib.Hex(b)
		}
		var lines []string
		if rng.Intn(2) == 0 {
			lines = append(lines, "new "+strings.Join(parts, " "))
		} else {
			lines = append(lines, "new")
			for _, p := range parts {
				lines = append(lines, "append "+p)
			}
		}
		steps := 60 + rng.Intn(260)
		for j := 0; j < steps; j++ {
			switch rng.Intn(12) {
			case 0:
				lines = append(lines, "wts "+strconv.Itoa(1+rng.Intn(3)))
			case 1:
				lines = append(lines, "getmax "+strconv.Itoa(1+rng.Intn(3)))
			case 2:
				lines = append(lines, "n8")
			case 3:
				lines = append(lines, "getcont "+strconv.Itoa(1+rng.Intn(4)), "append "+slice(), "kdump")
			case 4:
				lines = append(lines, "append "+slice())
			case 5:
				lines = append(lines, "len", "kdump")
			default:
				lines = append(lines, "get "+strconv.Itoa(1+rng.Intn(3)))
			}
			if j%40 == 39 {
				lines = append(lines, "len", "dump")
			}
		}
		lines = append(lines, "len", "holds", "dump")
		emit(hxlib.Case{Lines: lines, NonTrivial: true, Kind: "many-compartments"})
	}
	// split-off containers: split exactly the rest / a part, modify the parent, read the child again
	for i := 0; i < r.Budget(1500, 60000); i++ {
		lines := []string{strings.TrimSpace("new " + slices() + " " + slice())}
		for j := 0; j < 1+rng.Intn(6); j++ {
			switch rng.Intn(5) {
			case 0:
				lines = append(lines, "append "+slice())
			case 1:
				lines = append(lines, "prepend "+slice())
			case 2:
				lines = append(lines, "get "+strconv.Itoa(rng.Intn(6)))
			case 3:
				lines = append(lines, "appendblock "+slice())
			default:
				lines = append(lines, "wts "+strconv.Itoa(rng.Intn(9)))
			}
		}
		// how much is held is learned from the implementation (generator may call it)
		e := &exec{}
		held := 0
		for _, l := range lines {
			e.Do(l)
		}
		if e.c != nil {
			held = e.c.Length()
		}
		n := held
		switch rng.Intn(4) {
		case 0:
			n = held / 2
		case 1:
			n = held - 1
		}
		split := "getcont " + strconv.Itoa(n)
		if rng.Intn(4) == 0 {
			split = "peekcont " + strconv.Itoa(n)
		}
		if rng.Intn(6) == 0 {
			split = "blockcont"
		}
		lines = append(lines, split, "kdump")
		for j := 0; j < 1+rng.Intn(5); j++ {
			switch rng.Intn(6) {
			case 0:
				lines = append(lines, "append "+slice())
			case 1:
				lines = append(lines, "appendnum "+num())
			case 2:
				lines = append(lines, "appendblock "+slice())
			case 3:
				lines = append(lines, "prepend "+slice())
			case 4:
				lines = append(lines, "getall")
			default:
				lines = append(lines, "get "+strconv.Itoa(rng.Intn(5)))
			}
			lines = append(lines, "kdump")
		}
		lines = append(lines, "len", "dump", "kdump")
		emit(hxlib.Case{Lines: lines, NonTrivial: true, Kind: "split-then-modify"})
	}
	N := r.Budget(20000, 1500000)
	for i := 0; i < N; i++ {
		var lines []string
		switch rng.Intn(4) {
		case 0:
			lines = append(lines, "new")
		case 1:
			lines = append(lines, "new "+slice())
		default:
			lines = append(lines, strings.TrimSpace("new "+slices()+" "+slice()))
		}
		maxOps := 60
		if r.Thorough && rng.Intn(20) == 0 {
			maxOps = 400
		}
		nops := 1 + rng.Intn(maxOps)
		held := 0 // rough estimate, only to aim requested lengths
		consuming, adding, prepends := 0, 0, 0
		for j := 0; j < nops; j++ {
			ln := func() string {
				switch rng.Intn(9) {
				case 0:
					return "-5"
				case 1:
					return "-1"
				case 2:
					return "0"
				case 3:
					return "1"
				case 4:
					return strconv.Itoa(held)
				case 5:
					return strconv.Itoa(held + 1)
				case 6:
					if held > 0 {
						return strconv.Itoa(held - 1)
					}
					return "2"
				case 7:
					return []string{"2147483648", "9223372036854775807", "1099511627776", "-9223372036854775808"}[rng.Intn(4)]
				}
				return strconv.Itoa(rng.Intn(20))
			}
			var l string
			switch k := rng.Intn(34); k {
			case 0, 1:
				l = "append " + slice()
				adding++
			case 2, 3:
				l = "prepend " + slice()
				adding++
				prepends++
			case 4:
				l = "appendnum " + num()
				adding++
			case 5:
				l = "prependnum " + num()
				adding++
				prepends++
			case 6:
				l = "appendint " + strconv.FormatInt(int64(rng.Uint64()>>uint(rng.Intn(64))), 10)
			case 7:
				l = "prependint " + strconv.FormatInt(-int64(rng.Intn(3)), 10)
				prepends++
			case 8:
				l = "appendblock " + slice()
				adding++
			case 9:
				l = "prependblock " + slice()
				adding++
				prepends++
			case 10:
				l = strings.TrimSpace("appendcont " + slices())
			case 11:
				l = strings.TrimSpace("appendcontblock " + slices())
			case 12:
				l = "prependlen"
				prepends++
			case 13:
				if rng.Intn(4) == 0 {
					l = "replace " + slice()
				} else {
					l = "len"
				}
			case 14:
				l = "compile"
			case 15, 16:
				l = "get " + ln()
				consuming++
			case 17:
				if rng.Intn(6) == 0 {
					l = "getall"
				} else {
					l = "holds"
				}
			case 18:
				l = "getcont " + ln()
				consuming++
			case 19:
				l = "getmax " + ln()
				consuming++
			case 20, 21:
				l = "wts " + strconv.Itoa(rng.Intn(24))
				consuming++
			case 22:
				l = "peek " + ln()
			case 23:
				l = "peekcont " + ln()
			case 24, 25:
				l = "block"
				consuming++
			case 26:
				l = "blockcont"
				consuming++
			case 27:
				l = "n8"
				consuming++
			case 28:
				l = "n16"
				consuming++
			case 29:
				l = "n32"
				consuming++
			case 30:
				l = "n64"
				consuming++
			case 31:
				if rng.Intn(2) == 0 {
					l = "kdump"
				} else {
					l = "len"
				}
			case 32:
				l = "holds"
			default:
				l = "dump"
			}
			lines = append(lines, l)
			r.Count("op:" + strings.Fields(l)[0])
			if j%8 == 7 {
				lines = append(lines, "len", "holds", "dump")
			}
			held = (held + rng.Intn(12)) % 64
		}
		lines = append(lines, "len", "dump")
		emit(hxlib.Case{Lines: lines, NonTrivial: consuming > 0 && adding > 0 && prepends > 0, Kind: "random-sequence"})
	}
}

func main() {
	hxlib.Main(&hxlib.Harness{
		Prop:     "C16",
		Rule:     "(also: containers with 90–230 compartments consumed piecewise; split-off containers read again after the parent was modified) each case creates a container (empty / one slice / many slices incl. empty ones) and applies 1–60 (thorough: up to 400) random public method calls with slices of length 0, 1, 2–16, 200, numbers at all varint boundaries up to 2^64-1, requested lengths from {-5,-1,0,1,exact,exact±1,huge,MinInt}; Length/HoldsData/full dump after every 8th op and at the end. Non-trivial: at least one consuming op after at least one append and one prepend (so more than one compartment and the offset machinery are exercised); distinct by hash of the op lines.",
		Generate: generate,
		NewExec:  func(*hxlib.Run) hxlib.Exec { return &exec{} },
		Monitor:  monitor,
	})
}
