// hx-c02: correspondence harness and property monitor for C02
// (every database backend behaves like one reference key-to-record store).
package main

import (
	"fmt"
	"strings"
	"sync"

	"verifharness/dbx"
	"verifharness/hxlib"
)

var cacheModes = []string{"n", "n", "r", "s", "d", "e"}

// genHistory emits one random history on one configuration.
func genHistory(r *hxlib.Run, emit func(hxlib.Case), backend string, shadow bool, cache string, nOps int, st *dbx.CondStats) {
	rng := r.Rng
	keys, prefixes, universe := dbx.Universe(rng, backend)
	r.Count("keys:" + universe)
	sh := "0"
	if shadow {
		sh = "1"
	}
	lines := []string{"cfg " + backend + " " + sh}
	ifl := "if p 1 1 " + cache
	switch rng.Intn(12) {
	case 0:
		ifl += " 1 0 0 0"
	case 1:
		ifl += " 0 1 0 0"
	case 2:
		ifl += " 0 0 3600 0"
	case 3:
		ifl += " 0 0 0 @+86400"
	case 4:
		ifl += " 0 0 0 5"
	default:
		ifl += " 0 0 0 0"
	}
	delayed := cache == "d" || cache == "e"
	// PutMany and Purge bypass the interface's read cache and delayed write set (documented caveat, recorded
	// finding). What a later Get answers then depends on cache residency; to keep that reproducible such
	// histories use a large cache and records without expiry (gcache TTLs never fire).
	findingMode := (cache == "r" || cache == "d") && rng.Intn(4) == 0
	if delayed || findingMode {
		// PutMany applies the interface options a second time when the write set is flushed, an evicted
		// entry is written without: with Always* options the stored metadata would depend on the ARC policy
		ifl = "if p 1 1 " + cache + " 0 0 0 0"
	}
	lines = append(lines, ifl)
	cached := cache != "n"
	_ = cache == "s" || cache == "e"
	batcher := backend == "h" || backend == "b"
	wrote, read := false, false
	lastForm := map[string]string{}
	// with a small delayed-write cache an entry is either flushed (PutMany runs Meta.Update again) or written
	// by the evict handler (it does not): a pending relative expiry would make the stored Expires depend on
	// the ARC policy
	noRel := cache == "e"
	// gcache keeps the TTL of an entry that is overwritten by a plain Set: after a record with an expiry in the
	// past (TTL 0) the entry of that key is dropped at the next lookup, the evict handler writes the pending
	// record — and whether a pending relative expiry is re-based by a later flush depends on it. A history on a
	// delayed-write interface therefore uses either relative expiries or expiries in the past, not both.
	noPast := false
	if cache == "d" {
		if rng.Intn(2) == 0 {
			noRel = true
		} else {
			noPast = true
		}
	}

	rec := func() string {
		form := dbx.GenForm(rng)
		k := pick(r, keys)
		lastForm[k] = form
		return fmt.Sprintf("%s %s %s %s", k, form, dbx.GenMetaY(rng, rng.Intn(6) == 0, noRel, findingMode, noPast), dbx.GenFields(rng, form, ""))
	}
	sync := func() {
		if delayed {
			lines = append(lines, "flush p")
		}
	}
	for n := 0; n < nOps; n++ {
		switch x := rng.Intn(100); {
		case x < 22:
			lines = append(lines, "put p "+rec())
			wrote = true
			r.Count("op:put")
		case x < 27:
			lines = append(lines, "putnew p "+rec())
			wrote = true
			r.Count("op:putnew")
		case x < 45:
			lines = append(lines, "get p "+pick(r, keys))
			read = true
			r.Count("op:get")
		case x < 50:
			lines = append(lines, "exists p "+pick(r, keys))
			r.Count("op:exists")
		case x < 56:
			lines = append(lines, "del p "+pick(r, keys))
			r.Count("op:delete")
		case x < 58:
			lines = append(lines, "reput p "+pick(r, keys))
			wrote = true
			r.Count("op:get-then-put-back")
		case x < 62:
			if findingMode {
				continue
			}
			abs := pick(r, []string{"5", "@-5000", "@+3600", "@+86400", "0"})
			if noPast && (abs == "5" || abs == "@-5000") {
				abs = "@+3600"
			}
			lines = append(lines, fmt.Sprintf("setabs p %s %s", pick(r, keys), abs))
			r.Count("op:setabs")
		case x < 65:
			if noRel || findingMode {
				continue
			}
			lines = append(lines, fmt.Sprintf("setrel p %s %s", pick(r, keys), pick(r, []string{"3600", "100", "0", "-5"})))
			r.Count("op:setrel")
		case x < 67:
			lines = append(lines, pick(r, []string{"mksecret", "mkcrown"})+" p "+pick(r, keys))
			r.Count("op:mkflag")
		case x < 71:
			// InsertValue works through the accessor of whatever object it is handed (typed struct from the
			// cache, JSON wrapper from storage), so its result depends on cache residency (ARC policy, and
			// gcache keeps an old TTL when an entry is overwritten without one); on a RAW wrapper it
			// rewrites the data as JSON (not modelled). It is not one of C02's operations: exercised
			// without cache here and in C03.
			k := pick(r, keys)
			if cached || lastForm[k] == "R" {
				continue
			}
			lines = append(lines, fmt.Sprintf("insert p %s %s %s", k, pick(r, []string{"S", "I", "F", "B", "N", "L", "Q"}),
				pick(r, []string{"s:new", "i:42", "f:2500", "b:1", "b:0", "s:", "i:-1"})))
			r.Count("op:insert")
		case x < 76:
			// a complete batch; on a cached interface PutMany bypasses the cache (documented caveat,
			// recorded finding), with a small cache the replacement policy would show through: skip
			if cached && !findingMode {
				continue
			}
			lines = append(lines, "pmbegin p")
			if batcher {
				k := rng.Intn(5)
				for i := 0; i < k; i++ {
					lines = append(lines, "pmput p "+rec())
				}
				if rng.Intn(6) == 0 {
					lines = append(lines, "pmputx p")
				}
				wrote = wrote || k > 0
			}
			lines = append(lines, "pmend p")
			r.Count("op:putmany")
			if cached {
				r.Count("op:putmany-on-cached-interface")
			}
		case x < 88:
			sync()
			lines = append(lines, fmt.Sprintf("query p %s %s", pick(r, prefixes), dbx.GenCond(rng, 0, st)))
			read = true
			r.Count("op:query")
		case x < 91:
			if cached && !findingMode {
				continue
			}
			sync()
			lines = append(lines, fmt.Sprintf("purge p %s %s", pick(r, prefixes), dbx.GenCond(rng, 0, st)))
			r.Count("op:purge")
			if cached {
				r.Count("op:purge-on-cached-interface")
			}
		case x < 96:
			sync()
			lines = append(lines, "dump")
			if rng.Intn(3) == 0 {
				lines = append(lines, "gmaintain")
			} else {
				lines = append(lines, "maintain "+pick(r, []string{"@", "@+5000", "@-1000", "3", "@-10000"}))
			}
			lines = append(lines, "dump")
			r.Count("op:maintain")
		case x < 98:
			if delayed {
				lines = append(lines, "flush p")
			} else if cached {
				lines = append(lines, "clear p")
			}
			r.Count("op:flush/clear")
		default:
			sync()
			lines = append(lines, "dump")
		}
	}
	sync()
	lines = append(lines, "query p - -", "dump")
	kind := "hist:" + backend + sh + cache
	if universe != "plain" {
		kind += ":" + universe + "-keys"
	}
	if findingMode {
		kind += ":batch-behind-cache"
	}
	emit(hxlib.Case{Lines: lines, NonTrivial: wrote && read, Kind: kind})
	r.Count(fmt.Sprintf("hist-len:%d0s", len(lines)/10))
}

func pick[T any](r *hxlib.Run, l []T) T { return l[r.Rng.Intn(len(l))] }

func regression(emit func(hxlib.Case)) {
	cases := [][]string{
		// DESIGN §7 #19: get after delete through a cached interface
		{"cfg h 0", "if p 1 1 r 0 0 0 0", "put p a/x T 0,0,0,0,0,0 S=s:abc;I=i:5;F=f:1500;B=b:1;N=o{X=i:7};L=a[x,y]", "get p a/x", "del p a/x", "get p a/x", "exists p a/x"},
		{"cfg b 1", "if p 1 1 r 0 0 0 0", "put p a/x J 0,0,0,0,0,0 S=s:abc", "get p a/x", "del p a/x", "get p a/x"},
		// expiry moved into the past on a cached record
		{"cfg b 0", "if p 1 1 r 0 0 0 0", "put p a/x J 0,0,0,0,0,0 S=s:abc", "get p a/x", "setabs p a/x 5", "get p a/x", "exists p a/x"},
		// #20: fstree query must apply the key prefix
		{"cfg f 0", "if p 1 1 n 0 0 0 0", "put p abc J 0,0,0,0,0,0 S=s:abc", "put p b J 0,0,0,0,0,0 S=s:xyz", "query p ab -", "query p zz -", "query p zz/q -", "query p a/ -"},
		// #18: FlushCache must flush; queries see the records afterwards
		{"cfg b 0", "if p 1 1 d 0 0 0 0", "put p a/x J 0,0,0,0,0,0 S=s:abc", "get p a/x", "flush p", "query p - -", "dump"},
		{"cfg h 1", "if p 1 1 d 0 0 0 0", "put p a/x T 0,0,0,0,0,0 S=s:abc;I=i:5;F=f:1500;B=b:1;N=o{X=i:7};L=a[x,y]", "del p a/x", "get p a/x", "flush p", "query p - -", "dump"},
		// put of an already deleted record on a key that does not exist
		{"cfg f 0", "if p 1 1 n 0 0 0 0", "put p a/x J 0,0,0,5,0,0 S=s:abc", "get p a/x", "put p a/y J 0,0,0,0,0,0 S=s:abc", "get p a/y"},
		// purge counts only visible records
		{"cfg b 0", "if p 1 1 n 0 0 0 0", "put p a/x J 0,0,5,0,0,0 S=s:abc", "put p a/y J 0,0,0,0,0,0 S=s:abc", "purge p a -", "dump"},
		{"cfg b 1", "if p 1 1 n 0 0 0 0", "put p a/x J 0,0,5,0,0,0 S=s:abc", "put p a/y J 0,0,0,0,0,0 S=s:abc", "dump", "gmaintain", "dump", "purge p a -", "dump"},
		// struct vs JSON accessor on sub-level selectors (#31)
		{"cfg h 0", "if p 1 1 n 0 0 0 0", "put p a/x T 0,0,0,0,0,0 S=s:abc;I=i:5;F=f:1500;B=b:1;N=o{X=i:7};L=a[x,y]", "query p - [N.X:eq:7]", "query p - [L.#:eq:2]", "query p - [L.0:sa:x]"},
		{"cfg b 0", "if p 1 1 n 0 0 0 0", "put p a/x T 0,0,0,0,0,0 S=s:abc;I=i:5;F=f:1500;B=b:1;N=o{X=i:7};L=a[x,y]", "query p - [N.X:eq:7]", "query p - [L.#:eq:2]", "query p - [L.0:sa:x]"},
		// cache is bypassed by PutMany / Purge (documented caveat)
		{"cfg b 0", "if p 1 1 r 0 0 0 0", "put p a/x J 0,0,0,0,0,0 S=s:abc", "get p a/x", "pmbegin p", "pmput p a/x J 0,0,0,0,0,0 S=s:new", "pmend p", "get p a/x"},
		{"cfg b 0", "if p 1 1 r 0 0 0 0", "put p a/x J 0,0,0,0,0,0 S=s:abc", "get p a/x", "purge p a -", "get p a/x", "query p - -"},
	}
	for _, c := range cases {
		emit(hxlib.Case{Lines: c, NonTrivial: true, Kind: "regression"})
	}
	// numbers where an int64 stops being a float64 (the serialised form of a record is a JSON number): integer fields
	// at 2^53 / 2^53+1, the ends of the int64 range, float fields holding 2^53, 2^62, ±2^63; every integer and float
	// operator with operands at and next to those values, on typed and on serialised records, on every backend
	for _, b := range []string{"h", "b", "f", "g"} {
		c := []string{"cfg " + b + " 0", "if p 1 1 n 0 0 0 0",
			"put p n/odd T 0,0,0,0,0,0 S=s:x;I=i:9007199254740993;F=f:9007199254740992000;B=b:0;N=o{X=i:9007199254740993};L=a[]",
			"put p n/lim J 0,0,0,0,0,0 I=i:9007199254740992;F=f:4611686018427904000000",
			"put p n/max T 0,0,0,0,0,0 S=s:x;I=i:9223372036854775807;F=f:9223372036855808000000;B=b:0;N=o{X=i:0};L=a[]",
			"put p n/min J 0,0,0,0,0,0 I=i:-9223372036854775808;F=f:-9223372036855808000000",
			"put p n/neg T 0,0,0,0,0,0 S=s:x;I=i:-9007199254740993;F=f:-9007199254740992000;B=b:0;N=o{X=i:0};L=a[]",
			"put p n/small J 0,0,0,0,0,0 I=i:5;F=f:1500",
			"get p n/odd", "get p n/lim", "get p n/max", "get p n/min", "get p n/neg"}
		for _, op := range []string{"eq", "gt", "ge", "lt", "le"} {
			for _, v := range []string{"9007199254740993", "9007199254740992", "-9007199254740992", "9223372036854775807", "9223372036854775806", "-9223372036854775808", "-9223372036854775807"} {
				c = append(c, fmt.Sprintf("query p n/ [I:%s:%s]", op, v))
			}
			for _, v := range []string{"9007199254740992000", "9007199254740993000", "4611686018427904000000", "4611686018427904512000", "4611686018427904513000", "4611686018427387904000", "9223372036854775807000", "9223372036855808000000", "-9223372036854775808000", "1500"} {
				c = append(c, fmt.Sprintf("query p n/ [F:f%s:%s]", op, v))
			}
		}
		c = append(c, "query p n/ ![I:eq:9007199254740992]", "query p n/ &([I:gt:9007199254740992],[I:lt:9007199254740994])", "query p n/ |([I:eq:9223372036854775806],[F:feq:9223372036854775807000])",
			"query p n/ [N.X:eq:9007199254740993]")
		if b == "b" {
			c = append(c, "purge p n/ [I:eq:9007199254740992]", "query p n/ -")
		}
		emit(hxlib.Case{Lines: c, NonTrivial: true, Kind: "regression:int64-float64-boundary"})
	}
}

// genIterator: the result-stream hand-over on the real Iterator, free running and with the producer held
// at the yield point inside Finish; plus (thorough) a real storage error: the backend's send times out.
func genIterator(r *hxlib.Run, emit func(hxlib.Case)) {
	var lines []string
	lines = append(lines, "cfg h 0")
	for k := 0; k < r.Budget(40, 400); k++ {
		n := r.Rng.Intn(25)
		forced := 0
		if k%4 == 0 {
			forced = 1
		}
		lines = append(lines, fmt.Sprintf("iter %d %d %d", n, b2i(r.Rng.Intn(4) != 0), forced))
		r.Count(fmt.Sprintf("iter:forced=%d", forced))
	}
	emit(hxlib.Case{Lines: lines, NonTrivial: true, Kind: "iterator"})
	nslow := r.Budget(1, 4)
	for k := 0; k < nslow; k++ {
		b := []string{"h", "b"}[k%2]
		lines = []string{"cfg " + b + " 0", "if p 1 1 n 0 0 0 0"}
		for j := 0; j < 14+r.Rng.Intn(5); j++ {
			lines = append(lines, fmt.Sprintf("put p k%02d J 0,0,0,0,0,0 S=s:x", j))
		}
		lines = append(lines, fmt.Sprintf("slowquery p %d", 1-k%2))
		emit(hxlib.Case{Lines: lines, NonTrivial: true, Kind: "iterator-storage-timeout", NoModel: true})
	}
}

// genBigPurge: more than 1000 matching records, so that bbolt's Purge has to work in several transactions
// (it commits after every 1000 changes and re-seeks), with cursor deletes (immediate) and cursor rewrites (shadow).
func genBigPurge(r *hxlib.Run, emit func(hxlib.Case)) {
	for _, sh := range []string{"0", "1"} {
		n := 2400 + r.Rng.Intn(r.Budget(400, 4000)) // ≥ 1400 records match the first purge: at least two transactions
		lines := []string{"cfg b " + sh, "if p 1 1 n 0 0 0 0", "pmbegin p"}
		for i := 0; i < n; i++ {
			pfx := "big/"
			if i%7 == 3 {
				pfx = "keep/"
			}
			meta := "0,0,0,0,0,0"
			if i%11 == 5 {
				meta = "0,0,5,0,0,0" // already expired: not to be counted
			}
			lines = append(lines, fmt.Sprintf("pmput p %s%05d J %s I=i:%d;S=s:x", pfx, i, meta, i%5))
		}
		lines = append(lines, "pmend p", "query p keep/ [I:eq:0]", "purge p big/ [I:ge:1]", "purge p big/ [I:ge:1]", "query p big/ [I:ge:1]", "purge p big/ -", "query p big/ -", "query p keep/ [I:eq:0]", "dump", "maintain @+1000", "dump")
		emit(hxlib.Case{Lines: lines, NonTrivial: true, Kind: "big-purge:" + sh})
		r.Count(fmt.Sprintf("big-purge-records:%d00s", n/100))
	}
}

// genBoundary: records whose expiry time lies one or two seconds ahead (absolute, or relative through a TTL of one
// second), deleted stamps at the same seconds, on all four backends and both delete modes in ONE case, so that
// one wait serves them all: after `waitsec n` the wall clock shows exactly the second some expiry times name.
// Within that second every database gets a block get*/query/maintenance-or-purge/get*/query bracketed by two
// clock readings (see dbx.MonitorBoundary). Runs on the implementation only: the model's clock is logical.
func genBoundary(r *hxlib.Run, emit func(hxlib.Case)) {
	rng := r.Rng
	type cf struct{ b, sh string }
	var cfgs []cf
	for _, b := range []string{"h", "b", "f", "g"} {
		for _, sh := range []string{"0", "1"} {
			cfgs = append(cfgs, cf{b, sh})
		}
	}
	keys := []string{"bd/k0", "bd/k1", "bd/k2", "bd/k3", "bd/k4", "bd/k5"}
	for c := 0; c < r.Budget(2, 15); c++ {
		var lines []string
		for i, x := range cfgs {
			if i == 0 {
				lines = append(lines, "cfg "+x.b+" "+x.sh, "if p 1 1 n 0 0 0 0")
			} else {
				lines = append(lines, "addcfg "+x.b+" "+x.sh)
			}
			for j, k := range keys {
				exp := pick(r, []string{"@+1", "@+1", "@+2", "@+2", "@+0", "0"})
				del := "0"
				switch {
				case j == 0:
					exp = "@+1"
				case j == 1:
					exp = "@+2"
				case j == 2 && rng.Intn(2) == 0:
					exp, del = "0", "-1" // TTL of one second: Expires = time of the put + 1
				case j == 5 && rng.Intn(2) == 0:
					del = pick(r, []string{"@+1", "@+0", "@-5000"}) // stored deleted (shadow) / not stored (immediate)
				}
				lines = append(lines, fmt.Sprintf("put p %s J 0,0,%s,%s,0,0 S=s:v%d", k, exp, del, j))
				r.Count("boundary:expires=" + exp + ",deleted=" + del)
			}
		}
		for round := 1; round <= 2; round++ {
			lines = append(lines, fmt.Sprintf("waitsec %d", round))
			for _, x := range cfgs {
				lines = append(lines, "usecfg "+x.b+" "+x.sh, "clock")
				for _, k := range keys {
					lines = append(lines, "get p "+k)
				}
				lines = append(lines, "query p bd/ -")
				op := "maintain " + pick(r, []string{"@+0", "@+1", "@+2", "@+1", "@+3"})
				// round 1: always maintenance (every database has a record expiring in that very second);
				// round 2: maintenance or purge (bbolt; elsewhere purge answers not-implemented)
				switch rng.Intn(6) {
				case 0:
					op = "gmaintain"
				case 1, 2:
					if round == 2 && (x.b == "b" || rng.Intn(6) == 0) {
						op = "purge p bd/ -"
					}
				}
				lines = append(lines, op)
				r.Count("boundary:op:" + strings.Fields(op)[0])
				for _, k := range keys {
					lines = append(lines, "get p "+k)
				}
				lines = append(lines, "query p bd/ -", "clock")
			}
		}
		emit(hxlib.Case{Lines: lines, NonTrivial: true, Kind: "expiry-boundary", NoModel: true})
	}
}

// genParkQuery: a running query against concurrent deletes / expiry. n records below `q/`; a query is started and
// its consumer does not read; once the executor has filled the result buffer the interface deletes (or sets an
// expiry in the past on) a subset of the records; then the consumer reads to the end (op `pq`, see dbx). The
// executor can have checked at most capacity + 1 records before the writes began: from the (capacity+2)-th arrival
// on, no record may itself be marked deleted or carry an expiry in the past. Implementation only.
func genParkQuery(r *hxlib.Run, emit func(hxlib.Case)) {
	rng := r.Rng
	for c := 0; c < r.Budget(16, 160); c++ {
		b := []string{"h", "b", "f", "g"}[c%4]
		sh := pick(r, []string{"0", "1"})
		lines := []string{"cfg " + b + " " + sh, "if p 1 1 n 0 0 0 0"}
		n := []int{12, 13, 25, 40, 60}[rng.Intn(5)]
		var keys []string
		for k := 0; k < n; k++ {
			key := fmt.Sprintf("q/k%02d", k)
			keys = append(keys, key)
			form := pick(r, []string{"T", "J"})
			lines = append(lines, fmt.Sprintf("put p %s %s 0,0,0,0,0,0 %s", key, form, dbx.GenFields(rng, form, "")))
		}
		for round := 0; round < 1+rng.Intn(2); round++ {
			// records that are still visible: a record is deleted / expires once
			var sel, rest []string
			all := round > 0 || rng.Intn(3) == 0
			for _, k := range keys {
				if all || rng.Intn(3) != 0 {
					sel = append(sel, k)
				} else {
					rest = append(rest, k)
				}
			}
			keys = rest
			if len(sel) == 0 {
				break
			}
			op := pick(r, []string{"del", "expire"})
			lines = append(lines, fmt.Sprintf("pq p %s p %s %s", pick(r, []string{"q/", "q/k", "-"}), op, strings.Join(sel, ",")))
			r.Count("op:query-vs-" + op + ":" + b)
		}
		lines = append(lines, "query p - -", "dump")
		emit(hxlib.Case{Lines: lines, NonTrivial: true, Kind: "query-vs-delete:" + b, NoModel: true})
	}
}

func generate(r *hxlib.Run, emit0 func(hxlib.Case)) {
	emit := func(c hxlib.Case) {
		if !dbx.Hung() {
			emit0(c)
		}
	}
	st := &dbx.CondStats{}
	regression(emit)
	genIterator(r, emit)
	genBigPurge(r, emit)
	genBoundary(r, emit)
	genParkQuery(r, emit)
	n := r.Budget(250, 3000)
	for i := 0; i < n; i++ {
		for _, backend := range []string{"h", "b", "f", "g"} {
			for _, shadow := range []bool{false, true} {
				cache := cacheModes[r.Rng.Intn(len(cacheModes))]
				if (cache == "d" || cache == "e") && backend != "h" && backend != "b" {
					cache = "r"
				}
				genHistory(r, emit, backend, shadow, cache, 15+r.Rng.Intn(70), st)
			}
		}
	}
	r.Dist["cond-leaf:well-typed"] += st.WellTyped
	r.Dist["cond-leaf:ill-typed"] += st.IllTyped
	r.Dist["cond-leaf:sub-level-selector"] += st.SubLevel
	r.Dist["cond-leaf:absent-field"] += st.Absent
	r.Dist["cond-leaf:construction-error"] += st.Err
}

// monitor: the property statement read literally (reference map in dbx.Oracle) on the implementation outputs.
func monitor(c hxlib.Case, outs []string) (vs []hxlib.Violation) {
	if dbx.IsBoundaryCase(c.Lines) {
		skipLock.Lock()
		bv := dbx.MonitorBoundary(c.Lines, outs, &boundary)
		skipLock.Unlock()
		seen := map[string]bool{}
		for _, v := range bv {
			if seen[v.Sig] {
				continue
			}
			seen[v.Sig] = true
			vs = append(vs, hxlib.Violation{Sig: v.Sig, What: fmt.Sprintf("op %d %q: %s", v.Idx, c.Lines[v.Idx], v.What), Lines: c.Lines, Output: outs})
		}
		return vs
	}
	o := dbx.NewOracle()
	for i, l := range c.Lines {
		if strings.HasPrefix(l, "pq ") {
			vs = append(vs, monitorPQ(c, outs, i, o)...)
			continue
		}
		o.Step(i, l, outs[i])
	}
	seen := map[string]bool{}
	for _, v := range o.V {
		if seen[v.Sig] {
			continue
		}
		seen[v.Sig] = true
		vs = append(vs, hxlib.Violation{Sig: v.Sig, What: fmt.Sprintf("op %d %q: %s", v.Idx, c.Lines[v.Idx], v.What), Lines: c.Lines[:v.Idx+1], Output: outs[:v.Idx+1]})
	}
	skipLock.Lock()
	for k, n := range o.Skips {
		skips[k] += n
	}
	skipLock.Unlock()
	return vs
}

// monitorPQ: "a query yields exactly the visible records" with the query still running while records are deleted /
// expire: a record whose hand-over check comes after the delete has returned is not visible and must not be
// listed. Observable (see genParkQuery): from the (capacity+2)-th arrival on, no listed record is itself marked
// deleted or expired. (A storage that answers from a snapshot lists the live versions of the snapshot.)
func monitorPQ(c hxlib.Case, outs []string, i int, o *dbx.Oracle) (vs []hxlib.Violation) {
	f := strings.Fields(c.Lines[i])
	out := outs[i]
	add := func(sig, what string) {
		vs = append(vs, hxlib.Violation{Sig: sig, What: fmt.Sprintf("op %d %q: %s", i, c.Lines[i], what), Lines: c.Lines[:i+1], Output: outs[:i+1]})
	}
	if strings.HasPrefix(out, "PANIC") || out == "HANG" {
		add("C02:"+strings.Fields(out)[0]+":pq", out)
		return
	}
	pq, ok := dbx.ParsePQ(out)
	if !ok || len(f) != 6 {
		add("C02:malformed-output:pq", out)
		return
	}
	skipLock.Lock()
	skips[fmt.Sprintf("pq:parked=%v:%s", pq.Parked, o.Backend)]++
	if len(pq.Arrived) > pq.Cap+1 {
		skips["pq:arrivals-after-the-window:"+o.Backend] += len(pq.Arrived) - pq.Cap - 1
	}
	skipLock.Unlock()
	if pq.Reflag != "ok" {
		add("C02:write-failed:"+f[4]+":"+o.Backend, out)
	}
	for k, t := range pq.Arrived {
		pt := strings.SplitN(t, "~", 3)
		var m []string
		if len(pt) == 3 {
			m = strings.Split(pt[1], ",")
		}
		if len(m) != 6 {
			add("C02:malformed-output:pq", t)
			return
		}
		deleted := m[3] != "0" && !strings.HasPrefix(m[3], "-")
		expired := dbx.TsClass(m[2]) == "past"
		if k >= pq.Cap+1 && (deleted || expired) {
			add("C02:listed-after-delete:"+o.Backend, fmt.Sprintf("arrival %d of %d (buffer capacity %d), read after the %s had returned, is record %s with metadata %s (deleted / expired): its hand-over check cannot have preceded the %s",
				k+1, len(pq.Arrived), pq.Cap, f[4], pt[0], pt[1], f[4]))
			break
		}
	}
	if pq.Reflag == "ok" {
		for _, k := range strings.Split(f[5], ",") {
			if f[4] == "del" {
				o.Step(i, "del "+f[3]+" "+k, "ok")
			} else {
				o.Step(i, "setabs "+f[3]+" "+k+" 5", "ok")
			}
		}
	}
	return vs
}

var (
	skips    = map[string]int{}
	skipLock sync.Mutex
	boundary dbx.BoundaryStats
)

func main() {
	defer dbx.Cleanup()
	hxlib.Main(&hxlib.Harness{
		Prop:     "C02",
		Rule: "a case is one history on one configuration (backend hashmap/bbolt/fstree/badger x shadow-delete x cache none/read(256)/read(2)/delayed(256)/delayed(2), interface options incl. Always* flags): 15-85 operations (put, put-new, get, exists, delete, absolute/relative expiry, flag setters, attribute insert, complete PutMany batches incl. an out-of-scope record, query and purge with random key prefixes and condition trees over all operators incl. ill-typed, sub-level and erroneous ones, maintenance with explicit and wall-clock threshold bracketed by raw storage dumps, flush/clear) over 10-15 keys sharing prefixes and path separators — or, for a quarter of the histories, over 15-25 keys of a special universe (keys that differ only behind a colon inside the key, doubled / leading / trailing colons, space, %, #, ?, *, backslash, ~, ^, dot-led names, multi-byte runes, 200-byte segments, names that are not clean relative paths: ordinary keys on hashmap / bbolt / badger, to be refused by fstree) with query prefixes ending at and around those characters; records as typed struct, JSON wrapper (incl. missing and wrong-typed fields) and RAW wrapper, metadata with past/future absolute expiry, relative expiry, deletion stamps; plus regression cases for every repaired defect, iterator hand-over runs (free and with the producer held at the yield point in Finish), a real storage timeout, purges of more than 1000 records on bbolt, and clock-boundary cases (records on all four backends x both delete modes whose expiry time or deletion stamp lies one or two seconds ahead, absolute or through a TTL; the case waits for that second to begin and, within it, runs get*/query/maintenance-or-purge/get*/query per database between two clock readings; implementation only, judged when both readings are the same second: query = the keys get answers, maintenance changes no answer, purge counts and hides exactly those). Parked-query cases (implementation only): 12-60 records, a query whose consumer does not read until the result buffer is full, then deletes / expiries in the past on a subset, then the consumer reads on: from the (buffer capacity + 2)-th arrival on no listed record is itself deleted or expired. Every other case runs on the real database package and on the compiled Lean model; outputs are compared line by line; the monitor replays the case on an independent reference map. A case is non-trivial if it wrote and read; distinct by the hash of its lines.",
		Generate: generate,
		NewExec:  func(*hxlib.Run) hxlib.Exec { return dbx.New(nil) },
		Monitor:  monitor,
		Extra: func(*hxlib.Run) map[string]any {
			return map[string]any{"monitor_not_judged": skips, "boundary_blocks": map[string]int{"judged": boundary.Judged,
				"with_maintenance_or_purge": boundary.AtBoundary, "not_judged_second_changed_inside_block": boundary.CrossedSecond, "waitsec_late": boundary.Late}}
		},
		DisSig: func(line, impl, model string) string {
			return "corr:" + strings.Fields(line)[0]
		},
	})
}

func b2i(b bool) int {
	if b {
		return 1
	}
	return 0
}
